"""Shared machinery of the checks: translator / Lean build / axiom audit / harness build /
sharded driver runs / known findings / replay + evidence writers.

Exit protocol (see MANIFEST.json): 0 = property held on everything explored; 1 = VIOLATION
line printed.  Nothing here decides a property: the deciding artefacts are the Lean theorems
(Props/<ID>.lean) and the tie to the code (translator + correspondence)."""
import fcntl
import hashlib
import json
import os
import re
import subprocess
import sys
import time

ROOT = os.path.dirname(os.path.dirname(os.path.abspath(__file__)))
LEAN = os.path.join(ROOT, "lean")
HARNESS = os.path.join(ROOT, "harness")
REPO = os.environ.get("NUCLEO_REPO", "/repo")
DRIVER = os.path.join(LEAN, ".lake", "build", "bin", "nucleo_model")
ALLOWED_AXIOMS = {"propext", "Classical.choice", "Quot.sound"}
FORBIDDEN = re.compile(r"\b(sorry|admit|native_decide|bv_decide|implemented_by|unsafe)\b|^axiom\s|maxHeartbeats\s+0", re.M)
NCPU = min(16, os.cpu_count() or 4)

TRUSTED_BASE = [
    "Lean 4.33 kernel (thorough tier re-checks the property module with leanchecker)",
    "axioms: subset of {propext, Classical.choice, Quot.sound} (audited with #print axioms on every run); no native_decide/bv_decide/sorry",
    "translator/translate.py (Rust data -> Gen/*.lean), fails loudly on unexpected shapes",
    "correspondence harness (harness/, Rust, built from /repo's working tree with --cfg nucleo_verif) and the Lean driver's line protocol",
]


class Ctx:
    def __init__(self, pid, tier, seed):
        self.pid = pid
        self.tier = tier
        self.seed = seed
        self.t0 = time.time()
        self.violations = []      # list of dict(replay=path, what=str, no_input=bool)
        self.known = []           # KNOWN-FINDING lines
        self.notes = []
        self.coverage = {}
        self.assumptions = []

    def log(self, msg):
        print(f"[{self.pid}] {msg}", flush=True)


def sh(cmd, cwd=None, timeout=None, env=None, input_bytes=None):
    e = dict(os.environ)
    e["CARGO_NET_OFFLINE"] = "true"
    if env:
        e.update(env)
    p = subprocess.run(cmd, cwd=cwd, shell=isinstance(cmd, str), stdout=subprocess.PIPE, stderr=subprocess.STDOUT,
                       timeout=timeout, env=e, input=input_bytes)
    return p.returncode, p.stdout.decode("utf-8", "replace")


class BuildLock:
    def __enter__(self):
        self.f = open(os.path.join(ROOT, ".build.lock"), "w")
        fcntl.flock(self.f, fcntl.LOCK_EX)
        return self

    def __exit__(self, *a):
        fcntl.flock(self.f, fcntl.LOCK_UN)
        self.f.close()


# ----------------------------------------------------------------------------------------

def lean_import_closure(roots):
    """module names reachable from the given module names through `import` lines of the project's own files"""
    seen, todo = set(), list(roots)
    while todo:
        m = todo.pop()
        if m in seen:
            continue
        seen.add(m)
        f = os.path.join(LEAN, *m.split(".")) + ".lean"
        if not os.path.exists(f):
            continue
        for line in open(f, encoding="utf-8"):
            mm = re.match(r"import\s+((?:NucleoVerif|Main)[A-Za-z0-9_.]*)", line)
            if mm:
                todo.append(mm.group(1))
    return seen


def translate(ctx):
    """runs every generator; the result counts against this property only if a generator failed whose file the property's
    theorem modules or the model driver import (the other generated files are left as they were)"""
    rc, out = sh([sys.executable, os.path.join(ROOT, "translator", "translate.py")])
    ctx.log(out.strip())
    if rc == 0:
        return True, out
    failed = re.findall(r"TRANSLATE-ERROR (\w+)\.lean", out)
    if not failed:
        return False, out
    closure = lean_import_closure(prop_modules(ctx.pid) + ["Main"])
    mine = [f for f in failed if f"NucleoVerif.Gen.{f}" in closure]
    if not mine:
        ctx.log("translator errors concern generated files this property does not import: " + ", ".join(failed))
        return True, out
    # theorems that rest on a generated file that could not be regenerated are stated about the previous source: not discharged
    stale = []
    for f in prop_files(ctx.pid):
        mod = "NucleoVerif.Props." + os.path.basename(f)[:-5]
        cl = lean_import_closure([mod])
        if any(f"NucleoVerif.Gen.{g}" in cl for g in mine):
            stale += theorem_names_of(f)
    ctx.stale_theorems = stale
    return False, "\n".join(l for l in out.splitlines() if any(f"TRANSLATE-ERROR {f}.lean" in l for f in mine))


def lean_build(ctx, targets):
    with BuildLock():
        rc, out = sh(["lake", "build"] + targets, cwd=LEAN, timeout=3600)
    if rc != 0:
        ctx.log("lake build failed:\n" + "\n".join(out.splitlines()[-40:]))
    return rc == 0, out


def prop_files(pid):
    """Props/<pid>.lean and its companion files Props/<pid>_*.lean (theorems of the same property that need later modules)"""
    d = os.path.join(LEAN, "NucleoVerif", "Props")
    comp = sorted(f for f in os.listdir(d) if f.startswith(pid + "_") and f.endswith(".lean"))
    return [os.path.join(d, f"{pid}.lean")] + [os.path.join(d, f) for f in comp]


def prop_modules(pid):
    return ["NucleoVerif.Props." + os.path.basename(f)[:-5] for f in prop_files(pid)]


def theorem_names(pid):
    """fully qualified names of the theorems declared in Props/<pid>.lean and its companion files"""
    names = []
    for f in prop_files(pid):
        names += theorem_names_of(f)
    return names


def theorem_names_of(path):
    src = open(path, encoding="utf-8").read()
    src_nc = re.sub(r"/-.*?-/", "", src, flags=re.S)
    src_nc = re.sub(r"--.*", "", src_nc)
    names = []
    ns = []
    for line in src_nc.splitlines():
        m = re.match(r"^namespace\s+(\S+)", line)
        if m:
            ns.append(m.group(1))
            continue
        m = re.match(r"^end\s+(\S+)", line)
        if m and ns and ns[-1] == m.group(1):
            ns.pop()
            continue
        m = re.match(r"^(?:private\s+)?theorem\s+([^\s:({\[]+)", line)
        if m:
            names.append(".".join(ns + [m.group(1)]))
    return names


def lean_sources_for(pid):
    files = []
    for sub in ("Model", "Spec", "Lemmas", "Gen", "Driver"):
        d = os.path.join(LEAN, "NucleoVerif", sub)
        if os.path.isdir(d):
            for r, _, fs in os.walk(d):
                files += [os.path.join(r, f) for f in fs if f.endswith(".lean")]
    files += prop_files(pid)
    return files


def audit(ctx, pid, extra_modules=()):
    """#print axioms on every theorem of Props/<pid>.lean + forbidden-token grep.
    returns (obligations, discharged, problems[list of str], axioms_used[set])"""
    names = theorem_names(pid)
    os.makedirs(os.path.join(LEAN, ".audit"), exist_ok=True)
    path = os.path.join(LEAN, ".audit", f"{pid}.lean")
    with open(path, "w") as f:
        for m in prop_modules(pid):
            f.write(f"import {m}\n")
        for m in extra_modules:
            f.write(f"import {m}\n")
        for n in names:
            f.write(f"#print axioms {n}\n")
    rc, out = sh(["lake", "env", "lean", path], cwd=LEAN, timeout=1800)
    problems = []
    used = set()
    ok_names = set()
    for m in re.finditer(r"'(\S+?)' (depends on axioms: \[([^\]]*)\]|does not depend on any axioms)", out.replace("\n", " ")):
        nm = m.group(1)
        axs = set(a.strip() for a in (m.group(3) or "").split(",") if a.strip())
        used |= axs
        badax = axs - ALLOWED_AXIOMS
        if badax:
            problems.append(f"theorem {nm} depends on disallowed axioms {sorted(badax)}")
        else:
            ok_names.add(nm)
    if rc != 0:
        problems.append("audit file failed to elaborate: " + out.strip()[-400:])
    for n in names:
        if n not in ok_names and not any(n in p for p in problems):
            problems.append(f"theorem {n}: no axiom report")
    # forbidden tokens outside comments
    for fpath in lean_sources_for(pid):
        src = open(fpath, encoding="utf-8").read()
        src_nc = re.sub(r"/-.*?-/", "", src, flags=re.S)
        src_nc = re.sub(r"--.*", "", src_nc)
        m = FORBIDDEN.search(src_nc)
        if m:
            problems.append(f"forbidden token {m.group(0)!r} in {os.path.relpath(fpath, ROOT)}")
    return len(names), len([n for n in names if n in ok_names]), problems, used, names


def leanchecker(ctx, pid):
    rc, out = 0, ""
    for m in prop_modules(pid):
        rc1, out1 = sh(["lake", "env", "leanchecker", m], cwd=LEAN, timeout=3600)
        rc, out = (rc or rc1), out + out1
    return rc == 0, out


def harness_build(ctx):
    with BuildLock():
        rc, out = sh(["cargo", "build", "--release", "--offline"], cwd=HARNESS, timeout=3600)
    if rc != 0:
        errs = [l for l in out.splitlines() if l.startswith("error")]
        ctx.log("harness build failed:\n" + "\n".join(errs[:20]))
    return rc == 0, out


def hbin(name):
    return os.path.join(HARNESS, "target", "release", name)


def run_driver(lines, shards=NCPU, timeout=7200):
    """lines: list[str] (without newline). Returns list[str] answers, same order."""
    if not lines:
        return []
    nbytes = sum(len(l) for l in lines)
    shards = max(1, min(shards, max((len(lines) + 199) // 200, nbytes // 200000), len(lines)))
    procs = []
    for i in range(shards):
        part = lines[i::shards]      # round-robin so that expensive cases spread over the shards
        if not part:
            continue
        p = subprocess.Popen(["bash", "-c", f"ulimit -s unlimited 2>/dev/null; exec {DRIVER}"], stdin=subprocess.PIPE,
                             stdout=subprocess.PIPE, stderr=subprocess.PIPE)
        procs.append((p, part))
    # feed in threads to avoid pipe deadlock
    import threading
    outs = [None] * len(procs)

    def work(k):
        p, part = procs[k]
        data = ("\n".join(part) + "\n").encode()
        o, e = p.communicate(data, timeout=timeout)
        outs[k] = (o.decode("utf-8", "replace").splitlines(), e.decode("utf-8", "replace"), p.returncode, len(part))

    ths = [threading.Thread(target=work, args=(k,)) for k in range(len(procs))]
    for t in ths:
        t.start()
    for t in ths:
        t.join()
    res = [None] * len(lines)
    for k, (o, e, rc, n) in enumerate(outs):
        if rc != 0 or len(o) != n:
            o = o + [f"DRIVER-CRASH rc={rc} {e.strip()[-200:]}"] * (n - len(o))
        res[k::len(outs)] = o[:n]
    return res


def run_harness(name, args=(), timeout=7200, env=None, input_bytes=None):
    e = dict(os.environ)
    if env:
        e.update(env)
    p = subprocess.run([hbin(name)] + [str(a) for a in args], stdout=subprocess.PIPE, stderr=subprocess.PIPE, timeout=timeout,
                       env=e, input=input_bytes)
    return p.returncode, p.stdout.decode("utf-8", "replace"), p.stderr.decode("utf-8", "replace")


# ----------------------------------------------------------------------------------------
# known findings

def load_known():
    known, fixed = [], []
    path = os.path.join(ROOT, "KNOWN_FINDINGS.txt")
    if not os.path.exists(path):
        return known, fixed
    for line in open(path, encoding="utf-8"):
        line = line.strip()
        if not line or line.startswith("#"):
            continue
        m = re.match(r"known:\s+property=(\S+)\s+key=(\S+)\s+(.*)", line)
        if m:
            known.append(dict(pid=m.group(1), key=m.group(2), what=m.group(3)))
            continue
        m = re.match(r"fixed:\s+property=(\S+)\s+(\S+)\s+(.*)", line)
        if m:
            fixed.append(dict(pid=m.group(1), commit=m.group(2), what=m.group(3)))
    return known, fixed


def known_for(pid):
    return [k for k in load_known()[0] if k["pid"] == pid]


# ----------------------------------------------------------------------------------------
# replays, evidence, verdict

def write_replay(ctx, payload):
    os.makedirs(os.path.join(ROOT, "replays"), exist_ok=True)
    blob = json.dumps(payload, sort_keys=True, ensure_ascii=False)
    h = hashlib.sha1(blob.encode()).hexdigest()[:10]
    path = os.path.join(ROOT, "replays", f"{ctx.pid}-{h}.json")
    with open(path, "w", encoding="utf-8") as f:
        json.dump(payload, f, indent=1, ensure_ascii=False)
    return path


def violation(ctx, what, payload, no_input=False):
    payload = dict(payload)
    payload.setdefault("property", ctx.pid)
    payload["what"] = what
    payload["no_failing_input_found"] = no_input
    path = write_replay(ctx, payload)
    ctx.violations.append(dict(replay=path, what=what, no_input=no_input))


def finish(ctx, level="proof"):
    wall = time.time() - ctx.t0
    cov = dict(ctx.coverage)
    cov.setdefault("trusted_base", TRUSTED_BASE)
    ev = {
        "property_id": ctx.pid,
        "tier": ctx.tier,
        "seed": int(ctx.seed),
        "level": level,
        "coverage": cov,
        "assumptions": ctx.assumptions,
        "wall_s": round(wall, 2),
        "violations": len(ctx.violations),
        "known_findings": ctx.known,
        "notes": ctx.notes,
    }
    os.makedirs(os.path.join(ROOT, "evidence"), exist_ok=True)
    with open(os.path.join(ROOT, "evidence", f"{ctx.pid}.json"), "w", encoding="utf-8") as f:
        json.dump(ev, f, indent=1, ensure_ascii=False)
    for k in ctx.known:
        print(f"KNOWN-FINDING: property={ctx.pid} {k}")
    if ctx.violations:
        for v in ctx.violations[:20]:
            tail = " no-failing-input-found" if v["no_input"] else ""
            print(f"# {v['what']}")
            print(f"VIOLATION property={ctx.pid} replay={v['replay']}{tail}")
        sys.stdout.flush()
        return 1
    print(f"[{ctx.pid}] OK tier={ctx.tier} wall={wall:.1f}s obligations={cov.get('obligations')} discharged={cov.get('discharged')} "
          f"evaluations={cov.get('evaluations')}")
    return 0


def proof_stage(ctx, extra_targets=()):
    """translator + lake build of the property module and the driver + audit.
    Returns dict(ok=bool, driver_ok=bool, detail=str)."""
    pid = ctx.pid
    tr_ok, tr_out = translate(ctx)
    res = dict(ok=True, driver_ok=True, detail="")
    if not tr_ok:
        res.update(ok=False, detail="translator: " + tr_out.strip())
    d_ok, d_out = lean_build(ctx, ["nucleo_model"])
    res["driver_ok"] = d_ok
    if not d_ok:
        # without the model driver nothing is compared: never a pass
        errs = re.findall(r"error: ([^\n]*)", d_out)
        res["ok"] = False
        res["detail"] += " the model driver (lake build nucleo_model) does not build: " + ("; ".join(errs[:4]) or d_out[-400:])
    p_ok, p_out = lean_build(ctx, prop_modules(pid) + list(extra_targets))
    if not p_ok:
        errs = re.findall(r"error: (NucleoVerif/[^\n]*)", p_out)
        res["ok"] = False
        res["detail"] += " lake build NucleoVerif.Props.%s failed: %s" % (pid, "; ".join(errs[:6]) or p_out[-600:])
        res["failed_files"] = sorted(set(re.findall(r"error: (NucleoVerif/[A-Za-z0-9_/]+\.lean)", p_out)))
        res["failed_decls"] = failed_decls(p_out)
        ctx.coverage.update(proof_broken=True, obligations_stated=len(theorem_names(pid)))
    else:
        n, d, problems, used, names = audit(ctx, pid)
        stale = [t for t in getattr(ctx, "stale_theorems", []) if t in names]
        if stale:
            d = max(0, d - len(stale))
            ctx.coverage["not_discharged_translation_failed"] = stale[:50]
        ctx.coverage.update(obligations=n, discharged=d, axioms_used=sorted(used), theorems=names)
        if problems:
            res["ok"] = False
            res["detail"] += " audit: " + "; ".join(problems[:6])
        if ctx.tier == "thorough" and res["ok"]:
            ok, out = leanchecker(ctx, pid)
            ctx.coverage["leanchecker"] = "ok" if ok else out[-300:]
            if not ok:
                res["ok"] = False
                res["detail"] += " leanchecker failed"
    ctx.coverage["checker_cmd"] = (f"python3 translator/translate.py && cd lean && lake build {' '.join(prop_modules(pid))} && "
                                   f"lake env lean .audit/{pid}.lean   # #print axioms on every theorem")
    return res


def failed_decls(build_out):
    """names of the declarations whose proof no longer checks, from lake's error positions"""
    out = []
    for m in re.finditer(r"error: (NucleoVerif/[A-Za-z0-9_/]+\.lean):(\d+):(\d+)", build_out):
        path, line = os.path.join(LEAN, m.group(1)), int(m.group(2))
        try:
            src = open(path, encoding="utf-8").read().splitlines()
        except OSError:
            continue
        for k in range(min(line, len(src)) - 1, -1, -1):
            mm = re.match(r"\s*(?:private\s+)?(?:theorem|def|example|lemma|instance)\s+([A-Za-z_0-9'.]+)?", src[k])
            if mm:
                out.append(f"{m.group(1)}:{mm.group(1) or 'example'}")
                break
    return sorted(set(out))


# ----------------------------------------------------------------------------------------
# generic "run harness jobs -> driver -> classify" check

JOB_TIMEOUT = 14400


def run_jobs(jobs, seed, stdin_by_job=None):
    """jobs: list of (bin, args). Run all in parallel; return (lines, per_job_counts, failures)."""
    env = dict(os.environ, VERIF_SEED=str(seed))
    procs = []
    for k, (b, args) in enumerate(jobs):
        inp = (stdin_by_job or {}).get(k)
        p = subprocess.Popen([hbin(b)] + [str(a) for a in args], stdout=subprocess.PIPE, stderr=subprocess.PIPE,
                             stdin=subprocess.PIPE if inp is not None else subprocess.DEVNULL, env=env)
        procs.append((b, args, p, inp))
    lines, counts, failures = [], {}, []
    # drain every job's pipes concurrently (a job whose stdout/stderr pipe is full would otherwise sit blocked until the
    # jobs in front of it have finished, and the jobs would in effect run one after the other)
    from concurrent.futures import ThreadPoolExecutor
    def drain(t):
        try:
            return t[2].communicate(t[3], timeout=JOB_TIMEOUT)
        except subprocess.TimeoutExpired:
            t[2].kill()
            o, e = t[2].communicate()
            return o, e + f"\n[harness job killed: no result within {JOB_TIMEOUT} s (hang); panicked or blocked while executing a generated case]\n".encode()
    with ThreadPoolExecutor(max_workers=max(1, len(procs))) as ex:
        outs = list(ex.map(drain, procs))
    for (b, args, p, inp), (o, e) in zip(procs, outs):
        out = o.decode("utf-8", "replace").splitlines()
        lines += out
        key = b + " " + (str(args[0]) if args else "")
        counts[key] = counts.get(key, 0) + len(out)
        if p.returncode != 0:
            err = e.decode("utf-8", "replace")
            k = err.rfind("HIST-BEGIN")
            tail = ErrTail(f"[harness process exit code {p.returncode}{' (killed by signal %d)' % -p.returncode if p.returncode < 0 else ''}]\n"
                           + (err[k:][-6000:] if k >= 0 else err[-1500:]))
            tail.rc = p.returncode
            c = err.rfind("CASE M ")
            tail.last_case = err[c + 5:].split("\n", 1)[0] if c >= 0 else None
            tail.cmd = " ".join([b] + [str(a) for a in args])
            failures.append((key, tail))
    return lines, counts, failures


def field_distribution(prefixes, names, numeric=()):
    """a `distribution` callback for simple_check: for the lines starting with one of `prefixes`, how often each value of the
    fields `names` occurs (`numeric` fields are bucketed by powers of 4)"""
    def bucket(v):
        try:
            n = int(v)
        except ValueError:
            return v[:20]
        b = 0
        while n > b:
            b = max(1, b * 4)
        return "<=%d" % b

    def run(lines):
        from collections import Counter
        out = {n: Counter() for n in names}
        total = 0
        for l in lines:
            if not any(l.startswith(p) for p in prefixes):
                continue
            total += 1
            f = dict(w.split("=", 1) for w in l.split()[1:] if "=" in w)
            for n in names:
                v = f.get(n, "?")
                out[n][bucket(v) if n in numeric else v[:24]] += 1
        d = {n: dict(c.most_common(24)) for n, c in out.items()}
        d["lines"] = total
        return d
    return run


class ErrTail(str):
    """stderr tail of a failed harness job, with its exit code, the last case it announced and its command line"""
    rc = 0
    last_case = None
    cmd = ""


def simple_check(ctx, jobs, rule, nontrivial, describe=None, known_filter=None, correspondence="", assumptions=(), shrinker=None, distribution=None,
                 evals_per_line=1, sample_filter=None):
    """nontrivial(line) -> hashable key or None."""
    pid = ctx.pid
    st = proof_stage(ctx)
    hb_ok, hb_out = harness_build(ctx)
    lines, counts, failures = ([], {}, [])
    if hb_ok:
        lines, counts, failures = run_jobs(jobs(ctx) if callable(jobs) else jobs, ctx.seed)
    mine, diffs, crashes = [], [], []
    keys = set()
    if hb_ok and st["driver_ok"]:
        answers = run_driver(lines)
        for l, a in zip(lines, answers):
            k = nontrivial(l)
            if k is not None:
                keys.add(k)
            if a == "ok":
                continue
            for part in a.split(" ## "):
                part = part.strip()
                if part.startswith("ORACLE " + pid + " "):
                    mine.append((l, part))
                elif part.startswith("DIFF"):
                    diffs.append((l, part))
                elif part.startswith("ORACLE bad-") or part.startswith("bad-"):
                    # the driver could not parse what the harness printed: a protocol error of the machinery itself,
                    # never to be ignored (it would silently switch clauses off)
                    crashes.append((l, "driver protocol error: " + part))
                elif part.startswith("ORACLE"):
                    pass
                else:
                    crashes.append((l, part))
    samples = [l[:400] for l in lines if (sample_filter(l) if sample_filter else True)][:3]
    ctx.coverage.update(evaluations=len(lines) * evals_per_line, distinct_nontrivial=len(keys), streams=counts, rule=rule,
                        samples=samples or ["(no cases: harness did not run)"], model_disagreements=len(diffs), oracle_failures=len(mine))
    if distribution is not None:
        try:
            ctx.coverage["input_distribution"] = distribution(lines)
        except Exception as ex:      # the distribution is descriptive only; never let it decide a check
            ctx.coverage["input_distribution"] = {"error": str(ex)[:200]}
    ctx.assumptions += list(assumptions)
    unknown = []
    seen_known = {}
    for l, part in mine:
        k = known_filter(l, part) if known_filter else None
        if k:
            seen_known.setdefault(k, (l, part))
        else:
            unknown.append((l, part))
    for k, (l, part) in seen_known.items():
        ctx.known.append(f"{k}: {part[:200]}")
    seen_kinds = set()
    for l, part in unknown:
        kind = re.sub(r"[0-9a-f]{2,}|[0-9]+", "N", part)[:60]
        if kind in seen_kinds or len(seen_kinds) >= 6:
            continue
        seen_kinds.add(kind)
        if shrinker:
            l, part = shrinker(ctx, l, part)
        violation(ctx, part, dict(kind="oracle-on-implementation", clause=part, case=(describe(l) if describe else l[:2000]),
                                  harness_line=l[:6000], replay_cmd=f"./check {pid} --replay <this file>"))
    def crashed(f):
        return "HIST-BEGIN" in f[1] or "panicked" in f[1] or getattr(f[1], "rc", 0) < 0

    if not unknown:
        if hb_ok and failures and any(crashed(f) for f in failures):
            # the real code died (panic, abort, signal) on a generated case: that case is the failing input
            key, err = [f for f in failures if crashed(f)][0]
            msg = [l for l in err.splitlines() if "harness job killed" in l] or \
                  [l for l in err.splitlines() if "panicked" in l or "overflow" in l or "abort" in l.lower() or "signal" in l]
            rep = dict(kind="crash-in-implementation", harness_job=key, history_so_far=[l for l in err.splitlines() if l.startswith("EV") or l.startswith("HIST")],
                       stderr_tail=err[-2500:], replay_cmd=f"VERIF_SEED={ctx.seed} harness/target/release/" + (getattr(err, "cmd", "") or key))
            if getattr(err, "last_case", None):
                rep["harness_line"] = err.last_case[:400000]
                rep["case"] = describe(err.last_case) if describe else err.last_case[:2000]
            if not st["ok"]:
                rep["proof"] = st["detail"][-800:]
            what = "the real code did not finish a generated case (hang)" if msg and "harness job killed" in msg[0] else "the real code crashed while the harness executed a generated case"
            violation(ctx, f"{what} ({(msg or ['process died'])[0][:200]})", rep)
        elif not st["ok"]:
            violation(ctx, f"{pid} proof obligations no longer check: " + st["detail"].strip()[:300],
                      dict(kind="proof-broken", detail=st["detail"], failed=st.get("failed_decls", []),
                           searched=f"{len(lines)} generated cases against the property's clauses: no failing input"), no_input=True)
        elif not hb_ok or failures:
            violation(ctx, "correspondence harness does not build/run against the current tree",
                      dict(kind="correspondence-broken", detail=(hb_out[-1500:] if not hb_ok else str(failures))), no_input=True)
        elif not lines:
            # nothing was compared: never a pass
            violation(ctx, "the correspondence run produced no cases", dict(kind="correspondence-broken", detail="0 harness lines"), no_input=True)
        elif diffs or crashes:
            l, a = (diffs + crashes)[0]
            violation(ctx, f"model and implementation disagree ({correspondence}); no clause of {pid} fails on the implementation: {a[:200]}",
                      dict(kind="correspondence-broken", correspondence=correspondence, harness_line=l[:6000], model_says=a,
                           count=len(diffs) + len(crashes)), no_input=True)
    return finish(ctx)


def simple_replay(ctx, path, bin_name, corpus_mode="corpus"):
    import json
    p = json.load(open(path))
    harness_build(ctx)
    lean_build(ctx, ["nucleo_model"])
    line = p.get("harness_line")
    if not line:
        return None
    r = subprocess.run([hbin(bin_name), corpus_mode], input=(line + "\n").encode(), stdout=subprocess.PIPE, stderr=subprocess.PIPE)
    out = r.stdout.decode().splitlines()
    ans = run_driver(out, shards=1)
    rc = 0
    for o, a in zip(out, ans):
        print(o[:800])
        print("  ->", a)
        if ("ORACLE " + ctx.pid) in a:
            rc = 1
    return rc
