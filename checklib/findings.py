"""Predicates that recognise the *specific* known findings listed in KNOWN_FINDINGS.txt.
A failure that does not satisfy the predicate of a listed key is reported as a VIOLATION."""
import re
from . import core


def _fields(line):
    return dict(w.split("=", 1) for w in line.split()[1:] if "=" in w)


def k1_ascii_hay_unicode_ascii_needle(line, issue):
    """C01/C05: ASCII-representation haystack, code-point-representation needle made of ASCII characters only:
    every algorithm returns None although the relation holds"""
    f = _fields(line)
    if f.get("hr") != "A" or f.get("nr") != "U" or f.get("needle") in (None, "-"):
        return False
    if not all(int(x, 16) < 128 for x in f["needle"].split(",")):
        return False
    return "returned None but" in issue or "decision false, specification true" in issue


def k3_score_exceeds_u16(line, issue):
    """C03: the scheme's value on the reported alignment exceeds 65535 and the u16 result is saturated"""
    m = re.search(r"score (\d+) but the scheme gives (\d+)", issue)
    return bool(m) and int(m.group(1)) == 65535 and int(m.group(2)) > 65535


def k2_lost_wakeup(line, issue):
    """C13: the run read should_notify (false) and was still holding the worker lock when a tick timed out,
    re-armed the flag and returned running=true; the run then finished without notifying"""
    return "the run had read should_notify before the tick re-armed it" in issue and "tick:2:" in line


def k4_prefix_not_monotone_matrix(line, issue):
    """C04: on the matrix path the prefix bonus enters the first row only and the recurrence's consecutive-bonus
    heuristic may then prefer another alignment: the score can drop by 1 or rise by 9"""
    return "prefix preference changes the score" in issue and "on the matrix path" in issue


PREDICATES = {
    "prefer_prefix_not_monotone_on_matrix_path": k4_prefix_not_monotone_matrix,
    "lost_wakeup_flag_read_before_rearm": k2_lost_wakeup,
    "ascii_hay_unicode_ascii_needle": k1_ascii_hay_unicode_ascii_needle,
    "score_exceeds_u16": k3_score_exceeds_u16,
}


def matcher_known(pid):
    keys = [k["key"] for k in core.known_for(pid)]

    def f(line, issue):
        for k in keys:
            pred = PREDICATES.get(k)
            if pred and pred(line, issue):
                return k
        return None
    return f
