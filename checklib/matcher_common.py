"""Shared correspondence / failing-input search for the matcher properties C01–C05 and C10.

One stream of generated cases is executed on the real `Matcher` (harness `matcher_ops`) and
replayed on the Lean model driver; the driver also evaluates the clauses of every matcher
property on the implementation's own results and tags each failure with the property it
belongs to.  A check for property P reports (a) failures tagged P, (b) model/implementation
disagreements (the correspondence all matcher theorems rest on)."""
import os
import re
import subprocess
from . import core

# corpus of minimised past failures, run first
CORPUS = os.path.join(core.ROOT, "corpus", "matcher.txt")


def gen_streams(ctx):
    quick = ctx.tier == "quick"
    env = dict(os.environ, VERIF_SEED=str(ctx.seed))
    jobs = []
    nshard = core.NCPU
    per = 2500 if quick else 60000
    for k in range(nshard):
        jobs.append(("rand", ["rand", per, 60 if quick else 300, k]))
    for k in range(nshard):
        jobs.append(("occ", ["occ", 2500 if quick else 60000, k]))
    for k in range(nshard // 2):
        jobs.append(("dense", ["dense", 2500 if quick else 60000, k]))
        jobs.append(("edge", ["edge", 2500 if quick else 60000, k]))
    cfgs = "1,3,0,11,9" if quick else "0,1,2,3,8,9,10,11,5,13"
    # exhaustive small domain, one job per configuration
    for c in cfgs.split(","):
        jobs.append(("exh", ["exh", 3 if quick else 4, 2, c]))
    jobs.append(("letters", ["letters"]))
    jobs.append(("sizes", ["sizes", 88 if quick else 600]))
    jobs.append(("long", ["long", 8 if quick else 48]))
    jobs.append(("far", ["far", 24 if quick else 240]))
    procs = []
    for kind, args in jobs:
        p = subprocess.Popen([core.hbin("matcher_ops")] + [str(a) for a in args], stdout=subprocess.PIPE, stderr=subprocess.PIPE, env=env)
        procs.append((kind, args, p))
    lines = []
    kinds = {}
    bad = []
    # corpus first
    if os.path.exists(CORPUS):
        data = open(CORPUS, "rb").read()
        p = subprocess.run([core.hbin("matcher_ops"), "corpus"], input=data, stdout=subprocess.PIPE, stderr=subprocess.PIPE, env=env)
        out = p.stdout.decode().splitlines()
        lines += out
        kinds["corpus"] = len([l for l in out if l.startswith("M ")])
        if p.returncode != 0:
            bad.append(("corpus", p.stderr.decode()[-300:]))
    # drain all jobs' pipes concurrently (see core.run_jobs)
    from concurrent.futures import ThreadPoolExecutor
    with ThreadPoolExecutor(max_workers=max(1, len(procs))) as ex:
        outs = list(ex.map(lambda t: t[2].communicate(), procs))
    for (kind, args, p), (o, e) in zip(procs, outs):
        out = o.decode().splitlines()
        lines += out
        kinds[kind] = kinds.get(kind, 0) + len([l for l in out if l.startswith("M ")])
        if p.returncode != 0:
            err = e.decode("utf-8", "replace")
            tail = core.ErrTail(f"[harness process exit code {p.returncode}{' (killed by signal %d)' % -p.returncode if p.returncode < 0 else ''}] " + err[-300:])
            tail.rc = p.returncode
            c = err.rfind("CASE M ")
            tail.last_case = err[c + 5:].split("\n", 1)[0] if c >= 0 else None
            tail.cmd = "matcher_ops " + " ".join(map(str, args))
            bad.append((kind + " " + " ".join(map(str, args)), tail))
    return lines, kinds, bad


def fields(line):
    return dict(w.split("=", 1) for w in line.split()[1:] if "=" in w)


def nontrivial_key(line):
    f = fields(line)
    return (f.get("cfg"), f.get("hr"), f.get("nr"), f.get("hay"), f.get("needle"))


def shrink(ctx, line, pid_tag):
    """delta-debug the haystack/needle of a failing M line while the same kind of failure persists"""
    f = fields(line)
    hay = [] if f["hay"] == "-" else f["hay"].split(",")
    needle = [] if f["needle"] == "-" else f["needle"].split(",")

    def fails(h, n):
        l = "M cfg=%s hr=%s nr=%s hay=%s needle=%s" % (f["cfg"], f["hr"], f["nr"], ",".join(h) or "-", ",".join(n) or "-")
        p = subprocess.run([core.hbin("matcher_ops"), "corpus"], input=(l + "\n").encode(), stdout=subprocess.PIPE, stderr=subprocess.PIPE)
        out = [x for x in p.stdout.decode().splitlines()]
        ans = core.run_driver(out, shards=1)
        for o, a in zip(out, ans):
            if a != "ok" and (pid_tag in a):
                return o, a
        return None

    best = fails(hay, needle)
    if best is None:
        return line, None
    # chunks first (inputs beyond the matrix limits have tens of thousands of characters), then single characters; bounded in
    # steps and in wall-clock time - the unshrunk case is a valid replay as well
    import time
    budget, deadline = 150, time.time() + 90
    changed = True
    while changed and budget > 0 and time.time() < deadline:
        changed = False
        for which in ("hay", "needle"):
            seq = hay if which == "hay" else needle
            size = max(1, len(seq) // 2)
            while size >= 1 and budget > 0 and time.time() < deadline:
                i = 0
                while i < len(seq) and budget > 0 and time.time() < deadline:
                    cand = seq[:i] + seq[i + size:]
                    budget -= 1
                    r = fails(cand, needle) if which == "hay" else fails(hay, cand)
                    if r is not None:
                        if which == "hay":
                            hay = cand
                        else:
                            needle = cand
                        seq = cand
                        best = r
                        changed = True
                    else:
                        i += size
                if size == 1:
                    break
                size = max(1, size // 2) if len(seq) > 64 else 1
    return best


def describe(line):
    f = fields(line)

    def txt(s):
        if s == "-":
            return ""
        return "".join(chr(int(x, 16)) for x in s.split(","))
    hay, nd = txt(f["hay"]), txt(f["needle"])
    if len(hay) > 80:
        hay = hay[:40] + "…(%d chars)" % len(hay)
    if len(nd) > 80:
        nd = nd[:40] + "…(%d chars)" % len(nd)
    cid = int(f["cfg"])
    cfg = "ignore_case=%s normalize=%s prefer_prefix=%s preset=%s" % (bool(cid & 1), bool(cid & 2), bool(cid & 4), ["DEFAULT", "match_paths()", "set_match_paths()"][cid >> 3])
    return dict(haystack=hay, needle=nd, haystack_repr=f["hr"], needle_repr=f["nr"], config=cfg)


def run_matcher_check(ctx, pid, known_filter=None):
    """known_filter(line, issue_text) -> key of a known finding or None"""
    st = core.proof_stage(ctx)
    hb_ok, hb_out = core.harness_build(ctx)
    lines, kinds, gen_bad = ([], {}, [])
    if hb_ok:
        lines, kinds, gen_bad = gen_streams(ctx)
    mine, diffs, crashes = [], [], []
    keys = set()
    algos_hit = {}
    answers = []
    if hb_ok and st["driver_ok"]:
        answers = core.run_driver(lines)
        for l, a in zip(lines, answers):
            if l.startswith("M "):
                keys.add(nontrivial_key(l))
                for part in fields(l).get("res", "").split("|"):
                    bits = part.split(";")
                    if len(bits) == 5 and bits[1] not in ("none",) and not bits[1].startswith("panic"):
                        algos_hit[bits[0]] = algos_hit.get(bits[0], 0) + 1
            if a == "ok":
                continue
            for part in a.split(" ## "):
                part = part.strip()
                if part.startswith("ORACLE " + pid + " "):
                    mine.append((l, part))
                elif part.startswith("DIFF"):
                    diffs.append((l, part))
                elif part.startswith("ORACLE bad-") or part.startswith("bad-"):
                    # the driver could not parse what the harness printed: a protocol error of the machinery itself,
                    # never to be ignored (it would silently switch clauses off)
                    crashes.append((l, "driver protocol error: " + part))
                elif part.startswith("ORACLE"):
                    pass  # belongs to another property's check
                else:
                    crashes.append((l, part))
    n_m = len([l for l in lines if l.startswith("M ")])
    n_x = len([l for l in lines if l.startswith("X ")])
    # what the cases look like (descriptive only)
    from collections import Counter
    dist = dict(representations=Counter(), configurations=Counter(), haystack_len=Counter(), needle_len=Counter(), outcome=Counter())

    def bucket(n):
        for b in (0, 1, 2, 4, 8, 16, 64, 256, 4096, 65536):
            if n <= b:
                return "<=%d" % b
        return ">65536"
    for l in lines:
        if not l.startswith("M "):
            continue
        f = fields(l)
        dist["representations"][f.get("hr", "?") + "/" + f.get("nr", "?")] += 1
        dist["configurations"][f.get("cfg", "?")] += 1
        dist["haystack_len"][bucket(0 if f.get("hay", "-") == "-" else f["hay"].count(",") + 1)] += 1
        dist["needle_len"][bucket(0 if f.get("needle", "-") == "-" else f["needle"].count(",") + 1)] += 1
        for part in f.get("res", "").split("|"):
            bits = part.split(";")
            if len(bits) == 5:
                dist["outcome"][bits[0] + (":panic" if bits[1].startswith("panic") else ":none" if bits[1] == "none" else ":match")] += 1
    ctx.coverage["input_distribution"] = {k: dict(v) for k, v in dist.items()}
    nontriv = len([k for k in keys if k[3] != "-" and k[4] != "-"])
    ctx.coverage.update(
        evaluations=n_m * 6 * 6 + n_x, distinct_nontrivial=nontriv,
        cases=n_m, extents_lines=n_x, streams=kinds, matches_per_algorithm=algos_hit,
        rule="cases = (configuration, representations, haystack, needle); each case runs 6 algorithms x (score-only, indices) x "
             "(fresh, used, poisoned matcher); streams: corpus of past failures, seeded structured random (needles drawn as subsequences/"
             "substrings/trimmed copies of the normalized haystack, then perturbed), exhaustive small domain over an 8-symbol alphabet, "
             "occurrence-rich haystacks (the needle, near misses of it and separators concatenated), dense cases (haystacks of 6-16 characters over a tiny alphabet of mixed character classes with the needle embedded with gaps 0-2: ties between continuing a run and entering it from a gap), edge-whitespace cases (a core word; the needle carries whitespace at neither, either or both ends, the haystack wraps the core — sometimes re-cased or damaged — in 0-2 whitespace characters per side, ASCII and Unicode whitespace), every printable ASCII character as a needle character that only its other-case twin in the haystack can satisfy (`letters`), size-limit shapes (fixed list plus a band around the slab-fit boundary), long needles, matches starting beyond index 2^16 / 2^17; distinct non-trivial = distinct cases with non-empty haystack and needle",
        samples=[l[:300] for l in lines if l.startswith("M ")][:3] + [l for l in lines if l.startswith("X ")][:2],
        model_disagreements=len(diffs), oracle_failures=len(mine))
    ctx.assumptions += ["Rust std char::is_lowercase/is_numeric/is_alphabetic are inputs of the model",
                        "memchr/memmem behave as first-occurrence / all-occurrence searches",
                        "the optimal matcher is modelled at the level of the naive two-matrix recurrence (cells carry their alignment); "
                        "score_row's row compression and the back-pointer matrix are tied to it by correspondence only"]
    # known findings
    unknown = []
    seen_known = {}
    for l, part in mine:
        k = known_filter(l, part) if known_filter else None
        if k:
            seen_known.setdefault(k, (l, part))
        else:
            unknown.append((l, part))
    for k, (l, part) in seen_known.items():
        ctx.known.append(f"{k}: {part[:160]} [{describe(l)['needle'][:20]!r} in {describe(l)['haystack'][:30]!r}]")
    reported = 0
    seen_kinds = set()
    for l, part in unknown:
        kind = re.sub(r"[0-9]+", "N", part)[:70]
        if kind in seen_kinds or reported >= 6:
            continue
        seen_kinds.add(kind)
        reported += 1
        sl, sa = shrink(ctx, l, "ORACLE " + pid)
        if sa is None:
            sl, sa = l, part
        core.violation(ctx, part, dict(kind="oracle-on-implementation", clause=sa if isinstance(sa, str) else part,
                                       case=describe(sl), harness_line=sl[:4000], original_line=l[:2000],
                                       replay_cmd=f"./check {pid} --replay <this file>"))
    died = [b for b in gen_bad if getattr(b[1], "rc", 0) != 0]
    if not unknown:
        if hb_ok and died and pid == "C10":
            # the real code took the harness process down (abort / signal; ordinary panics are caught per case and reported
            # in the result field): for C10 (totality and memory safety of the scratch memory) that case is the failing input
            key, err = died[0]
            rep = dict(kind="crash-in-implementation", harness_job=key, stderr_tail=str(err)[-600:],
                       replay_cmd=f"VERIF_SEED={ctx.seed} harness/target/release/{err.cmd}")
            if err.last_case:
                rep["harness_line"] = err.last_case[:400000]
                rep["case"] = describe(err.last_case)
            if not st["ok"]:
                rep["proof"] = st["detail"][-800:]
            core.violation(ctx, f"the matcher crashed the process on a generated case ({'killed by signal %d' % -err.rc if err.rc < 0 else 'exit code %d' % err.rc})", rep)
        elif not st["ok"]:
            core.violation(ctx, f"{pid} proof obligations no longer check: " + st["detail"].strip()[:300],
                           dict(kind="proof-broken", detail=st["detail"], failed=st.get("failed_decls", []),
                                searched=f"{n_m} cases x 6 algorithms against the property's clauses: no failing input"), no_input=True)
        elif not hb_ok or gen_bad:
            core.violation(ctx, "correspondence harness does not build/run against the current tree",
                           dict(kind="correspondence-broken", detail=(hb_out[-1500:] if not hb_ok else str(gen_bad))), no_input=True)
        elif n_m == 0:
            # nothing was compared: never a pass
            core.violation(ctx, "the correspondence run produced no cases", dict(kind="correspondence-broken", detail="0 matcher cases"), no_input=True)
        elif diffs or crashes:
            l, a = (diffs + crashes)[0]
            core.violation(ctx, f"model and implementation disagree (correspondence Model/Matcher.lean ~ matcher/src), no clause of {pid} fails on the implementation: {a[:200]}",
                           dict(kind="correspondence-broken", correspondence="NucleoVerif.Model.Matcher ~ matcher/src/{lib,prefilter,fuzzy_greedy,fuzzy_optimal,exact,score,matrix}.rs",
                                case=describe(l) if l.startswith("M ") else l, harness_line=l[:4000], model_says=a, count=len(diffs) + len(crashes)), no_input=True)
    return core.finish(ctx)


def replay_matcher(ctx, pid, path):
    import json
    p = json.load(open(path))
    core.harness_build(ctx)
    core.lean_build(ctx, ["nucleo_model"])
    line = p.get("harness_line")
    if not line or not line.startswith("M "):
        print("replay names a proof/correspondence; re-running the check")
        return None
    r = subprocess.run([core.hbin("matcher_ops"), "corpus"], input=(line + "\n").encode(), stdout=subprocess.PIPE)
    out = r.stdout.decode().splitlines()
    ans = core.run_driver(out, shards=1)
    rc = 0
    for o, a in zip(out, ans):
        print(o[:600])
        print("  ->", a)
        if ("ORACLE " + pid) in a:
            rc = 1
    return rc
