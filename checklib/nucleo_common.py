"""Shared correspondence / failing-input search for the Nucleo-level properties
C06, C07, C12, C13, C19, C20: seeded histories on a real `Nucleo` (harness `nucleo_hist`),
replayed on the protocol model; the driver evaluates the clauses of each property on the
implementation's observations and tags them."""
from . import core, findings


def jobs(ctx):
    q = ctx.tier == "quick"
    per = 90 if q else 700
    js = [("nucleo_hist", ["rand", per, k]) for k in range(core.NCPU)]
    js += [("nucleo_hist", ["long", 12 if q else 120, 100 + k]) for k in range(4)]
    if ctx.pid == "C07":
        # the rule of the append shortcut on the real code: whenever reparse(append) reports Update, what the new pattern
        # matches must match the old one (haystacks built from the new needles through related characters)
        js += [("pattern_ops", ["narrow", 2500 if q else 120000, k]) for k in range(8)]
    return js


def nontrivial(l):
    if l.startswith("W "):
        f = dict(w.split("=", 1) for w in l.split()[1:] if "=" in w)
        return ("W", f.get("text"), f.get("app")) if f.get("status") == "1" and f.get("matched") not in (None, "0") else None
    if not l.startswith("H "):
        return None
    f = dict(w.split("=", 1) for w in l.split()[1:] if "=" in w)
    ev = f.get("ev", "")
    if ev.count("tick:") < 2:
        return None
    return ev


def describe(l):
    if l.startswith("W "):
        return dict(w.split("=", 1) for w in l.split()[1:] if "=" in w)
    f = dict(w.split("=", 1) for w in l.split()[1:] if "=" in w)
    return dict(pool_threads=f.get("pool"), columns=f.get("cols"), events=f.get("ev", "").split(";"), fresh_matcher_result=f.get("fresh"))


RULE = ("seeded histories on a real Nucleo<u32> (1-3 pool threads, 1-2 matcher columns): injector()/clone/drop, push and extend through injectors of the "
        "current or an older stream, writers paused inside their fill callback between index reservation and publication (up to 3) and released later, "
        "pattern edits typed like a user (append/delete/replace/clear; markers, escapes, upper case) with a truthful append flag, tick that lets the background "
        "run finish, tick whose run is held at run.start (times out) or at run.end (after it read should_notify), restart(true|false), release of a held run; "
        "then driven to quiescence and compared with a fresh Nucleo (C07 also: the 'narrow' stream - random text, appended text with append = true on a real MultiPattern; whenever "
        "the status is Update, 24 haystacks built from the new needles through related characters (other case, accents, characters whose case folding and normalization "
        "disagree) that match the new pattern must match the old one). After every event: active_injectors, notify calls; after tick/restart/release: the snapshot "
        "(item count, pattern, matches, get_item / get_matched_item of every match). Distinct non-trivial = distinct event sequences with at least two ticks")

ASSUME = ["the background run is one transition of the model, parameterised by what it observed (Obs); in the correspondence run the harness keeps writers paused "
          "during runs, so observations are constant within a run; cancellation is exercised from the start of a run only",
          "scores are an input of the protocol model (computed by a fresh real matcher; their correctness is C01-C05/C15)",
          "rayon work distribution is abstracted to 'any order'; the sort is the unique sorted permutation (C18)"]


def distribution(lines):
    """what the generated histories contain: events by kind, ticks by (hold kind, a run parked before, parked after, reported status),
    restarts by clear flag, pool sizes, columns, history lengths"""
    from collections import Counter
    ev, ticks, restarts, pools, cols, lens, status = Counter(), Counter(), Counter(), Counter(), Counter(), Counter(), Counter()
    for l in lines:
        if not l.startswith("H "):
            continue
        f = dict(w.split("=", 1) for w in l.split()[1:] if "=" in w)
        pools[f.get("pool", "?")] += 1
        cols[f.get("cols", "?")] += 1
        events = f.get("ev", "").split(";")
        lens[min(len(events) // 10 * 10, 60)] += 1
        for e in events:
            head = e.split("|", 1)[0]
            kind = head.split(":", 1)[0].split("=", 1)[0]
            ev[kind] += 1
            if kind == "tick":
                parts = head.split("=")[0].split(":")
                ret = head.split("=")[-1] if "=" in head else "?"
                if len(parts) >= 4:
                    ticks[f"hold{parts[1]}/parked_before{parts[2]}/parked_after{parts[3]}"] += 1
                status[f"changed{ret[:1]}/running{ret[1:2]}"] += 1
            elif kind == "restart":
                restarts["clear" if head.endswith(":1") else "keep"] += 1
            elif kind == "reparse":
                st = head.split("=")[-1]
                status["reparse->" + {"0": "unchanged", "1": "update", "2": "rescore"}.get(st, st)] += 1
    return dict(histories=sum(pools.values()), pool_threads=dict(pools), columns=dict(cols), events_per_history_bucket=dict(lens),
                events=dict(ev), ticks=dict(ticks), tick_status_and_reparse_status=dict(status), restarts=dict(restarts))


def run_check(ctx):
    return core.simple_check(ctx, jobs, RULE, nontrivial, describe=describe, known_filter=findings.matcher_known(ctx.pid), distribution=distribution,
                             correspondence="Model/Nucleo.lean (Nucleo.tick, tickInnerLocked/Timeout, restart, Worker.run) ~ src/lib.rs + src/worker.rs",
                             assumptions=ASSUME, sample_filter=lambda l: l.startswith("H ") and len(l) < 1200)
