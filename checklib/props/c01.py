"""C01 — see DESIGN.md section 5 and lean/NucleoVerif/Props/C01.lean"""
from .. import core, matcher_common, findings


def run(ctx):
    return matcher_common.run_matcher_check(ctx, "C01", findings.matcher_known("C01"))


def replay(ctx, path):
    rc = matcher_common.replay_matcher(ctx, "C01", path)
    return run(ctx) if rc is None else rc
