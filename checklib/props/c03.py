"""C03 — see DESIGN.md section 5 and lean/NucleoVerif/Props/C03.lean"""
from .. import core, matcher_common, findings


def run(ctx):
    return matcher_common.run_matcher_check(ctx, "C03", findings.matcher_known("C03"))


def replay(ctx, path):
    rc = matcher_common.replay_matcher(ctx, "C03", path)
    return run(ctx) if rc is None else rc
