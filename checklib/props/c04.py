"""C04 — see DESIGN.md section 5 and lean/NucleoVerif/Props/C04.lean"""
from .. import core, matcher_common, findings


def run(ctx):
    return matcher_common.run_matcher_check(ctx, "C04", findings.matcher_known("C04"))


def replay(ctx, path):
    rc = matcher_common.replay_matcher(ctx, "C04", path)
    return run(ctx) if rc is None else rc
