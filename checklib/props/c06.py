"""C06 — see DESIGN.md section 5 and lean/NucleoVerif/Props/C06.lean"""
from .. import nucleo_common


def run(ctx):
    return nucleo_common.run_check(ctx)


def replay(ctx, path):
    import json
    p = json.load(open(path))
    for e in (p.get("case") or {}).get("events", []):
        print(e)
    return run(ctx)
