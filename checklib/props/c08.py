"""C08 — the injector's item vector is a linearizable append-only sequence."""
from .. import core


def jobs(ctx):
    q = ctx.tier == "quick"
    js = [("boxcar_sched", ["loc"]), ("boxcar_sched", ["cap"])]
    for k in range(core.NCPU):
        js.append(("boxcar_sched", ["rand", 150 if q else 7000, k]))
    return js


def nontrivial(l):
    if not l.startswith("B "):
        return None
    f = dict(w.split("=", 1) for w in l.split()[1:] if "=" in w)
    if f.get("trace") in (None, "-"):
        return None
    return (f["cap"], f["progs"], f["trace"])


def run(ctx):
    return core.simple_check(
        ctx, jobs, distribution=core.field_distribution(("B ", "K ", "L "), ["cap", "cols", "pushes"], numeric=()),
        rule="2-4 OS threads run seeded programs of push / extend (batches crossing the 32/96/224 bucket boundaries; iterators reporting too many or too few "
             "items) / get / count / snapshot on one vector (capacity 0/1/33/1024, 1-3 columns) under a seeded scheduler that serialises the threads at the "
             "cfg-gated yield points in front of every atomic operation (uniform choices with occasional long runs of one thread); the executed (thread, site) "
             "sequence is replayed on the model, which must predict every site and every result; plus Location::of on 3000 small indices and the power-of-two "
             "neighbourhoods up to the capacity limit; nine single-thread scenarios at the capacity limit (a batch whose iterator claims almost 2^32 items is "
             "rejected after reserving its indices, then rejected pushes, the count after every step: never decreasing, never below the completed pushes); distinct non-trivial = distinct (capacity, programs, schedule)",
        nontrivial=nontrivial, correspondence="Model/Boxcar.lean (stepPC/effOf/nextOf, per-site) ~ src/boxcar.rs",
        assumptions=["the yield points make the schedule sequentially consistent at atomic-operation granularity; weaker memory-order effects are C09's subject",
                     "allocation and deallocation of buckets (the loser of a CAS frees its allocation) are not observable in this model"],
        sample_filter=lambda l: l.startswith("B ") and len(l) < 900)


def replay(ctx, path):
    import json
    print(json.load(open(path)).get("harness_line", "")[:3000])
    return run(ctx)
