"""C09 — item data is published race-free to every reader.

Decided by the certificates of Props/C09.lean over the orderings extracted from the source on
this run.  Tie: (a) the atomic-site table itself (translator), with C09_sites_covered failing
when an atomic operation is added or removed; (b) the program-order skeleton the certificates
assume is validated by replaying real schedules (every thread must execute the site sequence
the model predicts); (c) failing-schedule search / supporting evidence: three litmus programs
on the real code under Miri's data-race detector (thorough tier always; quick tier when a
certificate no longer checks)."""
import os
import re
import subprocess
import time
from .. import core

MIRI_DIR = os.path.join(core.ROOT, "miri")
LITMUS = ["litmus_get", "litmus_tick", "litmus_restart", "litmus_alloc", "litmus_stream", "litmus_extend", "litmus_liar", "litmus_grow"]


def run_miri(ctx, seeds):
    """returns list of dict(program, seed, rc, race:str|None, tail)"""
    results = []
    env = dict(os.environ, CARGO_NET_OFFLINE="true",
               MIRIFLAGS="-Zmiri-disable-isolation -Zmiri-disable-stacked-borrows -Zmiri-ignore-leaks -Zmiri-address-reuse-cross-thread-rate=0")
    # build once (sequential), then run programs x seeds in parallel
    b = subprocess.run(["cargo", "+nightly", "miri", "run", "--offline", "--bin", LITMUS[0]], cwd=MIRI_DIR, env=env, stdout=subprocess.PIPE,
                       stderr=subprocess.STDOUT, timeout=1800)
    first = b.stdout.decode("utf-8", "replace")
    procs = []
    for prog in LITMUS:
        for seed in seeds:
            if prog == LITMUS[0] and seed == seeds[0]:
                continue
            e = dict(env)
            e["MIRIFLAGS"] = env["MIRIFLAGS"] + f" -Zmiri-seed={seed}"
            p = subprocess.Popen(["cargo", "+nightly", "miri", "run", "--offline", "--bin", prog], cwd=MIRI_DIR, env=e,
                                 stdout=subprocess.PIPE, stderr=subprocess.STDOUT)
            procs.append((prog, seed, p))
    outs = [(LITMUS[0], seeds[0], b.returncode, first)]
    for prog, seed, p in procs:
        try:
            o, _ = p.communicate(timeout=1800)
            outs.append((prog, seed, p.returncode, o.decode("utf-8", "replace")))
        except subprocess.TimeoutExpired:
            p.kill()
            outs.append((prog, seed, -9, "timeout"))
    for prog, seed, rc, out in outs:
        m = re.search(r"error: Undefined Behavior: (Data race[^\n]*)", out)
        ub = re.search(r"error: Undefined Behavior: ([^\n]*)", out)
        loc = re.findall(r"-->\s*(/repo/[^\n]*)", out[m.start():] if m else "")[:4]
        ok_line = re.search(r"litmus_\w+ ok[^\n]*", out)
        results.append(dict(program=prog, seed=seed, rc=rc, race=(m.group(1) if m else None), ub=(ub.group(1) if ub else None),
                            where=loc, ok=bool(ok_line), tail=out[-1500:] if rc != 0 else ""))
    return results


def run(ctx):
    st = core.proof_stage(ctx)
    hb_ok, hb_out = core.harness_build(ctx)
    # (b) skeleton validation: real schedules, site by site
    lines, counts, failures = ([], {}, [])
    diffs = []
    if hb_ok and st["driver_ok"]:
        jobs = [("boxcar_sched", ["rand", 60 if ctx.tier == "quick" else 2000, 500 + k]) for k in range(8)]
        lines, counts, failures = core.run_jobs(jobs, ctx.seed)
        for l, a in zip(lines, core.run_driver(lines)):
            if "executed site" in a:
                diffs.append((l, a))
    nsites = sum(l.count(".") // 2 for l in lines)
    # (d) the caller contract of get_unchecked on real Nucleo histories (writers paused between reserving and publishing, runs
    # cancelled mid-pass): every index the worker hands to get_unchecked must already have reached its publishing store
    contract = []
    hist_lines = []
    if hb_ok and st["driver_ok"]:
        from .. import nucleo_common
        hist_lines, _c2, f2 = core.run_jobs(nucleo_common.jobs(ctx), ctx.seed)
        failures = failures + f2
        for l, a in zip(hist_lines, core.run_driver(hist_lines)):
            for part in a.split(" ## "):
                if part.startswith("ORACLE C09 "):
                    contract.append((l, part))
    ctx.coverage["nucleo_histories"] = len(hist_lines)
    # (c) Miri
    miri = []
    # the litmus programs are the search for a failing execution: run them whenever a certificate or the skeleton no longer checks
    need_miri = ctx.tier == "thorough" or not st["ok"] or bool(diffs)
    if need_miri:
        seeds = [ctx.seed + k for k in range(6 if ctx.tier == "thorough" else 2)]
        t0 = time.time()
        miri = run_miri(ctx, seeds)
        ctx.coverage["miri_wall_s"] = round(time.time() - t0, 1)
    ctx.coverage.update(
        evaluations=len(lines) + len(miri) + len(hist_lines), distinct_nontrivial=len(set(lines)) + len(set(hist_lines)),
        rule="certificates: every atomic operation of src/boxcar.rs is classified (role or reservation counter) and every role has the ordering its happens-before "
             "chain needs; skeleton: seeded schedules of 2-4 real threads at the yield points, every executed site must be the one the model predicts; caller contract "
             "of get_unchecked: on the Nucleo histories of C06 (paused writers, runs cancelled mid-pass, restarts) every index the worker hands to get_unchecked has "
             "reached its publishing store; Miri "
             "(thorough tier, or when a certificate or the skeleton breaks): the eight litmus programs of miri/ (eager bucket allocation vs. polling lookup, injector thread vs. tick/"
             "snapshot reads vs. 2 pool threads, old injector pushing across a restart, racing allocation, streaming iterator, batch into a foreign bucket, batch whose iterator over-yields, worker iterator into a bucket allocated on demand) x seeds",
        samples=[l[:300] for l in lines[:2]] + [dict(program=m["program"], seed=m["seed"], ok=m["ok"]) for m in miri[:3]],
        schedules=len(lines), sites_executed=nsites, skeleton_mismatches=len(diffs), miri_runs=len(miri),
        miri_races=len([m for m in miri if m["race"]]))
    ctx.assumptions += ["rayon's and parking_lot's internal synchronisation and Arc's reference counting are library happens-before edges, not modelled further",
                        "the certificates cover the release/acquire fragment; compiler or hardware behaviour outside the language memory model is out of scope",
                        "Miri runs with Stacked Borrows disabled (crossbeam-epoch trips it) and leak checking off (rayon's global registry)"]
    races = [m for m in miri if m["race"] or (m["ub"] and not m["race"])]
    bad_litmus = [m for m in miri if not m["race"] and not m["ok"] and not m["ub"]]
    if contract:
        from .. import nucleo_common
        l, part = contract[0]
        core.violation(ctx, part[:400], dict(kind="oracle-on-implementation", clause=part, case=nucleo_common.describe(l), harness_line=l[:6000],
                                              replay_cmd="./check C09 --replay <this file>", proof=st["detail"][-600:]))
    elif races:
        m = races[0]
        core.violation(ctx, f"Miri: {m['race'] or m['ub']} in {m['program']} (seed {m['seed']})",
                       dict(kind="miri-data-race", program=m["program"], seed=m["seed"], report=m["race"] or m["ub"], where=m["where"], tail=m["tail"],
                            replay_cmd=f"cd miri && MIRIFLAGS='-Zmiri-disable-isolation -Zmiri-disable-stacked-borrows -Zmiri-ignore-leaks -Zmiri-seed={m['seed']}' "
                                       f"cargo +nightly miri run --offline --bin {m['program']}",
                            proof=st["detail"]))
    elif hb_ok and failures and any(("HIST-BEGIN" in f[1] or "panicked" in f[1] or getattr(f[1], "rc", 0) < 0) for f in failures):
        # the real code died (panic, abort, signal) while the harness replayed a generated schedule / history: that case is the failing
        # execution (reads of entries nobody initialised end like this as often as in a wrong value)
        key, err = [f for f in failures if ("HIST-BEGIN" in f[1] or "panicked" in f[1] or getattr(f[1], "rc", 0) < 0)][0]
        msg = [l for l in err.splitlines() if "panicked" in l or "abort" in l.lower() or "signal" in l]
        rep = dict(kind="crash-in-implementation", harness_job=key, history_so_far=[l for l in err.splitlines() if l.startswith("EV") or l.startswith("HIST")],
                   stderr_tail=err[-2500:], replay_cmd=f"VERIF_SEED={ctx.seed} harness/target/release/" + (getattr(err, "cmd", "") or key))
        if getattr(err, "last_case", None):
            rep["harness_line"] = err.last_case[:400000]
        if not st["ok"]:
            rep["proof"] = st["detail"][-800:]
        core.violation(ctx, f"the real code crashed while the harness executed a generated case ({(msg or ['process died'])[0][:200]})", rep)
    elif not st["ok"]:
        core.violation(ctx, "C09 certificates no longer check: " + st["detail"].strip()[:300],
                       dict(kind="proof-broken", detail=st["detail"], failed=st.get("failed_decls", []),
                            searched=f"{len(miri)} Miri runs of the litmus programs: no data race reported"), no_input=True)
    elif not hb_ok or failures:
        core.violation(ctx, "correspondence harness does not build/run", dict(kind="correspondence-broken", detail=hb_out[-1500:] if not hb_ok else str(failures)), no_input=True)
    elif diffs:
        core.violation(ctx, "the program-order skeleton assumed by the certificates is not what the code executes: " + diffs[0][1][:200],
                       dict(kind="correspondence-broken", correspondence="site sequence per operation (Model/Boxcar.lean PC.site) ~ yield points of src/boxcar.rs",
                            harness_line=diffs[0][0][:4000], model_says=diffs[0][1]), no_input=True)
    elif bad_litmus:
        m = bad_litmus[0]
        core.violation(ctx, f"litmus program {m['program']} failed under Miri without a race report", dict(kind="litmus-failed", **m), no_input=True)
    return core.finish(ctx)


def replay(ctx, path):
    import json
    p = json.load(open(path))
    if p.get("replay_cmd"):
        print(p["replay_cmd"])
        rc, out = core.sh(p["replay_cmd"], cwd=core.ROOT, timeout=1800)
        print(out[-3000:])
        return 1 if "Data race" in out else 0
    return run(ctx)
