"""C10 — see DESIGN.md section 5 and lean/NucleoVerif/Props/C10.lean"""
from .. import core, matcher_common, findings


def run(ctx):
    return matcher_common.run_matcher_check(ctx, "C10", findings.matcher_known("C10"))


def replay(ctx, path):
    rc = matcher_common.replay_matcher(ctx, "C10", path)
    return run(ctx) if rc is None else rc
