"""C11 — every injected item is dropped exactly once, and only after it is unreachable."""
from .. import core, nucleo_common


def jobs(ctx):
    q = ctx.tier == "quick"
    js = [("drop_ops", ["rand", 400 if q else 20000, k]) for k in range(8)]
    js += [("nucleo_hist", ["rand", 8 if q else 400, 200 + k]) for k in range(8)]
    # (c) the concurrent schedules of C08, with items that count their drops
    js += [("boxcar_sched", ["rand", 150 if q else 6000, 700 + k]) for k in range(8)]
    return js


def nontrivial(l):
    if l.startswith("D "):
        f = dict(w.split("=", 1) for w in l.split()[1:] if "=" in w)
        return ("D", f.get("cap"), f.get("ops")) if f.get("final") not in (None, "-") else None
    if l.startswith("H "):
        return nucleo_common.nontrivial(l)
    if l.startswith("B "):
        f = dict(w.split("=", 1) for w in l.split()[1:] if "=" in w)
        return ("B", f.get("cap"), f.get("progs"))
    return None


def run(ctx):
    return core.simple_check(
        ctx, jobs, distribution=core.field_distribution(("D ", "H ", "B "), ["kind", "cap", "cols", "pool", "leakexpected"], numeric=()),
        rule="(a) sequential histories on the item vector through the cfg-gated facade: pushes, batches with honest / too large (up to thousands, so that later "
             "buckets are allocated while earlier ones are not) / too small / zero reported lengths, fill callbacks that panic at a chosen item, capacities "
             "0/1/33/1024, 1-3 columns; every item bumps a per-item drop counter, a counting global allocator reports the bytes still live after the vector is "
             "dropped; (b) the Nucleo histories of C06 with drop-counting items: after every event the set of destroyed items must be exactly the items of the "
             "streams no handle (matcher, worker, snapshot, injector) reaches any more, and after dropping everything every item was dropped exactly once. "
             "(c) the seeded schedules of C08 (2-4 real threads stepped at the yield points of the vector: racing allocations of one bucket, batches into foreign buckets, "
             "lying iterators) with drop-counting items: once the threads and the last handle are gone every created item has been dropped exactly once. "
             "Distinct non-trivial = distinct histories with at least one item / two ticks, distinct schedules",
        nontrivial=nontrivial,
        correspondence="Model/Drop.lean (dropVec, runDOp) + Nucleo.strongCount ~ src/boxcar.rs Drop/dealloc + Arc handles in src/lib.rs, src/worker.rs",
        assumptions=["Arc reference counting and unwinding are modelled (handles as counts, a panicking callback drops the value it was called for)",
                     "matcher columns filled by a callback that then panics are leaked by the code; the property does not require otherwise, and the allocation "
                     "balance is only required for histories without panicking callbacks"],
        sample_filter=lambda l: (l.startswith("D ") and len(l) < 700))


def replay(ctx, path):
    import json
    print(json.load(open(path)).get("harness_line", "")[:3000])
    return run(ctx)
