"""C14 — pattern text is parsed by one grammar regardless of the characters involved."""
from .. import core


def jobs(ctx):
    q = ctx.tier == "quick"
    js = [("pattern_ops", ["exh", 4 if q else 6]), ("pattern_ops", ["chars"])]
    for k in range(8):
        js.append(("pattern_ops", ["rand", 8000 if q else 400000, k]))
    return js


def nontrivial(l):
    if not l.startswith("P "):
        return None
    f = dict(w.split("=", 1) for w in l.split()[1:] if "=" in w)
    if f.get("text") in (None, "-"):
        return None
    return (f["case"], f["norm"], f["mode"], f["text"])


def describe(l):
    f = dict(w.split("=", 1) for w in l.split()[1:] if "=" in w)
    txt = "" if f["text"] == "-" else "".join(chr(int(x, 16)) for x in f["text"].split(","))
    return dict(pattern_text=txt, case_matching=["Respect", "Ignore", "Smart"][int(f["case"])], normalization=["Never", "Smart"][int(f["norm"])],
                mode=f["mode"], atoms_kind_neg_rep_needle_ic_nz=f.get("atoms"))


def run(ctx):
    return core.simple_check(
        ctx, jobs, distribution=core.field_distribution(("P ",), ["case", "norm", "mode", "reparse"], numeric=()),
        rule="pattern strings: exhaustive over all texts of length <= 4 (thorough: 6) on the alphabet {a B ! ^ ' $ \\ space ä}, and seeded random "
             "concatenations of ASCII/non-ASCII words, every kind of whitespace, backslashes and markers; plus every character on which case folding or Latin normalization acts "
             "(directly or on its folded form), alone and behind an ASCII letter, under all six settings; each under a CaseMatching x Normalization "
             "setting, through Pattern::parse (+ reparse on a used object), Pattern::new with each kind, and the escaped form of the text itself "
             "(literal round trip); private flags read from the derived Debug output; distinct non-trivial = distinct (settings, mode, non-empty text)",
        nontrivial=nontrivial, describe=describe, correspondence="Model/Pattern.lean ~ matcher/src/pattern.rs (pattern_atoms, Atom::parse, Atom::new_inner both paths)",
        assumptions=["grapheme segmentation of every substring of the pattern is an input of the model (from unicode-segmentation)",
                     "private Atom flags are observed through #[derive(Debug)]"])


def replay(ctx, path):
    rc = core.simple_replay(ctx, path, "pattern_ops")
    return run(ctx) if rc is None else rc
