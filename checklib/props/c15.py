"""C15 — pattern scores compose as a conjunction of atoms with negation."""
from .. import core


def jobs(ctx):
    q = ctx.tier == "quick"
    return [("pattern_ops", ["score", 6000 if q else 250000, k]) for k in range(8)]


def nontrivial(l):
    if not l.startswith("S "):
        return None
    f = dict(w.split("=", 1) for w in l.split()[1:] if "=" in w)
    if f.get("atoms") in (None, "-") or f.get("hay") == "-":
        return None
    return (f["cfg"], f["hr"], f["hay"], f["atoms"])


def run(ctx):
    return core.simple_check(
        ctx, jobs, distribution=core.field_distribution(("S ",), ["cfg", "hr", "pre"], numeric=()),
        rule="seeded random: a haystack, a pattern of 0-3 atoms of every kind and polarity built from pieces of the haystack (so most match; one case in 300 has 1300-2000 matching atoms, a total "
             "beyond 65535), parsed under a "
             "random CaseMatching x Normalization; one Matcher shared by all cases (its flags are whatever the previous atom left); Pattern::score, "
             "Pattern::indices, every Atom::score/indices, and Pattern::match_list over up to 5 items with duplicates and ties; distinct non-trivial = "
             "distinct (config, haystack, atoms) with a non-empty pattern and haystack",
        nontrivial=nontrivial, correspondence="Model/Pattern.lean (Atom.eval, patternEval, matchList) ~ matcher/src/pattern.rs",
        assumptions=["the matcher calls themselves are covered by C01-C05; here they are compared through the same model"])


def replay(ctx, path):
    import json
    print(json.load(open(path)).get("harness_line"))
    return run(ctx)
