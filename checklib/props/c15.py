"""C15 — pattern scores compose as a conjunction of atoms with negation."""
from .. import core


def jobs(ctx):
    q = ctx.tier == "quick"
    return [("pattern_ops", ["score", 6000 if q else 250000, k]) for k in range(8)]


def nontrivial(l):
    if l.startswith("N "):
        f = dict(w.split("=", 1) for w in l.split()[1:] if "=" in w)
        return ("N", f.get("cfg"), tuple((f.get(f"hay{c}"), f.get(f"atoms{c}")) for c in range(int(f.get("k", "0")))))
    if not l.startswith("S "):
        return None
    f = dict(w.split("=", 1) for w in l.split()[1:] if "=" in w)
    if f.get("atoms") in (None, "-") or f.get("hay") == "-":
        return None
    return (f["cfg"], f["hr"], f["hay"], f["atoms"])


def run(ctx):
    return core.simple_check(
        ctx, jobs, distribution=core.field_distribution(("S ", "N "), ["cfg", "hr", "pre", "k"], numeric=()),
        rule="seeded random: a haystack, a pattern of 0-3 atoms of every kind and polarity built from pieces of the haystack (so most match; one case in 300 has 1300-2000 matching atoms, a total "
             "beyond 65535), parsed under a "
             "random CaseMatching x Normalization (every third pattern has its atoms rebuilt by hand with Atom::new, a random kind and a random polarity each - pairs the parser never produces, "
             "such as a negated fuzzy atom); one Matcher shared by all cases (its flags are whatever the previous atom left); Pattern::score, "
             "Pattern::indices, every Atom::score/indices, and Pattern::match_list over up to 5 items with duplicates and ties; after every third case a MultiPattern of 1-3 columns (every subset of the columns has a "
             "pattern, so empty columns stand in front of non-empty ones; column texts differ) scored with MultiPattern::score against each column's own Pattern::score; distinct non-trivial = "
             "distinct (config, haystack, atoms) with a non-empty pattern and haystack",
        nontrivial=nontrivial, correspondence="Model/Pattern.lean (Atom.eval, patternEval, matchList, multiEval) ~ matcher/src/pattern.rs, src/pattern.rs (MultiPattern::score)",
        assumptions=["the matcher calls themselves are covered by C01-C05; here they are compared through the same model"])


def replay(ctx, path):
    import json
    print(json.load(open(path)).get("harness_line"))
    return run(ctx)
