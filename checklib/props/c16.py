"""C16 — character normalization is a coherent, idempotent projection.

Decided by: Props/C16.lean (theorems over every code point, tables regenerated from the Rust
source, reference from python unicodedata).  Tie: exhaustive correspondence over all 1,112,064
scalar values (real code vs model), plus the property's clauses evaluated on the real code's
output (failing-input search)."""
from .. import core


def classify(ans, line):
    return ans


def run(ctx):
    st = core.proof_stage(ctx)
    hb_ok, hb_out = core.harness_build(ctx)
    lines = []
    if hb_ok:
        rc, out, err = core.run_harness("chars_dump")
        if rc != 0:
            hb_ok = False
            hb_out = err
        lines = out.splitlines()
    diffs, oracles, crashes = [], [], []
    nontrivial = set()
    if hb_ok and st["driver_ok"]:
        answers = core.run_driver(lines)
        for l, a in zip(lines, answers):
            w = l.split()
            c = int(w[1], 16)
            if w[3] != w[1] or w[5] != w[1] or w[4] == "1" or c < 128:
                nontrivial.add(c)
            if a == "ok":
                continue
            if a.startswith("ORACLE"):
                oracles.append((l, a))
            elif a.startswith("DIFF"):
                diffs.append((l, a))
            else:
                crashes.append((l, a))
    ctx.coverage.update(
        evaluations=len(lines), distinct_nontrivial=len(nontrivial), exhaustive=True,
        rule="every Unicode scalar value once (exhaustive); non-trivial = the code changes it under folding or Latin "
             "normalization, or classifies it upper case, or it is ASCII; per scalar: to_lower_case, is_upper_case, normalize, "
             "their second application, and normalize / char_class_and_normalize / char_class under the 4 (ignore_case, normalize) "
             "combinations in both representations",
        samples=[lines[i] for i in (0x41, 0xe4 - 0, 0x3c2) if i < len(lines)][:3] + lines[70000:70001],
        model_disagreements=len(diffs), oracle_failures=len(oracles))
    ctx.assumptions += ["Rust std char::is_lowercase/is_numeric/is_alphabetic are inputs of the model (3 bits per character)",
                        "python unicodedata (Unicode 14.0.0) is the independent reference for simple case folding and NFKD"]
    # 1. concrete failing inputs from the oracle on the implementation
    for l, a in oracles[:10]:
        core.violation(ctx, a[7:], dict(kind="oracle-on-implementation", harness_line=l, clause=a[7:],
                                        replay_cmd="harness/target/release/chars_dump | grep '^C %s ' | lean/.lake/build/bin/nucleo_model" % l.split()[1]))
    # 2. proof / correspondence broken without a failing input
    if not oracles:
        if not st["ok"]:
            core.violation(ctx, "C16 proof obligations no longer check: " + st["detail"].strip(),
                           dict(kind="proof-broken", detail=st["detail"], failed=st.get("failed_decls", []),
                                searched="all 1,112,064 scalar values against the property's clauses: no failing input"), no_input=True)
        elif not hb_ok:
            core.violation(ctx, "correspondence harness does not build against the current tree",
                           dict(kind="correspondence-broken", detail=hb_out[-2000:]), no_input=True)
        elif diffs or crashes:
            l, a = (diffs + crashes)[0]
            core.violation(ctx, "model and implementation disagree (correspondence NucleoVerif.Model.Chars ~ chars.rs), property clauses hold on the implementation",
                           dict(kind="correspondence-broken", correspondence="Model/Chars.lean vs matcher/src/chars.rs",
                                harness_line=l, model_says=a, count=len(diffs) + len(crashes)), no_input=True)
    return core.finish(ctx)


def replay(ctx, path):
    import json
    p = json.load(open(path))
    core.harness_build(ctx)
    core.lean_build(ctx, ["nucleo_model"])
    if "harness_line" in p:
        c = p["harness_line"].split()[1]
        rc, out, err = core.run_harness("chars_dump")
        line = [l for l in out.splitlines() if l.split()[1] == c]
        ans = core.run_driver(line)
        print(line[0])
        print(ans[0])
        return 0 if ans[0] == "ok" else 1
    print("replay names a proof/correspondence, re-run ./check C16")
    return run(ctx)
