"""C17 — string conversion keeps the documented grapheme guarantees."""
from .. import core


def jobs(ctx):
    q = ctx.tier == "quick"
    return [("utf32_ops", ["rand", 40000 if q else 1500000]), ("utf32_ops", ["pool"]), ("utf32_ops", ["ascii3", 2 if q else 3])]


def nontrivial(l):
    if not l.startswith("U "):
        return None
    w = l.split()
    s = w[1]
    return s if s != "s=-" else None


def run(ctx):
    return core.simple_check(
        ctx, jobs, distribution=core.field_distribution(("U ",), ["variant", "len", "ctors"], numeric=("len",)),
        rule="strings built from a pool of grapheme-rich pieces (combining marks, ZWJ emoji, regional indicators, Hangul jamo, CR/LF in every "
             "arrangement, C0/C1 controls): seeded random concatenations, all pairs and triples of pool pieces, every ASCII string of length <= 2 "
             "(thorough: 3); per string all six constructors, len/is_empty/chars/rev/Display, three random get and slice/slice_u32/inclusive ranges; "
             "distinct non-trivial = distinct non-empty strings",
        nontrivial=nontrivial, correspondence="Model/Utf32.lean ~ matcher/src/utf32_str.rs + chars::graphemes",
        assumptions=["extended grapheme cluster boundaries are an input of the model (taken from the unicode-segmentation crate the code uses)",
                     "AsciiSeg (ASCII strings without CR LF segment into single characters) is a hypothesis of C17_len, exercised exhaustively for short strings"])


def replay(ctx, path):
    import json
    p = json.load(open(path))
    print(p.get("harness_line", p))
    return run(ctx)
