"""C18 — the cancellable parallel sort returns a sorted permutation."""
from .. import core


def jobs(ctx):
    q = ctx.tier == "quick"
    js = [("sort_ops", ["rand", 250 if q else 4000, k, 9000 if q else 40000]) for k in range(core.NCPU // 2)]
    js.append(("sort_ops", ["big", 8 if q else 60, 99]))
    js += [("sort_ops", ["comp", 2100 if q else 21000, 50 + k, 3000]) for k in range(4)]
    js += [("sort_ops", ["adv", 150 if q else 1500, 70 + k, 3000 if q else 12000]) for k in range(4)]
    js += [("sort_ops", ["cmpc", 200 if q else 4000, 90 + k]) for k in range(4)]
    return js


def nontrivial(l):
    if not (l.startswith("Q ") or l.startswith("QC ")):
        return None
    f = dict(w.split("=", 1) for w in l.split()[1:13] if "=" in w)
    if int(f.get("n", "0")) < 2:
        return None
    return (f.get("which", "sort"), f["shift"], f.get("cancel"), f["n"], f["shape"], hash(l))


def describe(l):
    f = dict(w.split("=", 1) for w in l.split()[1:] if "=" in w)
    d = {k: f.get(k) for k in ("which", "arg", "shift", "threads", "cancel", "raised", "cmpcancel", "n", "shape", "ret", "loads", "same", "r", "b") if k in f}
    d["data_head"] = f.get("data", "")[:200]
    d["out_head"] = f.get("out", "")[:200]
    return d


def shrink_line(ctx, l, part):
    return l[:200000], part


def run(ctx):
    return core.simple_check(
        ctx, jobs, distribution=core.field_distribution(("Q ", "QC "), ["shape", "n", "threads", "ret", "which", "shift"], numeric=("n",)),
        rule="arrays of u32 keys through the cfg-gated facade of par_quicksort: lengths 0..9000 (thorough 40000) plus 20k/50k/100k/300k, ten arrangements (random, "
             "sorted, reversed, organ pipe, few keys, all equal, sawtooth, mostly sorted, median-of-three killer, ascending runs) plus McIlroy's killer adversary run "
             "against the real sort (its frozen keys drive the sort into break_patterns and the heapsort fallback; lengths 30..3000, thorough 12000), comparators (a>>s)<(b>>s) with "
             "s in {0,3,7} (ties), pools of 1/2/8/16 threads (all must produce the identical slice), cancel flag raised at the k-th flag load through the yield "
             "point (k = 0 or 1..6, single thread), or by the comparison closure at a random one of the sort's comparisons (a cancel arriving at an arbitrary moment; "
             "arrangements incl. a sorted run followed/preceded by a scrambled run, lengths 30..4200; the model is told which flag load first saw the flag), or never; "
             "'not cancelled' must imply sorted whatever happened to the flag; model = implementation on the final slice and the returned flag; each private building block (insertion_sort, partial_insertion_sort, heapsort, partition, partition_equal, break_patterns, choose_pivot) "
             "called directly through the cfg-gated facade on the same arrangements, model = implementation on slice and return value, and the block's own contract "
             "(sorted / split point separates the slice) evaluated on the implementation's output; distinct non-trivial = distinct inputs of length >= 2",
        nontrivial=nontrivial, describe=describe, shrinker=shrink_line,
        correspondence="Model/ParSort.lean (swap-only model of pdqsort) ~ src/par_sort.rs",
        assumptions=["rayon::join on disjoint sub-slices is modelled as sequential composition; the sub-slices are disjoint by Rust's borrow rules (split_at_mut)",
                     "hole-based moves and the cyclic permutation of partition_in_blocks are modelled by the equivalent swap chains (validated by the exact-output correspondence)"],
        sample_filter=lambda l: (l.startswith("Q ") or l.startswith("QC ")) and len(l) < 600)


def replay(ctx, path):
    import json
    print(json.dumps(json.load(open(path)).get("case"), indent=1)[:3000])
    return run(ctx)
