//! C08: the item vector under seeded schedules at atomic-operation granularity.
//!
//! `B cap=<c> cols=<k> progs=<ops of t0|ops of t1|..> trace=<tid.site.arg,..> results=<results of t0|..>`
//! ops: `p<v>` push, `e<reported>:<v.v.v>` extend, `g<i>` get, `c` count, `s<start>` snapshot
//!
//! C11 under the same schedules: the items count their drops; after the threads are done and the last handle is gone every
//! item that was created must have been dropped exactly once (`drops=ok`, or the ids that were never / more than once dropped).
use nucleo::verif::Vec as BVec;
use nucleo::Utf32String;
use nucleo_verif_harness::sched::Sched;
use nucleo_verif_harness::util::*;
use std::io::{BufWriter, Write};
use std::panic::{catch_unwind, AssertUnwindSafe};
use std::sync::atomic::{AtomicU32, Ordering};
use std::sync::Arc;

const IDS: usize = 1 << 14;
static CREATED: [AtomicU32; IDS] = [const { AtomicU32::new(0) }; IDS];
static DROPPED: [AtomicU32; IDS] = [const { AtomicU32::new(0) }; IDS];

/// an item that counts its drops (values are unique within a case)
struct Item(u32);
impl Item {
    fn new(v: u32) -> Item {
        CREATED[v as usize % IDS].fetch_add(1, Ordering::SeqCst);
        Item(v)
    }
}
impl Drop for Item {
    fn drop(&mut self) {
        DROPPED[self.0 as usize % IDS].fetch_add(1, Ordering::SeqCst);
    }
}

#[derive(Clone, Debug)]
enum Op {
    Push(u32),
    Extend(usize, Vec<u32>),
    Get(u32),
    Count,
    Snapshot(u32),
}

struct LyingIter {
    len: usize,
    it: std::vec::IntoIter<u32>,
}
impl Iterator for LyingIter {
    type Item = Item;
    fn next(&mut self) -> Option<Item> {
        self.it.next().map(Item::new)
    }
}
impl ExactSizeIterator for LyingIter {
    fn len(&self) -> usize {
        self.len
    }
}

fn fill(v: &Item, cols: &mut [Utf32String]) {
    let v = v.0;
    for (j, c) in cols.iter_mut().enumerate() {
        *c = format!("{v}:{j}").into();
    }
}

fn cols_ok(v: u32, cols: &[Utf32String]) -> bool {
    cols.iter().enumerate().all(|(j, c)| c.to_string() == format!("{v}:{j}"))
}

fn run_op(vec: &BVec<Item>, op: &Op, ncols: usize) -> String {
    match op {
        Op::Push(v) => format!("{}", vec.push(Item::new(*v), fill)),
        Op::Extend(rep, vals) => {
            let it = LyingIter { len: *rep, it: vals.clone().into_iter() };
            match catch_unwind(AssertUnwindSafe(|| vec.extend(it, fill))) {
                Ok(()) => "ok".to_string(),
                Err(_) => "panic".to_string(),
            }
        }
        Op::Get(i) => match vec.get(*i) {
            None => "none".to_string(),
            Some(item) => {
                if item.matcher_columns.len() == ncols && cols_ok(item.data.0, item.matcher_columns) {
                    format!("{}", item.data.0)
                } else {
                    format!("{}!badcols", item.data.0)
                }
            }
        },
        Op::Count => format!("{}", vec.count()),
        Op::Snapshot(start) => {
            if *start > vec.count() {
                return "skip".to_string();
            }
            match catch_unwind(AssertUnwindSafe(|| vec.snapshot(*start))) {
                Ok((items, end)) => {
                    let xs: Vec<String> = items
                        .iter()
                        .map(|(i, it)| match it {
                            None => format!("{i}:n"),
                            Some(item) => format!("{i}:{}{}", item.data.0, if cols_ok(item.data.0, item.matcher_columns) { "" } else { "!badcols" }),
                        })
                        .collect();
                    format!("{end};{}", if xs.is_empty() { "-".to_string() } else { xs.join("+") })
                }
                Err(_) => "panic".to_string(),
            }
        }
    }
}

fn op_str(op: &Op) -> String {
    match op {
        Op::Push(v) => format!("p{v}"),
        Op::Extend(r, vs) => format!("e{r}:{}", if vs.is_empty() { "-".to_string() } else { vs.iter().map(|v| v.to_string()).collect::<Vec<_>>().join(".") }),
        Op::Get(i) => format!("g{i}"),
        Op::Count => "c".to_string(),
        Op::Snapshot(s) => format!("s{s}"),
    }
}

fn gen_progs(rng: &mut Rng, nthreads: usize, cap: u32) -> Vec<Vec<Op>> {
    let mut next_val = 100u32;
    let big = rng.chance(1, 4);
    let scripted = big && rng.chance(1, 3);
    (0..nthreads)
        .map(|t| {
            if scripted && t == 0 {
                // a batch that reserves far more than it delivers (whole buckets stay unallocated), a push that lands behind
                // the gap, then a snapshot over everything
                let n = 3 + rng.below(40) as usize;
                let vals: Vec<u32> = (0..n).map(|_| { next_val += 1; next_val }).collect();
                next_val += 1;
                return vec![Op::Extend(n + 100 + rng.below(400) as usize, vals), Op::Push(next_val), Op::Snapshot(0), Op::Count];
            }
            let nops = 1 + rng.below(5) as usize;
            (0..nops)
                .map(|_| match rng.below(10) {
                    0..=3 => {
                        next_val += 1;
                        Op::Push(next_val)
                    }
                    4..=5 => {
                        // batches that cross bucket boundaries (32, 96, 224) when `big`
                        let n = if big { [30usize, 33, 64, 70, 100][rng.below(5) as usize] } else { rng.below(5) as usize };
                        let reported = match rng.below(8) {
                            // reports too many: by a little, or (big) by enough to reserve whole buckets that are never
                            // allocated, so that later pushes land behind a gap
                            0 => {
                                if big && rng.chance(1, 2) {
                                    n + 90 + rng.below(300) as usize
                                } else {
                                    n + 1 + rng.below(3) as usize
                                }
                            }
                            1 => n.saturating_sub(1),           // reports too few (panics)
                            _ => n,
                        };
                        let vals: Vec<u32> = (0..n)
                            .map(|_| {
                                next_val += 1;
                                next_val
                            })
                            .collect();
                        Op::Extend(reported, vals)
                    }
                    6..=7 => Op::Get(rng.below(if big { 600 } else { 12 } + cap as u64 / 8) as u32),
                    8 => Op::Count,
                    _ => Op::Snapshot(rng.below(3) as u32),
                })
                .collect()
        })
        .collect()
}

fn run_case(out: &mut impl Write, rng: &mut Rng) {
    let nthreads = 2 + rng.below(3) as usize;
    let cap = *rng.pick(&[0u32, 1, 33, 1024]);
    let ncols = 1 + rng.below(3) as u32;
    let progs = gen_progs(rng, nthreads, cap);
    for k in 0..IDS {
        CREATED[k].store(0, Ordering::SeqCst);
        DROPPED[k].store(0, Ordering::SeqCst);
    }
    let vec = Arc::new(BVec::<Item>::with_capacity(cap, ncols));
    let sched = Sched::new(nthreads);
    sched.install();
    let mut handles = Vec::new();
    for (tid, prog) in progs.iter().cloned().enumerate() {
        let vec = vec.clone();
        let sched = sched.clone();
        handles.push(std::thread::spawn(move || {
            sched.enter(tid);
            let mut res = Vec::new();
            for op in &prog {
                // a panic inside an operation must not take the thread away from the scheduler (the others would wait forever)
                res.push(match catch_unwind(AssertUnwindSafe(|| run_op(&vec, op, ncols as usize))) {
                    Ok(r) => r,
                    Err(_) => "panic".to_string(),
                });
            }
            sched.leave();
            res
        }));
    }
    let mut srng = Rng::new(rng.next());
    // mostly uniform choices, sometimes long runs of one thread
    let mut sticky: Option<usize> = None;
    let trace = sched.drive(|waiting| {
        if let Some(s) = sticky {
            if let Some(p) = waiting.iter().position(|&w| w == s) {
                if srng.chance(7, 8) {
                    return p;
                }
            }
            sticky = None;
        }
        let p = srng.below(waiting.len() as u64) as usize;
        if srng.chance(1, 6) {
            sticky = Some(waiting[p]);
        }
        p
    });
    let results: Vec<Vec<String>> = handles.into_iter().map(|h| h.join().unwrap()).collect();
    Sched::uninstall();
    // quiescent view after all threads are done
    let fin_count = vec.count();
    let fin: Vec<String> = (0..fin_count.min(400)).map(|i| match vec.get(i) { None => "n".to_string(), Some(it) => it.data.0.to_string() }).collect();
    // C11: the threads (and their handles) are gone; dropping the last handle must destroy every created item exactly once
    drop(vec);
    let (mut never, mut twice) = (Vec::new(), Vec::new());
    for k in 0..IDS {
        let (c, d) = (CREATED[k].load(Ordering::SeqCst), DROPPED[k].load(Ordering::SeqCst));
        if d < c {
            never.push(k.to_string());
        } else if d > c {
            twice.push(k.to_string());
        }
    }
    let drops = if never.is_empty() && twice.is_empty() {
        "ok".to_string()
    } else {
        format!("never:{}/twice:{}", if never.is_empty() { "-".to_string() } else { never.join(".") }, if twice.is_empty() { "-".to_string() } else { twice.join(".") })
    };
    writeln!(
        out,
        "B cap={} cols={} progs={} trace={} results={} final={};{} drops={}",
        cap,
        ncols,
        progs.iter().map(|p| p.iter().map(op_str).collect::<Vec<_>>().join(",")).collect::<Vec<_>>().join("|"),
        if trace.is_empty() { "-".to_string() } else { trace.iter().map(|(t, s, a)| format!("{t}.{s}.{a}")).collect::<Vec<_>>().join(",") },
        results.iter().map(|r| r.join(",")).collect::<Vec<_>>().join("|"),
        fin_count,
        if fin.is_empty() { "-".to_string() } else { fin.join(".") },
        drops,
    )
    .unwrap();
}

fn main() {
    std::panic::set_hook(Box::new(|_| {}));
    let args: Vec<String> = std::env::args().collect();
    let count: usize = args.get(2).map(|s| s.parse().unwrap()).unwrap_or(10);
    let shard: u64 = args.get(3).map(|s| s.parse().unwrap()).unwrap_or(0);
    let mut out = BufWriter::new(std::io::stdout());
    let mut rng = Rng::new(seed_from_env().wrapping_mul(15485863).wrapping_add(shard) ^ 0x4258);
    match args.get(1).map(|s| s.as_str()).unwrap_or("rand") {
        "rand" => {
            for _ in 0..count {
                run_case(&mut out, &mut rng);
            }
        }
        "loc" => {
            // Location::of on a sweep of indices (bucket arithmetic of the model)
            let mut idxs: Vec<u32> = (0..3000).collect();
            for b in 5..32u32 {
                let p = 1u64 << b;
                for d in [-33i64, -32, -31, -1, 0, 1] {
                    let v = p as i64 + d;
                    if v >= 0 && v <= (u32::MAX - 32) as i64 {
                        idxs.push(v as u32);
                    }
                }
            }
            idxs.push(u32::MAX - 32);
            for i in idxs {
                let (b, l, e) = nucleo::verif::location_of(i);
                writeln!(out, "L i={i} bucket={b} len={l} entry={e}").unwrap();
            }
        }
        "cap" => {
            // the capacity limit: ordinary pushes, then batches whose iterator claims an enormous length (they reserve their
            // indices and are then rejected with a panic), rejected pushes beyond the limit, and the count in between
            nucleo::verif::set_callback(None);
            for k in [0u32, 3, 40] {
                for extra in [0u32, 1, 7] {
                    let vec: BVec<Item> = BVec::with_capacity(0, 1);
                    let mut ops: Vec<String> = Vec::new();
                    let mut completed = 0u32;
                    for v in 0..k {
                        vec.push(Item::new(v), fill);
                        completed += 1;
                    }
                    ops.push(format!("c{}:{}", vec.count(), completed));
                    // reserve everything up to u32::MAX - extra (the batch is rejected: beyond MAX_ENTRIES)
                    let claim = (u32::MAX - k - extra) as usize;
                    let it = LyingIter { len: claim, it: Vec::new().into_iter() };
                    let r = catch_unwind(AssertUnwindSafe(|| vec.extend(it, fill)));
                    ops.push(format!("e{}:{}", claim, if r.is_ok() { "ok" } else { "panic" }));
                    ops.push(format!("c{}:{}", vec.count(), completed));
                    for j in 0..(extra + 3) {
                        let r = catch_unwind(AssertUnwindSafe(|| vec.push(Item::new(1000 + j), fill)));
                        ops.push(format!("p:{}", match r { Ok(i) => i.to_string(), Err(_) => "panic".to_string() }));
                        ops.push(format!("c{}:{}", vec.count(), completed));
                    }
                    writeln!(out, "K pushes={} ops={}", k, ops.join(",")).unwrap();
                }
            }
        }
        _ => panic!("mode"),
    }
    out.flush().unwrap();
}
