//! C16: dumps, for every Unicode scalar value, what the real code computes:
//! `c ext tl up nl tl2 nl2 | per cfg (ic,nz): norm cnorm class`  (hex)
use nucleo_matcher::chars;
use nucleo_matcher::verif;
use nucleo_verif_harness::util::*;
use std::io::{BufWriter, Write};

fn main() {
    let out = std::io::stdout();
    let mut out = BufWriter::with_capacity(1 << 20, out.lock());
    let cfgs: Vec<_> = (0..4u32).map(config_of).collect();
    let paths = config_of(8 | 3);
    for u in 0..=0x10FFFFu32 {
        let Some(c) = char::from_u32(u) else { continue };
        write!(
            out,
            "C {:x} {} {:x} {} {:x} {:x} {:x}",
            u,
            ext_bits(c),
            chars::to_lower_case(c) as u32,
            chars::is_upper_case(c) as u8,
            chars::normalize(c) as u32,
            chars::to_lower_case(chars::to_lower_case(c)) as u32,
            chars::normalize(chars::normalize(c)) as u32
        )
        .unwrap();
        for cfg in &cfgs {
            let n = verif::norm_char(c, cfg);
            let (cn, cl) = verif::cnorm_char(c, cfg);
            write!(out, " {:x} {:x} {}", n as u32, cn as u32, cl).unwrap();
        }
        // class under the path preset (delimiters differ)
        write!(out, " {}", verif::class_char(c, &paths)).unwrap();
        if u < 128 {
            for cfg in &cfgs {
                let n = verif::norm_ascii(u as u8, cfg);
                let (cn, cl) = verif::cnorm_ascii(u as u8, cfg);
                write!(out, " {:x} {:x} {}", n, cn, cl).unwrap();
            }
            write!(out, " {}", verif::class_ascii(u as u8, &paths)).unwrap();
        }
        writeln!(out).unwrap();
    }
}
