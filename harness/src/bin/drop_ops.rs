//! C11: destruction of items and their matcher columns.
//! Items carry an id and bump a per-id drop counter when dropped; a counting global allocator
//! measures the bytes that are still live after everything has been dropped.
//!
//! `D cap=<c> cols=<k> ops=<op,op,..> steps=<drops after op 1|after op 2|..> final=<id:count,..> live=<net live bytes> readable=<ok|BAD>`
//! ops: `p<v>` push, `P<v>` push whose fill callback panics, `e<reported>:<v.v.v>:<panic at item | ->` extend
use nucleo::verif::Vec as BVec;
use nucleo::Utf32String;
use nucleo_verif_harness::util::*;
use std::alloc::{GlobalAlloc, Layout, System};
use std::io::{BufWriter, Write};
use std::panic::{catch_unwind, AssertUnwindSafe};
use std::sync::atomic::{AtomicI64, AtomicU32, Ordering};

struct Counting;
static LIVE: AtomicI64 = AtomicI64::new(0);
unsafe impl GlobalAlloc for Counting {
    unsafe fn alloc(&self, l: Layout) -> *mut u8 {
        LIVE.fetch_add(l.size() as i64, Ordering::Relaxed);
        System.alloc(l)
    }
    unsafe fn dealloc(&self, p: *mut u8, l: Layout) {
        LIVE.fetch_sub(l.size() as i64, Ordering::Relaxed);
        System.dealloc(p, l)
    }
    unsafe fn realloc(&self, p: *mut u8, l: Layout, new: usize) -> *mut u8 {
        LIVE.fetch_add(new as i64 - l.size() as i64, Ordering::Relaxed);
        System.realloc(p, l, new)
    }
}
#[global_allocator]
static A: Counting = Counting;

// fixed-size registry: no allocation inside the measured window
const NIDS: usize = 8192;
static DROPS: [AtomicU32; NIDS] = [const { AtomicU32::new(0) }; NIDS];

struct Tracked(u32);
impl Drop for Tracked {
    fn drop(&mut self) {
        DROPS[self.0 as usize % NIDS].fetch_add(1, Ordering::SeqCst);
    }
}

struct LyingIter {
    len: usize,
    it: std::vec::IntoIter<Tracked>,
}
impl Iterator for LyingIter {
    type Item = Tracked;
    fn next(&mut self) -> Option<Tracked> {
        self.it.next()
    }
}
impl ExactSizeIterator for LyingIter {
    fn len(&self) -> usize {
        self.len
    }
}

#[derive(Clone)]
enum Op {
    Push(u32, bool),
    Extend(usize, Vec<u32>, Option<usize>),
}

fn drops_str() -> String {
    let d: Vec<String> = (0..NIDS).filter_map(|k| { let v = DROPS[k].load(Ordering::SeqCst); if v > 0 { Some(format!("{k}:{v}")) } else { None } }).collect();
    if d.is_empty() {
        "-".to_string()
    } else {
        d.join(",")
    }
}

fn run_case(out: &mut impl Write, rng: &mut Rng) {
    for d in DROPS.iter() {
        d.store(0, Ordering::SeqCst);
    }
    let cap = *rng.pick(&[0u32, 1, 33, 1024]);
    let cols = 1 + rng.below(3) as u32;
    let nops = 1 + rng.below(6) as usize;
    let mut next = 100u32;
    let big = rng.chance(1, 3);
    let ops: Vec<Op> = (0..nops)
        .map(|_| {
            if rng.chance(1, 2) {
                next += 1;
                Op::Push(next, rng.chance(1, 5))
            } else {
                let n = if big { [30usize, 33, 70, 100, 130][rng.below(5) as usize] } else { rng.below(5) as usize };
                let vals: Vec<u32> = (0..n).map(|_| { next += 1; next }).collect();
                let reported = match rng.below(6) {
                    0 => n + 1 + rng.below(if big { 3000 } else { 3 }) as usize,
                    1 => n.saturating_sub(1 + rng.below(2) as usize),
                    2 => 0,
                    _ => n,
                };
                let panic_at = if rng.chance(1, 5) && n > 0 { Some(rng.below(n as u64) as usize) } else { None };
                Op::Extend(reported, vals, panic_at)
            }
        })
        .collect();
    let any_panic_leak = std::cell::Cell::new(false);
    let before = LIVE.load(Ordering::SeqCst);
    let mut steps = Vec::new();
    let mut readable = true;
    {
        let vec: BVec<Tracked> = BVec::with_capacity(cap, cols);
        for op in &ops {
            match op {
                Op::Push(v, panics) => {
                    let r = catch_unwind(AssertUnwindSafe(|| {
                        vec.push(Tracked(*v), |t, c| {
                            c[0] = format!("{}:0", t.0).into();
                            if *panics {
                                any_panic_leak.set(true);
                                panic!("fill");
                            }
                            for j in 1..c.len() {
                                c[j] = format!("{}:{j}", t.0).into();
                            }
                        })
                    }));
                    let _ = r;
                }
                Op::Extend(rep, vals, panic_at) => {
                    let it = LyingIter { len: *rep, it: vals.iter().map(|v| Tracked(*v)).collect::<Vec<_>>().into_iter() };
                    let first = vals.first().copied().unwrap_or(0);
                    let r = catch_unwind(AssertUnwindSafe(|| {
                        vec.extend(it, |t, c: &mut [Utf32String]| {
                            c[0] = format!("{}:0", t.0).into();
                            if let Some(k) = panic_at {
                                if t.0 == first + *k as u32 {
                                    any_panic_leak.set(true);
                                    panic!("fill");
                                }
                            }
                            for j in 1..c.len() {
                                c[j] = format!("{}:{j}", t.0).into();
                            }
                        })
                    }));
                    let _ = r;
                }
            }
            steps.push(drops_str());
        }
        // everything published must still be readable with its columns (never dropped early)
        for i in 0..vec.count().min(5000) {
            if let Some(item) = vec.get(i) {
                let id = item.data.0;
                if DROPS[id as usize % NIDS].load(Ordering::SeqCst) != 0 || item.matcher_columns[0].to_string() != format!("{id}:0") {
                    readable = false;
                }
            }
        }
    }
    // our own bookkeeping strings are still alive: free them before measuring
    let steps_joined = steps.join("|");
    drop(steps);
    let after = LIVE.load(Ordering::SeqCst);
    let live = after - before - steps_joined.capacity() as i64;
    let fin = drops_str();
    let op_str = |op: &Op| match op {
        Op::Push(v, p) => format!("{}{v}", if *p { "P" } else { "p" }),
        Op::Extend(r, vs, pa) => format!(
            "e{r}:{}:{}",
            if vs.is_empty() { "-".to_string() } else { vs.iter().map(|v| v.to_string()).collect::<Vec<_>>().join(".") },
            pa.map(|k| k.to_string()).unwrap_or("-".to_string())
        ),
    };
    writeln!(
        out,
        "D cap={} cols={} ops={} steps={} final={} live={} leakexpected={} readable={}",
        cap,
        cols,
        ops.iter().map(op_str).collect::<Vec<_>>().join(","),
        steps_joined,
        fin,
        live,
        any_panic_leak.get() as u8,
        if readable { "ok" } else { "BAD" }
    )
    .unwrap();
}

/// items without drop glue (`u32`): nothing to count, but the matcher columns filled for them own heap buffers that
/// must be freed with the vector
fn run_plain_case(out: &mut impl Write, rng: &mut Rng) {
    let cap = *rng.pick(&[0u32, 1, 33, 1024]);
    let cols = 1 + rng.below(3) as u32;
    let nops = 1 + rng.below(6) as usize;
    let mut next = 100u32;
    let ops: Vec<(bool, Vec<u32>)> = (0..nops)
        .map(|_| {
            let n = if rng.chance(1, 2) { 1 } else { [0usize, 3, 30, 33, 70][rng.below(5) as usize] };
            let vals: Vec<u32> = (0..n).map(|_| { next += 1; next }).collect();
            (n == 1 && rng.chance(1, 2), vals)
        })
        .collect();
    let before = LIVE.load(Ordering::SeqCst);
    let mut readable = true;
    {
        let vec: BVec<u32> = BVec::with_capacity(cap, cols);
        for (single, vals) in &ops {
            if *single {
                vec.push(vals[0], |t, c| {
                    for j in 0..c.len() {
                        c[j] = format!("{}:{j} some text that needs a heap buffer", t).into();
                    }
                });
            } else {
                vec.extend(vals.clone().into_iter(), |t, c: &mut [Utf32String]| {
                    for j in 0..c.len() {
                        c[j] = format!("{}:{j} some text that needs a heap buffer", t).into();
                    }
                });
            }
        }
        for i in 0..vec.count().min(5000) {
            if let Some(item) = vec.get(i) {
                if !item.matcher_columns[0].to_string().starts_with(&format!("{}:0", item.data)) {
                    readable = false;
                }
            }
        }
    }
    let live = LIVE.load(Ordering::SeqCst) - before;
    writeln!(
        out,
        "D kind=plain cap={} cols={} ops={} live={} readable={}",
        cap,
        cols,
        ops.iter().map(|(s, v)| format!("{}{}", if *s { "p" } else { "e" }, v.len())).collect::<Vec<_>>().join(","),
        live,
        if readable { "ok" } else { "BAD" }
    )
    .unwrap();
}

fn main() {
    std::panic::set_hook(Box::new(|_| {}));
    let args: Vec<String> = std::env::args().collect();
    let count: usize = args.get(2).map(|s| s.parse().unwrap()).unwrap_or(10);
    let shard: u64 = args.get(3).map(|s| s.parse().unwrap()).unwrap_or(0);
    let mut rng = Rng::new(seed_from_env().wrapping_mul(1099511628211).wrapping_add(shard) ^ 0x4452);
    let stdout = std::io::stdout();
    let mut lines = Vec::new();
    for _ in 0..count {
        let mut buf = Vec::new();
        if rng.chance(1, 4) {
            run_plain_case(&mut buf, &mut rng);
        } else {
            run_case(&mut buf, &mut rng);
        }
        lines.push(buf);
    }
    let mut out = BufWriter::new(stdout.lock());
    for l in lines {
        out.write_all(&l).unwrap();
    }
    out.flush().unwrap();
}
