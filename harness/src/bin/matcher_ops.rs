//! C01–C05, C10: runs the six match algorithms of the real `Matcher` (score-only and indices
//! variants, fresh / used / poisoned matcher) on generated cases and prints one line per case:
//!
//! `M cfg=<id> hr=A|U nr=A|U hay=<hex> needle=<hex> ext=<cp:bits,..|-> nn=<0|1> res=<algo;score;indices;prior_kept;hist|...>`
//!
//! plus `X` lines with the byte extents of the slab views handed out (C10).
use nucleo_matcher::{verif, Matcher, Utf32Str};
use nucleo_verif_harness::util::*;
use std::collections::BTreeSet;
use std::io::{BufRead, BufWriter, Write};
use std::panic::{catch_unwind, AssertUnwindSafe};

const ALGOS: [&str; 6] = ["fuzzy", "greedy", "substring", "prefix", "postfix", "exact"];

struct Case {
    cfg: u32,
    hr_ascii: bool,
    nr_ascii: bool,
    hay: Vec<char>,
    needle: Vec<char>,
}

fn to_bytes(cs: &[char]) -> Vec<u8> {
    cs.iter().map(|&c| c as u8).collect()
}

fn call(m: &mut Matcher, algo: usize, indices: bool, h: Utf32Str<'_>, n: Utf32Str<'_>, idx: &mut Vec<u32>) -> Option<u16> {
    match (algo, indices) {
        (0, false) => m.fuzzy_match(h, n),
        (0, true) => m.fuzzy_indices(h, n, idx),
        (1, false) => m.fuzzy_match_greedy(h, n),
        (1, true) => m.fuzzy_indices_greedy(h, n, idx),
        (2, false) => m.substring_match(h, n),
        (2, true) => m.substring_indices(h, n, idx),
        (3, false) => m.prefix_match(h, n),
        (3, true) => m.prefix_indices(h, n, idx),
        (4, false) => m.postfix_match(h, n),
        (4, true) => m.postfix_indices(h, n, idx),
        (5, false) => m.exact_match(h, n),
        (_, _) => m.exact_indices(h, n, idx),
    }
}

fn panic_text(e: Box<dyn std::any::Any + Send>) -> String {
    let s = if let Some(s) = e.downcast_ref::<&str>() {
        s.to_string()
    } else if let Some(s) = e.downcast_ref::<String>() {
        s.clone()
    } else {
        "?".to_string()
    };
    let s: String = s.chars().map(|c| if c.is_ascii_alphanumeric() { c } else { '_' }).take(48).collect();
    format!("panic:{s}")
}

/// (score-only result, indices result "score:idx,idx", prior kept)
fn run_one(m: &mut Matcher, algo: usize, h: Utf32Str<'_>, n: Utf32Str<'_>, prior: &[u32]) -> (String, String, bool) {
    let s = match catch_unwind(AssertUnwindSafe(|| call(m, algo, false, h, n, &mut Vec::new()))) {
        Ok(Some(s)) => s.to_string(),
        Ok(None) => "none".to_string(),
        Err(e) => panic_text(e),
    };
    let mut idx: Vec<u32> = prior.to_vec();
    let r = catch_unwind(AssertUnwindSafe(|| call(m, algo, true, h, n, &mut idx)));
    let kept = idx.len() >= prior.len() && idx[..prior.len()] == *prior;
    let app: Vec<String> = if kept { idx[prior.len()..].iter().map(|x| x.to_string()).collect() } else { vec![] };
    let app = if app.is_empty() { "-".to_string() } else { app.join(",") };
    let i = match r {
        Ok(Some(s)) => format!("{s}:{app}"),
        Ok(None) => format!("none:{app}"),
        Err(e) => panic_text(e),
    };
    (s, i, kept)
}

struct Runner {
    shared: Matcher,
    rng: Rng,
    out: BufWriter<std::io::Stdout>,
    seen_ext: BTreeSet<(usize, usize, usize)>,
    /// announce every case on stderr before it runs (the large-input modes): if the real code takes the
    /// process down, the last announced case is the failing input
    announce: bool,
}

impl Runner {
    fn run_case(&mut self, c: &Case) {
        if self.announce {
            eprintln!("CASE M cfg={} hr={} nr={} hay={} needle={}", c.cfg, if c.hr_ascii { "A" } else { "U" }, if c.nr_ascii { "A" } else { "U" }, hex_cps(&c.hay), hex_cps(&c.needle));
        }
        let cfg = config_of(c.cfg);
        let hb = to_bytes(&c.hay);
        let nb = to_bytes(&c.needle);
        let h = if c.hr_ascii { Utf32Str::Ascii(&hb) } else { Utf32Str::Unicode(&c.hay) };
        let n = if c.nr_ascii { Utf32Str::Ascii(&nb) } else { Utf32Str::Unicode(&c.needle) };
        // is the needle already normalized under this configuration?
        let nn = c.needle.iter().all(|&ch| {
            if c.nr_ascii {
                verif::norm_ascii(ch as u8, &cfg) == ch as u8
            } else {
                verif::norm_char(ch, &cfg) == ch
            }
        });
        let prior: Vec<u32> = (0..self.rng.below(3)).map(|_| self.rng.below(1000) as u32).collect();
        let mut res = Vec::new();
        verif::set_recording(true);
        for (a, name) in ALGOS.iter().enumerate() {
            // fresh matcher
            let mut fresh = Matcher::new(cfg.clone());
            let r_fresh = run_one(&mut fresh, a, h, n, &prior);
            // matcher that served every earlier case
            self.shared.config = cfg.clone();
            let r_used = run_one(&mut self.shared, a, h, n, &prior);
            // same matcher with its scratch memory overwritten
            let byte = [0xFFu8, 0x00, 0xA5, 0x01][self.rng.below(4) as usize];
            verif::poison_slab(&mut self.shared, byte);
            let r_poison = run_one(&mut self.shared, a, h, n, &prior);
            let hist = if r_fresh == r_used && r_fresh == r_poison {
                "same".to_string()
            } else {
                format!("DIFF(used={}/{},poisoned{:02x}={}/{})", r_used.0, r_used.1, byte, r_poison.0, r_poison.1)
            };
            res.push(format!("{};{};{};{};{}", name, r_fresh.0, r_fresh.1, r_fresh.2 as u8, hist));
        }
        verif::set_recording(false);
        // what the optimal matcher left in its scratch memory, per run that built a matrix (fresh, used, poisoned)
        let mx: Vec<String> = verif::take_matrices().iter().map(|(d, r, c)| format!("{d}:{r}:{c}")).collect();
        // C04: the optimal matcher with prefix preference off / on (same case otherwise)
        let ppo = {
            let mut off = cfg.clone();
            off.prefer_prefix = false;
            let mut on = cfg.clone();
            on.prefer_prefix = true;
            let mut m = Matcher::new(off);
            let a = catch_unwind(AssertUnwindSafe(|| m.fuzzy_match(h, n))).ok().flatten();
            let mut m = Matcher::new(on);
            let b = catch_unwind(AssertUnwindSafe(|| m.fuzzy_match(h, n))).ok().flatten();
            format!("{}/{}", a.map(|x| x.to_string()).unwrap_or("n".into()), b.map(|x| x.to_string()).unwrap_or("n".into()))
        };
        let ext: Vec<String> = {
            let mut set = BTreeSet::new();
            for &ch in &c.hay {
                if !ch.is_ascii() {
                    set.insert(ch);
                }
            }
            set.into_iter().map(|ch| format!("{:x}:{}", ch as u32, ext_bits(ch))).collect()
        };
        writeln!(
            self.out,
            "M cfg={} hr={} nr={} hay={} needle={} ext={} nn={} ppo={} mx={} res={}",
            c.cfg,
            if c.hr_ascii { "A" } else { "U" },
            if c.nr_ascii { "A" } else { "U" },
            hex_cps(&c.hay),
            hex_cps(&c.needle),
            if ext.is_empty() { "-".to_string() } else { ext.join(",") },
            nn as u8,
            ppo,
            if mx.is_empty() { "-".to_string() } else { mx.join(",") },
            res.join("|")
        )
        .unwrap();
        for e in verif::take_extents() {
            if self.seen_ext.insert((e.char_size, e.haystack_len, e.needle_len)) {
                let v: Vec<String> = e.views.iter().map(|(o, l, a)| format!("{o}:{l}:{a}")).collect();
                writeln!(self.out, "X cs={} h={} n={} slab={} views={}", e.char_size, e.haystack_len, e.needle_len, e.slab_size, v.join(",")).unwrap();
            }
        }
    }
}

// ---------------------------------------------------------------------------------------------
// generators

const POOL_ASCII: &[char] = &[
    'a', 'b', 'c', 'x', 'A', 'B', 'C', 'X', '0', '1', '9', '/', ',', ':', ';', '|', ' ', '\t', '-', '_', '.', '\\', '$', '!', '^', '\'', '\u{b}', '?',
];
const POOL_UNI: &[char] = &[
    'ä', 'Ä', 'é', 'É', 'ς', 'σ', 'Σ', 'ſ', 'ß', 'ł', 'Ł', 'µ', 'μ', '日', '١', '\u{a0}', '\u{3000}', 'ǅ', 'ǆ', 'Å', 'å', 'º', 'ẛ', '⁹', 'ǣ', 'Ǣ', 'æ', '\u{85}', 'ʟ', '¡', '¿',
];

fn norm_any(c: char, hr_ascii: bool, cfg: &nucleo_matcher::Config) -> char {
    if hr_ascii {
        verif::norm_ascii(c as u8, cfg) as char
    } else {
        verif::norm_char(c, cfg)
    }
}

fn gen_hay(rng: &mut Rng, ascii_only: bool, len: usize) -> Vec<char> {
    // words separated by delimiters so that bonuses of all kinds occur
    let small = rng.chance(1, 2);
    (0..len)
        .map(|_| {
            if !ascii_only && rng.chance(1, 4) {
                *rng.pick(POOL_UNI)
            } else if small {
                *rng.pick(&POOL_ASCII[..12])
            } else {
                *rng.pick(POOL_ASCII)
            }
        })
        .collect()
}

fn gen_case(rng: &mut Rng, max_len: usize, with_prefix: bool) -> Case {
    let mut cfg = rng.below(4) as u32 | ((rng.below(3) as u32) << 3);
    if with_prefix && rng.chance(1, 3) {
        cfg |= 4;
    }
    let ascii_only = rng.chance(1, 2);
    let len = match rng.below(10) {
        0 => 0,
        1..=5 => 1 + rng.below(8) as usize,
        6..=8 => 1 + rng.below(24) as usize,
        _ => 1 + rng.below(max_len as u64) as usize,
    };
    let hay = gen_hay(rng, ascii_only, len);
    let hay_is_ascii = hay.iter().all(|c| c.is_ascii());
    let hr_ascii = hay_is_ascii && rng.chance(3, 4);
    let config = config_of(cfg);
    let normed: Vec<char> = hay.iter().map(|&c| norm_any(c, hr_ascii, &config)).collect();
    let mut needle: Vec<char> = match rng.below(10) {
        // subsequence of the normalized haystack
        0..=4 => {
            let k = if len == 0 { 0 } else { 1 + rng.below(len.min(6) as u64) as usize };
            let mut idx: Vec<usize> = (0..k).map(|_| rng.below(len as u64) as usize).collect();
            idx.sort();
            idx.dedup();
            idx.iter().map(|&i| normed[i]).collect()
        }
        // contiguous piece
        5..=6 => {
            if len == 0 {
                vec![]
            } else {
                let a = rng.below(len as u64) as usize;
                let b = a + 1 + rng.below((len - a).min(5) as u64) as usize;
                normed[a..b].to_vec()
            }
        }
        // whole / trimmed haystack
        7 => {
            let s: String = normed.iter().collect();
            if rng.chance(1, 2) { s.trim().chars().collect() } else { normed.clone() }
        }
        _ => {
            let k = rng.below(4) as usize;
            gen_hay(rng, ascii_only, k)
        }
    };
    // perturbations
    if !needle.is_empty() && rng.chance(1, 5) {
        let i = rng.below(needle.len() as u64) as usize;
        match rng.below(3) {
            0 => needle[i] = *rng.pick(POOL_ASCII),
            1 => needle.insert(i, *rng.pick(POOL_ASCII)),
            _ => {
                needle.remove(i);
            }
        }
    }
    let needle_is_ascii = needle.iter().all(|c| c.is_ascii());
    let nr_ascii = needle_is_ascii && rng.chance(4, 5);
    Case { cfg, hr_ascii, nr_ascii, hay, needle }
}

/// occurrence-rich cases: the haystack is a concatenation of the needle, near misses of it (doubled first
/// character, truncated, reversed, upper-cased) and separators, so that overlapping / repeated / late
/// occurrences at and off bonus positions are the norm
fn gen_occ_case(rng: &mut Rng) -> Case {
    let mut cfg = rng.below(4) as u32 | ((rng.below(3) as u32) << 3);
    if rng.chance(1, 4) {
        cfg |= 4;
    }
    let config = config_of(cfg);
    let uni = rng.chance(1, 2);
    // (the third alphabet: punctuation whose byte is 32 away from another printable or control byte - what a case-insensitive byte search
    // that treats every first needle byte like a letter would confuse)
    let alpha: &[char] = if uni {
        &['a', 'b', 'é', '-', ' ', '1', 'ς', '/']
    } else if rng.chance(2, 3) {
        &['a', 'b', 'c', '-', ' ', '1', '_', '/']
    } else {
        &['a', 'b', '_', '{', '|', '~', '`', '-', ')', '*', '@', '[']
    };
    let nl = 1 + rng.below(4) as usize;
    let raw: Vec<char> = (0..nl).map(|_| *rng.pick(alpha)).collect();
    let hr_hint_ascii = !uni;
    let needle: Vec<char> = raw.iter().map(|&c| norm_any(c, hr_hint_ascii && c.is_ascii(), &config)).collect();
    let seps: &[&[char]] = &[&[' '], &['/'], &['-'], &['x'], &['_'], &[' ', ' '], &['\t'], &['é'], &['A'], &['1']];
    let mut hay: Vec<char> = Vec::new();
    let ntok = 2 + rng.below(7) as usize;
    for _ in 0..ntok {
        match rng.below(11) {
            0 | 1 => hay.extend(needle.iter()),
            // the needle with its first byte moved by 32 in either direction
            9 | 10 if needle[0].is_ascii() => {
                let b = needle[0] as u8;
                let t = if rng.chance(1, 2) { b.wrapping_sub(32) } else { b.wrapping_add(32) } & 0x7f;
                hay.push(t as char);
                hay.extend(needle[1..].iter());
            }
            2 => {
                hay.push(needle[0]);
                hay.extend(needle.iter());
            }
            3 => hay.extend(needle[..needle.len() - 1].iter()),
            4 => hay.extend(needle.iter().rev()),
            5 => hay.extend(needle.iter().map(|c| c.to_uppercase().next().unwrap())),
            6 => {
                hay.extend(needle.iter());
                hay.extend(needle.iter());
            }
            _ => {
                let sp = *rng.pick(seps);
                if uni || sp.iter().all(|c| c.is_ascii()) {
                    hay.extend(sp.iter());
                } else {
                    hay.push(' ');
                }
            }
        }
    }
    let hay_is_ascii = hay.iter().all(|c| c.is_ascii());
    let hr_ascii = hay_is_ascii && rng.chance(3, 4);
    // re-normalise the needle for the representation actually used
    let needle: Vec<char> = needle.iter().map(|&c| norm_any(c, hr_ascii, &config)).collect();
    let nr_ascii = needle.iter().all(|c| c.is_ascii()) && rng.chance(4, 5);
    Case { cfg, hr_ascii, nr_ascii, hay, needle }
}

fn exhaustive(r: &mut Runner, maxh: usize, maxn: usize, cfgs: &[u32]) {
    let hal: Vec<char> = vec!['a', 'B', '/', ' ', '1', 'ä', 'ς', '-'];
    let nal: Vec<char> = vec!['a', 'b', '/', ' ', '1', 'ä', 'σ', 'ς', 'B', '-'];
    fn strings(al: &[char], maxlen: usize) -> Vec<Vec<char>> {
        let mut all = vec![vec![]];
        let mut frontier = vec![vec![]];
        for _ in 0..maxlen {
            let mut next = Vec::new();
            for s in &frontier {
                for &c in al {
                    let mut t: Vec<char> = s.clone();
                    t.push(c);
                    next.push(t);
                }
            }
            all.extend(next.iter().cloned());
            frontier = next;
        }
        all
    }
    let hays = strings(&hal, maxh);
    let needles = strings(&nal, maxn);
    for &cfg in cfgs {
        for h in &hays {
            let ha = h.iter().all(|c| c.is_ascii());
            for n in &needles {
                let na = n.iter().all(|c| c.is_ascii());
                for hr_ascii in [true, false] {
                    if hr_ascii && !ha {
                        continue;
                    }
                    for nr_ascii in [true, false] {
                        if nr_ascii && !na {
                            continue;
                        }
                        // keep the non-canonical representations for a fraction of the space only
                        if (!hr_ascii && ha || !nr_ascii && na) && (h.len() + n.len()) % 3 != 0 {
                            continue;
                        }
                        r.run_case(&Case { cfg, hr_ascii, nr_ascii, hay: h.clone(), needle: n.clone() });
                    }
                }
            }
        }
    }
}

fn sizes(r: &mut Runner, count: usize) {
    // around the matrix limits: w*n ≈ 102400, n ≈ 2048, w ≈ 65535, and long needles
    let shapes: &[(usize, usize)] = &[
        (1000, 100), (1024, 100), (1025, 100), (1100, 100), (2000, 50), (2047, 50), (2048, 50), (2049, 50), (5000, 20),
        (5120, 20), (5121, 20), (10000, 10), (10240, 10), (10241, 10), (65534, 1), (65535, 1), (65536, 1), (65537, 2),
        (40000, 2), (51200, 2), (51201, 2), (4000, 2047), (4000, 2048), (4000, 2049), (3000, 2100), (500, 200), (512, 200),
        (513, 200), (520, 200), (30000, 3), (22000, 3), (70000, 3),
    ];
    for k in 0..count {
        let (mut hl, mut nl) = shapes[k % shapes.len()];
        let uni = r.rng.chance(1, 3);
        if k >= shapes.len() {
            // beyond the fixed list: short needles with a window drawn from a band around the point where the
            // scratch layout (about `133120 / (needle + char size + 9)` columns) stops fitting the slab
            nl = *r.rng.pick(&[2usize, 3, 4, 6, 8, 12, 16, 24, 32, 64]);
            let b = 133120 / (nl + if uni { 4 } else { 1 } + 9);
            hl = b * (85 + r.rng.below(45) as usize) / 100;
        }
        let mut cfg = r.rng.below(4) as u32 | ((r.rng.below(2) as u32) << 3);
        if r.rng.chance(1, 3) {
            cfg |= 4;
        }
        let config = config_of(cfg);
        let mut hay: Vec<char> = (0..hl).map(|_| *r.rng.pick(&POOL_ASCII[..14])).collect();
        if uni {
            let p = r.rng.below(hl as u64) as usize;
            hay[p] = 'ä';
        }
        let hr_ascii = !uni;
        // needle: a subsequence spread over the haystack (so the window is wide), or a late one
        let late = r.rng.chance(1, 4);
        let lo = if late { hl - hl / 8 } else { 0 };
        let mut idx: Vec<usize> = (0..nl).map(|_| lo + r.rng.below((hl - lo) as u64) as usize).collect();
        idx.sort();
        idx.dedup();
        let mut needle: Vec<char> = idx.iter().map(|&i| norm_any(hay[i], hr_ascii, &config)).collect();
        // a third of the needles are perturbed so that they are (usually) no subsequence any more: a character doubled in
        // place, two neighbours swapped, or a character that does not occur in the haystack appended
        match r.rng.below(9) {
            0 | 1 if !needle.is_empty() => {
                let k = r.rng.below(needle.len().min(3) as u64) as usize;
                let c = needle[k];
                needle.insert(k, c);
            }
            2 if needle.len() >= 2 => {
                let k = r.rng.below(needle.len() as u64 - 1) as usize;
                needle.swap(k, k + 1);
            }
            3 => needle.push('q'),
            _ => {}
        }
        if uni && needle.len() >= 2 && r.rng.chance(1, 2) {
            // the doubled first character occurs once, early: only a scan that reuses a haystack character can match it
            let c = 'z';
            hay[1] = c;
            needle[0] = c;
            needle[1] = c;
        }
        let nr_ascii = needle.iter().all(|c| c.is_ascii()) && r.rng.chance(4, 5);
        r.run_case(&Case { cfg, hr_ascii, nr_ascii, hay, needle });
    }
}

/// matches that start far into the haystack: a filler that shares no character with the needle, of a length
/// around the 16-bit boundaries, then a short tail in which the needle occurs as a subsequence (so the matrix
/// path runs on a small window at a large offset)
fn far(r: &mut Runner, count: usize) {
    let offs: &[usize] = &[65534, 65535, 65536, 65537, 65600, 70000, 100000, 131071, 131072, 131080, 200000, 40000];
    for k in 0..count {
        let off = offs[k % offs.len()];
        let uni = r.rng.chance(1, 2);
        let mut cfg = r.rng.below(4) as u32 | ((r.rng.below(2) as u32) << 3);
        if r.rng.chance(1, 4) {
            cfg |= 4;
        }
        let config = config_of(cfg);
        let filler = if uni && r.rng.chance(1, 2) { '日' } else { '-' };
        let mut hay: Vec<char> = vec![filler; off];
        let tl = 4 + r.rng.below(30) as usize;
        let pool: Vec<char> = if uni { POOL_ASCII[..12].iter().chain(POOL_UNI[..6].iter()).copied().filter(|&c| c != filler).collect() } else { POOL_ASCII[..14].to_vec() };
        let tail: Vec<char> = (0..tl).map(|_| *r.rng.pick(&pool)).collect();
        hay.extend(tail.iter());
        if !uni {
            // stays ASCII
        } else if filler == '-' {
            hay[r.rng.below(off as u64) as usize] = 'ä';
        }
        let hr_ascii = !uni;
        let nl = 1 + r.rng.below(5.min(tl as u64)) as usize;
        let mut idx: Vec<usize> = (0..nl).map(|_| off + r.rng.below(tl as u64) as usize).collect();
        idx.sort();
        idx.dedup();
        let needle: Vec<char> = idx.iter().map(|&i| norm_any(hay[i], hr_ascii, &config)).collect();
        if needle.iter().any(|&c| c == norm_any(filler, hr_ascii, &config) || c == 'ä' || c == 'a' && uni && filler == '-') {
            continue;
        }
        let nr_ascii = needle.iter().all(|c| c.is_ascii()) && r.rng.chance(4, 5);
        r.run_case(&Case { cfg, hr_ascii, nr_ascii, hay, needle });
    }
}

fn long_needles(r: &mut Runner, count: usize) {
    for k in 0..count {
        let nl = [2400usize, 2519, 2520, 2521, 2522, 2600, 3000, 5000][k % 8];
        let mut cfg = r.rng.below(4) as u32 | ((r.rng.below(2) as u32) << 3);
        if k % 3 == 0 {
            cfg |= 4;
        }
        let config = config_of(cfg);
        let extra = r.rng.below(3) as usize;
        let hay: Vec<char> = (0..nl + extra).map(|_| *r.rng.pick(&['a', 'b', '/', 'A'])).collect();
        let needle: Vec<char> = hay[..nl].iter().map(|&c| norm_any(c, true, &config)).collect();
        r.run_case(&Case { cfg, hr_ascii: true, nr_ascii: true, hay, needle });
    }
}

fn main() {
    // never print panic messages of caught panics
    std::panic::set_hook(Box::new(|_| {}));
    let args: Vec<String> = std::env::args().collect();
    let mode = args.get(1).map(|s| s.as_str()).unwrap_or("rand");
    let seed = seed_from_env();
    let mut r = Runner {
        shared: Matcher::default(),
        rng: Rng::new(seed ^ 0x4d41),
        out: BufWriter::with_capacity(1 << 20, std::io::stdout()),
        seen_ext: BTreeSet::new(),
        announce: matches!(mode, "sizes" | "long" | "far" | "corpus"),
    };
    match mode {
        "rand" => {
            let count: usize = args[2].parse().unwrap();
            let max_len: usize = args.get(3).map(|s| s.parse().unwrap()).unwrap_or(60);
            let shard: u64 = args.get(4).map(|s| s.parse().unwrap()).unwrap_or(0);
            r.rng = Rng::new(seed.wrapping_mul(1000003).wrapping_add(shard));
            for _ in 0..count {
                let c = gen_case(&mut r.rng.clone(), max_len, true);
                r.rng.next();
                r.run_case(&c);
            }
        }
        "occ" => {
            let count: usize = args[2].parse().unwrap();
            let shard: u64 = args.get(3).map(|s| s.parse().unwrap()).unwrap_or(0);
            r.rng = Rng::new(seed.wrapping_mul(999331).wrapping_add(shard) ^ 0x6f63);
            for _ in 0..count {
                let c = gen_occ_case(&mut r.rng);
                r.run_case(&c);
            }
        }
        "dense" => {
            // short haystacks over a tiny alphabet of mixed character classes, needles embedded with small gaps: runs of
            // consecutive matches that start / continue / restart on class transitions, ties between continuing a run and
            // entering it from a gap (where only the carried consecutive bonus differs)
            let count: usize = args[2].parse().unwrap();
            let shard: u64 = args.get(3).map(|s| s.parse().unwrap()).unwrap_or(0);
            r.rng = Rng::new(seed.wrapping_mul(7368787).wrapping_add(shard) ^ 0x6465);
            let alpha: &[char] = &['a', 'b', 'x', 'A', 'B', '1', '2', ' ', '-', 'a', 'b', 'x'];
            for _ in 0..count {
                let cfg = r.rng.below(4) as u32 | ((r.rng.below(3) as u32) << 3);
                let config = config_of(cfg);
                let len = 6 + r.rng.below(11) as usize;
                let mut hay: Vec<char> = (0..len).map(|_| *r.rng.pick(alpha)).collect();
                if r.rng.chance(1, 6) {
                    let i = r.rng.below(len as u64) as usize;
                    hay[i] = 'é';
                }
                let hay_is_ascii = hay.iter().all(|c| c.is_ascii());
                let hr_ascii = hay_is_ascii && r.rng.chance(3, 4);
                let normed: Vec<char> = hay.iter().map(|&c| norm_any(c, hr_ascii, &config)).collect();
                let k = 2 + r.rng.below(4) as usize;
                let mut i = r.rng.below((len / 2) as u64) as usize;
                let mut needle = Vec::new();
                while needle.len() < k && i < len {
                    needle.push(normed[i]);
                    i += 1 + [0usize, 0, 0, 1, 1, 2][r.rng.below(6) as usize];
                }
                let needle_is_ascii = needle.iter().all(|c| c.is_ascii());
                let nr_ascii = needle_is_ascii && (hr_ascii || r.rng.chance(1, 2));
                r.run_case(&Case { cfg, hr_ascii, nr_ascii, hay, needle });
            }
        }
        "edge" => {
            // whitespace at the edges: a core word, the needle is the core with whitespace at neither / either / both ends, the
            // haystack is the core (sometimes in another case, sometimes damaged) wrapped in 0-2 whitespace characters per side
            let count: usize = args[2].parse().unwrap();
            let shard: u64 = args.get(3).map(|s| s.parse().unwrap()).unwrap_or(0);
            r.rng = Rng::new(seed.wrapping_mul(15485863).wrapping_add(shard) ^ 0x6564);
            let ws_ascii: &[char] = &[' ', '\t', '\n', ' '];
            let ws_uni: &[char] = &[' ', '\u{3000}', '\u{a0}', '\t', '\u{2003}'];
            for _ in 0..count {
                let cfg = r.rng.below(4) as u32 | ((r.rng.below(3) as u32) << 3);
                let config = config_of(cfg);
                let uni = r.rng.chance(1, 3);
                let ws = if uni { ws_uni } else { ws_ascii };
                let alpha: &[char] = if uni { &['a', 'B', 'é', 'ô', '-', '1', ' '] } else { &['a', 'B', 'c', '-', '1', '/', ' '] };
                let cl = 1 + r.rng.below(4) as usize;
                let mut core: Vec<char> = (0..cl).map(|_| *r.rng.pick(alpha)).collect();
                // the core itself has no whitespace at its ends
                if core[0] == ' ' { core[0] = 'a'; }
                if core[cl - 1] == ' ' { core[cl - 1] = 'c'; }
                let nl = [0usize, 0, 1, 1, 2][r.rng.below(5) as usize];
                let nt = [0usize, 0, 1, 1, 2][r.rng.below(5) as usize];
                let mut raw_needle: Vec<char> = (0..nl).map(|_| *r.rng.pick(ws)).collect();
                raw_needle.extend(core.iter());
                raw_needle.extend((0..nt).map(|_| *r.rng.pick(ws)));
                let hl = if r.rng.chance(1, 2) { nl } else { r.rng.below(3) as usize };
                let ht = if r.rng.chance(1, 2) { nt } else { r.rng.below(3) as usize };
                let mut hay: Vec<char> = Vec::new();
                // mostly the needle's own whitespace (so that it can match), sometimes other whitespace
                for k in 0..hl { hay.push(if k < nl && r.rng.chance(3, 4) { raw_needle[nl - 1 - k.min(nl - 1)] } else { *r.rng.pick(ws) }); }
                hay.reverse();
                let mut mid = core.clone();
                match r.rng.below(8) {
                    0 => { let i = r.rng.below(cl as u64) as usize; mid[i] = 'x'; }
                    1 => mid.push('x'),
                    2 => mid.insert(0, 'x'),
                    3 => mid = mid.iter().map(|c| c.to_uppercase().next().unwrap()).collect(),
                    _ => {}
                }
                hay.extend(mid.iter());
                for k in 0..ht { hay.push(if k < nt && r.rng.chance(3, 4) { raw_needle[nl + cl + k] } else { *r.rng.pick(ws) }); }
                if r.rng.chance(1, 6) { hay.extend((0..1 + r.rng.below(2)).map(|_| ' ')); }
                let hay_is_ascii = hay.iter().all(|c| c.is_ascii());
                let hr_ascii = hay_is_ascii && r.rng.chance(3, 4);
                let needle: Vec<char> = raw_needle.iter().map(|&c| norm_any(c, hay_is_ascii && c.is_ascii(), &config)).collect();
                let needle_is_ascii = needle.iter().all(|c| c.is_ascii());
                let nr_ascii = needle_is_ascii && r.rng.chance(3, 4);
                r.run_case(&Case { cfg, hr_ascii, nr_ascii, hay, needle });
            }
        }
        "letters" => {
            // every printable ASCII character as the needle character that only its other-case twin in the haystack can
            // satisfy (or must not satisfy, when case matters): one- and two-character needles, the twin first / in the
            // middle / last, ASCII and code-point representation, an ASCII haystack and one with a trailing non-ASCII char
            for cfg in [0u32, 1, 2, 3, 9, 11] {
                let config = config_of(cfg);
                for b in 33u8..127 {
                    let c = b as char;
                    let twin = if c.is_ascii_lowercase() { c.to_ascii_uppercase() } else { c.to_ascii_lowercase() };
                    for hay in [
                        vec!['x', twin],
                        vec![twin],
                        vec!['q', twin, 'y'],
                        vec![twin, 'q'],
                        vec!['q', 'w', twin],
                        vec!['q', twin, 'w', 'é'],
                        vec!['q', c, twin, 'w'],
                    ] {
                        let hay_is_ascii = hay.iter().all(|c| c.is_ascii());
                        for hr_ascii in [true, false] {
                            if hr_ascii && !hay_is_ascii {
                                continue;
                            }
                            for raw in [vec![c], vec!['q', c], vec![c, 'q'], vec![c, 'w']] {
                                let needle: Vec<char> = raw.iter().map(|&c| norm_any(c, hr_ascii, &config)).collect();
                                r.run_case(&Case { cfg, hr_ascii, nr_ascii: hr_ascii, hay: hay.clone(), needle });
                            }
                        }
                    }
                }
            }
        }
        "exh" => {
            let maxh: usize = args[2].parse().unwrap();
            let maxn: usize = args[3].parse().unwrap();
            let cfgs: Vec<u32> = args[4].split(',').map(|s| s.parse().unwrap()).collect();
            exhaustive(&mut r, maxh, maxn, &cfgs);
        }
        "sizes" => sizes(&mut r, args[2].parse().unwrap()),
        "long" => long_needles(&mut r, args[2].parse().unwrap()),
        "far" => far(&mut r, args[2].parse().unwrap()),
        "corpus" => {
            // re-run cases given as M lines (cfg/hr/nr/hay/needle fields) on stdin
            let stdin = std::io::stdin();
            for line in stdin.lock().lines() {
                let line = line.unwrap();
                if !line.starts_with("M ") {
                    continue;
                }
                let f = |k: &str| -> String {
                    line.split(' ').find_map(|w| w.strip_prefix(&format!("{k}="))).unwrap_or("").to_string()
                };
                let c = Case {
                    cfg: f("cfg").parse().unwrap(),
                    hr_ascii: f("hr") == "A",
                    nr_ascii: f("nr") == "A",
                    hay: parse_cps(&f("hay")),
                    needle: parse_cps(&f("needle")),
                };
                r.run_case(&c);
            }
        }
        _ => panic!("unknown mode"),
    }
    r.out.flush().unwrap();
}
