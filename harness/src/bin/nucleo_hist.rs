//! C06 / C07 / C12 / C13 / C19 / C20: histories on a real `Nucleo`.
//!
//! One line per history:
//! `H pool=<n> cols=<c> items=<v:len,..> pats=<id:empty,..> scores=<pat:item:score,..> ev=<event;event;..>`
//!
//! Events (what was done and what the real code returned):
//!   inj:<h>  clone:<src>:<h>  dropinj:<h>              .. |ai=<active_injectors>
//!   push:<h>:<v>=<idx>   reserve:<h>:<v>:<w>=<idx>   publish:<w>   extend:<h>:<v.v.v>=<first idx>
//!   oldpush:<h>:<v>                                     (push through an injector of an older stream)
//!   reparse:<col>:<pat id>:<append>:<status after>
//!   tick:<hold 0|1>:<forced 0|1>=<changed><running>   restart:<clear>   release
//! every event ends with `|ai=<n>|nf=<notify calls during the event>` and, for tick/restart/release,
//! `|snap=<item_count>/<pattern id>/<score.idx,..>/<get_item ok flags>/<values of the matches>/<idx.value readable through get_item, idx < 40>`.
use nucleo::pattern::{CaseMatching, Normalization};
use nucleo::{Config, Injector, Nucleo, Utf32String};
use nucleo_verif_harness::util::*;
use std::collections::BTreeMap;
use std::io::{BufWriter, Write};
use std::sync::atomic::{AtomicBool, AtomicU32, AtomicU64, Ordering};
use std::sync::mpsc;
use std::sync::{Arc, Mutex};
use std::time::Duration;

const WORDS: &[&str] = &[
    "foo", "bar", "foobar", "baz", "a/b", "Foo Bar", "xyz", "fo", "b", "ab$", "f-o-o", "oof", "barfoo", "BAR", "b a r", "zzz",
    // U+023A normalizes to 'A' but lower-cases to U+2C65, which normalization leaves alone; 'é' is normalized to 'e'
    "\u{23A}\u{e9}", "\u{2C65}\u{e9}", "caf\u{e9}",
];

fn col_text(v: u32, j: usize) -> String {
    // one item in six has an empty column (never the only column's... also allowed: an empty haystack is a legal item)
    if (v as usize + j * 5) % 6 == 2 {
        return String::new();
    }
    WORDS[((v as usize) * 7 + j * 3) % WORDS.len()].to_string()
}

/// items carry a drop counter (C11): `DROPS[v]` = how often the item with value `v` was dropped
const NIDS: usize = 4096;
static DROPS: [AtomicU32; NIDS] = [const { AtomicU32::new(0) }; NIDS];
/// C09 caller contract of `get_unchecked`: indices whose `active` store has been reached by some writer of
/// this history (a superset of the published entries of the current stream), and the first index handed
/// to `get_unchecked` outside that set (index + 1; 0 = none)
const NPUB: usize = 1 << 14;
static PUBLISHED: [AtomicBool; NPUB] = [const { AtomicBool::new(false) }; NPUB];
static UNPUB: AtomicU64 = AtomicU64::new(0);
pub struct Tracked(u32);
impl Drop for Tracked {
    fn drop(&mut self) {
        DROPS[self.0 as usize % NIDS].fetch_add(1, Ordering::SeqCst);
    }
}
fn dropped_str() -> String {
    let d: Vec<String> = (0..NIDS)
        .filter_map(|k| {
            let v = DROPS[k].load(Ordering::SeqCst);
            if v > 0 { Some(if v == 1 { format!("{k}") } else { format!("{k}x{v}") }) } else { None }
        })
        .collect();
    if d.is_empty() { "-".to_string() } else { d.join(".") }
}

struct Gates {
    /// hold the next run at `run.start` until released
    hold_run: AtomicBool,
    /// hold the next run at `run.end` (after it has read `should_notify`, before it releases the lock)
    hold_end: AtomicBool,
    /// the tick in progress asked for a hold: if its lock attempt times out it waits (at `tick.lock_timeout`, before it
    /// re-arms `should_notify`) until the run it spawned has parked, so that "the run read the flag before the tick
    /// re-armed it" does not depend on how fast the pool thread is scheduled
    want_hold: AtomicBool,
    /// the cancelling tick in progress lets a parked run go only after a delay (it must block on the worker lock until then)
    delay_release: AtomicBool,
    /// hold the next run in front of its k-th scored item (0 = off); falls back to `run.end`
    hold_item: AtomicU64,
    item_count: AtomicU64,
    /// where the parked run is: 1 = run.start, 2 = run.end, 3 = k-th item
    parked_kind: AtomicU64,
    /// a run is currently parked
    parked: AtomicBool,
    release: AtomicBool,
    run_ended: AtomicU64,
    run_started: AtomicU64,
    spawned: AtomicU64,
}

struct Writer {
    tx: mpsc::Sender<()>,
    handle: std::thread::JoinHandle<u32>,
}

struct H {
    nucleo: Nucleo<Tracked>,
    notify: Arc<AtomicU32>,
    gates: Arc<Gates>,
    injectors: BTreeMap<u32, (Injector<Tracked>, u32)>, // handle -> (injector, stream generation)
    generation: u32,
    writers: BTreeMap<u32, Writer>,
    cols: usize,
    items: Vec<u32>, // every value ever injected (any stream)
    pat_texts: Vec<Vec<String>>, // per pattern id: text of each column
    cur_text: Vec<String>,
    pat_debug: Vec<String>,
    ev: Vec<String>,
    next_h: u32,
    next_w: u32,
    next_v: u32,
}

fn fill(cols: usize) -> impl Fn(&Tracked, &mut [Utf32String]) {
    move |v, c| {
        for j in 0..cols {
            c[j] = col_text(v.0, j).into();
        }
    }
}

impl H {
    fn snapshot_str(&self) -> String {
        let s = self.nucleo.snapshot();
        let ms: Vec<String> = s.matches().iter().map(|m| format!("{}.{}", m.score, m.idx)).collect();
        // every match must be readable and carry the right columns
        let mut ok = String::new();
        // reading a match must never panic; if it does the match is reported as unreadable
        let quiet = |f: &mut dyn FnMut() -> (bool, String)| -> (bool, String) {
            match std::panic::catch_unwind(std::panic::AssertUnwindSafe(|| f())) {
                Ok(r) => r,
                Err(_) => (false, "n".to_string()),
            }
        };
        let mut vals: Vec<String> = Vec::new();
        for (k, m) in s.matches().iter().enumerate() {
            let cols = self.cols;
            let (good, val) = quiet(&mut || {
                let a = s.get_item(m.idx);
                let b = s.get_matched_item(k as u32);
                match (a, b) {
                    (Some(a), Some(b)) => (
                        a.data.0 == b.data.0 && (0..cols).all(|j| a.matcher_columns[j].to_string() == col_text(a.data.0, j)),
                        a.data.0.to_string(),
                    ),
                    _ => (false, "n".to_string()),
                }
            });
            ok.push(if good { '1' } else { '0' });
            vals.push(val);
        }
        // `matched_items(range)`: every spelling of a few ranges must list exactly the items of `matches()[range]`
        // (a mismatch, or a panic for an in-range bound, marks every match as unreadable)
        {
            use std::ops::Bound::*;
            let n = s.matches().len() as u32;
            let want: Vec<u32> = s.matches().iter().map(|m| m.idx).collect();
            let (ranges_ok, _) = quiet(&mut || {
                let idxs = |lo: std::ops::Bound<u32>, hi: std::ops::Bound<u32>| -> Vec<u32> {
                    s.matched_items((lo, hi)).map(|it| {
                        // identify the item by its position in the stream: compare data with get_item(idx)
                        it.data.0
                    }).collect()
                };
                let val = |k: usize| s.get_item(want[k]).map(|i| i.data.0);
                let mut ok = true;
                let mut check = |lo: std::ops::Bound<u32>, hi: std::ops::Bound<u32>, a: usize, b: usize| {
                    let got = idxs(lo, hi);
                    let exp: Vec<u32> = (a..b).filter_map(val).collect();
                    if got != exp || got.len() != b - a {
                        ok = false;
                    }
                };
                check(Unbounded, Unbounded, 0, n as usize);
                if n >= 1 {
                    check(Included(0), Excluded(n), 0, n as usize);
                    check(Included(0), Included(n - 1), 0, n as usize);
                    check(Included(n - 1), Unbounded, n as usize - 1, n as usize);
                    check(Unbounded, Excluded(1), 0, 1);
                }
                if n >= 3 {
                    check(Included(1), Excluded(n - 1), 1, n as usize - 1);
                    check(Excluded(0), Included(n - 2), 1, n as usize - 1);
                }
                (ok, String::new())
            });
            if !ranges_ok {
                ok = ok.chars().map(|_| '0').collect();
                if ok.is_empty() && !s.matches().is_empty() {
                    ok = "0".repeat(s.matches().len());
                }
            }
        }
        let pd = format!("{:?}", (0..self.cols).map(|c| s.pattern().column_pattern(c).atoms.clone()).collect::<Vec<_>>());
        let pid = self.pat_debug.iter().position(|d| *d == pd).map(|i| i as i64).unwrap_or(-1);
        // what the snapshot's own item handle reaches by index, matched or not (`get_item` reads the snapshot's stream)
        let mut probe: Vec<String> = Vec::new();
        for i in 0..40u32 {
            let (_, val) = quiet(&mut || match s.get_item(i) {
                Some(it) => (true, format!("{}.{}", i, it.data.0)),
                None => (true, String::new()),
            });
            if !val.is_empty() {
                probe.push(val);
            }
        }
        format!(
            "{}/{}/{}/{}/{}/{}",
            s.item_count(),
            pid,
            if ms.is_empty() { "-".to_string() } else { ms.join(",") },
            if ok.is_empty() { "-".to_string() } else { ok },
            if vals.is_empty() { "-".to_string() } else { vals.join(",") },
            if probe.is_empty() { "-".to_string() } else { probe.join(",") }
        )
    }

    fn record(&mut self, what: String, nf_before: u32, with_snap: bool) {
        let nf = self.notify.load(Ordering::SeqCst) - nf_before;
        // progress on stderr: if the real code panics / aborts, the history so far is the replay
        eprintln!("EV {what}");
        let mut e = format!("{}|ai={}|nf={}|dr={}", what, self.nucleo.active_injectors(), nf, dropped_str());
        if with_snap {
            e.push_str(&format!("|snap={}", self.snapshot_str()));
        }
        self.ev.push(e);
    }

    fn wait_run_end(&self, _started_before: u64) {
        // wait until every spawned run has ended
        let t0 = std::time::Instant::now();
        loop {
            let s = self.gates.spawned.load(Ordering::SeqCst);
            let e = self.gates.run_ended.load(Ordering::SeqCst);
            if s == e {
                break;
            }
            if t0.elapsed() > Duration::from_secs(20) {
                panic!("run did not finish");
            }
            std::thread::sleep(Duration::from_micros(200));
        }
    }
}

fn main() {
    let args: Vec<String> = std::env::args().collect();
    let count: usize = args.get(2).map(|s| s.parse().unwrap()).unwrap_or(5);
    let shard: u64 = args.get(3).map(|s| s.parse().unwrap()).unwrap_or(0);
    let mode = args.get(1).cloned().unwrap_or("rand".into());
    let mut out = BufWriter::new(std::io::stdout());
    let mut rng = Rng::new(seed_from_env().wrapping_mul(2654435761).wrapping_add(shard) ^ 0x4e48);
    for k in 0..count {
        let line = run_history(&mut rng, &mode, k);
        writeln!(out, "{line}").unwrap();
        out.flush().unwrap();
    }
}

fn run_history(rng: &mut Rng, mode: &str, _k: usize) -> String {
    let pool = if rng.chance(1, 2) { 1 } else { 2 + rng.below(2) as usize };
    let cols = 1 + rng.below(2) as usize;
    let notify = Arc::new(AtomicU32::new(0));
    let gates = Arc::new(Gates {
        hold_run: AtomicBool::new(false),
        hold_end: AtomicBool::new(false),
        want_hold: AtomicBool::new(false),
        delay_release: AtomicBool::new(false),
        hold_item: AtomicU64::new(0),
        item_count: AtomicU64::new(0),
        parked_kind: AtomicU64::new(0),
        parked: AtomicBool::new(false),
        release: AtomicBool::new(false),
        run_ended: AtomicU64::new(0),
        run_started: AtomicU64::new(0),
        spawned: AtomicU64::new(0),
    });
    {
        let g = gates.clone();
        for p in PUBLISHED.iter() {
            p.store(false, Ordering::SeqCst);
        }
        UNPUB.store(0, Ordering::SeqCst);
        nucleo::verif::set_callback(Some(Arc::new(move |site, _arg| match site {
            "push.store_active" | "extend.store_active" => {
                if (_arg as usize) < NPUB {
                    PUBLISHED[_arg as usize].store(true, Ordering::SeqCst);
                }
            }
            "get_unchecked.load_entries" => {
                if (_arg as usize) < NPUB && !PUBLISHED[_arg as usize].load(Ordering::SeqCst) {
                    let _ = UNPUB.compare_exchange(0, _arg + 1, Ordering::SeqCst, Ordering::SeqCst);
                }
            }
            "run.score_item" => {
                let k = g.hold_item.load(Ordering::SeqCst);
                if k != 0 {
                    let c = g.item_count.fetch_add(1, Ordering::SeqCst) + 1;
                    if c == k {
                        g.hold_item.store(0, Ordering::SeqCst);
                        g.hold_end.store(false, Ordering::SeqCst);
                        g.parked_kind.store(3, Ordering::SeqCst);
                        g.parked.store(true, Ordering::SeqCst);
                        while !g.release.load(Ordering::SeqCst) {
                            std::thread::sleep(Duration::from_micros(100));
                        }
                        g.release.store(false, Ordering::SeqCst);
                        g.parked.store(false, Ordering::SeqCst);
                    }
                }
            }
            "run.start" => {
                g.run_started.fetch_add(1, Ordering::SeqCst);
                g.item_count.store(0, Ordering::SeqCst);
                if g.hold_run.swap(false, Ordering::SeqCst) {
                    g.parked_kind.store(1, Ordering::SeqCst);
                    g.parked.store(true, Ordering::SeqCst);
                    while !g.release.load(Ordering::SeqCst) {
                        std::thread::sleep(Duration::from_micros(100));
                    }
                    g.release.store(false, Ordering::SeqCst);
                    g.parked.store(false, Ordering::SeqCst);
                }
            }
            "run.end" => {
                if g.hold_end.swap(false, Ordering::SeqCst) {
                    g.hold_item.store(0, Ordering::SeqCst);
                    g.parked_kind.store(2, Ordering::SeqCst);
                    g.parked.store(true, Ordering::SeqCst);
                    while !g.release.load(Ordering::SeqCst) {
                        std::thread::sleep(Duration::from_micros(100));
                    }
                    g.release.store(false, Ordering::SeqCst);
                    g.parked.store(false, Ordering::SeqCst);
                }
            }
            // counted where the pool closure continues after `run` has returned (the worker lock is still held): a run that
            // leaves through another exit than the one carrying `run.end` is over as well
            "run.returned" => {
                g.run_ended.fetch_add(1, Ordering::SeqCst);
            }
            "tick.spawn" => {
                g.spawned.fetch_add(1, Ordering::SeqCst);
            }
            "tick.lock_timeout" => {
                if g.want_hold.load(Ordering::SeqCst) {
                    let t0 = std::time::Instant::now();
                    while !g.parked.load(Ordering::SeqCst)
                        && g.spawned.load(Ordering::SeqCst) != g.run_ended.load(Ordering::SeqCst)
                        && t0.elapsed() < Duration::from_secs(5)
                    {
                        std::thread::sleep(Duration::from_micros(100));
                    }
                }
            }
            "tick.cancel_lock" => {
                // the cancelling tick is about to block on the worker lock: let a parked run go
                if g.parked.load(Ordering::SeqCst) {
                    if g.delay_release.swap(false, Ordering::SeqCst) {
                        // the run in flight keeps the worker lock well beyond the tick's timeout: the cancelling tick has to
                        // wait for it (its lock is a blocking one), whatever timeout it was given
                        let g2 = g.clone();
                        std::thread::spawn(move || {
                            std::thread::sleep(Duration::from_millis(40));
                            g2.release.store(true, Ordering::SeqCst);
                        });
                    } else {
                        g.release.store(true, Ordering::SeqCst);
                    }
                }
            }
            _ => {}
        })));
    }
    let n2 = notify.clone();
    for d in DROPS.iter() {
        d.store(0, Ordering::SeqCst);
    }
    let nucleo: Nucleo<Tracked> = Nucleo::new(Config::DEFAULT, Arc::new(move || { n2.fetch_add(1, Ordering::SeqCst); }), Some(pool), cols as u32);
    let mut h = H {
        nucleo,
        notify,
        gates,
        injectors: BTreeMap::new(),
        generation: 0,
        writers: BTreeMap::new(),
        cols,
        items: Vec::new(),
        pat_texts: vec![vec![String::new(); cols]],
        cur_text: vec![String::new(); cols],
        pat_debug: Vec::new(),
        ev: Vec::new(),
        next_h: 0,
        next_w: 0,
        next_v: 1,
    };
    h.pat_debug.push(format!("{:?}", (0..cols).map(|c| h.nucleo.pattern.column_pattern(c).atoms.clone()).collect::<Vec<_>>()));
    eprintln!("HIST-BEGIN pool={pool} cols={cols}");
    let nops = 6 + rng.below(if mode == "long" { 40 } else { 18 }) as usize;
    let typing = ["f", "o", "o", "b", "a", "r", " ", "!", "^", "$", "\\", "B", "'", "z", "\u{e9}", "\u{2C65}"];
    // a quarter of the histories start with a scripted prefix aimed at the delicate paths of the worker:
    // a run cancelled in the middle of a scoring pass followed by an appended edit (Update), a restart or
    // a rescore; the random tail then continues from there
    #[derive(Clone)]
    enum Sc {
        Op(u64),
        Text(usize, String, bool),
        Tick(u64, u64),
        Restart(bool),
        Publish(usize),
    }
    let mut script: std::collections::VecDeque<Sc> = std::collections::VecDeque::new();
    if pool == 1 && rng.chance(1, 6) {
        // items pushed WHILE a run is in the middle of its scoring pass (parked at its k-th item), the run then completes
        // un-cancelled and the next tick collects it: the late items must neither be lost nor counted before they are scored
        script.push_back(Sc::Op(0));
        for _ in 0..(5 + rng.below(4)) {
            script.push_back(Sc::Op(4));
        }
        script.push_back(Sc::Text(0, ["o", "b", "a", "f"][rng.below(4) as usize].to_string(), false));
        script.push_back(Sc::Tick(3, 1 + rng.below(3)));
        for _ in 0..(2 + rng.below(3)) {
            script.push_back(Sc::Op(4));
        }
        script.push_back(Sc::Op(19)); // release the parked run
        script.push_back(Sc::Tick(0, 0));
        script.push_back(Sc::Tick(0, 0));
    } else if pool == 1 && rng.chance(1, 2) {
        script.push_back(Sc::Op(0)); // injector
        for _ in 0..(4 + rng.below(6)) {
            script.push_back(Sc::Op(4)); // push / extend
        }
        let first = ["f", "o", "b", "a"][rng.below(4) as usize].to_string();
        script.push_back(Sc::Text(0, first.clone(), false));
        if rng.chance(1, 2) {
            script.push_back(Sc::Tick(0, 0));
            script.push_back(Sc::Op(4));
            script.push_back(Sc::Op(4));
            let second = format!("{first}{}", ["o", "a", "r", "b"][rng.below(4) as usize]);
            script.push_back(Sc::Text(0, second, true));
        }
        script.push_back(Sc::Tick(3, 1 + rng.below(4)));
        match rng.below(4) {
            0 => script.push_back(Sc::Op(18)), // restart
            1 => script.push_back(Sc::Text(0, ["ba", "z", ""][rng.below(3) as usize].to_string(), false)),
            _ => {
                let cur = match script.iter().rev().find_map(|x| if let Sc::Text(_, t, _) = x { Some(t.clone()) } else { None }) {
                    Some(t) => t,
                    None => String::new(),
                };
                script.push_back(Sc::Text(0, format!("{cur}{}", ["o", "a", "r", "b", "$"][rng.below(5) as usize]), true));
            }
        }
        script.push_back(Sc::Tick(0, 0));
    }
    // another scripted prefix: a populated snapshot, restart (mostly without clearing), items for the new stream, a tick whose
    // run is parked before it does anything, an edit, and a second holding tick (which cancels the parked run over the new
    // stream and parks its successor): the snapshot must stay entirely the old stream's until a run over the new one completes
    else if rng.chance(1, 3) {
        script.push_back(Sc::Op(0));
        for _ in 0..(3 + rng.below(4)) {
            script.push_back(Sc::Op(4));
        }
        let first = ["f", "o", "b", "a", ""][rng.below(5) as usize].to_string();
        script.push_back(Sc::Text(0, first.clone(), false));
        script.push_back(Sc::Tick(0, 0));
        script.push_back(Sc::Restart(rng.chance(1, 4)));
        script.push_back(Sc::Op(0));
        for _ in 0..(2 + rng.below(4)) {
            script.push_back(Sc::Op(4));
        }
        script.push_back(Sc::Tick(1, 0));
        match rng.below(3) {
            0 => script.push_back(Sc::Text(0, format!("{first}{}", ["o", "a", "r", "b"][rng.below(4) as usize]), true)),
            1 => script.push_back(Sc::Text(0, ["ba", "z", "o"][rng.below(3) as usize].to_string(), false)),
            _ => script.push_back(Sc::Op(4)),
        }
        script.push_back(Sc::Tick(1, 0));
    }
    // a third one: two (or three) writers paused at once, a run that records them all as in flight, then the EARLIEST of
    // them is published while the later ones stay paused, and a run that goes through reset_matches (empty pattern, or a
    // rescoring edit) has to drop exactly the still-unpublished indices from the rebuilt list
    else if rng.chance(1, 3) {
        script.push_back(Sc::Op(0));
        for _ in 0..(2 + rng.below(4)) {
            script.push_back(Sc::Op(4));
        }
        let with_pat = rng.chance(1, 2);
        if with_pat {
            script.push_back(Sc::Text(0, ["f", "o", "b", "a"][rng.below(4) as usize].to_string(), false));
        }
        script.push_back(Sc::Tick(0, 0));
        script.push_back(Sc::Op(8));
        if rng.chance(1, 2) {
            script.push_back(Sc::Op(4));
        }
        script.push_back(Sc::Op(8));
        if rng.chance(1, 3) {
            script.push_back(Sc::Op(8));
        }
        script.push_back(Sc::Tick(0, 0));
        script.push_back(Sc::Publish(0));
        if rng.chance(1, 3) {
            script.push_back(Sc::Publish(0));
        }
        if with_pat {
            script.push_back(Sc::Text(0, ["ba", "z", "o", "r"][rng.below(4) as usize].to_string(), false));
        }
        script.push_back(Sc::Tick(0, 0));
    }
    // a fourth one: appended text that switches the last atom's smart normalization (or smart case) off: a populated snapshot
    // for the first text, then the appended edit, each followed by a completing tick; items include characters whose
    // normalization and case folding disagree (WORDS)
    else if rng.chance(1, 4) {
        script.push_back(Sc::Op(0));
        for _ in 0..(8 + rng.below(4)) {
            script.push_back(Sc::Op(4));
        }
        let (first, more) = [("\u{2C65}", "\u{e9}"), ("caf", "\u{e9}"), ("ba", "R"), ("\u{2C65}", "\u{c9}")][rng.below(4) as usize];
        script.push_back(Sc::Text(0, first.to_string(), false));
        script.push_back(Sc::Tick(0, 0));
        script.push_back(Sc::Text(0, format!("{first}{more}"), true));
        script.push_back(Sc::Tick(0, 0));
    }
    let mut force_text: Option<(usize, String, bool)> = None;
    let mut force_pub: Option<usize> = None;
    let mut force_tick: Option<(u64, u64)> = None;
    let mut force_clear: Option<bool> = None;
    // does the next tick cancel because of the matcher's state (first tick, first tick after a restart)?
    let mut state_cancels = true;
    for _ in 0..(nops + script.len()) {
        let nf0 = h.notify.load(Ordering::SeqCst);
        let run_parked = h.gates.parked.load(Ordering::SeqCst);
        let code = match script.pop_front() {
            Some(Sc::Op(c)) => c,
            Some(Sc::Text(c, t, a)) => {
                force_text = Some((c, t, a));
                12
            }
            Some(Sc::Tick(hold, k)) => {
                force_tick = Some((hold, k));
                15
            }
            Some(Sc::Publish(k)) => {
                force_pub = Some(k);
                10
            }
            Some(Sc::Restart(c)) => {
                force_clear = Some(c);
                18
            }
            None => rng.below(20),
        };
        match code {
            0 | 1 => {
                let id = h.next_h;
                h.next_h += 1;
                h.injectors.insert(id, (h.nucleo.injector(), h.generation));
                h.record(format!("inj:{id}"), nf0, false);
            }
            2 => {
                if let Some((&src, _)) = h.injectors.iter().nth(rng.below(h.injectors.len().max(1) as u64) as usize) {
                    let id = h.next_h;
                    h.next_h += 1;
                    let c = (h.injectors[&src].0.clone(), h.injectors[&src].1);
                    h.injectors.insert(id, c);
                    h.record(format!("clone:{src}:{id}"), nf0, false);
                }
            }
            3 => {
                if let Some((&id, _)) = h.injectors.iter().nth(rng.below(h.injectors.len().max(1) as u64) as usize) {
                    h.injectors.remove(&id);
                    h.record(format!("dropinj:{id}"), nf0, false);
                }
            }
            4..=7 => {
                // push / extend through some injector (current or old stream)
                if h.injectors.is_empty() {
                    continue;
                }
                let (&id, (inj, gen)) = h.injectors.iter().nth(rng.below(h.injectors.len() as u64) as usize).unwrap();
                let cur = *gen == h.generation;
                if rng.chance(1, 3) {
                    let n = rng.below(4) as usize;
                    let vals: Vec<u32> = (0..n).map(|_| { h.next_v += 1; h.next_v }).collect();
                    let before = inj.injected_items();
                    inj.extend(vals.iter().map(|v| Tracked(*v)).collect::<Vec<_>>().into_iter(), fill(cols));
                    h.items.extend(vals.iter());
                    let vs = if vals.is_empty() { "-".to_string() } else { vals.iter().map(|v| v.to_string()).collect::<Vec<_>>().join(".") };
                    let what = if cur { format!("extend:{id}:{vs}={before}") } else { format!("oldextend:{id}:{vs}") };
                    h.record(what, nf0, false);
                } else {
                    h.next_v += 1;
                    let v = h.next_v;
                    let idx = inj.push(Tracked(v), fill(cols));
                    h.items.push(v);
                    let what = if cur { format!("push:{id}:{v}={idx}") } else { format!("oldpush:{id}:{v}") };
                    h.record(what, nf0, false);
                }
            }
            8 | 9 => {
                // a writer that reserves an index and then pauses inside its fill callback
                let cands: Vec<u32> = h.injectors.iter().filter(|(_, (_, g))| *g == h.generation).map(|(k, _)| *k).collect();
                if cands.is_empty() || h.writers.len() >= 3 {
                    continue;
                }
                let id = *rng.pick(&cands);
                let inj = h.injectors[&id].0.clone();
                h.next_v += 1;
                let v = h.next_v;
                let w = h.next_w;
                h.next_w += 1;
                let (tx, rx) = mpsc::channel::<()>();
                let (tx_in, rx_in) = mpsc::channel::<()>();
                let reached = Mutex::new(Some(tx_in));
                let handle = std::thread::spawn(move || {
                    inj.push(Tracked(v), move |val, c| {
                        for j in 0..cols {
                            c[j] = col_text(val.0, j).into();
                        }
                        if let Some(t) = reached.lock().unwrap().take() {
                            t.send(()).unwrap();
                        }
                        rx.recv().unwrap();
                    })
                });
                rx_in.recv().unwrap();
                let idx = h.injectors[&id].0.injected_items() - 1; // not necessarily ours if others push concurrently; nothing else runs now
                h.items.push(v);
                h.writers.insert(w, Writer { tx, handle });
                h.record(format!("reserve:{id}:{v}:{w}={idx}"), nf0, false);
            }
            10 | 11 => {
                if run_parked && h.gates.parked_kind.load(Ordering::SeqCst) == 3 {
                    continue;
                }
                let which = force_pub.take().unwrap_or_else(|| rng.below(h.writers.len().max(1) as u64) as usize);
                if let Some((&w, _)) = h.writers.iter().nth(which) {
                    let wr = h.writers.remove(&w).unwrap();
                    wr.tx.send(()).unwrap();
                    let idx = wr.handle.join().unwrap();
                    h.record(format!("publish:{w}={idx}"), nf0, false);
                }
            }
            12..=14 => {
                // edit the pattern of one column like a user typing
                let forced = force_text.take();
                let c = forced.as_ref().map(|f| f.0).unwrap_or(rng.below(cols as u64) as usize);
                let old = h.cur_text[c].clone();
                let (new, append) = if let Some((_, t, a)) = forced { (t, a) } else { match rng.below(7) {
                    0 => (String::new(), false),
                    1 => {
                        let mut t = old.clone();
                        t.pop();
                        (t, false)
                    }
                    2 => (WORDS[rng.below(8) as usize].to_string(), false),
                    3 => {
                        // a pattern of negated atoms only (matches items whose column is empty, too)
                        let mut t = format!("!{}", WORDS[rng.below(8) as usize]);
                        if rng.chance(1, 2) {
                            t.push_str(" !zz");
                        }
                        (t, false)
                    }
                    _ => {
                        let mut t = old.clone();
                        t.push_str(typing[rng.below(typing.len() as u64) as usize]);
                        (t, true)
                    }
                } };
                let append = append && new.starts_with(&old);
                // descriptor of the column's last atom before the edit: kind, negative, last needle character
                let last = h.nucleo.pattern.column_pattern(c).atoms.last().map(|a| {
                    let k = match a.kind {
                        nucleo::pattern::AtomKind::Fuzzy => 0,
                        nucleo::pattern::AtomKind::Substring => 1,
                        nucleo::pattern::AtomKind::Prefix => 2,
                        nucleo::pattern::AtomKind::Postfix => 3,
                        _ => 4,
                    };
                    format!("{}.{}.{:x}", k, a.negative as u8, a.needle_text().chars().next_back().map(|c| c as u32).unwrap_or(0))
                }).unwrap_or("none".to_string());
                // does the atom still normalize haystack characters (smart normalization: no character of its text is one
                // that normalization would change)?  before the edit: the last atom; after it: the atom in the same place
                let keeps = |a: &nucleo::pattern::Atom| a.needle_text().chars().all(|ch| nucleo_matcher::chars::normalize(ch) == ch);
                let old_len = h.nucleo.pattern.column_pattern(c).atoms.len();
                let old_keeps = h.nucleo.pattern.column_pattern(c).atoms.last().map(|a| keeps(a)).unwrap_or(true);
                h.nucleo.pattern.reparse(c, &new, CaseMatching::Smart, Normalization::Smart, append);
                let new_keeps = if old_len == 0 { true } else { h.nucleo.pattern.column_pattern(c).atoms.get(old_len - 1).map(|a| keeps(a)).unwrap_or(true) };
                let last = if last == "none" { last } else { format!("{last}.{}.{}", old_keeps as u8, new_keeps as u8) };
                let status_after = nucleo::verif::pattern_status(&h.nucleo.pattern);
                h.cur_text[c] = new.clone();
                h.pat_texts.push(h.cur_text.clone());
                h.pat_debug.push(format!("{:?}", (0..cols).map(|c| h.nucleo.pattern.column_pattern(c).atoms.clone()).collect::<Vec<_>>()));
                let pid = h.pat_texts.len() - 1;
                h.record(format!("reparse:{c}:{pid}:{}:{last}={status_after}", append as u8), nf0, false);
            }
            15..=17 => {
                // tick; either let the run finish inside the tick, or hold it so that the tick times out
                // (hold 1: before the run does anything, hold 2: after it has read `should_notify`)
                let mut hold = if rng.chance(1, 3) { if rng.chance(1, 4) && !run_parked { 2 } else { 1 } } else { 0 };
                // with a single pool thread the scoring passes are sequential: park the run at its k-th item
                let mut mid_k = 0u64;
                if pool == 1 && !run_parked && rng.chance(1, 2) {
                    hold = 3;
                    mid_k = 1 + rng.below(3);
                }
                if let Some((fh, fk)) = force_tick.take() {
                    if !(run_parked && fh >= 2) {
                        hold = fh;
                        mid_k = fk;
                    }
                }
                if hold == 1 {
                    h.gates.hold_run.store(true, Ordering::SeqCst);
                } else if hold == 2 {
                    h.gates.hold_end.store(true, Ordering::SeqCst);
                } else if hold == 3 {
                    h.gates.hold_item.store(mid_k, Ordering::SeqCst);
                    h.gates.hold_end.store(true, Ordering::SeqCst);
                }
                eprintln!("EV-START tick hold={hold}");
                h.gates.want_hold.store(hold != 0, Ordering::SeqCst);
                let spawned_before = h.gates.spawned.load(Ordering::SeqCst);
                // the timeout only matters when the lock cannot be had: a holding tick, or a non-cancelling tick on a run that
                // is parked (it can never get the lock).  A cancelling tick lets a parked run go and then waits for the run
                // it spawned itself, which must be given the time to finish whatever the load on the machine is.
                let cancels = state_cancels || nucleo::verif::pattern_status(&h.nucleo.pattern) != 0;
                state_cancels = false;
                h.gates.delay_release.store(run_parked && cancels && hold == 1 && rng.chance(1, 2), Ordering::SeqCst);
                let st = h.nucleo.tick(if hold != 0 || (run_parked && !cancels) { 15 } else { 3000 });
                h.gates.want_hold.store(false, Ordering::SeqCst);
                h.gates.delay_release.store(false, Ordering::SeqCst);
                // a run spawned with a hold flag that has not reached its gate yet: wait until it parks (a tick that spawned
                // nothing -- its lock attempt timed out on a run parked earlier -- has nothing to wait for)
                let t0 = std::time::Instant::now();
                while hold != 0
                    && h.gates.spawned.load(Ordering::SeqCst) != spawned_before
                    && (h.gates.hold_run.load(Ordering::SeqCst) || h.gates.hold_end.load(Ordering::SeqCst) || h.gates.hold_item.load(Ordering::SeqCst) != 0)
                    && h.gates.spawned.load(Ordering::SeqCst) != h.gates.run_ended.load(Ordering::SeqCst)
                    && t0.elapsed() < Duration::from_secs(5)
                {
                    std::thread::sleep(Duration::from_micros(100));
                }
                h.gates.hold_run.store(false, Ordering::SeqCst);
                h.gates.hold_end.store(false, Ordering::SeqCst);
                h.gates.hold_item.store(0, Ordering::SeqCst);
                if !h.gates.parked.load(Ordering::SeqCst) {
                    h.wait_run_end(0);
                }
                let parked_now = h.gates.parked.load(Ordering::SeqCst);
                // where the run actually parked (a run with fewer than k items to score parks at run.end)
                let kind = if parked_now && !run_parked && hold != 0 { h.gates.parked_kind.load(Ordering::SeqCst) } else { hold };
                h.record(format!("tick:{}:{}:{}:{}={}{}", kind, run_parked as u8, parked_now as u8, mid_k, st.changed as u8, st.running as u8), nf0, true);
            }
            18 => {
                let clear = force_clear.take().unwrap_or_else(|| rng.chance(1, 2));
                h.nucleo.restart(clear);
                state_cancels = true;
                h.generation += 1;
                h.record(format!("restart:{}", clear as u8), nf0, true);
            }
            _ => {
                if run_parked {
                    h.gates.release.store(true, Ordering::SeqCst);
                    h.wait_run_end(0);
                    h.record("release".to_string(), nf0, true);
                }
            }
        }
    }
    // drive to quiescence: release a parked run, publish all writers, tick until not running
    if h.gates.parked.load(Ordering::SeqCst) {
        let nf0 = h.notify.load(Ordering::SeqCst);
        h.gates.release.store(true, Ordering::SeqCst);
        h.wait_run_end(0);
        h.record("release".to_string(), nf0, true);
    }
    for (_, wr) in std::mem::take(&mut h.writers) {
        wr.tx.send(()).unwrap();
        wr.handle.join().unwrap();
    }
    h.ev.push("publishall".to_string());
    for _ in 0..6 {
        let nf0 = h.notify.load(Ordering::SeqCst);
        let started = h.gates.run_started.load(Ordering::SeqCst);
        eprintln!("EV-START tick (quiescence)");
        let st = h.nucleo.tick(3000);
        h.wait_run_end(started);
        h.record(format!("tick:0:0:0={}{}", st.changed as u8, st.running as u8), nf0, true);
        if !st.running {
            break;
        }
    }
    // from-scratch reference: a fresh Nucleo fed the items of the current stream and the final pattern
    let cur_items: Vec<u32> = {
        let inj = h.nucleo.injector();
        (0..inj.injected_items()).filter_map(|i| inj.get(i).map(|it| it.data.0)).collect()
    };
    let fresh_snap = {
        nucleo::verif::set_callback(None);
        let mut f: Nucleo<u32> = Nucleo::new(Config::DEFAULT, Arc::new(|| {}), Some(1), cols as u32);
        let inj = f.injector();
        for v in &cur_items {
            inj.push(*v, move |val: &u32, c: &mut [Utf32String]| {
                for j in 0..cols {
                    c[j] = col_text(*val, j).into();
                }
            });
        }
        for c in 0..cols {
            f.pattern.reparse(c, &h.cur_text[c], CaseMatching::Smart, Normalization::Smart, false);
        }
        let mut guard = 0;
        while f.tick(3000).running && guard < 10 {
            guard += 1;
        }
        let s = f.snapshot();
        let ms: Vec<String> = s.matches().iter().map(|m| format!("{}.{}", m.score, m.idx)).collect();
        format!("{}/{}", s.item_count(), if ms.is_empty() { "-".to_string() } else { ms.join(",") })
    };
    // score table: every pattern id against every item, by a fresh matcher
    let mut matcher = nucleo::Matcher::new(Config::DEFAULT);
    let mut scores = Vec::new();
    let mut pats = Vec::new();
    for (pid, texts) in h.pat_texts.iter().enumerate() {
        let mut mp = nucleo::pattern::MultiPattern::new(cols);
        for c in 0..cols {
            mp.reparse(c, &texts[c], CaseMatching::Smart, Normalization::Smart, false);
        }
        let canon = h.pat_debug.iter().position(|d| *d == h.pat_debug[pid]).unwrap();
        pats.push(format!("{pid}:{}:{canon}", mp.is_empty() as u8));
        let mut all = h.items.clone();
        all.sort();
        all.dedup();
        for v in all {
            let colsv: Vec<Utf32String> = (0..cols).map(|j| col_text(v, j).into()).collect();
            // independent of `MultiPattern::score`: the documented meaning, column by column with the matcher crate's
            // `Pattern::score` (C15), summed; no match if any column's pattern does not match
            let mut total: Option<u32> = Some(0);
            for c in 0..cols {
                match mp.column_pattern(c).score(colsv[c].slice(..), &mut matcher) {
                    Some(x) => total = total.map(|t| t + x),
                    None => total = None,
                }
            }
            if let Some(s) = total {
                scores.push(format!("{pid}:{v}:{s}"));
            }
        }
    }
    let mut all = h.items.clone();
    all.sort();
    all.dedup();
    let items: Vec<String> = all.iter().map(|v| format!("{v}:{}", (0..cols).map(|j| Utf32String::from(col_text(*v, j)).len()).sum::<usize>())).collect();
    nucleo::verif::set_callback(None);
    let evs = h.ev.join(";");
    drop(h);
    // The pool thread that ran the last job still owns a handle to the worker (and through it to the stream) for a
    // moment after `Nucleo::drop` has returned: it releases the worker's lock first and its `Arc` afterwards.  "The
    // last handle is gone" is therefore only reached once that thread has let go: wait for it (bounded); a leak is
    // still a leak after the wait.
    static TIMED_OUT: AtomicBool = AtomicBool::new(false);
    // (after the first genuine leak in a process the later waits are short, so a leaking tree does not stall the stream)
    let wait = if TIMED_OUT.load(Ordering::SeqCst) { Duration::from_millis(100) } else { Duration::from_secs(5) };
    let deadline = std::time::Instant::now() + wait;
    let pending = |all: &[u32]| all.iter().any(|v| DROPS[*v as usize % NIDS].load(Ordering::SeqCst) == 0);
    while pending(&all) {
        if std::time::Instant::now() >= deadline {
            TIMED_OUT.store(true, Ordering::SeqCst);
            break;
        }
        std::thread::sleep(Duration::from_micros(200));
    }
    let final_drops = dropped_str();
    format!(
        "H pool={} cols={} unpub={} items={} pats={} scores={} fresh={} alldropped={} ev={}",
        pool,
        cols,
        match UNPUB.load(Ordering::SeqCst) {
            0 => "-".to_string(),
            k => (k - 1).to_string(),
        },
        if items.is_empty() { "-".to_string() } else { items.join(",") },
        pats.join(","),
        if scores.is_empty() { "-".to_string() } else { scores.join(",") },
        fresh_snap,
        final_drops,
        evs
    )
}
