//! C14 / C15: pattern parsing and pattern scoring against the real `nucleo_matcher::pattern`.
//!
//! `P case=<0|1|2> norm=<0|1> mode=<parse|new:K|lit> text=<hex> lit=<hex|-> segs=<hex:lens;..|-> atoms=<kind,neg,rep,needle,ic,nz|..> reparse=<same|DIFF>`
//! `S cfg=<id> hr=<A|U> hay=<hex> ext=<..> atoms=<kind,neg,rep,needle,ic,nz|..> res=<score:idx..|none> each=<per-atom results> list=<..>`
use nucleo_matcher::pattern::{Atom, AtomKind, CaseMatching, Normalization, Pattern};
use nucleo_matcher::{Matcher, Utf32Str};
use nucleo_verif_harness::util::*;
use std::collections::BTreeMap;
use std::io::{BufRead, BufWriter, Write};
use unicode_segmentation::UnicodeSegmentation;

fn case_of(i: u32) -> CaseMatching {
    match i {
        0 => CaseMatching::Respect,
        1 => CaseMatching::Ignore,
        _ => CaseMatching::Smart,
    }
}
fn norm_of(i: u32) -> Normalization {
    if i == 0 {
        Normalization::Never
    } else {
        Normalization::Smart
    }
}
fn kind_id(k: AtomKind) -> u32 {
    match k {
        AtomKind::Fuzzy => 0,
        AtomKind::Substring => 1,
        AtomKind::Prefix => 2,
        AtomKind::Postfix => 3,
        AtomKind::Exact => 4,
        _ => 9,
    }
}
fn kind_of(i: u32) -> AtomKind {
    [AtomKind::Fuzzy, AtomKind::Substring, AtomKind::Prefix, AtomKind::Postfix, AtomKind::Exact][i as usize]
}

/// the private `ignore_case` / `normalize` flags, read from the derived `Debug` output
fn flags(a: &Atom) -> (bool, bool) {
    let d = format!("{a:?}");
    let get = |k: &str| -> bool {
        let i = d.rfind(k).unwrap_or_else(|| panic!("no {k} in {d}"));
        d[i + k.len()..].trim_start().starts_with("true")
    };
    (get("ignore_case:"), get("normalize:"))
}

fn atom_str(a: &Atom) -> String {
    let t = a.needle_text();
    let (rep, cs): (char, Vec<char>) = match t {
        Utf32Str::Ascii(b) => ('A', b.iter().map(|&x| x as char).collect()),
        Utf32Str::Unicode(c) => ('U', c.to_vec()),
    };
    let (ic, nz) = flags(a);
    format!("{},{},{},{},{},{}", kind_id(a.kind), a.negative as u8, rep, hex_cps(&cs).replace(',', "."), ic as u8, nz as u8)
}

fn atoms_str(atoms: &[Atom]) -> String {
    if atoms.is_empty() {
        "-".into()
    } else {
        atoms.iter().map(atom_str).collect::<Vec<_>>().join("|")
    }
}

/// cluster lengths of every non-ASCII substring of `text` (the model looks up the ones it needs)
fn segs(text: &[char], extra: Option<&[char]>) -> String {
    let mut m: BTreeMap<String, String> = BTreeMap::new();
    for text in [Some(text), extra].into_iter().flatten() {
    for i in 0..text.len() {
        for j in i + 1..=text.len() {
            let sub = &text[i..j];
            if sub.iter().all(|c| c.is_ascii()) {
                continue;
            }
            let s: String = sub.iter().collect();
            let lens: Vec<String> = s.graphemes(true).map(|g| g.chars().count().to_string()).collect();
            m.insert(hex_cps(sub).replace(',', "."), lens.join("."));
        }
    }
    }
    if m.is_empty() {
        "-".into()
    } else {
        m.into_iter().map(|(k, v)| format!("{k}:{v}")).collect::<Vec<_>>().join(";")
    }
}

const PIECES: &[&str] = &[
    "a", "b", "foo", "Bar", "B", "x", "1", " ", " ", "\t", "\u{3000}", "\u{a0}", "\n", "\\", "\\", "!", "^", "'", "$", "-", "/", "ä", "Ä", "é", "ς", "Σ", "ß", "日", "a\u{308}",
    "\u{308}", "ǅ", "ł", "Å",
];

fn gen_text(rng: &mut Rng, maxlen: usize) -> Vec<char> {
    let ascii_only = rng.chance(1, 2);
    let n = rng.below(maxlen as u64 + 1) as usize;
    let mut s = String::new();
    for _ in 0..n {
        let p = if ascii_only { *rng.pick(&PIECES[..21]) } else { *rng.pick(PIECES) };
        s.push_str(p);
    }
    s.chars().take(14).collect()
}

/// escaped form of a literal text: leading marker, every space and a trailing `$` get a backslash
fn escape(t: &[char]) -> Vec<char> {
    let mut out = Vec::new();
    for (i, &c) in t.iter().enumerate() {
        if i == 0 && (c == '!' || c == '^' || c == '\'') {
            out.push('\\');
        }
        if c == ' ' {
            out.push('\\');
        }
        if i + 1 == t.len() && c == '$' {
            out.push('\\');
        }
        out.push(c);
    }
    out
}

/// literal texts the grammar can express: non-empty, only U+0020 as whitespace, not starting with `\` + marker
fn escapable(t: &[char]) -> bool {
    !t.is_empty() && t.iter().all(|&c| c == ' ' || !c.is_whitespace()) && !(t.len() >= 2 && t[0] == '\\' && (t[1] == '!' || t[1] == '^' || t[1] == '\''))
}

fn p_line(out: &mut impl Write, case: u32, norm: u32, mode: &str, text: &[char], lit: Option<&[char]>, scratch: &mut Pattern) {
    let s: String = text.iter().collect();
    let (atoms, reparse_ok) = if mode == "parse" || mode == "lit" {
        let p = Pattern::parse(&s, case_of(case), norm_of(norm));
        scratch.reparse(&s, case_of(case), norm_of(norm));
        let same = scratch.atoms == p.atoms;
        (p.atoms, same)
    } else {
        let k: u32 = mode[4..].parse().unwrap();
        (Pattern::new(&s, case_of(case), norm_of(norm), kind_of(k)).atoms, true)
    };
    writeln!(
        out,
        "P case={} norm={} mode={} text={} lit={} segs={} atoms={} reparse={}",
        case,
        norm,
        mode,
        hex_cps(text),
        lit.map(|l| hex_cps(l)).unwrap_or("-".into()),
        segs(text, lit),
        atoms_str(&atoms),
        if reparse_ok { "same" } else { "DIFF" }
    )
    .unwrap();
}

// -------- C15: scoring ---------------------------------------------------------------------

fn res_str(r: Option<u32>, idx: &[u32]) -> String {
    match r {
        None => format!("none:{}", if idx.is_empty() { "-".to_string() } else { idx.iter().map(|x| x.to_string()).collect::<Vec<_>>().join(".") }),
        Some(s) => format!("{}:{}", s, if idx.is_empty() { "-".to_string() } else { idx.iter().map(|x| x.to_string()).collect::<Vec<_>>().join(".") }),
    }
}

const HPOOL: &[char] = &['a', 'b', 'f', 'o', 'B', 'A', 'r', 'x', '1', ' ', '/', '-', '$', '!', '^', 'ä', 'Ä', 'ς', 'σ', '日', '\\', '\''];

fn gen_hay(rng: &mut Rng) -> Vec<char> {
    let ascii = rng.chance(1, 2);
    let n = rng.below(16) as usize;
    (0..n).map(|_| if ascii { *rng.pick(&HPOOL[..15]) } else { *rng.pick(HPOOL) }).collect()
}

/// pattern text of `natoms` atoms built from pieces of the haystack, with markers
fn gen_pattern_text(rng: &mut Rng, hay: &[char], natoms: u64) -> String {
    let mut text = String::new();
    for k in 0..natoms {
        if k > 0 {
            text.push(' ');
        }
        if rng.chance(1, 4) {
            text.push('!');
        }
        match rng.below(5) {
            0 => text.push('^'),
            1 => text.push('\''),
            _ => {}
        }
        let wl = 1 + rng.below(3) as usize;
        if !hay.is_empty() && rng.chance(3, 4) {
            let a = rng.below(hay.len() as u64) as usize;
            let mut i = a;
            for _ in 0..wl {
                if i < hay.len() && !hay[i].is_whitespace() && hay[i] != '\\' {
                    text.push(hay[i].to_lowercase().next().unwrap());
                }
                i += 1 + rng.below(2) as usize;
            }
        } else {
            for _ in 0..wl {
                text.push(*rng.pick(&HPOOL[..8]));
            }
        }
        if rng.chance(1, 5) {
            text.push('$');
        }
    }
    text
}

/// `N`: `MultiPattern::score` (the worker's scoring function) over 1-3 columns, some of them with an empty pattern, against
/// each column's own `Pattern::score`
fn n_line(out: &mut impl Write, rng: &mut Rng, matcher: &mut Matcher) {
    use nucleo::pattern::MultiPattern;
    use nucleo_matcher::Utf32String;
    let cfg_id = (rng.below(3) as u32) << 3 | rng.below(8) as u32;
    let mut cfg = config_of(cfg_id);
    cfg.ignore_case = matcher.config.ignore_case;
    cfg.normalize = matcher.config.normalize;
    matcher.config = cfg;
    let pre_ic = matcher.config.ignore_case;
    let pre_nz = matcher.config.normalize;
    let k = 1 + rng.below(3) as usize;
    let mut mp = MultiPattern::new(k);
    let mut hays: Vec<Utf32String> = Vec::new();
    let mut fields = String::new();
    let mut set = std::collections::BTreeSet::new();
    // which columns have a pattern: every subset, empty columns in front of non-empty ones included
    let mask = rng.below(1 << k);
    for c in 0..k {
        let hay = gen_hay(rng);
        let na = 1 + rng.below(2);
        let text = if mask >> c & 1 == 1 { gen_pattern_text(rng, &hay, na) } else { String::new() };
        // a column text that differs from the others in what it matches: now and then the reverse of the previous column
        let hs: String = if c > 0 && rng.chance(1, 4) { hays[c - 1].to_string().chars().rev().collect() } else { hay.iter().collect() };
        mp.reparse(c, &text, case_of(rng.below(3) as u32), norm_of(rng.below(2) as u32), false);
        hays.push(Utf32String::from(hs.as_str()));
    }
    let multi = mp.score(&hays, matcher);
    for c in 0..k {
        let h = hays[c].slice(..);
        let cps: Vec<char> = h.chars().collect();
        for &ch in &cps {
            if !ch.is_ascii() {
                set.insert(ch);
            }
        }
        let col = mp.column_pattern(c).score(h, matcher);
        fields.push_str(&format!(
            " hr{c}={} hay{c}={} atoms{c}={} col{c}={}",
            if matches!(h, Utf32Str::Ascii(_)) { "A" } else { "U" },
            hex_cps(&cps),
            atoms_str(&mp.column_pattern(c).atoms),
            res_str(col, &[])
        ));
    }
    let ext: Vec<String> = set.into_iter().map(|ch| format!("{:x}:{}", ch as u32, ext_bits(ch))).collect();
    writeln!(
        out,
        "N cfg={} pre={}{} k={} ext={}{} multi={}",
        cfg_id,
        pre_ic as u8,
        pre_nz as u8,
        k,
        if ext.is_empty() { "-".to_string() } else { ext.join(",") },
        fields,
        res_str(multi, &[])
    )
    .unwrap();
}

fn s_line(out: &mut impl Write, rng: &mut Rng, matcher: &mut Matcher) {
    let cfg_id = (rng.below(3) as u32) << 3 | rng.below(8) as u32;
    // the matcher is shared across cases; its ignore_case/normalize are whatever the last atom left
    let mut cfg = config_of(cfg_id);
    cfg.ignore_case = matcher.config.ignore_case;
    cfg.normalize = matcher.config.normalize;
    matcher.config = cfg;
    let case = rng.below(3) as u32;
    let norm = rng.below(2) as u32;
    // pattern text: a few words taken from haystack-like material with markers
    let mut hay = gen_hay(rng);
    let mut text = String::new();
    // now and then a pattern of several hundred matching atoms: its total exceeds what sixteen bits hold
    let big = rng.chance(1, 300);
    if big && hay.len() < 6 {
        hay = "foo barBaz x".chars().collect();
    }
    let natoms = if big { 1300 + rng.below(700) } else { rng.below(4) };
    for k in 0..natoms {
        if k > 0 {
            text.push(' ');
        }
        if !big && rng.chance(1, 4) {
            text.push('!');
        }
        match if big { 4 } else { rng.below(5) } {
            0 => text.push('^'),
            1 => text.push('\''),
            _ => {}
        }
        let wl = if big { 4 } else { 1 + rng.below(3) as usize };
        if !hay.is_empty() && (big || rng.chance(3, 4)) {
            let a = rng.below(hay.len() as u64) as usize;
            let mut i = a;
            for _ in 0..wl {
                if i < hay.len() && !hay[i].is_whitespace() && hay[i] != '\\' {
                    text.push(hay[i].to_lowercase().next().unwrap());
                }
                i += 1 + rng.below(2) as usize;
            }
        } else {
            for _ in 0..wl {
                text.push(*rng.pick(&HPOOL[..8]));
            }
        }
        if !big && rng.chance(1, 5) {
            text.push('$');
        }
    }
    let mut pattern = Pattern::parse(&text, case_of(case), norm_of(norm));
    // the parser only produces some (kind, polarity) pairs (`!foo` is always a substring atom): every third pattern gets
    // its atoms rebuilt by hand with a random kind and polarity each, as a caller of `Atom::new` can
    if !big && rng.chance(1, 3) {
        for a in pattern.atoms.iter_mut() {
            let kind = [AtomKind::Fuzzy, AtomKind::Substring, AtomKind::Prefix, AtomKind::Postfix, AtomKind::Exact][rng.below(5) as usize];
            let t = a.needle_text().to_string();
            let mut b = Atom::new(&t, case_of(case), norm_of(norm), kind, false);
            b.negative = rng.chance(1, 2);
            if !b.needle_text().is_empty() {
                *a = b;
            }
        }
    }
    let hr_ascii = hay.iter().all(|c| c.is_ascii()) && rng.chance(3, 4);
    let hb: Vec<u8> = hay.iter().map(|&c| c as u8).collect();
    let h = if hr_ascii { Utf32Str::Ascii(&hb) } else { Utf32Str::Unicode(&hay) };
    let pre_ic = matcher.config.ignore_case;
    let pre_nz = matcher.config.normalize;
    let score = pattern.score(h, matcher);
    let mut idx = Vec::new();
    let iscore = pattern.indices(h, matcher, &mut idx);
    // per-atom results with the indices variant
    let mut each = Vec::new();
    for a in &pattern.atoms {
        let mut ai = Vec::new();
        let s1 = a.score(h, matcher);
        let s2 = a.indices(h, matcher, &mut ai);
        each.push(format!("{}/{}", res_str(s1.map(|x| x as u32), &[]), res_str(s2.map(|x| x as u32), &ai)));
    }
    let ext: Vec<String> = {
        let mut set = std::collections::BTreeSet::new();
        for &ch in &hay {
            if !ch.is_ascii() {
                set.insert(ch);
            }
        }
        set.into_iter().map(|ch| format!("{:x}:{}", ch as u32, ext_bits(ch))).collect()
    };
    // match_list over a few variations of the haystack (with duplicates and ties)
    let mut items: Vec<String> = Vec::new();
    let hs: String = hay.iter().collect();
    // every fourth list is long (sort implementations switch strategy with the length: a sort that is only stable for short
    // slices must not pass), with many equal scores that are not already in descending order
    let n_items = if rng.below(4) == 0 { 33 + rng.below(64) } else { rng.below(6) };
    for k in 0..n_items {
        match k % 3 {
            0 => items.push(hs.clone()),
            1 => items.push(gen_hay(rng).iter().collect()),
            _ => items.push(format!("{hs}x")),
        }
    }
    struct It<'a>(usize, &'a str);
    impl AsRef<str> for It<'_> {
        fn as_ref(&self) -> &str {
            self.1
        }
    }
    let list = pattern.match_list(items.iter().enumerate().map(|(i, s)| It(i, s.as_str())), matcher);
    // expected by definition: per-item score through Pattern::score
    let mut buf = Vec::new();
    let per_item: Vec<String> = items
        .iter()
        .map(|it| match pattern.score(Utf32Str::new(it, &mut buf), matcher) {
            Some(s) => s.to_string(),
            None => "n".to_string(),
        })
        .collect();
    let list_ids: Vec<String> = list
        .iter()
        .map(|(it, sc)| format!("{}.{}", it.0, sc))
        .collect();
    // Atom::match_list of the first atom over the same items (a negated atom scores 0 for the items it lets through)
    let (aitems, alist) = match pattern.atoms.first() {
        Some(a) => {
            let per: Vec<String> = items
                .iter()
                .map(|it| match a.score(Utf32Str::new(it, &mut buf), matcher) {
                    Some(s) => s.to_string(),
                    None => "n".to_string(),
                })
                .collect();
            let l = a.match_list(items.iter().enumerate().map(|(i, s)| It(i, s.as_str())), matcher);
            let ids: Vec<String> = l.iter().map(|(it, sc)| format!("{}.{}", it.0, sc)).collect();
            (if per.is_empty() { "-".to_string() } else { per.join(",") }, if ids.is_empty() { "-".to_string() } else { ids.join(",") })
        }
        None => ("x".to_string(), "x".to_string()),
    };
    writeln!(
        out,
        "S cfg={} pre={}{} hr={} hay={} ext={} atoms={} res={}/{} each={} items={} list={} aitems={} alist={}",
        cfg_id,
        pre_ic as u8,
        pre_nz as u8,
        if hr_ascii { "A" } else { "U" },
        hex_cps(&hay),
        if ext.is_empty() { "-".to_string() } else { ext.join(",") },
        atoms_str(&pattern.atoms),
        res_str(score, &[]),
        res_str(iscore, &idx),
        if each.is_empty() { "-".to_string() } else { each.join("|") },
        if per_item.is_empty() { "-".to_string() } else { per_item.join(",") },
        if list_ids.is_empty() { "-".to_string() } else { list_ids.join(",") },
        aitems,
        alist,
    )
    .unwrap();
}

fn main() {
    let args: Vec<String> = std::env::args().collect();
    let mode = args.get(1).map(|s| s.as_str()).unwrap_or("rand");
    let mut out = BufWriter::with_capacity(1 << 20, std::io::stdout());
    let seed = seed_from_env();
    let mut rng = Rng::new(seed ^ 0x5041);
    let mut scratch = Pattern::parse("old !stuff$", CaseMatching::Smart, Normalization::Smart);
    match mode {
        "rand" => {
            let count: usize = args[2].parse().unwrap();
            let shard: u64 = args.get(3).map(|s| s.parse().unwrap()).unwrap_or(0);
            rng = Rng::new(seed.wrapping_mul(7919).wrapping_add(shard) ^ 0x5041);
            for i in 0..count {
                let case = rng.below(3) as u32;
                let norm = rng.below(2) as u32;
                let text = gen_text(&mut rng, 7);
                match i % 4 {
                    0 | 1 => p_line(&mut out, case, norm, "parse", &text, None, &mut scratch),
                    2 => {
                        let k = rng.below(5);
                        p_line(&mut out, case, norm, &format!("new:{k}"), &text, None, &mut scratch)
                    }
                    _ => {
                        if escapable(&text) {
                            let e = escape(&text);
                            p_line(&mut out, case, norm, "lit", &e, Some(&text), &mut scratch)
                        }
                    }
                }
            }
        }
        "exh" => {
            // every text of length <= maxlen over a marker-rich alphabet, parsed; literal round trip for the escapable ones
            let maxlen: usize = args[2].parse().unwrap();
            let al = ['a', 'B', '!', '^', '\'', '$', '\\', ' ', 'ä'];
            let mut cur: Vec<Vec<char>> = vec![vec![]];
            let mut k = 0u32;
            for _ in 0..=maxlen {
                let mut next = Vec::new();
                for t in &cur {
                    k += 1;
                    let case = k % 3;
                    let norm = (k / 3) % 2;
                    p_line(&mut out, case, norm, "parse", t, None, &mut scratch);
                    if escapable(t) {
                        let e = escape(t);
                        p_line(&mut out, case, norm, "lit", &e, Some(t), &mut scratch);
                    }
                    for &c in &al {
                        let mut u = t.clone();
                        u.push(c);
                        next.push(u);
                    }
                }
                cur = next;
            }
        }
        "chars" => {
            // every character on which case folding or Latin normalization acts (directly, or on its folded form), alone and behind
            // an ASCII letter, under every CaseMatching x Normalization setting: the per-character bookkeeping of the grapheme loop
            // (which of folding and normalization sees the character first) is only visible on a few dozen code points
            use nucleo_matcher::chars::{normalize, to_lower_case};
            for cp in 0x80u32..0x30000 {
                let Some(c) = char::from_u32(cp) else { continue };
                let l = to_lower_case(c);
                if l == c && normalize(c) == c && normalize(l) == l {
                    continue;
                }
                for case in 0..3 {
                    for norm in 0..2 {
                        p_line(&mut out, case, norm, "parse", &[c], None, &mut scratch);
                        p_line(&mut out, case, norm, "new:0", &['a', c], None, &mut scratch);
                    }
                }
            }
        }
        "score" => {
            let count: usize = args[2].parse().unwrap();
            let shard: u64 = args.get(3).map(|s| s.parse().unwrap()).unwrap_or(0);
            rng = Rng::new(seed.wrapping_mul(104729).wrapping_add(shard) ^ 0x5343);
            let mut matcher = Matcher::default();
            for i in 0..count {
                s_line(&mut out, &mut rng, &mut matcher);
                if i % 3 == 0 {
                    n_line(&mut out, &mut rng, &mut matcher);
                }
            }
        }
        "narrow" => {
            // C07, the rule of the append shortcut on the real code: one Nucleo (no items); text T, a tick (resets the pattern
            // status), appended text T+S with append = true; when the status is Update, whatever the new pattern matches
            // must match the old one - evaluated with Pattern::score on haystacks built from the new needles through
            // "relatives" (other case, accented, characters whose case folding and normalization disagree)
            use nucleo::{Config, Nucleo};
            let count: usize = args[2].parse().unwrap();
            let shard: u64 = args.get(3).map(|s| s.parse().unwrap()).unwrap_or(0);
            rng = Rng::new(seed.wrapping_mul(15485863).wrapping_add(shard) ^ 0x4e41);
            let mut n: Nucleo<u32> = Nucleo::new(Config::DEFAULT, std::sync::Arc::new(|| {}), Some(1), 1);
            let mut matcher = Matcher::default();
            const AL: &[char] = &[
                'a', 'b', 'o', 'f', 'A', 'B', 'e', 's', 'k', 'i', ' ', ' ', '!', '^', '\'', '$', '\\', '-', '/', '1', '\u{e9}', '\u{c9}', '\u{2C65}', '\u{23A}',
                '\u{185}', '\u{184}', '\u{17f}', '\u{3c3}', '\u{3c2}', '\u{e4}', '\u{c4}', '\u{4f60}', '\u{301}', '\u{212a}', '\u{130}', '\u{df}',
            ];
            const REL: &[&[char]] = &[
                &['a', 'A', '\u{e1}', '\u{c1}', '\u{e4}', '\u{c4}', '\u{aa}', '\u{23A}', '\u{2C65}'],
                &['e', 'E', '\u{e9}', '\u{c9}', '\u{ea}'],
                &['s', 'S', '\u{17f}', '\u{df}', '\u{3c3}', '\u{3c2}', '\u{3a3}'],
                &['b', 'B', '\u{184}', '\u{185}', '\u{180}'],
                &['k', 'K', '\u{212a}'],
                &['i', 'I', '\u{130}', '\u{131}', '\u{ed}'],
                &['o', 'O', '\u{f3}', '\u{d6}', '\u{ba}'],
                &['t', 'T', '\u{23e}', '\u{2c66}'],
                &[' ', '\t', '\u{a0}'],
            ];
            let rel = |rng: &mut Rng, c: char| -> char {
                for g in REL {
                    if g.contains(&c) {
                        return *rng.pick(g);
                    }
                }
                if rng.chance(1, 2) { c.to_uppercase().next().unwrap_or(c) } else { c.to_lowercase().next().unwrap_or(c) }
            };
            for _ in 0..count {
                let tl = rng.below(6) as usize;
                let mut t: String = (0..tl).map(|_| *rng.pick(AL)).collect();
                let sl = 1 + rng.below(3) as usize;
                let mut app: String = (0..sl).map(|_| *rng.pick(AL)).collect();
                if rng.chance(1, 6) {
                    // the shape behind finding F16, also with more atoms behind it: the last atom is one normalization leaves alone
                    // (its characters fold and normalize differently), the appended text continues it with a character
                    // normalization would change - and may go on with a space and further atoms
                    t = format!("{}{}", if rng.chance(1, 3) { "b " } else { "" }, *rng.pick(&["\u{2C65}", "b\u{2C65}", "\u{2C65}o", "\u{185}", "\u{17f}a"]));
                    app = rng.pick(&['\u{e9}', '\u{e4}', '\u{c9}', '\u{f3}']).to_string();
                    if rng.chance(1, 2) {
                        app.push(' ');
                        app.push_str(*rng.pick(&["a", "fo", "!k", "^b", "o$"]));
                    }
                }
                let full = format!("{t}{app}");
                n.pattern.reparse(0, &t, CaseMatching::Smart, Normalization::Smart, false);
                n.tick(10);
                n.pattern.reparse(0, &full, CaseMatching::Smart, Normalization::Smart, true);
                let status = nucleo::verif::pattern_status(&n.pattern);
                let old = Pattern::parse(&t, CaseMatching::Smart, Normalization::Smart);
                let new = Pattern::parse(&full, CaseMatching::Smart, Normalization::Smart);
                let mut bad = String::from("-");
                let mut tried = 0u32;
                let mut matched = 0u32;
                if status == 1 {
                    // haystacks: the new needles, character by character through a relative, with gaps and padding
                    let base: Vec<char> = new.atoms.iter().filter(|a| !a.negative).flat_map(|a| a.needle_text().chars().chain(std::iter::once('/')).collect::<Vec<_>>()).collect();
                    for k in 0..24 {
                        let mut hay: Vec<char> = Vec::new();
                        if k % 3 == 1 {
                            hay.push(*rng.pick(&['x', ' ', '/']));
                        }
                        for &c in &base {
                            if k >= 8 && rng.chance(1, 5) {
                                hay.push(*rng.pick(&['x', '-', ' ']));
                            }
                            hay.push(if k == 0 { c } else { rel(&mut rng, c) });
                        }
                        if k % 4 == 2 {
                            hay.push(*rng.pick(&['x', ' ']));
                        }
                        let hs: String = hay.iter().collect();
                        let mut buf = Vec::new();
                        let h = Utf32Str::new(&hs, &mut buf);
                        tried += 1;
                        if new.score(h, &mut matcher).is_some() {
                            matched += 1;
                            if old.score(h, &mut matcher).is_none() {
                                bad = hex_cps(&hs.chars().collect::<Vec<_>>());
                                break;
                            }
                        }
                    }
                }
                writeln!(
                    out,
                    "W text={} app={} status={} tried={} matched={} bad={} oldatoms={} newatoms={}",
                    if t.is_empty() { "-".to_string() } else { hex_cps(&t.chars().collect::<Vec<_>>()) },
                    hex_cps(&app.chars().collect::<Vec<_>>()),
                    status,
                    tried,
                    matched,
                    bad,
                    atoms_str(&old.atoms),
                    atoms_str(&new.atoms)
                )
                .unwrap();
            }
        }
        "corpus" => {
            let stdin = std::io::stdin();
            for line in stdin.lock().lines() {
                let line = line.unwrap();
                if !line.starts_with("P ") {
                    continue;
                }
                let f = |k: &str| -> String { line.split(' ').find_map(|w| w.strip_prefix(&format!("{k}="))).unwrap_or("").to_string() };
                let text = parse_cps(&f("text"));
                let lit = f("lit");
                let litv = if lit == "-" || lit.is_empty() { None } else { Some(parse_cps(&lit)) };
                p_line(&mut out, f("case").parse().unwrap(), f("norm").parse().unwrap(), &f("mode"), &text, litv.as_deref(), &mut scratch);
            }
        }
        _ => panic!("mode"),
    }
    out.flush().unwrap();
}
