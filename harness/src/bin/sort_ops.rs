//! C18: the cancellable parallel sort through the cfg-gated facade.
//! `Q shift=<s> threads=<t> cancel=<load index | -1> n=<len> shape=<name> data=<k.k.k> out=<k.k.k> ret=<0|1> loads=<number of flag loads>`
use nucleo_verif_harness::util::*;
use std::io::{BufWriter, Write};
use std::sync::atomic::{AtomicBool, AtomicI64, Ordering};
use std::sync::Arc;

fn shape(rng: &mut Rng, name: &str, n: usize) -> Vec<u32> {
    match name {
        "random" => (0..n).map(|_| rng.below(1 << 20) as u32).collect(),
        "sorted" => (0..n as u32).collect(),
        "reversed" => (0..n as u32).rev().collect(),
        "organ" => (0..n).map(|i| if i < n / 2 { i as u32 } else { (n - i) as u32 }).collect(),
        "fewkeys" => (0..n).map(|_| rng.below(4) as u32 * 1000).collect(),
        "allequal" => vec![7; n],
        // a sorted run followed by a scrambled run of larger keys (and the mirror image): the scrambled part is the
        // shorter side of the first partitions, sorted by a nested call while the long side only needs a check
        "sortedtail" | "sortedhead" => {
            let a = n * (55 + rng.below(30) as usize) / 100;
            let mut v: Vec<u32> = (0..a as u32).collect();
            let mut tail: Vec<u32> = (a as u32..n as u32).collect();
            for i in (1..tail.len()).rev() {
                let j = rng.below(i as u64 + 1) as usize;
                tail.swap(i, j);
            }
            v.extend(tail);
            if name == "sortedhead" {
                let m = n as u32;
                v = v.into_iter().rev().map(|x| m - 1 - x).collect();
            }
            v
        }
        "sawtooth" => (0..n).map(|i| (i % 17) as u32).collect(),
        "mostlysorted" => {
            let mut v: Vec<u32> = (0..n as u32).collect();
            for _ in 0..(n / 50 + 1) {
                let i = rng.below(n.max(1) as u64) as usize;
                let j = rng.below(n.max(1) as u64) as usize;
                if n > 0 {
                    v.swap(i, j);
                }
            }
            v
        }
        // adversarial for median-of-three pivot selection: forces unbalanced partitions so that
        // break_patterns and finally heapsort run
        "killer" => {
            let mut v = vec![0u32; n];
            let half = n / 2;
            for i in 0..n {
                v[i] = if i < half { if i % 2 == 0 { i as u32 + 1 } else { (half + i) as u32 } } else { ((i - half) * 2) as u32 };
            }
            v
        }
        _ => {
            // runs of ascending blocks
            let mut v = Vec::with_capacity(n);
            let mut base = 0u32;
            while v.len() < n {
                let run = 1 + rng.below(200) as usize;
                for k in 0..run.min(n - v.len()) {
                    v.push(base + k as u32);
                }
                base = rng.below(1 << 16) as u32;
            }
            v
        }
    }
}

/// McIlroy's "killer adversary": sort the indices 0..n with a comparison that decides the keys lazily so
/// that every pivot choice is as bad as possible; replaying the frozen keys drives the real sort into its
/// imbalanced-partition handling (break_patterns) and its heapsort fallback.
fn adversary(n: usize) -> Vec<u32> {
    use std::sync::Mutex;
    struct Adv {
        val: Vec<u32>,
        nsolid: u32,
        candidate: usize,
    }
    let gas = n as u32;
    // two pre-decided keys next to the first pivot candidate: the first `choose_pivot` then sees a swap and
    // does not take the "already sorted" shortcut
    let mut val = vec![gas; n];
    let mut nsolid = 0;
    if n >= 8 {
        val[n / 4] = 0;
        val[n / 4 - 1] = 1;
        nsolid = 2;
    }
    let st = Mutex::new(Adv { val, nsolid, candidate: 0 });
    let mut idx: Vec<usize> = (0..n).collect();
    let never = AtomicBool::new(false);
    nucleo::verif::par_quicksort(
        &mut idx,
        |&x: &usize, &y: &usize| {
            let mut a = st.lock().unwrap();
            if a.val[x] == gas && a.val[y] == gas {
                let k = a.nsolid;
                a.nsolid += 1;
                if x == a.candidate {
                    a.val[x] = k;
                } else {
                    a.val[y] = k;
                }
            }
            if a.val[x] == gas {
                a.candidate = x;
            } else if a.val[y] == gas {
                a.candidate = y;
            }
            a.val[x] < a.val[y]
        },
        &never,
    );
    // the keys that were never decided become distinct keys above all decided ones (a strict total order
    // consistent with every answer given)
    let mut a = st.into_inner().unwrap();
    for i in 0..n {
        if a.val[i] == gas {
            a.val[i] = a.nsolid;
            a.nsolid += 1;
        }
    }
    a.val
}

fn main() {
    let args: Vec<String> = std::env::args().collect();
    let mode = args.get(1).map(|s| s.as_str()).unwrap_or("rand");
    let count: usize = args.get(2).map(|s| s.parse().unwrap()).unwrap_or(10);
    let shard: u64 = args.get(3).map(|s| s.parse().unwrap()).unwrap_or(0);
    let maxlen: usize = args.get(4).map(|s| s.parse().unwrap()).unwrap_or(3000);
    let mut out = BufWriter::with_capacity(1 << 22, std::io::stdout());
    let mut rng = Rng::new(seed_from_env().wrapping_mul(6364136223846793005).wrapping_add(shard) ^ 0x5351);
    let shapes = ["random", "sorted", "reversed", "organ", "fewkeys", "allequal", "sawtooth", "mostlysorted", "killer", "runs", "sortedtail", "sortedhead"];
    // the flag is raised by the yield point in front of the k-th load
    let cancel_at = Arc::new(AtomicI64::new(-1));
    let loads = Arc::new(AtomicI64::new(0));
    let flag = Arc::new(AtomicBool::new(false));
    // ... or by the comparison closure at its k-th call (a cancel arriving at an arbitrary moment of the sort);
    // `first_seen` = index of the first flag load that found the flag raised (what the model is told)
    let raise_at_cmp = Arc::new(AtomicI64::new(-1));
    let cmps = Arc::new(AtomicI64::new(0));
    let first_seen = Arc::new(AtomicI64::new(-1));
    {
        let (c, l, f, fs) = (cancel_at.clone(), loads.clone(), flag.clone(), first_seen.clone());
        nucleo::verif::set_callback(Some(Arc::new(move |site, _| {
            if site == "sort.cancel_load" {
                let k = l.fetch_add(1, Ordering::SeqCst);
                if k == c.load(Ordering::SeqCst) {
                    f.store(true, Ordering::SeqCst);
                }
                if f.load(Ordering::SeqCst) {
                    let _ = fs.compare_exchange(-1, k, Ordering::SeqCst, Ordering::SeqCst);
                }
            }
        })));
    }
    if mode == "comp" {
        // the private building blocks, one call each:
        // `QC which=<0..6> shift=<s> arg=<a> n=<len> shape=<name> data=<k.k.k> out=<k.k.k> r=<usize> b=<0|1>`
        let join = |x: &[u32]| if x.is_empty() { "-".to_string() } else { x.iter().map(|k| k.to_string()).collect::<Vec<_>>().join(".") };
        for k in 0..count {
            let which = (k % 7) as u8;
            let n = match rng.below(10) {
                0 => 1 + rng.below(9) as usize,
                1..=5 => 8 + rng.below(60) as usize,
                6..=8 => 60 + rng.below(400) as usize,
                _ => 400 + rng.below(maxlen.max(401) as u64 - 400) as usize,
            };
            // the quadratic ones stay small
            let n = if which <= 1 { n.min(300) } else { n };
            let sh = shapes[rng.below(shapes.len() as u64) as usize];
            let mut data = shape(&mut rng, sh, n);
            let shift = *rng.pick(&[0u32, 0, 3, 7]);
            let mut arg = 0usize;
            match which {
                3 => arg = rng.below(n as u64) as usize,
                4 => {
                    // partition_equal requires that no element is smaller than the pivot
                    let min = *data.iter().min().unwrap();
                    if rng.below(3) == 0 {
                        // many copies of the pivot
                        for x in data.iter_mut() {
                            if rng.below(3) == 0 {
                                *x = min;
                            }
                        }
                    }
                    let cands: Vec<usize> = (0..n).filter(|&i| data[i] >> shift == min >> shift).collect();
                    arg = *rng.pick(&cands);
                }
                _ => {}
            }
            let mut v = data.clone();
            let (r, b) = nucleo::verif::sort_component(which, &mut v, arg, &|a: &u32, b: &u32| (a >> shift) < (b >> shift));
            writeln!(out, "QC which={} shift={} arg={} n={} shape={} data={} out={} r={} b={}", which, shift, arg, n, sh, join(&data), join(&v), r, b as u8).unwrap();
        }
        out.flush().unwrap();
        return;
    }
    let pools: Vec<(usize, rayon::ThreadPool)> = [1usize, 2, 8, 16].iter().map(|&t| (t, rayon::ThreadPoolBuilder::new().num_threads(t).build().unwrap())).collect();
    for k in 0..count {
        let n = match mode {
            "big" => [20_000usize, 50_000, 100_000, 300_000][k % 4],
            _ => match rng.below(10) {
                0 => rng.below(25) as usize,
                1..=4 => 20 + rng.below(200) as usize,
                5..=7 => 200 + rng.below(2200) as usize,
                _ => 2000 + rng.below(maxlen.max(2001) as u64 - 2000) as usize,
            },
        };
        let mut sh = shapes[rng.below(shapes.len() as u64) as usize];
        let mut data = shape(&mut rng, sh, n);
        let mut shift = *rng.pick(&[0u32, 0, 3, 7]);
        if mode == "adv" || (mode == "rand" && rng.below(8) == 0) {
            // adversarial keys (single-threaded construction so that it is deterministic)
            sh = "adversary";
            let n = if mode == "adv" { 30 + (k * 7 + shard as usize * 3) % (maxlen.max(31) - 30) } else { n.min(4000) };
            data = pools[0].1.install(|| adversary(n));
            shift = 0;
        }
        // cancellation: none, at the first load, or at a later load (only sequentially deterministic
        // with one thread, so cancel cases use the 1-thread pool)
        let cancel: i64 = match rng.below(6) {
            0 => 0,
            1 => 1 + rng.below(6) as i64,
            _ => -1,
        };
        // a cancel that arrives at the k-th comparison (one thread, so that it is deterministic)
        let mut cmp_cancel: i64 = -1;
        let mut cancel = cancel;
        if mode == "cmpc" || (mode == "rand" && sh != "adversary" && rng.below(4) == 0) {
            if mode == "cmpc" {
                sh = ["sortedtail", "sortedhead", "random", "mostlysorted", "runs"][k % 5];
                let n = 30 + rng.below(4200) as usize;
                data = shape(&mut rng, sh, n);
            }
            // count the comparisons of an undisturbed sort first
            let mut v = data.clone();
            cmps.store(0, Ordering::SeqCst);
            raise_at_cmp.store(-1, Ordering::SeqCst);
            cancel_at.store(-1, Ordering::SeqCst);
            flag.store(false, Ordering::SeqCst);
            let cc = cmps.clone();
            pools[0].1.install(|| {
                nucleo::verif::par_quicksort(
                    &mut v,
                    |a: &u32, b: &u32| {
                        cc.fetch_add(1, Ordering::SeqCst);
                        (a >> shift) < (b >> shift)
                    },
                    &flag,
                )
            });
            let total = cmps.load(Ordering::SeqCst).max(1);
            cmp_cancel = rng.below(total as u64) as i64;
            cancel = -1;
        }
        let n = data.len();
        let mut reference: Option<(Vec<u32>, bool)> = None;
        for (t, pool) in &pools {
            if (cancel > 0 || cmp_cancel >= 0) && *t != 1 {
                continue;
            }
            let mut v = data.clone();
            cancel_at.store(cancel, Ordering::SeqCst);
            raise_at_cmp.store(cmp_cancel, Ordering::SeqCst);
            cmps.store(0, Ordering::SeqCst);
            first_seen.store(-1, Ordering::SeqCst);
            loads.store(0, Ordering::SeqCst);
            flag.store(false, Ordering::SeqCst);
            let (cc, ra, fl) = (cmps.clone(), raise_at_cmp.clone(), flag.clone());
            let ret = pool.install(|| {
                nucleo::verif::par_quicksort(
                    &mut v,
                    |a: &u32, b: &u32| {
                        if ra.load(Ordering::Relaxed) >= 0 && cc.fetch_add(1, Ordering::SeqCst) == ra.load(Ordering::Relaxed) {
                            fl.store(true, Ordering::SeqCst);
                        }
                        (a >> shift) < (b >> shift)
                    },
                    &flag,
                )
            });
            let nl = loads.load(Ordering::SeqCst);
            let raised = flag.load(Ordering::SeqCst);
            // what the model is told: the first flag load that found the flag raised
            let cancel = first_seen.load(Ordering::SeqCst);
            // all thread counts must agree with the first (1 thread) result when not cancelled mid-way
            let same = match &reference {
                None => {
                    reference = Some((v.clone(), ret));
                    true
                }
                Some((rv, rr)) => *rv == v && *rr == ret,
            };
            if *t == 1 || !same {
                let join = |x: &[u32]| if x.is_empty() { "-".to_string() } else { x.iter().map(|k| k.to_string()).collect::<Vec<_>>().join(".") };
                writeln!(
                    out,
                    "Q shift={} threads={} cancel={} raised={} cmpcancel={} n={} shape={} same={} data={} out={} ret={} loads={}",
                    shift, t, cancel, raised as u8, cmp_cancel, n, sh, same as u8, join(&data), join(&v), ret as u8, nl
                )
                .unwrap();
            }
        }
    }
    out.flush().unwrap();
}
