//! C17: `Utf32Str` / `Utf32String` construction and access on generated strings.
//! `U s=<hex cps> clusters=<cluster lengths> variant=A|U content=<hex> len=<n> ctors=<same|DIFF:..> ops=<op;op;..>`
use nucleo_matcher::{Utf32Str, Utf32String};
use nucleo_verif_harness::util::*;
use std::borrow::Cow;
use std::io::{BufWriter, Write};
use unicode_segmentation::UnicodeSegmentation;

fn content_of(s: Utf32Str<'_>) -> (char, Vec<char>) {
    match s {
        Utf32Str::Ascii(b) => ('A', b.iter().map(|&x| x as char).collect()),
        Utf32Str::Unicode(c) => ('U', c.to_vec()),
    }
}

const POOL: &[&str] = &[
    "a", "b", "Z", "0", " ", "\t", "\r", "\n", "\r\n", "/", "-", "ä", "a\u{308}", "e\u{301}\u{323}", "\u{308}", "👨\u{200d}👩\u{200d}👧", "🇩🇪", "🇩", "👍🏽",
    "\u{1100}\u{1161}\u{11a8}", "\u{1100}", "\u{ac00}", "日", "ß", "ς", "\u{200d}", "\u{a0}", "\u{3000}", "\u{fe0f}", "\u{600}", "क्षि", "\u{0}", "\u{7f}", "\u{80}",
];

fn gen(rng: &mut Rng) -> String {
    let ascii_only = rng.chance(1, 3);
    let len = rng.below(9) as usize;
    let mut s = String::new();
    for _ in 0..len {
        if ascii_only {
            s.push_str(*rng.pick(&POOL[..11]));
        } else {
            s.push_str(*rng.pick(POOL));
        }
    }
    s
}

fn run(out: &mut impl Write, s: &str, rng: &mut Rng) {
    let cps: Vec<char> = s.chars().collect();
    let clusters: Vec<usize> = s.graphemes(true).map(|g| g.chars().count()).collect();
    let mut buf = Vec::new();
    let v = Utf32Str::new(s, &mut buf);
    let (variant, content) = content_of(v);
    // all constructors
    let mut ctor_diff = Vec::new();
    let others: Vec<(&str, Utf32String)> = vec![
        ("from_str", Utf32String::from(s)),
        ("from_string", Utf32String::from(s.to_string())),
        ("from_box", Utf32String::from(s.to_string().into_boxed_str())),
        ("from_cow_borrowed", Utf32String::from(Cow::Borrowed(s))),
        ("from_cow_owned", Utf32String::from(Cow::<str>::Owned(s.to_string()))),
    ];
    for (name, o) in &others {
        let (v2, c2) = content_of(o.slice(..));
        if v2 != variant || c2 != content || o.len() != content.len() {
            ctor_diff.push(format!("{name}:{v2}:{}", hex_cps(&c2)));
        }
    }
    // a reused, dirty buffer must not leak into the result
    let mut dirty = vec!['x'; 7];
    let (v3, c3) = content_of(Utf32Str::new(s, &mut dirty));
    if v3 != variant || c3 != content {
        ctor_diff.push(format!("dirty_buf:{v3}:{}", hex_cps(&c3)));
    }
    // access operations on the borrowed and the owned form
    let owned = &others[0].1;
    let mut ops = Vec::new();
    let n = v.len();
    ops.push(format!("len:{}:{}:{}", n, owned.len(), v.is_empty() as u8));
    ops.push(format!("chars:{}", hex_cps(&v.chars().collect::<Vec<_>>())));
    ops.push(format!("rev:{}", hex_cps(&v.chars().rev().collect::<Vec<_>>())));
    ops.push(format!("display:{}", hex_cps(&v.to_string().chars().collect::<Vec<_>>())));
    ops.push(format!("displayowned:{}", hex_cps(&owned.to_string().chars().collect::<Vec<_>>())));
    for _ in 0..3 {
        if n > 0 {
            let i = rng.below(n as u64) as u32;
            ops.push(format!("get:{}:{:x}", i, v.get(i) as u32));
        }
        let a = rng.below(n as u64 + 1) as usize;
        let b = a + rng.below((n - a) as u64 + 1) as usize;
        ops.push(format!("slice:{}:{}:{}", a, b, hex_cps(&content_of(v.slice(a..b)).1)));
        // the attributes of a slice agree with its content: also for the empty slice of a string held in the code-point form
        ops.push(format!("sliceattr:{}:{}:{}:{}", a, b, v.slice(a..b).len(), v.slice(a..b).is_empty() as u8));
        ops.push(format!("sliceattr:{}:{}:{}:{}", a, a, owned.slice(a..a).len(), owned.slice(a..a).is_empty() as u8));
        ops.push(format!("sliceu32:{}:{}:{}", a, b, hex_cps(&content_of(owned.slice_u32(a as u32..b as u32)).1)));
        if b > a {
            ops.push(format!("sliceincl:{}:{}:{}", a, b - 1, hex_cps(&content_of(owned.slice(a..=b - 1)).1)));
        }
        // every spelling of the range a..b as a pair of bounds, through each of the four slice functions
        use std::ops::Bound::{self, Excluded, Included, Unbounded};
        let mut los: Vec<(String, Bound<usize>)> = vec![(format!("i{a}"), Included(a))];
        if a > 0 {
            los.push((format!("e{}", a - 1), Excluded(a - 1)));
        } else {
            los.push(("u".into(), Unbounded));
        }
        let mut his: Vec<(String, Bound<usize>)> = vec![(format!("e{b}"), Excluded(b))];
        if b > 0 {
            his.push((format!("i{}", b - 1), Included(b - 1)));
        }
        if b == n {
            his.push(("u".into(), Unbounded));
        }
        let to32 = |x: &Bound<usize>| -> Bound<u32> {
            match x {
                Included(v) => Included(*v as u32),
                Excluded(v) => Excluded(*v as u32),
                Unbounded => Unbounded,
            }
        };
        for (ln, lo) in &los {
            for (hn, hi) in &his {
                let r = [
                    content_of(v.slice((*lo, *hi))),
                    content_of(v.slice_u32((to32(lo), to32(hi)))),
                    content_of(owned.slice((*lo, *hi))),
                    content_of(owned.slice_u32((to32(lo), to32(hi)))),
                ];
                for (fi, (vv, c)) in r.iter().enumerate() {
                    ops.push(format!("sl:{}:{}:{}:{}:{}", fi, ln, hn, vv, hex_cps(c)));
                }
            }
        }
    }
    ops.push(format!("slicefull:{}", hex_cps(&content_of(v.slice(..)).1)));
    writeln!(
        out,
        "U s={} clusters={} variant={} content={} len={} ctors={} ops={}",
        hex_cps(&cps),
        if clusters.is_empty() { "-".to_string() } else { clusters.iter().map(|x| x.to_string()).collect::<Vec<_>>().join(",") },
        variant,
        hex_cps(&content),
        n,
        if ctor_diff.is_empty() { "same".to_string() } else { format!("DIFF:{}", ctor_diff.join("/")) },
        ops.join(";")
    )
    .unwrap();
}

fn main() {
    let args: Vec<String> = std::env::args().collect();
    let mode = args.get(1).map(|s| s.as_str()).unwrap_or("rand");
    let mut out = BufWriter::with_capacity(1 << 20, std::io::stdout());
    let mut rng = Rng::new(seed_from_env() ^ 0x5554);
    match mode {
        "rand" => {
            let count: usize = args[2].parse().unwrap();
            for _ in 0..count {
                let s = gen(&mut rng);
                run(&mut out, &s, &mut rng);
            }
        }
        "ascii3" => {
            // every ASCII string of length <= 3 (segmentation fact AsciiSeg)
            let maxlen: usize = args[2].parse().unwrap();
            let mut cur: Vec<Vec<u8>> = vec![vec![]];
            run(&mut out, "", &mut rng);
            for _ in 0..maxlen {
                let mut next = Vec::new();
                for s in &cur {
                    for c in 0..128u8 {
                        let mut t = s.clone();
                        t.push(c);
                        next.push(t);
                    }
                }
                for t in &next {
                    run(&mut out, std::str::from_utf8(t).unwrap(), &mut rng);
                }
                cur = next;
            }
        }
        "pool" => {
            // all pairs and triples of pool elements
            for a in POOL {
                run(&mut out, a, &mut rng);
                for b in POOL {
                    run(&mut out, &format!("{a}{b}"), &mut rng);
                    for c in &POOL[..20] {
                        run(&mut out, &format!("{a}{b}{c}"), &mut rng);
                    }
                }
            }
        }
        _ => panic!("mode"),
    }
    out.flush().unwrap();
}
