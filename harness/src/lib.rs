//! Shared helpers of the correspondence harness: PRNG, hex encoding, config decoding.
pub mod util;
pub mod sched;
