//! Deterministic scheduler on top of the cfg-gated yield points (`nucleo::verif::point`).
//!
//! Participating threads (those that called `Sched::enter`) stop at every yield point and
//! continue only when the scheduler grants them a step; all other threads pass through.
//! With every participant parked in front of its next atomic operation, the executed
//! sequence of (thread, site) pairs is a total order of the atomic operations: the schedule.
use std::cell::Cell;
use std::sync::{Arc, Condvar, Mutex};

#[derive(Clone, Debug, PartialEq)]
pub enum TState {
    Running,
    Waiting(&'static str, u64),
    Done,
}

pub struct Inner {
    pub states: Vec<TState>,
    pub granted: Vec<bool>,
    pub trace: Vec<(usize, &'static str, u64)>,
}

pub struct Sched {
    pub inner: Mutex<Inner>,
    pub cv: Condvar,
}

thread_local! {
    static TID: Cell<Option<usize>> = const { Cell::new(None) };
}

impl Sched {
    pub fn new(nthreads: usize) -> Arc<Sched> {
        Arc::new(Sched {
            inner: Mutex::new(Inner { states: vec![TState::Running; nthreads], granted: vec![false; nthreads], trace: Vec::new() }),
            cv: Condvar::new(),
        })
    }

    /// install as the global yield-point callback
    pub fn install(self: &Arc<Sched>) {
        let me = self.clone();
        nucleo::verif::set_callback(Some(Arc::new(move |site, arg| me.at_point(site, arg))));
    }

    pub fn uninstall() {
        nucleo::verif::set_callback(None);
    }

    pub fn enter(&self, tid: usize) {
        TID.with(|t| t.set(Some(tid)));
    }

    pub fn leave(&self) {
        if let Some(tid) = TID.with(|t| t.replace(None)) {
            let mut g = self.inner.lock().unwrap();
            g.states[tid] = TState::Done;
            self.cv.notify_all();
        }
    }

    fn at_point(&self, site: &'static str, arg: u64) {
        let Some(tid) = TID.with(|t| t.get()) else { return };
        let mut g = self.inner.lock().unwrap();
        g.states[tid] = TState::Waiting(site, arg);
        self.cv.notify_all();
        while !g.granted[tid] {
            g = self.cv.wait(g).unwrap();
        }
        g.granted[tid] = false;
        g.states[tid] = TState::Running;
    }

    /// run the schedule: `choose(waiting thread ids) -> index into that list`
    pub fn drive(&self, mut choose: impl FnMut(&[usize]) -> usize) -> Vec<(usize, &'static str, u64)> {
        loop {
            let mut g = self.inner.lock().unwrap();
            while g.states.iter().any(|s| *s == TState::Running) {
                g = self.cv.wait(g).unwrap();
            }
            let waiting: Vec<usize> = g.states.iter().enumerate().filter(|(_, s)| matches!(s, TState::Waiting(..))).map(|(i, _)| i).collect();
            if waiting.is_empty() {
                return std::mem::take(&mut g.trace);
            }
            let t = waiting[choose(&waiting)];
            if let TState::Waiting(site, arg) = g.states[t].clone() {
                g.trace.push((t, site, arg));
            }
            g.granted[t] = true;
            g.states[t] = TState::Running;
            self.cv.notify_all();
        }
    }
}
