use nucleo_matcher::Config;

/// splitmix64 — every random choice in the harness derives from one of these
#[derive(Clone)]
pub struct Rng(pub u64);
impl Rng {
    pub fn new(seed: u64) -> Self {
        Rng(seed.wrapping_mul(0x9E3779B97F4A7C15) ^ 0xD1B54A32D192ED03)
    }
    pub fn next(&mut self) -> u64 {
        self.0 = self.0.wrapping_add(0x9E3779B97F4A7C15);
        let mut z = self.0;
        z = (z ^ (z >> 30)).wrapping_mul(0xBF58476D1CE4E5B9);
        z = (z ^ (z >> 27)).wrapping_mul(0x94D049BB133111EB);
        z ^ (z >> 31)
    }
    pub fn below(&mut self, n: u64) -> u64 {
        if n == 0 {
            0
        } else {
            self.next() % n
        }
    }
    pub fn chance(&mut self, num: u64, den: u64) -> bool {
        self.below(den) < num
    }
    pub fn pick<'a, T>(&mut self, xs: &'a [T]) -> &'a T {
        &xs[self.below(xs.len() as u64) as usize]
    }
}

pub fn seed_from_env() -> u64 {
    std::env::var("VERIF_SEED")
        .ok()
        .and_then(|s| s.parse().ok())
        .unwrap_or(1)
}

/// configuration id: bit0 ignore_case, bit1 normalize, bit2 prefer_prefix, bits 3.. preset
/// (0 default, 1 match_paths(), 2 set_match_paths())
pub fn config_of(id: u32) -> Config {
    let mut c = match id >> 3 {
        0 => Config::DEFAULT,
        1 => Config::DEFAULT.match_paths(),
        _ => {
            let mut c = Config::DEFAULT;
            c.set_match_paths();
            c
        }
    };
    c.ignore_case = id & 1 != 0;
    c.normalize = id & 2 != 0;
    c.prefer_prefix = id & 4 != 0;
    c
}

pub fn hex_cps(cs: &[char]) -> String {
    if cs.is_empty() {
        return "-".to_string();
    }
    cs.iter()
        .map(|c| format!("{:x}", *c as u32))
        .collect::<Vec<_>>()
        .join(",")
}

pub fn parse_cps(s: &str) -> Vec<char> {
    if s == "-" {
        return Vec::new();
    }
    s.split(',')
        .map(|x| char::from_u32(u32::from_str_radix(x, 16).unwrap()).unwrap())
        .collect()
}

/// the three std predicates consulted by `char_class_non_ascii`, packed
pub fn ext_bits(c: char) -> u8 {
    (c.is_lowercase() as u8) | ((c.is_numeric() as u8) << 1) | ((c.is_alphabetic() as u8) << 2)
}
