import NucleoVerif.Driver.Chars
import NucleoVerif.Driver.Matcher
import NucleoVerif.Driver.Utf32
import NucleoVerif.Driver.Pattern
import NucleoVerif.Driver.Boxcar
import NucleoVerif.Driver.Nucleo
import NucleoVerif.Driver.ParSort
import NucleoVerif.Driver.Drop
/-! Model driver: one request per line on stdin, one answer per line on stdout.
Answers: `ok` | `DIFF <what the model says>` | `ORACLE <violated clause>` | `bad-op`. -/
open NucleoVerif NucleoVerif.Driver

def answer (line : String) : String :=
  let ws := words line
  match ws with
  | "C" :: c :: eb :: _ =>
    let model := charsLine (hexVal! c) (eb.toNat?.getD 0)
    match charsOracle ws with
    | some why => s!"ORACLE {why}"
    | none => if model = " ".intercalate ws then "ok" else s!"DIFF {model}"
  | "M" :: _ => mLine ws
  | "X" :: _ => xLine ws
  | "U" :: _ => uLine ws
  | "P" :: _ => pLine ws
  | "S" :: _ => sLine ws
  | "N" :: _ => nLine ws
  | "W" :: _ => wLine ws
  | "B" :: _ => bLine ws
  | "L" :: _ => lLine ws
  | "K" :: _ => kLine ws
  | "H" :: _ => hLine ws
  | "Q" :: _ => qLine ws
  | "QC" :: _ => qcLine ws
  | "D" :: _ => dLine ws
  | _ => "bad-op"

partial def loop (h : IO.FS.Stream) (out : IO.FS.Stream) : IO Unit := do
  let line ← h.getLine
  if line.isEmpty then return ()
  out.putStrLn (answer line)
  loop h out

def main : IO Unit := do
  loop (← IO.getStdin) (← IO.getStdout)
