import NucleoVerif.Model.Chars
