import NucleoVerif.Model.Boxcar
import NucleoVerif.Driver.Util
/-! `B` lines (C08): replay of a real schedule of the item vector on the model, and the clauses of
C08 evaluated on the implementation's results.  `L` lines: `Location::of`. -/
namespace NucleoVerif.Driver
open NucleoVerif NucleoVerif.Bx

def parseOp (s : String) : Option Op :=
  if s.startsWith "p" then (s.drop 1).toString.toNat?.map Op.push
  else if s.startsWith "e" then
    match (s.drop 1).toString.splitOn ":" with
    | [r, vs] => some (.extend (r.toNat?.getD 0) (if vs = "-" then [] else (vs.splitOn ".").filterMap (·.toNat?)))
    | _ => none
  else if s.startsWith "g" then (s.drop 1).toString.toNat?.map Op.get
  else if s = "c" then some .count
  else if s.startsWith "s" then (s.drop 1).toString.toNat?.map Op.snapshot
  else none

def showBRes : Res → String
  | .idx i => toString i
  | .ok => "ok" | .panic => "panic" | .none => "none"
  | .val v => toString v
  | .cnt n => toString n
  | .skip => "skip"
  | .snap e items =>
    let xs := items.map fun (i, v) => match v with
      | none => s!"{i}:n"
      | some x => s!"{i}:{x}"
    s!"{e};{if xs.isEmpty then "-" else "+".intercalate xs}"

structure Replay where
  shared : Shared
  threads : Array Thread
  err : Option String

def replayStep (r : Replay) (ev : String) : Replay :=
  if r.err.isSome then r else
  match ev.splitOn "." with
  | tid :: rest =>
    let t := tid.toNat?.getD 0
    -- site names contain a dot: `push.fetch_add`; the last component is the argument
    let site := ".".intercalate (rest.take (rest.length - 1))
    match r.threads[t]? with
    | none => { r with err := some s!"trace names unknown thread {t}" }
    | some th =>
      if th.pc.site ≠ site then
        { r with err := some s!"thread {t}: implementation executed site {site}, model expects {th.pc.site}" }
      else
        let (s', th') := stepThread r.shared th
        { shared := s', threads := r.threads.set! t th', err := none }
  | _ => { r with err := some "bad trace element" }

def bLine (ws : List String) : String := Id.run do
  let get := fun k => (field ws k).getD ""
  let cap := (get "cap").toNat?.getD 0
  let progs : List (List Op) := ((get "progs").splitOn "|").map fun p =>
    if p.isEmpty then [] else (p.splitOn ",").filterMap parseOp
  let trace : List String := if get "trace" = "-" then [] else (get "trace").splitOn ","
  let implRes : List (List String) := ((get "results").splitOn "|").map fun p => if p.isEmpty then [] else p.splitOn ","
  let (finCount, finVals) : Nat × List String := match (get "final").splitOn ";" with
    | [c, v] => (c.toNat?.getD 0, if v = "-" then [] else v.splitOn ".")
    | _ => (0, [])
  let mut issues : List String := []
  -- ---------------- oracle on the implementation's results ----------------
  let mut pushIdx : List (Nat × Nat) := []     -- (index, value) of completed pushes
  let mut reserved := 0
  for (prog, res) in progs.zip implRes do
    let mut lastCount := 0
    let mut mine : List (Nat × Nat) := []      -- pushes of this thread that have returned (program order)
    for (op, r) in prog.zip res do
      match op with
      | .push v =>
        match r.toNat? with
        | some i => pushIdx := pushIdx ++ [(i, v)]; reserved := reserved + 1; mine := mine ++ [(i, v)]
        | none => issues := issues ++ [s!"ORACLE C08 push returned {r}"]
      | .extend rep vals =>
        -- a batch whose iterator reports 0 but yields items panics before reserving
        if rep ≠ 0 then reserved := reserved + rep
        let shouldPanic := vals.length > rep
        if (r = "panic") ≠ shouldPanic then issues := issues ++ [s!"ORACLE C08 extend(reported {rep}, yields {vals.length}) returned {r}"]
      | .get i =>
        if r = "panic" then issues := issues ++ [s!"ORACLE C08 get({i}) panicked (a lookup returns nothing or a completely written item)"]
        if r.endsWith "!badcols" then issues := issues ++ [s!"ORACLE C08 get({i}) returned an item whose matcher columns are not the ones its fill callback produced"]
        else if r ≠ "none" then
          if i ≥ finCount then issues := issues ++ [s!"ORACLE C08 get({i}) = {r} but only {finCount} indices were ever assigned"]
          else if finVals.length > i && finVals[i]! ≠ r then
            issues := issues ++ [s!"ORACLE C08 get({i}) = {r} during the run, {finVals[i]!} afterwards"]
      | .count =>
        match r.toNat? with
        | some n =>
          if n < lastCount then issues := issues ++ [s!"ORACLE C08 count decreased from {lastCount} to {n}"]
          if n > finCount then issues := issues ++ [s!"ORACLE C08 count {n} exceeds the final count {finCount}"]
          lastCount := n
        | none => issues := issues ++ [s!"ORACLE C08 count returned {r}"]
      | .snapshot start =>
        if (r.splitOn "!badcols").length > 1 then issues := issues ++ ["ORACLE C08 snapshot yielded an item with wrong matcher columns"]
        -- a push of the same thread that has already returned must be found by the snapshot (when inside its range)
        match r.splitOn ";" with
        | [e, body] =>
          let endIdx := e.toNat?.getD 0
          let entries := if body = "-" then [] else body.splitOn "+"
          for (i, v) in mine do
            if start ≤ i && i < endIdx && !entries.contains s!"{i}:{v}" then
              issues := issues ++ [s!"ORACLE C08 a snapshot of [{start}, {endIdx}) taken after push({v}) had returned index {i} does not contain that item"]
        | _ => pure ()
  -- distinct, gap-free
  let idxs := pushIdx.map (·.1)
  if idxs.eraseDups.length ≠ idxs.length then issues := issues ++ [s!"ORACLE C08 two pushes received the same index: {idxs}"]
  if finCount ≠ reserved then issues := issues ++ [s!"ORACLE C08 {reserved} indices were reserved but the count is {finCount}"]
  for (i, v) in pushIdx do
    if i ≥ finCount then issues := issues ++ [s!"ORACLE C08 push returned index {i} ≥ count {finCount}"]
    else if finVals.length > i && finVals[i]! ≠ toString v then
      issues := issues ++ [s!"ORACLE C08 push of {v} returned index {i} but a later get({i}) returns {finVals[i]!}"]
  -- ---------------- model replay ----------------
  let threads0 : Array Thread := (progs.map fun p => settle (p.length + 1) { pc := .idle, ops := p, results := [] }).toArray
  let r := trace.foldl replayStep { shared := initShared cap, threads := threads0, err := none }
  match r.err with
  | some e => issues := issues ++ [s!"DIFF {e}"]
  | none =>
    let modelRes := r.threads.toList.map (fun t => t.results.map showBRes)
    if modelRes ≠ implRes then issues := issues ++ [s!"DIFF results: model {modelRes} impl {implRes}"]
    if r.threads.toList.any (fun t => t.pc ≠ .idle || !t.ops.isEmpty) then issues := issues ++ ["DIFF model threads not finished at the end of the trace"]
    let mfin := (List.range (min finCount 400)).map fun i => match r.shared.slot i with
      | some v => toString v
      | none => "n"
    if min r.shared.inflight Gen.MAX_ENTRIES ≠ finCount || mfin ≠ finVals then
      issues := issues ++ [s!"DIFF final state: model count {r.shared.inflight} {mfin} impl {finCount} {finVals}"]
  -- C11 under the same schedule: once the threads and the last handle are gone, every item that was created has been dropped exactly once
  match (get "drops").splitOn "/" with
  | [nv, tw] =>
    if nv ≠ "never:-" then issues := issues ++ [s!"ORACLE C11 items {nv.drop 6} were never dropped although the last handle to the vector is gone (leaked)"]
    if tw ≠ "twice:-" then issues := issues ++ [s!"ORACLE C11 items {tw.drop 6} were dropped more than once"]
  | _ => pure ()
  if issues.isEmpty then "ok" else " ## ".intercalate issues

/-- `K` lines: one thread at the capacity limit.  `ops`: `c<count>:<completed pushes>`, `e<claimed>:<ok|panic>`, `p:<index|panic>`.
    Clauses of C08 on the implementation's answers, and the model's counter (`min inflight MAX_ENTRIES`; a push or a batch
    reserves its indices before it is rejected). -/
def kLine (ws : List String) : String := Id.run do
  let get := fun k => (field ws k).getD ""
  let mut issues : List String := []
  let mut reserved : Nat := (get "pushes").toNat?.getD 0
  let mut last : Nat := 0
  for op in (get "ops").splitOn "," do
    if op.startsWith "c" then
      match (op.drop 1).toString.splitOn ":" with
      | [c, done] =>
        let c := c.toNat?.getD 0
        let done := done.toNat?.getD 0
        if c < last then issues := issues ++ [s!"ORACLE C08 count decreased from {last} to {c}"]
        if c < done then issues := issues ++ [s!"ORACLE C08 count {c} is smaller than the number of completed pushes {done}"]
        if c ≠ min reserved Gen.MAX_ENTRIES then issues := issues ++ [s!"DIFF count: model {min reserved Gen.MAX_ENTRIES} impl {c}"]
        last := c
      | _ => issues := issues ++ [s!"bad-op {op}"]
    else if op.startsWith "e" then
      match (op.drop 1).toString.splitOn ":" with
      | [claim, r] =>
        let claim := claim.toNat?.getD 0
        let start := reserved
        if claim ≠ 0 then reserved := reserved + claim
        let over := start + claim > Gen.MAX_ENTRIES
        if (r = "panic") ≠ over then issues := issues ++ [s!"ORACLE C08 a batch claiming {claim} items at index {start} returned {r}"]
      | _ => issues := issues ++ [s!"bad-op {op}"]
    else if op.startsWith "p:" then
      let r := (op.drop 2).toString
      let start := reserved
      reserved := reserved + 1
      if start > Gen.MAX_ENTRIES then
        if r ≠ "panic" then issues := issues ++ [s!"ORACLE C08 a push beyond the capacity limit returned {r}"]
      else if r.toNat? ≠ some start then issues := issues ++ [s!"ORACLE C08 push returned {r}, expected index {start}"]
    else issues := issues ++ [s!"bad-op {op}"]
  if issues.isEmpty then "ok" else " ## ".intercalate issues

def lLine (ws : List String) : String :=
  let get := fun k => ((field ws k).getD "").toNat?.getD 0
  let i := get "i"
  if bucketOf i = get "bucket" ∧ bucketLen (bucketOf i) = get "len" ∧ entryOf i = get "entry" then "ok"
  else s!"DIFF Location::of({i}): model ({bucketOf i}, {bucketLen (bucketOf i)}, {entryOf i})"

end NucleoVerif.Driver
