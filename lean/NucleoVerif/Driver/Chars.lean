import NucleoVerif.Model.Chars
import NucleoVerif.Gen.RefData
import NucleoVerif.Driver.Util
/-! `C` lines (C16 correspondence): the harness prints, for one scalar value, everything
the real code computes for it; this replays the model on the same character and evaluates
the property's clauses on the **implementation's** numbers. -/
namespace NucleoVerif.Driver
open NucleoVerif

def cfgOfId (id : Nat) : Cfg :=
  let preset := id / 8
  let base : Cfg :=
    if preset = 0 then
      { delims := Gen.presetDefault_delims, white := Gen.presetDefault_white, delim := Gen.presetDefault_delim,
        initial := .whitespace, normalize := true, ignoreCase := true, preferPrefix := false }
    else if preset = 1 then
      { delims := Gen.presetMatchPaths_delims, white := Gen.presetMatchPaths_white, delim := Gen.presetMatchPaths_delim,
        initial := .delimiter, normalize := true, ignoreCase := true, preferPrefix := false }
    else
      { delims := Gen.presetSetMatchPaths_delims, white := Gen.presetSetMatchPaths_white, delim := Gen.presetSetMatchPaths_delim,
        initial := .delimiter, normalize := true, ignoreCase := true, preferPrefix := false }
  { base with ignoreCase := id % 2 = 1, normalize := (id / 2) % 2 = 1, preferPrefix := (id / 4) % 2 = 1 }

def extOfBits (b : Nat) : ExtBits := ⟨b % 2 = 1, (b / 2) % 2 = 1, (b / 4) % 2 = 1⟩

/-- what the model says for scalar `c` with std predicate bits `eb`, in the harness's format -/
def charsLine (c eb : Nat) : String := Id.run do
  let ext : Ext := fun _ => extOfBits eb
  let mut s := s!"C {toHex c} {eb} {toHex (toLower c)} {if isUpper c then 1 else 0} {toHex (Gen.normalizeLatin c)}"
  s := s ++ s!" {toHex (toLower (toLower c))} {toHex (Gen.normalizeLatin (Gen.normalizeLatin c))}"
  for id in [0:4] do
    let cfg := cfgOfId id
    s := s ++ s!" {toHex (norm cfg .unicode c)} {toHex (cnorm cfg .unicode c)} {(charClass cfg ext c).rank}"
  s := s ++ s!" {(charClass (cfgOfId 11) ext c).rank}"
  if c < 128 then
    for id in [0:4] do
      let cfg := cfgOfId id
      s := s ++ s!" {toHex (norm cfg .ascii c)} {toHex (cnorm cfg .ascii c)} {(charClassAscii cfg c).rank}"
    s := s ++ s!" {(charClassAscii (cfgOfId 11) c).rank}"
  return s

/-! reference lookups (oracle side; the reference keys are sorted, so a binary search is used
    for speed — the *theorem* is stated against the naive linear scan `refFold`) -/
def refKey (i : Nat) : Nat := Gen.tblGet Gen.REF_FOLD_KEYS Gen.REF_FOLD_len i
def refVal (i : Nat) : Nat := Gen.tblGet Gen.REF_FOLD_VALS Gen.REF_FOLD_len i
def refFoldFast (c : Nat) : Nat :=
  match bsearch refKey c (Gen.REF_FOLD_len + 1) 0 Gen.REF_FOLD_len with
  | some i => refVal i
  | none => c

def latinRefD (c : Nat) : Option Nat :=
  let v :=
    if 0xa0 ≤ c ∧ c ≤ 0x29f then Gen.tblGet Gen.REF_LATIN_1AB Gen.REF_LATIN_1AB_len (c - 0xa0)
    else if 0x1e00 ≤ c ∧ c ≤ 0x1eff then Gen.tblGet Gen.REF_LATIN_EXTENDED_ADDITIONAL Gen.REF_LATIN_EXTENDED_ADDITIONAL_len (c - 0x1e00)
    else if 0x2070 ≤ c ∧ c ≤ 0x209f then Gen.tblGet Gen.REF_SUPERSCRIPTS_AND_SUBSCRIPTS Gen.REF_SUPERSCRIPTS_AND_SUBSCRIPTS_len (c - 0x2070)
    else 0x1FFFFF
  if v = 0x1FFFFF then none else some v

def inBlocks (c : Nat) : Bool :=
  (0xa0 ≤ c && c ≤ 0x29f) || (0x1e00 ≤ c && c ≤ 0x1eff) || (0x2070 ≤ c && c ≤ 0x209f)

/-- Property clauses evaluated on the implementation's own output. -/
def charsOracle (ws : List String) : Option String :=
  -- ws = C c eb tl up nl tl2 nl2 (n cn cl)×4 clp [(n cn cl)×4 clp]
  match ws with
  | _ :: c :: _eb :: tl :: up :: nl :: tl2 :: nl2 :: rest =>
    let c := hexVal! c; let tl := hexVal! tl; let nl := hexVal! nl
    let tl2 := hexVal! tl2; let nl2 := hexVal! nl2
    if tl ≠ refFoldFast c then some s!"to_lower_case({toHex c}) = {toHex tl}, Unicode simple case folding gives {toHex (refFoldFast c)}"
    else if (up = "1") ≠ (refFoldFast c ≠ c) then some s!"is_upper_case({toHex c}) = {up} but the character {if refFoldFast c ≠ c then "has" else "has no"} simple case folding"
    else if tl2 ≠ tl then some s!"to_lower_case not idempotent at {toHex c}: {toHex tl} then {toHex tl2}"
    else if nl2 ≠ nl then some s!"normalize not idempotent at {toHex c}: {toHex nl} then {toHex nl2}"
    else if !inBlocks c && nl ≠ c then some s!"normalize changes {toHex c} (outside the documented blocks) to {toHex nl}"
    else if c < 128 && tl ≠ (if 65 ≤ c ∧ c ≤ 90 then c + 32 else c) then some s!"to_lower_case changes ASCII {toHex c} to {toHex tl}"
    else match latinRefD c with
      | some w => if nl ≠ w then some s!"normalize({toHex c}) = {toHex nl}, its decomposition is the letter/digit {toHex w}" else agree c rest
      | none => agree c rest
  | _ => some "short line"
where
  agree (c : Nat) (rest : List String) : Option String :=
    let rec go (k : Nat) (r : List String) (acc : List String) : Option String × List String × List String :=
      match k, r with
      | 0, r => (none, r, acc)
      | k+1, n :: cn :: _cl :: r' =>
        if n ≠ cn then (some s!"normalize and char_class_and_normalize disagree on {toHex c} under (ignore_case,normalize) = cfg {3 - k}: {n} vs {cn}", r', acc)
        else go k r' (acc ++ [n])
      | _, r => (some "short line", r, acc)
    match go 4 rest [] with
    | (some e, _, _) => some e
    | (none, r, uni) =>
      if c < 128 then
        match go 4 (r.drop 1) [] with
        | (some e, _, _) => some ("ASCII representation: " ++ e)
        | (none, _, asc) => if asc ≠ uni then some s!"normalization of {toHex c} depends on the representation: {asc} vs {uni}" else none
      else none

end NucleoVerif.Driver
