import NucleoVerif.Model.Drop
import NucleoVerif.Driver.Util
/-! `D` lines (C11): drop counters of every item after each operation and after dropping the vector. -/
namespace NucleoVerif.Driver
open NucleoVerif NucleoVerif.Bx

def parseDOp (s : String) : Option DOp :=
  if s.startsWith "p" then (s.drop 1).toString.toNat?.map (fun v => DOp.push v false)
  else if s.startsWith "P" then (s.drop 1).toString.toNat?.map (fun v => DOp.push v true)
  else if s.startsWith "e" then
    match (s.drop 1).toString.splitOn ":" with
    | [r, vs, pa] => some (.extend (r.toNat?.getD 0) (if vs = "-" then [] else (vs.splitOn ".").filterMap (·.toNat?)) pa.toNat?)
    | _ => none
  else none

def parseCounts (s : String) : List (Nat × Nat) :=
  if s = "-" then [] else (s.splitOn ",").filterMap fun x =>
    match x.splitOn ":" with
    | [a, b] => some (a.toNat?.getD 0, b.toNat?.getD 0)
    | _ => none

def allValues : List DOp → List Nat
  | [] => []
  | .push v _ :: r => v :: allValues r
  | .extend _ vs _ :: r => vs ++ allValues r

def dLine (ws : List String) : String := Id.run do
  let get := fun k => (field ws k).getD ""
  let cap := (get "cap").toNat?.getD 0
  let ops := ((get "ops").splitOn ",").filterMap parseDOp
  let steps := ((get "steps").splitOn "|").map parseCounts
  let fin := parseCounts (get "final")
  let mut issues : List String := []
  -- items without a destructor (`kind=plain`): only the memory accounting applies (their matcher columns still own heap
  -- buffers that must be freed with the vector)
  if get "kind" = "plain" then
    if get "readable" ≠ "ok" then issues := issues ++ ["ORACLE C11 a published item lost its columns while the vector was still alive"]
    if get "live" ≠ "0" then
      issues := issues ++ [s!"ORACLE C11 {get "live"} bytes owned by the vector (matcher columns of items without a destructor, buckets) are still allocated after everything was dropped"]
    return (if issues.isEmpty then "ok" else " ## ".intercalate issues)
  -- oracle on the implementation
  let vals := allValues ops
  for v in vals do
    match fin.find? (·.1 == v) with
    | some (_, 1) => pure ()
    | some (_, c) => issues := issues ++ [s!"ORACLE C11 item {v} was dropped {c} times"]
    | none => issues := issues ++ [s!"ORACLE C11 item {v} was never dropped (leaked)"]
  if get "readable" ≠ "ok" then issues := issues ++ ["ORACLE C11 a published item was dropped (or lost its columns) while the vector was still alive"]
  if get "leakexpected" = "0" && get "live" ≠ "0" then
    issues := issues ++ [s!"ORACLE C11 {get "live"} bytes owned by the vector (items, matcher columns, buckets) are still allocated after everything was dropped"]
  -- model: drops during each operation, then the vector's drop
  let mut s := initShared cap
  let mut dropped : List Nat := []
  let mut k := 0
  for op in ops do
    let r := runDOp s op
    s := r.1
    dropped := dropped ++ r.2
    let impl := ((steps.getD k []).map (·.1))
    if impl.mergeSort ≠ dropped.mergeSort then
      issues := issues ++ [s!"DIFF drops after operation {k}: model {dropped.mergeSort} impl {impl.mergeSort}"]
    k := k + 1
  let final := dropped ++ dropVec s s.inflight
  if final.mergeSort ≠ (fin.map (·.1)).mergeSort then
    issues := issues ++ [s!"DIFF drops after dropping the vector: model {final.mergeSort} impl {(fin.map (·.1)).mergeSort}"]
  if issues.isEmpty then "ok" else " ## ".intercalate issues

end NucleoVerif.Driver
