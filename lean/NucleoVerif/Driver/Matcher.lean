import NucleoVerif.Model.OptImpl
import NucleoVerif.Model.Matcher
import NucleoVerif.Spec.Matcher
import NucleoVerif.Driver.Chars
/-! `M` and `X` lines: correspondence of the matcher model with the real `Matcher`, and the
clauses of C01–C05 / C10 evaluated on the **implementation's** results. -/
namespace NucleoVerif.Driver
open NucleoVerif NucleoVerif.Spec

def algoOfName : String → Option Algo
  | "fuzzy" => some .fuzzy | "greedy" => some .greedy | "substring" => some .substring
  | "prefix" => some .prefix | "postfix" => some .postfix | "exact" => some .exact
  | _ => none

def parseExt (s : String) : Ext :=
  if s = "-" then fun _ => default
  else
    let tbl : List (Nat × Nat) := (s.splitOn ",").filterMap fun p =>
      match p.splitOn ":" with
      | [c, b] => some (hexVal! c, b.toNat?.getD 0)
      | _ => none
    fun c => match tbl.find? (·.1 == c) with
      | some (_, b) => extOfBits b
      | none => default

def repOf (s : String) : Rep := if s = "A" then .ascii else .unicode

def showRes : MRes → String
  | none => "none:-"
  | some (s, is) => s!"{s}:{showNats is}"

/-- implementation result of the indices variant: `none:-`, `<score>:<idx,..>`, or `panic:…` -/
structure ImplRes where
  panic : Option String
  score : Option Nat
  idxs : List Nat

def parseImpl (s : String) : ImplRes :=
  if s.startsWith "panic" then ⟨some s, none, []⟩
  else match s.splitOn ":" with
    | [a, b] => ⟨none, if a = "none" then none else a.toNat?, parseNats b⟩
    | _ => ⟨some ("unparsable " ++ s), none, []⟩

structure MCase where
  cfgId : Nat
  cfg : Cfg
  ext : Ext
  hrep : Rep
  nrep : Rep
  h : List Nat
  n : List Nat
  nn : Bool

/-- finding K1: ASCII haystack, code-point needle consisting of ASCII characters only -/
def isK1 (c : MCase) : Bool := c.hrep == .ascii && c.nrep == .unicode && c.n.all (· < 128) && !c.n.isEmpty

/-- the clauses of the properties, on the implementation's result for one algorithm.
    Returns a list of `(property, text)`. -/
def oracle (c : MCase) (algo : Algo) (sres : String) (ir : ImplRes) (priorKept : Bool) (hist : String) : List (String × String) := Id.run do
  let mut bad : List (String × String) := []
  let nh := normHay c.cfg c.hrep c.h
  -- C10: totality and history independence
  if let some p := ir.panic then bad := bad ++ [("C10", s!"indices variant panicked: {p}")]
  if sres.startsWith "panic" then bad := bad ++ [("C10", s!"score-only variant panicked: {sres}")]
  if hist ≠ "same" then
    bad := bad ++ [("C10", s!"result depends on the matcher's history: {hist}")]
    -- the indices a matcher with a history (used for earlier calls / scratch memory overwritten) reported: are they still a witness?
    if c.nn && !c.n.isEmpty then
      for part in (hist.splitOn "=").drop 1 do
        -- part = "<score-only>/<score>:<idx,..>,poisonedXX" or "<score-only>/<score>:<idx,..>)"
        let body := ((part.splitOn ",poisoned").headD "").replace ")" ""
        match body.splitOn "/" with
        | [_, withIdx] =>
          let r := parseImpl withIdx
          if r.panic.isNone && r.score.isSome && !validWitnessB c.cfg c.hrep c.h c.n r.idxs then
            bad := bad ++ [("C02", s!"on a matcher with a history the indices {r.idxs} are not a witness of the match (a fresh matcher reports {ir.idxs})")]
        | _ => pure ()
  if ir.panic.isSome || sres.startsWith "panic" then return bad
  -- C03: both variants return the same value
  let sScore : Option Nat := if sres = "none" then none else sres.toNat?
  if sScore ≠ ir.score then bad := bad ++ [("C03", s!"score-only variant returned {sres}, indices variant {ir.score}")]
  -- C02: prior content, nothing appended on failure
  if !priorKept then bad := bad ++ [("C02", "earlier content of the indices vector was modified")]
  match ir.score with
  | none =>
    if !ir.idxs.isEmpty then bad := bad ++ [("C02", s!"failed match appended {ir.idxs}")]
  | some sc =>
    if c.n.isEmpty then
      if !ir.idxs.isEmpty || sc ≠ 0 then bad := bad ++ [("C02", s!"empty needle: score {sc} indices {ir.idxs}")]
    else if c.nn then
      if !validWitnessB c.cfg c.hrep c.h c.n ir.idxs then
        bad := bad ++ [("C02", s!"indices {ir.idxs} are not a witness of the match")]
      else
        if algo != .fuzzy && algo != .greedy && !contiguousB ir.idxs then
          bad := bad ++ [("C02", s!"indices {ir.idxs} are not contiguous")]
        -- C03: the scheme on the reported alignment
        if !c.cfg.preferPrefix then
          let want := alignScore c.cfg c.ext c.h ir.idxs
          if want ≠ sc then bad := bad ++ [("C03", s!"score {sc} but the scheme gives {want} on the reported alignment {ir.idxs}")]
  -- decision clauses need an already-normalized needle
  if c.nn && !c.n.isEmpty then
    match algo with
    | .fuzzy | .greedy =>
      let want := subseqB c.n nh
      if ir.score.isSome ≠ want then
        bad := bad ++ [("C01", s!"returned {if ir.score.isSome then "a match" else "None"} but the needle is {if want then "" else "not "}a subsequence of the normalized haystack")]
      else if sScore.isSome ≠ want then
        bad := bad ++ [("C01", s!"the score-only variant returned {if sScore.isSome then "a match" else "None"} but the needle is {if want then "" else "not "}a subsequence of the normalized haystack")]
    | .substring =>
      let best := bestOccurrence c.cfg c.ext c.hrep c.h c.n
      if ir.score.isSome ≠ best.isSome then
        bad := bad ++ [("C05", s!"substring returned {if ir.score.isSome then "a match" else "None"} but the needle does {if best.isSome then "" else "not "}occur contiguously")]
      else if let (some _, some b) := (ir.score, best) then
        if ir.idxs.head? ≠ some b then
          bad := bad ++ [("C05", s!"substring reports position {ir.idxs.head?} but the leftmost best-bonus occurrence is {b}")]
      if ir.score.isSome = best.isSome && sScore.isSome ≠ best.isSome then
        bad := bad ++ [("C05", s!"the score-only substring variant returned {if sScore.isSome then "a match" else "None"} but the needle does {if best.isSome then "" else "not "}occur contiguously")]
    | .prefix =>
      let l := if isWs (c.n.headD 0) then 0 else lead c.hrep c.h
      let want := (nh.drop l).take c.n.length == c.n && l + c.n.length ≤ c.h.length
      if ir.score.isSome ≠ want then
        bad := bad ++ [("C05", s!"prefix decision {ir.score.isSome}, specification {want} (leading whitespace {l})")]
      else if ir.score.isSome && ir.idxs.head? ≠ some l then
        bad := bad ++ [("C02", s!"prefix match anchored at {ir.idxs.head?}, expected {l}")]
      if ir.score.isSome = want && sScore.isSome ≠ want then
        bad := bad ++ [("C05", s!"score-only prefix decision {sScore.isSome}, specification {want} (leading whitespace {l})")]
    | .postfix =>
      let t := if isWs (c.n.getLast?.getD 0) then 0 else trail c.hrep c.h
      let want := t + c.n.length ≤ c.h.length && (nh.drop (c.h.length - t - c.n.length)).take c.n.length == c.n
      if ir.score.isSome ≠ want then
        bad := bad ++ [("C05", s!"postfix decision {ir.score.isSome}, specification {want} (trailing whitespace {t})")]
      else if ir.score.isSome && ir.idxs.getLast? ≠ some (c.h.length - t - 1) then
        bad := bad ++ [("C02", s!"postfix match ends at {ir.idxs.getLast?}, expected {c.h.length - t - 1}")]
      if ir.score.isSome = want && sScore.isSome ≠ want then
        bad := bad ++ [("C05", s!"score-only postfix decision {sScore.isSome}, specification {want} (trailing whitespace {t})")]
    | .exact =>
      let l := if isWs (c.n.headD 0) then 0 else lead c.hrep c.h
      let t := if isWs (c.n.getLast?.getD 0) then 0 else trail c.hrep c.h
      let want := l + t ≤ c.h.length && (nh.drop l).take (c.h.length - l - t) == c.n && c.h.length - l - t = c.n.length
      if ir.score.isSome ≠ want then
        bad := bad ++ [("C05", s!"exact decision {ir.score.isSome}, specification {want} (leading {l}, trailing {t})")]
      else if sScore.isSome ≠ want then
        bad := bad ++ [("C05", s!"score-only exact decision {sScore.isSome}, specification {want} (leading {l}, trailing {t})")]
  -- C04: never above the true optimum (brute force, small inputs only); one-character needles reach it
  if algo == .fuzzy && c.nn && !c.cfg.preferPrefix && c.h.length ≤ 12 && c.n.length ≤ 4 && !c.n.isEmpty then
    if let some sc := ir.score then
      let mx := maxAlignScore c.cfg c.ext c.hrep c.h c.n
      if sc > mx then bad := bad ++ [("C04", s!"score {sc} exceeds the maximum {mx} over all alignments")]
      if c.n.length = 1 && sc ≠ mx then bad := bad ++ [("C04", s!"one-character needle: score {sc}, best-placed occurrence gives {mx}")]
  -- C04: never below the two-matrix recurrence evaluated naively on the full matrix (every column of the haystack, no
  -- prefilter window), for inputs small enough for the matrix path
  if algo == .fuzzy && c.nn && !c.cfg.preferPrefix && c.n.length ≥ 2 && c.h.length * c.n.length ≤ 40000 && slabFits (charSize c.hrep) c.h.length c.n.length then
    if let some sc := ir.score then
      if let some (full, _) := optimalDP c.cfg c.ext c.hrep c.h c.n 0 c.h.length then
        if sc < full then bad := bad ++ [("C04", s!"score {sc} is below the value {full} of the two-matrix recurrence evaluated on the full matrix")]
  return bad

/-- the window handed to the matrix path of `fuzzy_match`, if the model takes that path -/
def matrixWindow (c : MCase) : Option (Nat × Nat) :=
  if c.n.length = c.h.length || c.n.length < 2 then none
  else match c.hrep with
    | .ascii => match prefilterAscii c.cfg c.h c.n false with
      | some (st, _, e) => if c.n.length ≠ e - st && slabFits 1 (e - st) c.n.length then some (st, e) else none
      | none => none
    | .unicode => match prefilterNonAscii c.cfg c.h c.n false with
      | some (st, e) => if c.n.length ≠ e - st && slabFits 4 (e - st) c.n.length then some (st, e) else none
      | none => none

/-- prior content of the score row / the back-pointer cells for the code-level model (anything will do: the result must
    not depend on it) -/
def junkCur (k salt : Nat) : List Gen.Opt.ScoreCell := (List.range k).map fun i => ⟨(i * 37 + salt) % 700, (i + salt) % 11, (i + salt) % 2 == 0⟩
def junkCells (k salt : Nat) : List Gen.Opt.MatrixCell := (List.range k).map fun i => ⟨(i + salt) % 4⟩

/-- FNV-1a over bytes, as the cfg-gated hook in `matcher/src/verif.rs: record_matrix` computes it -/
def fnv (bytes : List Nat) : UInt64 :=
  bytes.foldl (fun (h : UInt64) b => (h ^^^ UInt64.ofNat b) * 0x100000001b3) 0xcbf29ce484222325

def matrixDigest (st : List Nat × List Gen.Opt.ScoreCell × List Gen.Opt.MatrixCell) : String :=
  let b1 := st.1.flatMap fun o => [o % 256, o / 256 % 256]
  let b2 := st.2.1.flatMap fun c => [c.score % 256, c.score / 256 % 256, c.consecutive_bonus % 256, if c.matched then 1 else 0]
  let b3 := st.2.2.map fun c => c.f0 % 256
  s!"{(fnv (b1 ++ b2 ++ b3)).toNat}:{st.1.length}:{st.2.2.length}"

def mLine (ws : List String) : String := Id.run do
  let get := fun k => (field ws k).getD ""
  let cfgId := (get "cfg").toNat?.getD 0
  let c : MCase := { cfgId := cfgId, cfg := cfgOfId cfgId, ext := parseExt (get "ext"), hrep := repOf (get "hr"), nrep := repOf (get "nr"),
                     h := parseCps (get "hay"), n := parseCps (get "needle"), nn := get "nn" = "1" }
  let mut issues : List String := []
  for part in (get "res").splitOn "|" do
    match part.splitOn ";" with
    | [an, sres, ires, pk, hist] =>
      match algoOfName an with
      | none => issues := issues ++ [s!"bad-algo {an}"]
      | some algo =>
        let ir := parseImpl ires
        let model := algo.run c.cfg c.ext c.hrep c.nrep c.h c.n
        for (p, t) in oracle c algo sres ir (pk = "1") hist do
          issues := issues ++ [s!"ORACLE {p} {an}: {t}"]
        if ir.panic.isNone && showRes model ≠ ires then
          issues := issues ++ [s!"DIFF {an}: model {showRes model} impl {ires}"]
        -- the code-level model of the compressed matrix (generated cell functions, one score row, two-bit back
        -- pointers, traceback), started on arbitrary prior content, against the implementation
        if algo == .fuzzy && ir.panic.isNone && !(c.hrep == .ascii && c.nrep == .unicode) then
          if let some (st, e) := matrixWindow c then
            let cols := windowCols c.cfg c.ext c.hrep c.h st e
            let w := (e - st) + 1 - c.n.length
            let salt := c.h.length + 3 * c.n.length
            let code := OptImpl.optimalImpl c.cfg cols c.n st (junkCur w salt) (junkCells (w * c.n.length) salt)
            if showRes code ≠ ires then
              issues := issues ++ [s!"DIFF {an}: compressed-matrix model {showRes code} impl {ires} (window {st}..{e})"]
            -- what the real matcher left in its scratch memory (row offsets, last score row, back-pointer cells), for the
            -- fresh, the used and the poisoned matcher, against the code-level model started on junk
            let mx := get "mx"
            if mx ≠ "" then
              let want := (OptImpl.matrixState c.cfg cols c.n st (junkCur w salt) (junkCells (w * c.n.length) salt)).map matrixDigest
              let got := if mx = "-" then [] else mx.splitOn ","
              match want with
              | none => if !got.isEmpty then issues := issues ++ [s!"DIFF {an}: the implementation built a matrix ({mx}) where the model's setup finds no match"]
              | some d =>
                if got.isEmpty || got.any (· ≠ d) then
                  issues := issues ++ [s!"DIFF {an}: internal state of the compressed matrix (digest:rows:cells): model {d} impl {mx} (window {st}..{e})"]
    | _ => issues := issues ++ ["bad-res-field"]
  -- C04: prefix preference never lowers a score and raises it by at most the prefix bonus
  match (get "ppo").splitOn "/" with
  | [a, b] =>
    if c.nn then
      match a.toNat?, b.toNat? with
      | some off, some on =>
        if on < off || on > off + Gen.MAX_PREFIX_BONUS then
          -- which path of the matcher produced the score (model's view)
          let path : String :=
            if c.n.length = c.h.length then "exact-length"
            else if c.n.length = 1 then "one-character"
            else match c.hrep with
              | .ascii => match prefilterAscii c.cfg c.h c.n false with
                | some (st, _, e) => if c.n.length = e - st then "contiguous" else if slabFits 1 (e - st) c.n.length then "matrix" else "greedy-fallback"
                | none => "none"
              | .unicode => match prefilterNonAscii c.cfg c.h c.n false with
                | some (st, e) => if c.n.length = e - st then "contiguous" else if slabFits 4 (e - st) c.n.length then "matrix" else "greedy-fallback"
                | none => "none"
          issues := issues ++ [s!"ORACLE C04 fuzzy: prefix preference changes the score from {off} to {on} (must not lower it nor raise it by more than {Gen.MAX_PREFIX_BONUS}) on the {path} path"]
      | none, none => pure ()
      | _, _ => issues := issues ++ [s!"ORACLE C01 fuzzy: the decision depends on prefer_prefix: {a} vs {b}"]
  | _ => pure ()
  if issues.isEmpty then "ok" else " ## ".intercalate issues

/-- `X cs= h= n= slab= views=off:len:align,…` — the five views the real slab handed out -/
def xLine (ws : List String) : String := Id.run do
  let get := fun k => (field ws k).getD ""
  let cs := (get "cs").toNat?.getD 0
  let h := (get "h").toNat?.getD 0
  let n := (get "n").toNat?.getD 0
  let slab := (get "slab").toNat?.getD 0
  let views : List (Nat × Nat × Nat) := ((get "views").splitOn ",").filterMap fun v =>
    match v.splitOn ":" with
    | [o, l, a] => some (o.toNat?.getD 0, l.toNat?.getD 0, a.toNat?.getD 0)
    | _ => none
  let mut issues : List String := []
  -- oracle on the implementation: inside the slab, aligned, pairwise disjoint
  let mut prevEnd := 0
  for (o, l, a) in views do
    if o + l > slab then issues := issues ++ [s!"ORACLE C10 view [{o},{o + l}) exceeds the slab of {slab} bytes (h={h} n={n} cs={cs})"]
    if a ≠ 0 && o % a ≠ 0 then issues := issues ++ [s!"ORACLE C10 view offset {o} not aligned to {a}"]
    if o < prevEnd then issues := issues ++ [s!"ORACLE C10 view at {o} overlaps the previous one ending at {prevEnd}"]
    prevEnd := o + l
  -- correspondence with the generated layout
  let (offs, _) := layoutOffsets cs h n
  let lens := [Gen.viewCount_haystack h n * Gen.elemSize_haystack cs, Gen.viewCount_bonus h n * Gen.elemSize_bonus cs,
               Gen.viewCount_rows h n * Gen.elemSize_rows cs, Gen.viewCount_score h n * Gen.elemSize_score cs,
               Gen.viewCount_matrix h n * Gen.elemSize_matrix cs]
  if slab ≠ Gen.slabSize then issues := issues ++ [s!"DIFF slab size: model {Gen.slabSize} impl {slab}"]
  if views.map (·.1) ≠ offs || views.map (·.2.1) ≠ lens then
    issues := issues ++ [s!"DIFF layout: model offsets {offs} lengths {lens}, impl {views}"]
  if !slabFits cs h n then issues := issues ++ [s!"DIFF alloc guard: model says no matrix for h={h} n={n} cs={cs} but the slab handed one out"]
  if issues.isEmpty then "ok" else " ## ".intercalate issues

end NucleoVerif.Driver
