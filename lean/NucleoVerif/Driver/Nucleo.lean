import NucleoVerif.Model.Nucleo
import NucleoVerif.Driver.Util
/-! `H` lines: histories on a real `Nucleo` replayed on the protocol model, and the clauses of
C06 / C07 / C12 / C13 / C19 / C20 evaluated on the implementation's observations. -/
namespace NucleoVerif.Driver
open NucleoVerif NucleoVerif.Nu

structure HEnv where
  scoreTbl : List (Nat × Nat × Nat)     -- (pattern, item, score)
  lenTbl : List (Nat × Nat)
  emptyPats : List Nat
  canon : List (Nat × Nat) := []

def HEnv.score (e : HEnv) (p : Nat) (it : Item) : Option Nat :=
  if e.emptyPats.contains p then some 0
  else (e.scoreTbl.find? (fun t => t.1 == p && t.2.1 == it)).map (·.2.2)
def HEnv.canonId (e : HEnv) (p : Nat) : Nat := ((e.canon.find? (·.1 == p)).map (·.2)).getD p
def HEnv.len (e : HEnv) (it : Item) : Nat := ((e.lenTbl.find? (·.1 == it)).map (·.2)).getD 0

structure HState where
  n : Nucleo
  streams : List (List (Option Item))      -- stream id ↦ slots
  writers : List (Nat × Nat × Nat × Nat)   -- writer id, stream, index, value
  patIds : Nat                              -- last pattern id
  lastSnap : String
  issues : List String
  notifyDebt : Bool                         -- a tick returned `running` and no notify has been seen since
  colStatus : List PStatus := []
  debtHold : Nat := 0                       -- hold mode of the tick that reported `running`
  midCount : Nat := 0                       -- value of the reservation counter when that run took its snapshot
  midK : Option Nat := none                 -- the pending run is parked at its k-th scored item
  parkedResult : Option (Worker × Bool) := none   -- a run that already executed and is parked in front of releasing the lock
  snapVals : List Nat := []                 -- the item values the implementation's snapshot lists (kept while its match list is unchanged)
  snapMatches : String := ""
  clearedAt : Nat := 0                      -- the stream created by the last `restart(true)`

def kindOfNat (n : Nat) : AtomKind :=
  match n with | 0 => .fuzzy | 1 => .substring | 2 => .prefix | 3 => .postfix | _ => .exact

def getStream (st : HState) (s : Nat) : List (Option Item) := st.streams.getD s []
def setStream (st : HState) (s : Nat) (l : List (Option Item)) : HState :=
  { st with streams := (st.streams ++ List.replicate (s + 1 - st.streams.length) []).set s l }

def obsNow (st : HState) : Obs :=
  let str := getStream st st.n.worker.stream
  let look : Nat → Option Item := fun i => (str.getD i none)
  let flag := st.n.cancelFlag
  match st.midK with
  | none =>
    { seen0 := look, seen1 := look, count := str.length, inFlightOrder := id,
      sawCancel := fun _ => flag, sortCanceled := flag, shouldNotify := st.n.shouldNotify }
  | some k =>
    -- parked in front of the cancel check of its k-th published new item / at the body of its k-th match
    { seen0 := look, seen1 := look, count := st.midCount, inFlightOrder := id,
      sawCancel := fun pos => flag && pos + 1 ≥ k, sawCancelRescore := fun pos => flag && pos ≥ k,
      sortCanceled := flag, shouldNotify := st.n.shouldNotify }

/-- the parked run is let go: it executes now (or only releases the lock if it already ran) -/
def execPending (e : HEnv) (st : HState) : HState × Nat :=
  match st.n.pending with
  | none => (st, 0)
  | some p =>
    match st.parkedResult with
    | some r => ({ st with n := { st.n with worker := r.1, pending := none }, parkedResult := none }, 0)
    | none =>
      let (w, notified) := st.n.worker.run e.score e.len p.status p.cleared (e.emptyPats.contains st.n.worker.pattern) (obsNow st)
      ({ st with n := { st.n with worker := w, pending := none }, midK := none }, if notified then 1 else 0)

def showSnap (e : HEnv) (s : Snapshot) : String :=
  let ms := s.hits.map (fun m => s!"{m.score}.{m.idx}")
  s!"{s.itemCount}/{e.canonId s.pattern}/{if ms.isEmpty then "-" else ",".intercalate ms}"

def curCount (st : HState) : Nat := (getStream st st.n.cur).length

/-- the run in flight, executed now with what it can observe now (or, if it already ran and is only
    parked in front of releasing the lock, its stored result) -/
def runNow (e : HEnv) (st : HState) (w : Worker) : Worker × Bool :=
  match st.parkedResult with
  | some r => r
  | none =>
    match st.n.pending with
    | some p => w.run e.score e.len p.status p.cleared (e.emptyPats.contains w.pattern) (obsNow st)
    | none => (w, false)

/-- `Nucleo::tick` as the harness arranges the run's timing (see `nucleo_hist.rs`): the model's `tick`
    with the oracle filled in.  `hold = 1`: the first run spawned by this tick parks before doing
    anything; `hold = 2`: it parks after it has done everything (including reading `should_notify`) but
    before it releases the worker lock.  Returns the notify calls made by runs during the event. -/
def tickEvent (e : HEnv) (st : HState) (hold : Nat) (midK : Nat := 0) : HState × TickStatus × Nat := Id.run do
  let canceled := st.n.status ≠ .unchanged || st.n.state.canceled
  let count := curCount st
  -- run in flight when the tick begins (parked at its start or at its end)
  let hadPending := st.n.pending.isSome
  let stC : HState := if canceled then { st with n := { st.n with cancelFlag := true, shouldNotify := false } } else { st with n := { st.n with shouldNotify := false } }
  let r0 := runNow e stC st.n.worker
  let joins0 := hadPending && canceled            -- a non-cancelling tick times out on a parked run
  let nf0 := if joins0 && st.parkedResult.isNone && r0.2 then 1 else 0
  -- the run spawned by the first tick_inner of a cancelling tick
  let mut nf1 := 0
  let mut run1 : Worker → Worker := id
  let mut lock2 := false
  let mut parked1 : Option (Worker × Bool) := none
  if canceled then
    -- state after the first tick_inner, to know what the spawned run sees
    let n0 := ({ stC.n with status := .unchanged }).joinRun (fun _ => r0.1)
    let r1 := tickInnerLocked n0 true st.n.status count
    let stMid : HState := { stC with n := { r1.1 with state := .fresh }, parkedResult := none, midK := none }
    if hold ≠ 1 ∧ hold ≠ 3 then
      let rr := runNow e stMid stMid.n.worker
      nf1 := if rr.2 then 1 else 0
      if hold = 2 then parked1 := some rr
      else
        run1 := fun _ => rr.1
        lock2 := true
  let o : TickOracle := { count1 := count, count2 := count, lock1 := false, lock2 := lock2, run0 := fun _ => r0.1, run1 := run1 }
  let (n', ts) := st.n.tick o
  let mut s := { st with n := n', midK := if joins0 then none else st.midK,
                         parkedResult := if joins0 then parked1 else (if hadPending then st.parkedResult else parked1),
                         colStatus := if canceled then st.colStatus.map (fun _ => PStatus.unchanged) else st.colStatus }
  -- a run spawned by the last tick_inner and not held runs to completion right after the tick returns;
  -- with hold = 2 it runs now but keeps the lock
  let mut nf2 := 0
  let spawnedByLast := s.n.pending.isSome && !(hadPending && !canceled) && (if canceled then lock2 else true)
  if spawnedByLast then
    if hold = 0 then
      let rr := runNow e s s.n.worker
      nf2 := if rr.2 then 1 else 0
      s := { s with n := { s.n with worker := rr.1, pending := none } }
    else if hold = 2 then
      let rr := runNow e s s.n.worker
      nf2 := if rr.2 then 1 else 0
      s := { s with parkedResult := some rr }
  -- hold = 3: the run spawned by this tick is parked at its k-th scored item
  if hold = 3 && s.n.pending.isSome && !(hadPending && !canceled) then
    s := { s with midK := some midK, midCount := (getStream s s.n.worker.stream).length }
  return (s, ts, nf0 + nf1 + nf2)

def liveHandles (st : HState) : Nat := (st.n.injectors.filter (fun p => p.2 = st.n.cur)).length

/-- clauses about a snapshot dump `count/pid/matches/okflags/values`, evaluated on the implementation -/
def snapOracle (e : HEnv) (st : HState) (snap : String) : List String := Id.run do
  let mut bad : List String := []
  match snap.splitOn "/" with
  | [cnt, pid, ms, oks, vals, _] =>
    let cnt := cnt.toNat?.getD 0
    let pid := pid.toNat?.getD 0
    let ms : List (Nat × Nat) := if ms = "-" then [] else (ms.splitOn ",").filterMap fun m =>
      match m.splitOn "." with
      | [a, b] => some (a.toNat?.getD 0, b.toNat?.getD 0)
      | _ => none
    let vals : List (Option Nat) := if vals = "-" then [] else (vals.splitOn ",").map (·.toNat?)
    if oks ≠ "-" && oks.any (· == '0') then bad := bad ++ [s!"C06 a match of the snapshot does not refer to a fully initialised item (flags {oks})"]
    let idxs := ms.map (·.2)
    if idxs.eraseDups.length ≠ idxs.length then bad := bad ++ [s!"C06 an item appears twice in the snapshot: {idxs}"]
    -- the stream the snapshot refers to (model's view; the values must belong to it)
    let str := getStream st st.n.snapshot.stream
    for ((sc, idx), v) in ms.zip vals do
      match v with
      | none => bad := bad ++ [s!"C06 match idx {idx} is not readable"]
      | some v =>
        if str.getD idx none ≠ some v then
          bad := bad ++ [s!"C12 snapshot match idx {idx} holds item {v}, which is not item {idx} of the snapshot's stream"]
        if e.score pid v ≠ some sc then
          bad := bad ++ [s!"C06 match of item {v} has score {sc}, the snapshot's pattern {pid} gives {e.score pid v}"]
    -- order
    let keyed := ms.zip vals
    let sortedOk : Bool := (keyed.zip (keyed.drop 1)).all fun (a, b) =>
      if e.emptyPats.contains pid then a.1.2 < b.1.2
      else
        let la := e.len (a.2.getD 0); let lb := e.len (b.2.getD 0)
        a.1.1 > b.1.1 || (a.1.1 = b.1.1 && (la < lb || (la = lb && a.1.2 < b.1.2)))
    if !sortedOk then bad := bad ++ [s!"C06 matches are not ordered by (score desc, length asc, index asc): {ms}"]
    -- the matches are the matching items among `cnt` processed (published) items
    let published := (str.zipIdx.filterMap fun (x, i) => x.map (fun v => (i, v)))
    let nonMatchingOutside := (published.filter fun (i, v) => !idxs.contains i && (e.score pid v).isNone).length
    let matchingOutside := (published.filter fun (i, v) => !idxs.contains i && (e.score pid v).isSome).length
    if cnt < ms.length || cnt - ms.length > nonMatchingOutside + matchingOutside then
      bad := bad ++ [s!"C06 item count {cnt} with {ms.length} matches, but only {published.length} items are published"]
    -- if every published item is counted, every matching one must be listed
    if cnt = published.length && matchingOutside > 0 then
      bad := bad ++ [s!"C06 item count {cnt} covers all published items but {matchingOutside} matching item(s) are missing from the matches"]
  | _ => bad := bad ++ ["bad-snap"]
  return bad

def hEvent (e : HEnv) (st : HState) (ev : String) : HState := Id.run do
  if ev = "publishall" then
    let mut s := st
    for (_, str, idx, v) in st.writers do
      s := setStream s str ((getStream s str).set idx (some v))
    -- the writer threads' injector clones are gone
    return { s with writers := [], n := { s.n with injectors := s.n.injectors.filter (fun p => p.1 < 1000) } }
  let parts := ev.splitOn "|"
  let head := parts.headD ""
  let fld := fun (k : String) => (parts.findSome? fun p => if p.startsWith (k ++ "=") then some (p.drop (k.length + 1)).toString else none)
  let ai := (fld "ai").bind (·.toNat?)
  let nf := ((fld "nf").bind (·.toNat?)).getD 0
  let snap := fld "snap"
  let (cmd, ret) := match head.splitOn "=" with
    | [c, r] => (c, r)
    | [c] => (c, "")
    | _ => (head, "")
  let a := cmd.splitOn ":"
  let mut s := st
  let mut issues : List String := []
  let mut expectNf : Option Nat := none
  let num := fun (k : Nat) => ((a.getD k "").toNat?).getD 0
  match a.headD "" with
  | "inj" => s := { s with n := s.n.addInjector (num 1) }; expectNf := some 0
  | "clone" => s := { s with n := s.n.cloneInjector (num 1) (num 2) }; expectNf := some 0
  | "dropinj" => s := { s with n := s.n.dropInjector (num 1) }; expectNf := some 0
  | "push" =>
    let str := getStream s s.n.cur
    if ret.toNat? ≠ some str.length then issues := issues ++ [s!"ORACLE C08 push returned {ret}, next free index is {str.length}"]
    s := setStream s s.n.cur (str ++ [some (num 2)]); expectNf := some 1
  | "oldpush" =>
    let sid := ((s.n.injectors.find? (·.1 == num 1)).map (·.2)).getD 0
    s := setStream s sid (getStream s sid ++ [some (num 2)]); expectNf := some 1
  | "extend" =>
    let vals := if a.getD 2 "" = "-" then [] else ((a.getD 2 "").splitOn ".").filterMap (·.toNat?)
    let str := getStream s s.n.cur
    s := setStream s s.n.cur (str ++ vals.map some); expectNf := some 1
  | "oldextend" =>
    let vals := if a.getD 2 "" = "-" then [] else ((a.getD 2 "").splitOn ".").filterMap (·.toNat?)
    let sid := ((s.n.injectors.find? (·.1 == num 1)).map (·.2)).getD 0
    s := setStream s sid (getStream s sid ++ vals.map some); expectNf := some 1
  | "reserve" =>
    let str := getStream s s.n.cur
    s := setStream s s.n.cur (str ++ [none])
    s := { s with writers := s.writers ++ [(num 3, s.n.cur, str.length, num 2)],
                  n := { s.n with injectors := s.n.injectors ++ [(1000 + num 3, s.n.cur)] } }
    expectNf := some 0
  | "publish" =>
    match s.writers.find? (·.1 == num 1) with
    | some (w, str, idx, v) =>
      s := setStream s str ((getStream s str).set idx (some v))
      s := { s with writers := s.writers.filter (·.1 != w), n := { s.n with injectors := s.n.injectors.filter (·.1 != 1000 + w) } }
      if ret.toNat? ≠ some idx then issues := issues ++ [s!"ORACLE C08 paused push returned index {ret}, it had reserved {idx}"]
    | none => issues := issues ++ ["bad-publish"]
    expectNf := some 1
  | "reparse" =>
    let col := num 1
    let append := num 3 = 1
    -- the column's last atom before the edit (kind.negative.lastchar) decides Update vs Rescore
    let lastOk : Bool := match (a.getD 4 "none").splitOn "." with
      | [k, neg, ch] =>
        lastAtomAllowsUpdate { negative := neg = "1", kind := kindOfNat (k.toNat?.getD 0), needleRep := .unicode,
                               needle := [hexVal! ch], ignoreCase := false, normalize := false }
      | [k, neg, ch, oldKeeps, newKeeps] =>
        -- the last atom must also keep normalizing haystack characters if it did before the edit
        lastAtomAllowsUpdate { negative := neg = "1", kind := kindOfNat (k.toNat?.getD 0), needleRep := .unicode,
                               needle := [hexVal! ch], ignoreCase := false, normalize := false } &&
          !(oldKeeps = "1" && newKeeps = "0")
      | _ => true
    let old := s.colStatus.getD col .unchanged
    let new : PStatus := if append && old != .rescore && lastOk then .update else .rescore
    let cs := (s.colStatus ++ List.replicate (col + 1 - s.colStatus.length) PStatus.unchanged).set col new
    let overall := cs.foldl (fun acc x => if x.rank > acc.rank then x else acc) PStatus.unchanged
    if ret.toNat? ≠ some overall.rank then issues := issues ++ [s!"DIFF pattern status after reparse: model {overall.rank} impl {ret}"]
    s := { s with n := s.n.reparse (num 2) overall, patIds := num 2, colStatus := cs }
    expectNf := some 0
  | "tick" =>
    let hold := num 1
    let before := s.lastSnap
    s := { s with notifyDebt := false }
    let (s', ts, mnf) := tickEvent e s hold (num 4)
    s := s'
    let want := s!"{if ts.changed then 1 else 0}{if ts.running then 1 else 0}"
    if ret ≠ want then issues := issues ++ [s!"DIFF tick status: model {want} impl {ret}"]
    expectNf := some mnf
    -- C19
    match snap with
    | some sn =>
      let core := "/".intercalate ((sn.splitOn "/").take 3)
      if ret.startsWith "0" && before ≠ "" && core ≠ before then
        issues := issues ++ [s!"ORACLE C19 tick reported changed=false but the snapshot changed from {before} to {core}"]
      if ret.endsWith "0" then
        let cnt := ((sn.splitOn "/").headD "").toNat?.getD 0
        let pid := (((sn.splitOn "/").getD 1 "").toNat?).getD 0
        let pubBefore := ((getStream st st.n.cur).filter Option.isSome).length
        if cnt < pubBefore then
          issues := issues ++ [s!"ORACLE C19 tick reported running=false but the snapshot counts {cnt} items while {pubBefore} pushes of the current stream had completed"]
        if pid ≠ e.canonId st.patIds then
          issues := issues ++ [s!"ORACLE C19 tick reported running=false but the snapshot's pattern is {pid}, the current pattern is {st.patIds}"]
      -- C13: a tick that reports `running` must be followed by a notify call once the run has finished
      -- (unless the caller ticks or restarts again first)
      if ret.endsWith "1" then
        let parkedNow := num 3 = 1
        if !parkedNow && nf = 0 then
          issues := issues ++ ["ORACLE C13 tick reported running=true, the background run finished, and notify was never called"]
        else if parkedNow then s := { s with notifyDebt := true, debtHold := if st.n.pending.isSome then s.debtHold else hold }
    | none => pure ()
  | "restart" =>
    let clear := num 1 = 1
    let before := s.lastSnap
    s := { s with n := s.n.restart clear, notifyDebt := false }
    s := setStream s s.n.cur []
    if clear then s := { s with clearedAt := s.n.cur }
    expectNf := some 0
    match snap with
    | some sn =>
      let core := "/".intercalate ((sn.splitOn "/").take 3)
      if clear && !(core.startsWith "0/" && core.endsWith "/-") then issues := issues ++ [s!"ORACLE C12 restart(true) left a non-empty snapshot {core}"]
      if clear && (sn.splitOn "/").getD 5 "-" ≠ "-" then
        issues := issues ++ [s!"ORACLE C12 restart(true) left a snapshot through which items can still be read by index: {(sn.splitOn "/").getD 5 "-"}"]
      if !clear && before ≠ "" && core ≠ before then issues := issues ++ [s!"ORACLE C12 restart(false) changed the snapshot from {before} to {core}"]
    | none => pure ()
  | "release" =>
    let (s', mnf) := execPending e s
    s := s'
    expectNf := some mnf
    if s.notifyDebt && nf = 0 then
      issues := issues ++ [s!"ORACLE C13 tick reported running=true, the background run finished afterwards, and notify was never called ({if s.debtHold = 2 then "the run had read should_notify before the tick re-armed it" else "the run read should_notify after the tick had returned"})"]
    s := { s with notifyDebt := false }
  | _ => issues := issues ++ [s!"bad-event {head}"]
  -- notify accounting (C13): the model predicts every notify call
  -- C13, last sentence: a push / extend (also one that was paused inside its fill callback) calls notify after its items
  -- became visible; `nf` counts the calls from before the operation (or the writer's release) to its return
  if (["push", "oldpush", "publish"].contains (a.headD "") || (["extend", "oldextend"].contains (a.headD "") && a.getD 2 "" ≠ "-")) && nf = 0 then
    issues := issues ++ [s!"ORACLE C13 {cmd} returned without a notify call after its item(s) became visible"]
  if let some x := expectNf then
    if nf ≠ x then issues := issues ++ [s!"DIFF notify calls during {cmd}: model {x} impl {nf}"]
  -- the values the snapshot lists now (it only changes in tick / restart, whose events carry a dump)
  if let some sn := snap then
    match sn.splitOn "/" with
    | [cntS, _, ms, _, vals, probe] =>
      -- C12: whatever the snapshot's item handle reaches belongs to one stream, and not to one abandoned by a clearing restart
      let pvals : List Nat := if probe = "-" then [] else (probe.splitOn ",").filterMap fun x => ((x.splitOn ".").getD 1 "").toNat?
      let streamOf : Nat → Option Nat := fun v => (List.range s.streams.length).find? fun sid => (getStream s sid).contains (some v)
      let sids := (pvals.filterMap streamOf).eraseDups
      if sids.length > 1 then issues := issues ++ [s!"ORACLE C12 one snapshot reaches items of the streams {sids} (after {cmd})"]
      -- ... and its item count is a count of items of that stream (not a total carried over from the stream before a restart)
      if let [sid] := sids then
        if let some cnt := cntS.toNat? then
          if cnt > (getStream s sid).length then
            issues := issues ++ [s!"ORACLE C12 the snapshot reaches stream {sid}, which only ever received {(getStream s sid).length} items, but counts {cnt} items (after {cmd})"]
      for sid in sids do
        if sid < s.clearedAt then
          issues := issues ++ [s!"ORACLE C12 the snapshot still reaches items of stream {sid}, abandoned by a clearing restart (current stream since then: {s.clearedAt}) (after {cmd})"]
      let parsed : List (Option Nat) := if vals = "-" then [] else (vals.splitOn ",").map (·.toNat?)
      -- an unchanged match list still lists the same items, readable or not
      let vs : List Nat := if ms = s.snapMatches && parsed.length = s.snapVals.length then (parsed.zip s.snapVals).map (fun (a, b) => a.getD b)
                           else parsed.filterMap id
      s := { s with snapVals := vs, snapMatches := ms }
    | _ => pure ()
  -- C11: which items have been destroyed so far
  if let some dr := fld "dr" then
    let entries := if dr = "-" then [] else dr.splitOn "."
    for x in entries do
      if (x.splitOn "x").length > 1 then issues := issues ++ [s!"ORACLE C11 item {x} was dropped more than once (after {cmd})"]
    let implDropped := (entries.filterMap (fun x => ((x.splitOn "x").headD "").toNat?)).mergeSort
    let curVals := (getStream s s.n.cur).filterMap id
    for v in implDropped do
      if curVals.contains v then issues := issues ++ [s!"ORACLE C11 item {v} of the current stream was dropped while the matcher is alive (after {cmd})"]
      if s.snapVals.contains v then issues := issues ++ [s!"ORACLE C11 item {v} was dropped although the snapshot still lists it: the snapshot is a handle that reaches its stream (after {cmd})"]
    -- model: a stream's items are destroyed exactly when no handle reaches the stream any more
    let modelDropped := ((List.range s.n.nextStream).filter (fun sid => s.n.strongCount sid = 0)).foldl
      (fun acc sid => acc ++ (getStream s sid).filterMap id) []
    if modelDropped.mergeSort ≠ implDropped then
      issues := issues ++ [s!"DIFF destroyed items after {cmd}: model {modelDropped.mergeSort} impl {implDropped}"]
  -- C20
  if let some v := ai then
    if v ≠ liveHandles s then issues := issues ++ [s!"ORACLE C20 active_injectors() = {v} but {liveHandles s} injector handles of the current stream are alive (after {cmd})"]
    if v ≠ s.n.activeInjectors then issues := issues ++ [s!"DIFF active_injectors: model {s.n.activeInjectors} impl {v}"]
  -- snapshot
  if let some sn := snap then
    let core := "/".intercalate ((sn.splitOn "/").take 3)
    for b in snapOracle e s sn do
      issues := issues ++ ["ORACLE " ++ b ++ s!" (after {cmd})"]
    if core ≠ showSnap e s.n.snapshot then issues := issues ++ [s!"DIFF snapshot after {cmd}: model {showSnap e s.n.snapshot} impl {core}"]
    s := { s with lastSnap := core }
  return { s with issues := s.issues ++ issues }

def hLine (ws : List String) : String := Id.run do
  let get := fun k => (field ws k).getD ""
  let triple : String → List (Nat × Nat × Nat) := fun t => if t = "-" then [] else (t.splitOn ",").filterMap fun x =>
    match x.splitOn ":" with
    | [a, b, c] => some (a.toNat?.getD 0, b.toNat?.getD 0, c.toNat?.getD 0)
    | _ => none
  let pair : String → List (Nat × Nat) := fun t => if t = "-" then [] else (t.splitOn ",").filterMap fun x =>
    match x.splitOn ":" with
    | [a, b] => some (a.toNat?.getD 0, b.toNat?.getD 0)
    | _ => none
  let pats := triple (get "pats")
  let e : HEnv := { scoreTbl := triple (get "scores"), lenTbl := pair (get "items"),
                    emptyPats := (pats.filter (·.2.1 = 1)).map (·.1), canon := pats.map (fun t => (t.1, t.2.2)) }
  let st0 : HState := { n := Nucleo.new, streams := [[]], writers := [], patIds := 0, lastSnap := "", issues := [], notifyDebt := false }
  -- ev field may contain '=' and ';' only as separators we produced
  let evs := (get "ev").splitOn ";"
  let st := evs.foldl (hEvent e) st0
  let mut issues := st.issues
  -- C09: the caller contract of `get_unchecked` (only entries observed as published)
  match (get "unpub").toNat? with
  | some k => issues := issues ++ [s!"ORACLE C09 the worker called get_unchecked({k}) although no writer had reached the publishing store of entry {k}: its value and columns are read without a happens-before edge from their initialisation"]
  | none => pure ()
  -- C07: quiescent snapshot = from-scratch result
  if st.lastSnap ≠ "" then
    let parts := st.lastSnap.splitOn "/"
    let fresh := (get "fresh").splitOn "/"
    if parts.headD "" ≠ fresh.headD "" || parts.getD 2 "" ≠ fresh.getD 1 "" then
      issues := issues ++ [s!"ORACLE C07 quiescent snapshot {st.lastSnap} differs from a fresh matcher's result {get "fresh"}"]
  -- C11: after the matcher, the snapshot and all injectors are gone every item was destroyed exactly once
  let all := get "alldropped"
  if all ≠ "" then
    let entries := if all = "-" then [] else all.splitOn "."
    let ids := (pair (get "items")).map (·.1)
    for v in ids do
      if !entries.contains (toString v) then
        issues := issues ++ [s!"ORACLE C11 after dropping the matcher and all handles, item {v} was dropped {(entries.find? (fun x => x.startsWith (toString v ++ "x"))).getD "0 times"}"]
  if issues.isEmpty then "ok" else " ## ".intercalate issues

end NucleoVerif.Driver
