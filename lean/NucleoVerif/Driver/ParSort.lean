import NucleoVerif.Model.ParSort
import NucleoVerif.Driver.Util
/-! `Q` lines (C18): the real `par_quicksort` against the model, and the property's clauses on the
implementation's output. -/
namespace NucleoVerif.Driver
open NucleoVerif

def parseDotArr (s : String) : Array Nat := if s = "-" then #[] else ((s.splitOn ".").filterMap (·.toNat?)).toArray

/-- counting sort signature of a multiset of naturals (for the permutation clause) -/
def sortedCopy (a : Array Nat) : List Nat := a.toList.mergeSort (fun x y => decide (x ≤ y))

def qLine (ws : List String) : String := Id.run do
  let get := fun k => (field ws k).getD ""
  let shift := (get "shift").toNat?.getD 0
  let cancel : Option Nat := (get "cancel").toNat?
  let data := parseDotArr (get "data")
  let out := parseDotArr (get "out")
  let ret : Bool := get "ret" = "1"
  let lt : Nat → Nat → Bool := fun a b => decide ((a >>> shift) < (b >>> shift))
  let mut issues : List String := []
  -- clauses on the implementation's output
  if sortedCopy data ≠ sortedCopy out then issues := issues ++ ["ORACLE C18 the slice is not a permutation of its input"]
  if ret && get "raised" = "0" then issues := issues ++ ["ORACLE C18 reported 'cancelled' although the cancel flag was never raised"]
  if !ret then
    -- whatever happened to the flag: a sort that reports 'not cancelled' must have sorted
    let ok := (List.range (out.size - 1)).all fun i => !(lt out[i + 1]! out[i]!)
    if !ok then issues := issues ++ [s!"ORACLE C18 the sort reported 'not cancelled' but the slice is not in non-decreasing order under the comparison (flag raised: {get "raised"}, at comparison {get "cmpcancel"})"]
  if get "same" ≠ "1" then issues := issues ++ [s!"ORACLE C18 the result with {get "threads"} threads differs from the result with 1 thread"]
  -- model
  let cancelAt : Nat → Bool := match cancel with
    | some k => fun i => i ≥ k
    | none => fun _ => false
  let (m, mret) := PS.parQuicksort lt cancelAt data
  if m ≠ out || mret ≠ ret then
    let firstDiff := (List.range (min m.size out.size)).find? (fun i => m[i]! != out[i]!)
    issues := issues ++ [s!"DIFF model result differs (ret model {mret} impl {ret}, first differing position {firstDiff})"]
  if issues.isEmpty then "ok" else " ## ".intercalate issues

/-- `QC` lines: one private building block of the sort against its model, plus the block's own contract -/
def qcLine (ws : List String) : String := Id.run do
  let get := fun k => (field ws k).getD ""
  let which := (get "which").toNat?.getD 99
  let shift := (get "shift").toNat?.getD 0
  let arg := (get "arg").toNat?.getD 0
  let data := parseDotArr (get "data")
  let out := parseDotArr (get "out")
  let r := (get "r").toNat?.getD 0
  let b : Bool := get "b" = "1"
  let n := data.size
  let lt : Nat → Nat → Bool := fun a b => decide ((a >>> shift) < (b >>> shift))
  let sorted := fun (a : Array Nat) => (List.range (a.size - 1)).all fun i => !(lt (a.getD (i + 1) 0) (a.getD i 0))
  let mut issues : List String := []
  if sortedCopy data ≠ sortedCopy out then issues := issues ++ ["ORACLE C18 a building block of the sort lost or duplicated an element"]
  let start : PS.PArr data := ⟨data, Array.Perm.refl data⟩
  let name := ["insertion_sort", "partial_insertion_sort", "heapsort", "partition", "partition_equal", "break_patterns", "choose_pivot"].getD which "?"
  let (mr, mb, m) : Nat × Bool × Array Nat := match which with
    | 0 => let (_, s) := (PS.insertionSort lt 0 n).run start; (0, false, s.val)
    | 1 => let (x, s) := (PS.partialInsertionSort lt 0 n).run start; (0, x, s.val)
    | 2 => let (_, s) := (PS.heapsort lt 0 n).run start; (0, false, s.val)
    | 3 => let (x, s) := (PS.partition lt 0 n arg).run start; (x.1, x.2, s.val)
    | 4 => let (x, s) := (PS.partitionEqual lt 0 n arg).run start; (x, false, s.val)
    | 5 => let (_, s) := (PS.breakPatterns (a0 := data) 0 n).run start; (0, false, s.val)
    | _ => let (x, s) := (PS.choosePivot lt 0 n).run start; (x.1, x.2, s.val)
  if m ≠ out || mr ≠ r || mb ≠ b then
    let firstDiff := (List.range (min m.size out.size)).find? (fun i => m[i]! != out[i]!)
    issues := issues ++ [s!"DIFF {name}: model result differs (model {mr}/{mb} impl {r}/{b}, first differing position {firstDiff})"]
  -- the block's contract on the implementation's output
  match which with
  | 0 | 2 => if !sorted out then issues := issues ++ [s!"ORACLE C18 {name} left its slice not in non-decreasing order under the comparison"]
  | 1 => if b && !sorted out then issues := issues ++ ["ORACLE C18 partial_insertion_sort reported 'sorted' for a slice that is not in order"]
  | 3 =>
    let p := out.getD r 0
    if r ≥ n then issues := issues ++ ["ORACLE C18 partition returned a split point outside the slice"]
    else
      if (p >>> shift) ≠ ((data.getD arg 0) >>> shift) then issues := issues ++ ["ORACLE C18 partition did not place the pivot at the split point"]
      if !((List.range r).all fun i => lt (out.getD i 0) p) then issues := issues ++ ["ORACLE C18 partition left an element not smaller than the pivot in front of it"]
      if !((List.range (n - r - 1)).all fun i => !(lt (out.getD (r + 1 + i) 0) p)) then issues := issues ++ ["ORACLE C18 partition left an element smaller than the pivot behind it"]
  | 4 =>
    let p := data.getD arg 0
    if r > n || r = 0 then issues := issues ++ ["ORACLE C18 partition_equal returned a split point outside the slice"]
    else
      if !((List.range r).all fun i => !(lt p (out.getD i 0))) then issues := issues ++ ["ORACLE C18 partition_equal left an element greater than the pivot in the equal part"]
      if !((List.range (n - r)).all fun i => lt p (out.getD (r + i) 0)) then issues := issues ++ ["ORACLE C18 partition_equal left an element equal to the pivot in the greater part"]
  | 6 => if r ≥ n then issues := issues ++ ["ORACLE C18 choose_pivot returned an index outside the slice"]
  | _ => pure ()
  if issues.isEmpty then "ok" else " ## ".intercalate issues

end NucleoVerif.Driver
