import NucleoVerif.Model.ParSort
import NucleoVerif.Driver.Util
/-! `Q` lines (C18): the real `par_quicksort` against the model, and the property's clauses on the
implementation's output. -/
namespace NucleoVerif.Driver
open NucleoVerif

def parseDotArr (s : String) : Array Nat := if s = "-" then #[] else ((s.splitOn ".").filterMap (·.toNat?)).toArray

/-- counting sort signature of a multiset of naturals (for the permutation clause) -/
def sortedCopy (a : Array Nat) : List Nat := a.toList.mergeSort (fun x y => decide (x ≤ y))

def qLine (ws : List String) : String := Id.run do
  let get := fun k => (field ws k).getD ""
  let shift := (get "shift").toNat?.getD 0
  let cancel : Option Nat := (get "cancel").toNat?
  let data := parseDotArr (get "data")
  let out := parseDotArr (get "out")
  let ret : Bool := get "ret" = "1"
  let lt : Nat → Nat → Bool := fun a b => decide ((a >>> shift) < (b >>> shift))
  let mut issues : List String := []
  -- clauses on the implementation's output
  if sortedCopy data ≠ sortedCopy out then issues := issues ++ ["ORACLE C18 the slice is not a permutation of its input"]
  if cancel.isNone then
    if ret then issues := issues ++ ["ORACLE C18 reported 'cancelled' although the cancel flag was never raised"]
    let ok := (List.range (out.size - 1)).all fun i => !(lt out[i + 1]! out[i]!)
    if !ok then issues := issues ++ ["ORACLE C18 the slice is not in non-decreasing order under the comparison"]
  if get "same" ≠ "1" then issues := issues ++ [s!"ORACLE C18 the result with {get "threads"} threads differs from the result with 1 thread"]
  -- model
  let cancelAt : Nat → Bool := match cancel with
    | some k => fun i => i ≥ k
    | none => fun _ => false
  let (m, mret) := PS.parQuicksort lt cancelAt data
  if m ≠ out || mret ≠ ret then
    let firstDiff := (List.range (min m.size out.size)).find? (fun i => m[i]! != out[i]!)
    issues := issues ++ [s!"DIFF model result differs (ret model {mret} impl {ret}, first differing position {firstDiff})"]
  if issues.isEmpty then "ok" else " ## ".intercalate issues

end NucleoVerif.Driver
