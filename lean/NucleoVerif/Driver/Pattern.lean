import NucleoVerif.Model.Pattern
import NucleoVerif.Driver.Matcher
/-! `P` lines (C14: parsing) and `S` lines (C15: pattern scoring). -/
namespace NucleoVerif.Driver
open NucleoVerif

def parseDots (s : String) : List Nat := if s = "-" then [] else (s.splitOn ".").map hexVal!
def parseDotNats (s : String) : List Nat := if s = "-" then [] else (s.splitOn ".").filterMap (·.toNat?)

def caseOf (n : Nat) : CaseMatching := if n = 0 then .respect else if n = 1 then .ignore else .smart
def normOf (n : Nat) : Normalization := if n = 0 then .never else .smart
def kindOf (n : Nat) : AtomKind :=
  match n with | 0 => .fuzzy | 1 => .substring | 2 => .prefix | 3 => .postfix | _ => .exact
def kindId : AtomKind → Nat
  | .fuzzy => 0 | .substring => 1 | .prefix => 2 | .postfix => 3 | .exact => 4

def parseSegs (s : String) : Seg :=
  if s = "-" then fun c => c.map (fun _ => 1)
  else
    let tbl : List (List Nat × List Nat) := (s.splitOn ";").filterMap fun e =>
      match e.splitOn ":" with
      | [k, v] => some (parseDots k, parseDotNats v)
      | _ => none
    fun c => match tbl.find? (·.1 == c) with
      | some (_, v) => v
      | none => c.map (fun _ => 1)

def showAtom (a : Atom) : String :=
  let needle := if a.needle.isEmpty then "-" else ".".intercalate (a.needle.map toHex)
  s!"{kindId a.kind},{if a.negative then 1 else 0},{if a.needleRep == .ascii then "A" else "U"},{needle},{if a.ignoreCase then 1 else 0},{if a.normalize then 1 else 0}"

def showAtoms (as : List Atom) : String := if as.isEmpty then "-" else "|".intercalate (as.map showAtom)

def parseAtomStr (s : String) : Option Atom :=
  match s.splitOn "," with
  | [k, neg, rep, needle, ic, nz] =>
    some { kind := kindOf (k.toNat?.getD 0), negative := neg = "1", needleRep := if rep = "A" then .ascii else .unicode,
           needle := parseDots needle, ignoreCase := ic = "1", normalize := nz = "1" }
  | _ => none

def parseAtoms (s : String) : List Atom := if s = "-" then [] else (s.splitOn "|").filterMap parseAtomStr

/-- projection of a literal text the way the parser sees it (first code point of each cluster) -/
def projText (seg : Seg) (t : List Nat) : List Nat :=
  if t.all (· < 128) then t else (cutClusters t (seg t)).map projCluster

def pLine (ws : List String) : String := Id.run do
  let get := fun k => (field ws k).getD ""
  let case := caseOf ((get "case").toNat?.getD 0)
  let norm := normOf ((get "norm").toNat?.getD 0)
  let text := parseCps (get "text")
  let seg := parseSegs (get "segs")
  let mode := get "mode"
  let implAtoms := parseAtoms (get "atoms")
  let mut issues : List String := []
  let model := if mode.startsWith "new:" then newPattern seg text case norm (kindOf ((mode.drop 4).toString.toNat?.getD 0))
               else parsePattern seg text case norm
  if get "reparse" ≠ "same" then issues := issues ++ ["ORACLE C14 reparse on a used pattern object differs from a fresh parse"]
  -- clauses on the implementation's atoms
  for a in implAtoms do
    -- ignore-case needles are stored case-folded
    if case == .ignore && a.needle.any (fun c => toLower c ≠ c) then
      issues := issues ++ [s!"ORACLE C14 CaseMatching::Ignore needle {a.needle} is not case-folded"]
    if case == .ignore && !a.ignoreCase then issues := issues ++ ["ORACLE C14 CaseMatching::Ignore atom does not ignore case"]
    if case == .respect && a.ignoreCase then issues := issues ++ ["ORACLE C14 CaseMatching::Respect atom ignores case"]
    if case == .smart && a.ignoreCase ≠ !(a.needle.any isUpper) then
      issues := issues ++ [s!"ORACLE C14 smart case: ignore_case = {a.ignoreCase} but the needle {a.needle} has{if a.needle.any isUpper then "" else " no"} upper-case character"]
    if norm == .never && a.normalize then issues := issues ++ ["ORACLE C14 Normalization::Never atom normalizes"]
    if norm == .smart && a.normalize ≠ a.needle.all (fun c => Gen.normalizeLatin c = c) then
      issues := issues ++ [s!"ORACLE C14 smart normalization: normalize = {a.normalize} for needle {a.needle}"]
    if a.needle.isEmpty then issues := issues ++ ["ORACLE C14 atom with an empty needle was kept"]
    -- only an escaped U+0020 is unescaped, everything else is kept literally: any other whitespace can reach a needle only
    -- behind the backslash that kept the splitter from cutting there, and that backslash must still be in front of it
    -- (texts with a Prepend character are left out: it can swallow the backslash into its cluster)
    if !text.any (fun c => [0x600, 0x601, 0x602, 0x603, 0x604, 0x605, 0x6DD, 0x70F, 0x8E2, 0x110BD, 0x110CD].contains c) then
      let bad := (a.needle.zip (0 :: a.needle)).any fun (c, prev) => isWs c && c ≠ 32 && prev ≠ 92
      if bad then issues := issues ++ [s!"ORACLE C14 a whitespace character other than U+0020 in the needle {a.needle} lost its backslash (only an escaped space is unescaped, everything else is kept literally)"]
  -- literal round trip
  if mode = "lit" then
    let lit := parseCps (get "lit")
    let want := projText seg lit
    let want := if case == .ignore then want.map toLower else want
    match implAtoms with
    | [a] =>
      if a.kind != .fuzzy || a.negative || a.needle ≠ want then
        issues := issues ++ [s!"ORACLE C14 escaped form of literal {lit} parsed to kind {kindId a.kind} negative {a.negative} needle {a.needle}, expected one fuzzy atom {want}"]
    | _ => issues := issues ++ [s!"ORACLE C14 escaped form of literal {lit} parsed to {implAtoms.length} atoms"]
  if showAtoms model ≠ get "atoms" then issues := issues ++ [s!"DIFF model {showAtoms model} impl {get "atoms"}"]
  if issues.isEmpty then "ok" else " ## ".intercalate issues

def parseResDots (s : String) : Option Nat × List Nat :=
  match s.splitOn ":" with
  | [a, b] => (if a = "none" then none else a.toNat?, parseDotNats b)
  | _ => (none, [])

def sLine (ws : List String) : String := Id.run do
  let get := fun k => (field ws k).getD ""
  let cfgId := (get "cfg").toNat?.getD 0
  let pre := get "pre"
  -- the matcher's flags before the call are whatever an earlier case left behind
  let cfg := { cfgOfId cfgId with ignoreCase := pre.startsWith "1", normalize := (pre.drop 1).toString.startsWith "1" }
  let ext := parseExt (get "ext")
  let hrep := repOf (get "hr")
  let h := parseCps (get "hay")
  let atoms := parseAtoms (get "atoms")
  let mut issues : List String := []
  let (sres, ires) := match (get "res").splitOn "/" with
    | [a, b] => (parseResDots a, parseResDots b)
    | _ => ((none, []), (none, []))
  let each : List ((Option Nat × List Nat) × (Option Nat × List Nat)) :=
    if get "each" = "-" then [] else ((get "each").splitOn "|").map fun e =>
      match e.splitOn "/" with
      | [a, b] => (parseResDots a, parseResDots b)
      | _ => ((none, []), (none, []))
  -- oracle: conjunction / sum / indices in atom order, from the implementation's own per-atom results
  let allSome := each.all (fun e => e.2.1.isSome)
  let sum := each.foldl (fun acc e => acc + e.2.1.getD 0) 0
  let idxs := each.foldl (fun acc e => acc ++ e.2.2) []
  if each.length ≠ atoms.length then issues := issues ++ ["bad-each"]
  if sres.1 ≠ ires.1 then issues := issues ++ [s!"ORACLE C15 Pattern::score {sres.1} and Pattern::indices {ires.1} disagree"]
  if allSome then
    if sres.1 ≠ some sum then issues := issues ++ [s!"ORACLE C15 pattern score {sres.1} is not the sum {sum} of its atoms' scores"]
    if ires.2 ≠ idxs then issues := issues ++ [s!"ORACLE C15 pattern indices {ires.2} are not the atoms' indices in order {idxs}"]
  else if sres.1.isSome then issues := issues ++ [s!"ORACLE C15 pattern matched ({sres.1}) although an atom did not"]
  for (a, e) in atoms.zip each do
    if e.1.1 ≠ e.2.1 then issues := issues ++ [s!"ORACLE C15 Atom::score {e.1.1} and Atom::indices {e.2.1} disagree"]
    if a.negative && (e.2.1.getD 0 ≠ 0 || !e.2.2.isEmpty) then issues := issues ++ [s!"ORACLE C15 negated atom contributes score {e.2.1} indices {e.2.2}"]
  -- model: per atom and whole pattern
  for (a, e) in atoms.zip each do
    let m := a.eval cfg ext hrep h
    if m.map (·.1) ≠ e.2.1 || (m.map (·.2)).getD [] ≠ e.2.2 then
      issues := issues ++ [s!"DIFF atom {showAtom a}: model {showRes m} impl {e.2.1}:{e.2.2}"]
  let m := patternEval atoms cfg ext hrep h
  if m.map (·.1) ≠ sres.1 || (m.isSome && (m.map (·.2)).getD [] ≠ ires.2) then
    issues := issues ++ [s!"DIFF pattern: model {showRes m} impl {sres.1}:{ires.2}"]
  -- match_list: exactly the matching items, each once, stably sorted by descending score
  let items : List (Nat × Option Nat) :=
    if get "items" = "-" then [] else (((get "items").splitOn ",").map (fun s => s.toNat?)).zipIdx.map (fun p => (p.2, p.1))
  let want := matchList items
  let got : List (Nat × Nat) := if get "list" = "-" then [] else ((get "list").splitOn ",").filterMap fun e =>
    match e.splitOn "." with
    | [a, b] => some (a.toNat?.getD 0, b.toNat?.getD 0)
    | _ => none
  if want ≠ got then issues := issues ++ [s!"ORACLE C15 match_list returned {got}, expected {want} (matching items, stable, descending score)"]
  -- Atom::match_list of the first atom, same clause
  if get "aitems" ≠ "x" && get "aitems" ≠ "" then
    let aitems : List (Nat × Option Nat) :=
      if get "aitems" = "-" then [] else (((get "aitems").splitOn ",").map (fun s => s.toNat?)).zipIdx.map (fun p => (p.2, p.1))
    let awant := matchList aitems
    let agot : List (Nat × Nat) := if get "alist" = "-" then [] else ((get "alist").splitOn ",").filterMap fun e =>
      match e.splitOn "." with
      | [a, b] => some (a.toNat?.getD 0, b.toNat?.getD 0)
      | _ => none
    if awant ≠ agot then issues := issues ++ [s!"ORACLE C15 Atom::match_list returned {agot}, expected {awant} (matching items, stable, descending score)"]
  if issues.isEmpty then "ok" else " ## ".intercalate issues

/-- `N cfg= pre= k= ext= hr<c>= hay<c>= atoms<c>= col<c>= … multi=` — `MultiPattern::score` over `k` columns -/
def nLine (ws : List String) : String := Id.run do
  let get := fun k => (field ws k).getD ""
  let cfgId := (get "cfg").toNat?.getD 0
  let pre := get "pre"
  let cfg := { cfgOfId cfgId with ignoreCase := pre.startsWith "1", normalize := (pre.drop 1).toString.startsWith "1" }
  let ext := parseExt (get "ext")
  let k := (get "k").toNat?.getD 0
  let cols : List (List Atom × (Rep × List Nat) × Option Nat) := (List.range k).map fun c =>
    (parseAtoms (get s!"atoms{c}"), (repOf (get s!"hr{c}"), parseCps (get s!"hay{c}")), (parseResDots (get s!"col{c}")).1)
  let multi := (parseResDots (get "multi")).1
  let mut issues : List String := []
  -- oracle, on the implementation's own per-column results: conjunction across columns, scores summed
  let each := cols.map (·.2.2)
  let want : Option Nat := if each.all (·.isSome) then some (each.foldl (fun acc x => acc + x.getD 0) 0) else none
  if multi ≠ want then
    issues := issues ++ [s!"ORACLE C15 multi-column score {multi} but the columns' own patterns give {each} on their columns (conjunction / sum: {want}); patterns per column: {cols.map (fun c => c.1.length)} atoms"]
  -- model
  for (c, i) in cols.zipIdx do
    let m := patternEval c.1 cfg ext c.2.1.1 c.2.1.2
    if m.map (·.1) ≠ c.2.2 then issues := issues ++ [s!"DIFF column {i}: model {m.map (·.1)} impl {c.2.2}"]
  let mm := multiEval cfg ext (cols.map (·.1)) (cols.map (·.2.1))
  if mm ≠ multi then issues := issues ++ [s!"DIFF multi-column score: model {mm} impl {multi}"]
  if issues.isEmpty then "ok" else " ## ".intercalate issues

/-- `W text= app= status= tried= matched= bad= oldatoms= newatoms=` — the rule of the append shortcut, evaluated on the real
    code (C07): with status Update, a haystack that matches the new pattern and not the old one is a violation -/
def wLine (ws : List String) : String := Id.run do
  let get := fun k => (field ws k).getD ""
  let text := if get "text" = "-" then [] else parseCps (get "text")
  let app := parseCps (get "app")
  let status := (get "status").toNat?.getD 0
  let mut issues : List String := []
  if status = 1 && get "bad" ≠ "-" then
    issues := issues ++ [s!"ORACLE C07 the append shortcut was taken (status Update) for text {text} ++ {app}, but the haystack {parseCps (get "bad")} matches the new pattern and not the old one: the edit is not a narrowing"]
  -- model of the rule, for ASCII texts (no segmentation needed)
  if (text ++ app).all (· < 128) then
    let seg : Seg := fun c => c.map (fun _ => 1)
    let oldA := parsePattern seg text .smart .smart
    let newA := parsePattern seg (text ++ app) .smart .smart
    let m := (reparseStatus .unchanged oldA newA true).rank
    if m ≠ status then issues := issues ++ [s!"DIFF status of reparse(append) for {text} ++ {app}: model {m} impl {status}"]
    if showAtoms newA ≠ get "newatoms" then issues := issues ++ [s!"DIFF atoms of {text} ++ {app}: model {showAtoms newA} impl {get "newatoms"}"]
    -- the shapes for which narrowing is a theorem (C07_Append / C07_Narrows / C07_SmartCase / C07_Sublist) or a list fact
    -- about the kinds' specifications: the atom in the last atom's place keeps the old needle (as a subsequence for the
    -- fuzzy kind, as an infix for substring, as a prefix for prefix; `$` may turn fuzzy into postfix and the others into
    -- exact), case folding may only be switched off, normalization is unchanged
    if m = 1 then
      match oldA.getLast?, newA[oldA.length - 1]? with
      | some a, some b =>
        let bn := if a.ignoreCase && !b.ignoreCase then b.needle.map asciiLower else b.needle
        let flagsOk := !( !a.ignoreCase && b.ignoreCase) && a.normalize == b.normalize
        let isInfix : Bool := (List.range (bn.length + 1)).any fun i => (bn.drop i).take a.needle.length == a.needle
        let shapeOk : Bool := match a.kind, b.kind with
          | .fuzzy, .fuzzy => Spec.subseqB a.needle bn
          | .fuzzy, .postfix => Spec.subseqB a.needle bn
          | .substring, .substring => isInfix
          | .substring, .exact => isInfix
          | .prefix, .prefix => bn.take a.needle.length == a.needle
          | .prefix, .exact => bn.take a.needle.length == a.needle
          | _, _ => false
        if !(flagsOk && shapeOk && !a.negative && !b.negative) then
          issues := issues ++ [s!"DIFF the append shortcut is taken for an edit outside the narrowing shapes: {text} ++ {app}: last atom {showAtom a} becomes {showAtom b}"]
      | _, _ => pure ()
  if issues.isEmpty then "ok" else " ## ".intercalate issues

end NucleoVerif.Driver
