import NucleoVerif.Model.Utf32
import NucleoVerif.Driver.Util
/-! `U` lines (C17). -/
namespace NucleoVerif.Driver
open NucleoVerif

def uLine (ws : List String) : String := Id.run do
  let get := fun k => (field ws k).getD ""
  let s := parseCps (get "s")
  let lens := parseNats (get "clusters")
  let clusters := cutClusters s lens
  let variant := get "variant"
  let content := parseCps (get "content")
  let n := (get "len").toNat?.getD 0
  let mut issues : List String := []
  -- oracle on the implementation (property clauses)
  let isAscii := s.all (· < 128)
  let wantAscii := isAscii && !hasCRLF s
  if (variant = "A") ≠ wantAscii then
    issues := issues ++ [s!"ORACLE C17 variant {variant} but the string is{if isAscii then "" else " not"} ASCII and has{if hasCRLF s then "" else " no"} CR LF"]
  if variant = "A" && content ≠ s then issues := issues ++ ["ORACLE C17 ASCII form does not hold the original bytes"]
  if variant = "U" && content ≠ clusters.map projCluster then
    issues := issues ++ [s!"ORACLE C17 code-point form {content} is not the first code point of each cluster (LF for CR LF) {clusters.map projCluster}"]
  if n ≠ lens.length then issues := issues ++ [s!"ORACLE C17 length {n} but the string has {lens.length} grapheme clusters"]
  if lens.foldl (· + ·) 0 ≠ s.length then issues := issues ++ ["bad-clusters"]
  if get "ctors" ≠ "same" then issues := issues ++ [s!"ORACLE C17 constructors disagree: {get "ctors"}"]
  -- model
  let m := mkUtf32 s clusters
  if (if m.rep = .ascii then "A" else "U") ≠ variant || m.content ≠ content then
    issues := issues ++ [s!"DIFF model {if m.rep = .ascii then "A" else "U"} {m.content} impl {variant} {content}"]
  -- accessors: against the implementation's own content (oracle) and the model (DIFF)
  let impl : U32 := ⟨if variant = "A" then .ascii else .unicode, content⟩
  for op in (get "ops").splitOn ";" do
    match op.splitOn ":" with
    | ["len", a, b, e] =>
      if a.toNat? ≠ some impl.len || b.toNat? ≠ some impl.len || (e = "1") ≠ (impl.len = 0) then
        issues := issues ++ [s!"ORACLE C17 len/is_empty {op} disagree with the content"]
    | ["chars", c] => if parseCps c ≠ impl.chars then issues := issues ++ [s!"ORACLE C17 chars() {c} differs from the content"]
    | ["rev", c] => if parseCps c ≠ impl.chars.reverse then issues := issues ++ [s!"ORACLE C17 chars().rev() {c} differs from the reversed content"]
    | ["display", c] => if parseCps c ≠ impl.chars then issues := issues ++ [s!"ORACLE C17 Display {c} differs from the content"]
    | ["displayowned", c] => if parseCps c ≠ impl.chars then issues := issues ++ [s!"ORACLE C17 Display of the owned form {c} differs from the content"]
    | ["get", i, c] => if impl.get (i.toNat?.getD 0) ≠ some (hexVal! c) then issues := issues ++ [s!"ORACLE C17 get({i}) = {c}"]
    | ["slice", a, b, c] | ["sliceu32", a, b, c] =>
      if (impl.slice (a.toNat?.getD 0) (b.toNat?.getD 0)).content ≠ parseCps c then issues := issues ++ [s!"ORACLE C17 {op} differs from the content's range"]
    | ["sliceattr", a, b, l, e] =>
      let want := b.toNat?.getD 0 - a.toNat?.getD 0
      if l.toNat? ≠ some want || e ≠ (if want = 0 then "1" else "0") then
        issues := issues ++ [s!"ORACLE C17 slice({a}..{b}) reports len {l} / is_empty {e}, its content has {want} characters"]
    | ["sliceincl", a, b, c] =>
      if (impl.slice (a.toNat?.getD 0) (b.toNat?.getD 0 + 1)).content ≠ parseCps c then issues := issues ++ [s!"ORACLE C17 {op} differs from the content's range"]
    | ["sl", fi, lo, hi, vv, c] =>
      let bnd := fun (t : String) => if t = "u" then Bnd.unb else if t.startsWith "i" then Bnd.incl ((t.drop 1).toNat?.getD 0) else Bnd.excl ((t.drop 1).toNat?.getD 0)
      let want := impl.slice (bnd lo).startOf ((bnd hi).endOf impl.len)
      let fname := (["Utf32Str::slice", "Utf32Str::slice_u32", "Utf32String::slice", "Utf32String::slice_u32"][fi.toNat?.getD 9]?).getD "?"
      if want.content ≠ parseCps c || (vv = "A") ≠ (impl.rep = .ascii) then
        issues := issues ++ [s!"ORACLE C17 {fname}(({lo}, {hi})) = {vv}:{c} is not the range of the content those bounds denote ({want.content})"]
      match Gen.sliceBoundsAll[fi.toNat?.getD 9]? with
      | some sb => if (impl.sliceVia sb (bnd lo) (bnd hi)).content ≠ parseCps c then issues := issues ++ [s!"DIFF {fname}(({lo}, {hi})): model {(impl.sliceVia sb (bnd lo) (bnd hi)).content} impl {c}"]
      | none => issues := issues ++ [s!"bad-op {op}"]
    | ["slicefull", c] => if parseCps c ≠ impl.content then issues := issues ++ [s!"ORACLE C17 slice(..) differs from the content"]
    | _ => issues := issues ++ [s!"bad-op {op}"]
  if issues.isEmpty then "ok" else " ## ".intercalate issues

end NucleoVerif.Driver
