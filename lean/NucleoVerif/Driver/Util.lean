/-! Line-protocol helpers for the model driver (parsing / printing only). -/
namespace NucleoVerif.Driver

def hexVal? (s : String) : Option Nat :=
  if s.isEmpty then none else
  s.foldl (fun acc ch =>
    match acc with
    | none => none
    | some n =>
      if '0' ≤ ch ∧ ch ≤ '9' then some (n * 16 + (ch.toNat - '0'.toNat))
      else if 'a' ≤ ch ∧ ch ≤ 'f' then some (n * 16 + (ch.toNat - 'a'.toNat + 10))
      else if 'A' ≤ ch ∧ ch ≤ 'F' then some (n * 16 + (ch.toNat - 'A'.toNat + 10))
      else none) (some 0)

def hexVal! (s : String) : Nat := (hexVal? s).getD 0xFFFFFFFF

def toHex (n : Nat) : String := String.ofList (Nat.toDigits 16 n)

/-- `-` = empty, otherwise comma separated hex code points -/
def parseCps (s : String) : List Nat :=
  if s = "-" then [] else (s.splitOn ",").map hexVal!

def parseNats (s : String) : List Nat :=
  if s = "-" then [] else (s.splitOn ",").filterMap (·.toNat?)

def showNats (l : List Nat) : String :=
  if l.isEmpty then "-" else ",".intercalate (l.map toString)

def words (line : String) : List String :=
  (line.trimAscii.toString.splitOn " ").filter (· ≠ "")

/-- `key=value` lookup among the words of a line -/
def field (ws : List String) (key : String) : Option String :=
  ws.findSome? fun w =>
    if w.startsWith (key ++ "=") then some (w.drop (key.length + 1)).toString else none

end NucleoVerif.Driver
