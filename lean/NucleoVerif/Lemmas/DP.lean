import NucleoVerif.Model.Matcher
import NucleoVerif.Spec.Matcher
/-! Invariants of the path-carrying two-matrix recurrence (`Model/Matcher.lean`: `firstRow`, `nextRowGo`,
`allRows`, `bestCell`) against the specification's scoring state machine (`Spec.sInit/sMatch/sSkip`). -/
namespace NucleoVerif.DP
open Gen Spec

theorem bonusFor_eq_spec (cfg : Cfg) (prev cls : CharClass) :
    bonusFor cfg prev cls = specBonus cfg.white cfg.delim prev cls := by
  cases prev <;> cases cls <;> simp [bonusFor, specBonus, CharClass.rank, BONUS_BOUNDARY, BONUS_CAMEL123, BONUS_NON_WORD]

section
variable (white delim : Nat) (initial : CharClass) (cls : Nat → CharClass)

/-- class of the character in front of absolute column `j` -/
def pcls (j : Nat) : CharClass := if j = 0 then initial else cls (j - 1)

/-- bonus of absolute column `j` -/
def bonusAt (j : Nat) : Nat := specBonus white delim (pcls initial cls j) (cls j)

/-- **the specification's state after column `col`** when the scheme is applied to alignment `path`
    (absolute columns, the first one being `first`) -/
def specAt (path : List Nat) (first : Nat) : Nat → SSt
  | 0 => sInit white delim (pcls initial cls first) (cls first)
  | col + 1 =>
    if col + 1 ≤ first then sInit white delim (pcls initial cls first) (cls first)
    else
      let s := specAt path first col
      if path.contains (col + 1) then sMatch white delim s (cls (col + 1)) else sSkip s (cls (col + 1))

theorem specAt_succ_of_le (path : List Nat) (first col : Nat) (h : first ≤ col) :
    specAt white delim initial cls path first (col + 1) =
      (if path.contains (col + 1) then sMatch white delim (specAt white delim initial cls path first col) (cls (col + 1))
       else sSkip (specAt white delim initial cls path first col) (cls (col + 1))) := by
  conv => lhs; unfold specAt
  have : ¬ (col + 1 ≤ first) := by omega
  simp [this]

theorem specAt_le_first (path : List Nat) (first col : Nat) (h : col ≤ first) :
    specAt white delim initial cls path first col = sInit white delim (pcls initial cls first) (cls first) := by
  cases col with
  | zero => simp [specAt]
  | succ k => unfold specAt; simp [h]

/-- appending a later column does not change the state at earlier columns -/
theorem specAt_append (path : List Nat) (first c : Nat) :
    ∀ k, k < c → specAt white delim initial cls (path ++ [c]) first k = specAt white delim initial cls path first k := by
  intro k
  induction k with
  | zero => intro _; simp [specAt]
  | succ k ih =>
    intro hk
    unfold specAt
    split
    · rfl
    · have hk' : k < c := by omega
      rw [ih hk']
      have : (path ++ [c]).contains (k + 1) = path.contains (k + 1) := by
        simp only [List.contains_eq_mem, List.mem_append, List.mem_singleton]
        have : ¬ (k + 1 = c) := by omega
        simp [this]
      simp only [this]

/-- first element of a path (0 for the empty path, which never occurs in a cell) -/
def firstOf (path : List Nat) : Nat := path.headD 0

/-- the state relation between a DP M-cell at absolute column `j` and the specification -/
def CellInv (c : Cell) (j : Nat) : Prop :=
  firstOf c.path ≤ j ∧ j ∈ c.path ∧ c.path ≠ [] ∧ (∀ k ∈ c.path, firstOf c.path ≤ k ∧ k ≤ j) ∧
  (specAt white delim initial cls c.path (firstOf c.path) j).score = c.score ∧
  (specAt white delim initial cls c.path (firstOf c.path) j).inGap = false ∧
  (specAt white delim initial cls c.path (firstOf c.path) j).inRun = true ∧
  (specAt white delim initial cls c.path (firstOf c.path) j).prev = cls j ∧
  max (specAt white delim initial cls c.path (firstOf c.path) j).runBonus 4 = max c.consec 4 ∧
  c.path.getLast? = some j ∧ c.path.Pairwise (· < ·)

/-- P-cell valid *at* column `j`: the alignment ended before `j`, columns up to `j` skipped -/
def PInv (q : PCell) (j : Nat) : Prop :=
  firstOf q.path < j ∧ j ∉ q.path ∧ q.path ≠ [] ∧ (∀ k ∈ q.path, firstOf q.path ≤ k ∧ k < j) ∧
  (specAt white delim initial cls q.path (firstOf q.path) j).score = q.score ∧
  (specAt white delim initial cls q.path (firstOf q.path) j).inGap = true ∧
  (specAt white delim initial cls q.path (firstOf q.path) j).inRun = false ∧
  (specAt white delim initial cls q.path (firstOf q.path) j).prev = cls j ∧
  q.path.Pairwise (· < ·)

theorem firstOf_append (path : List Nat) (c : Nat) (h : path ≠ []) : firstOf (path ++ [c]) = firstOf path := by
  cases path with
  | nil => exact absurd rfl h
  | cons a t => rfl

theorem bonus_arith (b fb cons : Nat) (h : max fb 4 = max cons 4) :
    max (max b (if b ≥ 8 ∧ b > fb then b else fb)) 4
      = max (if b ≥ 8 ∧ b > max cons 4 then b else max cons 4) b ∧
    max (if b ≥ 8 ∧ b > fb then b else fb) 4
      = max (if b ≥ 8 ∧ b > max cons 4 then b else max cons 4) 4 := by
  split <;> split <;> omega

theorem pScore_inv (j : Nat) (prevM : Option Cell) (p : Option PCell)
    (hM : ∀ c, prevM = some c → CellInv white delim initial cls c j)
    (hP : ∀ q, p = some q → PInv white delim initial cls q j) :
    ∀ q, pScore prevM p = some q → PInv white delim initial cls q (j + 1) := by
  have fromM : ∀ c, CellInv white delim initial cls c j →
      PInv white delim initial cls ⟨c.score - PENALTY_GAP_START, c.path⟩ (j + 1) := by
    intro c ⟨h1, h2, hne, h3, e1, e2, e3, e4, _, _, hpw⟩
    have hnot : (c.path.contains (j + 1)) = false := by
      simp only [List.contains_eq_mem, decide_eq_false_iff_not]
      intro hmem; have := (h3 _ hmem).2; omega
    refine ⟨by simp; omega, ?_, hne, ?_, ?_, ?_, ?_, ?_, hpw⟩
    · intro hmem; have := (h3 _ hmem).2; omega
    · intro k hk; have := h3 k hk; simp; omega
    all_goals
      simp only
      rw [specAt_succ_of_le white delim initial cls c.path _ j h1]
      simp only [hnot, Bool.false_eq_true, if_false]
      simp [sSkip, e1, e2, PENALTY_GAP_START]
  have fromP : ∀ q, PInv white delim initial cls q j →
      PInv white delim initial cls ⟨q.score - PENALTY_GAP_EXTENSION, q.path⟩ (j + 1) := by
    intro q ⟨h1, h2, hne, h3, e1, e2, e3, e4, hpw⟩
    have hnot : (q.path.contains (j + 1)) = false := by
      simp only [List.contains_eq_mem, decide_eq_false_iff_not]
      intro hmem; have := (h3 _ hmem).2; omega
    refine ⟨by simp; omega, ?_, hne, ?_, ?_, ?_, ?_, ?_, hpw⟩
    · intro hmem; have := (h3 _ hmem).2; omega
    · intro k hk; have := h3 k hk; simp; omega
    all_goals
      simp only
      rw [specAt_succ_of_le white delim initial cls q.path _ j (by omega)]
      simp only [hnot, Bool.false_eq_true, if_false]
      simp [sSkip, e1, e2, PENALTY_GAP_EXTENSION]
  intro q hq
  unfold pScore at hq
  split at hq
  · cases hq
  · cases hq; exact fromM _ (hM _ rfl)
  · cases hq; exact fromP _ (hP _ rfl)
  · split at hq <;> cases hq
    · exact fromM _ (hM _ rfl)
    · exact fromP _ (hP _ rfl)

theorem matchStep_inv (j : Nat) (c : Cell) (h : CellInv white delim initial cls c j) (b sc cb : Nat)
    (hb : b = bonusAt white delim initial cls (j + 1))
    (hcb : cb = if b ≥ BONUS_BOUNDARY ∧ b > max c.consec BONUS_CONSECUTIVE then b else max c.consec BONUS_CONSECUTIVE)
    (hsc : sc = c.score + max cb b + SCORE_MATCH) :
    CellInv white delim initial cls ⟨sc, cb, c.path ++ [j + 1]⟩ (j + 1) := by
  obtain ⟨h1, h2, hne, h3, e1, e2, e3, e4, e5, _, hpw⟩ := h
  have hpw' : (c.path ++ [j + 1]).Pairwise (· < ·) := by
    rw [List.pairwise_append]
    refine ⟨hpw, by simp, ?_⟩
    intro a ha b' hb'
    simp only [List.mem_singleton] at hb'
    have := (h3 a ha).2; omega
  have hf : firstOf (c.path ++ [j + 1]) = firstOf c.path := firstOf_append _ _ hne
  have hmem : (c.path ++ [j + 1]).contains (j + 1) = true := by simp
  have hbb : specBonus white delim (specAt white delim initial cls c.path (firstOf c.path) j).prev (cls (j + 1)) = b := by
    rw [hb, e4]; simp [bonusAt, pcls]
  have ar := bonus_arith b (specAt white delim initial cls c.path (firstOf c.path) j).runBonus c.consec e5
  have key : specAt white delim initial cls (c.path ++ [j + 1]) (firstOf c.path) (j + 1)
      = sMatch white delim (specAt white delim initial cls c.path (firstOf c.path) j) (cls (j + 1)) := by
    rw [specAt_succ_of_le white delim initial cls _ _ j h1]
    simp only [hmem, if_true]
    rw [specAt_append white delim initial cls c.path _ (j + 1) j (by omega)]
  refine ⟨by simp only [hf]; omega, by simp, by simp, ?_, ?_, ?_, ?_, ?_, ?_, by simp, hpw'⟩
  · intro k hk
    simp only [hf]
    simp only [List.mem_append, List.mem_singleton] at hk
    rcases hk with hk | hk
    · have := h3 k hk; omega
    · subst hk; omega
  all_goals
    simp only [hf]
    rw [key]
    simp only [sMatch, e3, if_true, hbb]
  · simp only [BONUS_BOUNDARY, BONUS_CONSECUTIVE, SCORE_MATCH] at hcb hsc
    rw [hsc, hcb, e1, ar.1]
    exact Nat.add_right_comm _ _ _
  · simp only [BONUS_BOUNDARY, BONUS_CONSECUTIVE] at hcb
    rw [hcb]
    exact ar.2

theorem skipStep_inv (j : Nat) (q : PCell) (h : PInv white delim initial cls q j) (b : Nat)
    (hb : b = bonusAt white delim initial cls (j + 1)) :
    CellInv white delim initial cls ⟨q.score + b + SCORE_MATCH, b, q.path ++ [j + 1]⟩ (j + 1) := by
  obtain ⟨h1, h2, hne, h3, e1, e2, e3, e4, hpw⟩ := h
  have hpw' : (q.path ++ [j + 1]).Pairwise (· < ·) := by
    rw [List.pairwise_append]
    refine ⟨hpw, by simp, ?_⟩
    intro a ha b' hb'
    simp only [List.mem_singleton] at hb'
    have := (h3 a ha).2; omega
  have hf : firstOf (q.path ++ [j + 1]) = firstOf q.path := firstOf_append _ _ hne
  have hmem : (q.path ++ [j + 1]).contains (j + 1) = true := by simp
  have hbb : specBonus white delim (specAt white delim initial cls q.path (firstOf q.path) j).prev (cls (j + 1)) = b := by
    rw [hb, e4]; simp [bonusAt, pcls]
  have key : specAt white delim initial cls (q.path ++ [j + 1]) (firstOf q.path) (j + 1)
      = sMatch white delim (specAt white delim initial cls q.path (firstOf q.path) j) (cls (j + 1)) := by
    rw [specAt_succ_of_le white delim initial cls _ _ j (by omega)]
    simp only [hmem, if_true]
    rw [specAt_append white delim initial cls q.path _ (j + 1) j (by omega)]
  refine ⟨by simp only [hf]; omega, by simp, by simp, ?_, ?_, ?_, ?_, ?_, ?_, by simp, hpw'⟩
  · intro k hk
    simp only [hf]
    simp only [List.mem_append, List.mem_singleton] at hk
    rcases hk with hk | hk
    · have := h3 k hk; omega
    · subst hk; omega
  all_goals
    simp only [hf]
    rw [key]
    simp only [sMatch, e3, Bool.false_eq_true, if_false, hbb]
  · simp only [SCORE_MATCH]; rw [e1]; omega

theorem nextM_inv (j : Nat) (m : Option Cell) (p : Option PCell) (b : Nat)
    (hb : b = bonusAt white delim initial cls (j + 1))
    (hM : ∀ c, m = some c → CellInv white delim initial cls c j)
    (hP : ∀ q, p = some q → PInv white delim initial cls q j) :
    ∀ c, nextM p b m (j + 1) = some c → CellInv white delim initial cls c (j + 1) := by
  intro c hc
  cases m with
  | none =>
    cases p with
    | none => simp [nextM] at hc
    | some q =>
      simp only [nextM, Option.some.injEq] at hc
      subst hc
      exact skipStep_inv white delim initial cls j q (hP _ rfl) b hb
  | some c0 =>
    cases p with
    | none =>
      simp only [nextM, Option.some.injEq] at hc
      subst hc
      exact matchStep_inv white delim initial cls j c0 (hM _ rfl) b _ _ hb rfl rfl
    | some q =>
      simp only [nextM] at hc
      by_cases hgt : c0.score + max (if b ≥ BONUS_BOUNDARY ∧ b > max c0.consec BONUS_CONSECUTIVE then b else max c0.consec BONUS_CONSECUTIVE) b > q.score + b
      · rw [if_pos hgt] at hc
        injection hc with hc
        subst hc
        exact matchStep_inv white delim initial cls j c0 (hM _ rfl) b _ _ hb rfl rfl
      · rw [if_neg hgt] at hc
        injection hc with hc
        subst hc
        exact skipStep_inv white delim initial cls j q (hP _ rfl) b hb

/-- the window's columns carry their absolute index and the bonus of that column -/
def ColsOK (cols : List Col) (j0 : Nat) : Prop :=
  ∀ k c, cols[k]? = some c → c.idx = j0 + k ∧ c.bonus = bonusAt white delim initial cls (j0 + k)

theorem ColsOK.tail {c : Col} {cols : List Col} {j0 : Nat} (h : ColsOK white delim initial cls (c :: cols) j0) :
    ColsOK white delim initial cls cols (j0 + 1) := by
  intro k d hd
  have := h (k + 1) d (by simpa using hd)
  have e : j0 + (k + 1) = j0 + 1 + k := by omega
  rw [e] at this; exact this

/-- every cell of a row (aligned with the columns starting at absolute column `j0`) satisfies `CellInv` at its column -/
def RowInv (j0 : Nat) (row : List (Option Cell)) : Prop :=
  ∀ k c, row[k]? = some (some c) → CellInv white delim initial cls c (j0 + k)

theorem RowInv.tail {m : Option Cell} {ms : List (Option Cell)} {j0 : Nat} (h : RowInv white delim initial cls j0 (m :: ms)) :
    RowInv white delim initial cls (j0 + 1) ms := by
  intro k c hc
  have := h (k + 1) c (by simpa using hc)
  have e : j0 + (k + 1) = j0 + 1 + k := by omega
  rw [e] at this; exact this

theorem nextRowGo_inv (nc : Nat) :
    ∀ (ms : List (Option Cell)) (cols : List Col) (j : Nat) (prevM : Option Cell) (p : Option PCell),
      ColsOK white delim initial cls cols j →
      RowInv white delim initial cls j ms →
      (∀ c, prevM = some c → ∃ j', j = j' + 1 ∧ CellInv white delim initial cls c j') →
      (∀ q, p = some q → ∃ j', j = j' + 1 ∧ PInv white delim initial cls q j') →
      RowInv white delim initial cls (j + 1) (nextRowGo nc ms cols prevM p) := by
  intro ms
  induction ms with
  | nil => intro cols j prevM p _ _ _ _ k c h; simp [nextRowGo] at h
  | cons mj ms ih =>
    intro cols j prevM p hcols hrow hM hP
    match cols, hcols with
    | [], _ => intro k c h; simp [nextRowGo] at h
    | [_], _ => intro k c h; simp [nextRowGo] at h
    | cj :: cj1 :: cs, hcols =>
      -- P(i, j)
      have hP' : ∀ q, pScore prevM p = some q → PInv white delim initial cls q j := by
        intro q hq
        cases j with
        | zero =>
          have h1 : prevM = none := by
            cases prevM with
            | none => rfl
            | some c => obtain ⟨j', hj, _⟩ := hM c rfl; omega
          have h2 : p = none := by
            cases p with
            | none => rfl
            | some q => obtain ⟨j', hj, _⟩ := hP q rfl; omega
          subst h1; subst h2; simp [pScore] at hq
        | succ j' =>
          apply pScore_inv white delim initial cls j' prevM p _ _ q hq
          · intro c hc; obtain ⟨j'', hj, hinv⟩ := hM c hc
            have : j'' = j' := by omega
            subst this; exact hinv
          · intro q hq; obtain ⟨j'', hj, hinv⟩ := hP q hq
            have : j'' = j' := by omega
            subst this; exact hinv
      have hmj : ∀ c, mj = some c → CellInv white delim initial cls c j := by
        intro c hc; have := hrow 0 c (by simp [hc]); simpa using this
      have hc1 := hcols 1 cj1 (by simp)
      intro k c h
      cases k with
      | zero =>
        simp only [nextRowGo, List.getElem?_cons_zero, Option.some.injEq] at h
        split at h
        · rw [hc1.1] at h
          exact nextM_inv white delim initial cls j mj _ cj1.bonus hc1.2 hmj hP' c h
        · cases h
      | succ k =>
        simp only [nextRowGo, List.getElem?_cons_succ] at h
        have := ih (cj1 :: cs) (j + 1) mj (pScore prevM p) (ColsOK.tail white delim initial cls hcols)
          (RowInv.tail white delim initial cls hrow)
          (fun c hc => ⟨j, rfl, hmj c hc⟩)
          (fun q hq => ⟨j, rfl, hP' q hq⟩) k c h
        have e : j + 1 + (k + 1) = j + 1 + 1 + k := by omega
        rw [e]; exact this

theorem nextRow_inv (nc : Nat) (row : List (Option Cell)) (cols : List Col) (j0 : Nat)
    (hcols : ColsOK white delim initial cls cols j0) (hrow : RowInv white delim initial cls j0 row) :
    RowInv white delim initial cls j0 (nextRow nc row cols) := by
  unfold nextRow
  cases cols with
  | nil => intro k c h; simp at h
  | cons c0 cs =>
    intro k c h
    cases k with
    | zero => simp at h
    | succ k =>
      simp only [List.getElem?_cons_succ] at h
      have := nextRowGo_inv white delim initial cls nc row (c0 :: cs) j0 none none hcols hrow
        (by intro c hc; cases hc) (by intro q hq; cases hq) k c h
      have e : j0 + (k + 1) = j0 + 1 + k := by omega
      rw [e]; exact this

theorem allRows_inv (cols : List Col) (j0 : Nat) (hcols : ColsOK white delim initial cls cols j0) :
    ∀ (ns : List Nat) (row : List (Option Cell)), RowInv white delim initial cls j0 row →
      RowInv white delim initial cls j0 (allRows cols ns row) := by
  intro ns
  induction ns with
  | nil => intro row h; simpa [allRows] using h
  | cons nc ns ih =>
    intro row h
    simp only [allRows]
    exact ih _ (nextRow_inv white delim initial cls nc row cols j0 hcols h)

/-- first row, prefix preference off (`pb = 0`) -/
theorem firstRow_inv (n0 : Nat) : ∀ (cols : List Col) (j0 : Nat), ColsOK white delim initial cls cols j0 →
    RowInv white delim initial cls j0 (firstRow n0 cols 0) := by
  intro cols
  induction cols with
  | nil => intro j0 _ k c h; simp [firstRow] at h
  | cons c0 cs ih =>
    intro j0 hcols k c h
    cases k with
    | zero =>
      simp only [firstRow, List.getElem?_cons_zero, Option.some.injEq] at h
      split at h
      · injection h with h
        subst h
        have hc0 := hcols 0 c0 (by simp)
        simp only [Nat.add_zero] at hc0 ⊢
        have hs : specAt white delim initial cls [c0.idx] (firstOf [c0.idx]) j0
            = sInit white delim (pcls initial cls j0) (cls j0) := by
          have : firstOf [c0.idx] = j0 := by simp [firstOf, hc0.1]
          rw [this]
          exact specAt_le_first white delim initial cls _ j0 j0 (Nat.le_refl _)
        refine ⟨by simp [firstOf, hc0.1], by simp [hc0.1], by simp, ?_, ?_, ?_, ?_, ?_, ?_, by simp [hc0.1], by simp⟩
        · intro k hk; simp only [List.mem_singleton] at hk; subst hk; simp [firstOf, hc0.1]
        all_goals
          simp only [hs, sInit]
        · simp only [hc0.2, bonusAt, BONUS_FIRST_CHAR_MULTIPLIER, SCORE_MATCH, PREFIX_BONUS_SCALE]
          omega
        · simp only [hc0.2, bonusAt]
      · cases h
    | succ k =>
      simp only [firstRow, List.getElem?_cons_succ] at h
      have := ih (j0 + 1) (ColsOK.tail white delim initial cls hcols) k c (by simpa using h)
      have e : j0 + (k + 1) = j0 + 1 + k := by omega
      rw [e]; exact this

/-- the chosen cell is a cell of the row -/
theorem bestCell_mem : ∀ (row : List (Option Cell)) (best : Option Cell) (c : Cell),
    bestCell row best = some c → best = some c ∨ ∃ k : Nat, row[k]? = some (some c) := by
  intro row
  induction row with
  | nil => intro best c h; left; simpa [bestCell] using h
  | cons m ms ih =>
    intro best c h
    have lift : (∃ k : Nat, ms[k]? = some (some c)) → ∃ k : Nat, (m :: ms)[k]? = some (some c) := by
      intro ⟨k, hk⟩; exact ⟨k + 1, by simpa using hk⟩
    cases m with
    | none =>
      simp only [bestCell] at h
      rcases ih best c h with e | e
      · exact Or.inl e
      · exact Or.inr (lift e)
    | some c0 =>
      cases best with
      | none =>
        simp only [bestCell] at h
        rcases ih (some c0) c h with e | e
        · right; exact ⟨0, by simpa using e⟩
        · exact Or.inr (lift e)
      | some b =>
        simp only [bestCell] at h
        split at h
        · rcases ih (some c0) c h with e | e
          · right; exact ⟨0, by simpa using e⟩
          · exact Or.inr (lift e)
        · rcases ih (some b) c h with e | e
          · exact Or.inl e
          · exact Or.inr (lift e)

end

/-! ### the window's columns, row lengths, and the link to `Spec.alignScore` -/

/-- class of the haystack character at absolute column `j` -/
def clsOf (cfg : Cfg) (ext : Ext) (h : List Nat) (j : Nat) : CharClass :=
  (h[j]?.map (charClass cfg ext)).getD cfg.initial

theorem pcls_eq_prevClassAt (cfg : Cfg) (ext : Ext) (h : List Nat) (j : Nat) :
    pcls cfg.initial (clsOf cfg ext h) j = prevClassAt cfg ext h j := by
  unfold pcls prevClassAt clsOf
  split
  · rfl
  · cases h[j - 1]? <;> rfl

theorem windowCols_go_ok (cfg : Cfg) (ext : Ext) (hrep : Rep) (h : List Nat) :
    ∀ (l : List Nat) (idx : Nat) (prev : CharClass),
      (∀ k c, l[k]? = some c → h[idx + k]? = some c) → prev = pcls cfg.initial (clsOf cfg ext h) idx →
      ColsOK cfg.white cfg.delim cfg.initial (clsOf cfg ext h) (windowCols.go cfg ext hrep prev idx l) idx := by
  intro l
  induction l with
  | nil => intro idx prev _ _ k c hc; simp [windowCols.go] at hc
  | cons c0 cs ih =>
    intro idx prev hl hprev k c hc
    have h0 : h[idx]? = some c0 := by simpa using hl 0 c0 (by simp)
    have hcls : clsOf cfg ext h idx = charClass cfg ext c0 := by simp [clsOf, h0]
    cases k with
    | zero =>
      simp only [windowCols.go, List.getElem?_cons_zero, Option.some.injEq] at hc
      subst hc
      refine ⟨rfl, ?_⟩
      simp only [Nat.add_zero, bonusAt, hcls, ← hprev]
      exact bonusFor_eq_spec cfg _ _
    | succ k =>
      simp only [windowCols.go, List.getElem?_cons_succ] at hc
      have := ih (idx + 1) (charClass cfg ext c0)
        (by intro k c hk
            have := hl (k + 1) c (by simpa using hk)
            have e : idx + (k + 1) = idx + 1 + k := by omega
            rw [e] at this; exact this)
        (by simp [pcls, hcls]) k c hc
      have e : idx + (k + 1) = idx + 1 + k := by omega
      rw [e]; exact this

theorem windowCols_ok (cfg : Cfg) (ext : Ext) (hrep : Rep) (h : List Nat) (start end_ : Nat) :
    ColsOK cfg.white cfg.delim cfg.initial (clsOf cfg ext h) (windowCols cfg ext hrep h start end_) start := by
  unfold windowCols
  apply windowCols_go_ok
  · intro k c hk
    rw [List.getElem?_take] at hk
    split at hk
    · rw [List.getElem?_drop] at hk; exact hk
    · cases hk
  · exact (pcls_eq_prevClassAt cfg ext h start).symm

theorem windowCols_go_length (cfg : Cfg) (ext : Ext) (hrep : Rep) :
    ∀ (l : List Nat) (idx : Nat) (prev : CharClass), (windowCols.go cfg ext hrep prev idx l).length = l.length := by
  intro l
  induction l with
  | nil => intro _ _; rfl
  | cons c cs ih => intro idx prev; simp [windowCols.go, ih]

theorem windowCols_length_le (cfg : Cfg) (ext : Ext) (hrep : Rep) (h : List Nat) (start end_ : Nat) :
    start + (windowCols cfg ext hrep h start end_).length ≤ max start h.length := by
  unfold windowCols
  rw [windowCols_go_length]
  simp only [List.length_take, List.length_drop]
  omega

theorem firstRow_length (n0 : Nat) : ∀ (cols : List Col) (pb : Nat), (firstRow n0 cols pb).length = cols.length := by
  intro cols
  induction cols with
  | nil => intro _; rfl
  | cons c cs ih => intro pb; simp [firstRow, ih]

theorem nextRowGo_length_le (nc : Nat) : ∀ (ms : List (Option Cell)) (cols : List Col) (prevM : Option Cell) (p : Option PCell),
    (nextRowGo nc ms cols prevM p).length + 1 ≤ cols.length ∨ (nextRowGo nc ms cols prevM p) = [] := by
  intro ms
  induction ms with
  | nil => intro cols _ _; right; simp [nextRowGo]
  | cons m ms ih =>
    intro cols prevM p
    match cols with
    | [] => right; simp [nextRowGo]
    | [_] => right; simp [nextRowGo]
    | cj :: cj1 :: cs =>
      left
      simp only [nextRowGo, List.length_cons]
      rcases ih (cj1 :: cs) m (pScore prevM p) with hh | hh
      · simp only [List.length_cons] at hh; omega
      · rw [hh]; simp

theorem nextRow_length_le (nc : Nat) (row : List (Option Cell)) (cols : List Col) :
    (nextRow nc row cols).length ≤ cols.length := by
  unfold nextRow
  cases cols with
  | nil => simp
  | cons c cs =>
    simp only [List.length_cons]
    rcases nextRowGo_length_le nc row (c :: cs) none none with hh | hh
    · simp only [List.length_cons] at hh; omega
    · rw [hh]; simp

theorem allRows_length_le (cols : List Col) : ∀ (ns : List Nat) (row : List (Option Cell)), row.length ≤ cols.length →
    (allRows cols ns row).length ≤ cols.length := by
  intro ns
  induction ns with
  | nil => intro row h; simpa [allRows] using h
  | cons nc ns ih => intro row _; simp only [allRows]; exact ih _ (nextRow_length_le nc row cols)

/-- the specification's walk over the haystack characters is the column-indexed state -/
theorem sWalk_eq_specAt (cfg : Cfg) (ext : Ext) (h : List Nat) (path : List Nat) (first : Nat) :
    ∀ (cs : List Nat) (col : Nat), first ≤ col → (∀ i c, cs[i]? = some c → h[col + 1 + i]? = some c) →
      sWalk cfg.white cfg.delim (charClass cfg ext) path
        (specAt cfg.white cfg.delim cfg.initial (clsOf cfg ext h) path first col) (col + 1) cs
      = specAt cfg.white cfg.delim cfg.initial (clsOf cfg ext h) path first (col + cs.length) := by
  intro cs
  induction cs with
  | nil => intro col _ _; simp [sWalk]
  | cons c cs ih =>
    intro col hle hcs
    have h0 : h[col + 1]? = some c := by simpa using hcs 0 c (by simp)
    have hcls : clsOf cfg ext h (col + 1) = charClass cfg ext c := by simp [clsOf, h0]
    simp only [sWalk, List.length_cons]
    have step := specAt_succ_of_le cfg.white cfg.delim cfg.initial (clsOf cfg ext h) path first col hle
    rw [hcls] at step
    rw [← step]
    have := ih (col + 1) (by omega)
      (by intro i d hi
          have := hcs (i + 1) d (by simpa using hi)
          have e : col + 1 + (i + 1) = col + 1 + 1 + i := by omega
          rw [e] at this; exact this)
    rw [this]
    congr 1
    omega

/-! ### every index of every cell's path lies at or after the window's first column -/

def RowLo (j0 : Nat) (row : List (Option Cell)) : Prop := ∀ (k : Nat) c, row[k]? = some (some c) → ∀ x ∈ c.path, j0 ≤ x

theorem pScore_lo (j0 : Nat) (prevM : Option Cell) (p : Option PCell)
    (hM : ∀ c, prevM = some c → ∀ x ∈ c.path, j0 ≤ x) (hP : ∀ q, p = some q → ∀ x ∈ q.path, j0 ≤ x) :
    ∀ q, pScore prevM p = some q → ∀ x ∈ q.path, j0 ≤ x := by
  intro q hq
  unfold pScore at hq
  split at hq
  · cases hq
  · cases hq; exact fun x hx => hM _ rfl x hx
  · cases hq; exact fun x hx => hP _ rfl x hx
  · split at hq <;> cases hq
    · exact fun x hx => hM _ rfl x hx
    · exact fun x hx => hP _ rfl x hx

theorem nextM_lo (j0 col b : Nat) (hcol : j0 ≤ col) (m : Option Cell) (p : Option PCell)
    (hM : ∀ c, m = some c → ∀ x ∈ c.path, j0 ≤ x) (hP : ∀ q, p = some q → ∀ x ∈ q.path, j0 ≤ x) :
    ∀ c, nextM p b m col = some c → ∀ x ∈ c.path, j0 ≤ x := by
  have app : ∀ (l : List Nat), (∀ x ∈ l, j0 ≤ x) → ∀ x ∈ l ++ [col], j0 ≤ x := by
    intro l hl x hx
    simp only [List.mem_append, List.mem_singleton] at hx
    rcases hx with hx | hx
    · exact hl x hx
    · omega
  intro c hc
  cases m with
  | none =>
    cases p with
    | none => simp [nextM] at hc
    | some q => simp only [nextM, Option.some.injEq] at hc; subst hc; exact app _ (hP _ rfl)
  | some c0 =>
    cases p with
    | none => simp only [nextM, Option.some.injEq] at hc; subst hc; exact app _ (hM _ rfl)
    | some q =>
      simp only [nextM] at hc
      by_cases hgt : c0.score + max (if b ≥ BONUS_BOUNDARY ∧ b > max c0.consec BONUS_CONSECUTIVE then b else max c0.consec BONUS_CONSECUTIVE) b > q.score + b
      · rw [if_pos hgt] at hc; injection hc with hc; subst hc; exact app _ (hM _ rfl)
      · rw [if_neg hgt] at hc; injection hc with hc; subst hc; exact app _ (hP _ rfl)

theorem nextRowGo_lo (nc j0 : Nat) :
    ∀ (ms : List (Option Cell)) (cols : List Col) (prevM : Option Cell) (p : Option PCell),
      (∀ c ∈ cols, j0 ≤ c.idx) → RowLo j0 ms →
      (∀ c, prevM = some c → ∀ x ∈ c.path, j0 ≤ x) → (∀ q, p = some q → ∀ x ∈ q.path, j0 ≤ x) →
      RowLo j0 (nextRowGo nc ms cols prevM p) := by
  intro ms
  induction ms with
  | nil => intro cols prevM p _ _ _ _ k c h; simp [nextRowGo] at h
  | cons mj ms ih =>
    intro cols prevM p hcols hrow hM hP
    match cols, hcols with
    | [], _ => intro k c h; simp [nextRowGo] at h
    | [_], _ => intro k c h; simp [nextRowGo] at h
    | cj :: cj1 :: cs, hcols =>
      have hP' := pScore_lo j0 prevM p hM hP
      have hmj : ∀ c, mj = some c → ∀ x ∈ c.path, j0 ≤ x := by
        intro c hc; exact hrow 0 c (by simp [hc])
      intro k c h
      cases k with
      | zero =>
        simp only [nextRowGo, List.getElem?_cons_zero, Option.some.injEq] at h
        split at h
        · exact nextM_lo j0 cj1.idx cj1.bonus (hcols cj1 (by simp)) mj _ hmj hP' c h
        · cases h
      | succ k =>
        simp only [nextRowGo, List.getElem?_cons_succ] at h
        exact ih (cj1 :: cs) mj (pScore prevM p) (fun c hc => hcols c (by simp [hc]))
          (fun k c hk => hrow (k + 1) c (by simpa using hk)) hmj hP' k c h

theorem allRows_lo (cols : List Col) (j0 : Nat) (hcols : ∀ c ∈ cols, j0 ≤ c.idx) :
    ∀ (ns : List Nat) (row : List (Option Cell)), RowLo j0 row → RowLo j0 (allRows cols ns row) := by
  intro ns
  induction ns with
  | nil => intro row h; simpa [allRows] using h
  | cons nc ns ih =>
    intro row h
    simp only [allRows]
    apply ih
    unfold nextRow
    cases cols with
    | nil => intro k c hk; simp at hk
    | cons c0 cs =>
      intro k c hk
      cases k with
      | zero => simp at hk
      | succ k =>
        simp only [List.getElem?_cons_succ] at hk
        exact nextRowGo_lo nc j0 row (c0 :: cs) none none hcols h (by intro c hc; cases hc) (by intro q hq; cases hq) k c hk

theorem firstRow_lo (n0 j0 : Nat) : ∀ (cols : List Col) (pb : Nat), (∀ c ∈ cols, j0 ≤ c.idx) → RowLo j0 (firstRow n0 cols pb) := by
  intro cols
  induction cols with
  | nil => intro _ _ k c h; simp [firstRow] at h
  | cons c0 cs ih =>
    intro pb hcols k c h
    cases k with
    | zero =>
      simp only [firstRow, List.getElem?_cons_zero, Option.some.injEq] at h
      split at h
      · injection h with h; subst h
        intro x hx; simp only [List.mem_singleton] at hx; subst hx; exact hcols c0 (by simp)
      · cases h
    | succ k =>
      simp only [firstRow, List.getElem?_cons_succ] at h
      exact ih _ (fun c hc => hcols c (by simp [hc])) k c h

theorem ColsOK.idx_ge {white delim : Nat} {initial : CharClass} {cls : Nat → CharClass} {cols : List Col} {j0 : Nat}
    (h : ColsOK white delim initial cls cols j0) : ∀ c ∈ cols, j0 ≤ c.idx := by
  intro c hc
  obtain ⟨k, hk⟩ := List.getElem?_of_mem hc
  have := (h k c hk).1
  omega

/-! ### the characters along every cell's path spell the needle prefix of its row -/

section
variable (chf : Nat → Nat)

def RowCh (np : List Nat) (row : List (Option Cell)) : Prop := ∀ (k : Nat) c, row[k]? = some (some c) → c.path.map chf = np

theorem pScore_ch (np : List Nat) (prevM : Option Cell) (p : Option PCell)
    (hM : ∀ c, prevM = some c → c.path.map chf = np) (hP : ∀ q, p = some q → q.path.map chf = np) :
    ∀ q, pScore prevM p = some q → q.path.map chf = np := by
  intro q hq
  cases prevM with
  | none =>
    cases p with
    | none => simp [pScore] at hq
    | some q0 => simp only [pScore, Option.some.injEq] at hq; subst hq; exact hP q0 rfl
  | some m =>
    cases p with
    | none => simp only [pScore, Option.some.injEq] at hq; subst hq; exact hM m rfl
    | some q0 =>
      simp only [pScore] at hq
      split at hq
      · injection hq with hq; subst hq; exact hM m rfl
      · injection hq with hq; subst hq; exact hP q0 rfl

theorem nextM_ch (np : List Nat) (col b nc : Nat) (hcol : chf col = nc) (m : Option Cell) (p : Option PCell)
    (hM : ∀ c, m = some c → c.path.map chf = np) (hP : ∀ q, p = some q → q.path.map chf = np) :
    ∀ c, nextM p b m col = some c → c.path.map chf = np ++ [nc] := by
  have app : ∀ (l : List Nat), l.map chf = np → (l ++ [col]).map chf = np ++ [nc] := by
    intro l hl; simp [hl, hcol]
  intro c hc
  cases m with
  | none =>
    cases p with
    | none => simp [nextM] at hc
    | some q => simp only [nextM, Option.some.injEq] at hc; subst hc; exact app _ (hP _ rfl)
  | some c0 =>
    cases p with
    | none => simp only [nextM, Option.some.injEq] at hc; subst hc; exact app _ (hM _ rfl)
    | some q =>
      simp only [nextM] at hc
      by_cases hgt : c0.score + max (if b ≥ BONUS_BOUNDARY ∧ b > max c0.consec BONUS_CONSECUTIVE then b else max c0.consec BONUS_CONSECUTIVE) b > q.score + b
      · rw [if_pos hgt] at hc; injection hc with hc; subst hc; exact app _ (hM _ rfl)
      · rw [if_neg hgt] at hc; injection hc with hc; subst hc; exact app _ (hP _ rfl)

theorem nextRowGo_ch (nc : Nat) (np : List Nat) :
    ∀ (ms : List (Option Cell)) (cols : List Col) (prevM : Option Cell) (p : Option PCell),
      (∀ c ∈ cols, chf c.idx = c.ch) → RowCh chf np ms →
      (∀ c, prevM = some c → c.path.map chf = np) → (∀ q, p = some q → q.path.map chf = np) →
      RowCh chf (np ++ [nc]) (nextRowGo nc ms cols prevM p) := by
  intro ms
  induction ms with
  | nil => intro cols prevM p _ _ _ _ k c h; simp [nextRowGo] at h
  | cons mj ms ih =>
    intro cols prevM p hcols hrow hM hP
    match cols, hcols with
    | [], _ => intro k c h; simp [nextRowGo] at h
    | [_], _ => intro k c h; simp [nextRowGo] at h
    | cj :: cj1 :: cs, hcols =>
      have hP' := pScore_ch chf np prevM p hM hP
      have hmj : ∀ c, mj = some c → c.path.map chf = np := by
        intro c hc; exact hrow 0 c (by simp [hc])
      intro k c h
      cases k with
      | zero =>
        simp only [nextRowGo, List.getElem?_cons_zero, Option.some.injEq] at h
        split at h
        · rename_i hch
          exact nextM_ch chf np cj1.idx cj1.bonus nc (by rw [hcols cj1 (by simp)]; exact hch) mj _ hmj hP' c h
        · cases h
      | succ k =>
        simp only [nextRowGo, List.getElem?_cons_succ] at h
        exact ih (cj1 :: cs) mj (pScore prevM p) (fun c hc => hcols c (by simp [hc]))
          (fun k c hk => hrow (k + 1) c (by simpa using hk)) hmj hP' k c h

theorem allRows_ch (cols : List Col) (hcols : ∀ c ∈ cols, chf c.idx = c.ch) :
    ∀ (ns : List Nat) (np : List Nat) (row : List (Option Cell)), RowCh chf np row → RowCh chf (np ++ ns) (allRows cols ns row) := by
  intro ns
  induction ns with
  | nil => intro np row h; simpa [allRows] using h
  | cons nc ns ih =>
    intro np row h
    simp only [allRows]
    have e : np ++ nc :: ns = (np ++ [nc]) ++ ns := by simp
    rw [e]
    apply ih
    unfold nextRow
    cases cols with
    | nil => intro k c hk; simp at hk
    | cons c0 cs =>
      intro k c hk
      cases k with
      | zero => simp at hk
      | succ k =>
        simp only [List.getElem?_cons_succ] at hk
        exact nextRowGo_ch chf nc np row (c0 :: cs) none none hcols h (by intro c hc; cases hc) (by intro q hq; cases hq) k c hk

theorem firstRow_ch (n0 : Nat) : ∀ (cols : List Col) (pb : Nat), (∀ c ∈ cols, chf c.idx = c.ch) → RowCh chf [n0] (firstRow n0 cols pb) := by
  intro cols
  induction cols with
  | nil => intro _ _ k c h; simp [firstRow] at h
  | cons c0 cs ih =>
    intro pb hcols k c h
    cases k with
    | zero =>
      simp only [firstRow, List.getElem?_cons_zero, Option.some.injEq] at h
      split at h
      · rename_i hch
        injection h with h; subst h
        simp [hcols c0 (by simp), hch]
      · cases h
    | succ k =>
      simp only [firstRow, List.getElem?_cons_succ] at h
      exact ih _ (fun c hc => hcols c (by simp [hc])) k c h

end

/-- the normalized character of the haystack at absolute column `x` (as `setup` stores it) -/
def chAt (cfg : Cfg) (hrep : Rep) (h : List Nat) (x : Nat) : Nat := (h[x]?.map (cnorm cfg hrep)).getD 0

theorem windowCols_go_ch (cfg : Cfg) (ext : Ext) (hrep : Rep) (h : List Nat) :
    ∀ (l : List Nat) (idx : Nat) (prev : CharClass), (∀ k c, l[k]? = some c → h[idx + k]? = some c) →
      ∀ c ∈ windowCols.go cfg ext hrep prev idx l, chAt cfg hrep h c.idx = c.ch := by
  intro l
  induction l with
  | nil => intro idx prev _ c hc; simp [windowCols.go] at hc
  | cons c0 cs ih =>
    intro idx prev hl c hc
    have h0 : h[idx]? = some c0 := by simpa using hl 0 c0 (by simp)
    simp only [windowCols.go, List.mem_cons] at hc
    rcases hc with hc | hc
    · subst hc; simp [chAt, h0]
    · exact ih (idx + 1) _ (by
        intro k c hk
        have := hl (k + 1) c (by simpa using hk)
        have e : idx + (k + 1) = idx + 1 + k := by omega
        rw [e] at this; exact this) c hc

theorem windowCols_ch (cfg : Cfg) (ext : Ext) (hrep : Rep) (h : List Nat) (start end_ : Nat) :
    ∀ c ∈ windowCols cfg ext hrep h start end_, chAt cfg hrep h c.idx = c.ch := by
  unfold windowCols
  apply windowCols_go_ch
  intro k c hk
  rw [List.getElem?_take] at hk
  split at hk
  · rw [List.getElem?_drop] at hk; exact hk
  · cases hk

/-! ### the result of the recurrence -/

/-- **the optimal matcher's recurrence reports the scheme's value of the alignment it reports, and that
    alignment is strictly increasing and inside the haystack** — for every configuration, haystack, needle and
    window, prefix preference off.  (The recurrence works on unbounded naturals here; that the `u16` cells of
    the real matrix never saturate on the matrix path is part of the correspondence.) -/
theorem optimalDP_eq_alignScore (cfg : Cfg) (ext : Ext) (hrep : Rep) (h n : List Nat) (start end_ : Nat)
    (hpp : cfg.preferPrefix = false) (sc : Nat) (path : List Nat)
    (hres : optimalDP cfg ext hrep h n start end_ = some (sc, path)) :
    sc = alignScore cfg ext h path ∧ path.Pairwise (· < ·) ∧ ∀ x ∈ path, start ≤ x ∧ x < h.length := by
  unfold optimalDP at hres
  cases n with
  | nil => simp at hres
  | cons n0 ns =>
    simp only at hres
    split at hres
    · cases hres
    · -- the chosen cell
      generalize hcols : windowCols cfg ext hrep h start end_ = cols at hres
      have hps : prefixStart cfg start = 0 := by simp [prefixStart, hpp]
      rw [hps] at hres
      cases hb : bestCell (allRows cols ns (firstRow n0 cols 0)) none with
      | none => rw [hb] at hres; cases hres
      | some c =>
        rw [hb] at hres
        simp only [Option.map_some, Option.some.injEq, Prod.mk.injEq] at hres
        obtain ⟨hsc, hpath⟩ := hres
        have colsok : ColsOK cfg.white cfg.delim cfg.initial (clsOf cfg ext h) cols start := by
          rw [← hcols]; exact windowCols_ok cfg ext hrep h start end_
        have rowinv := allRows_inv cfg.white cfg.delim cfg.initial (clsOf cfg ext h) cols start colsok ns _
          (firstRow_inv cfg.white cfg.delim cfg.initial (clsOf cfg ext h) n0 cols start colsok)
        rcases bestCell_mem _ _ _ hb with e | ⟨k, hk⟩
        · cases e
        · have inv := rowinv k c hk
          have hklen : k < cols.length := by
            have h1 : k < (allRows cols ns (firstRow n0 cols 0)).length := by
              apply Nat.lt_of_not_le
              intro hcon
              have : (allRows cols ns (firstRow n0 cols 0))[k]? = none := List.getElem?_eq_none hcon
              rw [this] at hk; cases hk
            have h2 := allRows_length_le cols ns (firstRow n0 cols 0) (by rw [firstRow_length]; exact Nat.le_refl _)
            omega
          have hjlt : start + k < h.length := by
            have := windowCols_length_le cfg ext hrep h start end_
            rw [hcols] at this
            omega
          obtain ⟨h1, h2, hne, h3, e1, _, _, _, _, hlast, hpw⟩ := inv
          subst hsc; subst hpath
          refine ⟨?_, hpw, ?_⟩
          · -- the specification on this path
            cases hp : c.path with
            | nil => exact absurd hp hne
            | cons first t =>
              have hfirst : firstOf c.path = first := by simp [firstOf, hp]
              rw [hfirst] at h1 e1 h3
              unfold alignScore
              simp only
              rw [← hp, hlast]
              simp only [Option.getD_some]
              have hflt : first < h.length := by omega
              have hdrop : h.drop first = h[first] :: h.drop (first + 1) := by
                rw [List.drop_eq_getElem_cons hflt]
              rw [hdrop]
              simp only
              have hcls0 : clsOf cfg ext h first = charClass cfg ext h[first] := by
                simp [clsOf, List.getElem?_eq_getElem hflt]
              have hinit : sInit cfg.white cfg.delim
                  (if first = 0 then cfg.initial else (h[first - 1]?.map (charClass cfg ext)).getD cfg.initial)
                  (charClass cfg ext h[first])
                  = specAt cfg.white cfg.delim cfg.initial (clsOf cfg ext h) c.path first first := by
                rw [specAt_le_first _ _ _ _ _ _ _ (Nat.le_refl _), hcls0]
                rfl
              rw [hinit]
              have hw := sWalk_eq_specAt cfg ext h c.path first ((h.drop (first + 1)).take (start + k - first)) first (Nat.le_refl _)
                (by intro i d hi
                    rw [List.getElem?_take] at hi
                    split at hi
                    · rw [List.getElem?_drop] at hi; exact hi
                    · cases hi)
              rw [hw]
              have hlen : ((h.drop (first + 1)).take (start + k - first)).length = start + k - first := by
                simp only [List.length_take, List.length_drop]; omega
              rw [hlen]
              have : first + (start + k - first) = start + k := by omega
              rw [this, e1]
          · intro x hx
            have := h3 x hx
            have lo := allRows_lo cols start colsok.idx_ge ns _ (firstRow_lo n0 start cols 0 colsok.idx_ge) k c hk x hx
            omega


end NucleoVerif.DP
