import NucleoVerif.Lemmas.DP
import NucleoVerif.Lemmas.Subseq
/-! Completeness of the recurrence: when the needle is a subsequence of the window's (normalized) characters,
the last row contains a cell, so the optimal matcher reports a match. -/
namespace NucleoVerif.DP
open Gen Spec NucleoVerif.Sub

def cellAt (row : List (Option Cell)) (k : Nat) : Bool :=
  match row[k]? with
  | some (some _) => true
  | _ => false

theorem pScore_isSome (m : Option Cell) (p : Option PCell) : (pScore m p).isSome = (m.isSome || p.isSome) := by
  cases m <;> cases p <;> simp [pScore]
  split <;> rfl

theorem nextM_isSome (p : Option PCell) (b : Nat) (m : Option Cell) (col : Nat) :
    (nextM p b m col).isSome = (m.isSome || p.isSome) := by
  cases m <;> cases p <;> simp [nextM]
  repeat' split
  all_goals rfl

theorem nextRowGo_length (nc : Nat) : ∀ (ms : List (Option Cell)) (cols : List Col) (prevM : Option Cell) (p : Option PCell),
    (nextRowGo nc ms cols prevM p).length = min ms.length (cols.length - 1) := by
  intro ms
  induction ms with
  | nil => intro cols _ _; simp [nextRowGo]
  | cons m ms ih =>
    intro cols prevM p
    match cols with
    | [] => simp [nextRowGo]
    | [_] => simp [nextRowGo]
    | cj :: cj1 :: cs =>
      simp only [nextRowGo, List.length_cons, ih]
      simp only [Nat.add_sub_cancel]
      omega

theorem nextRow_length (nc : Nat) (row : List (Option Cell)) (cols : List Col) (h : row.length = cols.length) :
    (nextRow nc row cols).length = cols.length := by
  unfold nextRow
  cases cols with
  | nil => simp
  | cons c cs =>
    simp only [List.length_cons, nextRowGo_length, h]
    simp only [Nat.add_sub_cancel]
    omega

theorem allRows_length (cols : List Col) : ∀ (ns : List Nat) (row : List (Option Cell)), row.length = cols.length →
    (allRows cols ns row).length = cols.length := by
  intro ns
  induction ns with
  | nil => intro row h; simpa [allRows] using h
  | cons nc ns ih => intro row h; simp only [allRows]; exact ih _ (nextRow_length nc row cols h)

theorem nextRowGo_has (nc : Nat) :
    ∀ (ms : List (Option Cell)) (cols : List Col) (prevM : Option Cell) (p : Option PCell) (k : Nat),
      (∃ c1, cols[k + 1]? = some c1 ∧ c1.ch = nc) → k < ms.length →
      (prevM.isSome = true ∨ p.isSome = true ∨ ∃ k', k' ≤ k ∧ cellAt ms k' = true) →
      cellAt (nextRowGo nc ms cols prevM p) k = true := by
  intro ms
  induction ms with
  | nil => intro _ _ _ k _ hk; simp at hk
  | cons mj ms ih =>
    intro cols prevM p k hcol hk hsrc
    match cols, hcol with
    | [], hcol => obtain ⟨c1, h1, _⟩ := hcol; simp at h1
    | [_], hcol => obtain ⟨c1, h1, _⟩ := hcol; simp at h1
    | cj :: cj1 :: cs, hcol =>
      have hp' : (pScore prevM p).isSome = (prevM.isSome || p.isSome) := pScore_isSome prevM p
      cases k with
      | zero =>
        obtain ⟨c1, h1, h2⟩ := hcol
        simp only [Nat.zero_add, List.getElem?_cons_succ, List.getElem?_cons_zero, Option.some.injEq] at h1
        subst h1
        have hsome : (nextM (pScore prevM p) cj1.bonus mj cj1.idx).isSome = true := by
          rw [nextM_isSome, hp']
          rcases hsrc with h | h | ⟨k', hk', hc⟩
          · simp [h]
          · simp [h]
          · have : k' = 0 := by omega
            subst this
            unfold cellAt at hc
            simp only [List.getElem?_cons_zero] at hc
            cases mj with
            | none => simp at hc
            | some _ => simp
        simp only [cellAt, nextRowGo, List.getElem?_cons_zero, h2, if_true]
        cases hn : nextM (pScore prevM p) cj1.bonus mj cj1.idx with
        | none => rw [hn] at hsome; cases hsome
        | some _ => rfl
      | succ k =>
        have := ih (cj1 :: cs) mj (pScore prevM p) k
          (by obtain ⟨c1, h1, h2⟩ := hcol; exact ⟨c1, by simpa using h1, h2⟩)
          (by simp at hk; omega)
          (by
            rcases hsrc with h | h | ⟨k', hk', hc⟩
            · right; left; rw [hp']; simp [h]
            · right; left; rw [hp']; simp [h]
            · cases k' with
              | zero =>
                left
                unfold cellAt at hc
                simp only [List.getElem?_cons_zero] at hc
                cases mj with
                | none => simp at hc
                | some _ => rfl
              | succ k'' =>
                right; right
                refine ⟨k'', by omega, ?_⟩
                unfold cellAt at hc ⊢
                simpa using hc)
        unfold cellAt at this ⊢
        simpa [nextRowGo] using this

theorem nextRow_has (nc : Nat) (row : List (Option Cell)) (cols : List Col) (k : Nat)
    (hcol : ∃ c1, cols[k + 1]? = some c1 ∧ c1.ch = nc) (hk : k < row.length)
    (hsrc : ∃ k', k' ≤ k ∧ cellAt row k' = true) : cellAt (nextRow nc row cols) (k + 1) = true := by
  unfold nextRow
  cases cols with
  | nil => obtain ⟨c1, h1, _⟩ := hcol; simp at h1
  | cons c0 cs =>
    have := nextRowGo_has nc row (c0 :: cs) none none k hcol hk (Or.inr (Or.inr hsrc))
    unfold cellAt at this ⊢
    simpa using this

theorem firstRow_has (n0 : Nat) : ∀ (cols : List Col) (pb : Nat) (k : Nat), (∃ c, cols[k]? = some c ∧ c.ch = n0) →
    cellAt (firstRow n0 cols pb) k = true := by
  intro cols
  induction cols with
  | nil => intro _ k h; obtain ⟨c, h1, _⟩ := h; simp at h1
  | cons c0 cs ih =>
    intro pb k h
    cases k with
    | zero =>
      obtain ⟨c, h1, h2⟩ := h
      simp only [List.getElem?_cons_zero, Option.some.injEq] at h1
      subst h1
      simp [cellAt, firstRow, h2]
    | succ k =>
      have := ih (pb - PENALTY_GAP_EXTENSION) k (by obtain ⟨c, h1, h2⟩ := h; exact ⟨c, by simpa using h1, h2⟩)
      unfold cellAt at this ⊢
      simpa [firstRow] using this

theorem bestCell_isSome : ∀ (row : List (Option Cell)) (best : Option Cell),
    (best.isSome = true ∨ ∃ k, cellAt row k = true) → (bestCell row best).isSome = true := by
  intro row
  induction row with
  | nil =>
    intro best h
    rcases h with h | ⟨k, hk⟩
    · simpa [bestCell] using h
    · simp [cellAt] at hk
  | cons m ms ih =>
    intro best h
    have shift : (∃ k, cellAt (m :: ms) k = true) → m.isSome = true ∨ ∃ k, cellAt ms k = true := by
      intro ⟨k, hk⟩
      cases k with
      | zero =>
        left
        unfold cellAt at hk
        simp only [List.getElem?_cons_zero] at hk
        cases m with
        | none => simp at hk
        | some _ => rfl
      | succ k => right; exact ⟨k, by unfold cellAt at hk ⊢; simpa using hk⟩
    cases m with
    | none =>
      simp only [bestCell]
      apply ih
      rcases h with h | h
      · exact Or.inl h
      · rcases shift h with h | h
        · cases h
        · exact Or.inr h
    | some c =>
      cases best with
      | none => simp only [bestCell]; exact ih _ (Or.inl rfl)
      | some b =>
        simp only [bestCell]
        split <;> exact ih _ (Or.inl rfl)

/-- first occurrence of a character among the columns -/
theorem subseqB_cols_first (nc : Nat) (ns : List Nat) (cols : List Col) (h : subseqB (nc :: ns) (cols.map (·.ch)) = true) :
    ∃ i c, cols[i]? = some c ∧ c.ch = nc ∧ subseqB ns ((cols.drop (i + 1)).map (·.ch)) = true := by
  have hf := subseqB_first id (fun x => x == nc) nc ns (cols.map (·.ch)) (by intro x _; simp)
  simp only [List.map_id] at hf
  rw [hf] at h
  cases hfi : findIdx (fun x => x == nc) (cols.map (·.ch)) with
  | none => rw [hfi] at h; cases h
  | some i =>
    rw [hfi] at h
    simp only at h
    obtain ⟨hi, ⟨x, hx1, hx2⟩, _⟩ := findIdx_some _ _ i hfi
    simp only [List.length_map] at hi
    refine ⟨i, cols[i], List.getElem?_eq_getElem hi, ?_, ?_⟩
    · rw [List.getElem?_map, List.getElem?_eq_getElem hi] at hx1
      simp only [Option.map_some, Option.some.injEq] at hx1
      rw [hx1]; simpa using hx2
    · rw [List.map_drop]; exact h

theorem allRows_complete (cols : List Col) : ∀ (ns : List Nat) (row : List (Option Cell)), row.length = cols.length →
    (∃ j, cellAt row j = true ∧ subseqB ns ((cols.drop (j + 1)).map (·.ch)) = true) →
    ∃ j, cellAt (allRows cols ns row) j = true := by
  intro ns
  induction ns with
  | nil => intro row _ ⟨j, hj, _⟩; exact ⟨j, by simpa [allRows] using hj⟩
  | cons nc ns ih =>
    intro row hlen ⟨j, hj, hsub⟩
    simp only [allRows]
    apply ih _ (nextRow_length nc row cols hlen)
    obtain ⟨i, c, hc1, hc2, hc3⟩ := subseqB_cols_first nc ns (cols.drop (j + 1)) hsub
    rw [List.getElem?_drop] at hc1
    rw [List.drop_drop] at hc3
    have hlt : j + 1 + i < cols.length := by
      rcases Nat.lt_or_ge (j + 1 + i) cols.length with hl | hl
      · exact hl
      · rw [List.getElem?_eq_none hl] at hc1; cases hc1
    refine ⟨j + i + 1, ?_, ?_⟩
    · apply nextRow_has nc row cols (j + i)
      · exact ⟨c, by rw [← hc1]; congr 1; omega, hc2⟩
      · omega
      · exact ⟨j, by omega, hj⟩
    · have e : j + i + 1 + 1 = j + 1 + (i + 1) := by omega
      rw [e]; exact hc3

/-- **the recurrence reports a match exactly when the needle is a subsequence of the window's characters** -/
theorem optimalDP_isSome (cfg : Cfg) (ext : Ext) (hrep : Rep) (h : List Nat) (n0 : Nat) (ns : List Nat) (start end_ : Nat) :
    (optimalDP cfg ext hrep h (n0 :: ns) start end_).isSome =
      subseqB (n0 :: ns) ((windowCols cfg ext hrep h start end_).map (·.ch)) := by
  have hsm : ∀ (ns : List Nat) (cols : List Col), setupMatched ns cols = subseqB ns (cols.map (·.ch)) := by
    intro ns cols
    induction cols generalizing ns with
    | nil => cases ns <;> simp [setupMatched, subseqB]
    | cons c cs ih =>
      cases ns with
      | nil => simp [setupMatched, subseqB]
      | cons nc ns =>
        simp only [setupMatched, List.map_cons, subseqB]
        by_cases e : c.ch = nc
        · have e' : nc = c.ch := e.symm
          simp [e, ih]
        · have e' : ¬ (nc = c.ch) := fun h => e h.symm
          simp [e, e', ih]
  unfold optimalDP
  simp only
  generalize windowCols cfg ext hrep h start end_ = cols
  rw [hsm]
  cases hs : subseqB (n0 :: ns) (cols.map (·.ch)) with
  | false => simp
  | true =>
    simp only [Bool.not_true, Bool.false_eq_true, if_false, Option.isSome_map]
    obtain ⟨i, c, hc1, hc2, hc3⟩ := subseqB_cols_first n0 ns cols hs
    have hrow := firstRow_has n0 cols (prefixStart cfg start) i ⟨c, hc1, hc2⟩
    obtain ⟨j, hj⟩ := allRows_complete cols ns (firstRow n0 cols (prefixStart cfg start)) (firstRow_length n0 cols _) ⟨i, hrow, hc3⟩
    exact bestCell_isSome _ none (Or.inr ⟨j, hj⟩)

end NucleoVerif.DP
