import NucleoVerif.Lemmas.DPComplete
/-! The optimal matcher's recurrence does not depend on the prefilter window (C04, lower-bound clause).

The model's `optimalDP … start end` evaluates the two-matrix recurrence on the columns of the window `h[start..end]`.
Columns in front of the first occurrence of the first needle character, and columns behind the last occurrence of the
last needle character, cannot contribute: the rows over `pre ++ w ++ post` are the rows over `w`, padded with empty
cells.  So the window the prefilter chooses loses nothing against the recurrence evaluated on the full matrix. -/
namespace NucleoVerif
open Gen DP

/-! ### `nextRowGo` without the look-ahead pattern -/

/-- `nextRowGo` with the first column already dropped: cell for column `cj1` from `M(i, j)` (`mj`) and the running `P` -/
def zipGo (nc : Nat) : List (Option Cell) → List Col → Option Cell → Option PCell → List (Option Cell)
  | mj :: ms, cj1 :: cs, prevM, p =>
    (if cj1.ch = nc then nextM (pScore prevM p) cj1.bonus mj cj1.idx else none) :: zipGo nc ms cs mj (pScore prevM p)
  | _, _, _, _ => []

theorem nextRowGo_eq_zip (nc : Nat) : ∀ (ms : List (Option Cell)) (c0 : Col) (cs : List Col) (prevM : Option Cell) (p : Option PCell),
    nextRowGo nc ms (c0 :: cs) prevM p = zipGo nc ms cs prevM p := by
  intro ms
  induction ms with
  | nil => intro c0 cs prevM p; cases cs <;> simp [nextRowGo, zipGo]
  | cons mj ms ih =>
    intro c0 cs prevM p
    cases cs with
    | nil => simp [nextRowGo, zipGo]
    | cons cj1 cs' =>
      simp only [nextRowGo, zipGo]
      rw [ih cj1 cs' mj (pScore prevM p)]

theorem nextRow_cons (nc : Nat) (row : List (Option Cell)) (c0 : Col) (cs : List Col) :
    nextRow nc row (c0 :: cs) = none :: zipGo nc row cs none none := by
  simp only [nextRow, nextRowGo_eq_zip]

theorem zipGo_length (nc : Nat) : ∀ (ms : List (Option Cell)) (cs : List Col) (prevM : Option Cell) (p : Option PCell),
    (zipGo nc ms cs prevM p).length = min ms.length cs.length := by
  intro ms
  induction ms with
  | nil => intro cs _ _; simp [zipGo]
  | cons m ms ih =>
    intro cs prevM p
    cases cs with
    | nil => simp [zipGo]
    | cons c cs => simp only [zipGo, List.length_cons, ih]; omega

/-! ### columns in front of the window -/

theorem pScore_none : pScore none none = none := rfl
theorem nextM_none (b col : Nat) : nextM none b none col = none := rfl

theorem zipGo_nones (nc : Nat) : ∀ (pre : List Col) (R : List (Option Cell)) (C : List Col),
    zipGo nc (List.replicate pre.length none ++ R) (pre ++ C) none none = List.replicate pre.length none ++ zipGo nc R C none none := by
  intro pre
  induction pre with
  | nil => intro R C; rfl
  | cons c pre ih =>
    intro R C
    simp only [List.length_cons, List.replicate_succ, List.cons_append, zipGo, pScore_none, nextM_none, ite_self]
    rw [ih R C]

theorem cons_replicate_append {α} (a : α) (k : Nat) (Y : List α) : a :: (List.replicate k a ++ Y) = List.replicate k a ++ (a :: Y) := by
  induction k with
  | zero => rfl
  | succ k ih => simp only [List.replicate_succ, List.cons_append, ih]

/-- the row over `pre ++ C` of a row that is empty over `pre` is empty over `pre` and the row over `C` behind it -/
theorem nextRow_nones (nc : Nat) (pre : List Col) (R : List (Option Cell)) (c0 : Col) (C : List Col) :
    nextRow nc (List.replicate pre.length none ++ R) (pre ++ c0 :: C) = List.replicate pre.length none ++ nextRow nc R (c0 :: C) := by
  cases pre with
  | nil => rfl
  | cons p0 pre' =>
    rw [List.cons_append, nextRow_cons, nextRow_cons]
    have e : List.replicate (p0 :: pre').length (none : Option Cell) ++ R = List.replicate pre'.length none ++ (none :: R) := by
      simp only [List.length_cons, List.replicate_succ']
      simp
    rw [e, zipGo_nones nc pre' (none :: R) (c0 :: C)]
    simp only [zipGo, pScore_none, nextM_none, ite_self, List.length_cons, List.replicate_succ, List.cons_append, cons_replicate_append]

theorem firstRow_nones (n0 : Nat) : ∀ (pre C : List Col), (∀ c ∈ pre, c.ch ≠ n0) →
    firstRow n0 (pre ++ C) 0 = List.replicate pre.length none ++ firstRow n0 C 0 := by
  intro pre
  induction pre with
  | nil => intro C _; rfl
  | cons c pre ih =>
    intro C h
    have hc : c.ch ≠ n0 := h c (by simp)
    simp only [List.cons_append, firstRow, hc, if_false, List.length_cons, List.replicate_succ, Nat.zero_sub]
    rw [ih C (fun d hd => h d (by simp [hd]))]

theorem allRows_nones (pre : List Col) (c0 : Col) (C : List Col) : ∀ (ns : List Nat) (R : List (Option Cell)),
    allRows (pre ++ c0 :: C) ns (List.replicate pre.length none ++ R) = List.replicate pre.length none ++ allRows (c0 :: C) ns R := by
  intro ns
  induction ns with
  | nil => intro R; rfl
  | cons nc ns ih =>
    intro R
    simp only [allRows]
    rw [nextRow_nones, ih]

theorem bestCell_nones : ∀ (k : Nat) (L : List (Option Cell)) (b : Option Cell), bestCell (List.replicate k none ++ L) b = bestCell L b := by
  intro k
  induction k with
  | zero => intro L b; rfl
  | succ k ih => intro L b; simp only [List.replicate_succ, List.cons_append, bestCell]; exact ih L b

theorem bestCell_append_nones : ∀ (L : List (Option Cell)) (k : Nat) (b : Option Cell), bestCell (L ++ List.replicate k none) b = bestCell L b := by
  intro L
  induction L with
  | nil => intro k b; simpa using bestCell_nones k [] b
  | cons c L ih =>
    intro k b
    cases c with
    | none => simp only [List.cons_append, bestCell]; exact ih k b
    | some c =>
      cases b with
      | none => simp only [List.cons_append, bestCell]; exact ih k _
      | some b => simp only [List.cons_append, bestCell]; exact ih k _

/-! ### columns behind the window -/

theorem zipGo_append (nc : Nat) : ∀ (r1 : List (Option Cell)) (c1 : List Col), r1.length = c1.length →
    ∀ (r2 : List (Option Cell)) (c2 : List Col) (prevM : Option Cell) (p : Option PCell),
      ∃ pm pp, zipGo nc (r1 ++ r2) (c1 ++ c2) prevM p = zipGo nc r1 c1 prevM p ++ zipGo nc r2 c2 pm pp := by
  intro r1
  induction r1 with
  | nil =>
    intro c1 h r2 c2 prevM p
    have : c1 = [] := by cases c1 with | nil => rfl | cons _ _ => simp at h
    subst this
    exact ⟨prevM, p, by simp [zipGo]⟩
  | cons m r1 ih =>
    intro c1 h r2 c2 prevM p
    cases c1 with
    | nil => simp at h
    | cons c c1 =>
      obtain ⟨pm, pp, e⟩ := ih c1 (by simpa using h) r2 c2 m (pScore prevM p)
      exact ⟨pm, pp, by simp only [List.cons_append, zipGo, e]⟩

theorem zipGo_none_of_ch (nc : Nat) : ∀ (ms : List (Option Cell)) (cs : List Col) (prevM : Option Cell) (p : Option PCell),
    (∀ c ∈ cs, c.ch ≠ nc) → zipGo nc ms cs prevM p = List.replicate (min ms.length cs.length) none := by
  intro ms
  induction ms with
  | nil => intro cs _ _ _; simp [zipGo]
  | cons m ms ih =>
    intro cs prevM p h
    cases cs with
    | nil => simp [zipGo]
    | cons c cs =>
      have hc : c.ch ≠ nc := h c (by simp)
      simp only [zipGo, hc, if_false, List.length_cons]
      rw [ih cs m _ (fun d hd => h d (by simp [hd]))]
      have : min (ms.length + 1) (cs.length + 1) = min ms.length cs.length + 1 := by omega
      rw [this, List.replicate_succ]

/-- the row over `W ++ post` starts with the row over `W`; behind it come `|post|` cells, all empty when `nc` does not
    occur in `post` -/
theorem nextRow_suffix (nc : Nat) (w0 : Col) (W post : List Col) (rw rpost : List (Option Cell))
    (h1 : rw.length = (w0 :: W).length) (h2 : rpost.length = post.length) :
    ∃ T, nextRow nc (rw ++ rpost) ((w0 :: W) ++ post) = nextRow nc rw (w0 :: W) ++ T ∧ T.length = post.length ∧
      ((∀ c ∈ post, c.ch ≠ nc) → T = List.replicate post.length none) := by
  -- split the last cell off `rw`
  have hne : rw ≠ [] := by intro e; rw [e] at h1; simp at h1
  obtain ⟨rwi, l, rfl⟩ : ∃ rwi l, rw = rwi ++ [l] := ⟨rw.dropLast, rw.getLast hne, (List.dropLast_concat_getLast hne).symm⟩
  have hlen : rwi.length = W.length := by simp at h1; omega
  rw [List.cons_append, nextRow_cons, nextRow_cons]
  have e1 : rwi ++ [l] ++ rpost = rwi ++ (l :: rpost) := by simp
  rw [e1]
  obtain ⟨pm, pp, e⟩ := zipGo_append nc rwi W hlen (l :: rpost) post none none
  rw [e]
  have e2 : zipGo nc (rwi ++ [l]) W none none = zipGo nc rwi W none none := by
    obtain ⟨pm', pp', e'⟩ := zipGo_append nc rwi W hlen [l] [] none none
    rw [List.append_nil] at e'
    rw [e']; simp [zipGo]
  rw [e2]
  refine ⟨zipGo nc (l :: rpost) post pm pp, by simp, ?_, fun hp => ?_⟩
  · rw [zipGo_length]; simp only [List.length_cons]; omega
  · rw [zipGo_none_of_ch nc _ _ _ _ hp]; simp only [List.length_cons]
    have : min (rpost.length + 1) post.length = post.length := by omega
    rw [this]

theorem firstRow_append (n0 : Nat) : ∀ (W post : List Col) (pb : Nat),
    ∃ pb', firstRow n0 (W ++ post) pb = firstRow n0 W pb ++ firstRow n0 post pb' := by
  intro W
  induction W with
  | nil => intro post pb; exact ⟨pb, rfl⟩
  | cons c W ih =>
    intro post pb
    obtain ⟨pb', e⟩ := ih post (pb - PENALTY_GAP_EXTENSION)
    exact ⟨pb', by simp only [List.cons_append, firstRow, e]⟩

theorem firstRow_none_of_ch (n0 : Nat) : ∀ (cs : List Col) (pb : Nat), (∀ c ∈ cs, c.ch ≠ n0) →
    firstRow n0 cs pb = List.replicate cs.length none := by
  intro cs
  induction cs with
  | nil => intro _ _; rfl
  | cons c cs ih =>
    intro pb h
    have hc : c.ch ≠ n0 := h c (by simp)
    simp only [firstRow, hc, if_false, List.length_cons, List.replicate_succ]
    rw [ih _ (fun d hd => h d (by simp [hd]))]

/-- the rows over `W ++ post`: the rows over `W`, and behind them empty cells in the last row when the last needle
    character does not occur in `post` -/
theorem allRows_suffix (w0 : Col) (W post : List Col) : ∀ (ns : List Nat) (nlast : Nat) (rw rpost : List (Option Cell)),
    rw.length = (w0 :: W).length → rpost.length = post.length → (ns ++ [nlast]).getLast? = some nlast →
    (∀ c ∈ post, c.ch ≠ nlast) →
    allRows ((w0 :: W) ++ post) (ns ++ [nlast]) (rw ++ rpost) = allRows (w0 :: W) (ns ++ [nlast]) rw ++ List.replicate post.length none := by
  intro ns
  induction ns with
  | nil =>
    intro nlast rw rpost h1 h2 _ hp
    simp only [List.nil_append, allRows]
    obtain ⟨T, e, _, hT⟩ := nextRow_suffix nlast w0 W post rw rpost h1 h2
    rw [e, hT hp]
  | cons nc ns ih =>
    intro nlast rw rpost h1 h2 _ hp
    rw [show (nc :: ns) ++ [nlast] = nc :: (ns ++ [nlast]) from rfl]
    simp only [allRows]
    obtain ⟨T, e, hl, _⟩ := nextRow_suffix nc w0 W post rw rpost h1 h2
    rw [e]
    exact ih nlast _ T (by rw [nextRow_length nc rw (w0 :: W) h1]) hl (by simp) hp

end NucleoVerif
