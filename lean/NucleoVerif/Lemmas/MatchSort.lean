import NucleoVerif.Props.C06
import NucleoVerif.Props.C18
/-! The worker's comparison is a strict total order; insertion sort by it yields the sorted permutation; placeholders
sort last and are what the truncation removes. -/
namespace NucleoVerif.Nu

variable (len : Item → Nat) (items : Nat → Option Item)

/-- the key the comparison orders by: (−score, placeholder?, length, index), lexicographically -/
def mkey (m : Match) : Nat × Nat × Nat × Nat :=
  (m.score, if m.idx = PLACE then 1 else 0, if m.idx = PLACE then 0 else ((items m.idx).map len |>.getD 0), if m.idx = PLACE then 0 else m.idx)

theorem matchLess_iff (a b : Match) :
    matchLess len items a b = true ↔
      a.score > b.score ∨ (a.score = b.score ∧ a.idx ≠ PLACE ∧
        (b.idx = PLACE ∨ (b.idx ≠ PLACE ∧
          (((items a.idx).map len |>.getD 0) < ((items b.idx).map len |>.getD 0) ∨
           (((items a.idx).map len |>.getD 0) = ((items b.idx).map len |>.getD 0) ∧ a.idx < b.idx))))) := by
  unfold matchLess
  by_cases hs : a.score = b.score
  · simp only [hs, ne_eq, not_true_eq_false, if_false, gt_iff_lt, Nat.lt_irrefl, false_or, true_and]
    by_cases ha : a.idx = PLACE
    · simp [ha]
    · simp only [ha, if_false, ne_eq, not_false_eq_true, true_and]
      by_cases hb : b.idx = PLACE
      · simp [hb]
      · simp only [hb, if_false, false_or, not_false_eq_true, true_and]
        by_cases hl : ((items a.idx).map len |>.getD 0) = ((items b.idx).map len |>.getD 0)
        · simp [hl]
        · simp only [hl, if_false, decide_eq_true_eq, false_and, or_false]
  · simp only [ne_eq, hs, not_false_eq_true, if_true, gt_iff_lt, decide_eq_true_eq, false_and, or_false]

theorem matchLess_trans (a b c : Match) (h1 : matchLess len items a b = true) (h2 : matchLess len items b c = true) :
    matchLess len items a c = true := by
  rw [matchLess_iff] at *
  rcases h1 with h1 | ⟨e1, na, h1⟩
  · rcases h2 with h2 | ⟨e2, _, _⟩
    · left; omega
    · left; omega
  · rcases h2 with h2 | ⟨e2, nb, h2⟩
    · left; omega
    · right
      refine ⟨by omega, na, ?_⟩
      rcases h1 with pb | ⟨_, h1⟩
      · exact absurd pb nb
      · rcases h2 with pc | ⟨nc, h2⟩
        · exact Or.inl pc
        · right
          refine ⟨nc, ?_⟩
          rcases h1 with l1 | ⟨l1, i1⟩ <;> rcases h2 with l2 | ⟨l2, i2⟩
          · left; omega
          · left; omega
          · left; omega
          · right; exact ⟨by omega, by omega⟩

theorem matchLess_asymm (a b : Match) (h1 : matchLess len items a b = true) : matchLess len items b a = false := by
  cases h : matchLess len items b a with
  | false => rfl
  | true =>
    have := matchLess_trans len items a b a h1 h
    rw [matchLess_irrefl] at this; cases this

/-- "`a` may stand before `b`" -/
def mle (a b : Match) : Prop := matchLess len items b a = false

theorem mle_of_less (a b : Match) (h : matchLess len items a b = true) : mle len items a b := matchLess_asymm len items a b h

theorem mle_total (a b : Match) : mle len items a b ∨ mle len items b a := by
  unfold mle
  cases h : matchLess len items b a with
  | false => exact Or.inl rfl
  | true => exact Or.inr (matchLess_asymm len items b a h)

theorem mle_trans (a b c : Match) (h1 : mle len items a b) (h2 : mle len items b c) : mle len items a c := by
  unfold mle at *
  cases h : matchLess len items c a with
  | false => rfl
  | true =>
    -- c < a and ¬ (b < a): then c < b or c, b equivalent…; use totality on distinct elements
    by_cases hcb : c = b
    · subst hcb; rw [h] at h1; cases h1
    · rcases matchLess_total len items c b hcb with hlt | hlt
      · rw [hlt] at h2; cases h2
      · -- b < c < a gives b < a
        have := matchLess_trans len items b c a hlt h
        rw [this] at h1; cases h1

theorem insertMatch_perm (x : Match) : ∀ l, (insertMatch len items x l).Perm (x :: l) := by
  intro l
  induction l with
  | nil => exact List.Perm.refl _
  | cons y ys ih =>
    simp only [insertMatch]
    split
    · exact List.Perm.refl _
    · exact (List.Perm.cons y ih).trans (List.Perm.swap x y ys)

theorem sortMatches_perm : ∀ l, (sortMatches len items l).Perm l := by
  intro l
  induction l with
  | nil => exact List.Perm.refl _
  | cons x xs ih =>
    simp only [sortMatches, List.foldr_cons]
    exact (insertMatch_perm len items x _).trans (List.Perm.cons x ih)

theorem insertMatch_sorted (x : Match) : ∀ l, l.Pairwise (mle len items) → (insertMatch len items x l).Pairwise (mle len items) := by
  intro l
  induction l with
  | nil => intro _; simp [insertMatch]
  | cons y ys ih =>
    intro h
    have h' := List.pairwise_cons.mp h
    simp only [insertMatch]
    split
    · rename_i hlt
      refine List.pairwise_cons.mpr ⟨?_, h⟩
      intro z hz
      rcases List.mem_cons.mp hz with rfl | hz
      · exact mle_of_less len items x z hlt
      · exact mle_trans len items x y z (mle_of_less len items x y hlt) (h'.1 z hz)
    · rename_i hnlt
      have hyx : mle len items y x := by unfold mle; simpa using hnlt
      refine List.pairwise_cons.mpr ⟨?_, ih h'.2⟩
      intro z hz
      have := (insertMatch_perm len items x ys).subset hz
      rcases List.mem_cons.mp this with rfl | hz'
      · exact hyx
      · exact h'.1 z hz'

theorem sortMatches_sorted : ∀ l, (sortMatches len items l).Pairwise (mle len items) := by
  intro l
  induction l with
  | nil => simp [sortMatches]
  | cons x xs ih =>
    simp only [sortMatches, List.foldr_cons]
    exact insertMatch_sorted len items x _ ih

/-! ### placeholders sort last and are exactly what the truncation removes -/

def isPlace (m : Match) : Bool := m.idx == PLACE

theorem countPlace_eq (ms : List Match) : countPlace ms = (ms.filter isPlace).length := by
  unfold countPlace isPlace
  congr 1

/-- in a list sorted by the worker's comparison whose placeholders all have score 0, no placeholder stands in front of
    a real entry -/
theorem place_not_before (a b : Match) (ha : isPlace a = true) (ha0 : a.score = 0) (hb : isPlace b = false)
    (h : mle len items a b) : False := by
  unfold mle at h
  have : matchLess len items b a = true := by
    rw [matchLess_iff]
    have hai : a.idx = PLACE := by simpa [isPlace] using ha
    have hbi : b.idx ≠ PLACE := by simpa [isPlace] using hb
    by_cases hs : b.score = 0
    · right; exact ⟨by omega, hbi, Or.inl hai⟩
    · left; omega
  rw [this] at h; cases h

theorem take_drops_places : ∀ (l : List Match), l.Pairwise (mle len items) → (∀ m ∈ l, isPlace m = true → m.score = 0) →
    l.take (l.length - (l.filter isPlace).length) = l.filter (fun m => !isPlace m) := by
  intro l
  induction l with
  | nil => intro _ _; rfl
  | cons a t ih =>
    intro hs h0
    have hs' := List.pairwise_cons.mp hs
    have iht := ih hs'.2 (fun m hm => h0 m (by simp [hm]))
    have hle : (t.filter isPlace).length ≤ t.length := List.length_filter_le _ _
    by_cases ha : isPlace a = true
    · -- then everything behind it is a placeholder as well
      have hall : ∀ m ∈ t, isPlace m = true := by
        intro m hm
        cases hp : isPlace m with
        | true => rfl
        | false => exact absurd (place_not_before len items a m ha (h0 a (by simp) ha) hp (hs'.1 m hm)) (fun x => x)
      have hf : t.filter isPlace = t := List.filter_eq_self.mpr hall
      have hnf : t.filter (fun m => !isPlace m) = [] := by
        apply List.filter_eq_nil_iff.mpr
        intro m hm; simp [hall m hm]
      simp [List.filter_cons, ha, hf, hnf]
    · have ha' : isPlace a = false := by simpa using ha
      simp only [List.filter_cons, ha', Bool.false_eq_true, if_false, Bool.not_false, if_true, List.length_cons]
      have e : t.length + 1 - (t.filter isPlace).length = (t.length - (t.filter isPlace).length) + 1 := by omega
      rw [e, List.take_succ_cons, iht]

end NucleoVerif.Nu
