import NucleoVerif.Lemmas.OptPopulate
namespace NucleoVerif.OptImpl
open NucleoVerif NucleoVerif.Gen NucleoVerif.Gen.Opt NucleoVerif.DP

/-! ## `setup`'s first row -/

theorem setup_spec (c : Ctx) (g : Good c) (hNW : c.n.length ≤ c.cols.length) (clen : Nat) (hclen : c.seg (c.n.length - 1) ≤ clen)
    (cur0 : List ScoreCell) (cells0 : List MatrixCell) (h1 : cur0.length = c.width) (h2 : cells0.length = clen) :
    Inv c clen 1 { rowStep true c.cols c.width ⟨cur0, cells0, 0⟩ 0 (c.so 1) 0 (c.n.getD 0 0) (c.n.getD 1 0) c.pb with off := c.width } := by
  have hro : c.ro 0 = 0 := rfl
  have hL : c.L 0 = c.width := by simp [Ctx.L, Ctx.ro]
  have hN := g.hN
  have hw : c.width ≤ c.cols.length := by unfold Ctx.width; omega
  have hrel : All2 CellRel (eff true (c.n.getD 0 0) (c.cols.drop (c.ro 0)) c.pb (cur0.drop (c.ro 0 - 0))) (((c.row 0).drop (c.ro 0)).take (c.L 0)) := by
    rw [hro, hL, List.drop_zero, List.drop_zero, List.drop_zero, ← h1]
    unfold eff
    simp only [if_true]
    exact fstCells_rel (c.n.getD 0 0) cur0 c.cols c.pb (by rw [h1]; exact hw) g.hb
  have hs1 := seg_succ c g 0 (by omega)
  have spec := rowStep_spec c true 0 ⟨cur0, cells0, 0⟩ (c.n.getD 0 0) (c.n.getD 1 0) c.pb _ (by omega) hNW h1 rfl (Nat.le_refl _)
    (by rw [hro]; exact Nat.zero_le _) (g.hinc 0 (by omega)) (g.hlo 1 (by omega)).2
    (by show c.seg 0 + c.L 0 ≤ cells0.length
        rw [h2, ← hs1]; exact Nat.le_trans (seg_mono c g (c.n.length - 1) 1 (by omega) (by omega)) hclen)
    (g.hnone 0 (by omega)) (g.hsome 0 (by omega)) g.hb rfl rfl hrel (fun h => absurd h (by omega))
  rw [hro] at spec
  obtain ⟨sp1, sp2, sp3, sp4, sp5⟩ := spec
  refine ⟨sp1, ?_, by show (rowStep true c.cols c.width ⟨cur0, cells0, 0⟩ 0 (c.so 1) 0 (c.n.getD 0 0) (c.n.getD 1 0) c.pb).cells.length = clen; rw [sp2]; exact h2, ?_, ?_⟩
  · show c.width = c.seg 1
    simp [Ctx.seg]
  · show All2 StepRel ((rowStep true c.cols c.width ⟨cur0, cells0, 0⟩ 0 (c.so 1) 0 (c.n.getD 0 0) (c.n.getD 1 0) c.pb).cur.drop (c.so 1 - 1)) _
    rw [show (1 : Nat) - 1 = 0 from rfl, hro]
    have e : c.so (0 + 1) - 1 - 0 = c.so 1 - 1 := Nat.sub_zero _
    rw [e] at sp3
    exact sp3
  · intro r hr
    have : r = 0 := by omega
    subst this
    exact sp4

/-! ## the best cell of the last row -/

/-- what the two running maxima have in common after a prefix of the last row -/
def Acc (ps : List ScoreCell) (pP : List NStep) (ib : Option (Nat × ScoreCell)) (nb : Option Cell) : Prop :=
  (nb = none ∧ ∀ x, ib = some x → x.2.score = 0) ∨
  ∃ c e sc st, nb = some c ∧ ib = some (e, sc) ∧ ps[e]? = some sc ∧ pP[e]? = some st ∧ st.out = some c ∧ StepRel sc st

theorem maxBy_spec : ∀ (ss : List ScoreCell) (sP : List NStep) (ps : List ScoreCell) (pP : List NStep) (ib : Option (Nat × ScoreCell)) (nb : Option Cell),
    ps.length = pP.length → All2 StepRel ss sP → Acc ps pP ib nb →
    Acc (ps ++ ss) (pP ++ sP) (maxByScore ss ps.length ib) (bestCell (sP.map NStep.out) nb) := by
  intro ss
  induction ss with
  | nil =>
    intro sP ps pP ib nb _ h acc
    cases sP with
    | nil => simpa [maxByScore, bestCell] using acc
    | cons _ _ => cases h
  | cons sc ss ih =>
    intro sP ps pP ib nb hl h acc
    cases sP with
    | nil => cases h
    | cons st sP =>
      obtain ⟨hst, hrest⟩ := h
      have e1 : ps ++ sc :: ss = (ps ++ [sc]) ++ ss := by simp
      have e2 : pP ++ st :: sP = (pP ++ [st]) ++ sP := by simp
      have hl' : (ps ++ [sc]).length = (pP ++ [st]).length := by simp [hl]
      have hnew1 : (ps ++ [sc])[ps.length]? = some sc := by simp
      have hnew2 : (pP ++ [st])[ps.length]? = some st := by rw [hl]; simp
      have lift : ∀ e x, ps[e]? = some x → (ps ++ [sc])[e]? = some x := fun e x hx => by
        rw [List.getElem?_append_left (by
          rcases Nat.lt_or_ge e ps.length with h | h
          · exact h
          · rw [List.getElem?_eq_none h] at hx; cases hx)]; exact hx
      have lift2 : ∀ e x, pP[e]? = some x → (pP ++ [st])[e]? = some x := fun e x hx => by
        rw [List.getElem?_append_left (by
          rcases Nat.lt_or_ge e pP.length with h | h
          · exact h
          · rw [List.getElem?_eq_none h] at hx; cases hx)]; exact hx
      rw [e1, e2, List.map_cons]
      have hlen1 : (ps ++ [sc]).length = ps.length + 1 := by simp
      cases hout : st.out with
      | none =>
        have hsc : sc = UNMATCHED := by have := hst.1; rw [hout] at this; exact this
        simp only [bestCell]
        rcases acc with ⟨hnb, hib⟩ | ⟨c, e, sc0, st0, hnb, hib, g1, g2, g3, g4⟩
        · subst hnb
          cases ib with
          | none =>
            simp only [maxByScore]
            rw [← hlen1]
            exact ih sP _ _ _ _ hl' hrest (Or.inl ⟨rfl, fun x hx => by cases hx; rw [hsc]; rfl⟩)
          | some b =>
            simp only [maxByScore]
            have hb0 := hib b rfl
            have : sc.score ≥ b.2.score := by rw [hb0]; exact Nat.zero_le _
            simp only [this, if_true]
            rw [← hlen1]
            exact ih sP _ _ _ _ hl' hrest (Or.inl ⟨rfl, fun x hx => by cases hx; rw [hsc]; rfl⟩)
        · subst hnb hib
          simp only [maxByScore]
          have h16 : 16 ≤ sc0.score := by
            have := g4.1; rw [g3] at this; rw [this.1]; exact this.2.2.1
          have : ¬ sc.score ≥ sc0.score := by rw [hsc]; simp only [UNMATCHED]; omega
          simp only [this, if_false]
          rw [← hlen1]
          exact ih sP _ _ _ _ hl' hrest (Or.inr ⟨c, e, sc0, st0, rfl, rfl, lift _ _ g1, lift2 _ _ g2, g3, g4⟩)
      | some c' =>
        have hrel := hst.1
        rw [hout] at hrel
        rcases acc with ⟨hnb, hib⟩ | ⟨c, e, sc0, st0, hnb, hib, g1, g2, g3, g4⟩
        · subst hnb
          simp only [bestCell]
          have hgoal : Acc (ps ++ [sc]) (pP ++ [st]) (some (ps.length, sc)) (some c') :=
            Or.inr ⟨c', ps.length, sc, st, rfl, rfl, hnew1, hnew2, hout, hst⟩
          cases ib with
          | none =>
            simp only [maxByScore]
            rw [← hlen1]
            exact ih sP _ _ _ _ hl' hrest hgoal
          | some b =>
            simp only [maxByScore]
            have hb0 := hib b rfl
            have : sc.score ≥ b.2.score := by rw [hb0]; exact Nat.zero_le _
            simp only [this, if_true]
            rw [← hlen1]
            exact ih sP _ _ _ _ hl' hrest hgoal
        · subst hnb hib
          simp only [bestCell, maxByScore]
          have hs0 : sc0.score = c.score := by have := g4.1; rw [g3] at this; exact this.1
          by_cases hge : c'.score ≥ c.score
          · have : sc.score ≥ sc0.score := by rw [hrel.1, hs0]; exact hge
            simp only [this, hge, if_true]
            rw [← hlen1]
            exact ih sP _ _ _ _ hl' hrest (Or.inr ⟨c', ps.length, sc, st, rfl, rfl, hnew1, hnew2, hout, hst⟩)
          · have : ¬ sc.score ≥ sc0.score := by rw [hrel.1, hs0]; exact hge
            simp only [this, hge, if_false]
            rw [← hlen1]
            exact ih sP _ _ _ _ hl' hrest (Or.inr ⟨c, e, sc0, st0, rfl, rfl, lift _ _ g1, lift2 _ _ g2, g3, g4⟩)

end NucleoVerif.OptImpl
