import NucleoVerif.Model.OptImpl
namespace NucleoVerif.OptImpl
open NucleoVerif NucleoVerif.Gen NucleoVerif.Gen.Opt

/-- a cell of the score row stands for a cell of the recurrence: `UNMATCHED` for "no alignment", otherwise the same score
    and run bonus (real scores are at least one match, so they are never mistaken for `UNMATCHED`) -/
def CellRel (sc : ScoreCell) (oc : Option Cell) : Prop :=
  match oc with
  | none => sc = UNMATCHED
  | some c => sc.score = c.score ∧ sc.consecutive_bonus = c.consec ∧ 16 ≤ c.score ∧ c.consec < 256

def sc0 (o : Option Cell) : Nat := (o.map (·.score)).getD 0
def ps0 (o : Option PCell) : Nat := (o.map (·.score)).getD 0
def mpath (o : Option Cell) : Option (List Nat) := o.map (·.path)
def ppath (o : Option PCell) : Option (List Nat) := o.map (·.path)

theorem CellRel.score_eq {sc : ScoreCell} {oc : Option Cell} (h : CellRel sc oc) : sc.score = sc0 oc := by
  cases oc with
  | none => simp only [CellRel] at h; subst h; rfl
  | some c => exact h.1

theorem CellRel.ne_unmatched {sc : ScoreCell} {c : Cell} (h : CellRel sc (some c)) : sc ≠ UNMATCHED := by
  intro e
  have := h.1
  rw [e] at this
  have h16 := h.2.2.1
  simp only [UNMATCHED] at this
  omega

/-- `p_score` on the scores is `pScore` on the cells -/
theorem p_score_fst (m : Option Cell) (p : Option PCell) : (p_score (ps0 p) (sc0 m)).1 = ps0 (pScore m p) := by
  cases m with
  | none => cases p <;> simp [p_score, pScore, ps0, sc0, PENALTY_GAP_START, PENALTY_GAP_EXTENSION]
  | some c =>
    cases p with
    | none =>
      simp only [p_score, pScore, ps0, sc0, Option.map, Option.getD, PENALTY_GAP_START, PENALTY_GAP_EXTENSION]
      by_cases h : c.score - 3 > 0 - 1
      · simp [h]
      · simp [h]; omega
    | some q =>
      simp only [p_score, pScore, ps0, sc0, Option.map, Option.getD, PENALTY_GAP_START, PENALTY_GAP_EXTENSION]
      by_cases h : c.score - 3 > q.score - 1 <;> simp [h]

/-- its flag says which of the two the alignment was taken from -/
theorem p_score_snd (m : Option Cell) (p : Option PCell) (hm : ∀ c, m = some c → 16 ≤ c.score) :
    ppath (pScore m p) = (if (p_score (ps0 p) (sc0 m)).2 then mpath m else ppath p) := by
  cases m with
  | none => cases p <;> simp [p_score, pScore, ps0, sc0, ppath, PENALTY_GAP_START, PENALTY_GAP_EXTENSION]
  | some c =>
    have := hm c rfl
    cases p with
    | none =>
      simp only [p_score, pScore, ps0, sc0, ppath, mpath, Option.map, Option.getD, PENALTY_GAP_START, PENALTY_GAP_EXTENSION]
      have : decide (c.score - 3 > 0 - 1) = true := by simp; omega
      simp [this]
    | some q =>
      simp only [p_score, pScore, ps0, sc0, ppath, mpath, Option.map, Option.getD, PENALTY_GAP_START, PENALTY_GAP_EXTENSION]
      by_cases h : c.score - 3 > q.score - 1 <;> simp [h]

theorem pScore_isSome (m : Option Cell) (p : Option PCell) : (pScore m p).isSome = (m.isSome || p.isSome) := by
  cases m <;> cases p <;> simp [pScore] <;> split <;> rfl

/-- the run bonus both sides carry on when the previous cell is extended -/
def runBonus (consec b : Nat) : Nat :=
  if b ≥ BONUS_BOUNDARY ∧ b > max consec BONUS_CONSECUTIVE then b else max consec BONUS_CONSECUTIVE

theorem next_m_cell_real (pp b : Nat) (sc : ScoreCell) (hne : sc ≠ UNMATCHED) :
    next_m_cell pp b sc =
      if sc.score + max (runBonus sc.consecutive_bonus b) b > pp + b then
        ⟨sc.score + max (runBonus sc.consecutive_bonus b) b + SCORE_MATCH, runBonus sc.consecutive_bonus b % 256, true⟩
      else ⟨pp + b + SCORE_MATCH, b % 256, false⟩ := by
  have hdec : decide (sc = UNMATCHED) = false := by simp [hne]
  simp only [next_m_cell, hdec, Bool.false_eq_true, if_false, runBonus, Bool.and_eq_true, decide_eq_true_eq]
  first | rfl | (split <;> rfl) | (congr 1)

theorem nextM_real (p : Option PCell) (b : Nat) (c : Cell) (col : Nat) :
    nextM p b (some c) col =
      match p with
      | some q =>
        if c.score + max (runBonus c.consec b) b > q.score + b then
          some ⟨c.score + max (runBonus c.consec b) b + SCORE_MATCH, runBonus c.consec b, c.path ++ [col]⟩
        else some ⟨q.score + b + SCORE_MATCH, b, q.path ++ [col]⟩
      | none => some ⟨c.score + max (runBonus c.consec b) b + SCORE_MATCH, runBonus c.consec b, c.path ++ [col]⟩ := by
  cases p <;> simp only [nextM, runBonus] <;> first | rfl | (split <;> rfl)

theorem runBonus_lt (consec b : Nat) (h1 : consec < 256) (h2 : b < 256) : runBonus consec b < 256 := by
  unfold runBonus
  split
  · exact h2
  · simp only [BONUS_CONSECUTIVE]; omega

/-- `next_m_cell` on a related cell and P-score is `nextM`; its `matched` flag says which of the two the alignment was
    extended from -/
theorem next_m_cell_spec (sc : ScoreCell) (m : Option Cell) (p : Option PCell) (b col : Nat)
    (hrel : CellRel sc m) (hlive : m.isSome = true ∨ p.isSome = true) (hb : b < 256) :
    ∃ c, nextM p b m col = some c ∧ CellRel (next_m_cell (ps0 p) b sc) (some c) ∧
      some c.path = (if (next_m_cell (ps0 p) b sc).matched then mpath m else ppath p).map (· ++ [col]) := by
  cases m with
  | none =>
    simp only [CellRel] at hrel
    subst hrel
    cases p with
    | none => simp at hlive
    | some q =>
      refine ⟨⟨q.score + b + SCORE_MATCH, b, q.path ++ [col]⟩, rfl, ?_, ?_⟩
      · have hmod := Nat.mod_eq_of_lt hb
        simp only [CellRel]
        and_intros
        · simp [next_m_cell, ps0]
        · simp [next_m_cell, hmod]
        · simp only [SCORE_MATCH]; omega
        · exact hb
      · simp [next_m_cell, ppath]
  | some c =>
    have hne := hrel.ne_unmatched
    obtain ⟨h1, h2, h16, h256⟩ := hrel
    have hrb := runBonus_lt c.consec b h256 hb
    rw [next_m_cell_real _ _ _ hne, nextM_real, h1, h2]
    cases p with
    | none =>
      have : c.score + max (runBonus c.consec b) b > ps0 none + b := by simp only [ps0, Option.map, Option.getD]; omega
      simp only [this, if_true]
      refine ⟨_, rfl, ⟨rfl, Nat.mod_eq_of_lt hrb, by simp only [SCORE_MATCH]; omega, hrb⟩, by simp [mpath]⟩
    | some q =>
      simp only [ps0, Option.map, Option.getD]
      by_cases h : c.score + max (runBonus c.consec b) b > q.score + b
      · simp only [h, if_true]
        refine ⟨_, rfl, ⟨rfl, Nat.mod_eq_of_lt hrb, by simp only [SCORE_MATCH]; omega, hrb⟩, by simp [mpath]⟩
      · simp only [h, if_false]
        refine ⟨_, rfl, ⟨rfl, Nat.mod_eq_of_lt hb, by simp only [SCORE_MATCH]; omega, hb⟩, by simp [ppath]⟩

end NucleoVerif.OptImpl

namespace NucleoVerif.OptImpl
open NucleoVerif NucleoVerif.Gen NucleoVerif.Gen.Opt

/-! ## a pointwise relation between two lists of equal length -/

def All2 {α β : Type} (R : α → β → Prop) : List α → List β → Prop
  | [], [] => True
  | a :: as, b :: bs => R a b ∧ All2 R as bs
  | _, _ => False

theorem All2.length_eq {α β : Type} {R : α → β → Prop} : ∀ {as : List α} {bs : List β}, All2 R as bs → as.length = bs.length
  | [], [], _ => rfl
  | _ :: as, _ :: bs, h => by simp only [List.length_cons]; rw [All2.length_eq (as := as) (bs := bs) h.2]
  | [], _ :: _, h => by cases h
  | _ :: _, [], h => by cases h

theorem All2.append {α β : Type} {R : α → β → Prop} : ∀ {as : List α} {bs : List β} {as' : List α} {bs' : List β},
    All2 R as bs → All2 R as' bs' → All2 R (as ++ as') (bs ++ bs')
  | [], [], _, _, _, h' => h'
  | _ :: as, _ :: bs, _, _, h, h' => ⟨h.1, All2.append (as := as) (bs := bs) h.2 h'⟩
  | [], _ :: _, _, _, h, _ => by cases h
  | _ :: _, [], _, _, h, _ => by cases h

theorem All2.take {α β : Type} {R : α → β → Prop} : ∀ (k : Nat) {as : List α} {bs : List β}, All2 R as bs → All2 R (as.take k) (bs.take k)
  | 0, _, _, _ => by simp [All2]
  | _ + 1, [], [], _ => by simp [All2]
  | k + 1, _ :: as, _ :: bs, h => ⟨h.1, All2.take k (as := as) (bs := bs) h.2⟩
  | _ + 1, [], _ :: _, h => by cases h
  | _ + 1, _ :: _, [], h => by cases h

theorem All2.drop {α β : Type} {R : α → β → Prop} : ∀ (k : Nat) {as : List α} {bs : List β}, All2 R as bs → All2 R (as.drop k) (bs.drop k)
  | 0, _, _, h => h
  | _ + 1, [], [], _ => by simp [All2]
  | k + 1, _ :: as, _ :: bs, h => All2.drop k (as := as) (bs := bs) h.2
  | _ + 1, [], _ :: _, h => by cases h
  | _ + 1, _ :: _, [], h => by cases h

theorem All2.get {α β : Type} {R : α → β → Prop} : ∀ {as : List α} {bs : List β}, All2 R as bs →
    ∀ (t : Nat) (a : α) (b : β), as[t]? = some a → bs[t]? = some b → R a b
  | [], [], _, t, a, b, ha, _ => by simp at ha
  | x :: as, y :: bs, h, 0, a, b, ha, hb => by
    simp only [List.getElem?_cons_zero, Option.some.injEq] at ha hb
    rw [← ha, ← hb]; exact h.1
  | _ :: as, _ :: bs, h, t + 1, a, b, ha, hb => by
    simp only [List.getElem?_cons_succ] at ha hb
    exact All2.get (as := as) (bs := bs) h.2 t a b ha hb
  | [], _ :: _, h, _, _, _, _, _ => by cases h
  | _ :: _, [], h, _, _, _, _, _ => by cases h

theorem All2.of_get {α β : Type} {R : α → β → Prop} : ∀ {as : List α} {bs : List β}, as.length = bs.length →
    (∀ (t : Nat) (a : α) (b : β), as[t]? = some a → bs[t]? = some b → R a b) → All2 R as bs
  | [], [], _, _ => trivial
  | x :: as, y :: bs, hl, h =>
    ⟨h 0 x y rfl rfl, All2.of_get (as := as) (bs := bs) (by simpa using hl) (fun t a b ha hb => h (t + 1) a b (by simpa using ha) (by simpa using hb))⟩
  | [], _ :: _, hl, _ => by simp at hl
  | _ :: _, [], hl, _ => by simp at hl

end NucleoVerif.OptImpl
