import NucleoVerif.Lemmas.OptTrace
namespace NucleoVerif.OptImpl
open NucleoVerif NucleoVerif.Gen NucleoVerif.Gen.Opt NucleoVerif.DP

theorem setupMatched_iff : ∀ (cols : List Col) (n : List Nat) (b : Nat), setupMatched n cols = true ↔ (rowOffsGo n cols b).length = n.length := by
  intro cols
  induction cols with
  | nil => intro n b; cases n <;> simp [setupMatched, rowOffsGo]
  | cons c cs ih =>
    intro n b
    cases n with
    | nil => simp [setupMatched, rowOffsGo]
    | cons nc ns =>
      simp only [setupMatched, rowOffsGo]
      split
      · rw [ih ns (b + 1)]; simp
      · exact ih (nc :: ns) (b + 1)

theorem prefix_bonus_init_eq (cfg : Cfg) (start : Nat) : prefix_bonus_init cfg.preferPrefix start = prefixStart cfg start := by
  unfold prefix_bonus_init prefixStart
  split
  · split
    · rfl
    · simp only
      rw [Nat.mod_eq_of_lt (by omega)]
  · rfl

theorem seg_le (c : Ctx) (g : Good c) : ∀ i, i < c.n.length → c.seg i ≤ c.width * i := by
  intro i
  induction i with
  | zero => intro _; exact Nat.le_refl _
  | succ i ih =>
    intro hi
    rw [seg_succ c g i hi, Nat.mul_succ]
    have := ih (by omega)
    have : c.L i ≤ c.width := by unfold Ctx.L; omega
    omega

theorem bestCell_some_of_head (c0 : Cell) (l : List (Option Cell)) (b : Option Cell) : (bestCell (some c0 :: l) b).isSome = true := by
  apply bestCell_isSome
  exact Or.inr ⟨0, rfl⟩

theorem traceGoA_eq (cells : List MatrixCell) (width : Nat) (offs : List Nat) (start : Nat) : ∀ (fuel : Nat) (t : TState),
    traceGoA cells.toArray width offs start fuel t = traceGo cells width offs start fuel t := by
  intro fuel
  induction fuel with
  | zero => intro t; rfl
  | succ fuel ih =>
    intro t
    have hg : ∀ i, cells.toArray.getD i default = cells.getD i default := by
      intro i
      rw [Array.getD_eq_getD_getElem?, List.getD_eq_getElem?_getD, List.getElem?_toArray]
    simp only [traceGoA, traceGo, hg, List.size_toArray]
    split
    · split
      · rfl
      · exact ih _
    · exact ih _

/-- the end of `fuzzy_match_optimal` on a state that satisfies the loop invariant at the last row -/
theorem finish_spec (c : Ctx) (g : Good c) (start clen : Nat) (s : PState) (inv : Inv c clen (c.n.length - 1) s)
    (hclen : c.seg (c.n.length - 1) ≤ clen) (hidx : ∀ j x, c.cols[j]? = some x → x.idx = start + j) :
    finish c.cols.length c.n.length start c.offs s = (bestCell (c.row (c.n.length - 1)) none).map (fun x => (x.score, x.path)) := by
  have hN := g.hN
  have hlo := g.hlo (c.n.length - 1) (by omega)
  have hlo2 := g.hlo (c.n.length - 2) (by omega)
  have hinc := g.hinc (c.n.length - 2) (by omega)
  rw [show c.n.length - 2 + 1 = c.n.length - 1 by omega] at hinc
  have hlink := g.hlink (c.n.length - 2) (by omega)
  rw [show c.n.length - 2 + 1 = c.n.length - 1 by omega] at hlink
  have hro2 : c.ro (c.n.length - 2) ≤ c.so (c.n.length - 2) := by unfold Ctx.ro Ctx.so; split <;> omega
  -- the last row of the recurrence, from its offset on
  generalize hP : (c.steps (c.n.length - 2)).drop (c.so (c.n.length - 1) - 1 - c.ro (c.n.length - 2)) = P at hlink
  have hPlen : P.length = c.cols.length - c.so (c.n.length - 1) := by
    rw [← hP, List.length_drop]
    unfold Ctx.steps
    rw [nsteps_length, List.length_drop, List.length_drop, show (c.row (c.n.length - 2)).length = c.cols.length from rowN_length _ _ _ _]
    omega
  have hrel : c.so (c.n.length - 1) + 1 - c.n.length = c.so (c.n.length - 1) - (c.n.length - 1) := by omega
  have hwid : c.width - (c.so (c.n.length - 1) - (c.n.length - 1)) = P.length := by rw [hPlen]; unfold Ctx.width; omega
  have hrow := inv.hrow
  rw [show c.n.length - 1 - 1 = c.n.length - 2 by omega, hP, hwid, List.take_length] at hrow
  have hbest : bestCell (c.row (c.n.length - 1)) none = bestCell (P.map NStep.out) none := by
    conv => lhs; rw [← List.take_append_drop (c.so (c.n.length - 1)) (c.row (c.n.length - 1)), g.hnone _ (by omega), hlink]
    exact bestCell_nones _ _ _
  have acc := maxBy_spec (s.cur.drop (c.so (c.n.length - 1) - (c.n.length - 1))) P [] [] none none rfl hrow (Or.inl ⟨rfl, fun x hx => by cases hx⟩)
  simp only [List.nil_append, List.length_nil] at acc
  -- the recurrence has a cell at the row's offset
  have hsomeB : (bestCell (P.map NStep.out) none).isSome = true := by
    obtain ⟨cc, hcc⟩ := g.hsome (c.n.length - 1) (by omega)
    have : (P.map NStep.out)[0]? = some (some cc) := by
      rw [← hlink, List.getElem?_drop, Nat.add_zero]; exact hcc
    cases hl : P.map NStep.out with
    | nil => rw [hl] at this; cases this
    | cons x l =>
      rw [hl] at this
      simp only [List.getElem?_cons_zero, Option.some.injEq] at this
      rw [this]; exact bestCell_some_of_head cc l none
  rcases acc with ⟨hnb, _⟩ | ⟨cb, e, sc, st, hnb, hib, g1, g2, g3, g4⟩
  · rw [hnb] at hsomeB; cases hsomeB
  · unfold finish
    simp only [show c.offs.getD (c.n.length - 1) 0 = c.so (c.n.length - 1) from rfl, show c.offs.getD (c.n.length - 2) 0 = c.so (c.n.length - 2) from rfl, hrel, hib]
    rw [hbest, hnb]
    simp only [Option.map_some, Option.some.injEq, Prod.mk.injEq]
    have hsc := g4.1
    rw [g3] at hsc
    refine ⟨hsc.1, ?_⟩
    -- the traceback
    have he : e < P.length := by
      rcases Nat.lt_or_ge e P.length with h | h
      · exact h
      · rw [List.getElem?_eq_none h] at g2; cases g2
    have hst : (c.steps (c.n.length - 2))[c.so (c.n.length - 1) - 1 - c.ro (c.n.length - 2) + e]? = some st := by
      rw [← hP, List.getElem?_drop] at g2; exact g2
    obtain ⟨_, hcol, _, _, _⟩ := nsteps_get _ _ _ none none _ st hst
    rw [List.getElem?_drop, show c.ro (c.n.length - 2) + 1 + (c.so (c.n.length - 1) - 1 - c.ro (c.n.length - 2) + e) = c.so (c.n.length - 1) + e by omega] at hcol
    have hci := hidx _ _ hcol
    have hpath := g4.2 cb g3
    have hscm : (s.cur.getD (e + (c.so (c.n.length - 1) - (c.n.length - 1))) default) = sc := by
      rw [List.getElem?_drop] at g1
      rw [List.getD_eq_getElem?_getD, Nat.add_comm, g1]; rfl
    rw [hscm]
    obtain ⟨src, hsrc1, hsrc2⟩ : ∃ src, (if sc.matched then mpath st.m else ppath st.p') = some src ∧ cb.path = src ++ [st.col.idx] := by
      cases h : (if sc.matched then mpath st.m else ppath st.p') with
      | none => rw [h] at hpath; cases hpath
      | some src => rw [h] at hpath; exact ⟨src, rfl, Option.some.inj hpath⟩
    have hoffle : s.off ≤ s.cells.length := by rw [inv.hoff, inv.hcells]; exact hclen
    have hfacts : ∀ r, r + 2 ≤ c.n.length → RowFacts c r (s.cells.take s.off) := by
      intro r hr
      apply rowFacts_frame c g r (c.n.length - 1) (by omega) (by omega) s.cells _ _ (inv.hfacts r (by omega))
      intro k hk
      rw [List.getD_eq_getElem?_getD, List.getD_eq_getElem?_getD, List.getElem?_take]
      simp only [show k < s.off by rw [inv.hoff]; exact hk, if_true]
    have tr := trace_spec c g start (s.cells.take s.off) (by rw [List.length_take, Nat.min_eq_left hoffle, inv.hoff]) hidx hfacts
      (c.cols.length + c.n.length + 1) (c.n.length - 2) (e + (c.so (c.n.length - 1) - c.so (c.n.length - 2)) - 1) sc.matched
      [start + e + c.so (c.n.length - 1)] src st (by omega)
      (by rw [show c.so (c.n.length - 2) - c.ro (c.n.length - 2) + (e + (c.so (c.n.length - 1) - c.so (c.n.length - 2)) - 1) =
            c.so (c.n.length - 1) - 1 - c.ro (c.n.length - 2) + e by omega]; exact hst)
      (by omega) hsrc1 (by omega)
    rw [traceGoA_eq]
    show traceGo (s.cells.take s.off) c.width c.offs start _ _ = _
    rw [tr, hsrc2, hci]
    simp only [List.append_cancel_left_eq, List.cons.injEq, and_true]
    omega

end NucleoVerif.OptImpl
