import NucleoVerif.Lemmas.OptRows
namespace NucleoVerif.OptImpl
open NucleoVerif NucleoVerif.Gen NucleoVerif.Gen.Opt NucleoVerif.DP

/-! ## what the greedy offsets mean, row by row -/

theorem greedy_index (cols : List Col) : ∀ (n offs : List Nat) (lo : Nat), GreedyFrom cols lo n offs →
    offs.length = n.length ∧ ∀ r, r < n.length →
      (if r = 0 then lo else offs.getD (r - 1) 0 + 1) ≤ offs.getD r 0 ∧ offs.getD r 0 + (n.length - 1 - r) < cols.length ∧
      (∀ c ∈ (cols.drop (if r = 0 then lo else offs.getD (r - 1) 0 + 1)).take (offs.getD r 0 - (if r = 0 then lo else offs.getD (r - 1) 0 + 1)), c.ch ≠ n.getD r 0) ∧
      ∃ c, cols[offs.getD r 0]? = some c ∧ c.ch = n.getD r 0 := by
  intro n
  induction n with
  | nil => intro offs lo h; cases offs with
    | nil => exact ⟨rfl, fun r hr => by simp at hr⟩
    | cons _ _ => cases h
  | cons nc ns ih =>
    intro offs lo h
    cases offs with
    | nil => cases h
    | cons o os =>
      obtain ⟨h1, h2, h3, h4, h5⟩ := h
      obtain ⟨il, ir⟩ := ih os (o + 1) h5
      refine ⟨by simp [il], ?_⟩
      intro r hr
      cases r with
      | zero => simpa using ⟨h1, h2, h3, h4⟩
      | succ r =>
        obtain ⟨t1, t2, t3, t4⟩ := ir r (by simpa using hr)
        have e2 : (nc :: ns).length - 1 - (r + 1) = ns.length - 1 - r := by simp only [List.length_cons]; omega
        rw [e2]
        cases r with
        | zero => exact ⟨by simpa using t1, by simpa using t2, by simpa using t3, by simpa using t4⟩
        | succ r => exact ⟨by simpa using t1, by simpa using t2, by simpa using t3, by simpa using t4⟩

/-- the facts about the recurrence's rows that do not depend on the implementation's state -/
structure Good (c : Ctx) : Prop where
  hN : 2 ≤ c.n.length
  hlen : c.offs.length = c.n.length
  hb : ∀ x ∈ c.cols, x.bonus < 256
  hlo : ∀ r, r < c.n.length → r ≤ c.so r ∧ c.so r + (c.n.length - 1 - r) < c.cols.length
  hinc : ∀ r, r + 1 < c.n.length → c.so r < c.so (r + 1)
  hnone : ∀ r, r < c.n.length → (c.row r).take (c.so r) = List.replicate (c.so r) none
  hsome : ∀ r, r < c.n.length → ∃ cc, (c.row r)[c.so r]? = some (some cc)
  hlink : ∀ r, r + 1 < c.n.length → (c.row (r + 1)).drop (c.so (r + 1)) = ((c.steps r).drop (c.so (r + 1) - 1 - c.ro r)).map NStep.out

theorem good_of_greedy (c : Ctx) (hN : 2 ≤ c.n.length) (hb : ∀ x ∈ c.cols, x.bonus < 256) (hg : GreedyFrom c.cols 0 c.n c.offs) : Good c := by
  obtain ⟨hlen, hidx⟩ := greedy_index c.cols c.n c.offs 0 hg
  have hinc : ∀ r, r + 1 < c.n.length → c.so r < c.so (r + 1) := by
    intro r hr
    have := (hidx (r + 1) hr).1
    simp only [Nat.add_one_ne_zero, if_false, Nat.add_sub_cancel] at this
    exact this
  have hlo1 : ∀ r, r < c.n.length → r ≤ c.so r := by
    intro r
    induction r with
    | zero => intro _; exact Nat.zero_le _
    | succ r ih => intro hr; have := ih (by omega); have := hinc r hr; omega
  have hrows : ∀ r, r < c.n.length → (c.row r).take (c.so r) = List.replicate (c.so r) none ∧ ∃ cc, (c.row r)[c.so r]? = some (some cc) := by
    intro r
    induction r with
    | zero =>
      intro hr
      obtain ⟨_, h2, h3, ⟨x, hx1, hx2⟩⟩ := hidx 0 hr
      simp only [if_true, List.drop_zero, Nat.sub_zero] at h3
      have hlt : c.so 0 < c.cols.length := by unfold Ctx.so; omega
      have e : c.cols = c.cols.take (c.so 0) ++ x :: c.cols.drop (c.so 0 + 1) := by
        conv => lhs; rw [← List.take_append_drop (c.so 0) c.cols, List.drop_eq_getElem_cons hlt]
        congr 2
        have := List.getElem?_eq_getElem hlt
        unfold Ctx.so at this ⊢
        rw [hx1] at this
        exact (Option.some.inj this).symm
      obtain ⟨pb', e2⟩ := firstRow_append (c.n.getD 0 0) (c.cols.take (c.so 0)) (x :: c.cols.drop (c.so 0 + 1)) c.pb
      have e3 := firstRow_none_of_ch (c.n.getD 0 0) (c.cols.take (c.so 0)) c.pb h3
      have hrow : c.row 0 = List.replicate (c.so 0) none ++ firstRow (c.n.getD 0 0) (x :: c.cols.drop (c.so 0 + 1)) pb' := by
        show rowN c.cols c.n c.pb 0 = _
        unfold rowN
        simp only [List.take_zero, allRows]
        conv => lhs; rw [e, e2, e3, List.length_take, Nat.min_eq_left (Nat.le_of_lt hlt)]
      refine ⟨by rw [hrow, List.take_left' (List.length_replicate ..)], ?_⟩
      rw [hrow, List.getElem?_append_right (by rw [List.length_replicate]; exact Nat.le_refl _), List.length_replicate, Nat.sub_self]
      simp only [firstRow, hx2, if_true, List.getElem?_cons_zero]
      exact ⟨_, rfl⟩
    | succ r ih =>
      intro hr
      obtain ⟨ihn, ihs⟩ := ih (by omega)
      obtain ⟨h1, h2, h3, h4⟩ := hidx (r + 1) hr
      simp only [Nat.add_one_ne_zero, if_false, Nat.add_sub_cancel] at h1 h3
      have hro : c.ro r ≤ c.so r := by unfold Ctx.ro Ctx.so; split <;> omega
      have nf := nextRow_facts (c.n.getD (r + 1) 0) (c.row r) c.cols (c.ro r) (c.so r) (c.so (r + 1)) (rowN_length _ _ _ _) hro (hinc r hr)
        (by unfold Ctx.so; omega) ihn ihs h3 h4
      rw [show c.row (r + 1) = nextRow (c.n.getD (r + 1) 0) (c.row r) c.cols from rowN_succ _ _ _ _ hr]
      exact ⟨nf.1, nf.2.1⟩
  refine ⟨hN, hlen, hb, fun r hr => ⟨hlo1 r hr, (hidx r hr).2.1⟩, hinc, fun r hr => (hrows r hr).1, fun r hr => (hrows r hr).2, ?_⟩
  intro r hr
  obtain ⟨ihn, ihs⟩ := hrows r (by omega)
  obtain ⟨h1, h2, h3, h4⟩ := hidx (r + 1) hr
  simp only [Nat.add_one_ne_zero, if_false, Nat.add_sub_cancel] at h1 h3
  have hro : c.ro r ≤ c.so r := by unfold Ctx.ro Ctx.so; split <;> omega
  have nf := nextRow_facts (c.n.getD (r + 1) 0) (c.row r) c.cols (c.ro r) (c.so r) (c.so (r + 1)) (rowN_length _ _ _ _) hro (hinc r hr)
    (by unfold Ctx.so; omega) ihn ihs h3 h4
  rw [show c.row (r + 1) = nextRow (c.n.getD (r + 1) 0) (c.row r) c.cols from rowN_succ _ _ _ _ hr]
  exact nf.2.2

end NucleoVerif.OptImpl
