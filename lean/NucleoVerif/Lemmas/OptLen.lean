import NucleoVerif.Lemmas.OptFinish
namespace NucleoVerif.OptImpl
open NucleoVerif NucleoVerif.Gen NucleoVerif.Gen.Opt NucleoVerif.DP NucleoVerif.Spec

/-! ## the length of the alignments carried by the recurrence's cells -/

theorem pScore_len (L : Nat) (prevM : Option Cell) (p : Option PCell)
    (hM : ∀ c, prevM = some c → c.path.length = L) (hP : ∀ q, p = some q → q.path.length = L) :
    ∀ q, pScore prevM p = some q → q.path.length = L := by
  intro q hq
  cases prevM with
  | none =>
    cases p with
    | none => simp [pScore] at hq
    | some q0 => simp only [pScore, Option.some.injEq] at hq; subst hq; exact hP q0 rfl
  | some m =>
    cases p with
    | none => simp only [pScore, Option.some.injEq] at hq; subst hq; exact hM m rfl
    | some q0 =>
      simp only [pScore] at hq
      split at hq
      · simp only [Option.some.injEq] at hq; subst hq; exact hM m rfl
      · simp only [Option.some.injEq] at hq; subst hq; exact hP q0 rfl

theorem nextM_len (L : Nat) (p : Option PCell) (b : Nat) (m : Option Cell) (col : Nat)
    (hM : ∀ c, m = some c → c.path.length = L) (hP : ∀ q, p = some q → q.path.length = L) :
    ∀ c, nextM p b m col = some c → c.path.length = L + 1 := by
  intro c hc
  cases m with
  | none =>
    cases p with
    | none => simp [nextM] at hc
    | some q => simp only [nextM, Option.some.injEq] at hc; subst hc; simp [hP q rfl]
  | some c0 =>
    rw [nextM_real] at hc
    cases p with
    | none => simp only [Option.some.injEq] at hc; subst hc; simp [hM c0 rfl]
    | some q =>
      simp only at hc
      split at hc
      · simp only [Option.some.injEq] at hc; subst hc; simp [hM c0 rfl]
      · simp only [Option.some.injEq] at hc; subst hc; simp [hP q rfl]

def RowLen (L : Nat) (row : List (Option Cell)) : Prop := ∀ (k : Nat) c, row[k]? = some (some c) → c.path.length = L

theorem zipGo_len (nc L : Nat) : ∀ (ms : List (Option Cell)) (cs : List Col) (prevM : Option Cell) (p : Option PCell),
    RowLen L ms → (∀ c, prevM = some c → c.path.length = L) → (∀ q, p = some q → q.path.length = L) →
    RowLen (L + 1) (zipGo nc ms cs prevM p) := by
  intro ms
  induction ms with
  | nil => intro cs _ _ _ _ _ k c h; simp [zipGo] at h
  | cons m ms ih =>
    intro cs prevM p hrow hM hP k c h
    cases cs with
    | nil => simp [zipGo] at h
    | cons c1 cs =>
      have hm : ∀ c, m = some c → c.path.length = L := fun c hc => hrow 0 c (by simp [hc])
      have hP' := pScore_len L prevM p hM hP
      cases k with
      | zero =>
        simp only [zipGo, List.getElem?_cons_zero, Option.some.injEq] at h
        split at h
        · exact nextM_len L _ _ _ _ hm hP' c h
        · cases h
      | succ k =>
        simp only [zipGo, List.getElem?_cons_succ] at h
        exact ih cs m _ (fun k c hk => hrow (k + 1) c (by simpa using hk)) hm hP' k c h

theorem nextRow_len (nc L : Nat) (row : List (Option Cell)) (cols : List Col) (h : RowLen L row) : RowLen (L + 1) (nextRow nc row cols) := by
  cases cols with
  | nil => intro k c hk; simp [nextRow] at hk
  | cons c0 cs =>
    rw [nextRow_cons]
    intro k c hk
    cases k with
    | zero => simp at hk
    | succ k =>
      simp only [List.getElem?_cons_succ] at hk
      exact zipGo_len nc L row cs none none h (by intro c hc; cases hc) (by intro q hq; cases hq) k c hk

theorem firstRow_len (n0 : Nat) : ∀ (cols : List Col) (pb : Nat), RowLen 1 (firstRow n0 cols pb) := by
  intro cols
  induction cols with
  | nil => intro _ k c h; simp [firstRow] at h
  | cons c0 cs ih =>
    intro pb k c h
    cases k with
    | zero =>
      simp only [firstRow, List.getElem?_cons_zero, Option.some.injEq] at h
      split at h
      · cases h; rfl
      · cases h
    | succ k =>
      simp only [firstRow, List.getElem?_cons_succ] at h
      exact ih _ k c h

theorem rowN_len (cols : List Col) (n : List Nat) (pb : Nat) : ∀ r, r < n.length → RowLen (r + 1) (rowN cols n pb r) := by
  intro r
  induction r with
  | zero => intro _; exact firstRow_len _ _ _
  | succ r ih => intro hr; rw [rowN_succ _ _ _ _ hr]; exact nextRow_len _ _ _ _ (ih (by omega))

/-- a cell that satisfies the recurrence's cell invariant at column `j` carries the scheme's value of its alignment
    (the step `optimalDP_eq_alignScore` takes for the best cell, for any cell) -/
theorem cell_score_eq_alignScore (cfg : Cfg) (ext : Ext) (h : List Nat) (c : Cell) (j : Nat) (hj : j < h.length)
    (inv : CellInv cfg.white cfg.delim cfg.initial (clsOf cfg ext h) c j) : c.score = alignScore cfg ext h c.path := by
  obtain ⟨h1, h2, hne, h3, e1, _, _, _, _, hlast, hpw⟩ := inv
  cases hp : c.path with
  | nil => exact absurd hp hne
  | cons first t =>
    have hfirst : firstOf c.path = first := by simp [firstOf, hp]
    rw [hfirst] at h1 e1 h3
    unfold alignScore
    simp only
    rw [← hp, hlast]
    simp only [Option.getD_some]
    have hflt : first < h.length := by omega
    have hdrop : h.drop first = h[first] :: h.drop (first + 1) := by
      rw [List.drop_eq_getElem_cons hflt]
    rw [hdrop]
    simp only
    have hcls0 : clsOf cfg ext h first = charClass cfg ext h[first] := by
      simp [clsOf, List.getElem?_eq_getElem hflt]
    have hinit : sInit cfg.white cfg.delim
        (if first = 0 then cfg.initial else (h[first - 1]?.map (charClass cfg ext)).getD cfg.initial)
        (charClass cfg ext h[first])
        = specAt cfg.white cfg.delim cfg.initial (clsOf cfg ext h) c.path first first := by
      rw [specAt_le_first _ _ _ _ _ _ _ (Nat.le_refl _), hcls0]
      rfl
    rw [hinit]
    have hw := sWalk_eq_specAt cfg ext h c.path first ((h.drop (first + 1)).take (j - first)) first (Nat.le_refl _)
      (by intro i d hi
          rw [List.getElem?_take] at hi
          split at hi
          · rw [List.getElem?_drop] at hi; exact hi
          · cases hi)
    rw [hw]
    have hlen : ((h.drop (first + 1)).take (j - first)).length = j - first := by
      simp only [List.length_take, List.length_drop]; omega
    rw [hlen]
    have : first + (j - first) = j := by omega
    rw [this, e1]

end NucleoVerif.OptImpl
