import NucleoVerif.Lemmas.OptGood
namespace NucleoVerif.OptImpl
open NucleoVerif NucleoVerif.Gen NucleoVerif.Gen.Opt NucleoVerif.DP

/-! ## the loop of `populate_matrix` -/

theorem seg_succ (c : Ctx) (g : Good c) (i : Nat) (hi : i + 1 < c.n.length) : c.seg (i + 1) = c.seg i + c.L i := by
  cases i with
  | zero => simp [Ctx.seg, Ctx.L, Ctx.ro]
  | succ i =>
    have := g.hlo (i + 1) (by omega)
    simp only [Ctx.seg, Nat.add_one_ne_zero, if_false, Ctx.L, Ctx.ro]
    unfold Ctx.width Ctx.so at *
    omega

theorem seg_mono (c : Ctx) (g : Good c) : ∀ (i r : Nat), r ≤ i → i < c.n.length → c.seg r ≤ c.seg i := by
  intro i
  induction i with
  | zero => intro r hr _; have : r = 0 := by omega
            subst this; exact Nat.le_refl _
  | succ i ih =>
    intro r hr hi
    by_cases h : r = i + 1
    · subst h; exact Nat.le_refl _
    · have := ih r (by omega) (by omega)
      rw [seg_succ c g i hi]; omega

/-- loop invariant of `populate_matrix` at row `i ≥ 1`: the score row holds row `i`, the back-pointer cells of the rows
    before it are recorded -/
structure Inv (c : Ctx) (clen i : Nat) (s : PState) : Prop where
  hcur : s.cur.length = c.width
  hoff : s.off = c.seg i
  hcells : s.cells.length = clen
  hrow : All2 StepRel (s.cur.drop (c.so i - i)) (((c.steps (i - 1)).drop (c.so i - 1 - c.ro (i - 1))).take (c.width - (c.so i - i)))
  hfacts : ∀ r, r < i → RowFacts c r s.cells

theorem All2.map_out {scs : List ScoreCell} {P : List NStep} (h : All2 StepRel scs P) : All2 CellRel scs (P.map NStep.out) := by
  induction scs generalizing P with
  | nil => cases P with
    | nil => trivial
    | cons _ _ => cases h
  | cons x xs ih =>
    cases P with
    | nil => cases h
    | cons y ys => exact ⟨h.1.1, ih h.2⟩

theorem rowFacts_frame (c : Ctx) (g : Good c) (r i : Nat) (hr : r < i) (hi : i < c.n.length) (cells cells' : List MatrixCell)
    (hfr : ∀ k, k < c.seg i → cells'.getD k default = cells.getD k default) (h : RowFacts c r cells) : RowFacts c r cells' := by
  intro t st ht hst
  have hle : c.seg r + t < c.seg i := by
    have := seg_succ c g r (by omega)
    have := seg_mono c g i (r + 1) (by omega) hi
    omega
  rw [hfr _ hle]
  exact h t st ht hst

theorem populate_step (c : Ctx) (g : Good c) (clen : Nat) (hclen : c.seg (c.n.length - 1) ≤ clen) (i : Nat) (hi1 : 1 ≤ i) (hi2 : i + 2 ≤ c.n.length)
    (nc : Nat) (s : PState) (inv : Inv c clen i s) :
    Inv c clen (i + 1) (rowStep false c.cols c.width s (c.so i) (c.so (i + 1)) i nc (c.n.getD (i + 1) 0) 0) := by
  have hro : c.ro i = c.so i := by unfold Ctx.ro Ctx.so; simp [show i ≠ 0 by omega]
  have hL : c.L i = c.width - (c.so i - i) := by unfold Ctx.L; rw [hro]
  have hlo := g.hlo i (by omega)
  have hlo' := g.hlo (i + 1) (by omega)
  have hlink := g.hlink (i - 1) (by omega)
  rw [show i - 1 + 1 = i by omega] at hlink
  have hrel : All2 CellRel (s.cur.drop (c.so i - i)) (((c.row i).drop (c.ro i)).take (c.L i)) := by
    rw [hro, hL, hlink, ← List.map_take]
    exact inv.hrow.map_out
  have hs1 := seg_succ c g i (by omega)
  have spec := rowStep_spec c false i s nc (c.n.getD (i + 1) 0) 0 (s.cur.drop (c.so i - i)) hi2 (by have := g.hlo 0 (by omega); omega)
    inv.hcur inv.hoff (by rw [hro]; exact hlo.1) (by rw [hro]; exact Nat.le_refl _) (g.hinc i (by omega)) hlo'.2
    (by rw [inv.hcells]; have := seg_mono c g (c.n.length - 1) (i + 1) (by omega) (by omega); omega)
    (g.hnone i (by omega)) (g.hsome i (by omega)) g.hb (by unfold eff; simp [hro]) rfl hrel
    (fun _ => by rw [hL]; exact inv.hrow)
  rw [hro] at spec
  obtain ⟨sp1, sp2, sp3, sp4, sp5⟩ := spec
  refine ⟨sp1, ?_, by rw [sp2]; exact inv.hcells, ?_, ?_⟩
  · show s.off + (c.width + i - c.so i) = c.seg (i + 1)
    rw [inv.hoff, hs1, hL]
    unfold Ctx.width Ctx.so at *; omega
  · rw [show i + 1 - 1 = i by omega, hro, show c.so (i + 1) - (i + 1) = c.so (i + 1) - 1 - i by omega]
    exact sp3
  · intro r hr
    by_cases h : r = i
    · subst h; exact sp4
    · exact rowFacts_frame c g r i (by omega) (by omega) s.cells _ sp5 (inv.hfacts r (by omega))

theorem populate_spec (c : Ctx) (g : Good c) (clen : Nat) (hclen : c.seg (c.n.length - 1) ≤ clen) :
    ∀ (rest : List Nat) (i nc nnc ro nro : Nat) (offs' : List Nat) (s : PState), 1 ≤ i →
      c.n.drop i = nc :: nnc :: rest → c.offs.drop i = ro :: nro :: offs' → Inv c clen i s →
      Inv c clen (c.n.length - 1) (populateGo c.cols c.width i (nc :: nnc :: rest) (ro :: nro :: offs') s) := by
  intro rest
  induction rest with
  | nil =>
    intro i nc nnc ro nro offs' s hi hn ho inv
    have hlen : c.n.length = i + 2 := by
      have := congrArg List.length hn; simp at this; omega
    have e1 : ro = c.so i := by
      have := congrArg (fun l => l.getD 0 0) ho; simp at this; unfold Ctx.so; rw [List.getD_eq_getElem?_getD]; omega
    have e2 : nro = c.so (i + 1) := by
      have := congrArg (fun l => l.getD 1 0) ho; simp at this; unfold Ctx.so; rw [List.getD_eq_getElem?_getD]; omega
    have e3 : nnc = c.n.getD (i + 1) 0 := by
      have := congrArg (fun l => l.getD 1 0) hn; simp at this; rw [List.getD_eq_getElem?_getD]; omega
    cases offs' <;>
    · simp only [populateGo]
      rw [e1, e2, e3, hlen, show i + 2 - 1 = i + 1 by omega]
      exact populate_step c g clen hclen i hi (by omega) nc s inv
  | cons x rest ih =>
    intro i nc nnc ro nro offs' s hi hn ho inv
    have hlen : i + 3 ≤ c.n.length := by
      have := congrArg List.length hn; simp at this; omega
    have e1 : ro = c.so i := by
      have := congrArg (fun l => l.getD 0 0) ho; simp at this; unfold Ctx.so; rw [List.getD_eq_getElem?_getD]; omega
    have e2 : nro = c.so (i + 1) := by
      have := congrArg (fun l => l.getD 1 0) ho; simp at this; unfold Ctx.so; rw [List.getD_eq_getElem?_getD]; omega
    have e3 : nnc = c.n.getD (i + 1) 0 := by
      have := congrArg (fun l => l.getD 1 0) hn; simp at this; rw [List.getD_eq_getElem?_getD]; omega
    have hol : c.offs.length = c.n.length := g.hlen
    cases offs' with
    | nil =>
      have := congrArg List.length ho; simp at this; omega
    | cons o2 offs'' =>
      simp only [populateGo]
      have hn' : c.n.drop (i + 1) = nnc :: x :: rest := by
        have := congrArg (List.drop 1) hn; rw [List.drop_drop] at this; simpa [Nat.add_comm] using this
      have ho' : c.offs.drop (i + 1) = nro :: o2 :: offs'' := by
        have := congrArg (List.drop 1) ho; rw [List.drop_drop] at this; simpa [Nat.add_comm] using this
      apply ih (i + 1) nnc x nro o2 offs'' _ (by omega) hn' ho'
      rw [e1, e2, e3]
      exact populate_step c g clen hclen i hi (by omega) nc s inv

end NucleoVerif.OptImpl
