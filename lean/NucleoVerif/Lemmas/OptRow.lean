import NucleoVerif.Lemmas.OptCells
import NucleoVerif.Lemmas.DPWindow
namespace NucleoVerif.OptImpl
open NucleoVerif NucleoVerif.Gen NucleoVerif.Gen.Opt NucleoVerif.DP

/-! ## the recurrence, one record per column -/

/-- what the recurrence does at one column of the row loop: `m` = M(i,j), carry in (`prevM` = M(i,j-1), `pin` = P(i,j-1)),
    `p'` = P(i,j), `col` = column j+1, `out` = M(i+1,j+1) -/
structure NStep where
  m : Option Cell
  prevM : Option Cell
  pin : Option PCell
  col : Col
  nnc : Nat

def NStep.p' (s : NStep) : Option PCell := pScore s.prevM s.pin
def NStep.out (s : NStep) : Option Cell := if s.col.ch = s.nnc then nextM s.p' s.col.bonus s.m s.col.idx else none

def nsteps (nnc : Nat) : List (Option Cell) → List Col → Option Cell → Option PCell → List NStep
  | m :: ms, c1 :: cs, prevM, p => ⟨m, prevM, p, c1, nnc⟩ :: nsteps nnc ms cs m (pScore prevM p)
  | _, _, _, _ => []

theorem zipGo_eq_nsteps (nnc : Nat) : ∀ (ms : List (Option Cell)) (cs : List Col) (prevM : Option Cell) (p : Option PCell),
    zipGo nnc ms cs prevM p = (nsteps nnc ms cs prevM p).map NStep.out := by
  intro ms
  induction ms with
  | nil => intro cs _ _; simp [zipGo, nsteps]
  | cons m ms ih =>
    intro cs prevM p
    cases cs with
    | nil => simp [zipGo, nsteps]
    | cons c1 cs => simp only [zipGo, nsteps, List.map_cons, ih, NStep.out, NStep.p']

theorem nsteps_length (nnc : Nat) : ∀ (ms : List (Option Cell)) (cs : List Col) (prevM : Option Cell) (p : Option PCell),
    (nsteps nnc ms cs prevM p).length = min ms.length cs.length := by
  intro ms
  induction ms with
  | nil => intro cs _ _; simp [nsteps]
  | cons m ms ih =>
    intro cs prevM p
    cases cs with
    | nil => simp [nsteps]
    | cons c1 cs => simp only [nsteps, List.length_cons, ih]; omega

/-- the carry after a run of columns -/
def carryAfter : List (Option Cell) → Option Cell → Option PCell → Option Cell × Option PCell
  | [], prevM, p => (prevM, p)
  | m :: ms, prevM, p => carryAfter ms m (pScore prevM p)

theorem nsteps_append (nnc : Nat) : ∀ (m1 : List (Option Cell)) (c1 : List Col), m1.length = c1.length →
    ∀ (m2 : List (Option Cell)) (c2 : List Col) (prevM : Option Cell) (p : Option PCell),
      nsteps nnc (m1 ++ m2) (c1 ++ c2) prevM p =
        nsteps nnc m1 c1 prevM p ++ nsteps nnc m2 c2 (carryAfter m1 prevM p).1 (carryAfter m1 prevM p).2 := by
  intro m1
  induction m1 with
  | nil => intro c1 hl m2 c2 prevM p; cases c1 with
    | nil => simp [nsteps, carryAfter]
    | cons _ _ => simp at hl
  | cons m m1 ih =>
    intro c1 hl m2 c2 prevM p
    cases c1 with
    | nil => simp at hl
    | cons c c1 =>
      simp only [List.cons_append, nsteps, carryAfter]
      rw [ih c1 (by simpa using hl)]

/-! ## impl carry vs recurrence carry -/

def CarryRel (k : Carry) (prevM : Option Cell) (p : Option PCell) : Prop :=
  k.p = ps0 p ∧ k.m = sc0 prevM ∧ (∀ c, prevM = some c → 16 ≤ c.score)

theorem CarryRel.step {k : Carry} {prevM : Option Cell} {p : Option PCell} (h : CarryRel k prevM p) (sc : ScoreCell) (m : Option Cell)
    (hrel : CellRel sc m) (pb : Nat) :
    CarryRel ⟨(p_score k.p k.m).1, sc.score, pb⟩ m (pScore prevM p) := by
  obtain ⟨h1, h2, _⟩ := h
  refine ⟨?_, hrel.score_eq, ?_⟩
  · show (p_score k.p k.m).1 = _
    rw [h1, h2]; exact p_score_fst prevM p
  · intro c hc
    subst hc
    exact hrel.2.2.1

theorem get_set (a b : Bool) : (MatrixCell.set a b).get false = a ∧ (MatrixCell.set a b).get true = b := by
  cases a <;> cases b <;> decide

/-- what a recorded back-pointer cell says about the recurrence at its column -/
def FlagRel (f : MatrixCell) (x : ScoreCell × NStep) : Prop :=
  f.get true = x.1.matched ∧ ppath x.2.p' = (if f.get false then mpath x.2.prevM else ppath x.2.pin)

theorem flag_ok {k : Carry} {prevM : Option Cell} {p : Option PCell} (h : CarryRel k prevM p) (sc : ScoreCell) (m : Option Cell) (c1 : Col) (nnc : Nat) :
    FlagRel (MatrixCell.set (p_score k.p k.m).2 sc.matched) (sc, ⟨m, prevM, p, c1, nnc⟩) := by
  obtain ⟨h1, h2, h3⟩ := h
  refine ⟨(get_set _ _).2, ?_⟩
  rw [(get_set _ _).1, h1, h2]
  exact p_score_snd prevM p h3

/-! ## the two column loops in lockstep with the recurrence (rows after the first: cells read from the score row) -/

theorem phase1_spec (nc nnc : Nat) : ∀ (cur : List ScoreCell) (ms : List (Option Cell)) (cs1 colsx : List Col) (cells : List MatrixCell)
    (k : Carry) (prevM : Option Cell) (p : Option PCell),
    All2 CellRel cur ms → colsx.length = cur.length → cs1.length = cur.length → cur.length ≤ cells.length → CarryRel k prevM p →
    CarryRel (phase1 false nc colsx cur cells k).2 (carryAfter ms prevM p).1 (carryAfter ms prevM p).2 ∧
    All2 FlagRel ((phase1 false nc colsx cur cells k).1.take cur.length) (cur.zip (nsteps nnc ms cs1 prevM p)) ∧
    (phase1 false nc colsx cur cells k).1.drop cur.length = cells.drop cur.length ∧
    (phase1 false nc colsx cur cells k).1.length = cells.length := by
  intro cur
  induction cur with
  | nil =>
    intro ms cs1 colsx cells k prevM p hrel hl1 hl2 hl3 hk
    cases ms with
    | nil =>
      cases colsx with
      | nil => simp [phase1, carryAfter, All2, hk]
      | cons _ _ => simp at hl1
    | cons _ _ => cases hrel
  | cons sc cur ih =>
    intro ms cs1 colsx cells k prevM p hrel hl1 hl2 hl3 hk
    cases ms with
    | nil => cases hrel
    | cons m ms =>
      cases colsx with
      | nil => simp at hl1
      | cons c colsx =>
        cases cs1 with
        | nil => simp at hl2
        | cons c1 cs1 =>
          cases cells with
          | nil => simp at hl3
          | cons mc cells =>
            have hk' := hk.step sc m hrel.1 (prefix_bonus_next k.pb)
            have := ih ms cs1 colsx cells ⟨(p_score k.p k.m).1, sc.score, prefix_bonus_next k.pb⟩ m (pScore prevM p) hrel.2
              (by simpa using hl1) (by simpa using hl2) (by simpa using hl3) hk'
            simp only [phase1, mCell, Bool.false_eq_true, if_false, carryAfter, List.length_cons, List.take_succ_cons, List.drop_succ_cons,
              nsteps, List.zip_cons_cons, All2]
            exact ⟨this.1, ⟨flag_ok hk sc m c1 nnc, this.2.1⟩, this.2.2.1, by rw [this.2.2.2]⟩

/-- a cell of the next row stands for the recurrence's cell, and its `matched` flag tells where its alignment came from -/
def StepRel (sc : ScoreCell) (st : NStep) : Prop :=
  CellRel sc st.out ∧ ∀ c, st.out = some c → some c.path = (if sc.matched then mpath st.m else ppath st.p').map (· ++ [st.col.idx])

/-- some alignment of the current row ends at or before this column -/
def Live (prevM : Option Cell) (p : Option PCell) (ms : List (Option Cell)) : Prop :=
  prevM.isSome = true ∨ p.isSome = true ∨ ∃ c, ms.head? = some (some c)

theorem phase2_spec (nc nnc : Nat) : ∀ (cur : List ScoreCell) (ms : List (Option Cell)) (c0 : Col) (cs : List Col) (cells : List MatrixCell)
    (k : Carry) (prevM : Option Cell) (p : Option PCell),
    All2 CellRel cur (ms.take cur.length) → cur.length ≤ ms.length → cur.length ≤ cs.length → cur.length ≤ cells.length →
    CarryRel k prevM p → Live prevM p ms → (∀ c ∈ cs, c.bonus < 256) →
    All2 StepRel (phase2 false nc nnc (c0 :: cs) cur cells k).1 ((nsteps nnc ms cs prevM p).take cur.length) ∧
    All2 FlagRel ((phase2 false nc nnc (c0 :: cs) cur cells k).2.take cur.length) (cur.zip (nsteps nnc ms cs prevM p)) ∧
    (phase2 false nc nnc (c0 :: cs) cur cells k).2.drop cur.length = cells.drop cur.length ∧
    (phase2 false nc nnc (c0 :: cs) cur cells k).2.length = cells.length := by
  intro cur
  induction cur with
  | nil =>
    intro ms c0 cs cells k prevM p _ _ _ _ _ _ _
    cases cs <;> simp [phase2, All2]
  | cons sc cur ih =>
    intro ms c0 cs cells k prevM p hrel hl1 hl2 hl3 hk hlive hb
    cases ms with
    | nil => simp at hl1
    | cons m ms =>
      cases cs with
      | nil => simp at hl2
      | cons c1 cs =>
        cases cells with
        | nil => simp at hl3
        | cons mc cells =>
          simp only [List.length_cons, List.take_succ_cons, All2] at hrel
          have hk' := hk.step sc m hrel.1 (prefix_bonus_next k.pb)
          have hlive' : Live m (pScore prevM p) ms := by
            rcases hlive with h | h | ⟨c, h⟩
            · exact Or.inr (Or.inl (by rw [pScore_isSome, h]; rfl))
            · exact Or.inr (Or.inl (by rw [pScore_isSome, h]; simp))
            · simp only [List.head?_cons, Option.some.injEq] at h
              exact Or.inl (by rw [h]; rfl)
          have := ih ms c1 cs cells ⟨(p_score k.p k.m).1, sc.score, prefix_bonus_next k.pb⟩ m (pScore prevM p) hrel.2
            (by simpa using hl1) (by simpa using hl2) (by simpa using hl3) hk' hlive' (fun c hc => hb c (List.mem_cons_of_mem _ hc))
          simp only [phase2, mCell, Bool.false_eq_true, if_false, List.length_cons, List.take_succ_cons, List.drop_succ_cons,
            nsteps, List.zip_cons_cons, All2]
          refine ⟨⟨?_, this.1⟩, ⟨flag_ok hk sc m c1 nnc, this.2.1⟩, this.2.2.1, by rw [this.2.2.2]⟩
          -- the new cell
          have hp : (p_score k.p k.m).1 = ps0 (pScore prevM p) := by rw [hk.1, hk.2.1]; exact p_score_fst prevM p
          unfold StepRel NStep.out NStep.p'
          simp only
          by_cases hch : c1.ch = nnc
          · simp only [hch, if_true]
            have hl : m.isSome = true ∨ (pScore prevM p).isSome = true := by
              rcases hlive with h | h | ⟨c, h⟩
              · exact Or.inr (by rw [pScore_isSome, h]; rfl)
              · exact Or.inr (by rw [pScore_isSome, h]; simp)
              · simp only [List.head?_cons, Option.some.injEq] at h
                exact Or.inl (by rw [h]; rfl)
            obtain ⟨c, e1, e2, e3⟩ := next_m_cell_spec sc m (pScore prevM p) c1.bonus c1.idx hrel.1 hl (hb c1 (List.mem_cons_self ..))
            rw [hp, e1]
            exact ⟨e2, fun c' hc' => by cases hc'; exact e3⟩
          · simp only [hch, if_false]
            exact ⟨rfl, fun c hc => by cases hc⟩

/-! ## the first row: its cells are computed on the fly, which is the same as reading them from a row that holds them -/

/-- the first-row cells `score_row::<FIRST_ROW>` computes for a run of columns, in place of the stored ones -/
def fstCells (nc : Nat) : List Col → Nat → List ScoreCell → List ScoreCell
  | c :: cs, pb, _ :: cur => (if c.ch = nc then first_row_cell c.bonus pb else UNMATCHED) :: fstCells nc cs (prefix_bonus_next pb) cur
  | _, _, cur => cur

def eff (first : Bool) (nc : Nat) (cols : List Col) (pb : Nat) (cur : List ScoreCell) : List ScoreCell :=
  if first then fstCells nc cols pb cur else cur

theorem fstCells_length (nc : Nat) : ∀ (cols : List Col) (pb : Nat) (cur : List ScoreCell), (fstCells nc cols pb cur).length = cur.length := by
  intro cols
  induction cols with
  | nil => intro pb cur; simp [fstCells]
  | cons c cs ih => intro pb cur; cases cur <;> simp [fstCells, ih]

theorem eff_length (first : Bool) (nc : Nat) (cols : List Col) (pb : Nat) (cur : List ScoreCell) : (eff first nc cols pb cur).length = cur.length := by
  unfold eff; split
  · exact fstCells_length ..
  · rfl

theorem phase1_first (nc : Nat) : ∀ (cur : List ScoreCell) (colsx : List Col) (cells : List MatrixCell) (k : Carry),
    colsx.length = cur.length → cur.length ≤ cells.length →
    phase1 true nc colsx cur cells k = phase1 false nc colsx (fstCells nc colsx k.pb cur) cells k := by
  intro cur
  induction cur with
  | nil => intro colsx cells k h1 _; cases colsx <;> simp [phase1, fstCells]
  | cons sc cur ih =>
    intro colsx cells k h1 h2
    cases colsx with
    | nil => simp at h1
    | cons c colsx =>
      cases cells with
      | nil => simp at h2
      | cons mc cells =>
        simp only [phase1, fstCells, mCell, if_true, Bool.false_eq_true, if_false]
        rw [ih colsx cells _ (by simpa using h1) (by simpa using h2)]

theorem phase2_first (nc nnc : Nat) : ∀ (cur : List ScoreCell) (colsx : List Col) (cells : List MatrixCell) (k : Carry),
    cur.length + 1 ≤ colsx.length → cur.length ≤ cells.length →
    phase2 true nc nnc colsx cur cells k = phase2 false nc nnc colsx (fstCells nc colsx k.pb cur) cells k := by
  intro cur
  induction cur with
  | nil => intro colsx cells k _ _; cases colsx with
    | nil => simp [phase2, fstCells]
    | cons c0 cs => cases cs <;> simp [phase2, fstCells]
  | cons sc cur ih =>
    intro colsx cells k h1 h2
    cases colsx with
    | nil => simp at h1
    | cons c0 colsx =>
      cases colsx with
      | nil => simp at h1
      | cons c1 colsx =>
        cases cells with
        | nil => simp at h2
        | cons mc cells =>
          simp only [phase2, fstCells, mCell, if_true, Bool.false_eq_true, if_false]
          rw [ih (c1 :: colsx) cells _ (by simp at h1 ⊢; omega) (by simpa using h2)]

/-- the on-the-fly first-row cells stand for the recurrence's first row -/
theorem fstCells_rel (nc : Nat) : ∀ (cur : List ScoreCell) (cols : List Col) (pb : Nat), cur.length ≤ cols.length → (∀ c ∈ cols, c.bonus < 256) →
    All2 CellRel (fstCells nc cols pb cur) ((firstRow nc cols pb).take cur.length) := by
  intro cur
  induction cur with
  | nil => intro cols pb _ _; cases cols <;> simp [fstCells, All2]
  | cons sc cur ih =>
    intro cols pb h hb
    cases cols with
    | nil => simp at h
    | cons c cols =>
      simp only [fstCells, firstRow, List.length_cons, List.take_succ_cons, All2]
      refine ⟨?_, ih cols _ (by simpa using h) (fun x hx => hb x (List.mem_cons_of_mem _ hx))⟩
      by_cases hc : c.ch = nc
      · simp only [hc, if_true]
        show CellRel (first_row_cell c.bonus pb) (some _)
        unfold CellRel first_row_cell
        exact ⟨rfl, rfl, Nat.le_trans (Nat.le_add_left 16 _) (Nat.le_add_right _ _), hb c (List.mem_cons_self ..)⟩
      · simp only [hc, if_false, CellRel]

theorem fstCells_append (nc : Nat) : ∀ (c1 : List Col) (cur1 : List ScoreCell), c1.length = cur1.length → ∀ (c2 : List Col) (cur2 : List ScoreCell) (pb : Nat),
    ∃ pb', fstCells nc (c1 ++ c2) pb (cur1 ++ cur2) = fstCells nc c1 pb cur1 ++ fstCells nc c2 pb' cur2 ∧
      ∀ (cells : List MatrixCell) (k : Carry), k.pb = pb → cur1.length ≤ cells.length → (phase1 true nc c1 cur1 cells k).2.pb = pb' := by
  intro c1
  induction c1 with
  | nil =>
    intro cur1 h c2 cur2 pb
    cases cur1 with
    | nil => exact ⟨pb, rfl, fun cells k hk _ => by simp [phase1, hk]⟩
    | cons _ _ => simp at h
  | cons c c1 ih =>
    intro cur1 h c2 cur2 pb
    cases cur1 with
    | nil => simp at h
    | cons sc cur1 =>
      obtain ⟨pb', e, hp⟩ := ih cur1 (by simpa using h) c2 cur2 (prefix_bonus_next pb)
      refine ⟨pb', by simp only [List.cons_append, fstCells, e], ?_⟩
      intro cells k hk hl
      cases cells with
      | nil => simp at hl
      | cons mc cells =>
        simp only [phase1]
        exact hp cells _ (by simp [hk]) (by simpa using hl)

theorem All2.zip_append {α β γ : Type} {R : α → β × γ → Prop} : ∀ {fs1 : List α} {x1 : List β} {y1 : List γ} {fs2 : List α} {x2 : List β} {y2 : List γ},
    x1.length = y1.length → All2 R fs1 (x1.zip y1) → All2 R fs2 (x2.zip y2) → All2 R (fs1 ++ fs2) ((x1 ++ x2).zip (y1 ++ y2)) := by
  intro fs1 x1 y1 fs2 x2 y2 hl h1 h2
  rw [List.zip_append hl]
  exact h1.append h2

theorem carryAfter_live : ∀ (ms : List (Option Cell)) (prevM : Option Cell) (p : Option PCell),
    (prevM.isSome = true ∨ p.isSome = true ∨ ∃ c, some c ∈ ms) →
    (carryAfter ms prevM p).1.isSome = true ∨ (carryAfter ms prevM p).2.isSome = true := by
  intro ms
  induction ms with
  | nil =>
    intro prevM p h
    rcases h with h | h | ⟨c, h⟩
    · exact Or.inl h
    · exact Or.inr h
    · cases h
  | cons m ms ih =>
    intro prevM p h
    simp only [carryAfter]
    apply ih
    rcases h with h | h | ⟨c, h⟩
    · exact Or.inr (Or.inl (by rw [pScore_isSome, h]; rfl))
    · exact Or.inr (Or.inl (by rw [pScore_isSome, h]; simp))
    · rcases List.mem_cons.mp h with h | h
      · exact Or.inl (by rw [← h]; rfl)
      · exact Or.inr (Or.inr ⟨c, h⟩)

theorem drop_cons_exists {α : Type} (a0 : α) (l : List α) : ∀ (k : Nat), k < l.length + 1 → ∃ c0, (a0 :: l).drop k = c0 :: l.drop k
  | 0, _ => ⟨a0, rfl⟩
  | k + 1, h => by
    have hlt : k < l.length := by omega
    exact ⟨l[k], by rw [List.drop_succ_cons, List.drop_eq_getElem_cons hlt]⟩

/-- **one call of `score_row`, on its pieces**: `e1` / `eB` are the current row's cells over the skipped columns / the
    remaining ones (as stored, or as computed on the fly in the first row), `ms1` / `msB` the recurrence's cells there -/
theorem rowCore (nc nnc : Nat) (a0 : Col) (Atail : List Col) (e1 eB : List ScoreCell) (cells : List MatrixCell) (ms1 msB : List (Option Cell)) (k0 : Carry)
    (hk0 : k0.p = 0 ∧ k0.m = 0)
    (hl1 : ms1.length = e1.length) (hlA : e1.length + eB.length ≤ Atail.length) (hlB : eB.length ≤ msB.length)
    (hcells : e1.length + eB.length ≤ cells.length)
    (hrel1 : All2 CellRel e1 ms1) (hrelB : All2 CellRel eB (msB.take eB.length))
    (hlive : (∃ c, some c ∈ ms1) ∨ ∃ c, msB.head? = some (some c))
    (hb : ∀ c ∈ Atail, c.bonus < 256) :
    let a := phase1 false nc ((a0 :: Atail).take e1.length) e1 cells k0
    let b := phase2 false nc nnc ((a0 :: Atail).drop e1.length) eB (a.1.drop e1.length) a.2
    let steps := nsteps nnc (ms1 ++ msB) Atail none none
    All2 StepRel b.1 ((steps.drop e1.length).take eB.length) ∧
    All2 FlagRel ((a.1.take e1.length ++ b.2).take (e1.length + eB.length)) ((e1 ++ eB).zip steps) ∧
    (a.1.take e1.length ++ b.2).drop (e1.length + eB.length) = cells.drop (e1.length + eB.length) ∧
    (a.1.take e1.length ++ b.2).length = cells.length := by
  intro a b steps
  have hAt : Atail = Atail.take e1.length ++ Atail.drop e1.length := (List.take_append_drop _ _).symm
  have hl1' : ms1.length = (Atail.take e1.length).length := by rw [List.length_take]; omega
  have hsteps : steps = nsteps nnc ms1 (Atail.take e1.length) none none ++
      nsteps nnc msB (Atail.drop e1.length) (carryAfter ms1 none none).1 (carryAfter ms1 none none).2 := by
    show nsteps nnc (ms1 ++ msB) Atail none none = _
    conv => lhs; rw [hAt]
    exact nsteps_append nnc ms1 _ hl1' msB _ none none
  have hk0' : CarryRel k0 none none := ⟨by rw [hk0.1]; rfl, by rw [hk0.2]; rfl, fun c hc => by cases hc⟩
  -- phase 1
  have hcolsx : ((a0 :: Atail).take e1.length).length = e1.length := by rw [List.length_take]; simp; omega
  have P1 := phase1_spec nc nnc e1 ms1 (Atail.take e1.length) ((a0 :: Atail).take e1.length) cells k0 none none hrel1 hcolsx
    (by rw [List.length_take]; omega) (by omega) hk0'
  obtain ⟨p1c, p1f, p1d, p1l⟩ := P1
  -- phase 2: the columns from `next_row_off - 1` on
  obtain ⟨c0, hdrop⟩ := drop_cons_exists a0 Atail e1.length (by omega)
  have hlive2 : Live (carryAfter ms1 none none).1 (carryAfter ms1 none none).2 msB := by
    rcases hlive with ⟨c, h⟩ | h
    · rcases carryAfter_live ms1 none none (Or.inr (Or.inr ⟨c, h⟩)) with h | h
      · exact Or.inl h
      · exact Or.inr (Or.inl h)
    · exact Or.inr (Or.inr h)
  have P2 := phase2_spec nc nnc eB msB c0 (Atail.drop e1.length) (a.1.drop e1.length) a.2 _ _ hrelB hlB
    (by rw [List.length_drop]; omega) (by rw [List.length_drop, p1l]; omega) p1c hlive2 (fun c hc => hb c (List.mem_of_mem_drop hc))
  rw [← hdrop] at P2
  obtain ⟨p2s, p2f, p2d, p2l⟩ := P2
  have hs1len : (nsteps nnc ms1 (Atail.take e1.length) none none).length = e1.length := by
    rw [nsteps_length, List.length_take]; omega
  refine ⟨?_, ?_, ?_, ?_⟩
  · rw [hsteps, List.drop_left' hs1len]; exact p2s
  · have ha1 : (a.1.take e1.length).length = e1.length := by rw [List.length_take, p1l]; omega
    have e : (a.1.take e1.length ++ b.2).take (e1.length + eB.length) = a.1.take e1.length ++ b.2.take eB.length := by
      rw [List.take_append, ha1]
      have : e1.length + eB.length - e1.length = eB.length := by omega
      rw [this, List.take_of_length_le (by omega)]
    rw [e, hsteps]
    exact All2.zip_append (by rw [hs1len]) p1f p2f
  · have ha1 : (a.1.take e1.length).length = e1.length := by rw [List.length_take, p1l]; omega
    rw [List.drop_append, ha1]
    have : e1.length + eB.length - e1.length = eB.length := by omega
    rw [this, List.drop_of_length_le (by omega), List.nil_append, p2d, List.drop_drop]
    have h2 := congrArg (List.drop eB.length) p1d
    rw [List.drop_drop, List.drop_drop] at h2
    exact h2
  · have ha1 : (a.1.take e1.length).length = e1.length := by rw [List.length_take, p1l]; omega
    rw [List.length_append, ha1, p2l, List.length_drop, p1l]; omega

end NucleoVerif.OptImpl
