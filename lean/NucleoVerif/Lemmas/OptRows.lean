import NucleoVerif.Lemmas.OptScoreRow
import NucleoVerif.Lemmas.DPComplete
namespace NucleoVerif.OptImpl
open NucleoVerif NucleoVerif.Gen NucleoVerif.Gen.Opt NucleoVerif.DP

/-! ## the greedy row offsets of `setup` -/

theorem rowOffsGo_length_le : ∀ (cols : List Col) (n : List Nat) (b : Nat), (rowOffsGo n cols b).length ≤ n.length ∧ (rowOffsGo n cols b).length ≤ cols.length := by
  intro cols
  induction cols with
  | nil => intro n b; cases n <;> simp [rowOffsGo]
  | cons c cs ih =>
    intro n b
    cases n with
    | nil => simp [rowOffsGo]
    | cons nc ns =>
      simp only [rowOffsGo]
      split
      · have := ih ns (b + 1); simp only [List.length_cons]; omega
      · have := ih (nc :: ns) (b + 1); simp only [List.length_cons] at this ⊢; omega

/-- the offsets found by the scan from column `lo` on: each is the first column at or after its lower bound that carries
    its needle character, and enough columns remain for the rest of the needle -/
def GreedyFrom (cols : List Col) : Nat → List Nat → List Nat → Prop
  | _, [], [] => True
  | lo, nc :: ns, o :: os =>
    lo ≤ o ∧ o + ns.length < cols.length ∧ (∀ c ∈ (cols.drop lo).take (o - lo), c.ch ≠ nc) ∧ (∃ c, cols[o]? = some c ∧ c.ch = nc) ∧
      GreedyFrom cols (o + 1) ns os
  | _, _, _ => False

theorem rowOffsGo_greedy (cols : List Col) : ∀ (k : Nat) (lo : Nat) (n offs : List Nat), cols.length - lo = k → lo ≤ cols.length →
    rowOffsGo n (cols.drop lo) lo = offs → offs.length = n.length → GreedyFrom cols lo n offs := by
  intro k
  induction k with
  | zero =>
    intro lo n offs hk hlo h hl
    have hd : cols.drop lo = [] := List.drop_eq_nil_of_le (by omega)
    rw [hd] at h
    cases n with
    | nil => simp [rowOffsGo] at h; subst h; trivial
    | cons nc ns => simp [rowOffsGo] at h; subst h; simp at hl
  | succ k ih =>
    intro lo n offs hk hlo h hl
    have hlt : lo < cols.length := by omega
    rw [List.drop_eq_getElem_cons hlt] at h
    cases n with
    | nil => simp [rowOffsGo] at h; subst h; trivial
    | cons nc ns =>
      simp only [rowOffsGo] at h
      by_cases hc : cols[lo].ch = nc
      · simp only [hc, if_true] at h
        subst h
        simp only [List.length_cons, Nat.add_right_cancel_iff] at hl
        have hrest := ih (lo + 1) ns _ (by omega) (by omega) rfl hl
        have hle := (rowOffsGo_length_le (cols.drop (lo + 1)) ns (lo + 1)).2
        rw [hl, List.length_drop] at hle
        refine ⟨Nat.le_refl _, by omega, by simp, ⟨cols[lo], List.getElem?_eq_getElem hlt, hc⟩, hrest⟩
      · simp only [hc, if_false] at h
        have hrest := ih (lo + 1) (nc :: ns) offs (by omega) (by omega) h hl
        cases offs with
        | nil => simp at hl
        | cons o os =>
          obtain ⟨h1, h2, h3, h4, h5⟩ := hrest
          refine ⟨by omega, h2, ?_, h4, h5⟩
          intro c hcm
          have e : (cols.drop lo).take (o - lo) = cols[lo] :: (cols.drop (lo + 1)).take (o - (lo + 1)) := by
            rw [List.drop_eq_getElem_cons hlt, show o - lo = (o - (lo + 1)) + 1 by omega, List.take_succ_cons]
          rw [e] at hcm
          rcases List.mem_cons.mp hcm with hcm | hcm
          · rw [hcm]; exact hc
          · exact h3 c hcm

theorem rowOffs_greedy (cols : List Col) (n : List Nat) (h : (rowOffs n cols).length = n.length) : GreedyFrom cols 0 n (rowOffs n cols) :=
  rowOffsGo_greedy cols _ 0 n _ rfl (Nat.zero_le _) (by rw [List.drop_zero]; rfl) h

/-! ## rows of the recurrence -/

theorem allRows_snoc (cols : List Col) : ∀ (a : List Nat) (x : Nat) (R : List (Option Cell)),
    allRows cols (a ++ [x]) R = nextRow x (allRows cols a R) cols := by
  intro a
  induction a with
  | nil => intro x R; rfl
  | cons y a ih => intro x R; simp only [List.cons_append, allRows]; exact ih x _

/-- row `r` of the recurrence for the needle `n` -/
def rowN (cols : List Col) (n : List Nat) (pb : Nat) (r : Nat) : List (Option Cell) :=
  allRows cols ((n.drop 1).take r) (firstRow (n.getD 0 0) cols pb)

theorem rowN_succ (cols : List Col) (n : List Nat) (pb r : Nat) (h : r + 1 < n.length) :
    rowN cols n pb (r + 1) = nextRow (n.getD (r + 1) 0) (rowN cols n pb r) cols := by
  unfold rowN
  have : (n.drop 1).take (r + 1) = (n.drop 1).take r ++ [n.getD (r + 1) 0] := by
    rw [List.take_succ]
    congr 1
    rw [List.getElem?_drop, show 1 + r = r + 1 by omega, List.getD_eq_getElem?_getD, List.getElem?_eq_getElem h]
    rfl
  rw [this, allRows_snoc]

theorem rowN_length (cols : List Col) (n : List Nat) (pb : Nat) : ∀ r, (rowN cols n pb r).length = cols.length := by
  intro r
  unfold rowN
  generalize (n.drop 1).take r = a
  have : ∀ (a : List Nat) (R : List (Option Cell)), R.length = cols.length → (allRows cols a R).length = cols.length := by
    intro a
    induction a with
    | nil => intro R h; exact h
    | cons x a ih => intro R h; simp only [allRows]; exact ih _ (nextRow_length x R cols h)
  exact this a _ (firstRow_length _ _ _)

/-- the next row of the recurrence, seen from the current row's scan offset: nothing before the next row's offset, a
    cell at it, and from there on the outputs of the step records -/
theorem nextRow_facts (nnc : Nat) (R : List (Option Cell)) (cols : List Col) (ro so nro : Nat) (hR : R.length = cols.length)
    (hso : ro ≤ so) (hso2 : so < nro) (hnro : nro < cols.length)
    (hnone : R.take so = List.replicate so none) (hsome : ∃ c, R[so]? = some (some c))
    (hch : ∀ c ∈ (cols.drop (so + 1)).take (nro - (so + 1)), c.ch ≠ nnc) (hchn : ∃ c, cols[nro]? = some c ∧ c.ch = nnc) :
    (nextRow nnc R cols).take nro = List.replicate nro none ∧ (∃ c, (nextRow nnc R cols)[nro]? = some (some c)) ∧
    (nextRow nnc R cols).drop nro = ((nsteps nnc (R.drop ro) (cols.drop (ro + 1)) none none).drop (nro - 1 - ro)).map NStep.out := by
  have hnone' : R.take ro = List.replicate ro none := by
    have := congrArg (List.take ro) hnone
    rw [List.take_take, Nat.min_eq_left hso, List.take_replicate, Nat.min_eq_left hso] at this
    exact this
  have hch' : ∀ c ∈ (cols.drop (so + 1)).take (nro - 1 - so), c.ch ≠ nnc := by
    rw [show nro - 1 - so = nro - (so + 1) by omega]; exact hch
  generalize hst : nsteps nnc (R.drop ro) (cols.drop (ro + 1)) none none = steps
  have hlen : steps.length = cols.length - ro - 1 := by
    rw [← hst, nsteps_length, List.length_drop, List.length_drop, hR]; omega
  have e := nextRow_eq_steps nnc R cols ro (by omega) hnone'
  rw [hst] at e
  have hfirst : (steps.take (nro - 1 - ro)).map NStep.out = List.replicate (nro - 1 - ro) none := by
    apply List.eq_replicate_iff.mpr
    refine ⟨by rw [List.length_map, List.length_take, hlen]; omega, ?_⟩
    intro x hx
    obtain ⟨st, hst1, hst2⟩ := List.mem_map.mp hx
    obtain ⟨t, ht, hget⟩ := List.getElem_of_mem hst1
    rw [List.length_take] at ht
    have hget' : steps[t]? = some st := by
      rw [List.getElem_take] at hget
      rw [← hget]; exact List.getElem?_eq_getElem _
    rw [← hst2]
    rw [← hst] at hget'
    exact steps_out_none nnc R cols ro so nro hso hso2 hnone hch' t st (by omega) hget'
  have e2 : nextRow nnc R cols = List.replicate nro none ++ (steps.drop (nro - 1 - ro)).map NStep.out := by
    rw [e]
    conv => lhs; rw [← List.take_append_drop (nro - 1 - ro) steps, List.map_append, hfirst, ← List.append_assoc, List.replicate_append_replicate]
    rw [show ro + 1 + (nro - 1 - ro) = nro by omega]
  refine ⟨?_, ?_, ?_⟩
  · rw [e2, List.take_left' (List.length_replicate ..)]
  · have hex : nro - 1 - ro < steps.length := by omega
    have hs := steps_out_some nnc R cols ro so nro hso hso2 hsome hchn steps[nro - 1 - ro] (by rw [hst]; exact List.getElem?_eq_getElem hex)
    obtain ⟨c, hc⟩ := Option.isSome_iff_exists.mp hs
    refine ⟨c, ?_⟩
    rw [e2, List.getElem?_append_right (by rw [List.length_replicate]; omega), List.length_replicate, Nat.sub_self, List.getElem?_map,
      List.getElem?_drop, Nat.add_zero, List.getElem?_eq_getElem hex, Option.map_some, hc]
  · rw [e2, List.drop_left' (List.length_replicate ..)]

/-! ## the whole matrix: context, per-row facts, loop invariant -/

structure Ctx where
  cols : List Col
  n : List Nat
  offs : List Nat
  pb : Nat

namespace Ctx
def width (c : Ctx) : Nat := c.cols.length + 1 - c.n.length
/-- the row's true offset (`row_offs[r]`) -/
def so (c : Ctx) (r : Nat) : Nat := c.offs.getD r 0
/-- where `score_row` starts scanning the row (the first row is always scanned from column 0) -/
def ro (c : Ctx) (r : Nat) : Nat := if r = 0 then 0 else c.offs.getD r 0
def row (c : Ctx) (r : Nat) : List (Option Cell) := rowN c.cols c.n c.pb r
def steps (c : Ctx) (r : Nat) : List NStep :=
  nsteps (c.n.getD (r + 1) 0) ((c.row r).drop (c.ro r)) (c.cols.drop (c.ro r + 1)) none none
/-- number of back-pointer cells of row `r` -/
def L (c : Ctx) (r : Nat) : Nat := c.width - (c.ro r - r)
/-- where `populate_matrix` writes row `r`'s back-pointer cells -/
def seg (c : Ctx) : Nat → Nat
  | 0 => 0
  | r + 1 => if r = 0 then c.width else c.seg r + (c.width + r - c.so r)
end Ctx

/-- what the back-pointer cells of row `r` say about the recurrence -/
def RowFacts (c : Ctx) (r : Nat) (cells : List MatrixCell) : Prop :=
  ∀ (t : Nat) (st : NStep), t < c.L r → (c.steps r)[t]? = some st →
    (ppath st.p' = if (cells.getD (c.seg r + t) default).get false then mpath st.prevM else ppath st.pin) ∧
    (∀ (stp : NStep) (cc : Cell), 1 ≤ r → (c.steps (r - 1))[c.so r - 1 - c.ro (r - 1) + t]? = some stp → stp.out = some cc →
      some cc.path = (if (cells.getD (c.seg r + t) default).get true then mpath stp.m else ppath stp.p').map (· ++ [stp.col.idx]))

theorem All2.get_zip {α β γ : Type} {R : α → β × γ → Prop} {fs : List α} {xs : List β} {ys : List γ} (h : All2 R fs (xs.zip ys))
    (t : Nat) (f : α) (x : β) (y : γ) (hf : fs[t]? = some f) (hx : xs[t]? = some x) (hy : ys[t]? = some y) : R f (x, y) := by
  apply h.get t f (x, y) hf
  rw [List.getElem?_zip_eq_some]
  exact ⟨hx, hy⟩

/-- one row of `populate_matrix` / `setup`: what the call leaves in the score row and in the back-pointer cells -/
theorem rowStep_spec (c : Ctx) (first : Bool) (i : Nat) (s : PState) (nc nnc pb : Nat) (E : List ScoreCell)
    (hN : i + 2 ≤ c.n.length) (hNW : c.n.length ≤ c.cols.length)
    (hcur : s.cur.length = c.width) (hoff : s.off = c.seg i)
    (hi : i ≤ c.ro i) (hso : c.ro i ≤ c.so i) (hso2 : c.so i < c.so (i + 1)) (hnro : c.so (i + 1) + (c.n.length - 1 - (i + 1)) < c.cols.length)
    (hclen : c.seg i + c.L i ≤ s.cells.length)
    (hnone : (c.row i).take (c.so i) = List.replicate (c.so i) none) (hsome : ∃ cc, (c.row i)[c.so i]? = some (some cc))
    (hb : ∀ x ∈ c.cols, x.bonus < 256)
    (hE : E = eff first nc (c.cols.drop (c.ro i)) pb (s.cur.drop (c.ro i - i)))
    (hnnc : nnc = c.n.getD (i + 1) 0)
    (hrel : All2 CellRel E (((c.row i).drop (c.ro i)).take (c.L i)))
    (hprev : 1 ≤ i → All2 StepRel E (((c.steps (i - 1)).drop (c.so i - 1 - c.ro (i - 1))).take (c.L i))) :
    let s1 := rowStep first c.cols c.width s (c.ro i) (c.so (i + 1)) i nc nnc pb
    s1.cur.length = c.width ∧ s1.cells.length = s.cells.length ∧
    All2 StepRel (s1.cur.drop (c.so (i + 1) - 1 - i)) (((c.steps i).drop (c.so (i + 1) - 1 - c.ro i)).take (c.width - (c.so (i + 1) - 1 - i))) ∧
    RowFacts c i s1.cells ∧
    (∀ k, k < c.seg i → s1.cells.getD k default = s.cells.getD k default) := by
  subst hnnc
  intro s1
  have hw : c.width + i + 1 ≤ c.cols.length := by unfold Ctx.width; omega
  have hnrel : c.so (i + 1) - 1 - i < c.width := by unfold Ctx.width; omega
  have hLdef : c.L i = c.width - (c.ro i - i) := rfl
  have spec := scoreRow_spec first c.cols s.cur (s.cells.drop s.off) (c.row i) (c.ro i) (c.so i) (c.so (i + 1)) i nc (c.n.getD (i + 1) 0) pb c.width
    (rowN_length _ _ _ _) hcur hi hso hso2 (by omega) hw hnrel (by rw [List.length_drop, hoff]; omega) hnone hsome hb (by rw [← hE]; exact hrel)
  simp only at spec
  rw [← hE] at spec
  obtain ⟨sp1, sp2, sp3, sp4, sp5⟩ := spec
  have hs1c : s1.cur = (scoreRow first s.cur (s.cells.drop s.off) c.cols (c.ro i) (c.so (i + 1)) i nc (c.n.getD (i + 1) 0) pb).1 := rfl
  have hs1m : s1.cells = s.cells.take s.off ++ (scoreRow first s.cur (s.cells.drop s.off) c.cols (c.ro i) (c.so (i + 1)) i nc (c.n.getD (i + 1) 0) pb).2 := rfl
  have hoffle : s.off ≤ s.cells.length := by rw [hoff]; omega
  have htk : (s.cells.take s.off).length = s.off := by rw [List.length_take]; omega
  refine ⟨by rw [hs1c]; exact sp1, ?_, ?_, ?_, ?_⟩
  · rw [hs1m, List.length_append, htk, sp5, List.length_drop]; omega
  · rw [hs1c]; exact sp2
  · -- the facts recorded for this row
    intro t st ht hst
    have hidx : s1.cells[c.seg i + t]? =
        ((scoreRow first s.cur (s.cells.drop s.off) c.cols (c.ro i) (c.so (i + 1)) i nc (c.n.getD (i + 1) 0) pb).2.take (c.width - (c.ro i - i)))[t]? := by
      rw [hs1m, List.getElem?_append_right (by rw [htk, hoff]; omega), htk, hoff,
        show c.seg i + t - c.seg i = t by omega, List.getElem?_take]
      simp only [show t < c.width - (c.ro i - i) from ht, if_true]
    have hflen : t < ((scoreRow first s.cur (s.cells.drop s.off) c.cols (c.ro i) (c.so (i + 1)) i nc (c.n.getD (i + 1) 0) pb).2.take (c.width - (c.ro i - i))).length := by
      rw [List.length_take, sp5, List.length_drop, hoff]
      have : c.L i = c.width - (c.ro i - i) := rfl
      omega
    have hElen : E.length = c.width - (c.ro i - i) := by rw [hE, eff_length, List.length_drop, hcur]
    have hEt : E[t]? = some (E[t]'(by rw [hElen]; exact ht)) := List.getElem?_eq_getElem _
    obtain ⟨f1, hf⟩ : ∃ f1, ((scoreRow first s.cur (s.cells.drop s.off) c.cols (c.ro i) (c.so (i + 1)) i nc (c.n.getD (i + 1) 0) pb).2.take (c.width - (c.ro i - i)))[t]? = some f1 :=
      ⟨_, List.getElem?_eq_getElem hflen⟩
    have fr : FlagRel f1 (_, st) := All2.get_zip sp3 t _ _ st hf hEt hst
    have hg : s1.cells.getD (c.seg i + t) default = f1 := by rw [List.getD_eq_getElem?_getD, hidx, hf]; rfl
    generalize s1.cells.getD (c.seg i + t) default = f0 at hg ⊢
    subst hg
    refine ⟨fr.2, ?_⟩
    intro stp cc h1 hstp hout
    have hp := hprev h1
    have hstp' : (((c.steps (i - 1)).drop (c.so i - 1 - c.ro (i - 1))).take (c.L i))[t]? = some stp := by
      rw [List.getElem?_take]; simp only [show t < c.L i from ht, if_true]
      rw [List.getElem?_drop]; exact hstp
    have sr : StepRel _ stp := hp.get t _ stp hEt hstp'
    have := sr.2 cc hout
    rw [← fr.1] at this
    exact this
  · intro k hk
    rw [hs1m, List.getD_eq_getElem?_getD, List.getD_eq_getElem?_getD, List.getElem?_append_left (by rw [htk, hoff]; exact hk), List.getElem?_take]
    simp only [show k < s.off by rw [hoff]; exact hk, if_true]
    rw [← List.getD_eq_getElem?_getD]

end NucleoVerif.OptImpl
