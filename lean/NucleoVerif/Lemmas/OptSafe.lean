import NucleoVerif.Lemmas.OptFinish
namespace NucleoVerif.OptImpl
open NucleoVerif NucleoVerif.Gen NucleoVerif.Gen.Opt NucleoVerif.DP

theorem scoreRowSafe_of (curLen cellsLen colsLen ro nro i : Nat) (h2 : i ≤ ro) (h3 : ro < nro) (h4 : nro - 1 ≤ colsLen)
    (h5 : nro - 1 - i ≤ curLen) (h6 : nro - 1 - ro ≤ cellsLen) : scoreRowSafe curLen cellsLen colsLen ro nro i = true := by
  unfold scoreRowSafe
  simp only [Bool.and_eq_true, decide_eq_true_eq]
  omega

/-- every index computation of the traceback is in range, and the loop ends -/
theorem traceSafe_spec (c : Ctx) (g : Good c) (cells : List MatrixCell)
    (hcl : cells.length = c.seg (c.n.length - 1))
    (hfacts : ∀ r, r + 2 ≤ c.n.length → RowFacts c r cells) :
    ∀ (fuel r col : Nat) (matched : Bool) (path : List Nat) (st : NStep),
      r + 2 ≤ c.n.length →
      (c.steps r)[c.so r - c.ro r + col]? = some st →
      c.so r + col + (c.n.length - 1 - r) < c.cols.length →
      (if matched then mpath st.m else ppath st.p') = some path →
      r + (c.so r + col) < fuel →
      traceSafe cells c.width c.offs fuel ⟨r, col, matched, []⟩ = true := by
  intro fuel
  induction fuel with
  | zero => intro r col matched path st _ _ _ _ hf; omega
  | succ fuel ih =>
    intro r col matched path st hr hst hbound hrem hfuel
    have hro : c.ro r ≤ c.so r := by unfold Ctx.ro Ctx.so; split <;> omega
    have hlo := g.hlo r (by omega)
    have hror : (c.ro r = c.so r) ∨ (r = 0 ∧ c.ro r = 0) := by unfold Ctx.ro Ctx.so at *; split <;> simp_all
    have htL : c.so r - c.ro r + col < c.L r := by
      unfold Ctx.L Ctx.width
      rcases hror with h | h <;> omega
    obtain ⟨f1, f2⟩ := hfacts r hr _ st htL hst
    have hsegr := segOf_eq c g r hr
    have hseg : segOf c.width c.offs cells.length r + col = c.seg r + (c.so r - c.ro r + col) := by
      rw [hcl, hsegr]; omega
    have hso : c.offs.getD r 0 = c.so r := rfl
    -- the conditions at this cell
    have hs1 := seg_succ c g r (by omega)
    have hsm := seg_mono c g (c.n.length - 1) (r + 1) (by omega) (by omega)
    have hhere : (decide (r ≤ c.so r) && decide (c.so r - r ≤ c.width) && decide (col < c.width - (c.so r - r)) &&
        decide (segOf c.width c.offs cells.length r + (c.width - (c.so r - r)) ≤ cells.length)) = true := by
      simp only [Bool.and_eq_true, decide_eq_true_eq]
      rw [hcl, hsegr]
      have hL : c.L r = c.width - (c.ro r - r) := rfl
      unfold Ctx.width at *
      rcases hror with h | ⟨h0, h⟩
      · rw [h] at hL; omega
      · subst h0
        have : c.seg 0 = 0 := rfl
        omega
    obtain ⟨hm, _, _, _, _⟩ := nsteps_get _ _ _ none none _ st hst
    cases matched with
    | true =>
      simp only [if_true] at hrem
      obtain ⟨cc, hcc⟩ : ∃ cc, st.m = some cc := by
        cases h : st.m with
        | none => rw [h] at hrem; cases hrem
        | some cc => exact ⟨cc, rfl⟩
      rw [hcc, List.getElem?_drop, show c.ro r + (c.so r - c.ro r + col) = c.so r + col by omega] at hm
      cases r with
      | zero =>
        simp only [traceSafe, if_true, hso]
        exact hhere
      | succ r' =>
        have hro1 : c.ro (r' + 1) = c.so (r' + 1) := by unfold Ctx.ro Ctx.so; simp
        have hlink := g.hlink r' (by omega)
        have hinc := g.hinc r' (by omega)
        have hro' : c.ro r' ≤ c.so r' := by unfold Ctx.ro Ctx.so; split <;> omega
        have hm2 : ((c.row (r' + 1)).drop (c.so (r' + 1)))[col]? = some (some cc) := by rw [List.getElem?_drop]; exact hm
        rw [hlink, List.getElem?_map, List.getElem?_drop] at hm2
        obtain ⟨stp, hstp1, hstp2⟩ : ∃ stp, (c.steps r')[c.so (r' + 1) - 1 - c.ro r' + col]? = some stp ∧ stp.out = some cc := by
          cases h : (c.steps r')[c.so (r' + 1) - 1 - c.ro r' + col]? with
          | none => rw [h] at hm2; cases hm2
          | some stp => rw [h] at hm2; exact ⟨stp, rfl, Option.some.inj hm2⟩
        have f2' := f2 stp cc (by omega)
          (by rw [show r' + 1 - 1 = r' by omega, hro1, Nat.sub_self, Nat.zero_add]; exact hstp1) hstp2
        rw [hro1, Nat.sub_self, Nat.zero_add] at hseg f2'
        obtain ⟨src, hsrc1, _⟩ : ∃ src, (if (cells.getD (c.seg (r' + 1) + col) default).get true then mpath stp.m else ppath stp.p') = some src ∧
            cc.path = src ++ [stp.col.idx] := by
          cases h : (if (cells.getD (c.seg (r' + 1) + col) default).get true then mpath stp.m else ppath stp.p') with
          | none => rw [h] at f2'; cases f2'
          | some src => rw [h] at f2'; exact ⟨src, rfl, Option.some.inj f2'⟩
        have := ih r' (col + (c.so (r' + 1) - c.so r') - 1) ((cells.getD (c.seg (r' + 1) + col) default).get true) src stp (by omega)
          (by rw [show c.so r' - c.ro r' + (col + (c.so (r' + 1) - c.so r') - 1) = c.so (r' + 1) - 1 - c.ro r' + col by omega]; exact hstp1)
          (by omega) hsrc1 (by omega)
        simp only [traceSafe, if_true, hso]
        rw [hseg, show c.offs.getD r' 0 = c.so r' from rfl, this, hhere]
        simp only [Bool.and_eq_true, decide_eq_true_eq, Bool.true_and, and_true]
        omega
    | false =>
      simp only [Bool.false_eq_true, if_false] at hrem
      have hcol : 1 ≤ col := by
        rcases Nat.eq_zero_or_pos col with h | h
        · subst h
          rw [Nat.add_zero] at hst
          have := steps_nones_carry c g r (by omega) st hst
          rw [this] at hrem; cases hrem
        · exact h
      have hlt : c.so r - c.ro r + col - 1 < (c.steps r).length := by
        have : c.so r - c.ro r + col < (c.steps r).length := by
          rcases Nat.lt_or_ge (c.so r - c.ro r + col) (c.steps r).length with h | h
          · exact h
          · rw [List.getElem?_eq_none h] at hst; cases hst
        omega
      have hst' := List.getElem?_eq_getElem hlt
      have hst2 : (c.steps r)[c.so r - c.ro r + col - 1 + 1]? = some st := by
        rw [show c.so r - c.ro r + col - 1 + 1 = c.so r - c.ro r + col by omega]; exact hst
      obtain ⟨e1, e2⟩ := nsteps_consecutive _ _ _ _ st _ hst2 hst'
      rw [e1, e2] at f1
      have := ih r (col - 1) ((cells.getD (c.seg r + (c.so r - c.ro r + col)) default).get false) path _ hr
        (by rw [show c.so r - c.ro r + (col - 1) = c.so r - c.ro r + col - 1 by omega]; exact hst')
        (by omega) (by rw [← f1]; exact hrem) (by omega)
      simp only [traceSafe, Bool.false_eq_true, if_false, hso]
      rw [hseg, this, hhere]
      simp only [Bool.and_eq_true, decide_eq_true_eq, Bool.true_and, and_true]
      exact hcol

theorem rowSafe_later (c : Ctx) (g : Good c) (clen : Nat) (hclen : c.seg (c.n.length - 1) ≤ clen) (i : Nat) (hi1 : 1 ≤ i) (hi2 : i + 2 ≤ c.n.length)
    (s : PState) (inv : Inv c clen i s) :
    (scoreRowSafe s.cur.length (s.cells.length - s.off) c.cols.length (c.so i) (c.so (i + 1)) i &&
      decide (c.so i ≤ c.width + i) && decide (s.off + (c.width + i - c.so i) ≤ s.cells.length)) = true := by
  have hlo := g.hlo i (by omega)
  have hlo' := g.hlo (i + 1) (by omega)
  have hinc := g.hinc i (by omega)
  have hs1 := seg_succ c g i (by omega)
  have hsm := seg_mono c g (c.n.length - 1) (i + 1) (by omega) (by omega)
  have hL : c.L i = c.width - (c.so i - i) := by unfold Ctx.L Ctx.ro Ctx.so; simp [show i ≠ 0 by omega]
  have hw : c.width = c.cols.length + 1 - c.n.length := rfl
  have h1 := scoreRowSafe_of s.cur.length (s.cells.length - s.off) c.cols.length (c.so i) (c.so (i + 1)) i hlo.1 hinc (by omega)
    (by rw [inv.hcur]; omega) (by rw [inv.hcells, inv.hoff]; omega)
  rw [h1, inv.hoff, inv.hcells]
  simp only [Bool.true_and, Bool.and_eq_true, decide_eq_true_eq]
  omega

theorem populateSafe_cons (cols : List Col) (width i nc nnc : Nat) (ns : List Nat) (ro nro : Nat) (offs : List Nat) (s : PState) :
    populateSafe cols width i (nc :: nnc :: ns) (ro :: nro :: offs) s =
      (scoreRowSafe s.cur.length (s.cells.length - s.off) cols.length ro nro i &&
        decide (ro ≤ width + i) && decide (s.off + (width + i - ro) ≤ s.cells.length) &&
        populateSafe cols width (i + 1) (nnc :: ns) (nro :: offs) (rowStep false cols width s ro nro i nc nnc 0)) := rfl

theorem populateSafe_spec (c : Ctx) (g : Good c) (clen : Nat) (hclen : c.seg (c.n.length - 1) ≤ clen) :
    ∀ (rest : List Nat) (i nc nnc ro nro : Nat) (offs' : List Nat) (s : PState), 1 ≤ i →
      c.n.drop i = nc :: nnc :: rest → c.offs.drop i = ro :: nro :: offs' → Inv c clen i s →
      populateSafe c.cols c.width i (nc :: nnc :: rest) (ro :: nro :: offs') s = true := by
  intro rest
  induction rest with
  | nil =>
    intro i nc nnc ro nro offs' s hi hn ho inv
    have hlen : c.n.length = i + 2 := by
      have := congrArg List.length hn; simp at this; omega
    have e1 : ro = c.so i := by
      have := congrArg (fun l => l.getD 0 0) ho; simp at this; unfold Ctx.so; rw [List.getD_eq_getElem?_getD]; omega
    have e2 : nro = c.so (i + 1) := by
      have := congrArg (fun l => l.getD 1 0) ho; simp at this; unfold Ctx.so; rw [List.getD_eq_getElem?_getD]; omega
    have hr := rowSafe_later c g clen hclen i hi (by omega) s inv
    cases offs' <;>
    · simp only [populateSafe, Bool.and_true]
      rw [e1, e2]; exact hr
  | cons x rest ih =>
    intro i nc nnc ro nro offs' s hi hn ho inv
    have hlen : i + 3 ≤ c.n.length := by
      have := congrArg List.length hn; simp at this; omega
    have e1 : ro = c.so i := by
      have := congrArg (fun l => l.getD 0 0) ho; simp at this; unfold Ctx.so; rw [List.getD_eq_getElem?_getD]; omega
    have e2 : nro = c.so (i + 1) := by
      have := congrArg (fun l => l.getD 1 0) ho; simp at this; unfold Ctx.so; rw [List.getD_eq_getElem?_getD]; omega
    have e3 : nnc = c.n.getD (i + 1) 0 := by
      have := congrArg (fun l => l.getD 1 0) hn; simp at this; rw [List.getD_eq_getElem?_getD]; omega
    have hol : c.offs.length = c.n.length := g.hlen
    have hr := rowSafe_later c g clen hclen i hi (by omega) s inv
    cases offs' with
    | nil =>
      have := congrArg List.length ho; simp at this; omega
    | cons o2 offs'' =>
      have hn' : c.n.drop (i + 1) = nnc :: x :: rest := by
        have := congrArg (List.drop 1) hn; rw [List.drop_drop] at this; simpa [Nat.add_comm] using this
      have ho' : c.offs.drop (i + 1) = nro :: o2 :: offs'' := by
        have := congrArg (List.drop 1) ho; rw [List.drop_drop] at this; simpa [Nat.add_comm] using this
      have hnext := ih (i + 1) nnc x nro o2 offs'' (rowStep false c.cols c.width s ro nro i nc nnc 0) (by omega) hn' ho'
        (by rw [e1, e2, e3]; exact populate_step c g clen hclen i hi (by omega) nc s inv)
      rw [populateSafe_cons, hnext, Bool.and_true, e1, e2]
      exact hr

/-- the best cell of the last row and the state the traceback starts in (the facts `finish_spec` is built on) -/
theorem finish_facts (c : Ctx) (g : Good c) (clen : Nat) (s : PState) (inv : Inv c clen (c.n.length - 1) s) :
    ∃ (e : Nat) (sc : ScoreCell) (st : NStep) (src : List Nat),
      maxByScore (s.cur.drop (c.so (c.n.length - 1) - (c.n.length - 1))) 0 none = some (e, sc) ∧
      c.so (c.n.length - 1) + e < c.cols.length ∧
      s.cur.getD (e + (c.so (c.n.length - 1) - (c.n.length - 1))) default = sc ∧
      (c.steps (c.n.length - 2))[c.so (c.n.length - 1) - 1 - c.ro (c.n.length - 2) + e]? = some st ∧
      (if sc.matched then mpath st.m else ppath st.p') = some src := by
  have hN := g.hN
  have hlo := g.hlo (c.n.length - 1) (by omega)
  have hlo2 := g.hlo (c.n.length - 2) (by omega)
  have hlink := g.hlink (c.n.length - 2) (by omega)
  rw [show c.n.length - 2 + 1 = c.n.length - 1 by omega] at hlink
  have hro2 : c.ro (c.n.length - 2) ≤ c.so (c.n.length - 2) := by unfold Ctx.ro Ctx.so; split <;> omega
  have hinc := g.hinc (c.n.length - 2) (by omega)
  rw [show c.n.length - 2 + 1 = c.n.length - 1 by omega] at hinc
  generalize hP : (c.steps (c.n.length - 2)).drop (c.so (c.n.length - 1) - 1 - c.ro (c.n.length - 2)) = P at hlink
  have hPlen : P.length = c.cols.length - c.so (c.n.length - 1) := by
    rw [← hP, List.length_drop]
    unfold Ctx.steps
    rw [nsteps_length, List.length_drop, List.length_drop, show (c.row (c.n.length - 2)).length = c.cols.length from rowN_length _ _ _ _]
    omega
  have hwid : c.width - (c.so (c.n.length - 1) - (c.n.length - 1)) = P.length := by rw [hPlen]; unfold Ctx.width; omega
  have hrow := inv.hrow
  rw [show c.n.length - 1 - 1 = c.n.length - 2 by omega, hP, hwid, List.take_length] at hrow
  have acc := maxBy_spec (s.cur.drop (c.so (c.n.length - 1) - (c.n.length - 1))) P [] [] none none rfl hrow (Or.inl ⟨rfl, fun x hx => by cases hx⟩)
  simp only [List.nil_append, List.length_nil] at acc
  have hsomeB : (bestCell (P.map NStep.out) none).isSome = true := by
    obtain ⟨cc, hcc⟩ := g.hsome (c.n.length - 1) (by omega)
    have : (P.map NStep.out)[0]? = some (some cc) := by
      rw [← hlink, List.getElem?_drop, Nat.add_zero]; exact hcc
    cases hl : P.map NStep.out with
    | nil => rw [hl] at this; cases this
    | cons x l =>
      rw [hl] at this
      simp only [List.getElem?_cons_zero, Option.some.injEq] at this
      rw [this]; exact bestCell_some_of_head cc l none
  rcases acc with ⟨hnb, _⟩ | ⟨cb, e, sc, st, hnb, hib, g1, g2, g3, g4⟩
  · rw [hnb] at hsomeB; cases hsomeB
  · have he : e < P.length := by
      rcases Nat.lt_or_ge e P.length with h | h
      · exact h
      · rw [List.getElem?_eq_none h] at g2; cases g2
    have hst : (c.steps (c.n.length - 2))[c.so (c.n.length - 1) - 1 - c.ro (c.n.length - 2) + e]? = some st := by
      rw [← hP, List.getElem?_drop] at g2; exact g2
    have hpath := g4.2 cb g3
    have hscm : (s.cur.getD (e + (c.so (c.n.length - 1) - (c.n.length - 1))) default) = sc := by
      rw [List.getElem?_drop] at g1
      rw [List.getD_eq_getElem?_getD, Nat.add_comm, g1]; rfl
    obtain ⟨src, hsrc1, _⟩ : ∃ src, (if sc.matched then mpath st.m else ppath st.p') = some src ∧ cb.path = src ++ [st.col.idx] := by
      cases h : (if sc.matched then mpath st.m else ppath st.p') with
      | none => rw [h] at hpath; cases hpath
      | some src => rw [h] at hpath; exact ⟨src, rfl, Option.some.inj hpath⟩
    exact ⟨e, sc, st, src, hib, by omega, hscm, hst, hsrc1⟩

theorem optimalSafe_ctx (cfg : Cfg) (c : Ctx) (g : Good c) (start : Nat) (hNW : c.n.length ≤ c.cols.length)
    (hoffs : rowOffs c.n c.cols = c.offs) (hpb : prefix_bonus_init cfg.preferPrefix start = c.pb)
    (cur0 : List ScoreCell) (cells0 : List MatrixCell) (hcur : cur0.length = c.width) (hcells : c.width * c.n.length ≤ cells0.length) :
    optimalSafe cfg c.cols c.n start cur0 cells0 = true := by
  have hN := g.hN
  obtain ⟨n0, n1, ns, hn⟩ : ∃ n0 n1 ns, c.n = n0 :: n1 :: ns := by
    cases h : c.n with
    | nil => rw [h] at hN; simp at hN
    | cons a l => cases l with
      | nil => rw [h] at hN; simp at hN
      | cons b l => exact ⟨a, b, l, rfl⟩
  have hseg : c.seg (c.n.length - 1) ≤ cells0.length := by
    have h1 := seg_le c g (c.n.length - 1) (by omega)
    have h2 : c.width * (c.n.length - 1) ≤ c.width * c.n.length := Nat.mul_le_mul_left _ (Nat.sub_le _ _)
    exact Nat.le_trans h1 (Nat.le_trans h2 hcells)
  have hwc : c.width ≤ cells0.length := by
    have : c.width * 1 ≤ c.width * c.n.length := Nat.mul_le_mul_left _ (by omega)
    rw [Nat.mul_one] at this
    exact Nat.le_trans this hcells
  have inv1 := setup_spec c g hNW cells0.length hseg cur0 cells0 hcur rfl
  have hn0 : c.n.getD 0 0 = n0 := by rw [hn]; rfl
  have hn1 : c.n.getD 1 0 = n1 := by rw [hn]; rfl
  have hs0 : setupRow c.cols c.width (c.so 1) n0 n1 c.pb cur0 cells0 =
      { rowStep true c.cols c.width ⟨cur0, cells0, 0⟩ 0 (c.so 1) 0 (c.n.getD 0 0) (c.n.getD 1 0) c.pb with off := c.width } := by
    rw [hn0, hn1]; rfl
  -- the loop
  have hpop : populateSafe c.cols c.width 1 (n1 :: ns) c.offs.tail (setupRow c.cols c.width (c.so 1) n0 n1 c.pb cur0 cells0) = true ∧
      Inv c cells0.length (c.n.length - 1) (populateGo c.cols c.width 1 (n1 :: ns) c.offs.tail (setupRow c.cols c.width (c.so 1) n0 n1 c.pb cur0 cells0)) := by
    rw [hs0]
    cases ns with
    | nil =>
      have h1 : ∀ (l : List Nat) (s : PState), populateGo c.cols c.width 1 [n1] l s = s := by
        intro l s; cases l with
        | nil => rfl
        | cons a l => cases l <;> rfl
      have h2 : ∀ (l : List Nat) (s : PState), populateSafe c.cols c.width 1 [n1] l s = true := by
        intro l s; cases l with
        | nil => rfl
        | cons a l => cases l <;> rfl
      rw [h1, h2]
      have : c.n.length - 1 = 1 := by rw [hn]; rfl
      rw [this]
      exact ⟨rfl, inv1⟩
    | cons n2 rest =>
      have hol : c.offs.length = rest.length + 3 := by rw [g.hlen, hn]; simp
      match ho : c.offs, hol with
      | o0 :: o1 :: o2 :: os, _ =>
        simp only [List.tail_cons]
        have hnd : c.n.drop 1 = n1 :: n2 :: rest := by rw [hn]; rfl
        have hod : c.offs.drop 1 = o1 :: o2 :: os := by rw [ho]; rfl
        exact ⟨populateSafe_spec c g cells0.length hseg rest 1 n1 n2 o1 o2 os _ (Nat.le_refl _) hnd hod inv1,
          populate_spec c g cells0.length hseg rest 1 n1 n2 o1 o2 os _ (Nat.le_refl _) hnd hod inv1⟩
  obtain ⟨hps, invN⟩ := hpop
  generalize hS : populateGo c.cols c.width 1 (n1 :: ns) c.offs.tail (setupRow c.cols c.width (c.so 1) n0 n1 c.pb cur0 cells0) = S at invN
  obtain ⟨e, sc, st, src, f1, f2, f3, f4, f5⟩ := finish_facts c g cells0.length S invN
  have hlo0 := g.hlo 0 (by omega)
  have hlo1 := g.hlo 1 (by omega)
  have hinc0 := g.hinc 0 (by omega)
  have hloL := g.hlo (c.n.length - 1) (by omega)
  have hincL := g.hinc (c.n.length - 2) (by omega)
  rw [show c.n.length - 2 + 1 = c.n.length - 1 by omega] at hincL
  have hrelL : c.so (c.n.length - 1) + 1 - c.n.length = c.so (c.n.length - 1) - (c.n.length - 1) := by omega
  have hfacts : ∀ r, r + 2 ≤ c.n.length → RowFacts c r (S.cells.take (c.seg (c.n.length - 1))) := by
    intro r hr
    apply rowFacts_frame c g r (c.n.length - 1) (by omega) (by omega) _ _ _ (invN.hfacts r (by omega))
    intro k hk
    rw [List.getD_eq_getElem?_getD, List.getElem?_take]
    simp only [hk, if_true]
    exact (List.getD_eq_getElem?_getD ..).symm
  have hro2 : c.ro (c.n.length - 2) ≤ c.so (c.n.length - 2) := by unfold Ctx.ro Ctx.so; split <;> omega
  have tr := traceSafe_spec c g _ (by rw [List.length_take, invN.hcells, Nat.min_eq_left hseg]) hfacts
    (c.cols.length + c.n.length + 1) (c.n.length - 2) (e + (c.so (c.n.length - 1) - c.so (c.n.length - 2)) - 1) sc.matched src st
    (by omega)
    (by rw [show c.so (c.n.length - 2) - c.ro (c.n.length - 2) + (e + (c.so (c.n.length - 1) - c.so (c.n.length - 2)) - 1) =
          c.so (c.n.length - 1) - 1 - c.ro (c.n.length - 2) + e by omega]; exact f4)
    (by omega) f5 (by omega)
  have hsr := scoreRowSafe_of cur0.length cells0.length c.cols.length 0 (c.so 1) 0 (Nat.le_refl _) (by omega) (by omega)
    (by rw [hcur]; unfold Ctx.width; omega) (by unfold Ctx.width at hwc; omega)
  -- put the pieces together
  unfold optimalSafe
  rw [hn]
  simp only [← hn, hoffs, hpb, g.hlen, ne_eq, not_true_eq_false, if_false]
  rw [show c.cols.length + 1 - c.n.length = c.width from rfl, show c.offs.getD 1 0 = c.so 1 from rfl,
    show c.offs.getD (c.n.length - 1) 0 = c.so (c.n.length - 1) from rfl, show c.offs.getD (c.n.length - 2) 0 = c.so (c.n.length - 2) from rfl,
    hS, hrelL, f1, hps, hsr]
  simp only [f3, invN.hcur, invN.hoff, invN.hcells, tr, Bool.and_true, Bool.true_and, Bool.and_eq_true, decide_eq_true_eq]
  unfold Ctx.width at *
  omega

end NucleoVerif.OptImpl
