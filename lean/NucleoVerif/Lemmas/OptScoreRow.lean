import NucleoVerif.Lemmas.OptRow
namespace NucleoVerif.OptImpl
open NucleoVerif NucleoVerif.Gen NucleoVerif.Gen.Opt NucleoVerif.DP

/-! ## the recurrence's next row in terms of the step records -/

theorem carryAfter_nones : ∀ (k : Nat), carryAfter (List.replicate k none) none none = (none, none)
  | 0 => rfl
  | k + 1 => by simp only [List.replicate_succ, carryAfter, pScore_none]; exact carryAfter_nones k

theorem nsteps_get (nnc : Nat) : ∀ (ms : List (Option Cell)) (cs : List Col) (prevM : Option Cell) (p : Option PCell) (t : Nat) (st : NStep),
    (nsteps nnc ms cs prevM p)[t]? = some st →
    ms[t]? = some st.m ∧ cs[t]? = some st.col ∧ st.nnc = nnc ∧
      st.prevM = (carryAfter (ms.take t) prevM p).1 ∧ st.pin = (carryAfter (ms.take t) prevM p).2 := by
  intro ms
  induction ms with
  | nil => intro cs prevM p t st h; simp [nsteps] at h
  | cons m ms ih =>
    intro cs prevM p t st h
    cases cs with
    | nil => simp [nsteps] at h
    | cons c1 cs =>
      cases t with
      | zero =>
        simp only [nsteps, List.getElem?_cons_zero, Option.some.injEq] at h
        subst h
        simp [carryAfter]
      | succ t =>
        simp only [nsteps, List.getElem?_cons_succ] at h
        have := ih cs m (pScore prevM p) t st h
        simpa [carryAfter] using this

theorem nextM_isSome (p : Option PCell) (b : Nat) (m : Option Cell) (col : Nat) (h : m.isSome = true ∨ p.isSome = true) :
    (nextM p b m col).isSome = true := by
  cases m with
  | none =>
    cases p with
    | none => simp at h
    | some q => rfl
  | some c =>
    cases p with
    | none => rfl
    | some q => simp only [nextM]; split <;> split <;> rfl

theorem nextRow_steps_aux (nnc : Nat) (pre : List Col) (c0 : Col) (C : List Col) (Rr : List (Option Cell)) :
    nextRow nnc (List.replicate pre.length none ++ Rr) (pre ++ c0 :: C) =
      List.replicate (pre.length + 1) none ++ (nsteps nnc Rr C none none).map NStep.out := by
  rw [nextRow_nones, nextRow_cons, zipGo_eq_nsteps, List.replicate_succ', List.append_assoc]
  rfl

theorem nextRow_eq_steps (nnc : Nat) (R : List (Option Cell)) (cols : List Col) (ro : Nat) (hro : ro < cols.length)
    (hnone : R.take ro = List.replicate ro none) :
    nextRow nnc R cols = List.replicate (ro + 1) none ++ (nsteps nnc (R.drop ro) (cols.drop (ro + 1)) none none).map NStep.out := by
  have e1 : List.replicate ro none ++ R.drop ro = R := by
    conv => rhs; rw [← List.take_append_drop ro R, hnone]
  have e2 : cols.take ro ++ cols[ro] :: cols.drop (ro + 1) = cols := by
    conv => rhs; rw [← List.take_append_drop ro cols, List.drop_eq_getElem_cons hro]
  have h := nextRow_steps_aux nnc (cols.take ro) cols[ro] (cols.drop (ro + 1)) (R.drop ro)
  rw [e2, List.length_take, Nat.min_eq_left (Nat.le_of_lt hro), e1] at h
  exact h

theorem drop_of_nones (R : List (Option Cell)) (ro so : Nat) (hso : ro ≤ so) (hnone : R.take so = List.replicate so none) :
    R.drop ro = List.replicate (so - ro) none ++ R.drop so := by
  have e : R = List.replicate so none ++ R.drop so := by
    conv => lhs; rw [← List.take_append_drop so R, hnone]
  conv => lhs; rw [e]
  rw [List.drop_append, List.drop_replicate, List.length_replicate]
  have : ro - so = 0 := by omega
  rw [this, List.drop_zero]

/-- before the next row's first column the recurrence has no cell: nothing of the current row ends early enough, or the
    character is not the next needle character -/
theorem steps_out_none (nnc : Nat) (R : List (Option Cell)) (cols : List Col) (ro so nro : Nat) (hso : ro ≤ so) (hso2 : so < nro)
    (hnone : R.take so = List.replicate so none)
    (hch : ∀ c ∈ (cols.drop (so + 1)).take (nro - 1 - so), c.ch ≠ nnc) :
    ∀ (t : Nat) (st : NStep), t < nro - 1 - ro → (nsteps nnc (R.drop ro) (cols.drop (ro + 1)) none none)[t]? = some st → st.out = none := by
  intro t st ht hst
  obtain ⟨hm, hc, _, hpm, hpp⟩ := nsteps_get nnc _ _ _ _ t st hst
  have hd := drop_of_nones R ro so hso hnone
  by_cases h1 : t < so - ro
  · -- no alignment of the current row ends here or earlier
    have e1 : (R.drop ro).take t = List.replicate t none := by
      rw [hd, List.take_append_of_le_length (by rw [List.length_replicate]; omega), List.take_replicate, Nat.min_eq_left (by omega)]
    rw [e1, carryAfter_nones] at hpm hpp
    have e2 : (R.drop ro)[t]? = some none := by
      rw [hd, List.getElem?_append_left (by rw [List.length_replicate]; exact h1), List.getElem?_replicate]
      simp [h1]
    rw [e2] at hm
    simp only [Option.some.injEq] at hm
    unfold NStep.out NStep.p'
    rw [← hm, hpm, hpp]
    simp only [pScore_none, nextM_none, ite_self]
  · have hmem : st.col ∈ (cols.drop (so + 1)).take (nro - 1 - so) := by
      rw [List.getElem?_drop] at hc
      have e : ro + 1 + t = so + 1 + (ro + t - so) := by omega
      rw [e, ← List.getElem?_drop] at hc
      have h3 : ((cols.drop (so + 1)).take (nro - 1 - so))[ro + t - so]? = some st.col := by
        rw [List.getElem?_take]; simp only [show ro + t - so < nro - 1 - so by omega, if_true]; exact hc
      exact List.mem_of_getElem? h3
    unfold NStep.out
    obtain ⟨_, _, hn, _, _⟩ := nsteps_get nnc _ _ _ _ t st hst
    rw [hn]
    simp only [hch _ hmem, if_false]

theorem steps_out_some (nnc : Nat) (R : List (Option Cell)) (cols : List Col) (ro so nro : Nat) (hso : ro ≤ so) (hso2 : so < nro)
    (hsome : ∃ c, R[so]? = some (some c)) (hchn : ∃ c, cols[nro]? = some c ∧ c.ch = nnc) :
    ∀ (st : NStep), (nsteps nnc (R.drop ro) (cols.drop (ro + 1)) none none)[nro - 1 - ro]? = some st → st.out.isSome = true := by
  intro st hst
  obtain ⟨hm, hc, hn, hpm, hpp⟩ := nsteps_get nnc _ _ _ _ _ st hst
  obtain ⟨c, hc1, hc2⟩ := hchn
  rw [List.getElem?_drop, show ro + 1 + (nro - 1 - ro) = nro by omega, hc1] at hc
  simp only [Option.some.injEq] at hc
  obtain ⟨cs, hcs⟩ := hsome
  unfold NStep.out
  rw [hn, ← hc, hc2]
  simp only [if_true]
  apply nextM_isSome
  by_cases h : so = nro - 1
  · left
    rw [List.getElem?_drop, show ro + (nro - 1 - ro) = so by omega, hcs] at hm
    simp only [Option.some.injEq] at hm
    rw [← hm]; rfl
  · right
    unfold NStep.p'
    rw [pScore_isSome, hpm, hpp]
    have : some cs ∈ (R.drop ro).take (nro - 1 - ro) := by
      have h3 : ((R.drop ro).take (nro - 1 - ro))[so - ro]? = some (some cs) := by
        rw [List.getElem?_take]; simp only [show so - ro < nro - 1 - ro by omega, if_true]
        rw [List.getElem?_drop, show ro + (so - ro) = so by omega]; exact hcs
      exact List.mem_of_getElem? h3
    rcases carryAfter_live _ none none (Or.inr (Or.inr ⟨cs, this⟩)) with h | h
    · rw [h]; rfl
    · rw [h]; simp

/-! ## `score_row` as a whole -/

theorem phase1_length (first : Bool) (nc : Nat) : ∀ (cols : List Col) (cur : List ScoreCell) (cells : List MatrixCell) (k : Carry),
    (phase1 first nc cols cur cells k).1.length = cells.length := by
  intro cols
  induction cols with
  | nil => intro cur cells k; simp [phase1]
  | cons c cs ih =>
    intro cur cells k
    cases cur with
    | nil => simp [phase1]
    | cons sc cur =>
      cases cells with
      | nil => simp [phase1]
      | cons mc cells => simp only [phase1, List.length_cons, ih]

theorem mode_split (first : Bool) (nc nnc : Nat) (A : List Col) (curReg : List ScoreCell) (cells : List MatrixCell) (pb n1 : Nat)
    (h1 : n1 ≤ curReg.length) (h2 : curReg.length + 1 ≤ A.length) (h3 : curReg.length ≤ cells.length) :
    phase1 first nc (A.take n1) (curReg.take n1) cells ⟨0, 0, pb⟩ =
      phase1 false nc (A.take n1) ((eff first nc A pb curReg).take n1) cells ⟨0, 0, pb⟩ ∧
    ∀ cells' : List MatrixCell, curReg.length - n1 ≤ cells'.length →
      phase2 first nc nnc (A.drop n1) (curReg.drop n1) cells' (phase1 first nc (A.take n1) (curReg.take n1) cells ⟨0, 0, pb⟩).2 =
        phase2 false nc nnc (A.drop n1) ((eff first nc A pb curReg).drop n1) cells' (phase1 first nc (A.take n1) (curReg.take n1) cells ⟨0, 0, pb⟩).2 := by
  cases first with
  | false => exact ⟨rfl, fun _ _ => rfl⟩
  | true =>
    have hl : (A.take n1).length = (curReg.take n1).length := by rw [List.length_take, List.length_take]; omega
    obtain ⟨pb', e, hp⟩ := fstCells_append nc (A.take n1) (curReg.take n1) hl (A.drop n1) (curReg.drop n1) pb
    rw [List.take_append_drop, List.take_append_drop] at e
    have hX : (fstCells nc (A.take n1) pb (curReg.take n1)).length = n1 := by rw [fstCells_length, List.length_take]; omega
    have hE : eff true nc A pb curReg = fstCells nc (A.take n1) pb (curReg.take n1) ++ fstCells nc (A.drop n1) pb' (curReg.drop n1) := by
      unfold eff; simp only [if_true]; exact e
    have hpb := hp cells ⟨0, 0, pb⟩ rfl (by rw [List.length_take]; omega)
    refine ⟨?_, ?_⟩
    · rw [hE, List.take_left' hX]
      exact phase1_first nc _ _ cells ⟨0, 0, pb⟩ hl (by rw [List.length_take]; omega)
    · intro cells' hc
      rw [hE, List.drop_left' hX, ← hpb]
      exact phase2_first nc nnc _ _ cells' _ (by rw [List.length_drop, List.length_drop]; omega) (by rw [List.length_drop]; exact hc)

theorem scoreRow_spec (first : Bool) (cols : List Col) (cur : List ScoreCell) (cells : List MatrixCell) (R : List (Option Cell))
    (ro so nro i nc nnc pb width : Nat)
    (hR : R.length = cols.length) (hcur : cur.length = width)
    (hi : i ≤ ro) (hso : ro ≤ so) (hso2 : so < nro) (hnro : nro < cols.length)
    (hw : width + i + 1 ≤ cols.length) (hnrel : nro - 1 - i < width)
    (hcells : width - (ro - i) ≤ cells.length)
    (hnone : R.take so = List.replicate so none) (hsome : ∃ c, R[so]? = some (some c))
    (hb : ∀ c ∈ cols, c.bonus < 256)
    (hrel : All2 CellRel (eff first nc (cols.drop ro) pb (cur.drop (ro - i))) ((R.drop ro).take (width - (ro - i)))) :
    let r := scoreRow first cur cells cols ro nro i nc nnc pb
    let steps := nsteps nnc (R.drop ro) (cols.drop (ro + 1)) none none
    r.1.length = width ∧
    All2 StepRel (r.1.drop (nro - 1 - i)) ((steps.drop (nro - 1 - ro)).take (width - (nro - 1 - i))) ∧
    All2 FlagRel (r.2.take (width - (ro - i))) ((eff first nc (cols.drop ro) pb (cur.drop (ro - i))).zip steps) ∧
    r.2.drop (width - (ro - i)) = cells.drop (width - (ro - i)) ∧ r.2.length = cells.length := by
  intro r steps
  -- names for the pieces
  have hroW : ro < cols.length := by omega
  have hA : cols.drop ro = cols[ro] :: cols.drop (ro + 1) := List.drop_eq_getElem_cons hroW
  generalize hE : eff first nc (cols.drop ro) pb (cur.drop (ro - i)) = E at hrel ⊢
  have hElen : E.length = width - (ro - i) := by rw [← hE, eff_length, List.length_drop, hcur]
  have hn1 : nro - 1 - i - (ro - i) = nro - 1 - ro := by omega
  have hms := mode_split first nc nnc (cols.drop ro) (cur.drop (ro - i)) cells pb (nro - 1 - ro)
    (by rw [List.length_drop, hcur]; omega) (by rw [List.length_drop, List.length_drop, hcur]; omega) (by rw [List.length_drop, hcur]; exact hcells)
  rw [hE] at hms
  obtain ⟨hm1, hm2⟩ := hms
  -- the call, rewritten to the stored-cell form
  have hr : r = (cur.take (nro - 1 - i) ++
      (phase2 false nc nnc ((cols.drop ro).drop (nro - 1 - ro)) (E.drop (nro - 1 - ro))
        ((phase1 false nc ((cols.drop ro).take (nro - 1 - ro)) (E.take (nro - 1 - ro)) cells ⟨0, 0, pb⟩).1.drop (nro - 1 - ro))
        (phase1 false nc ((cols.drop ro).take (nro - 1 - ro)) (E.take (nro - 1 - ro)) cells ⟨0, 0, pb⟩).2).1,
      (phase1 false nc ((cols.drop ro).take (nro - 1 - ro)) (E.take (nro - 1 - ro)) cells ⟨0, 0, pb⟩).1.take (nro - 1 - ro) ++
      (phase2 false nc nnc ((cols.drop ro).drop (nro - 1 - ro)) (E.drop (nro - 1 - ro))
        ((phase1 false nc ((cols.drop ro).take (nro - 1 - ro)) (E.take (nro - 1 - ro)) cells ⟨0, 0, pb⟩).1.drop (nro - 1 - ro))
        (phase1 false nc ((cols.drop ro).take (nro - 1 - ro)) (E.take (nro - 1 - ro)) cells ⟨0, 0, pb⟩).2).2) := by
    show scoreRow first cur cells cols ro nro i nc nnc pb = _
    unfold scoreRow
    simp only [hn1]
    have e1 : cols.drop (nro - 1) = (cols.drop ro).drop (nro - 1 - ro) := by rw [List.drop_drop]; congr 1; omega
    have e2 : cur.drop (nro - 1 - i) = (cur.drop (ro - i)).drop (nro - 1 - ro) := by rw [List.drop_drop]; congr 1; omega
    rw [e1, e2, ← hm1]
    rw [hm2 _ (by rw [List.length_drop, List.length_drop, hcur, phase1_length]; omega)]
  -- the pieces of the recurrence
  have hl1 : ((R.drop ro).take (nro - 1 - ro)).length = (E.take (nro - 1 - ro)).length := by
    rw [List.length_take, List.length_take, List.length_drop, hElen, hR]; omega
  have hrel1 : All2 CellRel (E.take (nro - 1 - ro)) ((R.drop ro).take (nro - 1 - ro)) := by
    have := hrel.take (nro - 1 - ro)
    rw [List.take_take, Nat.min_eq_left (by omega)] at this
    exact this
  have hEB : (E.drop (nro - 1 - ro)).length = width - (nro - 1 - i) := by rw [List.length_drop, hElen]; omega
  have hrelB : All2 CellRel (E.drop (nro - 1 - ro)) (((R.drop ro).drop (nro - 1 - ro)).take (E.drop (nro - 1 - ro)).length) := by
    have := hrel.drop (nro - 1 - ro)
    rw [List.drop_take] at this
    rw [hEB]
    have e : width - (ro - i) - (nro - 1 - ro) = width - (nro - 1 - i) := by omega
    rw [e] at this
    exact this
  have hE1 : (E.take (nro - 1 - ro)).length = nro - 1 - ro := by rw [List.length_take, hElen]; omega
  have hlive : (∃ c, some c ∈ (R.drop ro).take (nro - 1 - ro)) ∨ ∃ c, ((R.drop ro).drop (nro - 1 - ro)).head? = some (some c) := by
    obtain ⟨c, hc⟩ := hsome
    by_cases h : so = nro - 1
    · right
      refine ⟨c, ?_⟩
      rw [List.head?_drop, List.getElem?_drop, show ro + (nro - 1 - ro) = so by omega]; exact hc
    · left
      refine ⟨c, ?_⟩
      have h3 : ((R.drop ro).take (nro - 1 - ro))[so - ro]? = some (some c) := by
        rw [List.getElem?_take]; simp only [show so - ro < nro - 1 - ro by omega, if_true]
        rw [List.getElem?_drop, show ro + (so - ro) = so by omega]; exact hc
      exact List.mem_of_getElem? h3
  have core := rowCore nc nnc cols[ro] (cols.drop (ro + 1)) (E.take (nro - 1 - ro)) (E.drop (nro - 1 - ro)) cells
    ((R.drop ro).take (nro - 1 - ro)) ((R.drop ro).drop (nro - 1 - ro)) ⟨0, 0, pb⟩ ⟨rfl, rfl⟩ hl1
    (by rw [hE1, hEB, List.length_drop]; omega) (by rw [hEB, List.length_drop, List.length_drop, hR]; omega)
    (by rw [hE1, hEB]; omega) hrel1 hrelB hlive (fun c hc => hb c (List.mem_of_mem_drop hc))
  simp only [List.take_append_drop, hE1, hEB, ← hA] at core
  obtain ⟨c1, c2, c3, c4⟩ := core
  have hsum : nro - 1 - ro + (width - (nro - 1 - i)) = width - (ro - i) := by omega
  rw [hsum] at c2 c3
  rw [hr]
  refine ⟨?_, ?_, c2, c3, c4⟩
  · have := c1.length_eq
    rw [List.length_append, List.length_take, hcur, this, List.length_take, List.length_drop, nsteps_length, List.length_drop, List.length_drop, hR]
    omega
  · simp only
    rw [List.drop_left' (by rw [List.length_take, hcur]; omega)]
    exact c1

end NucleoVerif.OptImpl
