import NucleoVerif.Lemmas.OptBest
namespace NucleoVerif.OptImpl
open NucleoVerif NucleoVerif.Gen NucleoVerif.Gen.Opt NucleoVerif.DP

/-! ## `reconstruct_optimal_path` -/

/-- the segments split off the end of `matrix_cells[..matrix_len]` are the ones `populate_matrix` wrote (row 0's starts
    at its true offset: its cells were written from column 0 on) -/
theorem segBack_eq (c : Ctx) (g : Good c) : ∀ k, k + 2 ≤ c.n.length →
    segBack c.width c.offs (c.seg (c.n.length - 1)) k = c.seg (c.n.length - 1 - k) := by
  intro k
  induction k with
  | zero => intro _; rfl
  | succ k ih =>
    intro hk
    have hr1 : 1 ≤ c.n.length - 2 - k := by omega
    have hs := seg_succ c g (c.n.length - 2 - k) (by omega)
    have hlo := g.hlo (c.n.length - 2 - k) (by omega)
    simp only [segBack, ih (by omega), g.hlen]
    rw [show c.n.length - 1 - k = c.n.length - 2 - k + 1 by omega, hs, show c.n.length - 1 - (k + 1) = c.n.length - 2 - k by omega]
    have : c.L (c.n.length - 2 - k) = c.width - (c.offs.getD (c.n.length - 2 - k) 0 - (c.n.length - 2 - k)) := by
      unfold Ctx.L Ctx.ro; simp [show c.n.length - 2 - k ≠ 0 by omega]
    rw [this]; omega

theorem segOf_eq (c : Ctx) (g : Good c) (r : Nat) (hr : r + 2 ≤ c.n.length) :
    segOf c.width c.offs (c.seg (c.n.length - 1)) r = c.seg r + (c.so r - c.ro r) := by
  unfold segOf
  rw [g.hlen]
  cases r with
  | zero =>
    have h1 := segBack_eq c g (c.n.length - 2) (by omega)
    have hlo := g.hlo 0 (by omega)
    have hN := g.hN
    rw [show c.n.length - 1 - 0 = (c.n.length - 2) + 1 by omega]
    simp only [segBack, h1, g.hlen]
    rw [show c.n.length - 1 - (c.n.length - 2) = 1 by omega, show c.n.length - 2 - (c.n.length - 2) = 0 by omega]
    simp only [Ctx.seg, if_true, Ctx.ro, Ctx.so, Nat.sub_zero, Nat.zero_add]
    unfold Ctx.width Ctx.so at *; omega
  | succ r =>
    rw [segBack_eq c g _ (by omega)]
    have : c.so (r + 1) - c.ro (r + 1) = 0 := by unfold Ctx.ro Ctx.so; simp
    rw [this, Nat.add_zero]
    congr 1; omega

theorem carryAfter_snoc : ∀ (ms : List (Option Cell)) (m : Option Cell) (prevM : Option Cell) (p : Option PCell),
    carryAfter (ms ++ [m]) prevM p = (m, pScore (carryAfter ms prevM p).1 (carryAfter ms prevM p).2) := by
  intro ms
  induction ms with
  | nil => intro m prevM p; rfl
  | cons x ms ih => intro m prevM p; simp only [List.cons_append, carryAfter]; exact ih m x _

/-- consecutive step records: the carry into a column is the cell and the P-value of the column before -/
theorem nsteps_consecutive (nnc : Nat) (ms : List (Option Cell)) (cs : List Col) (t : Nat) (st st' : NStep)
    (h : (nsteps nnc ms cs none none)[t + 1]? = some st) (h' : (nsteps nnc ms cs none none)[t]? = some st') :
    st.prevM = st'.m ∧ st.pin = st'.p' := by
  obtain ⟨_, _, _, a1, a2⟩ := nsteps_get nnc ms cs none none (t + 1) st h
  obtain ⟨b0, _, _, b1, b2⟩ := nsteps_get nnc ms cs none none t st' h'
  have e : ms.take (t + 1) = ms.take t ++ [st'.m] := by
    rw [List.take_succ, b0]; rfl
  rw [e, carryAfter_snoc] at a1 a2
  unfold NStep.p'
  rw [b1, b2]
  exact ⟨a1, a2⟩

theorem firstRow_path (n0 : Nat) : ∀ (cols : List Col) (pb j : Nat) (cc : Cell), (firstRow n0 cols pb)[j]? = some (some cc) →
    ∃ x, cols[j]? = some x ∧ cc.path = [x.idx] := by
  intro cols
  induction cols with
  | nil => intro pb j cc h; simp [firstRow] at h
  | cons c cs ih =>
    intro pb j cc h
    cases j with
    | zero =>
      simp only [firstRow, List.getElem?_cons_zero, Option.some.injEq] at h
      split at h
      · cases h; exact ⟨c, rfl, rfl⟩
      · cases h
    | succ j =>
      simp only [firstRow, List.getElem?_cons_succ] at h
      exact ih _ j cc h

theorem steps_nones_carry (c : Ctx) (g : Good c) (r : Nat) (hr : r < c.n.length) (st : NStep)
    (h : (c.steps r)[c.so r - c.ro r]? = some st) : st.p' = none := by
  obtain ⟨_, _, _, a1, a2⟩ := nsteps_get _ _ _ none none _ st h
  have hro : c.ro r ≤ c.so r := by unfold Ctx.ro Ctx.so; split <;> omega
  have hd := drop_of_nones (c.row r) (c.ro r) (c.so r) hro (g.hnone r hr)
  rw [hd, List.take_left' (List.length_replicate ..), carryAfter_nones] at a1 a2
  unfold NStep.p'
  rw [a1, a2]; rfl

theorem trace_spec (c : Ctx) (g : Good c) (start : Nat) (cells : List MatrixCell)
    (hcl : cells.length = c.seg (c.n.length - 1))
    (hidx : ∀ j x, c.cols[j]? = some x → x.idx = start + j)
    (hfacts : ∀ r, r + 2 ≤ c.n.length → RowFacts c r cells) :
    ∀ (fuel r col : Nat) (matched : Bool) (out path : List Nat) (st : NStep),
      r + 2 ≤ c.n.length →
      (c.steps r)[c.so r - c.ro r + col]? = some st →
      c.so r + col + (c.n.length - 1 - r) < c.cols.length →
      (if matched then mpath st.m else ppath st.p') = some path →
      r + (c.so r + col) < fuel →
      traceGo cells c.width c.offs start fuel ⟨r, col, matched, out⟩ = path ++ out := by
  intro fuel
  induction fuel with
  | zero => intro r col matched out path st _ _ _ _ hf; omega
  | succ fuel ih =>
    intro r col matched out path st hr hst hbound hrem hfuel
    have hro : c.ro r ≤ c.so r := by unfold Ctx.ro Ctx.so; split <;> omega
    have hlo := g.hlo r (by omega)
    have hror : (c.ro r = c.so r) ∨ (r = 0 ∧ c.ro r = 0) := by unfold Ctx.ro Ctx.so at *; split <;> simp_all
    have htL : c.so r - c.ro r + col < c.L r := by
      unfold Ctx.L Ctx.width
      rcases hror with h | h <;> omega
    obtain ⟨f1, f2⟩ := hfacts r hr _ st htL hst
    have hseg : segOf c.width c.offs cells.length r + col = c.seg r + (c.so r - c.ro r + col) := by
      rw [hcl, segOf_eq c g r hr]; omega
    have hso : c.offs.getD r 0 = c.so r := rfl
    obtain ⟨hm, hcolst, _, _, _⟩ := nsteps_get _ _ _ none none _ st hst
    cases matched with
    | true =>
      simp only [if_true] at hrem
      obtain ⟨cc, hcc⟩ : ∃ cc, st.m = some cc := by
        cases h : st.m with
        | none => rw [h] at hrem; cases hrem
        | some cc => exact ⟨cc, rfl⟩
      have hpath : cc.path = path := by rw [hcc] at hrem; exact Option.some.inj hrem
      rw [hcc, List.getElem?_drop, show c.ro r + (c.so r - c.ro r + col) = c.so r + col by omega] at hm
      cases r with
      | zero =>
        have hrow0 : c.row 0 = firstRow (c.n.getD 0 0) c.cols c.pb := by
          show rowN c.cols c.n c.pb 0 = _
          unfold rowN; rfl
        rw [hrow0] at hm
        obtain ⟨x, hx1, hx2⟩ := firstRow_path _ _ _ _ cc hm
        have := hidx _ x hx1
        simp only [traceGo, if_true, hso]
        rw [← hpath, hx2, this]
        simp only [List.singleton_append, List.cons.injEq, and_true]
        omega
      | succ r' =>
        have hro1 : c.ro (r' + 1) = c.so (r' + 1) := by unfold Ctx.ro Ctx.so; simp
        have hlink := g.hlink r' (by omega)
        have hinc := g.hinc r' (by omega)
        have hro' : c.ro r' ≤ c.so r' := by unfold Ctx.ro Ctx.so; split <;> omega
        -- the record of the row above that produced this cell
        have hm2 : ((c.row (r' + 1)).drop (c.so (r' + 1)))[col]? = some (some cc) := by rw [List.getElem?_drop]; exact hm
        rw [hlink, List.getElem?_map, List.getElem?_drop] at hm2
        obtain ⟨stp, hstp1, hstp2⟩ : ∃ stp, (c.steps r')[c.so (r' + 1) - 1 - c.ro r' + col]? = some stp ∧ stp.out = some cc := by
          cases h : (c.steps r')[c.so (r' + 1) - 1 - c.ro r' + col]? with
          | none => rw [h] at hm2; cases hm2
          | some stp => rw [h] at hm2; exact ⟨stp, rfl, Option.some.inj hm2⟩
        have f2' := f2 stp cc (by omega)
          (by rw [show r' + 1 - 1 = r' by omega, hro1, Nat.sub_self, Nat.zero_add]; exact hstp1) hstp2
        rw [hro1, Nat.sub_self, Nat.zero_add] at hseg f2'
        obtain ⟨src, hsrc1, hsrc2⟩ : ∃ src, (if (cells.getD (c.seg (r' + 1) + col) default).get true then mpath stp.m else ppath stp.p') = some src ∧
            cc.path = src ++ [stp.col.idx] := by
          cases h : (if (cells.getD (c.seg (r' + 1) + col) default).get true then mpath stp.m else ppath stp.p') with
          | none => rw [h] at f2'; cases f2'
          | some src => rw [h] at f2'; exact ⟨src, rfl, Option.some.inj f2'⟩
        obtain ⟨_, hcolp, _, _, _⟩ := nsteps_get _ _ _ none none _ stp hstp1
        rw [List.getElem?_drop, show c.ro r' + 1 + (c.so (r' + 1) - 1 - c.ro r' + col) = c.so (r' + 1) + col by omega] at hcolp
        have hidxp := hidx _ _ hcolp
        simp only [traceGo, if_true, hso]
        rw [hseg]
        have := ih r' (col + (c.so (r' + 1) - c.so r') - 1) ((cells.getD (c.seg (r' + 1) + col) default).get true)
          ((start + col + c.so (r' + 1)) :: out) src stp (by omega)
          (by rw [show c.so r' - c.ro r' + (col + (c.so (r' + 1) - c.so r') - 1) = c.so (r' + 1) - 1 - c.ro r' + col by omega]; exact hstp1)
          (by omega) hsrc1 (by omega)
        rw [show c.offs.getD r' 0 = c.so r' from rfl, this, ← hpath, hsrc2, hidxp, List.append_assoc]
        simp only [List.singleton_append, List.append_cancel_left_eq, List.cons.injEq, and_true]
        omega
    | false =>
      simp only [Bool.false_eq_true, if_false] at hrem
      have hcol : 1 ≤ col := by
        rcases Nat.eq_zero_or_pos col with h | h
        · subst h
          rw [Nat.add_zero] at hst
          have := steps_nones_carry c g r (by omega) st hst
          rw [this] at hrem; cases hrem
        · exact h
      have hlt : c.so r - c.ro r + col - 1 < (c.steps r).length := by
        have : c.so r - c.ro r + col < (c.steps r).length := by
          rcases Nat.lt_or_ge (c.so r - c.ro r + col) (c.steps r).length with h | h
          · exact h
          · rw [List.getElem?_eq_none h] at hst; cases hst
        omega
      have hst' := List.getElem?_eq_getElem hlt
      have hst2 : (c.steps r)[c.so r - c.ro r + col - 1 + 1]? = some st := by
        rw [show c.so r - c.ro r + col - 1 + 1 = c.so r - c.ro r + col by omega]; exact hst
      obtain ⟨e1, e2⟩ := nsteps_consecutive _ _ _ _ st _ hst2 hst'
      simp only [traceGo, Bool.false_eq_true, if_false]
      rw [hseg]
      rw [e1, e2] at f1
      exact ih r (col - 1) _ out path _ hr (by rw [show c.so r - c.ro r + (col - 1) = c.so r - c.ro r + col - 1 by omega]; exact hst')
        (by omega) (by rw [← f1]; exact hrem) (by omega)

end NucleoVerif.OptImpl
