import NucleoVerif.Props.C06
/-! `remove_in_flight_matches` / `reset_matches`: what the offset-based removal loop computes. -/
namespace NucleoVerif.Nu

/-- the entries of `0..last` that are not in `R` -/
def keepIdx (last : Nat) (R : List Nat) : List Nat := (List.range last).filter (fun x => decide (x ∉ R))

theorem filter_mem_length (i : Nat) (R : List Nat) (hR : ∀ r ∈ R, r < i) (hRn : R.Nodup) :
    ((List.range i).filter (fun x => decide (x ∈ R))).length = R.length := by
  have hp : ((List.range i).filter (fun x => decide (x ∈ R))).Perm R := by
    rw [List.perm_ext_iff_of_nodup ((List.nodup_range).filter _) hRn]
    intro a
    simp only [List.mem_filter, List.mem_range, decide_eq_true_eq]
    constructor
    · exact fun h => h.2
    · exact fun h => ⟨hR a h, h⟩
  exact hp.length_eq

theorem keepIdx_length (i : Nat) (R : List Nat) (hR : ∀ r ∈ R, r < i) (hRn : R.Nodup) :
    (keepIdx i R).length = i - R.length := by
  unfold keepIdx
  have h1 := filter_mem_length i R hR hRn
  have h2 : ((List.range i).filter (fun x => decide (x ∈ R))).length + ((List.range i).filter (fun x => decide (x ∉ R))).length = i := by
    have gen : ∀ (l : List Nat), (l.filter (fun x => decide (x ∈ R))).length + (l.filter (fun x => decide (x ∉ R))).length = l.length := by
      intro l
      induction l with
      | nil => rfl
      | cons a t ih =>
        by_cases ha : a ∈ R
        · simp only [List.filter_cons, ha, decide_true, if_true, not_true_eq_false, decide_false, Bool.false_eq_true, if_false, List.length_cons]; omega
        · simp only [List.filter_cons, ha, decide_false, Bool.false_eq_true, if_false, not_false_eq_true, decide_true, if_true, List.length_cons]; omega
    have := gen (List.range i)
    simpa using this
  omega

/-- **removing the entry at position `i − off` removes index `i`**: while the indices removed so far are all smaller
    than `i` (the loop visits them in ascending order), the entry for `i` has moved left by exactly their number -/
theorem keepIdx_eraseIdx (last i : Nat) (R : List Nat) (hi : i < last) (hR : ∀ r ∈ R, r < i) (hRn : R.Nodup) :
    (keepIdx last R).eraseIdx (i - R.length) = keepIdx last (i :: R) := by
  obtain ⟨k, hk⟩ : ∃ k, last = i + (k + 1) := ⟨last - i - 1, by omega⟩
  subst hk
  unfold keepIdx
  rw [List.range_add, List.range_succ_eq_map]
  simp only [List.filter_append, List.map_cons, List.filter_cons, Nat.add_zero]
  have hiR : i ∉ R := fun h => absurd (hR i h) (by omega)
  have hA := keepIdx_length i R hR hRn
  unfold keepIdx at hA
  -- left part: indices below i
  have hL : (List.range i).filter (fun x => decide (x ∉ i :: R)) = (List.range i).filter (fun x => decide (x ∉ R)) := by
    apply List.filter_congr
    intro x hx
    have : x ≠ i := by have := List.mem_range.mp hx; omega
    simp [this]
  -- right part: indices above i are untouched by R
  have hT : ∀ (P : Nat → Bool), (∀ x, i < x → P x = true) →
      (List.map (fun x => i + x) (List.map Nat.succ (List.range k))).filter P =
      List.map (fun x => i + x) (List.map Nat.succ (List.range k)) := by
    intro P hP
    apply List.filter_eq_self.mpr
    intro x hx
    simp only [List.mem_map, List.mem_range] at hx
    obtain ⟨y, ⟨z, _, rfl⟩, rfl⟩ := hx
    exact hP _ (by omega)
  rw [hL]
  simp only [hiR, not_false_eq_true, decide_true, if_true, List.mem_cons, true_or, not_true_eq_false, decide_false,
    Bool.false_eq_true, if_false]
  rw [hT _ (by intro x hx; simp only [decide_eq_true_eq]; intro hm; have := hR x hm; omega),
      hT _ (by intro x hx; simp only [decide_eq_true_eq, not_or]; exact ⟨by omega, fun hm => by have := hR x hm; omega⟩)]
  rw [List.eraseIdx_append_of_length_le (by omega)]
  rw [hA, Nat.sub_self]
  rfl

def mk0 (i : Nat) : Match := ⟨0, i⟩

theorem eraseIdx_map_mk0 : ∀ (l : List Nat) (k : Nat), (l.map mk0).eraseIdx k = (l.eraseIdx k).map mk0 := by
  intro l
  induction l with
  | nil => intro k; rfl
  | cons a t ih =>
    intro k
    cases k with
    | zero => rfl
    | succ k => simp only [List.map_cons, List.eraseIdx_cons_succ, ih]

theorem keepIdx_congr (last : Nat) (R R' : List Nat) (h : ∀ x, x ∈ R ↔ x ∈ R') : keepIdx last R = keepIdx last R' := by
  unfold keepIdx
  apply List.filter_congr
  intro x _
  simp [h x]

/-- **`remove_in_flight_matches` on the freshly built list removes exactly the entries of the still-unpublished
    indices** (visited in ascending order — the repaired defect F11 was a missing sort here) and keeps exactly those
    indices in the in-flight list -/
theorem removeInFlightGo_spec (seen : Nat → Option Item) (last : Nat) :
    ∀ (fl : List Nat) (off : Nat) (keep : List Nat),
      fl.Pairwise (· < ·) → (∀ i ∈ fl, i < last) → off = keep.length → keep.Nodup → (∀ r ∈ keep, ∀ i ∈ fl, r < i) →
      removeInFlightGo seen fl off ((keepIdx last keep).map mk0) keep =
        ((keepIdx last ((fl.filter (fun i => (seen i).isNone)).reverse ++ keep)).map mk0,
         keep.reverse ++ fl.filter (fun i => (seen i).isNone)) := by
  intro fl
  induction fl with
  | nil => intro off keep _ _ _ _ _; simp [removeInFlightGo]
  | cons i rest ih =>
    intro off keep hs hlt hoff hnd hsep
    have hs' := List.pairwise_cons.mp hs
    simp only [removeInFlightGo]
    by_cases hn : (seen i).isNone = true
    · simp only [hn, if_true, List.filter_cons]
      rw [eraseIdx_map_mk0, hoff, keepIdx_eraseIdx last i keep (hlt i (by simp)) (fun r hr => hsep r hr i (by simp)) hnd]
      rw [ih (keep.length + 1) (i :: keep) hs'.2 (fun j hj => hlt j (by simp [hj])) (by simp)
        (List.nodup_cons.mpr ⟨fun hm => by have := hsep i hm i (by simp); omega, hnd⟩)
        (by intro r hr j hj
            rcases List.mem_cons.mp hr with rfl | hr
            · exact hs'.1 j hj
            · exact hsep r hr j (by simp [hj]))]
      simp
    · have hn' : (seen i).isNone = false := by cases hh : (seen i).isNone <;> simp_all
      simp only [hn', Bool.false_eq_true, if_false, List.filter_cons]
      exact ih off keep hs'.2 (fun j hj => hlt j (by simp [hj])) hoff hnd (fun r hr j hj => hsep r hr j (by simp [hj]))

/-- `reset_matches`: every processed index gets a fresh entry; the in-flight list keeps the still-unpublished ones -/
theorem resetMatches_spec (w : Worker) (seen : Nat → Option Item) (hlt : ∀ i ∈ w.inFlight, i < w.lastSnapshot) (hnd : w.inFlight.Nodup) :
    (resetMatches w seen).hits = (keepIdx w.lastSnapshot ((sortNat w.inFlight).filter (fun i => (seen i).isNone))).map mk0 ∧
    (resetMatches w seen).inFlight = (sortNat w.inFlight).filter (fun i => (seen i).isNone) ∧
    (resetMatches w seen).lastSnapshot = w.lastSnapshot ∧ (resetMatches w seen).pattern = w.pattern := by
  have hsorted := C06_in_flight_sorted w.inFlight
  have hperm := hsorted.2
  have hndS : (sortNat w.inFlight).Nodup := hperm.nodup_iff.mpr hnd
  have hstrict : (sortNat w.inFlight).Pairwise (· < ·) := by
    have := hsorted.1
    -- ≤ and distinct gives <
    have hcomb : (sortNat w.inFlight).Pairwise (fun a b => a ≤ b ∧ a ≠ b) := this.and hndS
    exact hcomb.imp (fun ⟨h1, h2⟩ => by omega)
  have hall : (List.range w.lastSnapshot).map (fun i => Match.mk 0 i) = (keepIdx w.lastSnapshot []).map mk0 := by
    unfold keepIdx mk0; simp [List.filter_eq_self.mpr]
  have spec := removeInFlightGo_spec seen w.lastSnapshot (sortNat w.inFlight) 0 [] hstrict
    (fun i hi => hlt i (hperm.subset hi)) rfl List.nodup_nil (by intro r hr; simp at hr)
  unfold resetMatches
  simp only
  rw [hall, spec]
  simp only [List.append_nil, List.reverse_nil, List.nil_append]
  refine ⟨?_, by trivial, by trivial, by trivial⟩
  congr 1
  apply keepIdx_congr
  intro x; simp

end NucleoVerif.Nu
