import NucleoVerif.Model.Matcher
import NucleoVerif.Lemmas.DP
/-! The common shape of the one-character scans (`substring_match_1_ascii` / `_non_ascii`) and basic facts. -/
namespace NucleoVerif
open Gen

/-- the common shape of the two one-character scans (`substring_match_1_ascii` / `_non_ascii`) -/
def scan1 (cfg : Cfg) (m : Nat → Bool) (cl : Nat → CharClass) : Best → CharClass → Nat → List Nat → Best
  | b, _, _, [] => b
  | b, prev, pos, x :: xs =>
    scan1 cfg m cl (if m x then b.offer cfg pos (bonusFor cfg prev (cl x)) true else b) (cl x) (pos + 1) xs

/-- the candidates of a one-character scan: (position, 16 + 2·bonus) of every matching character -/
def cands1 (cfg : Cfg) (m : Nat → Bool) (cl : Nat → CharClass) : CharClass → Nat → List Nat → List (Nat × Nat)
  | _, _, [] => []
  | prev, pos, x :: xs =>
    (if m x then [(pos, bonusFor cfg prev (cl x) * BONUS_FIRST_CHAR_MULTIPLIER + SCORE_MATCH)] else [])
      ++ cands1 cfg m cl (cl x) (pos + 1) xs

theorem cands1_pos (cfg : Cfg) (m : Nat → Bool) (cl : Nat → CharClass) :
    ∀ (xs : List Nat) (prev : CharClass) (pos : Nat), ∀ ps ∈ cands1 cfg m cl prev pos xs,
      pos ≤ ps.1 ∧ ∃ p c, ps.2 = bonusFor cfg p c * BONUS_FIRST_CHAR_MULTIPLIER + SCORE_MATCH := by
  intro xs
  induction xs with
  | nil => intro _ _ ps h; simp [cands1] at h
  | cons x xs ih =>
    intro prev pos ps h
    simp only [cands1, List.mem_append] at h
    rcases h with h | h
    · split at h
      · simp only [List.mem_singleton] at h; subst h; exact ⟨Nat.le_refl _, prev, cl x, rfl⟩
      · simp at h
    · have := ih (cl x) (pos + 1) ps h
      exact ⟨by omega, this.2⟩

theorem substring1Ascii_go_eq (cfg : Cfg) (c : Nat) :
    ∀ (xs : List Nat) (b : Best) (prev : CharClass) (pos : Nat),
      substring1Ascii.go cfg c b prev pos xs = scan1 cfg (asciiEq cfg.ignoreCase c) (charClassAscii cfg) b prev pos xs := by
  intro xs
  induction xs with
  | nil => intro _ _ _; rfl
  | cons x xs ih => intro b prev pos; simp only [substring1Ascii.go, scan1]; exact ih _ _ _

/-- a candidate scan never lowers the best score, and once it has seen the maximal bonus nothing changes -/
theorem Best.offer_mono (cfg : Cfg) (b : Best) (pos bonus : Nat) (ok : Bool) :
    b.score ≤ (b.offer cfg pos bonus ok).score := by
  unfold Best.offer
  split
  · exact Nat.le_refl _
  · split
    · rename_i h; exact Nat.le_of_lt h.1
    · exact Nat.le_refl _

theorem Best.offer_stop_pos (cfg : Cfg) (b : Best) (pos bonus : Nat) (ok : Bool) (h : b.stop = true → b.score ≠ 0) :
    (b.offer cfg pos bonus ok).stop = true → (b.offer cfg pos bonus ok).score ≠ 0 := by
  unfold Best.offer
  split
  · exact h
  · split
    · intro _; simp only [SCORE_MATCH]; omega
    · exact h

theorem scan1_pos (cfg : Cfg) (m : Nat → Bool) (cl : Nat → CharClass) :
    ∀ (xs : List Nat) (b : Best) (prev : CharClass) (pos : Nat), (b.stop = true → b.score ≠ 0) →
      ((scan1 cfg m cl b prev pos xs).score ≠ 0 ↔ (b.score ≠ 0 ∨ ∃ x ∈ xs, m x = true)) := by
  intro xs
  induction xs with
  | nil => intro b _ _ _; simp [scan1]
  | cons x xs ih =>
    intro b prev pos hb
    simp only [scan1]
    by_cases hm : m x = true
    · simp only [hm, if_true]
      rw [ih _ _ _ (Best.offer_stop_pos cfg b pos _ true hb)]
      constructor
      · intro _; right; exact ⟨x, by simp, hm⟩
      · intro _
        left
        have := Best.offer_mono cfg b pos (bonusFor cfg prev (cl x)) true
        -- after offering a matching candidate the score is non-zero
        by_cases hz : b.score = 0
        · unfold Best.offer
          by_cases hs : b.stop = true
          · exact absurd hz (hb hs)
          · simp only [hs, Bool.false_eq_true, if_false, and_true, hz]
            split
            · simp only [SCORE_MATCH]; omega
            · rename_i hng; simp only [SCORE_MATCH] at hng; omega
        · omega
    · have hm' : m x = false := by simpa using hm
      simp only [hm', Bool.false_eq_true, if_false]
      rw [ih _ _ _ hb]
      constructor
      · rintro (h | ⟨y, hy, hmy⟩)
        · exact Or.inl h
        · exact Or.inr ⟨y, by simp [hy], hmy⟩
      · rintro (h | ⟨y, hy, hmy⟩)
        · exact Or.inl h
        · rcases List.mem_cons.mp hy with rfl | hy
          · rw [hm'] at hmy; cases hmy
          · exact Or.inr ⟨y, hy, hmy⟩

open Spec in
/-- no bonus exceeds the value the early exit waits for — for every configuration whose largest boundary bonus
    is at least the non-word bonus -/
theorem bonus_le_max (cfg : Cfg) (hb : 8 ≤ maxBonus cfg) (prev cls : CharClass) :
    bonusFor cfg prev cls ≤ maxBonus cfg := by
  rw [DP.bonusFor_eq_spec]
  unfold maxBonus at *
  simp only [specBonus]
  repeat' split
  all_goals omega

theorem Best.offer_stopped (cfg : Cfg) (b : Best) (pos bonus : Nat) (ok : Bool) (h : b.stop = true) :
    b.offer cfg pos bonus ok = b := by
  simp [Best.offer, h]

/-- an accepted candidate scores `16 + 2·bonus`, a later candidate replaces it only with a strictly
    larger score: **the leftmost best-placed occurrence wins** -/
theorem Best.offer_score (cfg : Cfg) (b : Best) (pos bonus : Nat) (ok : Bool) :
    (b.offer cfg pos bonus ok = b) ∨
    ((b.offer cfg pos bonus ok).score = bonus * BONUS_FIRST_CHAR_MULTIPLIER + SCORE_MATCH ∧
     (b.offer cfg pos bonus ok).pos = pos ∧ b.score < bonus * BONUS_FIRST_CHAR_MULTIPLIER + SCORE_MATCH ∧ ok = true) := by
  unfold Best.offer
  split
  · exact Or.inl rfl
  · split
    · rename_i h; exact Or.inr ⟨rfl, rfl, h.1, h.2⟩
    · exact Or.inl rfl

/-- stopping early is sound: a stopped scan holds a candidate with the maximal possible score -/
theorem Best.offer_stop_max (cfg : Cfg) (b : Best) (pos bonus : Nat) (ok : Bool) (hb : 8 ≤ maxBonus cfg)
    (hbonus : ∃ p c, bonus = bonusFor cfg p c)
    (hinv : b.stop = true → ∀ p c, bonusFor cfg p c * BONUS_FIRST_CHAR_MULTIPLIER + SCORE_MATCH ≤ b.score) :
    (b.offer cfg pos bonus ok).stop = true →
      ∀ p c, bonusFor cfg p c * BONUS_FIRST_CHAR_MULTIPLIER + SCORE_MATCH ≤ (b.offer cfg pos bonus ok).score := by
  unfold Best.offer
  split
  · rename_i hs; intro _; exact hinv hs
  · split
    · intro hst p c
      simp only [decide_eq_true_eq] at hst
      have := bonus_le_max cfg hb p c
      simp only [BONUS_FIRST_CHAR_MULTIPLIER, SCORE_MATCH]
      omega
    · intro hst; rename_i hns _; exact absurd hst hns

/-- the general candidate scan shared by all `substring_match_*` loops: at every position an acceptance test that may
    look at the position and the rest of the haystack decides whether the position is offered -/
def scanS (cfg : Cfg) (acc : Nat → List Nat → Bool) (cl : Nat → CharClass) : Best → CharClass → Nat → List Nat → Best
  | b, _, _, [] => b
  | b, prev, pos, x :: xs =>
    scanS cfg acc cl (if acc pos (x :: xs) then b.offer cfg pos (bonusFor cfg prev (cl x)) true else b) (cl x) (pos + 1) xs

/-- its candidates: (position, 16 + 2·bonus) of every accepted position -/
def candsS (cfg : Cfg) (acc : Nat → List Nat → Bool) (cl : Nat → CharClass) : CharClass → Nat → List Nat → List (Nat × Nat)
  | _, _, [] => []
  | prev, pos, x :: xs =>
    (if acc pos (x :: xs) then [(pos, bonusFor cfg prev (cl x) * BONUS_FIRST_CHAR_MULTIPLIER + SCORE_MATCH)] else [])
      ++ candsS cfg acc cl (cl x) (pos + 1) xs

theorem scan1_eq_scanS (cfg : Cfg) (m : Nat → Bool) (cl : Nat → CharClass) :
    ∀ (xs : List Nat) (b : Best) (prev : CharClass) (pos : Nat),
      scan1 cfg m cl b prev pos xs = scanS cfg (fun _ s => m (s.headD 0)) cl b prev pos xs := by
  intro xs
  induction xs with
  | nil => intro _ _ _; rfl
  | cons x xs ih => intro b prev pos; simp only [scan1, scanS, List.headD_cons]; exact ih _ _ _

theorem cands1_eq_candsS (cfg : Cfg) (m : Nat → Bool) (cl : Nat → CharClass) :
    ∀ (xs : List Nat) (prev : CharClass) (pos : Nat),
      cands1 cfg m cl prev pos xs = candsS cfg (fun _ s => m (s.headD 0)) cl prev pos xs := by
  intro xs
  induction xs with
  | nil => intro _ _; rfl
  | cons x xs ih => intro prev pos; simp [cands1, candsS, ih]

/-- what a scan state knows about the candidates `S` seen so far -/
structure ScanInv (cfg : Cfg) (b : Best) (S : List (Nat × Nat)) : Prop where
  upper : ∀ ps ∈ S, ps.2 ≤ b.score
  attained : b.score = 0 ∨ ((b.pos, b.score) ∈ S ∧ ∀ ps ∈ S, ps.2 = b.score → b.pos ≤ ps.1)
  stopOK : b.stop = true → ∀ p c, bonusFor cfg p c * BONUS_FIRST_CHAR_MULTIPLIER + SCORE_MATCH ≤ b.score

theorem scanS_inv (cfg : Cfg) (hb : 8 ≤ maxBonus cfg) (acc : Nat → List Nat → Bool) (cl : Nat → CharClass) :
    ∀ (xs : List Nat) (b : Best) (prev : CharClass) (pos : Nat) (S : List (Nat × Nat)),
      ScanInv cfg b S → (∀ ps ∈ S, ps.1 < pos) →
      ScanInv cfg (scanS cfg acc cl b prev pos xs) (S ++ candsS cfg acc cl prev pos xs) := by
  intro xs
  induction xs with
  | nil => intro b prev pos S h _; simpa [scanS, candsS] using h
  | cons x xs ih =>
    intro b prev pos S h hlt
    simp only [scanS, candsS]
    rw [← List.append_assoc]
    apply ih
    · -- one step
      by_cases hm : acc pos (x :: xs) = true
      · simp only [hm, if_true]
        generalize hs : bonusFor cfg prev (cl x) * BONUS_FIRST_CHAR_MULTIPLIER + SCORE_MATCH = s
        have hstop := Best.offer_stop_max cfg b pos (bonusFor cfg prev (cl x)) true hb ⟨prev, cl x, rfl⟩ h.stopOK
        rcases Best.offer_score cfg b pos (bonusFor cfg prev (cl x)) true with e | ⟨e1, e2, e3, _⟩
        · -- not replaced: either stopped or the candidate is not better
          rw [e] at hstop ⊢
          have hle : s ≤ b.score := by
            by_cases hst : b.stop = true
            · rw [← hs]; exact h.stopOK hst prev (cl x)
            · -- offer kept b although not stopped: the candidate's score is not larger
              unfold Best.offer at e
              simp only [hst, Bool.false_eq_true, if_false, and_true] at e
              split at e
              · rename_i hgt
                have : b.score = s := by rw [← e, ← hs]
                omega
              · rename_i hng; rw [← hs]; omega
          refine ⟨?_, ?_, hstop⟩
          · intro ps hps
            simp only [List.mem_append, List.mem_singleton] at hps
            rcases hps with hps | hps
            · exact h.upper ps hps
            · subst hps; exact hle
          · rcases h.attained with z | ⟨a1, a2⟩
            · exact Or.inl z
            · right
              refine ⟨by simp [a1], ?_⟩
              intro ps hps heq
              simp only [List.mem_append, List.mem_singleton] at hps
              rcases hps with hps | hps
              · exact a2 ps hps heq
              · subst hps; have := hlt _ a1; simp only at this ⊢; omega
        · -- replaced by the new candidate
          rw [hs] at e1 e3
          refine ⟨?_, ?_, hstop⟩
          · intro ps hps
            simp only [List.mem_append, List.mem_singleton] at hps
            rcases hps with hps | hps
            · have := h.upper ps hps; omega
            · subst hps; simp only [e1]; exact Nat.le_refl _
          · right
            rw [e1, e2]
            refine ⟨by simp, ?_⟩
            intro ps hps heq
            simp only [List.mem_append, List.mem_singleton] at hps
            rcases hps with hps | hps
            · have := h.upper ps hps; omega
            · subst hps; exact Nat.le_refl _
      · have hm' : acc pos (x :: xs) = false := by simpa using hm
        simp only [hm', Bool.false_eq_true, if_false, List.append_nil]
        exact h
    · intro ps hps
      simp only [List.mem_append] at hps
      rcases hps with hps | hps
      · have := hlt ps hps; omega
      · split at hps
        · simp only [List.mem_singleton] at hps; subst hps; simp
        · simp at hps



end NucleoVerif
