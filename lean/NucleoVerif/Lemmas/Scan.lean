import NucleoVerif.Model.Matcher
/-! The common shape of the one-character scans (`substring_match_1_ascii` / `_non_ascii`) and basic facts. -/
namespace NucleoVerif
open Gen

/-- the common shape of the two one-character scans (`substring_match_1_ascii` / `_non_ascii`) -/
def scan1 (cfg : Cfg) (m : Nat → Bool) (cl : Nat → CharClass) : Best → CharClass → Nat → List Nat → Best
  | b, _, _, [] => b
  | b, prev, pos, x :: xs =>
    scan1 cfg m cl (if m x then b.offer cfg pos (bonusFor cfg prev (cl x)) true else b) (cl x) (pos + 1) xs

/-- the candidates of a one-character scan: (position, 16 + 2·bonus) of every matching character -/
def cands1 (cfg : Cfg) (m : Nat → Bool) (cl : Nat → CharClass) : CharClass → Nat → List Nat → List (Nat × Nat)
  | _, _, [] => []
  | prev, pos, x :: xs =>
    (if m x then [(pos, bonusFor cfg prev (cl x) * BONUS_FIRST_CHAR_MULTIPLIER + SCORE_MATCH)] else [])
      ++ cands1 cfg m cl (cl x) (pos + 1) xs

theorem cands1_pos (cfg : Cfg) (m : Nat → Bool) (cl : Nat → CharClass) :
    ∀ (xs : List Nat) (prev : CharClass) (pos : Nat), ∀ ps ∈ cands1 cfg m cl prev pos xs,
      pos ≤ ps.1 ∧ ∃ p c, ps.2 = bonusFor cfg p c * BONUS_FIRST_CHAR_MULTIPLIER + SCORE_MATCH := by
  intro xs
  induction xs with
  | nil => intro _ _ ps h; simp [cands1] at h
  | cons x xs ih =>
    intro prev pos ps h
    simp only [cands1, List.mem_append] at h
    rcases h with h | h
    · split at h
      · simp only [List.mem_singleton] at h; subst h; exact ⟨Nat.le_refl _, prev, cl x, rfl⟩
      · simp at h
    · have := ih (cl x) (pos + 1) ps h
      exact ⟨by omega, this.2⟩

theorem substring1Ascii_go_eq (cfg : Cfg) (c : Nat) :
    ∀ (xs : List Nat) (b : Best) (prev : CharClass) (pos : Nat),
      substring1Ascii.go cfg c b prev pos xs = scan1 cfg (asciiEq cfg.ignoreCase c) (charClassAscii cfg) b prev pos xs := by
  intro xs
  induction xs with
  | nil => intro _ _ _; rfl
  | cons x xs ih => intro b prev pos; simp only [substring1Ascii.go, scan1]; exact ih _ _ _

/-- a candidate scan never lowers the best score, and once it has seen the maximal bonus nothing changes -/
theorem Best.offer_mono (cfg : Cfg) (b : Best) (pos bonus : Nat) (ok : Bool) :
    b.score ≤ (b.offer cfg pos bonus ok).score := by
  unfold Best.offer
  split
  · exact Nat.le_refl _
  · split
    · rename_i h; exact Nat.le_of_lt h.1
    · exact Nat.le_refl _

theorem Best.offer_stop_pos (cfg : Cfg) (b : Best) (pos bonus : Nat) (ok : Bool) (h : b.stop = true → b.score ≠ 0) :
    (b.offer cfg pos bonus ok).stop = true → (b.offer cfg pos bonus ok).score ≠ 0 := by
  unfold Best.offer
  split
  · exact h
  · split
    · intro _; simp only [SCORE_MATCH]; omega
    · exact h

theorem scan1_pos (cfg : Cfg) (m : Nat → Bool) (cl : Nat → CharClass) :
    ∀ (xs : List Nat) (b : Best) (prev : CharClass) (pos : Nat), (b.stop = true → b.score ≠ 0) →
      ((scan1 cfg m cl b prev pos xs).score ≠ 0 ↔ (b.score ≠ 0 ∨ ∃ x ∈ xs, m x = true)) := by
  intro xs
  induction xs with
  | nil => intro b _ _ _; simp [scan1]
  | cons x xs ih =>
    intro b prev pos hb
    simp only [scan1]
    by_cases hm : m x = true
    · simp only [hm, if_true]
      rw [ih _ _ _ (Best.offer_stop_pos cfg b pos _ true hb)]
      constructor
      · intro _; right; exact ⟨x, by simp, hm⟩
      · intro _
        left
        have := Best.offer_mono cfg b pos (bonusFor cfg prev (cl x)) true
        -- after offering a matching candidate the score is non-zero
        by_cases hz : b.score = 0
        · unfold Best.offer
          by_cases hs : b.stop = true
          · exact absurd hz (hb hs)
          · simp only [hs, Bool.false_eq_true, if_false, and_true, hz]
            split
            · simp only [SCORE_MATCH]; omega
            · rename_i hng; simp only [SCORE_MATCH] at hng; omega
        · omega
    · have hm' : m x = false := by simpa using hm
      simp only [hm', Bool.false_eq_true, if_false]
      rw [ih _ _ _ hb]
      constructor
      · rintro (h | ⟨y, hy, hmy⟩)
        · exact Or.inl h
        · exact Or.inr ⟨y, by simp [hy], hmy⟩
      · rintro (h | ⟨y, hy, hmy⟩)
        · exact Or.inl h
        · rcases List.mem_cons.mp hy with rfl | hy
          · rw [hm'] at hmy; cases hmy
          · exact Or.inr ⟨y, hy, hmy⟩

end NucleoVerif
