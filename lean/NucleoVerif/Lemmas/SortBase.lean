import NucleoVerif.Model.ParSort
import Std.Tactic.Do
/-! Vocabulary for the sortedness proof of the pattern-defeating quicksort model (C18). -/
open Std.Do
namespace NucleoVerif.PS
variable {α : Type} [Inhabited α]
set_option linter.unusedSectionVars false

/-- element `i` as `rd` reads it -/
abbrev at' (a : Array α) (i : Nat) : α := a.getD i default

theorem at_swap (a : Array α) (i j k : Nat) (hi : i < a.size) (hj : j < a.size) :
    at' (a.swapIfInBounds i j) k = if k = i then at' a j else if k = j then at' a i else at' a k := by
  unfold at'
  simp only [Array.getD_eq_getD_getElem?]
  have e : a.swapIfInBounds i j = a.swap i j hi hj := by simp [Array.swapIfInBounds_def, hi, hj]
  rw [e, Array.getElem?_swap]
  by_cases h1 : k = i
  · subst h1
    by_cases h2 : j = k
    · subst h2; simp [hi]
    · simp [h2, hj]
  · by_cases h2 : k = j
    · subst h2; simp [hi]; intro h; exact absurd h h1
    · have h3 : ¬ j = k := fun h => h2 h.symm
      have h4 : ¬ i = k := fun h => h1 h.symm
      simp [h1, h2, h3, h4]

theorem size_swap (a : Array α) (i j : Nat) : (a.swapIfInBounds i j).size = a.size := by simp

theorem swap_oob (a : Array α) (i j : Nat) (h : ¬ (i < a.size ∧ j < a.size)) : a.swapIfInBounds i j = a := by
  unfold Array.swapIfInBounds
  split
  · split
    · exact absurd ⟨‹_›, ‹_›⟩ h
    · rfl
  · rfl

/-- the comparison is a strict weak order; `lt y x = false` reads "x ≤ y" -/
structure SWO (lt : α → α → Bool) : Prop where
  asym : ∀ x y, lt x y = true → lt y x = false
  le_trans : ∀ x y z, lt y x = false → lt z y = false → lt z x = false

namespace SWO
variable {lt : α → α → Bool} (h : SWO lt)
include h
theorem irrefl (x : α) : lt x x = false := by
  cases hx : lt x x with
  | false => rfl
  | true => have := h.asym x x hx; rw [hx] at this; cases this
theorem lt_of_lt_of_le (x y z : α) (h1 : lt x y = true) (h2 : lt z y = false) : lt x z = true := by
  cases hx : lt x z with
  | true => rfl
  | false =>
    -- y ≤ z ≤ x  ⇒ y ≤ x, contradiction
    have := h.le_trans y z x h2 hx
    rw [h1] at this; cases this
theorem lt_of_le_of_lt (x y z : α) (h1 : lt y x = false) (h2 : lt y z = true) : lt x z = true := by
  cases hx : lt x z with
  | true => rfl
  | false =>
    -- z ≤ x ≤ y ⇒ z ≤ y
    have := h.le_trans z x y hx h1
    rw [h2] at this; cases this
theorem le_of_lt (x y : α) (h1 : lt x y = true) : lt y x = false := h.asym x y h1
end SWO

/-- `a[lo..hi)` is in non-decreasing order: no later element is smaller than an earlier one -/
def Sorted (lt : α → α → Bool) (lo hi : Nat) (a : Array α) : Prop :=
  ∀ i j, lo ≤ i → i < j → j < hi → lt (at' a j) (at' a i) = false

def SegAll (lo hi : Nat) (P : α → Prop) (a : Array α) : Prop := ∀ i, lo ≤ i → i < hi → P (at' a i)

/-- `b` arises from `a` by rearranging `a[lo..hi)` only: same size, same elements outside, and every property that
    held for all elements of the segment still does -/
structure Frame (lo hi : Nat) (a b : Array α) : Prop where
  size : b.size = a.size
  out : ∀ i, (i < lo ∨ hi ≤ i) → at' b i = at' a i
  all : ∀ P : α → Prop, SegAll lo hi P a → SegAll lo hi P b

theorem Frame.refl (lo hi : Nat) (a : Array α) : Frame lo hi a a := ⟨rfl, fun _ _ => rfl, fun _ h => h⟩

theorem Frame.trans {lo hi : Nat} {a b c : Array α} (h1 : Frame lo hi a b) (h2 : Frame lo hi b c) : Frame lo hi a c :=
  ⟨h2.size.trans h1.size, fun i hi' => (h2.out i hi').trans (h1.out i hi'), fun P hP => h2.all P (h1.all P hP)⟩

theorem Frame.mono {lo hi lo' hi' : Nat} {a b : Array α} (h : Frame lo hi a b) (hl : lo' ≤ lo) (hh : hi ≤ hi') : Frame lo' hi' a b := by
  refine ⟨h.size, fun i hi2 => h.out i (by omega), fun P hP i h1 h2 => ?_⟩
  by_cases hin : lo ≤ i ∧ i < hi
  · exact h.all P (fun k hk1 hk2 => hP k (by omega) (by omega)) i hin.1 hin.2
  · rw [h.out i (by omega)]; exact hP i h1 h2

theorem Frame.swap (lo hi : Nat) (a : Array α) (i j : Nat) (hi1 : lo ≤ i) (hi2 : i < hi) (hj1 : lo ≤ j) (hj2 : j < hi) :
    Frame lo hi a (a.swapIfInBounds i j) := by
  by_cases hb : i < a.size ∧ j < a.size
  · refine ⟨by simp, fun k hk => ?_, fun P hP k hk1 hk2 => ?_⟩
    · rw [at_swap a i j k hb.1 hb.2]
      rw [if_neg (by omega), if_neg (by omega)]
    · rw [at_swap a i j k hb.1 hb.2]
      split
      · exact hP j hj1 hj2
      · split
        · exact hP i hi1 hi2
        · exact hP k hk1 hk2
  · rw [swap_oob a i j hb]; exact Frame.refl _ _ _

theorem Sorted.mono {lt : α → α → Bool} {lo hi lo' hi' : Nat} {a : Array α} (h : Sorted lt lo hi a) (hl : lo ≤ lo') (hh : hi' ≤ hi) :
    Sorted lt lo' hi' a := fun i j h1 h2 h3 => h i j (by omega) h2 (by omega)

/-- a rearrangement elsewhere does not disturb a sorted segment -/
theorem Sorted.frame_disjoint {lt : α → α → Bool} {lo hi l2 h2 : Nat} {a b : Array α} (h : Sorted lt lo hi a) (f : Frame l2 h2 a b)
    (hd : h2 ≤ lo ∨ hi ≤ l2) : Sorted lt lo hi b := by
  intro i j h1 h3 h4
  rw [f.out i (by omega), f.out j (by omega)]
  exact h i j h1 h3 h4


/-- Hoare triples of the sort monad, read as plain statements about `run` -/
theorem triple_iff {a0 : Array α} {β : Type} (x : M a0 β) (P : PArr a0 → Prop) (Q : β → PArr a0 → Prop) :
    (⦃fun s => ⌜P s⌝⦄ x ⦃⇓ r s => ⌜Q r s⌝⦄) ↔ ∀ s, P s → Q (x.run s).1 (x.run s).2 := by
  constructor
  · intro h s hp
    have := h s
    simp [wp] at this
    exact this hp
  · intro h s
    simp [wp]
    exact h s

end NucleoVerif.PS

/-- expose the pure content of a verification condition produced by `mvcgen` without touching array accesses -/
syntax "vc_simp" (Lean.Parser.Tactic.location)? : tactic
macro_rules
  | `(tactic| vc_simp $[$loc]?) =>
    `(tactic| simp only [List.length_cons, List.length_append, List.length_nil, Std.Do.SPred.down_pure_nil, ge_iff_le,
        Nat.add_eq_zero_iff, Nat.succ_ne_self, and_false, false_and, false_or, or_false, false_implies, and_true, true_and, Nat.zero_add,
        Nat.add_zero, Nat.sub_zero, List.length_range', Nat.add_sub_cancel, Nat.div_one] $[$loc]?)
