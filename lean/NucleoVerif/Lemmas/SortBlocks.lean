import NucleoVerif.Lemmas.SortRec
open Std.Do
namespace NucleoVerif.PS
open Gen
set_option mvcgen.warning false
set_option linter.unusedSectionVars false
set_option linter.unusedVariables false
variable {α : Type} [Inhabited α] {a0 : Array α} (lt : α → α → Bool)

theorem get!_push_lt (o : Array Nat) (x i : Nat) (h : i < o.size) : (o.push x)[i]! = o[i]! := by
  simp [Array.getElem!_eq_getD, Array.getD_eq_getD_getElem?, Array.getElem?_push, h, Nat.ne_of_lt h]

theorem get!_push_eq (o : Array Nat) (x : Nat) : (o.push x)[o.size]! = x := by
  simp

/-- `v[l .. l+block)` has been scanned: `offs[start..]` are exactly the offsets of its elements that are not smaller
    than the pivot -/
structure ScanL (p : α) (b : Array α) (l block : Nat) (offs : Array Nat) (start : Nat) : Prop where
  mono : ∀ i j, i < j → j < offs.size → offs[i]! < offs[j]!
  bound : ∀ i, i < offs.size → offs[i]! < block
  cls : ∀ k, k < block → (lt (at' b (l + k)) p = false ↔ ∃ i, start ≤ i ∧ i < offs.size ∧ offs[i]! = k)

/-- `v[r-block .. r)` has been scanned from the right: `offs[start..]` are exactly the offsets (from `r-1` downwards) of
    its elements that are smaller than the pivot -/
structure ScanR (p : α) (b : Array α) (r block : Nat) (offs : Array Nat) (start : Nat) : Prop where
  mono : ∀ i j, i < j → j < offs.size → offs[i]! < offs[j]!
  bound : ∀ i, i < offs.size → offs[i]! < block
  cls : ∀ k, k < block → (lt (at' b (r - 1 - k)) p = true ↔ ∃ i, start ≤ i ∧ i < offs.size ∧ offs[i]! = k)

/-- invariant of a scan loop after `n` positions; `c k` = "position `k` is out of place" -/
structure ScanInv' (c : Nat → Bool) (n : Nat) (offs : Array Nat) : Prop where
  mono : ∀ i j, i < j → j < offs.size → offs[i]! < offs[j]!
  bound : ∀ i, i < offs.size → offs[i]! < n
  cls : ∀ k, k < n → (c k = true ↔ ∃ i, i < offs.size ∧ offs[i]! = k)

theorem ScanInv'.init (c : Nat → Bool) : ScanInv' c 0 #[] :=
  ⟨fun i j _ h => by simp at h, fun i h => by simp at h, fun k h => by omega⟩

theorem ScanInv'.push {c : Nat → Bool} {n : Nat} {offs : Array Nat} (h : ScanInv' c n offs) (hc : c n = true) :
    ScanInv' c (n + 1) (offs.push n) := by
  refine ⟨fun i j hij hj => ?_, fun i hi => ?_, fun k hk => ?_⟩
  · simp at hj
    by_cases e : j < offs.size
    · rw [get!_push_lt _ _ _ (by omega), get!_push_lt _ _ _ e]; exact h.mono i j hij e
    · have : j = offs.size := by omega
      subst this
      rw [get!_push_lt _ _ _ hij, get!_push_eq]; exact h.bound i hij
  · simp at hi
    by_cases e : i < offs.size
    · rw [get!_push_lt _ _ _ e]; have := h.bound i e; omega
    · have : i = offs.size := by omega
      subst this; rw [get!_push_eq]; omega
  · by_cases e : k = n
    · subst e
      exact ⟨fun _ => ⟨offs.size, by simp, get!_push_eq _ _⟩, fun _ => hc⟩
    · rw [h.cls k (by omega)]
      constructor
      · rintro ⟨i, hi, he⟩
        exact ⟨i, by simp; omega, by rw [get!_push_lt _ _ _ hi]; exact he⟩
      · rintro ⟨i, hi, he⟩
        simp at hi
        by_cases e2 : i < offs.size
        · exact ⟨i, e2, by rw [get!_push_lt _ _ _ e2] at he; exact he⟩
        · have : i = offs.size := by omega
          subst this; rw [get!_push_eq] at he; omega

theorem ScanInv'.skip {c : Nat → Bool} {n : Nat} {offs : Array Nat} (h : ScanInv' c n offs) (hc : c n = false) :
    ScanInv' c (n + 1) offs := by
  refine ⟨h.mono, fun i hi => by have := h.bound i hi; omega, fun k hk => ?_⟩
  by_cases e : k = n
  · subst e
    constructor
    · intro h1; rw [hc] at h1; cases h1
    · rintro ⟨i, hi, he⟩; have := h.bound i hi; omega
  · exact h.cls k (by omega)


theorem pibScanL_spec (l block : Nat) (p : α) (b : Array α) :
   ⦃fun s => ⌜s.val = b⌝⦄ (pibScanL (a0 := a0) lt l block p)
   ⦃⇓ offs s => ⌜s.val = b ∧ ScanL lt p b l block offs 0⌝⦄ := by
  mvcgen [pibScanL, rd]
  case inv1 => exact ⇓ ⟨xs, offs⟩ s => ⌜s.val = b ∧ ScanInv' (fun k => !lt (at' b (l + k)) p) xs.prefix.length offs⌝
  case vc1 =>
    rename_i s0 hpre pref cur suff hsplit offs s hinv hc offs'
    have hr := range_split hsplit
    vc_simp at hinv ⊢
    obtain ⟨rfl, h2⟩ := hinv
    have e : cur = pref.length := by omega
    subst e
    exact ⟨rfl, h2.push hc⟩
  case vc2 =>
    rename_i s0 hpre pref cur suff hsplit offs s hinv hc
    have hr := range_split hsplit
    vc_simp at hinv ⊢
    obtain ⟨rfl, h2⟩ := hinv
    have e : cur = pref.length := by omega
    subst e
    exact ⟨rfl, h2.skip (by simpa using hc)⟩
  case vc3 =>
    rename_i s hpre
    vc_simp
    exact ⟨hpre, ScanInv'.init _⟩
  case vc4 =>
    rename_i s0 hpre offs s hinv
    vc_simp at hinv
    obtain ⟨rfl, h2⟩ := hinv
    refine ⟨rfl, h2.mono, h2.bound, fun k hk => ?_⟩
    have := h2.cls k hk
    simp only [Bool.not_eq_true'] at this
    rw [this]
    exact ⟨fun ⟨i, h1, h3⟩ => ⟨i, Nat.zero_le _, h1, h3⟩, fun ⟨i, _, h1, h3⟩ => ⟨i, h1, h3⟩⟩

theorem pibScanR_spec (r block : Nat) (p : α) (b : Array α) :
   ⦃fun s => ⌜s.val = b⌝⦄ (pibScanR (a0 := a0) lt r block p)
   ⦃⇓ offs s => ⌜s.val = b ∧ ScanR lt p b r block offs 0⌝⦄ := by
  mvcgen [pibScanR, rd]
  case inv1 => exact ⇓ ⟨xs, offs⟩ s => ⌜s.val = b ∧ ScanInv' (fun k => lt (at' b (r - 1 - k)) p) xs.prefix.length offs⌝
  case vc1 =>
    rename_i s0 hpre pref cur suff hsplit offs s hinv hc offs'
    have hr := range_split hsplit
    vc_simp at hinv ⊢
    obtain ⟨rfl, h2⟩ := hinv
    have e : cur = pref.length := by omega
    subst e
    exact ⟨rfl, h2.push hc⟩
  case vc2 =>
    rename_i s0 hpre pref cur suff hsplit offs s hinv hc
    have hr := range_split hsplit
    vc_simp at hinv ⊢
    obtain ⟨rfl, h2⟩ := hinv
    have e : cur = pref.length := by omega
    subst e
    exact ⟨rfl, h2.skip (by simpa using hc)⟩
  case vc3 =>
    rename_i s hpre
    vc_simp
    exact ⟨hpre, ScanInv'.init _⟩
  case vc4 =>
    rename_i s0 hpre offs s hinv
    vc_simp at hinv
    obtain ⟨rfl, h2⟩ := hinv
    refine ⟨rfl, h2.mono, h2.bound, fun k hk => ?_⟩
    rw [h2.cls k hk]
    exact ⟨fun ⟨i, h1, h3⟩ => ⟨i, Nat.zero_le _, h1, h3⟩, fun ⟨i, _, h1, h3⟩ => ⟨i, h1, h3⟩⟩

/-! ### flipping one pending offset -/

theorem ScanL.pending {p : α} {b : Array α} {l bl : Nat} {offs : Array Nat} {m : Nat} (h : ScanL lt p b l bl offs m)
    (i : Nat) (hm : m ≤ i) (hi : i < offs.size) : lt (at' b (l + offs[i]!)) p = false :=
  (h.cls _ (h.bound i hi)).2 ⟨i, hm, hi, rfl⟩

theorem ScanR.pending {p : α} {b : Array α} {r br : Nat} {offs : Array Nat} {m : Nat} (h : ScanR lt p b r br offs m)
    (i : Nat) (hm : m ≤ i) (hi : i < offs.size) : lt (at' b (r - 1 - offs[i]!)) p = true :=
  (h.cls _ (h.bound i hi)).2 ⟨i, hm, hi, rfl⟩

theorem offs_inj {offs : Array Nat} (mono : ∀ i j, i < j → j < offs.size → offs[i]! < offs[j]!) {i j : Nat}
    (hi : i < offs.size) (hj : j < offs.size) (e : offs[i]! = offs[j]!) : i = j := by
  rcases Nat.lt_trichotomy i j with h | h | h
  · have := mono i j h hj; omega
  · exact h
  · have := mono j i h hi; omega

theorem ScanL.settled {p : α} {b : Array α} {l bl : Nat} {offs : Array Nat} {m : Nat} (h : ScanL lt p b l bl offs m)
    (i : Nat) (hm : i < m) (hi : i < offs.size) : lt (at' b (l + offs[i]!)) p = true := by
  cases hc : lt (at' b (l + offs[i]!)) p with
  | true => rfl
  | false =>
    obtain ⟨j, h1, h2, h3⟩ := (h.cls _ (h.bound i hi)).1 hc
    have := offs_inj h.mono h2 hi h3
    omega

theorem ScanR.settled {p : α} {b : Array α} {r br : Nat} {offs : Array Nat} {m : Nat} (h : ScanR lt p b r br offs m)
    (i : Nat) (hm : i < m) (hi : i < offs.size) : lt (at' b (r - 1 - offs[i]!)) p = false := by
  cases hc : lt (at' b (r - 1 - offs[i]!)) p with
  | false => rfl
  | true =>
    obtain ⟨j, h1, h2, h3⟩ := (h.cls _ (h.bound i hi)).1 hc
    have := offs_inj h.mono h2 hi h3
    omega

theorem ScanL.flip {p : α} {b b' : Array α} {l bl : Nat} {offs : Array Nat} {m : Nat} (h : ScanL lt p b l bl offs m)
    (hm : m < offs.size) (h1 : lt (at' b' (l + offs[m]!)) p = true)
    (h2 : ∀ k, k < bl → k ≠ offs[m]! → lt (at' b' (l + k)) p = lt (at' b (l + k)) p) : ScanL lt p b' l bl offs (m + 1) := by
  refine ⟨h.mono, h.bound, fun k hk => ?_⟩
  by_cases e : k = offs[m]!
  · subst e
    constructor
    · intro hc; rw [h1] at hc; cases hc
    · rintro ⟨i, hi1, hi2, hi3⟩
      have := offs_inj h.mono hi2 hm hi3; omega
  · rw [h2 k hk e, h.cls k hk]
    constructor
    · rintro ⟨i, hi1, hi2, hi3⟩
      refine ⟨i, ?_, hi2, hi3⟩
      by_cases e2 : i = m
      · subst e2; exact absurd hi3.symm e
      · omega
    · rintro ⟨i, hi1, hi2, hi3⟩
      exact ⟨i, by omega, hi2, hi3⟩

theorem ScanR.flip {p : α} {b b' : Array α} {r br : Nat} {offs : Array Nat} {m : Nat} (h : ScanR lt p b r br offs m)
    (hm : m < offs.size) (h1 : lt (at' b' (r - 1 - offs[m]!)) p = false)
    (h2 : ∀ k, k < br → k ≠ offs[m]! → lt (at' b' (r - 1 - k)) p = lt (at' b (r - 1 - k)) p) : ScanR lt p b' r br offs (m + 1) := by
  refine ⟨h.mono, h.bound, fun k hk => ?_⟩
  by_cases e : k = offs[m]!
  · subst e
    constructor
    · intro hc; rw [h1] at hc; cases hc
    · rintro ⟨i, hi1, hi2, hi3⟩
      have := offs_inj h.mono hi2 hm hi3; omega
  · rw [h2 k hk e, h.cls k hk]
    constructor
    · rintro ⟨i, hi1, hi2, hi3⟩
      refine ⟨i, ?_, hi2, hi3⟩
      by_cases e2 : i = m
      · subst e2; exact absurd hi3.symm e
      · omega
    · rintro ⟨i, hi1, hi2, hi3⟩
      exact ⟨i, by omega, hi2, hi3⟩

theorem ScanL.same {p : α} {b b' : Array α} {l bl : Nat} {offs : Array Nat} {m : Nat} (h : ScanL lt p b l bl offs m)
    (h2 : ∀ k, k < bl → lt (at' b' (l + k)) p = lt (at' b (l + k)) p) : ScanL lt p b' l bl offs m :=
  ⟨h.mono, h.bound, fun k hk => by rw [h2 k hk]; exact h.cls k hk⟩

theorem ScanR.same {p : α} {b b' : Array α} {r br : Nat} {offs : Array Nat} {m : Nat} (h : ScanR lt p b r br offs m)
    (h2 : ∀ k, k < br → lt (at' b' (r - 1 - k)) p = lt (at' b (r - 1 - k)) p) : ScanR lt p b' r br offs m :=
  ⟨h.mono, h.bound, fun k hk => by rw [h2 k hk]; exact h.cls k hk⟩

/-- swapping a position of the left block with a position of the right block (in either argument order) -/
theorem swap_LR (b : Array α) (l bl r br x y : Nat) (hx : x < bl) (hy : y < br) (hsep : l + bl + br ≤ r) (hsz : r ≤ b.size)
    (b' : Array α) (hb : b' = b.swapIfInBounds (l + x) (r - 1 - y) ∨ b' = b.swapIfInBounds (r - 1 - y) (l + x)) :
    Frame l r b b' ∧
    (∀ k, k < bl → at' b' (l + k) = if k = x then at' b (r - 1 - y) else at' b (l + k)) ∧
    (∀ k, k < br → at' b' (r - 1 - k) = if k = y then at' b (l + x) else at' b (r - 1 - k)) := by
  rcases hb with rfl | rfl
  · refine ⟨Frame.swap l r b _ _ (by omega) (by omega) (by omega) (by omega), fun k hk => ?_, fun k hk => ?_⟩
    · rw [at_swap b _ _ _ (by omega) (by omega)]
      by_cases e : k = x
      · subst e; simp
      · rw [if_neg (by omega), if_neg (by omega), if_neg e]
    · rw [at_swap b _ _ _ (by omega) (by omega)]
      by_cases e : k = y
      · subst e; rw [if_neg (by omega), if_pos rfl, if_pos rfl]
      · rw [if_neg (by omega), if_neg (by omega), if_neg e]
  · refine ⟨Frame.swap l r b _ _ (by omega) (by omega) (by omega) (by omega), fun k hk => ?_, fun k hk => ?_⟩
    · rw [at_swap b _ _ _ (by omega) (by omega)]
      by_cases e : k = x
      · subst e; rw [if_neg (by omega), if_pos rfl, if_pos rfl]
      · rw [if_neg (by omega), if_neg (by omega), if_neg e]
    · rw [at_swap b _ _ _ (by omega) (by omega)]
      by_cases e : k = y
      · subst e; simp
      · rw [if_neg (by omega), if_neg (by omega), if_neg e]

/-- exchanging the pending pair number `m` of both blocks -/
theorem chain_pair {p : α} {b : Array α} {l bl r br : Nat} {oL oR : Array Nat} {mL mR : Nat}
    (hL : ScanL lt p b l bl oL mL) (hR : ScanR lt p b r br oR mR) (hmL : mL < oL.size) (hmR : mR < oR.size)
    (hsep : l + bl + br ≤ r) (hsz : r ≤ b.size) (b' : Array α)
    (hb : b' = b.swapIfInBounds (l + oL[mL]!) (r - 1 - oR[mR]!) ∨ b' = b.swapIfInBounds (r - 1 - oR[mR]!) (l + oL[mL]!)) :
    Frame l r b b' ∧ ScanL lt p b' l bl oL (mL + 1) ∧ ScanR lt p b' r br oR (mR + 1) := by
  obtain ⟨f, sl, sr⟩ := swap_LR b l bl r br _ _ (hL.bound mL hmL) (hR.bound mR hmR) hsep hsz b' hb
  refine ⟨f, hL.flip lt hmL ?_ (fun k hk hne => ?_), hR.flip lt hmR ?_ (fun k hk hne => ?_)⟩
  · rw [sl _ (hL.bound mL hmL), if_pos rfl]; exact hR.pending lt mR (Nat.le_refl _) hmR
  · rw [sl k hk, if_neg hne]
  · rw [sr _ (hR.bound mR hmR), if_pos rfl]; exact hL.pending lt mL (Nat.le_refl _) hmL
  · rw [sr k hk, if_neg hne]

/-- exchanging an already settled right position with a pending left position: no class changes -/
theorem chain_neutral {p : α} {b : Array α} {l bl r br : Nat} {oL oR : Array Nat} {mL mR : Nat}
    (hL : ScanL lt p b l bl oL mL) (hR : ScanR lt p b r br oR (mR + 1)) (hmL : mL < oL.size) (hmR : mR < oR.size)
    (hsep : l + bl + br ≤ r) (hsz : r ≤ b.size) (b' : Array α)
    (hb : b' = b.swapIfInBounds (r - 1 - oR[mR]!) (l + oL[mL]!)) :
    Frame l r b b' ∧ ScanL lt p b' l bl oL mL ∧ ScanR lt p b' r br oR (mR + 1) := by
  obtain ⟨f, sl, sr⟩ := swap_LR b l bl r br _ _ (hL.bound mL hmL) (hR.bound mR hmR) hsep hsz b' (Or.inr hb)
  have cL := hL.pending lt mL (Nat.le_refl _) hmL
  have cR := hR.settled lt mR (Nat.lt_succ_self _) hmR
  refine ⟨f, hL.same lt (fun k hk => ?_), hR.same lt (fun k hk => ?_)⟩
  · rw [sl k hk]
    by_cases e : k = oL[mL]!
    · subst e; rw [if_pos rfl, cR, cL]
    · rw [if_neg e]
  · rw [sr k hk]
    by_cases e : k = oR[mR]!
    · subst e; rw [if_pos rfl, cR, cL]
    · rw [if_neg e]

theorem pibChain_spec (p : α) (l r bl br : Nat) (oL : Array Nat) (sL : Nat) (oR : Array Nat) (sR count : Nat) (b : Array α) :
   ⦃fun s => ⌜s.val = b ∧ ScanL lt p b l bl oL sL ∧ ScanR lt p b r br oR sR ∧ 1 ≤ count ∧ sL + count ≤ oL.size ∧
      sR + count ≤ oR.size ∧ l + bl + br ≤ r ∧ r ≤ b.size⌝⦄
   (pibChain (a0 := a0) l r oL sL oR sR count)
   ⦃⇓ _ s => ⌜Frame l r b s.val ∧ ScanL lt p s.val l bl oL (sL + count) ∧ ScanR lt p s.val r br oR (sR + count)⌝⦄ := by
  mvcgen [pibChain, swp]
  case inv1 =>
    exact ⇓ ⟨xs, _⟩ s => ⌜Frame l r b s.val ∧ ScanL lt p s.val l bl oL (sL + 1 + xs.prefix.length) ∧
      ScanR lt p s.val r br oR (sR + 1 + xs.prefix.length)⌝
  case vc1 =>
    rename_i s0 hpre t0 pref cur suff hsplit u s hinv t1 t2
    have hr := range_split hsplit
    obtain ⟨rfl, hL, hR, hc, hcL, hcR, hsep, hsz⟩ := hpre
    vc_simp at hinv ⊢
    obtain ⟨f, iL, iR⟩ := hinv
    have hcur : cur = 1 + pref.length := hr.1
    have e1 : sR + cur - 1 = sR + pref.length := by omega
    have e2 : sL + cur = sL + 1 + pref.length := by omega
    have e3 : sR + cur = sR + 1 + pref.length := by omega
    have hs1 : r ≤ s.val.size := by rw [f.size]; exact hsz
    -- first swap: settled right position against the next pending left position
    have n1 := chain_neutral lt (mR := sR + pref.length) iL (by rw [show sR + pref.length + 1 = sR + 1 + pref.length by omega]; exact iR)
      (by omega) (by omega) hsep hs1 t1.snd.val
      (by show s.val.swapIfInBounds _ _ = _; rw [e1, e2, Nat.sub_right_comm])
    obtain ⟨f1, jL, jR⟩ := n1
    have hs2 : r ≤ t1.snd.val.size := by rw [f1.size]; exact hs1
    have n2 := chain_pair lt jL (by rw [show sR + pref.length + 1 = sR + 1 + pref.length by omega] at jR; exact jR)
      (by omega) (by omega) hsep hs2 t2.snd.val
      (Or.inl (by show t1.snd.val.swapIfInBounds _ _ = _; rw [e2, e3, Nat.sub_right_comm]))
    obtain ⟨f2, kL, kR⟩ := n2
    exact ⟨f.trans (f1.trans f2), by rw [show sL + 1 + (pref.length + 1) = sL + 1 + pref.length + 1 by omega]; exact kL,
      by rw [show sR + 1 + (pref.length + 1) = sR + 1 + pref.length + 1 by omega]; exact kR⟩
  case vc2 =>
    rename_i s hpre t
    obtain ⟨rfl, hL, hR, hc, hcL, hcR, hsep, hsz⟩ := hpre
    vc_simp
    exact chain_pair lt hL hR (by omega) (by omega) hsep hsz t.snd.val
      (Or.inl (by show s.val.swapIfInBounds _ _ = _; rw [Nat.sub_right_comm]))
  case vc3 =>
    rename_i s0 hpre t r' s hinv
    obtain ⟨rfl, hL, hR, hc, hcL, hcR, hsep, hsz⟩ := hpre
    vc_simp at hinv
    obtain ⟨f, iL, iR⟩ := hinv
    have e : sL + 1 + (count - 1) = sL + count := by omega
    have e' : sR + 1 + (count - 1) = sR + count := by omega
    rw [e] at iL; rw [e'] at iR
    exact ⟨f, iL, iR⟩
end NucleoVerif.PS
