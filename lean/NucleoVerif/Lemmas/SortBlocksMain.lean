import NucleoVerif.Lemmas.SortClean
open Std.Do
namespace NucleoVerif.PS
open Gen
set_option mvcgen.warning false
set_option linter.unusedSectionVars false
set_option linter.unusedVariables false
variable {α : Type} [Inhabited α] {a0 : Array α} (lt : α → α → Bool)

/-- what `partition_in_blocks` guarantees: `k` elements smaller than the pivot in front, the others behind -/
def BlocksPost (p : α) (lo hi : Nat) (a : Array α) (k : Nat) (b : Array α) : Prop :=
  Frame lo hi a b ∧ k ≤ hi - lo ∧ (∀ i, lo ≤ i → i < lo + k → lt (at' b i) p = true) ∧
  (∀ i, lo + k ≤ i → i < hi → lt (at' b i) p = false)

theorem PibInv.init (p : α) (lo hi : Nat) (a : Array α) (hlh : lo ≤ hi) (hsz : hi ≤ a.size) :
    PibInv lt p lo hi a { l := lo, r := hi, blockL := PS_BLOCK, blockR := PS_BLOCK, offsL := #[], startL := 0, offsR := #[], startR := 0 } a :=
  ⟨Frame.refl _ _ _, hsz, Nat.le_refl _, hlh, Nat.le_refl _, fun i h1 h2 => (by simp at h2; omega), fun i h1 h2 => (by simp at h1; omega),
   Nat.le_refl _, Nat.le_refl _, fun h => by simp at h, fun h => by simp at h, fun h => by simp at h⟩

theorem blocks_of_clean {p : α} {lo hi : Nat} {a b b' : Array α} {st : PibState} (inv : PibInv lt p lo hi a st b)
    (m : Nat) (f : Frame st.l st.r b b') (h1 : st.l ≤ m) (h2 : m ≤ st.r)
    (hl : ∀ i, st.l ≤ i → i < m → lt (at' b' i) p = true) (hg : ∀ i, m ≤ i → i < st.r → lt (at' b' i) p = false) :
    BlocksPost lt p lo hi a (m - lo) b' := by
  obtain ⟨frame, hsz, hl0, hlr, hr, ltL, geR, _, _, _, _, _⟩ := inv
  refine ⟨frame.trans (f.mono hl0 hr), by omega, fun i k1 k2 => ?_, fun i k1 k2 => ?_⟩
  · by_cases e : i < st.l
    · rw [f.out i (Or.inl e)]; exact ltL i k1 e
    · exact hl i (by omega) (by omega)
  · by_cases e : st.r ≤ i
    · rw [f.out i (Or.inr e)]; exact geR i e k2
    · exact hg i (by omega) (by omega)

theorem partitionInBlocks_spec (p : α) (lo hi : Nat) (a : Array α) :
   ⦃fun s => ⌜s.val = a ∧ lo ≤ hi ∧ hi ≤ a.size⌝⦄
   (partitionInBlocks (a0 := a0) lt lo hi p)
   ⦃⇓ k s => ⌜BlocksPost lt p lo hi a k s.val⌝⦄ := by
  have hST := fun st b => pibStep_spec (a0 := a0) lt p lo hi a st b
  have hCL := fun l r offs startL b => pibCleanL_spec (a0 := a0) lt p l r offs startL b
  have hCR := fun l r offs startR b => pibCleanR_spec (a0 := a0) lt p l r offs startR b
  mvcgen [partitionInBlocks, hST, hCL, hCR]
  case inv1 =>
    exact ⇓ ⟨xs, st⟩ s => ⌜PibInv lt p lo hi a st s.val ∧
      ((xs.suffix.length = 0 ∧ Fin st) ∨
       (st.blockL = PS_BLOCK ∧ st.blockR = PS_BLOCK ∧ st.r - st.l + PS_BLOCK * xs.prefix.length ≤ hi - lo))⌝
  case vc1 =>
    rename_i st0 s0 hpre pref cur suff hsplit st _ s hinv
    vc_simp at hinv
    exact ⟨trivial, hinv.1, hinv.2.1, hinv.2.2.1⟩
  case vc2 =>
    rename_i st0 s0 hpre pref cur suff hsplit st _ s1 hinv st' hd s hpost
    vc_simp at hinv ⊢
    exact ⟨hpost.1, Or.inl (hpost.2.1 hd)⟩
  case vc3 =>
    rename_i st0 s0 hpre pref cur suff hsplit st _ s1 hinv st' hd s hpost
    have hr := range_split hsplit
    vc_simp at hinv ⊢
    obtain ⟨h1, h2, h3⟩ := hpost.2.2 hd
    refine ⟨hpost.1, Or.inr ⟨h1, h2, ?_⟩⟩
    have := hinv.2.2.2
    rw [Nat.mul_add, Nat.mul_one]
    omega
  case vc4 =>
    rename_i st0 s hpre
    obtain ⟨rfl, hlh, hsz⟩ := hpre
    vc_simp
    exact ⟨PibInv.init lt p lo hi s.val hlh hsz, Or.inr ⟨rfl, rfl, by show hi - lo + PS_BLOCK * 0 ≤ hi - lo; omega⟩⟩
  case vc5 =>
    rename_i st0 s0 hpre st hp s hinv
    vc_simp at hinv
    obtain ⟨inv, hfin⟩ := hinv
    have hB : PS_BLOCK = 128 := rfl
    have fin : Fin st := by
      rcases hfin with h | h
      · exact h
      · exfalso; have := h.2.2; rw [hB] at this; omega
    have hpl := inv.pendL hp
    have e : st.r - st.l = st.blockL := by have := fin.1 hp; omega
    rw [e]
    exact ⟨trivial, hpl.1, inv.sL, inv.hlr, by have := inv.hr; have := inv.hsz; omega⟩
  case vc6 =>
    rename_i st0 s0 hpre st hp s1 hinv r' s hpost
    vc_simp at hinv
    obtain ⟨f, h1, h2, h3, h4⟩ := hpost
    exact blocks_of_clean lt hinv.1 r' f h1 h2 h3 h4
  case vc7 =>
    rename_i st0 s0 hpre st hnp hp s hinv
    vc_simp at hinv
    obtain ⟨inv, hfin⟩ := hinv
    have hB : PS_BLOCK = 128 := rfl
    have fin : Fin st := by
      rcases hfin with h | h
      · exact h
      · exfalso; have := h.2.2; rw [hB] at this; omega
    have hpr := inv.pendR hp
    have e : st.r - st.l = st.blockR := by have := fin.2.1 hp; omega
    rw [e]
    exact ⟨trivial, hpr.1, inv.sR, inv.hlr, by have := inv.hr; have := inv.hsz; omega⟩
  case vc8 =>
    rename_i st0 s0 hpre st hnp hp s1 hinv l' s hpost
    vc_simp at hinv
    obtain ⟨f, h1, h2, h3, h4⟩ := hpost
    exact blocks_of_clean lt hinv.1 l' f h1 h2 h3 h4
  case vc9 =>
    rename_i st0 s0 hpre st hnpL hnpR s hinv
    vc_simp at hinv
    obtain ⟨inv, hfin⟩ := hinv
    have hB : PS_BLOCK = 128 := rfl
    have fin : Fin st := by
      rcases hfin with h | h
      · exact h
      · exfalso; have := h.2.2; rw [hB] at this; omega
    have e := fin.2.2 hnpL hnpR
    exact blocks_of_clean lt inv st.l (Frame.refl _ _ _) (Nat.le_refl _) inv.hlr (fun i k1 k2 => by omega)
      (fun i k1 k2 => by omega)
end NucleoVerif.PS
