import NucleoVerif.Lemmas.SortStep
open Std.Do
namespace NucleoVerif.PS
open Gen
set_option mvcgen.warning false
set_option linter.unusedSectionVars false
set_option linter.unusedVariables false
variable {α : Type} [Inhabited α] {a0 : Array α} (lt : α → α → Bool)

theorem offs_room {offs : Array Nat} {bl : Nat} (mono : ∀ i j, i < j → j < offs.size → offs[i]! < offs[j]!)
    (bound : ∀ i, i < offs.size → offs[i]! < bl) : ∀ d i, i < offs.size → offs.size - i = d → offs[i]! + d ≤ bl := by
  intro d
  induction d with
  | zero => intro i hi hd; omega
  | succ d ih =>
    intro i hi hd
    by_cases e : i + 1 < offs.size
    · have := ih (i + 1) e (by omega)
      have := mono i (i + 1) (by omega) e
      omega
    · have := bound i hi; omega

/-- invariant of the final clean-up of an unfinished left block -/
structure CleanL (p : α) (b0 : Array α) (l r : Nat) (offs : Array Nat) (startL endL r' : Nat) (b : Array α) : Prop where
  frame : Frame l r b0 b
  hs : startL ≤ endL
  he : endL ≤ offs.size
  hr : r' + (offs.size - endL) = r
  hl : l ≤ r'
  mono : ∀ i j, i < j → j < offs.size → offs[i]! < offs[j]!
  bound : ∀ i, i < offs.size → offs[i]! < r - l
  cls : ∀ k, k < r' - l → (lt (at' b (l + k)) p = false ↔ ∃ i, startL ≤ i ∧ i < endL ∧ offs[i]! = k)
  ge : ∀ i, r' ≤ i → i < r → lt (at' b i) p = false
  hsz : r ≤ b.size

theorem CleanL.init {p : α} {b : Array α} {l r : Nat} {offs : Array Nat} {startL : Nat} (h : ScanL lt p b l (r - l) offs startL)
    (hs : startL ≤ offs.size) (hlr : l ≤ r) (hsz : r ≤ b.size) : CleanL lt p b l r offs startL offs.size r b :=
  ⟨Frame.refl _ _ _, hs, Nat.le_refl _, by omega, hlr, h.mono, h.bound, fun k hk => h.cls k hk, fun i h1 h2 => by omega, hsz⟩

theorem CleanL.step {p : α} {b0 b : Array α} {l r : Nat} {offs : Array Nat} {startL endL r' : Nat}
    (c : CleanL lt p b0 l r offs startL endL r' b) (hlt : startL < endL) :
    CleanL lt p b0 l r offs startL (endL - 1) (r' - 1) (b.swapIfInBounds (l + offs[endL - 1]!) (r' - 1)) := by
  obtain ⟨frame, hs, he, hr, hl, mono, bound, cls, ge, hsz⟩ := c
  have hroom := offs_room mono bound (offs.size - (endL - 1)) (endL - 1) (by omega) rfl
  have hpos : l + offs[endL - 1]! ≤ r' - 1 := by omega
  have hr1 : 1 ≤ r' := by omega
  have hsw := fun k => at_swap b (l + offs[endL - 1]!) (r' - 1) k (by omega) (by omega)
  have cpend : lt (at' b (l + offs[endL - 1]!)) p = false :=
    (cls _ (by omega)).2 ⟨endL - 1, by omega, by omega, rfl⟩
  -- the element at `r' - 1`: either the pending one itself or not pending
  have clast : l + offs[endL - 1]! ≠ r' - 1 → lt (at' b (r' - 1)) p = true := by
    intro hne
    cases hc : lt (at' b (r' - 1)) p with
    | true => rfl
    | false =>
      have e : r' - 1 = l + (r' - 1 - l) := by omega
      rw [e] at hc
      obtain ⟨i, h1, h2, h3⟩ := (cls _ (by omega)).1 hc
      have : i ≤ endL - 1 := by omega
      by_cases e2 : i = endL - 1
      · subst e2; omega
      · have := mono i (endL - 1) (by omega) (by omega); omega
  refine ⟨frame.trans (Frame.swap l r b _ _ (by omega) (by omega) (by omega) (by omega)), by omega, by omega, by omega, by omega,
    mono, bound, fun k hk => ?_, fun i h1 h2 => ?_, by simpa using hsz⟩
  · rw [hsw]
    by_cases e : k = offs[endL - 1]!
    · subst e
      rw [if_pos rfl]
      have hne : l + offs[endL - 1]! ≠ r' - 1 := by omega
      rw [clast hne]
      constructor
      · intro h; cases h
      · rintro ⟨i, h1, h2, h3⟩
        have := offs_inj mono (by omega) (by omega : endL - 1 < offs.size) h3; omega
    · rw [if_neg (by omega), if_neg (by omega), cls k (by omega)]
      constructor
      · rintro ⟨i, h1, h2, h3⟩
        refine ⟨i, h1, ?_, h3⟩
        by_cases e2 : i = endL - 1
        · subst e2; exact absurd h3.symm e
        · omega
      · rintro ⟨i, h1, h2, h3⟩
        exact ⟨i, h1, by omega, h3⟩
  · rw [hsw]
    by_cases e : i = r' - 1
    · subst e
      by_cases e2 : r' - 1 = l + offs[endL - 1]!
      · rw [if_pos e2]
        by_cases e3 : l + offs[endL - 1]! = r' - 1
        · rw [← e3]; exact cpend
        · omega
      · rw [if_neg e2, if_pos rfl]; exact cpend
    · rw [if_neg (by omega), if_neg e]; exact ge i (by omega) h2

theorem CleanL.done {p : α} {b0 b : Array α} {l r : Nat} {offs : Array Nat} {startL endL r' : Nat}
    (c : CleanL lt p b0 l r offs startL endL r' b) (he : endL ≤ startL) :
    Frame l r b0 b ∧ l ≤ r' ∧ r' ≤ r ∧ (∀ i, l ≤ i → i < r' → lt (at' b i) p = true) ∧ (∀ i, r' ≤ i → i < r → lt (at' b i) p = false) := by
  obtain ⟨frame, hs, he', hr, hl, mono, bound, cls, ge, hsz⟩ := c
  refine ⟨frame, hl, by omega, fun i h1 h2 => ?_, ge⟩
  cases hc : lt (at' b i) p with
  | true => rfl
  | false =>
    have e : i = l + (i - l) := by omega
    rw [e] at hc
    obtain ⟨j, h3, h4, _⟩ := (cls _ (by omega)).1 hc
    omega


theorem pibCleanL_spec (p : α) (l r : Nat) (offs : Array Nat) (startL : Nat) (b : Array α) :
   ⦃fun s => ⌜s.val = b ∧ ScanL lt p b l (r - l) offs startL ∧ startL ≤ offs.size ∧ l ≤ r ∧ r ≤ b.size⌝⦄
   (pibCleanL (a0 := a0) l r offs startL)
   ⦃⇓ r' s => ⌜Frame l r b s.val ∧ l ≤ r' ∧ r' ≤ r ∧ (∀ i, l ≤ i → i < r' → lt (at' s.val i) p = true) ∧
      (∀ i, r' ≤ i → i < r → lt (at' s.val i) p = false)⌝⦄ := by
  mvcgen [pibCleanL, swp]
  case inv1 =>
    exact ⇓ ⟨xs, r', endL⟩ s => ⌜CleanL lt p b l r offs startL endL r' s.val ∧
      ((xs.suffix.length = 0 ∧ endL ≤ startL) ∨ endL + xs.prefix.length = offs.size)⌝
  case vc1 =>
    rename_i _ s0 hpre pref cur suff hsplit bb r1 endL1 hlt endL2 s hinv t r2
    have hr := range_split hsplit
    vc_simp at hinv ⊢
    obtain ⟨c, hcnt⟩ := hinv
    have hlt' : startL < bb.2 := hlt
    exact ⟨c.step lt hlt, Or.inr (by show bb.2 - 1 + (pref.length + 1) = offs.size; omega)⟩
  case vc2 =>
    rename_i _ s0 hpre pref cur suff hsplit bb r1 endL1 hlt s hinv
    vc_simp at hinv ⊢
    exact ⟨hinv.1, Or.inl (by have : ¬ startL < bb.2 := hlt; omega)⟩
  case vc3 =>
    rename_i _ s hpre
    obtain ⟨rfl, sc, hs, hlr, hsz⟩ := hpre
    vc_simp
    exact ⟨CleanL.init lt sc hs hlr hsz, Or.inr rfl⟩
  case vc4 =>
    rename_i _ s0 hpre bb r1 s hinv
    vc_simp at hinv
    obtain ⟨c, hcnt⟩ := hinv
    refine c.done lt ?_
    rcases hcnt with h | h
    · exact h
    · have := c.hs; omega

/-- invariant of the final clean-up of an unfinished right block -/
structure CleanR (p : α) (b0 : Array α) (l r : Nat) (offs : Array Nat) (startR endR l' : Nat) (b : Array α) : Prop where
  frame : Frame l r b0 b
  hs : startR ≤ endR
  he : endR ≤ offs.size
  hl : l + (offs.size - endR) = l'
  hr : l' ≤ r
  mono : ∀ i j, i < j → j < offs.size → offs[i]! < offs[j]!
  bound : ∀ i, i < offs.size → offs[i]! < r - l
  cls : ∀ k, k < r - l' → (lt (at' b (r - 1 - k)) p = true ↔ ∃ i, startR ≤ i ∧ i < endR ∧ offs[i]! = k)
  ltl : ∀ i, l ≤ i → i < l' → lt (at' b i) p = true
  hsz : r ≤ b.size

theorem CleanR.init {p : α} {b : Array α} {l r : Nat} {offs : Array Nat} {startR : Nat} (h : ScanR lt p b r (r - l) offs startR)
    (hs : startR ≤ offs.size) (hlr : l ≤ r) (hsz : r ≤ b.size) : CleanR lt p b l r offs startR offs.size l b :=
  ⟨Frame.refl _ _ _, hs, Nat.le_refl _, by omega, hlr, h.mono, h.bound, fun k hk => h.cls k hk, fun i h1 h2 => by omega, hsz⟩

theorem CleanR.step {p : α} {b0 b : Array α} {l r : Nat} {offs : Array Nat} {startR endR l' : Nat}
    (c : CleanR lt p b0 l r offs startR endR l' b) (hlt : startR < endR) :
    CleanR lt p b0 l r offs startR (endR - 1) (l' + 1) (b.swapIfInBounds l' (r - offs[endR - 1]! - 1)) := by
  obtain ⟨frame, hs, he, hl, hr, mono, bound, cls, ltl, hsz⟩ := c
  have hroom := offs_room mono bound (offs.size - (endR - 1)) (endR - 1) (by omega) rfl
  have hpos : l' ≤ r - offs[endR - 1]! - 1 := by omega
  have hpr : r - offs[endR - 1]! - 1 < r := by omega
  have hsw := fun k => at_swap b l' (r - offs[endR - 1]! - 1) k (by omega) (by omega)
  have epos : r - offs[endR - 1]! - 1 = r - 1 - offs[endR - 1]! := by omega
  have cpend : lt (at' b (r - offs[endR - 1]! - 1)) p = true := by
    rw [epos]; exact (cls _ (by omega)).2 ⟨endR - 1, by omega, by omega, rfl⟩
  have cfirst : r - offs[endR - 1]! - 1 ≠ l' → lt (at' b l') p = false := by
    intro hne
    cases hc : lt (at' b l') p with
    | false => rfl
    | true =>
      have e : l' = r - 1 - (r - 1 - l') := by omega
      rw [e] at hc
      obtain ⟨i, h1, h2, h3⟩ := (cls _ (by omega)).1 hc
      by_cases e2 : i = endR - 1
      · subst e2; omega
      · have := mono i (endR - 1) (by omega) (by omega); omega
  refine ⟨frame.trans (Frame.swap l r b _ _ (by omega) (by omega) (by omega) (by omega)), by omega, by omega, by omega, by omega,
    mono, bound, fun k hk => ?_, fun i h1 h2 => ?_, by simpa using hsz⟩
  · rw [hsw]
    by_cases e : k = offs[endR - 1]!
    · subst e
      have hne : r - offs[endR - 1]! - 1 ≠ l' := by omega
      rw [if_neg (by omega), if_pos (by omega), cfirst hne]
      constructor
      · intro h; cases h
      · rintro ⟨i, h1, h2, h3⟩
        have := offs_inj mono (by omega) (by omega : endR - 1 < offs.size) h3; omega
    · rw [if_neg (by omega), if_neg (by omega), cls k (by omega)]
      constructor
      · rintro ⟨i, h1, h2, h3⟩
        refine ⟨i, h1, ?_, h3⟩
        by_cases e2 : i = endR - 1
        · subst e2; exact absurd h3.symm e
        · omega
      · rintro ⟨i, h1, h2, h3⟩
        exact ⟨i, h1, by omega, h3⟩
  · rw [hsw]
    by_cases e : i = l'
    · subst e; rw [if_pos rfl]; exact cpend
    · rw [if_neg e, if_neg (by omega)]; exact ltl i h1 (by omega)

theorem CleanR.done {p : α} {b0 b : Array α} {l r : Nat} {offs : Array Nat} {startR endR l' : Nat}
    (c : CleanR lt p b0 l r offs startR endR l' b) (he : endR ≤ startR) :
    Frame l r b0 b ∧ l ≤ l' ∧ l' ≤ r ∧ (∀ i, l ≤ i → i < l' → lt (at' b i) p = true) ∧ (∀ i, l' ≤ i → i < r → lt (at' b i) p = false) := by
  obtain ⟨frame, hs, he', hl, hr, mono, bound, cls, ltl, hsz⟩ := c
  refine ⟨frame, by omega, hr, ltl, fun i h1 h2 => ?_⟩
  cases hc : lt (at' b i) p with
  | false => rfl
  | true =>
    have e : i = r - 1 - (r - 1 - i) := by omega
    rw [e] at hc
    obtain ⟨j, h3, h4, _⟩ := (cls _ (by omega)).1 hc
    omega

theorem pibCleanR_spec (p : α) (l r : Nat) (offs : Array Nat) (startR : Nat) (b : Array α) :
   ⦃fun s => ⌜s.val = b ∧ ScanR lt p b r (r - l) offs startR ∧ startR ≤ offs.size ∧ l ≤ r ∧ r ≤ b.size⌝⦄
   (pibCleanR (a0 := a0) l r offs startR)
   ⦃⇓ l' s => ⌜Frame l r b s.val ∧ l ≤ l' ∧ l' ≤ r ∧ (∀ i, l ≤ i → i < l' → lt (at' s.val i) p = true) ∧
      (∀ i, l' ≤ i → i < r → lt (at' s.val i) p = false)⌝⦄ := by
  mvcgen [pibCleanR, swp]
  case inv1 =>
    exact ⇓ ⟨xs, l', endR⟩ s => ⌜CleanR lt p b l r offs startR endR l' s.val ∧
      ((xs.suffix.length = 0 ∧ endR ≤ startR) ∨ endR + xs.prefix.length = offs.size)⌝
  case vc1 =>
    rename_i _ s0 hpre pref cur suff hsplit bb l1 endR1 hlt endR2 s hinv t l2
    have hr := range_split hsplit
    vc_simp at hinv ⊢
    obtain ⟨c, hcnt⟩ := hinv
    have hlt' : startR < bb.2 := hlt
    exact ⟨c.step lt hlt, Or.inr (by show bb.2 - 1 + (pref.length + 1) = offs.size; omega)⟩
  case vc2 =>
    rename_i _ s0 hpre pref cur suff hsplit bb l1 endR1 hlt s hinv
    vc_simp at hinv ⊢
    exact ⟨hinv.1, Or.inl (by have : ¬ startR < bb.2 := hlt; omega)⟩
  case vc3 =>
    rename_i _ s hpre
    obtain ⟨rfl, sc, hs, hlr, hsz⟩ := hpre
    vc_simp
    exact ⟨CleanR.init lt sc hs hlr hsz, Or.inr rfl⟩
  case vc4 =>
    rename_i _ s0 hpre bb l1 s hinv
    vc_simp at hinv
    obtain ⟨c, hcnt⟩ := hinv
    refine c.done lt ?_
    rcases hcnt with h | h
    · exact h
    · have := c.hs; omega
end NucleoVerif.PS
