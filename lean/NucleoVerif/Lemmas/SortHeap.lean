import NucleoVerif.Lemmas.SortRec
open Std.Do
namespace NucleoVerif.PS
open Gen
set_option mvcgen.warning false
set_option linter.unusedSectionVars false
set_option linter.unusedVariables false
variable {α : Type} [Inhabited α] {a0 : Array α} (lt : α → α → Bool)

/-- node `i` of the heap `v[lo .. lo+len)` is not smaller than its children -/
def HeapAt (lo len : Nat) (b : Array α) (i : Nat) : Prop :=
  (2 * i + 1 < len → lt (at' b (lo + i)) (at' b (lo + (2 * i + 1))) = false) ∧
  (2 * i + 2 < len → lt (at' b (lo + i)) (at' b (lo + (2 * i + 2))) = false)

/-- every node from `start` on satisfies the heap property -/
def HeapFrom (lo len start : Nat) (b : Array α) : Prop := ∀ i, start ≤ i → i < len → HeapAt lt lo len b i

/-- the heap property holds from `start` on except at `node`, whose parent (if it is in range) already dominates
    `node`'s children -/
structure SiftInv (lo len start node : Nat) (b : Array α) : Prop where
  others : ∀ i, start ≤ i → i < len → i ≠ node → HeapAt lt lo len b i
  grand : ∀ q, start ≤ q → (2 * q + 1 = node ∨ 2 * q + 2 = node) →
    (2 * node + 1 < len → lt (at' b (lo + q)) (at' b (lo + (2 * node + 1))) = false) ∧
    (2 * node + 2 < len → lt (at' b (lo + q)) (at' b (lo + (2 * node + 2))) = false)

theorem SiftInv.leaf {lo len start node : Nat} {b : Array α} (h : SiftInv lt lo len start node b) (hc : 2 * node + 1 ≥ len) :
    HeapFrom lt lo len start b := by
  intro i h1 h2
  by_cases e : i = node
  · subst e; exact ⟨fun h => by omega, fun h => by omega⟩
  · exact h.others i h1 h2 e

/-- `child` is the greater child of `node` -/
def Greater (lo len node child : Nat) (b : Array α) : Prop :=
  (child = 2 * node + 1 ∧ (2 * node + 2 < len → lt (at' b (lo + (2 * node + 1))) (at' b (lo + (2 * node + 2))) = false)) ∨
  (child = 2 * node + 2 ∧ 2 * node + 2 < len ∧ lt (at' b (lo + (2 * node + 1))) (at' b (lo + (2 * node + 2))) = true)

theorem SiftInv.stop (h : SWO lt) {lo len start node child : Nat} {b : Array α} (inv : SiftInv lt lo len start node b)
    (hc : 2 * node + 1 < len) (g : Greater lt lo len node child b)
    (hstop : lt (at' b (lo + node)) (at' b (lo + child)) = false) : HeapFrom lt lo len start b := by
  intro i h1 h2
  by_cases e : i = node
  · subst e
    rcases g with ⟨rfl, g2⟩ | ⟨rfl, g1, g2⟩
    · exact ⟨fun _ => hstop, fun h3 => h.le_trans _ _ _ (g2 h3) hstop⟩
    · exact ⟨fun _ => h.le_trans _ _ _ (h.asym _ _ g2) hstop, fun _ => hstop⟩
  · exact inv.others i h1 h2 e

theorem SiftInv.down (h : SWO lt) {lo len start node child : Nat} {b : Array α} (inv : SiftInv lt lo len start node b)
    (hn : start ≤ node) (hc : 2 * node + 1 < len) (g : Greater lt lo len node child b) (hsz : lo + len ≤ b.size)
    (hgo : lt (at' b (lo + node)) (at' b (lo + child)) = true) :
    SiftInv lt lo len start child (b.swapIfInBounds (lo + node) (lo + child)) := by
  have hcl : child < len ∧ node < child ∧ (child = 2 * node + 1 ∨ child = 2 * node + 2) := by
    rcases g with ⟨rfl, _⟩ | ⟨rfl, g1, _⟩ <;> omega
  obtain ⟨hcl1, hcl2, hcl3⟩ := hcl
  have hsw := fun k => at_swap b (lo + node) (lo + child) k (by omega) (by omega)
  -- the chosen child dominates the other one
  have hother : ∀ c, (c = 2 * node + 1 ∨ c = 2 * node + 2) → c < len → lt (at' b (lo + child)) (at' b (lo + c)) = false := by
    intro c hc1 hc2
    rcases g with ⟨rfl, g2⟩ | ⟨rfl, g1, g2⟩
    · rcases hc1 with rfl | rfl
      · exact h.irrefl _
      · exact g2 hc2
    · rcases hc1 with rfl | rfl
      · exact h.asym _ _ g2
      · exact h.irrefl _
  refine ⟨fun i h1 h2 hne => ?_, fun q hq hpar => ?_⟩
  · -- heap property at `i ≠ child` after the swap
    by_cases e : i = node
    · subst e
      constructor
      · intro _
        rw [hsw, hsw, if_pos rfl]
        by_cases e2 : child = 2 * i + 1
        · rw [if_neg (by omega), if_pos (by omega)]; exact h.asym _ _ hgo
        · rw [if_neg (by omega), if_neg (by omega)]; exact hother _ (Or.inl rfl) (by omega)
      · intro h3
        rw [hsw, hsw, if_pos rfl]
        by_cases e2 : child = 2 * i + 2
        · rw [if_neg (by omega), if_pos (by omega)]; exact h.asym _ _ hgo
        · rw [if_neg (by omega), if_neg (by omega)]; exact hother _ (Or.inr rfl) h3
    · have old := inv.others i h1 h2 e
      constructor
      · intro h3
        rw [hsw, hsw, if_neg (by omega), if_neg (by omega)]
        by_cases e2 : 2 * i + 1 = node
        · -- `i` is the parent of `node`: the new value at `node` is the old child
          rw [if_pos (by omega)]
          have := inv.grand i h1 (Or.inl e2)
          rcases hcl3 with e3 | e3
          · rw [e3]; exact this.1 (by omega)
          · rw [e3]; exact this.2 (by omega)
        · rw [if_neg (by omega), if_neg (by omega)]; exact old.1 h3
      · intro h3
        rw [hsw, hsw, if_neg (by omega), if_neg (by omega)]
        by_cases e2 : 2 * i + 2 = node
        · rw [if_pos (by omega)]
          have := inv.grand i h1 (Or.inr e2)
          rcases hcl3 with e3 | e3
          · rw [e3]; exact this.1 (by omega)
          · rw [e3]; exact this.2 (by omega)
        · rw [if_neg (by omega), if_neg (by omega)]; exact old.2 h3
  · -- the parent of `child` is `node`, which now holds the old child value, dominating child's children
    have hq : q = node := by omega
    subst hq
    have old := inv.others child (by omega) hcl1 (by omega)
    constructor
    · intro h3
      rw [hsw, hsw, if_pos rfl, if_neg (by omega), if_neg (by omega)]
      exact old.1 h3
    · intro h3
      rw [hsw, hsw, if_pos rfl, if_neg (by omega), if_neg (by omega)]
      exact old.2 h3


theorem siftDown_spec (h : SWO lt) (lo len start node : Nat) (b : Array α) :
   ⦃fun s => ⌜s.val = b ∧ SiftInv lt lo len start node b ∧ start ≤ node ∧ lo + len ≤ b.size⌝⦄
   (siftDown (a0 := a0) lt lo len node)
   ⦃⇓ _ s => ⌜Frame lo (lo + len) b s.val ∧ HeapFrom lt lo len start s.val⌝⦄ := by
  mvcgen [siftDown, rd, swp]
  case inv1 =>
    exact ⇓ ⟨xs, node'⟩ s => ⌜Frame lo (lo + len) b s.val ∧
      ((xs.suffix.length = 0 ∧ HeapFrom lt lo len start s.val) ∨
       (SiftInv lt lo len start node' s.val ∧ start ≤ node' ∧ xs.prefix.length ≤ node'))⌝
  case vc1 =>
    rename_i s0 hpre pref cur suff hsplit nd child hge s hinv
    vc_simp at hinv ⊢
    have hch : child = 2 * nd + 1 := rfl
    refine ⟨hinv.1, Or.inl (hinv.2.1.leaf lt (by omega))⟩
  case vc2 =>
    rename_i s0 hpre pref cur suff hsplit nd child hlt s hinv _ hc child' hstop
    vc_simp at hinv ⊢
    have hch : child = 2 * nd + 1 := rfl
    have hch' : child' = 2 * nd + 2 := rfl
    refine ⟨hinv.1, Or.inl (hinv.2.1.stop lt h (child := child') (by omega) (Or.inr ⟨hch', by omega, ?_⟩) ?_)⟩
    · have := hc.2; rw [hch] at this; exact this
    · have := hstop; rw [Bool.not_eq_true'] at this; exact this
  case vc3 =>
    rename_i s0 hpre pref cur suff hsplit nd child hlt s hinv _ hc child' hgo t
    have hr := range_split hsplit
    vc_simp at hinv ⊢
    have hch : child = 2 * nd + 1 := rfl
    have hch' : child' = 2 * nd + 2 := rfl
    obtain ⟨f, inv, hst, hcnt⟩ := hinv
    have hsz : lo + len ≤ s.val.size := by rw [f.size]; exact hpre.2.2.2
    have hgo' : lt (at' s.val (lo + nd)) (at' s.val (lo + child')) = true := by
      cases hx : lt (at' s.val (lo + nd)) (at' s.val (lo + child')) with
      | true => rfl
      | false => exfalso; apply hgo; show (!lt (at' s.val (lo + nd)) (at' s.val (lo + child'))) = true; rw [hx]; rfl
    have g : Greater lt lo len nd child' s.val := Or.inr ⟨hch', by omega, by have := hc.2; rw [hch] at this; exact this⟩
    refine ⟨f.trans (Frame.swap lo (lo + len) s.val _ _ (by omega) (by omega) (by omega) (by omega)),
      Or.inr ⟨inv.down lt h hst (by omega) g hsz hgo', by omega, by show pref.length + 1 ≤ child'; omega⟩⟩
  case vc4 =>
    rename_i s0 hpre pref cur suff hsplit nd child hlt s hinv _ hc hstop
    vc_simp at hinv ⊢
    have hch : child = 2 * nd + 1 := rfl
    refine ⟨hinv.1, Or.inl (hinv.2.1.stop lt h (child := child) (by omega) (Or.inl ⟨hch, fun h3 => ?_⟩) ?_)⟩
    · cases hx : lt (at' s.val (lo + (2 * nd + 1))) (at' s.val (lo + (2 * nd + 2))) with
      | false => rfl
      | true => exfalso; apply hc; exact ⟨by omega, by rw [hch]; exact hx⟩
    · have := hstop; rw [Bool.not_eq_true'] at this; exact this
  case vc5 =>
    rename_i s0 hpre pref cur suff hsplit nd child hlt s hinv _ hc hgo t
    have hr := range_split hsplit
    vc_simp at hinv ⊢
    have hch : child = 2 * nd + 1 := rfl
    obtain ⟨f, inv, hst, hcnt⟩ := hinv
    have hsz : lo + len ≤ s.val.size := by rw [f.size]; exact hpre.2.2.2
    have hgo' : lt (at' s.val (lo + nd)) (at' s.val (lo + child)) = true := by
      cases hx : lt (at' s.val (lo + nd)) (at' s.val (lo + child)) with
      | true => rfl
      | false => exfalso; apply hgo; show (!lt (at' s.val (lo + nd)) (at' s.val (lo + child))) = true; rw [hx]; rfl
    have g : Greater lt lo len nd child s.val := Or.inl ⟨hch, fun h3 => by
      cases hx : lt (at' s.val (lo + (2 * nd + 1))) (at' s.val (lo + (2 * nd + 2))) with
      | false => rfl
      | true => exfalso; apply hc; exact ⟨by omega, by rw [hch]; exact hx⟩⟩
    refine ⟨f.trans (Frame.swap lo (lo + len) s.val _ _ (by omega) (by omega) (by omega) (by omega)),
      Or.inr ⟨inv.down lt h hst (by omega) g hsz hgo', by omega, by show pref.length + 1 ≤ child; omega⟩⟩
  case vc6 =>
    rename_i s hpre
    obtain ⟨rfl, inv, hst, hsz⟩ := hpre
    vc_simp
    exact ⟨Frame.refl _ _ _, Or.inr ⟨inv, hst, Nat.zero_le _⟩⟩
  case vc7 =>
    rename_i s0 hpre nd s hinv
    vc_simp at hinv
    obtain ⟨f, hh⟩ := hinv
    refine ⟨f, ?_⟩
    rcases hh with hh | ⟨inv, hst, hcnt⟩
    · exact hh
    · exact inv.leaf lt (by omega)

theorem heap_root_max (h : SWO lt) {lo m : Nat} {b : Array α} (hp : HeapFrom lt lo m 0 b) :
    ∀ x, x < m → lt (at' b lo) (at' b (lo + x)) = false := by
  intro x
  induction x using Nat.strongRecOn with
  | _ x ih =>
    intro hx
    by_cases e : x = 0
    · subst e; exact h.irrefl _
    · have hq : (x - 1) / 2 < x := by omega
      have ihq := ih ((x - 1) / 2) hq (by omega)
      have ha := hp ((x - 1) / 2) (Nat.zero_le _) (by omega)
      rcases Nat.mod_two_eq_zero_or_one (x - 1) with e2 | e2
      · have : 2 * ((x - 1) / 2) + 1 = x := by omega
        have := ha.1 (by omega)
        rw [‹2 * ((x - 1) / 2) + 1 = x›] at this
        exact h.le_trans _ _ _ this ihq
      · have e3 : 2 * ((x - 1) / 2) + 2 = x := by omega
        have := ha.2 (by omega)
        rw [e3] at this
        exact h.le_trans _ _ _ this ihq

/-- invariant of the pop loop: the first `m` elements are a heap, the rest is sorted and not smaller than any of them -/
structure PopInv (lo hi : Nat) (a : Array α) (m : Nat) (b : Array α) : Prop where
  frame : Frame lo hi a b
  heap : HeapFrom lt lo m 0 b
  sorted : Sorted lt (lo + m) hi b
  le : ∀ x y, x < m → m ≤ y → y < hi - lo → lt (at' b (lo + y)) (at' b (lo + x)) = false

theorem PopInv.swap_sift {lo hi : Nat} {a b : Array α} {m : Nat} (p : PopInv lt lo hi a m b) (hm : 2 ≤ m) (hmh : m ≤ hi - lo)
    (hsz : hi ≤ b.size) :
    SiftInv lt lo (m - 1) 0 0 (b.swapIfInBounds lo (lo + (m - 1))) := by
  have hsw := fun k => at_swap b lo (lo + (m - 1)) k (by omega) (by omega)
  refine ⟨fun j _ h2 hne => ?_, fun q _ hq => by omega⟩
  have old := p.heap j (Nat.zero_le _) (by omega)
  constructor
  · intro h3
    rw [hsw, hsw, if_neg (by omega), if_neg (by omega), if_neg (by omega), if_neg (by omega)]
    exact old.1 (by omega)
  · intro h3
    rw [hsw, hsw, if_neg (by omega), if_neg (by omega), if_neg (by omega), if_neg (by omega)]
    exact old.2 (by omega)

theorem PopInv.next (h : SWO lt) {lo hi : Nat} {a b s : Array α} {m : Nat} (p : PopInv lt lo hi a m b) (hm : 2 ≤ m) (hmh : m ≤ hi - lo)
    (hsz : hi ≤ b.size) (f : Frame lo (lo + (m - 1)) (b.swapIfInBounds lo (lo + (m - 1))) s)
    (hh : HeapFrom lt lo (m - 1) 0 s) : PopInv lt lo hi a (m - 1) s := by
  have hsw := fun k => at_swap b lo (lo + (m - 1)) k (by omega) (by omega)
  have fsw : Frame lo hi b (b.swapIfInBounds lo (lo + (m - 1))) := Frame.swap lo hi b _ _ (Nat.le_refl _) (by omega) (by omega) (by omega)
  have rmax := heap_root_max lt h p.heap
  -- values behind the heap after the swap and the sift
  have hroot : at' s (lo + (m - 1)) = at' b lo := by
    rw [f.out _ (Or.inr (Nat.le_refl _)), hsw, if_neg (by omega), if_pos rfl]
  have hrest : ∀ y, m ≤ y → at' s (lo + y) = at' b (lo + y) := by
    intro y hy
    rw [f.out _ (Or.inr (by omega)), hsw, if_neg (by omega), if_neg (by omega)]
  -- every element of the new heap is an element of the old heap
  have hall : ∀ P : α → Prop, (∀ x, x < m → P (at' b (lo + x))) → ∀ x, x < m - 1 → P (at' s (lo + x)) := by
    intro P hP x hx
    have : SegAll lo (lo + (m - 1)) P (b.swapIfInBounds lo (lo + (m - 1))) := by
      intro i h1 h2
      rw [hsw]
      by_cases e : i = lo
      · rw [if_pos e]; exact hP (m - 1) (by omega)
      · rw [if_neg e, if_neg (by omega)]
        have := hP (i - lo) (by omega)
        rwa [show lo + (i - lo) = i by omega] at this
    exact f.all P this (lo + x) (by omega) (by omega)
  refine ⟨p.frame.trans (fsw.trans (f.mono (Nat.le_refl _) (by omega))), hh, ?_, ?_⟩
  · intro i j h1 h2 h3
    by_cases e : i = lo + (m - 1)
    · subst e
      rw [hroot]
      have := hrest (j - lo) (by omega)
      rw [show lo + (j - lo) = j by omega] at this
      rw [this]
      have := p.le 0 (j - lo) (by omega) (by omega) (by omega)
      rwa [show lo + (j - lo) = j by omega, Nat.add_zero] at this
    · have e1 := hrest (i - lo) (by omega)
      have e2 := hrest (j - lo) (by omega)
      rw [show lo + (i - lo) = i by omega] at e1
      rw [show lo + (j - lo) = j by omega] at e2
      rw [e1, e2]
      exact p.sorted i j (by omega) h2 h3
  · intro x y hx hy hyh
    by_cases e : y = m - 1
    · subst e
      rw [hroot]
      exact hall (fun v => lt (at' b lo) v = false) (fun x hx => rmax x hx) x hx
    · rw [hrest y (by omega)]
      exact hall (fun v => lt (at' b (lo + y)) v = false) (fun x hx => p.le x y hx (by omega) hyh) x hx

theorem PopInv.finish {lo hi : Nat} {a b : Array α} {m : Nat} (p : PopInv lt lo hi a m b) (hm : m ≤ 1) :
    Frame lo hi a b ∧ Sorted lt lo hi b := by
  refine ⟨p.frame, fun i j h1 h2 h3 => ?_⟩
  by_cases e : lo + m ≤ i
  · exact p.sorted i j e h2 h3
  · have hi0 : i = lo := by omega
    subst hi0
    have := p.le 0 (j - i) (by omega) (by omega) (by omega)
    rwa [show i + (j - i) = j by omega, Nat.add_zero] at this

theorem heapsort_spec (h : SWO lt) : HeapsortSpec lt := by
  intro a0 lo hi a
  have hSD := fun lo len node b => siftDown_spec (a0 := a0) lt h lo len node node b
  mvcgen [heapsort, swp, hSD]
  case inv1 =>
    exact ⇓ ⟨xs, _⟩ s => ⌜Frame lo hi a s.val ∧ HeapFrom lt lo (hi - lo) ((hi - lo) / 2 - xs.prefix.length) s.val⌝
  case inv2 =>
    exact ⇓ ⟨xs, _⟩ s => ⌜PopInv lt lo hi a (hi - lo - xs.prefix.length) s.val⌝
  case vc1 =>
    rename_i len s0 hpre pref cur suff hsplit u s hinv
    have hr := range_split hsplit
    obtain ⟨rfl, hsz⟩ := hpre
    vc_simp at hinv ⊢
    have hHi : PS_heapBuildHi len = (hi - lo) / 2 := rfl
    have hLo : PS_heapBuildLo len = 0 := rfl
    rw [hHi, hLo] at hr
    rw [hHi]
    have hs : s.val.size = s0.val.size := hinv.1.size
    refine ⟨⟨fun i h1 h2 hne => hinv.2 i (by omega) h2, fun q h1 h2 => by omega⟩, Nat.le_refl _, by show lo + (hi - lo) ≤ _; omega⟩
  case vc2 =>
    rename_i len s0 hpre pref cur suff hsplit u s1 hinv r s hpost
    have hr := range_split hsplit
    obtain ⟨rfl, hsz⟩ := hpre
    vc_simp at hinv ⊢
    have hHi : PS_heapBuildHi len = (hi - lo) / 2 := rfl
    have hLo : PS_heapBuildLo len = 0 := rfl
    rw [hHi, hLo] at hr
    rw [hHi] at hpost
    refine ⟨hinv.1.trans (hpost.1.mono (Nat.le_refl _) (by show lo + (hi - lo) ≤ hi; omega)), ?_⟩
    have e : (hi - lo) / 2 - (pref.length + 1) = (hi - lo) / 2 - 1 - cur := by omega
    rw [e]; exact hpost.2
  case vc3 =>
    rename_i len s hpre
    obtain ⟨rfl, hsz⟩ := hpre
    vc_simp
    exact ⟨Frame.refl _ _ _, fun i h1 h2 => ⟨fun h3 => by omega, fun h3 => by omega⟩⟩
  case vc4 =>
    rename_i len s0 hpre u1 s1 hb pref cur suff hsplit u i s hinv t
    have hr := range_split hsplit
    obtain ⟨rfl, hsz⟩ := hpre
    vc_simp at hinv ⊢
    have hHi : PS_heapPopHi len = hi - lo := rfl
    have hLo : PS_heapPopLo len = 1 := rfl
    rw [hHi, hLo] at hr
    have hi' : i = hi - lo - pref.length - 1 := by show PS_heapPopHi len - 1 - cur = _; rw [hHi]; omega
    have hs : s.val.size = s0.val.size := hinv.frame.size
    have := hinv.swap_sift lt (by omega) (by omega) (by omega)
    rw [show hi - lo - pref.length - 1 = i from hi'.symm] at this
    exact ⟨this, Nat.le_refl _, by show lo + i ≤ (s.val.swapIfInBounds _ _).size; simp; omega⟩
  case vc5 =>
    rename_i len s0 hpre u1 s1 hb pref cur suff hsplit u i s2 hinv t r s hpost
    have hr := range_split hsplit
    obtain ⟨rfl, hsz⟩ := hpre
    vc_simp at hinv ⊢
    have hHi : PS_heapPopHi len = hi - lo := rfl
    have hLo : PS_heapPopLo len = 1 := rfl
    rw [hHi, hLo] at hr
    have hi' : i = hi - lo - pref.length - 1 := by show PS_heapPopHi len - 1 - cur = _; rw [hHi]; omega
    have hs : s2.val.size = s0.val.size := hinv.frame.size
    have ht : t.snd.val = s2.val.swapIfInBounds lo (lo + (hi - lo - pref.length - 1)) := by
      show s2.val.swapIfInBounds lo (lo + i) = _; rw [hi']
    rw [hi', ht] at hpost
    have := hinv.next lt h (by omega) (by omega) (by omega) hpost.1 hpost.2
    rw [show hi - lo - (pref.length + 1) = hi - lo - pref.length - 1 by omega]
    exact this
  case vc6 =>
    rename_i len s0 hpre u s hb
    obtain ⟨rfl, hsz⟩ := hpre
    vc_simp at hb ⊢
    have hHi : PS_heapBuildHi len = (hi - lo) / 2 := rfl
    have hLo : PS_heapBuildLo len = 0 := rfl
    rw [hHi, hLo] at hb
    refine ⟨hb.1, ?_, fun i j h1 h2 h3 => by omega, fun x y h1 h2 h3 => by omega⟩
    have := hb.2
    rw [show (hi - lo) / 2 - ((hi - lo) / 2 - 0) = 0 by omega] at this
    exact this
  case vc7 =>
    rename_i len s0 hpre u1 s1 hb u s hinv
    vc_simp at hinv
    have hHi : PS_heapPopHi len = hi - lo := rfl
    have hLo : PS_heapPopLo len = 1 := rfl
    rw [hHi, hLo] at hinv
    exact hinv.finish lt (by omega)
end NucleoVerif.PS
