import NucleoVerif.Lemmas.SortRec
open Std.Do
namespace NucleoVerif.PS
open Gen
set_option mvcgen.warning false
set_option linter.unusedSectionVars false
set_option linter.unusedVariables false
variable {α : Type} [Inhabited α] {a0 : Array α} (lt : α → α → Bool)

/-- facts kept by `partition_equal`: `v[..l)` is not greater than the pivot, `v[r..)` is -/
def PEFacts (lo hi : Nat) (a : Array α) (p : α) (l r : Nat) (b : Array α) : Prop :=
  Frame lo hi a b ∧ at' b lo = p ∧ l ≤ r ∧ r ≤ hi - (lo + 1) ∧ lo < hi ∧ hi ≤ b.size ∧
  (∀ i, i < l → lt p (at' b (lo + 1 + i)) = false) ∧
  (∀ i, r ≤ i → i < hi - (lo + 1) → lt p (at' b (lo + 1 + i)) = true)

theorem at_swap_left (a : Array α) (i j : Nat) (hi : i < a.size) (hj : j < a.size) : at' (a.swapIfInBounds i j) i = at' a j := by
  rw [at_swap a i j i hi hj, if_pos rfl]

theorem PEFacts.init (h : SWO lt) (lo hi pivotIdx : Nat) (a : Array α) (hsz : hi ≤ a.size) (hp : lo + pivotIdx < hi) :
    PEFacts lt lo hi a (at' a (lo + pivotIdx)) 0 (hi - (lo + 1)) (a.swapIfInBounds lo (lo + pivotIdx)) := by
  refine ⟨Frame.swap lo hi a lo (lo + pivotIdx) (Nat.le_refl _) (by omega) (by omega) hp, ?_, by omega, Nat.le_refl _, by omega, by simpa using hsz, ?_, ?_⟩
  · exact at_swap_left a lo (lo + pivotIdx) (by omega) (by omega)
  · intro i hi'; omega
  · intro i h1 h2; omega

theorem PEFacts.stepL {lo hi : Nat} {a b : Array α} {p : α} {l r : Nat} (f : PEFacts lt lo hi a p l r b) (hlr : l < r)
    (hc : lt p (at' b (lo + 1 + l)) = false) : PEFacts lt lo hi a p (l + 1) r b := by
  obtain ⟨f1, f2, f3, f4, f5, f6, f7, f8⟩ := f
  refine ⟨f1, f2, by omega, f4, f5, f6, fun i hi' => ?_, f8⟩
  by_cases e : i = l
  · subst e; exact hc
  · exact f7 i (by omega)

theorem PEFacts.stepR {lo hi : Nat} {a b : Array α} {p : α} {l r : Nat} (f : PEFacts lt lo hi a p l r b) (hlr : l < r)
    (hc : lt p (at' b (lo + 1 + r - 1)) = true) : PEFacts lt lo hi a p l (r - 1) b := by
  obtain ⟨f1, f2, f3, f4, f5, f6, f7, f8⟩ := f
  refine ⟨f1, f2, by omega, by omega, f5, f6, f7, fun i h1 h2 => ?_⟩
  by_cases e : i = r - 1
  · subst e
    have e2 : lo + 1 + (r - 1) = lo + 1 + r - 1 := by omega
    rw [e2]; exact hc
  · exact f8 i (by omega) h2

theorem PEFacts.swap {lo hi : Nat} {a b : Array α} {p : α} {l r : Nat} (f : PEFacts lt lo hi a p l r b) (hlr : l < r)
    (hc1 : lt p (at' b (lo + 1 + l)) = true) (hc2 : lt p (at' b (lo + 1 + r - 1)) = false) :
    PEFacts lt lo hi a p (l + 1) (r - 1) (b.swapIfInBounds (lo + 1 + l) (lo + 1 + (r - 1))) := by
  obtain ⟨f1, f2, f3, f4, f5, f6, f7, f8⟩ := f
  have e2 : lo + 1 + (r - 1) = lo + 1 + r - 1 := by omega
  have hne : l ≠ r - 1 := by
    intro e
    have : lo + 1 + l = lo + 1 + r - 1 := by omega
    rw [this, hc2] at hc1; cases hc1
  have hsw := fun k => at_swap b (lo + 1 + l) (lo + 1 + (r - 1)) k (by omega) (by omega)
  refine ⟨f1.trans (Frame.swap lo hi b _ _ (by omega) (by omega) (by omega) (by omega)), ?_, by omega, by omega, f5, by simpa using f6, ?_, ?_⟩
  · rw [hsw lo, if_neg (by omega), if_neg (by omega)]; exact f2
  · intro i hi'
    rw [hsw]
    by_cases e : i = l
    · subst e; rw [if_pos rfl, e2]; exact hc2
    · rw [if_neg (by omega), if_neg (by omega)]; exact f7 i (by omega)
  · intro i h1 h2
    rw [hsw]
    by_cases e : i = r - 1
    · subst e; rw [if_neg (by omega), if_pos rfl]; exact hc1
    · rw [if_neg (by omega), if_neg (by omega)]; exact f8 i (by omega) h2

theorem PEFacts.exit (h : SWO lt) {lo hi : Nat} {a b : Array α} {p : α} {l r : Nat} (f : PEFacts lt lo hi a p l r b) (hlr : l ≥ r) :
    EqPost lt lo hi a p (l + 1) b := by
  obtain ⟨f1, f2, f3, f4, f5, f6, f7, f8⟩ := f
  refine ⟨f1, by omega, by omega, fun i h1 h2 => ?_, fun i h1 h2 => ?_⟩
  · by_cases e : i = lo
    · subst e; rw [f2]; exact h.irrefl p
    · have := f7 (i - (lo + 1)) (by omega)
      have e2 : lo + 1 + (i - (lo + 1)) = i := by omega
      rwa [e2] at this
  · have := f8 (i - (lo + 1)) (by omega) (by omega)
    have e2 : lo + 1 + (i - (lo + 1)) = i := by omega
    rwa [e2] at this

theorem partitionEqual_spec (h : SWO lt) (lo hi pivotIdx : Nat) (a : Array α) :
   ⦃fun s => ⌜s.val = a ∧ hi ≤ a.size ∧ lo + pivotIdx < hi⌝⦄
   (partitionEqual (a0 := a0) lt lo hi pivotIdx)
   ⦃⇓ mid s => ⌜EqPost lt lo hi a (at' a (lo + pivotIdx)) mid s.val⌝⦄ := by
  mvcgen [partitionEqual, rd, swp]
  case inv1 =>
    exact ⇓ ⟨xs, ⟨l, r⟩⟩ s => ⌜PEFacts lt lo hi a (at' a (lo + pivotIdx)) l r s.val ∧
      ((xs.suffix.length = 0 ∧ l ≥ r) ∨ r - l + xs.prefix.length ≤ hi - lo - 1)⌝
  case inv2 =>
    rename_i b _ _ s hinv
    exact ⇓ ⟨xs, l'⟩ s => ⌜PEFacts lt lo hi a (at' a (lo + pivotIdx)) l' b.2 s.val ∧ b.1 ≤ l' ∧
      ((xs.suffix.length = 0 ∧ (l' ≥ b.2 ∨ lt (at' a (lo + pivotIdx)) (at' s.val (lo + 1 + l')) = true)) ∨ xs.prefix.length ≤ l')⌝
  case inv3 =>
    rename_i b _ _ s1 hinv l' s hinv2
    exact ⇓ ⟨xs, r'⟩ s => ⌜PEFacts lt lo hi a (at' a (lo + pivotIdx)) l' r' s.val ∧ b.1 ≤ l' ∧ r' ≤ b.2 ∧
      (l' ≥ r' ∨ lt (at' a (lo + pivotIdx)) (at' s.val (lo + 1 + l')) = true) ∧
      ((xs.suffix.length = 0 ∧ (l' ≥ r' ∨ lt (at' a (lo + pivotIdx)) (at' s.val (lo + 1 + r' - 1)) = false)) ∨
        r' + xs.prefix.length ≤ hi - lo - 1)⌝
  case vc1 =>
    rename_i s0 hpre t vlo r0 pref1 cur1 suff1 hsplit1 b l r s1 hinv1 pref cur suff hsplit b' s hinv2 hc l'
    have hr := range_split hsplit
    obtain ⟨rfl, hsz, hpv⟩ := hpre
    have hp : t.snd.val.getD lo default = at' s0.val (lo + pivotIdx) := at_swap_left s0.val lo (lo + pivotIdx) (by omega) (by omega)
    vc_simp at hinv2 ⊢
    obtain ⟨f, h1, h2⟩ := hinv2
    have hc2 : lt (at' s0.val (lo + pivotIdx)) (at' s.val (lo + 1 + b')) = false := by
      have := hc.2; rw [hp] at this; simpa using this
    have hlt : b' < b.2 := hc.1
    exact ⟨f.stepL lt hlt hc2, by show b.1 ≤ b' + 1; omega, Or.inr (by show pref.length + 1 ≤ b' + 1; omega)⟩
  case vc2 =>
    rename_i s0 hpre t vlo r0 pref1 cur1 suff1 hsplit1 b l r s1 hinv1 pref cur suff hsplit b' s hinv2 hc
    obtain ⟨rfl, hsz, hpv⟩ := hpre
    have hp : t.snd.val.getD lo default = at' s0.val (lo + pivotIdx) := at_swap_left s0.val lo (lo + pivotIdx) (by omega) (by omega)
    vc_simp at hinv2 ⊢
    obtain ⟨f, h1, h2⟩ := hinv2
    refine ⟨f, h1, Or.inl ?_⟩
    by_cases hlt : b' < b.2
    · right
      cases hl : lt (at' s0.val (lo + pivotIdx)) (at' s.val (lo + 1 + b')) with
      | true => rfl
      | false =>
        exfalso; apply hc; refine ⟨hlt, ?_⟩
        rw [hp]; show (!lt (at' s0.val (lo + pivotIdx)) (at' s.val (lo + 1 + b'))) = true
        rw [hl]; rfl
    · left; omega
  case vc3 =>
    rename_i s0 hpre t vlo r0 pref1 cur1 suff1 hsplit1 b l r s1 hinv1
    obtain ⟨rfl, hsz, hpv⟩ := hpre
    vc_simp at hinv1 ⊢
    exact ⟨hinv1.1, Nat.le_refl _, Or.inr (Nat.zero_le _)⟩
  case vc4 =>
    rename_i s0 hpre t vlo r0 pref1 cur1 suff1 hsplit1 b l r s1 hinv1 l' s2 hinv2 pref cur suff hsplit b' s hinv3 hc r'
    have hr := range_split hsplit
    obtain ⟨rfl, hsz, hpv⟩ := hpre
    have hp : t.snd.val.getD lo default = at' s0.val (lo + pivotIdx) := at_swap_left s0.val lo (lo + pivotIdx) (by omega) (by omega)
    vc_simp at hinv3 ⊢
    obtain ⟨f, h1, h2, h3, h4⟩ := hinv3
    have hc2 : lt (at' s0.val (lo + pivotIdx)) (at' s.val (lo + 1 + b' - 1)) = true := by
      have := hc.2; rw [hp] at this; exact this
    have hlt : l' < b' := hc.1
    refine ⟨f.stepR lt hlt hc2, h1, by show b' - 1 ≤ b.2; omega, ?_, Or.inr (by show b' - 1 + (pref.length + 1) ≤ hi - lo - 1; omega)⟩
    rcases h3 with h3 | h3
    · omega
    · exact Or.inr h3
  case vc5 =>
    rename_i s0 hpre t vlo r0 pref1 cur1 suff1 hsplit1 b l r s1 hinv1 l' s2 hinv2 pref cur suff hsplit b' s hinv3 hc
    obtain ⟨rfl, hsz, hpv⟩ := hpre
    have hp : t.snd.val.getD lo default = at' s0.val (lo + pivotIdx) := at_swap_left s0.val lo (lo + pivotIdx) (by omega) (by omega)
    vc_simp at hinv3 ⊢
    obtain ⟨f, h1, h2, h3, h4⟩ := hinv3
    refine ⟨f, h1, h2, h3, Or.inl ?_⟩
    by_cases hlt : l' < b'
    · right
      cases hl : lt (at' s0.val (lo + pivotIdx)) (at' s.val (lo + 1 + b' - 1)) with
      | false => rfl
      | true =>
        exfalso; apply hc; refine ⟨hlt, ?_⟩
        rw [hp]; exact hl
    · left; omega
  case vc6 =>
    rename_i s0 hpre t vlo r0 pref1 cur1 suff1 hsplit1 b l r s1 hinv1 l' s hinv2
    obtain ⟨rfl, hsz, hpv⟩ := hpre
    vc_simp at hinv2 ⊢
    obtain ⟨f, h1, h2⟩ := hinv2
    have f4 := f.2.2.2.1
    have f3 := f.2.2.1
    refine ⟨f, h1, Nat.le_refl _, ?_, Or.inr (by show b.2 ≤ hi - lo - 1; omega)⟩
    rcases h2 with h2 | h2
    · exact h2
    · exfalso; omega
  case vc7 =>
    rename_i s0 hpre t vlo r0 pref1 cur1 suff1 hsplit1 b l r s1 hinv1 l' s2 hinv2 r' hge s hinv3
    obtain ⟨rfl, hsz, hpv⟩ := hpre
    vc_simp at hinv3 ⊢
    exact ⟨hinv3.1, Or.inl hge⟩
  case vc8 =>
    rename_i s0 hpre t0 vlo r0 pref1 cur1 suff1 hsplit1 b l r s1 hinv1 l' s2 hinv2 r' hge r'' s hinv3 t l''
    have hr := range_split hsplit1
    obtain ⟨rfl, hsz, hpv⟩ := hpre
    vc_simp at hinv1 hinv3 ⊢
    obtain ⟨f, h1, h2, h3, h4⟩ := hinv3
    have hlt : l' < r' := by omega
    have c1 : lt (at' s0.val (lo + pivotIdx)) (at' s.val (lo + 1 + l')) = true := by
      rcases h3 with h3 | h3
      · omega
      · exact h3
    have c2 : lt (at' s0.val (lo + pivotIdx)) (at' s.val (lo + 1 + r' - 1)) = false := by
      rcases h4 with ⟨h4 | h4⟩ | h4
      · omega
      · exact h4
      · have f4 := f.2.2.2.1; omega
    refine ⟨f.swap lt hlt c1 c2, Or.inr ?_⟩
    have := hinv1.2
    show r' - 1 - (l' + 1) + (pref1.length + 1) ≤ hi - lo - 1
    omega
  case vc9 =>
    rename_i s hpre t vlo r0
    obtain ⟨rfl, hsz, hpv⟩ := hpre
    vc_simp
    exact ⟨PEFacts.init lt h lo hi pivotIdx s.val hsz hpv, by show hi - (lo + 1) ≤ hi - lo - 1; omega⟩
  case vc10 =>
    rename_i s0 hpre t vlo r0 b l s hinv1
    obtain ⟨rfl, hsz, hpv⟩ := hpre
    vc_simp at hinv1
    obtain ⟨f, h1⟩ := hinv1
    rcases h1 with h1 | h1
    · exact f.exit lt h h1
    · have f3 := f.2.2.1
      exact f.exit lt h (by omega)
end NucleoVerif.PS
