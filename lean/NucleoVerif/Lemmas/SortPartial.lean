import NucleoVerif.Lemmas.SortRec
open Std.Do
namespace NucleoVerif.PS
open Gen
set_option mvcgen.warning false
set_option linter.unusedSectionVars false
set_option linter.unusedVariables false
variable {α : Type} [Inhabited α] {a0 : Array α} (lt : α → α → Bool)

theorem shiftHead_spec (lo hi : Nat) (a : Array α) :
   ⦃fun s => ⌜s.val = a⌝⦄ (shiftHead (a0 := a0) lt lo hi) ⦃⇓ _ s => ⌜Frame lo hi a s.val⌝⦄ := by
  mvcgen [shiftHead, rd, swp]
  case inv1 => exact ⇓ ⟨xs, i⟩ s => ⌜Frame lo hi a s.val ∧ lo ≤ i⌝
  case vc1 =>
    rename_i s hinv hc t i
    vc_simp at hinv ⊢
    exact ⟨hinv.1.trans (Frame.swap lo hi s.val _ _ hinv.2 (by omega) (by omega) hc.1), by show lo ≤ _ + 1; omega⟩
  case vc2 =>
    rename_i s hinv hc
    vc_simp at hinv ⊢
    exact hinv
  case vc3 =>
    rename_i s hpre
    subst hpre
    vc_simp
    exact ⟨Frame.refl _ _ _, Nat.le_refl _⟩
  case vc4 =>
    rename_i s hinv
    vc_simp at hinv
    exact hinv.1
  case vc5 =>
    rename_i s hpre
    subst hpre
    exact Frame.refl _ _ _

theorem Sorted.snoc (h : SWO lt) {lo i : Nat} {b : Array α} (hs : Sorted lt lo (lo + i) b) (hi1 : 1 ≤ i)
    (hc : lt (at' b (lo + i)) (at' b (lo + i - 1)) = false) : Sorted lt lo (lo + (i + 1)) b := by
  intro p q h1 h2 h3
  by_cases e : q = lo + i
  · subst e
    by_cases e2 : p = lo + i - 1
    · subst e2; exact hc
    · exact h.le_trans _ _ _ (hs p (lo + i - 1) h1 (by omega) (by omega)) hc
  · exact hs p q h1 h2 (by omega)

theorem partialInsertionSort_spec (h : SWO lt) : PartialInsertionSpec lt := by
  intro a0 lo hi a
  have hST := fun lo hi a => shiftTail_spec (a0 := a0) lt h lo hi a
  have hSH := fun lo hi a => shiftHead_spec (a0 := a0) lt lo hi a
  mvcgen [partialInsertionSort, rd, swp, hST, hSH]
  case inv1 =>
    exact ⇓ ⟨xs, ret, i⟩ s => ⌜Frame lo hi a s.val ∧
      ((ret = none ∧ 1 ≤ i ∧ (i ≤ hi - lo ∨ i = 1) ∧ Sorted lt lo (lo + i) s.val) ∨
       (xs.suffix.length = 0 ∧ ∃ r, ret = some r ∧ (r = true → Sorted lt lo hi s.val)))⌝
  case inv2 =>
    exact ⇓ ⟨xs, i⟩ s => ⌜Frame lo hi a s.val ∧ 1 ≤ i ∧ (i ≤ hi - lo ∨ i = 1) ∧ Sorted lt lo (lo + i) s.val⌝
  case vc1 =>
    rename_i len s0 hpre pref1 cur1 suff1 hsplit1 b i0 s1 hinv1 pref cur suff hsplit b' s hinv2 hc i'
    vc_simp at hinv2 ⊢
    obtain ⟨f, h1, hb, h2⟩ := hinv2
    have hlt : b' < hi - lo := hc.1
    refine ⟨f, by show 1 ≤ b' + 1; omega, Or.inl (by show b' + 1 ≤ hi - lo; omega), ?_⟩
    exact h2.snoc lt h h1 (by simpa using hc.2)
  case vc2 =>
    rename_i s hinv2 hc
    vc_simp at hinv2 ⊢
    exact hinv2
  case vc3 =>
    rename_i len s0 hpre pref1 cur1 suff1 hsplit1 b i0 s hinv1
    vc_simp at hinv1 ⊢
    obtain ⟨f, h1, h2, h3, h4⟩ := hinv1
    exact ⟨f, h2, h3, h4⟩
  case vc4 =>
    rename_i len s0 hpre pref1 cur1 suff1 hsplit1 b i0 s1 hinv1 r heq s hinv2
    vc_simp at hinv2 ⊢
    obtain ⟨f, h1, hb, h2⟩ := hinv2
    refine ⟨f, Or.inr ⟨true, rfl, fun _ => ?_⟩⟩
    have e : r = hi - lo := by simpa using heq
    subst e
    intro p q h3 h4 h5
    exact h2 p q h3 h4 (by omega)
  case vc5 =>
    rename_i len s0 hpre pref1 cur1 suff1 hsplit1 b i0 s1 hinv1 r heq hlen s hinv2
    vc_simp at hinv2 ⊢
    exact ⟨hinv2.1, Or.inr ⟨false, rfl, fun e => by cases e⟩⟩
  case vc6 =>
    rename_i len s0 hpre pref1 cur1 suff1 hsplit1 b i0 s1 hinv1 r hne hlen s hinv2 t
    obtain ⟨rfl, hsz⟩ := hpre
    vc_simp at hinv2
    obtain ⟨f, h1, hb, h2⟩ := hinv2
    have hne' : r ≠ hi - lo := by simpa using hne
    have hlen' : ¬ (hi - lo) < PS_SHORTEST_SHIFTING := hlen
    have h50 : PS_SHORTEST_SHIFTING = 50 := rfl
    have hs : s.val.size = s0.val.size := f.size
    refine ⟨trivial, by show lo + r ≤ (s.val.swapIfInBounds _ _).size; simp; omega, ?_⟩
    have ft : Frame (lo + r - 1) (lo + r + 1) s.val (s.val.swapIfInBounds (lo + r - 1) (lo + r)) :=
      Frame.swap _ _ s.val _ _ (Nat.le_refl _) (by omega) (by omega) (by omega)
    exact (h2.mono (Nat.le_refl _) (by omega)).frame_disjoint ft (by omega)
  case vc7 =>
    rename_i len s0 hpre pref1 cur1 suff1 hsplit1 b i0 s1 hinv1 r hne hlen s2 hinv2 t r1 s3 hst r2 s hsh
    obtain ⟨rfl, hsz⟩ := hpre
    vc_simp at hinv2 ⊢
    obtain ⟨f, h1, hb, h2⟩ := hinv2
    have hne' : r ≠ hi - lo := by simpa using hne
    have hlen' : ¬ (hi - lo) < PS_SHORTEST_SHIFTING := hlen
    have h50 : PS_SHORTEST_SHIFTING = 50 := rfl
    have ft : Frame lo hi s2.val (s2.val.swapIfInBounds (lo + r - 1) (lo + r)) :=
      Frame.swap _ _ s2.val _ _ (by omega) (by omega) (by omega) (by omega)
    refine ⟨(f.trans ft).trans ((hst.1.mono (Nat.le_refl _) (by omega)).trans (hsh.mono (by omega) (Nat.le_refl _))), Or.inl ⟨h1, hb, ?_⟩⟩
    exact hst.2.frame_disjoint hsh (by omega)
  case vc8 =>
    rename_i s hpre
    obtain ⟨rfl, hsz⟩ := hpre
    vc_simp
    exact ⟨Frame.refl _ _ _, Or.inl ⟨Nat.le_refl _, Or.inr trivial, fun i j _ _ _ => by omega⟩⟩
  case vc9 =>
    rename_i s0 hpre r ret b hret s hinv
    vc_simp at hinv
    obtain ⟨f, h1⟩ := hinv
    refine ⟨f, fun hb => ?_⟩
    have hret' : r.1 = some b := hret
    rcases h1 with ⟨h1, _⟩ | ⟨r', h1, h2⟩
    · rw [hret'] at h1; cases h1
    · rw [hret'] at h1; cases h1; exact h2 hb
  case vc10 =>
    rename_i s0 hpre r ret hret s hinv
    vc_simp at hinv
    exact ⟨hinv.1, fun e => by cases e⟩
end NucleoVerif.PS
