import NucleoVerif.Lemmas.SortBlocksMain
import NucleoVerif.Lemmas.SortPartEq
open Std.Do
namespace NucleoVerif.PS
open Gen
set_option mvcgen.warning false
set_option linter.unusedSectionVars false
set_option linter.unusedVariables false
variable {α : Type} [Inhabited α] {a0 : Array α} (lt : α → α → Bool)

/-- facts of `partition` before the block partitioning: the pivot sits at `lo`, `v[..l)` is smaller, `v[r..)` is not -/
def PTFacts (lo hi : Nat) (a : Array α) (p : α) (l r : Nat) (b : Array α) : Prop :=
  Frame lo hi a b ∧ at' b lo = p ∧ l ≤ r ∧ r ≤ hi - (lo + 1) ∧ lo < hi ∧ hi ≤ b.size ∧
  (∀ i, i < l → lt (at' b (lo + 1 + i)) p = true) ∧
  (∀ i, r ≤ i → i < hi - (lo + 1) → lt (at' b (lo + 1 + i)) p = false)

theorem PTFacts.init (lo hi pivotIdx : Nat) (a : Array α) (hsz : hi ≤ a.size) (hp : lo + pivotIdx < hi) :
    PTFacts lt lo hi a (at' a (lo + pivotIdx)) 0 (hi - (lo + 1)) (a.swapIfInBounds lo (lo + pivotIdx)) := by
  refine ⟨Frame.swap lo hi a lo (lo + pivotIdx) (Nat.le_refl _) (by omega) (by omega) hp, ?_, by omega, Nat.le_refl _, by omega, by simpa using hsz, ?_, ?_⟩
  · exact at_swap_left a lo (lo + pivotIdx) (by omega) (by omega)
  · intro i hi'; omega
  · intro i h1 h2; omega

theorem PTFacts.stepL {lo hi : Nat} {a b : Array α} {p : α} {l r : Nat} (f : PTFacts lt lo hi a p l r b) (hlr : l < r)
    (hc : lt (at' b (lo + 1 + l)) p = true) : PTFacts lt lo hi a p (l + 1) r b := by
  obtain ⟨f1, f2, f3, f4, f5, f6, f7, f8⟩ := f
  refine ⟨f1, f2, by omega, f4, f5, f6, fun i hi' => ?_, f8⟩
  by_cases e : i = l
  · subst e; exact hc
  · exact f7 i (by omega)

theorem PTFacts.stepR {lo hi : Nat} {a b : Array α} {p : α} {l r : Nat} (f : PTFacts lt lo hi a p l r b) (hlr : l < r)
    (hc : lt (at' b (lo + 1 + r - 1)) p = false) : PTFacts lt lo hi a p l (r - 1) b := by
  obtain ⟨f1, f2, f3, f4, f5, f6, f7, f8⟩ := f
  refine ⟨f1, f2, by omega, by omega, f5, f6, f7, fun i h1 h2 => ?_⟩
  by_cases e : i = r - 1
  · subst e
    have e2 : lo + 1 + (r - 1) = lo + 1 + r - 1 := by omega
    rw [e2]; exact hc
  · exact f8 i (by omega) h2

theorem PTFacts.finish {lo hi : Nat} {a s1 s : Array α} {p : α} {l r k : Nat} (f : PTFacts lt lo hi a p l r s1)
    (bp : BlocksPost lt p (lo + 1 + l) (lo + 1 + r) s1 k s) :
    PartPost lt lo hi a (l + k) (s.swapIfInBounds lo (lo + (l + k))) := by
  obtain ⟨f1, f2, f3, f4, f5, f6, f7, f8⟩ := f
  obtain ⟨g1, g2, g3, g4⟩ := bp
  have hs : hi ≤ s.size := by rw [g1.size]; exact f6
  have hp : at' s lo = p := by rw [g1.out lo (Or.inl (by omega))]; exact f2
  have hT : ∀ j, j < l + k → lt (at' s (lo + 1 + j)) p = true := by
    intro j hj
    by_cases e : j < l
    · rw [g1.out _ (Or.inl (by omega))]; exact f7 j e
    · exact g3 _ (by omega) (by omega)
  have hF : ∀ j, l + k ≤ j → j < hi - (lo + 1) → lt (at' s (lo + 1 + j)) p = false := by
    intro j h1 h2
    by_cases e : j < r
    · exact g4 _ (by omega) (by omega)
    · rw [g1.out _ (Or.inr (by omega))]; exact f8 j (by omega) h2
  have hsw := fun i => at_swap s lo (lo + (l + k)) i (by omega) (by omega)
  have hmid : at' (s.swapIfInBounds lo (lo + (l + k))) (lo + (l + k)) = p := by
    rw [hsw]
    by_cases e : l + k = 0
    · rw [if_pos (by omega)]; rw [show lo + (l + k) = lo by omega]; exact hp
    · rw [if_neg (by omega), if_pos rfl]; exact hp
  refine ⟨f1.trans ((g1.mono (by omega) (by omega)).trans (Frame.swap lo hi s _ _ (Nat.le_refl _) (by omega) (by omega) (by omega))),
    by omega, fun i h1 h2 => ?_, fun i h1 h2 => ?_⟩
  · rw [hmid, hsw]
    by_cases e : i = lo
    · subst e; rw [if_pos rfl]
      have := hT (l + k - 1) (by omega)
      rwa [show i + 1 + (l + k - 1) = i + (l + k) by omega] at this
    · rw [if_neg e, if_neg (by omega)]
      have := hT (i - (lo + 1)) (by omega)
      rwa [show lo + 1 + (i - (lo + 1)) = i by omega] at this
  · rw [hmid, hsw, if_neg (by omega), if_neg (by omega)]
    have := hF (i - (lo + 1)) (by omega) (by omega)
    rwa [show lo + 1 + (i - (lo + 1)) = i by omega] at this

theorem partition_spec (h : SWO lt) : PartitionSpec lt := by
  intro a0 lo hi pivotIdx a
  have hPB := fun p lo hi a => partitionInBlocks_spec (a0 := a0) lt p lo hi a
  mvcgen [partition, rd, swp, hPB]
  case inv1 =>
    exact ⇓ ⟨xs, l⟩ s => ⌜PTFacts lt lo hi a (at' a (lo + pivotIdx)) l (hi - (lo + 1)) s.val⌝
  case inv2 =>
    rename_i l s hinv
    exact ⇓ ⟨xs, r⟩ s => ⌜PTFacts lt lo hi a (at' a (lo + pivotIdx)) l r s.val⌝
  case vc1 =>
    rename_i s0 hpre t vlo n pref cur suff hsplit l s hinv hc l'
    obtain ⟨rfl, hsz, hpv⟩ := hpre
    have hp : t.snd.val.getD lo default = at' s0.val (lo + pivotIdx) := at_swap_left s0.val lo (lo + pivotIdx) (by omega) (by omega)
    vc_simp at hinv ⊢
    have hlt : l < hi - (lo + 1) := hc.1
    exact hinv.stepL lt hlt (by have := hc.2; rw [hp] at this; exact this)
  case vc2 =>
    rename_i s hinv hc
    vc_simp at hinv ⊢
    exact hinv
  case vc3 =>
    rename_i s hpre t vlo n
    obtain ⟨rfl, hsz, hpv⟩ := hpre
    vc_simp
    exact PTFacts.init lt lo hi pivotIdx s.val hsz hpv
  case vc4 =>
    rename_i s0 hpre t vlo n l s1 hinv1 pref cur suff hsplit r s hinv hc r'
    obtain ⟨rfl, hsz, hpv⟩ := hpre
    have hp : t.snd.val.getD lo default = at' s0.val (lo + pivotIdx) := at_swap_left s0.val lo (lo + pivotIdx) (by omega) (by omega)
    vc_simp at hinv ⊢
    exact hinv.stepR lt hc.1 (by have := hc.2; rw [hp, Bool.not_eq_true'] at this; exact this)
  case vc5 =>
    rename_i s hinv hc
    vc_simp at hinv ⊢
    exact hinv
  case vc6 =>
    rename_i s hinv
    vc_simp at hinv ⊢
    exact hinv
  case vc7 =>
    rename_i s0 hpre t vlo n l s1 hinv1 r s hinv
    vc_simp at hinv
    obtain ⟨f1, f2, f3, f4, f5, f6, f7, f8⟩ := hinv
    exact ⟨trivial, by show lo + 1 + l ≤ lo + 1 + r; omega, by show lo + 1 + r ≤ s.val.size; omega⟩
  case vc8 =>
    rename_i s0 hpre t0 vlo n l s1 hinv1 r s2 hinv k mid s hbp t
    obtain ⟨rfl, hsz, hpv⟩ := hpre
    have hp : t0.snd.val.getD lo default = at' s0.val (lo + pivotIdx) := at_swap_left s0.val lo (lo + pivotIdx) (by omega) (by omega)
    vc_simp at hinv
    rw [hp] at hbp
    exact hinv.finish lt hbp
end NucleoVerif.PS
