import NucleoVerif.Lemmas.SortBase
open Std.Do
namespace NucleoVerif.PS
set_option mvcgen.warning false
set_option linter.unusedSectionVars false
set_option linter.unusedVariables false
variable {α : Type} [Inhabited α] {a0 : Array α} (lt : α → α → Bool)

theorem range_split {a b : Nat} {pref suff : List Nat} {cur : Nat} (h : [a:b].toList = pref ++ cur :: suff) :
    cur = a + pref.length ∧ pref.length + 1 + suff.length = b - a := by
  have hl := congrArg List.length h
  rw [List.length_range'] at hl
  simp only [List.length_append, List.length_cons] at hl
  have e1 : (b - a + 1 - 1) / 1 = b - a := by simp
  have hl2 : pref.length + 1 + suff.length = b - a := by omega
  refine ⟨?_, hl2⟩
  have hg : ([a:b].toList)[pref.length]? = some cur := by rw [h]; simp
  rw [List.getElem?_range' (by show pref.length < (b - a + 1 - 1) / 1; omega)] at hg
  have hg' : a + 1 * pref.length = cur := Option.some.inj hg
  omega

/-- invariant of the `shift_tail` loop: the moving element sits at `i` -/
def STInv (lo hi : Nat) (a : Array α) (i : Nat) (b : Array α) (npre nsuf : Nat) : Prop :=
  Frame lo hi a b ∧ lo ≤ i ∧ i < hi ∧
  (∀ p q, lo ≤ p → p < q → q < hi → p ≠ i → q ≠ i → lt (at' b q) (at' b p) = false) ∧
  (∀ q, i < q → q < hi → lt (at' b q) (at' b i) = false) ∧
  ((nsuf = 0 ∧ (i = lo ∨ lt (at' b i) (at' b (i - 1)) = false)) ∨ i + npre = hi - 1)

theorem STInv.init (lo hi : Nat) (a : Array α) (h2 : hi - lo ≥ 2) (hs : Sorted lt lo (hi - 1) a) (n : Nat) :
    STInv lt lo hi a (hi - 1) a 0 n := by
  refine ⟨Frame.refl _ _ _, by omega, by omega, ?_, ?_, Or.inr (by omega)⟩
  · intro p q h1 h3 h4 h5 h6; exact hs p q h1 h3 (by omega)
  · intro q h1 h3; omega

theorem STInv.step (h : SWO lt) (lo hi : Nat) (a b : Array α) (i npre nsuf : Nat) (hsz : hi ≤ a.size)
    (inv : STInv lt lo hi a i b npre (nsuf + 1)) (hi1 : i > lo) (hlt : lt (at' b i) (at' b (i - 1)) = true) :
    STInv lt lo hi a (i - 1) (b.swapIfInBounds i (i - 1)) (npre + 1) nsuf := by
  obtain ⟨f, h1, h2, h3, h4, h5⟩ := inv
  have hb : hi ≤ b.size := by rw [f.size]; exact hsz
  have hsw := fun k => at_swap b i (i - 1) k (by omega) (by omega)
  refine ⟨f.trans (Frame.swap lo hi b i (i - 1) h1 h2 (by omega) (by omega)), by omega, by omega, ?_, ?_, ?_⟩
  · intro p q hp hpq hq hpi hqi
    rw [hsw p, hsw q]
    have := h.asym _ _ hlt
    grind
  · intro q hq1 hq2
    rw [hsw q, hsw (i - 1)]
    have := h.asym _ _ hlt
    grind
  · right
    rcases h5 with ⟨h5, _⟩ | h5
    · omega
    · omega

theorem STInv.exit (h : SWO lt) (lo hi : Nat) (a b : Array α) (i npre : Nat)
    (inv : STInv lt lo hi a i b npre 0) (hn : npre = hi - lo) : Frame lo hi a b ∧ Sorted lt lo hi b := by
  obtain ⟨f, h1, h2, h3, h4, h5⟩ := inv
  refine ⟨f, ?_⟩
  rcases h5 with ⟨_, h5⟩ | h5
  · intro p q hp hpq hq
    by_cases e1 : q = i
    · subst e1
      rcases h5 with h5 | h5
      · omega
      · by_cases e2 : p = q - 1
        · subst e2; exact h5
        · exact h.le_trans _ _ _ (h3 p (q - 1) hp (by omega) (by omega) (by omega) (by omega)) h5
    · by_cases e2 : p = i
      · subst e2; exact h4 q hpq hq
      · exact h3 p q hp hpq hq e2 e1
  · omega

theorem STInv.brk (lo hi : Nat) (a b : Array α) (i npre nsuf : Nat)
    (inv : STInv lt lo hi a i b npre (nsuf + 1)) (hc : ¬ (i > lo ∧ lt (at' b i) (at' b (i - 1)) = true)) (n : Nat) :
    STInv lt lo hi a i b n 0 := by
  obtain ⟨f, h1, h2, h3, h4, h5⟩ := inv
  refine ⟨f, h1, h2, h3, h4, Or.inl ⟨rfl, ?_⟩⟩
  by_cases e : i = lo
  · exact Or.inl e
  · right
    cases hl : lt (at' b i) (at' b (i - 1)) with
    | false => rfl
    | true => exact absurd ⟨by omega, hl⟩ hc

theorem shiftTail_spec (h : SWO lt) (lo hi : Nat) (a : Array α) :
   ⦃fun s => ⌜s.val = a ∧ hi ≤ a.size ∧ Sorted lt lo (hi - 1) a⌝⦄
   (shiftTail (a0 := a0) lt lo hi)
   ⦃⇓ _ s => ⌜Frame lo hi a s.val ∧ Sorted lt lo hi s.val⌝⦄ := by
  mvcgen [shiftTail, rd, swp]
  case inv1 => exact ⇓ ⟨xs, i⟩ s => ⌜STInv lt lo hi a i s.val xs.prefix.length xs.suffix.length⌝
  case vc1 =>
    rename_i h2 _ s1 hpre pref cur suff hsplit b s hinv hcond t i
    simp at hinv ⊢
    exact STInv.step lt h lo hi a s.val b _ _ hpre.2.1 hinv hcond.1 hcond.2
  case vc2 =>
    rename_i h2 _ s1 hpre pref cur suff hsplit b s hinv hcond
    simp at hinv ⊢
    exact STInv.brk lt lo hi a s.val b _ _ hinv (by simpa using hcond) _
  case vc3 =>
    rename_i h2 _ s hpre
    simp
    obtain ⟨rfl, hsz, hs⟩ := hpre
    exact STInv.init lt lo hi _ h2 hs _
  case vc4 =>
    rename_i h2 _ s1 hpre r s hinv
    simp at hinv
    exact STInv.exit lt h lo hi a s.val r _ hinv (by simp)
  case vc5 =>
    rename_i h2 s hpre
    obtain ⟨rfl, hsz, hs⟩ := hpre
    exact ⟨Frame.refl _ _ _, fun i j _ _ _ => by omega⟩

theorem insertionSort_spec (h : SWO lt) (lo hi : Nat) (a : Array α) :
   ⦃fun s => ⌜s.val = a ∧ hi ≤ a.size⌝⦄
   (insertionSort (a0 := a0) lt lo hi)
   ⦃⇓ _ s => ⌜Frame lo hi a s.val ∧ Sorted lt lo hi s.val⌝⦄ := by
  mvcgen [insertionSort, shiftTail_spec]
  case inv1 => exact ⇓ ⟨xs, _⟩ s => ⌜Frame lo hi a s.val ∧ Sorted lt lo (lo + 1 + xs.prefix.length) s.val⌝
  case vc2 =>
    rename_i s1 hpre pref cur suff hsplit b s hinv
    have hr := range_split hsplit
    simp at hinv
    have hsz : s.val.size = a.size := hinv.1.size
    refine ⟨trivial, by omega, ?_⟩
    have e : lo + cur + 1 - 1 = lo + 1 + pref.length := by omega
    rw [e]; exact hinv.2
  case vc3 =>
    rename_i s1 hpre pref cur suff hsplit b s2 hinv r s hpost
    have hr := range_split hsplit
    simp at hinv ⊢
    refine ⟨hinv.1.trans (hpost.1.mono (Nat.le_refl _) (by omega)), ?_⟩
    have e : lo + 1 + (pref.length + 1) = lo + cur + 1 := by omega
    rw [e]; exact hpost.2
  case vc4 =>
    rename_i s hpre
    obtain ⟨rfl, hsz⟩ := hpre
    simp
    exact ⟨Frame.refl _ _ _, fun i j _ _ _ => by omega⟩
  case vc5 =>
    rename_i s1 hpre r s hinv
    simp [Std.Legacy.Range.toList] at hinv
    refine ⟨hinv.1, ?_⟩
    intro i j h1 h2 h3
    exact hinv.2 i j h1 h2 (by omega)
end NucleoVerif.PS
