import NucleoVerif.Lemmas.SortRec
open Std.Do
namespace NucleoVerif.PS
open Gen
set_option mvcgen.warning false
set_option linter.unusedSectionVars false
set_option linter.unusedVariables false
variable {α : Type} [Inhabited α] {a0 : Array α} (lt : α → α → Bool)

theorem cpSort2_lt (v : Nat → α) (x y sw n : Nat) (hx : x < n) (hy : y < n) :
    (cpSort2 lt v x y sw).1 < n ∧ (cpSort2 lt v x y sw).2.1 < n := by
  unfold cpSort2; split <;> exact ⟨by assumption, by assumption⟩

theorem cpSort3_lt (v : Nat → α) (x y z sw n : Nat) (hx : x < n) (hy : y < n) (hz : z < n) :
    (cpSort3 lt v x y z sw).1 < n ∧ (cpSort3 lt v x y z sw).2.1 < n ∧ (cpSort3 lt v x y z sw).2.2.1 < n := by
  unfold cpSort3
  have h1 := cpSort2_lt lt v x y sw n hx hy
  have h2 := cpSort2_lt lt v (cpSort2 lt v x y sw).2.1 z (cpSort2 lt v x y sw).2.2 n h1.2 hz
  have h3 := cpSort2_lt lt v (cpSort2 lt v x y sw).1 (cpSort2 lt v (cpSort2 lt v x y sw).2.1 z (cpSort2 lt v x y sw).2.2).1
    (cpSort2 lt v (cpSort2 lt v x y sw).2.1 z (cpSort2 lt v x y sw).2.2).2.2 n h1.1 h2.1
  exact ⟨h3.1, h3.2, h2.2⟩

theorem choosePivotIdx_lt (v : Nat → α) (len : Nat) (hl : 0 < len) : (choosePivotIdx lt v len).1 < len := by
  unfold choosePivotIdx
  simp only []
  split
  · split
    · rename_i h8 h50
      have h50' : len ≥ 50 := h50
      have r1 := cpSort3_lt lt v (len / 4 * 1 - 1) (len / 4 * 1) (len / 4 * 1 + 1) 0 len (by omega) (by omega) (by omega)
      have r2 := cpSort3_lt lt v (len / 4 * 2 - 1) (len / 4 * 2) (len / 4 * 2 + 1) (cpSort3 lt v (len / 4 * 1 - 1) (len / 4 * 1) (len / 4 * 1 + 1) 0).2.2.2 len (by omega) (by omega) (by omega)
      have r3 := cpSort3_lt lt v (len / 4 * 3 - 1) (len / 4 * 3) (len / 4 * 3 + 1) (cpSort3 lt v (len / 4 * 2 - 1) (len / 4 * 2) (len / 4 * 2 + 1) (cpSort3 lt v (len / 4 * 1 - 1) (len / 4 * 1) (len / 4 * 1 + 1) 0).2.2.2).2.2.2 len (by omega) (by omega) (by omega)
      exact (cpSort3_lt lt v _ _ _ _ len r1.2.1 r2.2.1 r3.2.1).2.1
    · exact (cpSort3_lt lt v _ _ _ _ len (by omega) (by omega) (by omega)).2.1
  · omega

theorem choosePivot_spec : ChoosePivotSpec lt := by
  intro a0 lo hi a
  mvcgen [choosePivot, swp]
  case inv1 => exact ⇓ ⟨xs, _⟩ s => ⌜Frame lo hi a s.val⌝
  case vc1 =>
    rename_i len s hpre aa r hsw
    obtain ⟨rfl, hsz, hlt⟩ := hpre
    exact ⟨Frame.refl _ _ _, choosePivotIdx_lt lt _ (hi - lo) (by omega)⟩
  case vc2 =>
    rename_i len s0 hpre aa r hsw pref cur suff hsplit b s hinv t
    have hr := range_split hsplit
    obtain ⟨rfl, hsz, hlt⟩ := hpre
    vc_simp at hinv ⊢
    have hl : len = hi - lo := rfl
    exact hinv.trans (Frame.swap lo hi s.val _ _ (by omega) (by omega) (by omega) (by omega))
  case vc3 =>
    rename_i len s hpre aa r hsw
    obtain ⟨rfl, hsz, hlt⟩ := hpre
    vc_simp
    exact Frame.refl _ _ _
  case vc4 =>
    rename_i len s0 hpre aa r hsw r2 s hinv
    obtain ⟨rfl, hsz, hlt⟩ := hpre
    vc_simp at hinv
    have hl : len = hi - lo := rfl
    exact ⟨hinv, by omega⟩

theorem nextPow2Go_lt (n : Nat) (hn : 0 < n) : ∀ fuel p, p < 2 * n → nextPow2Go n fuel p < 2 * n := by
  intro fuel
  induction fuel with
  | zero => intro p hp; exact hp
  | succ f ih =>
    intro p hp
    unfold nextPow2Go
    split
    · exact ih _ (by omega)
    · exact hp

theorem nextPow2_lt (n : Nat) (hn : 0 < n) : nextPow2 n < 2 * n := nextPow2Go_lt n hn 70 1 (by omega)

theorem breakPatterns_spec : BreakPatternsSpec (α := α) := by
  intro a0 lo hi a
  mvcgen [breakPatterns, swp]
  case inv1 => exact ⇓ ⟨xs, _⟩ s => ⌜Frame lo hi a s.val⌝
  case inv2 => exact ⇓ ⟨xs, _⟩ s => ⌜Frame lo hi a s.val⌝
  case vc1 | vc2 =>
    rename_i s hinv
    vc_simp at hinv ⊢
    exact hinv
  case vc3 =>
    rename_i s hinv
    vc_simp at hinv ⊢
    exact hinv
  case vc4 =>
    rename_i len h8 _ modulus pos s0 hpre pref cur suff hsplit b s1 hinv1 r _ _ hi32 lo32 other1 _ hge other s hinv t
    have hr := range_split hsplit
    vc_simp at hinv ⊢
    have hl : len = hi - lo := rfl
    have h8' : hi - lo ≥ 8 := h8
    have hm : modulus < 2 * (hi - lo) := nextPow2_lt (hi - lo) (by omega)
    have ho : other1 ≤ modulus - 1 := Nat.and_le_right
    have hge' : other1 ≥ hi - lo := hge
    have hpos : pos = (hi - lo) / 4 * 2 := rfl
    have hoth : other = other1 - (hi - lo) := rfl
    exact hinv.trans (Frame.swap lo hi s.val _ _ (by omega) (by omega) (by omega) (by omega))
  case vc5 =>
    rename_i len h8 _ modulus pos s0 hpre pref cur suff hsplit b s1 hinv1 r _ _ hi32 lo32 other _ hge s hinv t
    have hr := range_split hsplit
    vc_simp at hinv ⊢
    have hl : len = hi - lo := rfl
    have h8' : hi - lo ≥ 8 := h8
    have hge' : ¬ other ≥ hi - lo := hge
    have hpos : pos = (hi - lo) / 4 * 2 := rfl
    exact hinv.trans (Frame.swap lo hi s.val _ _ (by omega) (by omega) (by omega) (by omega))
  case vc6 =>
    rename_i s hpre
    obtain ⟨rfl, hsz⟩ := hpre
    vc_simp
    exact Frame.refl _ _ _
  case vc7 =>
    rename_i s hinv
    vc_simp at hinv
    exact hinv
  case vc8 =>
    rename_i s hpre
    obtain ⟨rfl, hsz⟩ := hpre
    exact Frame.refl _ _ _
end NucleoVerif.PS
