import NucleoVerif.Lemmas.SortParts
open Std.Do
namespace NucleoVerif.PS
open Gen
set_option mvcgen.warning false
set_option linter.unusedSectionVars false
set_option linter.unusedVariables false
variable {α : Type} [Inhabited α] {a0 : Array α} (lt : α → α → Bool)

/-- what `partition` guarantees: the pivot ends at `lo + mid`, smaller elements before it, the others behind -/
def PartPost (lo hi : Nat) (a : Array α) (mid : Nat) (b : Array α) : Prop :=
  Frame lo hi a b ∧ lo + mid < hi ∧
  (∀ i, lo ≤ i → i < lo + mid → lt (at' b i) (at' b (lo + mid)) = true) ∧
  (∀ i, lo + mid < i → i < hi → lt (at' b i) (at' b (lo + mid)) = false)

/-- what `partition_equal` guarantees for the pivot value `pv` -/
def EqPost (lo hi : Nat) (a : Array α) (pv : α) (mid : Nat) (b : Array α) : Prop :=
  Frame lo hi a b ∧ 1 ≤ mid ∧ lo + mid ≤ hi ∧
  (∀ i, lo ≤ i → i < lo + mid → lt pv (at' b i) = false) ∧
  (∀ i, lo + mid ≤ i → i < hi → lt pv (at' b i) = true)

def PartitionSpec : Prop := ∀ (a0 : Array α) (lo hi pivotIdx : Nat) (a : Array α),
   ⦃fun s => ⌜s.val = a ∧ hi ≤ a.size ∧ lo + pivotIdx < hi⌝⦄
   (partition (a0 := a0) lt lo hi pivotIdx)
   ⦃⇓ r s => ⌜PartPost lt lo hi a r.1 s.val⌝⦄

def PartitionEqualSpec : Prop := ∀ (a0 : Array α) (lo hi pivotIdx : Nat) (a : Array α),
   ⦃fun s => ⌜s.val = a ∧ hi ≤ a.size ∧ lo + pivotIdx < hi⌝⦄
   (partitionEqual (a0 := a0) lt lo hi pivotIdx)
   ⦃⇓ mid s => ⌜EqPost lt lo hi a (at' a (lo + pivotIdx)) mid s.val⌝⦄

def ChoosePivotSpec : Prop := ∀ (a0 : Array α) (lo hi : Nat) (a : Array α),
   ⦃fun s => ⌜s.val = a ∧ hi ≤ a.size ∧ lo < hi⌝⦄
   (choosePivot (a0 := a0) lt lo hi)
   ⦃⇓ r s => ⌜Frame lo hi a s.val ∧ r.1 < hi - lo⌝⦄

def PartialInsertionSpec : Prop := ∀ (a0 : Array α) (lo hi : Nat) (a : Array α),
   ⦃fun s => ⌜s.val = a ∧ hi ≤ a.size⌝⦄
   (partialInsertionSort (a0 := a0) lt lo hi)
   ⦃⇓ r s => ⌜Frame lo hi a s.val ∧ (r = true → Sorted lt lo hi s.val)⌝⦄

def BreakPatternsSpec : Prop := ∀ (a0 : Array α) (lo hi : Nat) (a : Array α),
   ⦃fun s => ⌜s.val = a ∧ hi ≤ a.size⌝⦄
   (breakPatterns (a0 := a0) lo hi)
   ⦃⇓ _ s => ⌜Frame lo hi a s.val⌝⦄

def HeapsortSpec : Prop := ∀ (a0 : Array α) (lo hi : Nat) (a : Array α),
   ⦃fun s => ⌜s.val = a ∧ hi ≤ a.size⌝⦄
   (heapsort (a0 := a0) lt lo hi)
   ⦃⇓ _ s => ⌜Frame lo hi a s.val ∧ Sorted lt lo hi s.val⌝⦄

/-- what a call of the `recurse` loop on `v[lo..hi)` guarantees -/
def RecPost (lo hi : Nat) (a : Array α) (r : Bool × Nat) (b : Array α) : Prop :=
  Frame lo hi a b ∧ (r.1 = false → Sorted lt lo hi b) ∧ (hi - lo ≤ PS_MAX_SEQUENTIAL → r.1 = false)

def RecPre (lo hi : Nat) (pred : Option α) (a : Array α) : Prop :=
  hi ≤ a.size ∧ ∀ p, pred = some p → SegAll lo hi (fun x => lt x p = false) a

abbrev RecFn (α : Type) [Inhabited α] (a0 : Array α) := (lo hi : Nat) → Option α → (limit : Nat) → (wasBalanced wasPartitioned : Bool) → (nread : Nat) → M a0 (Bool × Nat)

def RecSpec (rec : RecFn α a0) (bound : Nat) : Prop :=
  ∀ (lo hi : Nat) (pred : Option α) (limit : Nat) (wb wp : Bool) (nread : Nat) (a : Array α),
   ⦃fun s => ⌜s.val = a ∧ hi - lo < bound ∧ RecPre lt lo hi pred a⌝⦄
   (rec lo hi pred limit wb wp nread)
   ⦃⇓ r s => ⌜RecPost lt lo hi a r s.val⌝⦄

theorem Frame.segAll_disjoint {l h l2 h2 : Nat} {a b : Array α} (f : Frame l2 h2 a b) (hd : h ≤ l2 ∨ h2 ≤ l) (P : α → Prop)
    (hP : SegAll l h P a) : SegAll l h P b := by
  intro i h1 h3
  rw [f.out i (by omega)]; exact hP i h1 h3

theorem SegAll.mono {l h l' h' : Nat} {a : Array α} {P : α → Prop} (hP : SegAll l h P a) (h1 : l ≤ l') (h2 : h' ≤ h) : SegAll l' h' P a :=
  fun i hi1 hi2 => hP i (by omega) (by omega)

theorem RecPre.left {lo hi mid : Nat} {pred : Option α} {a b : Array α} (hp : RecPre lt lo hi pred a) (pp : PartPost lt lo hi a mid b) :
    RecPre lt lo (lo + mid) pred b := by
  obtain ⟨f, hm, _, _⟩ := pp
  refine ⟨by rw [f.size]; have := hp.1; omega, fun p hpp => ?_⟩
  exact (f.all _ (hp.2 p hpp)).mono (Nat.le_refl _) (by omega)

theorem RecPre.right {lo hi mid : Nat} {pred : Option α} {a b : Array α} (hp : RecPre lt lo hi pred a) (pp : PartPost lt lo hi a mid b) :
    RecPre lt (lo + mid + 1) hi (some (at' b (lo + mid))) b := by
  obtain ⟨f, hm, _, hr⟩ := pp
  refine ⟨by rw [f.size]; exact hp.1, fun p hpp => ?_⟩
  cases hpp
  intro i h1 h2
  exact hr i (by omega) h2

theorem RecPre.frame {l h l2 h2 : Nat} {pred : Option α} {a b : Array α} (hp : RecPre lt l h pred a) (f : Frame l2 h2 a b)
    (hd : h ≤ l2 ∨ h2 ≤ l) : RecPre lt l h pred b :=
  ⟨by rw [f.size]; exact hp.1, fun p hpp => f.segAll_disjoint hd _ (hp.2 p hpp)⟩

/-- the pivot in the middle, a sorted left part of smaller elements and a sorted right part of the others -/
theorem sorted_of_parts (h : SWO lt) (lo hi mid : Nat) (b : Array α) (pv : α) (hpv : at' b (lo + mid) = pv)
    (hL : SegAll lo (lo + mid) (fun x => lt x pv = true) b) (hR : SegAll (lo + mid + 1) hi (fun x => lt x pv = false) b)
    (sL : Sorted lt lo (lo + mid) b) (sR : Sorted lt (lo + mid + 1) hi b) : Sorted lt lo hi b := by
  intro i j h1 h2 h3
  by_cases hj : j < lo + mid
  · exact sL i j h1 h2 hj
  · by_cases hi' : lo + mid < i
    · exact sR i j (by omega) h2 h3
    · by_cases e1 : i = lo + mid
      · subst e1; rw [hpv]; exact hR j (by omega) h3
      · have hli : lt (at' b i) pv = true := hL i h1 (by omega)
        by_cases e2 : j = lo + mid
        · subst e2; rw [hpv]; exact h.asym _ _ hli
        · have := hR j (by omega) h3
          exact h.asym _ _ (h.lt_of_lt_of_le _ _ _ hli this)

theorem combine_LR (h : SWO lt) {lo hi mid : Nat} {a s1 s2 s3 : Array α} {rL rR : Bool × Nat}
    (pp : PartPost lt lo hi a mid s1) (pL : RecPost lt lo (lo + mid) s1 rL s2) (pR : RecPost lt (lo + mid + 1) hi s2 rR s3) :
    Frame lo hi a s3 ∧ (rL.1 = false → rR.1 = false → Sorted lt lo hi s3) := by
  obtain ⟨f, hm, hl, hr⟩ := pp
  obtain ⟨fL, sL, _⟩ := pL
  obtain ⟨fR, sR, _⟩ := pR
  refine ⟨f.trans ((fL.mono (Nat.le_refl _) (by omega)).trans (fR.mono (by omega) (Nat.le_refl _))), fun e1 e2 => ?_⟩
  have hpv : at' s3 (lo + mid) = at' s1 (lo + mid) := by
    rw [fR.out _ (by omega), fL.out _ (by omega)]
  refine sorted_of_parts lt h lo hi mid s3 _ hpv ?_ ?_ ((sL e1).frame_disjoint fR (by omega)) (sR e2)
  · exact fR.segAll_disjoint (by omega) _ (fL.all _ (fun i h1 h2 => hl i h1 h2))
  · exact fR.all _ (fL.segAll_disjoint (by omega) _ (fun i h1 h2 => hr i (by omega) h2))

theorem combine_RL (h : SWO lt) {lo hi mid : Nat} {a s1 s2 s3 : Array α} {rL rR : Bool × Nat}
    (pp : PartPost lt lo hi a mid s1) (pR : RecPost lt (lo + mid + 1) hi s1 rR s2) (pL : RecPost lt lo (lo + mid) s2 rL s3) :
    Frame lo hi a s3 ∧ (rL.1 = false → rR.1 = false → Sorted lt lo hi s3) := by
  obtain ⟨f, hm, hl, hr⟩ := pp
  obtain ⟨fL, sL, _⟩ := pL
  obtain ⟨fR, sR, _⟩ := pR
  refine ⟨f.trans ((fR.mono (by omega) (Nat.le_refl _)).trans (fL.mono (Nat.le_refl _) (by omega))), fun e1 e2 => ?_⟩
  have hpv : at' s3 (lo + mid) = at' s1 (lo + mid) := by
    rw [fL.out _ (by omega), fR.out _ (by omega)]
  refine sorted_of_parts lt h lo hi mid s3 _ hpv ?_ ?_ (sL e1) ((sR e2).frame_disjoint fL (by omega))
  · exact fL.all _ (fR.segAll_disjoint (by omega) _ (fun i h1 h2 => hl i h1 h2))
  · exact fL.segAll_disjoint (by omega) _ (fR.all _ (fun i h1 h2 => hr i (by omega) h2))

/-- `partition_equal` against the predecessor pivot `p` (every element is `≥ p`, the chosen pivot is `≤ p`), then the
    loop continues on the elements greater than the pivot -/
theorem combine_equal (h : SWO lt) {lo hi mid : Nat} {a s1 s2 : Array α} {p pv : α} {r : Bool × Nat}
    (hp : SegAll lo hi (fun x => lt x p = false) a) (hle : lt p pv = false)
    (ep : EqPost lt lo hi a pv mid s1) (pR : RecPost lt (lo + mid) hi s1 r s2) : RecPost lt lo hi a r s2 := by
  obtain ⟨f, hm1, hm2, hl, hr⟩ := ep
  obtain ⟨fR, sR, cR⟩ := pR
  refine ⟨f.trans (fR.mono (by omega) (Nat.le_refl _)), fun e => ?_, fun hle' => cR (by omega)⟩
  have hp2 : SegAll lo hi (fun x => lt x p = false) s2 := (fR.mono (by omega) (Nat.le_refl _)).all _ (f.all _ hp)
  have hl2 : SegAll lo (lo + mid) (fun x => lt pv x = false) s2 := fR.segAll_disjoint (by omega) _ (fun i h1 h2 => hl i h1 h2)
  have hr2 : SegAll (lo + mid) hi (fun x => lt pv x = true) s2 := fR.all _ (fun i h1 h2 => hr i h1 h2)
  intro i j h1 h2 h3
  by_cases hj : j < lo + mid
  · -- both equal to the pivot:  i ≤ pv ≤ p ≤ j
    have a1 := hl2 i h1 (by omega)      -- ¬ pv < i
    have a2 := hp2 j (by omega) h3      -- ¬ j < p
    exact h.le_trans _ _ _ a1 (h.le_trans _ _ _ hle a2)
  · by_cases hi' : lo + mid ≤ i
    · exact sR e i j hi' h2 h3
    · have a1 := hl2 i h1 (by omega)
      have a2 := hr2 j (by omega) h3
      exact h.asym _ _ (h.lt_of_le_of_lt _ _ _ a1 a2)

theorem recurseSplit_spec (h : SWO lt) (hP : PartitionSpec lt) (hE : PartitionEqualSpec lt)
    (cancelAt : Nat → Bool) (rec : RecFn α a0) (lo hi : Nat) (hrec : RecSpec lt rec (hi - lo))
    (pred : Option α) (limit : Nat) (wb wp : Bool) (nread pivot : Nat) (a : Array α) :
   ⦃fun s => ⌜s.val = a ∧ lo + pivot < hi ∧ RecPre lt lo hi pred a⌝⦄
   (recurseSplit lt cancelAt rec lo hi pred limit wb wp nread pivot)
   ⦃⇓ r s => ⌜RecPost lt lo hi a r s.val⌝⦄ := by
  unfold RecSpec at hrec
  unfold PartitionSpec at hP
  unfold PartitionEqualSpec at hE
  have hP' := hP a0
  have hE' := hE a0
  mvcgen [recurseSplit, rd, hrec, hP', hE']
  -- the `partition_equal` branch
  case vc1 =>
    rename_i x s hpre hne
    subst x
    obtain ⟨rfl, hpv, hp⟩ := hpre
    exact ⟨trivial, hp.1, hpv⟩
  case vc2 =>
    rename_i x s0 hpre hne r s ep
    subst x
    obtain ⟨rfl, hpv, hp⟩ := hpre
    obtain ⟨f, hm1, hm2, hl, hr⟩ := ep
    refine ⟨trivial, by omega, by rw [f.size]; exact hp.1, fun p hpp => ?_⟩
    exact (f.all _ (hp.2 p hpp)).mono (by omega) (Nat.le_refl _)
  case vc3 =>
    rename_i p x s0 hpre hne r1 s1 ep r s
    subst x
    obtain ⟨rfl, hpv, hp⟩ := hpre
    intro pR
    exact combine_equal lt h (hp.2 p rfl) (by simpa using hne) ep pR
  -- `partition`, then the two recursive calls
  case vc4 | vc18 =>
    rename_i x s hpre hne
    subst x
    obtain ⟨rfl, hpv, hp⟩ := hpre
    exact ⟨trivial, hp.1, hpv⟩
  case vc5 | vc19 | vc12 | vc26 =>
    rename_i x s0 hpre hne r _ _ _ s pp hmax hlt
    subst x
    obtain ⟨rfl, hpv, hp⟩ := hpre
    exact ⟨trivial, by have := pp.2.1; omega, hp.left lt pp⟩
  case vc8 | vc22 =>
    rename_i x s0 hpre hne r _ _ _ s pp hmax hlt
    subst x
    obtain ⟨rfl, hpv, hp⟩ := hpre
    exact ⟨trivial, by have := pp.2.1; omega, hp.right lt pp⟩
  case vc6 | vc20 | vc13 | vc27 =>
    rename_i x s0 hpre hne r _ _ _ s1 pp hmax hlt rL s pL
    subst x
    obtain ⟨rfl, hpv, hp⟩ := hpre
    exact ⟨trivial, by have := pp.2.1; omega, (hp.right lt pp).frame lt pL.1 (by omega)⟩
  case vc9 | vc23 =>
    rename_i x s0 hpre hne r _ _ _ s1 pp hmax hlt rR s pR
    subst x
    obtain ⟨rfl, hpv, hp⟩ := hpre
    exact ⟨trivial, by have := pp.2.1; omega, (hp.left lt pp).frame lt pR.1 (by omega)⟩
  case vc7 | vc21 =>
    rename_i x s0 hpre hne r _ _ _ s1 pp hmax hlt rL s2 pL rR s
    subst x
    obtain ⟨rfl, hpv, hp⟩ := hpre
    intro pR
    have hc := combine_LR lt h pp pL pR
    have hm := pp.2.1
    have eL : rL.1 = false := pL.2.2 (by simp only [Nat.max_le] at hmax; omega)
    have eR : rR.1 = false := pR.2.2 (by simp only [Nat.max_le] at hmax; omega)
    exact ⟨hc.1, fun _ => hc.2 eL eR, fun _ => eR⟩
  case vc10 | vc24 =>
    rename_i x s0 hpre hne r _ _ _ s1 pp hmax hlt rR s2 pR rL s
    subst x
    obtain ⟨rfl, hpv, hp⟩ := hpre
    intro pL
    have hc := combine_RL lt h pp pR pL
    have hm := pp.2.1
    have eL : rL.1 = false := pL.2.2 (by simp only [Nat.max_le] at hmax; omega)
    have eR : rR.1 = false := pR.2.2 (by simp only [Nat.max_le] at hmax; omega)
    exact ⟨hc.1, fun _ => hc.2 eL eR, fun _ => eL⟩
  case vc11 | vc25 =>
    rename_i x s0 hpre hne r _ _ _ s1 pp hmax hc
    subst x
    obtain ⟨rfl, hpv, hp⟩ := hpre
    have hm := pp.2.1
    refine ⟨pp.1, fun e => Bool.noConfusion e, fun hle => ?_⟩
    exfalso; apply hmax; simp only [Nat.max_le]; omega
  case vc14 | vc28 =>
    rename_i x s0 hpre hne r _ _ _ s1 pp hmax hc rL s2 pL rR s pR
    subst x
    obtain ⟨rfl, hpv, hp⟩ := hpre
    have hcb := combine_LR lt h pp pL pR
    have hm := pp.2.1
    refine ⟨hcb.1, fun e => ?_, fun hle => ?_⟩
    · simp only [Bool.or_eq_false_iff] at e; exact hcb.2 e.1 e.2
    · exfalso; apply hmax; simp only [Nat.max_le]; omega

theorem RecPre.frame_same {lo hi : Nat} {pred : Option α} {a b : Array α} (hp : RecPre lt lo hi pred a) (f : Frame lo hi a b) :
    RecPre lt lo hi pred b :=
  ⟨by rw [f.size]; exact hp.1, fun p hpp => f.all _ (hp.2 p hpp)⟩

theorem RecPost.frame {lo hi : Nat} {a b c : Array α} {r : Bool × Nat} (f : Frame lo hi a b) (p : RecPost lt lo hi b r c) :
    RecPost lt lo hi a r c := ⟨f.trans p.1, p.2.1, p.2.2⟩

/-- the same, started in any rearrangement `s` of `a[lo..hi)` -/
theorem recurseSplit_spec' (h : SWO lt) (hP : PartitionSpec lt) (hE : PartitionEqualSpec lt)
    (cancelAt : Nat → Bool) (rec : RecFn α a0) (lo hi : Nat) (hrec : RecSpec lt rec (hi - lo))
    (pred : Option α) (limit : Nat) (wb wp : Bool) (nread pivot : Nat) (a : Array α) :
   ⦃fun s => ⌜Frame lo hi a s.val ∧ lo + pivot < hi ∧ RecPre lt lo hi pred s.val⌝⦄
   (recurseSplit lt cancelAt rec lo hi pred limit wb wp nread pivot)
   ⦃⇓ r s => ⌜RecPost lt lo hi a r s.val⌝⦄ := by
  refine (triple_iff _ _ _).2 fun s hp => ?_
  have := (triple_iff _ _ _).1 (recurseSplit_spec lt h hP hE cancelAt rec lo hi hrec pred limit wb wp nread pivot s.val) s ⟨rfl, hp.2.1, hp.2.2⟩
  exact RecPost.frame lt hp.1 this

theorem recursePivot_spec (h : SWO lt) (hP : PartitionSpec lt) (hE : PartitionEqualSpec lt) (hC : ChoosePivotSpec lt)
    (hI : PartialInsertionSpec lt)
    (cancelAt : Nat → Bool) (rec : RecFn α a0) (lo hi : Nat) (hrec : RecSpec lt rec (hi - lo))
    (pred : Option α) (limit : Nat) (wb wp : Bool) (nread : Nat) (a : Array α) :
   ⦃fun s => ⌜s.val = a ∧ lo < hi ∧ RecPre lt lo hi pred a⌝⦄
   (recursePivot lt cancelAt rec lo hi pred limit wb wp nread)
   ⦃⇓ r s => ⌜RecPost lt lo hi a r s.val⌝⦄ := by
  have hS := fun pred limit wb wp nread pivot a => recurseSplit_spec' lt h hP hE cancelAt rec lo hi hrec pred limit wb wp nread pivot a
  unfold ChoosePivotSpec at hC
  unfold PartialInsertionSpec at hI
  have hC' := hC a0
  have hI' := hI a0
  mvcgen [recursePivot, hS, hC', hI']
  case vc1 =>
    rename_i s hpre
    obtain ⟨rfl, hlt, hp⟩ := hpre
    exact ⟨trivial, hp.1, hlt⟩
  case vc2 =>
    rename_i s0 hpre r _ hc s hcp
    obtain ⟨rfl, hlt, hp⟩ := hpre
    exact ⟨trivial, by rw [hcp.1.size]; exact hp.1⟩
  case vc3 =>
    rename_i s0 hpre r _ hc s1 hcp r2 hr2 s hpi
    obtain ⟨rfl, hlt, hp⟩ := hpre
    exact ⟨hcp.1.trans hpi.1, fun _ => hpi.2 hr2, fun _ => rfl⟩
  case vc4 =>
    rename_i s0 hpre r _ hc s1 hcp r2 hr2 s hpi
    obtain ⟨rfl, hlt, hp⟩ := hpre
    have f := hcp.1.trans hpi.1
    exact ⟨f, by omega, hp.frame_same lt f⟩
  case vc5 =>
    rename_i s0 hpre r _ hc s hcp
    obtain ⟨rfl, hlt, hp⟩ := hpre
    exact ⟨hcp.1, by omega, hp.frame_same lt hcp.1⟩

/-- the same, started in any rearrangement of `a[lo..hi)` -/
theorem recursePivot_spec' (h : SWO lt) (hP : PartitionSpec lt) (hE : PartitionEqualSpec lt) (hC : ChoosePivotSpec lt)
    (hI : PartialInsertionSpec lt)
    (cancelAt : Nat → Bool) (rec : RecFn α a0) (lo hi : Nat) (hrec : RecSpec lt rec (hi - lo))
    (pred : Option α) (limit : Nat) (wb wp : Bool) (nread : Nat) (a : Array α) :
   ⦃fun s => ⌜Frame lo hi a s.val ∧ lo < hi ∧ RecPre lt lo hi pred s.val⌝⦄
   (recursePivot lt cancelAt rec lo hi pred limit wb wp nread)
   ⦃⇓ r s => ⌜RecPost lt lo hi a r s.val⌝⦄ := by
  refine (triple_iff _ _ _).2 fun s hp => ?_
  have := (triple_iff _ _ _).1 (recursePivot_spec lt h hP hE hC hI cancelAt rec lo hi hrec pred limit wb wp nread s.val) s ⟨rfl, hp.2.1, hp.2.2⟩
  exact RecPost.frame lt hp.1 this

theorem recurseLoop_spec (h : SWO lt) (hP : PartitionSpec lt) (hE : PartitionEqualSpec lt) (hC : ChoosePivotSpec lt)
    (hI : PartialInsertionSpec lt) (hB : BreakPatternsSpec (α := α)) (hH : HeapsortSpec lt)
    (cancelAt : Nat → Bool) (fuel : Nat) : RecSpec (a0 := a0) lt (recurseLoop lt cancelAt fuel) fuel := by
  induction fuel with
  | zero =>
    intro lo hi pred limit wb wp nread a
    refine (triple_iff _ _ _).2 fun s hp => ?_
    exact absurd hp.2.1 (by omega)
  | succ fuel ih =>
    intro lo hi pred limit wb wp nread a
    have hrec : RecSpec lt (recurseLoop (a0 := a0) lt cancelAt fuel) (hi - lo) ∨ ¬ hi - lo ≤ fuel := by
      by_cases hle : hi - lo ≤ fuel
      · left
        intro lo' hi' pred' limit' wb' wp' nread' a'
        refine (triple_iff _ _ _).2 fun s hp => ?_
        exact (triple_iff _ _ _).1 (ih lo' hi' pred' limit' wb' wp' nread' a') s ⟨hp.1, by omega, hp.2.2⟩
      · exact Or.inr hle
    rcases hrec with hrec | hbad
    · have hS := fun pred limit wb wp nread a => recursePivot_spec' lt h hP hE hC hI cancelAt (recurseLoop lt cancelAt fuel) lo hi hrec pred limit wb wp nread a
      unfold BreakPatternsSpec at hB
      unfold HeapsortSpec at hH
      have hB' := hB a0
      have hH' := hH a0
      have hIS := fun lo hi a => insertionSort_spec (a0 := a0) lt h lo hi a
      mvcgen [recurseLoop, hS, hB', hH', hIS]
      case vc1 | vc3 | vc5 =>
        rename_i s hpre
        obtain ⟨rfl, hf, hp⟩ := hpre
        exact ⟨trivial, hp.1⟩
      case vc2 | vc4 =>
        rename_i s0 hpre r s hpost
        obtain ⟨rfl, hf, hp⟩ := hpre
        exact ⟨hpost.1, fun _ => hpost.2, fun _ => rfl⟩
      case vc6 =>
        rename_i hlen _ _ s0 hpre r s hpost
        obtain ⟨rfl, hf, hp⟩ := hpre
        have hlen' : ¬ (hi - lo) ≤ PS_MAX_INSERTION := hlen
        exact ⟨hpost, by omega, hp.frame_same lt hpost⟩
      case vc7 =>
        rename_i hlen _ _ s hpre
        obtain ⟨rfl, hf, hp⟩ := hpre
        have hlen' : ¬ (hi - lo) ≤ PS_MAX_INSERTION := hlen
        exact ⟨Frame.refl _ _ _, by omega, hp⟩
    · refine (triple_iff _ _ _).2 fun s hp => ?_
      exact absurd hp.2.1 (by omega)
end NucleoVerif.PS
