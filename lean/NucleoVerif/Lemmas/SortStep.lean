import NucleoVerif.Lemmas.SortBlocks
open Std.Do
namespace NucleoVerif.PS
open Gen
set_option mvcgen.warning false
set_option linter.unusedSectionVars false
set_option linter.unusedVariables false
variable {α : Type} [Inhabited α] {a0 : Array α} (lt : α → α → Bool)

/-- invariant of the main loop of `partition_in_blocks` between iterations -/
structure PibInv (p : α) (lo hi : Nat) (a : Array α) (st : PibState) (b : Array α) : Prop where
  frame : Frame lo hi a b
  hsz : hi ≤ b.size
  hl : lo ≤ st.l
  hlr : st.l ≤ st.r
  hr : st.r ≤ hi
  ltL : ∀ i, lo ≤ i → i < st.l → lt (at' b i) p = true
  geR : ∀ i, st.r ≤ i → i < hi → lt (at' b i) p = false
  sL : st.startL ≤ st.offsL.size
  sR : st.startR ≤ st.offsR.size
  pendL : st.startL < st.offsL.size → ScanL lt p b st.l st.blockL st.offsL st.startL ∧ st.l + st.blockL ≤ st.r
  pendR : st.startR < st.offsR.size → ScanR lt p b st.r st.blockR st.offsR st.startR ∧ st.l + st.blockR ≤ st.r
  one : ¬ (st.startL < st.offsL.size ∧ st.startR < st.offsR.size)

/-- both blocks are scanned and do not overlap (state in the middle of an iteration) -/
structure Mid (p : α) (lo hi : Nat) (a : Array α) (st : PibState) (b : Array α) (done : Bool) : Prop where
  frame : Frame lo hi a b
  hsz : hi ≤ b.size
  hl : lo ≤ st.l
  hr : st.r ≤ hi
  ltL : ∀ i, lo ≤ i → i < st.l → lt (at' b i) p = true
  geR : ∀ i, st.r ≤ i → i < hi → lt (at' b i) p = false
  sL : st.startL ≤ st.offsL.size
  sR : st.startR ≤ st.offsR.size
  scanL : ScanL lt p b st.l st.blockL st.offsL st.startL
  scanR : ScanR lt p b st.r st.blockR st.offsR st.startR
  sep : st.l + st.blockL + st.blockR ≤ st.r
  sepEq : done = true → st.l + st.blockL + st.blockR = st.r
  big : done = false → st.blockL = PS_BLOCK ∧ st.blockR = PS_BLOCK

/-- after the last iteration: what is left of a block fills the gap exactly -/
def Fin (st : PibState) : Prop :=
  (st.startL < st.offsL.size → st.l + st.blockL = st.r) ∧ (st.startR < st.offsR.size → st.l + st.blockR = st.r) ∧
  (¬ st.startL < st.offsL.size → ¬ st.startR < st.offsR.size → st.l = st.r)

theorem ScanL.all_lt {p : α} {b : Array α} {l bl : Nat} {offs : Array Nat} {m : Nat} (h : ScanL lt p b l bl offs m) (hm : offs.size ≤ m)
    (k : Nat) (hk : k < bl) : lt (at' b (l + k)) p = true := by
  cases hc : lt (at' b (l + k)) p with
  | true => rfl
  | false => obtain ⟨i, h1, h2, _⟩ := (h.cls k hk).1 hc; omega

theorem ScanR.all_ge {p : α} {b : Array α} {r br : Nat} {offs : Array Nat} {m : Nat} (h : ScanR lt p b r br offs m) (hm : offs.size ≤ m)
    (k : Nat) (hk : k < br) : lt (at' b (r - 1 - k)) p = false := by
  cases hc : lt (at' b (r - 1 - k)) p with
  | false => rfl
  | true => obtain ⟨i, h1, h2, _⟩ := (h.cls k hk).1 hc; omega

theorem pibAdvance_eq (st : PibState) :
    (pibAdvance st).l = (if st.startL = st.offsL.size then st.l + st.blockL else st.l) ∧
    (pibAdvance st).r = (if st.startR = st.offsR.size then st.r - st.blockR else st.r) ∧
    (pibAdvance st).blockL = st.blockL ∧ (pibAdvance st).blockR = st.blockR ∧ (pibAdvance st).offsL = st.offsL ∧
    (pibAdvance st).startL = st.startL ∧ (pibAdvance st).offsR = st.offsR ∧ (pibAdvance st).startR = st.startR := by
  unfold pibAdvance
  by_cases eL : st.startL = st.offsL.size <;> by_cases eR : st.startR = st.offsR.size <;> simp [eL, eR]

theorem Mid.finish {p : α} {lo hi : Nat} {a b : Array α} {st : PibState} {done : Bool} (m : Mid lt p lo hi a st b done)
    (hex : st.startL = st.offsL.size ∨ st.startR = st.offsR.size) :
    PibInv lt p lo hi a (pibAdvance st) b ∧ (done = true → Fin (pibAdvance st)) ∧
    (done = false → (pibAdvance st).blockL = PS_BLOCK ∧ (pibAdvance st).blockR = PS_BLOCK ∧
       (pibAdvance st).r - (pibAdvance st).l + PS_BLOCK ≤ st.r - st.l) := by
  have hB : PS_BLOCK = 128 := rfl
  obtain ⟨frame, hsz, hl, hr, ltL, geR, sL, sR, scanL, scanR, sep, sepEq, big⟩ := m
  obtain ⟨e1, e2, e3, e4, e5, e6, e7, e8⟩ := pibAdvance_eq st
  generalize pibAdvance st = st' at *
  have ltL' : ∀ i, lo ≤ i → i < st'.l → lt (at' b i) p = true := by
    intro i h1 h2
    by_cases e : i < st.l
    · exact ltL i h1 e
    · rw [e1] at h2
      split at h2
      · rename_i eL
        have := scanL.all_lt lt (by omega) (i - st.l) (by omega)
        rwa [show st.l + (i - st.l) = i by omega] at this
      · omega
  have geR' : ∀ i, st'.r ≤ i → i < hi → lt (at' b i) p = false := by
    intro i h1 h2
    by_cases e : st.r ≤ i
    · exact geR i e h2
    · rw [e2] at h1
      split at h1
      · rename_i eR
        have := scanR.all_ge lt (by omega) (st.r - 1 - i) (by omega)
        rwa [show st.r - 1 - (st.r - 1 - i) = i by omega] at this
      · omega
  have hl' : st'.l = st.l ∨ (st.startL = st.offsL.size ∧ st'.l = st.l + st.blockL) := by
    rw [e1]; split
    · exact Or.inr ⟨‹_›, rfl⟩
    · exact Or.inl rfl
  have hr' : st'.r = st.r ∨ (st.startR = st.offsR.size ∧ st'.r = st.r - st.blockR) := by
    rw [e2]; split
    · exact Or.inr ⟨‹_›, rfl⟩
    · exact Or.inl rfl
  have hlN : st.startL ≠ st.offsL.size → st'.l = st.l := by intro h; rw [e1, if_neg h]
  have hrN : st.startR ≠ st.offsR.size → st'.r = st.r := by intro h; rw [e2, if_neg h]
  have hlY : st.startL = st.offsL.size → st'.l = st.l + st.blockL := by intro h; rw [e1, if_pos h]
  have hrY : st.startR = st.offsR.size → st'.r = st.r - st.blockR := by intro h; rw [e2, if_pos h]
  refine ⟨⟨frame, hsz, ?_, ?_, ?_, ltL', geR', by rw [e6, e5]; exact sL, by rw [e8, e7]; exact sR, ?_, ?_, ?_⟩, ?_, ?_⟩
  · rcases hl' with h | ⟨_, h⟩ <;> omega
  · by_cases eL : st.startL = st.offsL.size <;> by_cases eR : st.startR = st.offsR.size
    · have := hlY eL; have := hrY eR; omega
    · have := hlY eL; have := hrN eR; omega
    · have := hlN eL; have := hrY eR; omega
    · exfalso; rcases hex with h | h <;> contradiction
  · rcases hr' with h | ⟨_, h⟩ <;> omega
  · intro hp
    rw [e6, e5] at hp
    have eL : st.startL ≠ st.offsL.size := by omega
    have eR : st.startR = st.offsR.size := by rcases hex with h | h; exact absurd h eL; exact h
    rw [hlN eL, hrY eR, e3, e5, e6]
    exact ⟨scanL, by omega⟩
  · intro hp
    rw [e8, e7] at hp
    have eR : st.startR ≠ st.offsR.size := by omega
    have eL : st.startL = st.offsL.size := by rcases hex with h | h; exact h; exact absurd h eR
    rw [hrN eR, hlY eL, e4, e7, e8]
    exact ⟨scanR, by omega⟩
  · rw [e6, e5, e8, e7]
    intro ⟨h1, h2⟩
    rcases hex with h | h <;> omega
  · intro hd
    have hs := sepEq hd
    refine ⟨fun hp => ?_, fun hp => ?_, fun h1 h2 => ?_⟩
    · rw [e6, e5] at hp
      have eL : st.startL ≠ st.offsL.size := by omega
      have eR : st.startR = st.offsR.size := by rcases hex with h | h; exact absurd h eL; exact h
      rw [hlN eL, hrY eR, e3]; omega
    · rw [e8, e7] at hp
      have eR : st.startR ≠ st.offsR.size := by omega
      have eL : st.startL = st.offsL.size := by rcases hex with h | h; exact h; exact absurd h eR
      rw [hrN eR, hlY eL, e4]; omega
    · rw [e6, e5] at h1; rw [e8, e7] at h2
      have eL : st.startL = st.offsL.size := by omega
      have eR : st.startR = st.offsR.size := by omega
      rw [hlY eL, hrY eR]; omega
  · intro hd
    have hb := big hd
    refine ⟨by rw [e3]; exact hb.1, by rw [e4]; exact hb.2, ?_⟩
    by_cases eL : st.startL = st.offsL.size <;> by_cases eR : st.startR = st.offsR.size
    · rw [hlY eL, hrY eR]; omega
    · rw [hlY eL, hrN eR]; omega
    · rw [hlN eL, hrY eR]; omega
    · exfalso; rcases hex with h | h <;> contradiction

theorem pibBlocks_eq (st : PibState) :
    (pibBlocks st).l = st.l ∧ (pibBlocks st).r = st.r ∧ (pibBlocks st).offsL = st.offsL ∧ (pibBlocks st).startL = st.startL ∧
    (pibBlocks st).offsR = st.offsR ∧ (pibBlocks st).startR = st.startR ∧
    (¬ st.r - st.l ≤ 2 * PS_BLOCK → (pibBlocks st).blockL = st.blockL ∧ (pibBlocks st).blockR = st.blockR) ∧
    (st.r - st.l ≤ 2 * PS_BLOCK → st.startL < st.offsL.size →
        (pibBlocks st).blockL = st.blockL ∧ (pibBlocks st).blockR = st.r - st.l - PS_BLOCK) ∧
    (st.r - st.l ≤ 2 * PS_BLOCK → ¬ st.startL < st.offsL.size → st.startR < st.offsR.size →
        (pibBlocks st).blockL = st.r - st.l - PS_BLOCK ∧ (pibBlocks st).blockR = st.blockR) ∧
    (st.r - st.l ≤ 2 * PS_BLOCK → ¬ st.startL < st.offsL.size → ¬ st.startR < st.offsR.size →
        (pibBlocks st).blockL = (st.r - st.l) / 2 ∧ (pibBlocks st).blockR = st.r - st.l - (st.r - st.l) / 2) := by
  unfold pibBlocks
  by_cases hd : st.r - st.l ≤ 2 * PS_BLOCK
  · by_cases hL : st.startL < st.offsL.size
    · simp [hd, hL]
    · by_cases hR : st.startR < st.offsR.size
      · simp [hd, hL, hR]
      · simp [hd, hL, hR]
  · simp [hd]

/-- both blocks scanned: from the loop invariant, the block sizes of this iteration and the rescans of exhausted blocks -/
theorem Mid.of_inv {p : α} {lo hi : Nat} {a b : Array α} {st : PibState} (inv : PibInv lt p lo hi a st b)
    (hbl : st.blockL = PS_BLOCK) (hbr : st.blockR = PS_BLOCK) (done : Bool) (hdone : done = decide (st.r - st.l ≤ 2 * PS_BLOCK))
    (st2 : PibState) (h1 : st2.l = st.l ∧ st2.r = st.r ∧ st2.blockL = (pibBlocks st).blockL ∧ st2.blockR = (pibBlocks st).blockR)
    (hL : (st.startL = st.offsL.size ∧ st2.startL = 0 ∧ ScanL lt p b st.l (pibBlocks st).blockL st2.offsL 0) ∨
          (st.startL ≠ st.offsL.size ∧ st2.offsL = st.offsL ∧ st2.startL = st.startL))
    (hR : (st.startR = st.offsR.size ∧ st2.startR = 0 ∧ ScanR lt p b st.r (pibBlocks st).blockR st2.offsR 0) ∨
          (st.startR ≠ st.offsR.size ∧ st2.offsR = st.offsR ∧ st2.startR = st.startR)) :
    Mid lt p lo hi a st2 b done := by
  have hB : PS_BLOCK = 128 := rfl
  obtain ⟨frame, hsz, hl, hlr, hr, ltL, geR, sL, sR, pendL, pendR, one⟩ := inv
  obtain ⟨_, _, _, _, _, _, b1, b2, b3, b4⟩ := pibBlocks_eq st
  obtain ⟨k1, k2, k3, k4⟩ := h1
  have hsL : ScanL lt p b st2.l st2.blockL st2.offsL st2.startL ∧ st2.startL ≤ st2.offsL.size := by
    rcases hL with ⟨e, e2, sc⟩ | ⟨e, e2, e3⟩
    · rw [k1, k3, e2]; exact ⟨sc, Nat.zero_le _⟩
    · have hp : st.startL < st.offsL.size := by omega
      have hb : (pibBlocks st).blockL = st.blockL := by
        by_cases hd : st.r - st.l ≤ 2 * PS_BLOCK
        · exact (b2 hd hp).1
        · exact (b1 hd).1
      rw [k1, k3, hb, e2, e3]; exact ⟨(pendL hp).1, sL⟩
  have hsR : ScanR lt p b st2.r st2.blockR st2.offsR st2.startR ∧ st2.startR ≤ st2.offsR.size := by
    rcases hR with ⟨e, e2, sc⟩ | ⟨e, e2, e3⟩
    · rw [k2, k4, e2]; exact ⟨sc, Nat.zero_le _⟩
    · have hp : st.startR < st.offsR.size := by omega
      have hnl : ¬ st.startL < st.offsL.size := fun h => one ⟨h, hp⟩
      have hb : (pibBlocks st).blockR = st.blockR := by
        by_cases hd : st.r - st.l ≤ 2 * PS_BLOCK
        · exact (b3 hd hnl hp).2
        · exact (b1 hd).2
      rw [k2, k4, hb, e2, e3]; exact ⟨(pendR hp).1, sR⟩
  have hsep : st2.l + st2.blockL + st2.blockR ≤ st2.r ∧ (done = true → st2.l + st2.blockL + st2.blockR = st2.r) ∧
      (done = false → st2.blockL = PS_BLOCK ∧ st2.blockR = PS_BLOCK) := by
    rw [k1, k2, k3, k4]
    by_cases hd : st.r - st.l ≤ 2 * PS_BLOCK
    · have hdt : done = true := by rw [hdone]; simp [hd]
      by_cases hpL : st.startL < st.offsL.size
      · have := b2 hd hpL; have := (pendL hpL).2
        refine ⟨by omega, fun _ => by omega, fun h => by rw [hdt] at h; cases h⟩
      · by_cases hpR : st.startR < st.offsR.size
        · have := b3 hd hpL hpR; have := (pendR hpR).2
          refine ⟨by omega, fun _ => by omega, fun h => by rw [hdt] at h; cases h⟩
        · have := b4 hd hpL hpR
          refine ⟨by omega, fun _ => by omega, fun h => by rw [hdt] at h; cases h⟩
    · have hdf : done = false := by rw [hdone]; simp [hd]
      have := b1 hd
      refine ⟨by omega, fun h => (by rw [hdf] at h; cases h), fun _ => by omega⟩
  exact ⟨frame, hsz, by rw [k1]; exact hl, by rw [k2]; exact hr, by rw [k1]; exact ltL, by rw [k2]; exact geR,
    hsL.2, hsR.2, hsL.1, hsR.1, hsep.1, hsep.2.1, hsep.2.2⟩

/-- the swap chain keeps the middle state, with `count` more offsets settled on both sides -/
theorem Mid.chain {p : α} {lo hi : Nat} {a b b' : Array α} {st : PibState} {done : Bool} (m : Mid lt p lo hi a st b done)
    (count : Nat) (hcL : st.startL + count ≤ st.offsL.size) (hcR : st.startR + count ≤ st.offsR.size)
    (f : Frame st.l st.r b b') (hL : ScanL lt p b' st.l st.blockL st.offsL (st.startL + count))
    (hR : ScanR lt p b' st.r st.blockR st.offsR (st.startR + count)) :
    Mid lt p lo hi a { st with startL := st.startL + count, startR := st.startR + count } b' done := by
  obtain ⟨frame, hsz, hl, hr, ltL, geR, sL, sR, scanL, scanR, sep, sepEq, big⟩ := m
  have hlr : st.l ≤ st.r := by omega
  exact ⟨frame.trans (f.mono hl hr), by rw [f.size]; exact hsz, hl, hr,
    fun i h1 h2 => by rw [f.out i (Or.inl h2)]; exact ltL i h1 h2,
    fun i h1 h2 => by rw [f.out i (Or.inr h1)]; exact geR i h1 h2,
    hcL, hcR, hL, hR, sep, sepEq, big⟩


/-- `Mid.of_inv` with the hypotheses stated about `pibBlocks st`, as the verification conditions provide them -/
theorem Mid.of_inv' {p : α} {lo hi : Nat} {a b : Array α} {st : PibState} (inv : PibInv lt p lo hi a st b)
    (hbl : st.blockL = PS_BLOCK) (hbr : st.blockR = PS_BLOCK)
    (st2 : PibState)
    (h1 : st2.l = (pibBlocks st).l ∧ st2.r = (pibBlocks st).r ∧ st2.blockL = (pibBlocks st).blockL ∧ st2.blockR = (pibBlocks st).blockR)
    (hL : ((pibBlocks st).startL = (pibBlocks st).offsL.size ∧ st2.startL = 0 ∧
             ScanL lt p b (pibBlocks st).l (pibBlocks st).blockL st2.offsL 0) ∨
          ((pibBlocks st).startL ≠ (pibBlocks st).offsL.size ∧ st2.offsL = (pibBlocks st).offsL ∧ st2.startL = (pibBlocks st).startL))
    (hR : ((pibBlocks st).startR = (pibBlocks st).offsR.size ∧ st2.startR = 0 ∧
             ScanR lt p b (pibBlocks st).r (pibBlocks st).blockR st2.offsR 0) ∨
          ((pibBlocks st).startR ≠ (pibBlocks st).offsR.size ∧ st2.offsR = (pibBlocks st).offsR ∧ st2.startR = (pibBlocks st).startR)) :
    Mid lt p lo hi a st2 b (decide (st.r - st.l ≤ 2 * PS_BLOCK)) := by
  obtain ⟨e1, e2, e3, e4, e5, e6, _⟩ := pibBlocks_eq st
  rw [e1, e2] at h1
  rw [e1, e3, e4] at hL
  rw [e2, e5, e6] at hR
  exact Mid.of_inv lt inv hbl hbr _ rfl st2 h1 hL hR

theorem Mid.chain_pre {p : α} {lo hi : Nat} {a b : Array α} {st : PibState} {done : Bool} (m : Mid lt p lo hi a st b done)
    (count : Nat) (hcount : count = min (st.offsL.size - st.startL) (st.offsR.size - st.startR)) (hc : count > 0) :
    True ∧ ScanL lt p b st.l st.blockL st.offsL st.startL ∧ ScanR lt p b st.r st.blockR st.offsR st.startR ∧ 1 ≤ count ∧
      st.startL + count ≤ st.offsL.size ∧ st.startR + count ≤ st.offsR.size ∧ st.l + st.blockL + st.blockR ≤ st.r ∧
      st.r ≤ b.size := by
  have := m.hr; have := m.hsz
  exact ⟨trivial, m.scanL, m.scanR, hc, by omega, by omega, m.sep, by omega⟩

theorem min_exhausts {a b sa sb c : Nat} (hc : c = min (a - sa) (b - sb)) (h1 : sa ≤ a) (h2 : sb ≤ b) :
    sa + c = a ∨ sb + c = b := by omega

def StepPost (p : α) (lo hi : Nat) (a : Array α) (st : PibState) (st' : PibState) (b' : Array α) : Prop :=
  PibInv lt p lo hi a st' b' ∧ (st.r - st.l ≤ 2 * PS_BLOCK → Fin st') ∧
  (¬ st.r - st.l ≤ 2 * PS_BLOCK → st'.blockL = PS_BLOCK ∧ st'.blockR = PS_BLOCK ∧ st'.r - st'.l + PS_BLOCK ≤ st.r - st.l)

theorem StepPost.of_finish {p : α} {lo hi : Nat} {a b : Array α} {st st3 : PibState}
    (m : Mid lt p lo hi a st3 b (decide (st.r - st.l ≤ 2 * PS_BLOCK))) (h1 : st3.l = (pibBlocks st).l ∧ st3.r = (pibBlocks st).r)
    (hex : st3.startL = st3.offsL.size ∨ st3.startR = st3.offsR.size) : StepPost lt p lo hi a st (pibAdvance st3) b := by
  obtain ⟨i, f, g⟩ := m.finish lt hex
  refine ⟨i, fun hd => f (by simp [hd]), fun hd => ?_⟩
  have := g (by simp [hd])
  rw [h1.1, h1.2, (pibBlocks_eq st).1, (pibBlocks_eq st).2.1] at this
  exact this

theorem pibStep_spec (p : α) (lo hi : Nat) (a : Array α) (st : PibState) (b : Array α) :
   ⦃fun s => ⌜s.val = b ∧ PibInv lt p lo hi a st b ∧ st.blockL = PS_BLOCK ∧ st.blockR = PS_BLOCK⌝⦄
   (pibStep (a0 := a0) lt p st)
   ⦃⇓ st' s => ⌜StepPost lt p lo hi a st st' s.val⌝⦄ := by
  have hSL := fun l block p b => pibScanL_spec (a0 := a0) lt l block p b
  have hSR := fun r block p b => pibScanR_spec (a0 := a0) lt r block p b
  have hCH := fun p l r oL sL oR sR count b => pibChain_spec (a0 := a0) lt p l r (pibBlocks st).blockL (pibBlocks st).blockR oL sL oR sR count b
  mvcgen [pibStep, hSL, hSR, hCH]
  -- left block rescanned, right block rescanned
  case vc2 =>
    rename_i st1 _ hcL s0 hpre offsL s1 hscanL _ hcR offsR s hscanR count _ hcount
    obtain ⟨rfl, inv, hbl, hbr⟩ := hpre
    obtain ⟨e1, scL⟩ := hscanL
    obtain ⟨e2, scR⟩ := hscanR
    rw [e1] at scR
    rw [e2, e1]
    have m := Mid.of_inv' lt inv hbl hbr { st1 with startL := 0, offsL := offsL, startR := 0, offsR := offsR } ⟨rfl, rfl, rfl, rfl⟩
      (Or.inl ⟨by simpa using hcL, rfl, scL⟩) (Or.inl ⟨by simpa using hcR, rfl, scR⟩)
    exact m.chain_pre lt count rfl hcount
  case vc3 =>
    rename_i st1 _ hcL s0 hpre offsL s1 hscanL _ hcR offsR s2 hscanR count _ hcount u s hpost
    obtain ⟨rfl, inv, hbl, hbr⟩ := hpre
    obtain ⟨e1, scL⟩ := hscanL
    obtain ⟨e2, scR⟩ := hscanR
    rw [e1] at scR
    rw [e2, e1] at hpost
    have m := Mid.of_inv' lt inv hbl hbr { st1 with startL := 0, offsL := offsL, startR := 0, offsR := offsR } ⟨rfl, rfl, rfl, rfl⟩
      (Or.inl ⟨by simpa using hcL, rfl, scL⟩) (Or.inl ⟨by simpa using hcR, rfl, scR⟩)
    have hp := m.chain_pre lt count rfl hcount
    have m2 := m.chain lt count hp.2.2.2.2.1 hp.2.2.2.2.2.1 hpost.1 hpost.2.1 hpost.2.2
    refine StepPost.of_finish lt m2 ⟨rfl, rfl⟩ ?_
    exact min_exhausts (c := count) rfl m.sL m.sR
  case vc4 =>
    rename_i st1 _ hcL s0 hpre offsL s1 hscanL _ hcR offsR s hscanR count _ hcount
    obtain ⟨rfl, inv, hbl, hbr⟩ := hpre
    obtain ⟨e1, scL⟩ := hscanL
    obtain ⟨e2, scR⟩ := hscanR
    rw [e1] at scR
    rw [e2, e1]
    have m := Mid.of_inv' lt inv hbl hbr { st1 with startL := 0, offsL := offsL, startR := 0, offsR := offsR } ⟨rfl, rfl, rfl, rfl⟩
      (Or.inl ⟨by simpa using hcL, rfl, scL⟩) (Or.inl ⟨by simpa using hcR, rfl, scR⟩)
    refine StepPost.of_finish lt m ⟨rfl, rfl⟩ ?_
    have hz : ¬ (min (offsL.size - 0) (offsR.size - 0) > 0) := hcount
    show 0 = offsL.size ∨ 0 = offsR.size
    omega
  case vc8 =>
    rename_i st1 _ hcL s0 hpre offs s hscan _ hcR count _ hcount
    obtain ⟨rfl, inv, hbl, hbr⟩ := hpre
    obtain ⟨e, scL⟩ := hscan
    rw [e]
    have m := Mid.of_inv' lt inv hbl hbr { st1 with startL := 0, offsL := offs } ⟨rfl, rfl, rfl, rfl⟩
      (Or.inl ⟨by simpa using hcL, rfl, scL⟩) (Or.inr ⟨by simpa using hcR, rfl, rfl⟩)
    refine StepPost.of_finish lt m ⟨rfl, rfl⟩ ?_
    have hc : min (offs.size - 0) (st1.offsR.size - st1.startR) = 0 := by
      have : ¬ (min (offs.size - 0) (st1.offsR.size - st1.startR) > 0) := hcount
      omega
    have := m.sR
    show 0 = offs.size ∨ st1.startR = st1.offsR.size
    have h2 : st1.startR ≤ st1.offsR.size := this
    omega
  -- left rescanned, right kept
  case vc6 =>
    rename_i st1 _ hcL s0 hpre offs s hscan _ hcR count _ hcount
    obtain ⟨rfl, inv, hbl, hbr⟩ := hpre
    obtain ⟨e, scL⟩ := hscan
    rw [e]
    have m := Mid.of_inv' lt inv hbl hbr { st1 with startL := 0, offsL := offs } ⟨rfl, rfl, rfl, rfl⟩
      (Or.inl ⟨by simpa using hcL, rfl, scL⟩) (Or.inr ⟨by simpa using hcR, rfl, rfl⟩)
    exact m.chain_pre lt count rfl hcount
  case vc7 =>
    rename_i st1 _ hcL s0 hpre offs s1 hscan _ hcR count _ hcount u s hpost
    obtain ⟨rfl, inv, hbl, hbr⟩ := hpre
    obtain ⟨e, scL⟩ := hscan
    rw [e] at hpost
    have m := Mid.of_inv' lt inv hbl hbr { st1 with startL := 0, offsL := offs } ⟨rfl, rfl, rfl, rfl⟩
      (Or.inl ⟨by simpa using hcL, rfl, scL⟩) (Or.inr ⟨by simpa using hcR, rfl, rfl⟩)
    have hp := m.chain_pre lt count rfl hcount
    have m2 := m.chain lt count hp.2.2.2.2.1 hp.2.2.2.2.2.1 hpost.1 hpost.2.1 hpost.2.2
    refine StepPost.of_finish lt m2 ⟨rfl, rfl⟩ ?_
    exact min_exhausts (c := count) rfl m.sL m.sR
  -- left kept, right rescanned
  case vc10 =>
    rename_i st1 _ hcL s0 hpre _ hcR offs s hscan count _ hcount
    obtain ⟨rfl, inv, hbl, hbr⟩ := hpre
    obtain ⟨e, scR⟩ := hscan
    rw [e]
    have m := Mid.of_inv' lt inv hbl hbr { st1 with startR := 0, offsR := offs } ⟨rfl, rfl, rfl, rfl⟩
      (Or.inr ⟨by simpa using hcL, rfl, rfl⟩) (Or.inl ⟨by simpa using hcR, rfl, scR⟩)
    exact m.chain_pre lt count rfl hcount
  case vc11 =>
    rename_i st1 _ hcL s0 hpre _ hcR offs s1 hscan count _ hcount u s hpost
    obtain ⟨rfl, inv, hbl, hbr⟩ := hpre
    obtain ⟨e, scR⟩ := hscan
    rw [e] at hpost
    have m := Mid.of_inv' lt inv hbl hbr { st1 with startR := 0, offsR := offs } ⟨rfl, rfl, rfl, rfl⟩
      (Or.inr ⟨by simpa using hcL, rfl, rfl⟩) (Or.inl ⟨by simpa using hcR, rfl, scR⟩)
    have hp := m.chain_pre lt count rfl hcount
    have m2 := m.chain lt count hp.2.2.2.2.1 hp.2.2.2.2.2.1 hpost.1 hpost.2.1 hpost.2.2
    refine StepPost.of_finish lt m2 ⟨rfl, rfl⟩ ?_
    exact min_exhausts (c := count) rfl m.sL m.sR
  case vc12 =>
    rename_i st1 _ hcL s0 hpre _ hcR offs s hscan count _ hcount
    obtain ⟨rfl, inv, hbl, hbr⟩ := hpre
    obtain ⟨e, scR⟩ := hscan
    rw [e]
    have m := Mid.of_inv' lt inv hbl hbr { st1 with startR := 0, offsR := offs } ⟨rfl, rfl, rfl, rfl⟩
      (Or.inr ⟨by simpa using hcL, rfl, rfl⟩) (Or.inl ⟨by simpa using hcR, rfl, scR⟩)
    refine StepPost.of_finish lt m ⟨rfl, rfl⟩ ?_
    have hz : ¬ (min (st1.offsL.size - st1.startL) (offs.size - 0) > 0) := hcount
    have h2 : st1.startL ≤ st1.offsL.size := m.sL
    show st1.startL = st1.offsL.size ∨ 0 = offs.size
    omega
  -- both kept
  case vc14 =>
    rename_i st1 _ hcL s hpre _ hcR count _ hcount
    obtain ⟨rfl, inv, hbl, hbr⟩ := hpre
    have m := Mid.of_inv' lt inv hbl hbr st1 ⟨rfl, rfl, rfl, rfl⟩
      (Or.inr ⟨by simpa using hcL, rfl, rfl⟩) (Or.inr ⟨by simpa using hcR, rfl, rfl⟩)
    exact m.chain_pre lt count rfl hcount
  case vc15 =>
    rename_i st1 _ hcL s0 hpre _ hcR count _ hcount u s hpost
    obtain ⟨rfl, inv, hbl, hbr⟩ := hpre
    have m := Mid.of_inv' lt inv hbl hbr st1 ⟨rfl, rfl, rfl, rfl⟩
      (Or.inr ⟨by simpa using hcL, rfl, rfl⟩) (Or.inr ⟨by simpa using hcR, rfl, rfl⟩)
    have hp := m.chain_pre lt count rfl hcount
    have m2 := m.chain lt count hp.2.2.2.2.1 hp.2.2.2.2.2.1 hpost.1 hpost.2.1 hpost.2.2
    refine StepPost.of_finish lt m2 ⟨rfl, rfl⟩ ?_
    exact min_exhausts (c := count) rfl m.sL m.sR
  case vc16 =>
    rename_i st1 _ hcL s hpre _ hcR count _ hcount
    obtain ⟨rfl, inv, hbl, hbr⟩ := hpre
    have m := Mid.of_inv' lt inv hbl hbr st1 ⟨rfl, rfl, rfl, rfl⟩
      (Or.inr ⟨by simpa using hcL, rfl, rfl⟩) (Or.inr ⟨by simpa using hcR, rfl, rfl⟩)
    refine StepPost.of_finish lt m ⟨rfl, rfl⟩ ?_
    have hz : ¬ (min (st1.offsL.size - st1.startL) (st1.offsR.size - st1.startR) > 0) := hcount
    have h2 : st1.startL ≤ st1.offsL.size := m.sL
    have h3 : st1.startR ≤ st1.offsR.size := m.sR
    omega
end NucleoVerif.PS
