import NucleoVerif.Model.Matcher
import NucleoVerif.Spec.Matcher
/-! Lemmas about first occurrences, greedy scans and the subsequence decision (for C01). -/
namespace NucleoVerif.Sub
open Gen Spec

theorem findIdx_none (p : Nat → Bool) : ∀ (l : List Nat), findIdx p l = none → ∀ x ∈ l, p x = false := by
  intro l
  induction l with
  | nil => intro _ x hx; simp at hx
  | cons c cs ih =>
    intro h x hx
    simp only [findIdx] at h
    split at h
    · cases h
    · rename_i hc
      have hcs : findIdx p cs = none := by
        cases hf : findIdx p cs with
        | none => rfl
        | some i => rw [hf] at h; simp at h
      rcases List.mem_cons.mp hx with rfl | hx
      · simpa using hc
      · exact ih hcs x hx

theorem findIdx_some (p : Nat → Bool) : ∀ (l : List Nat) (i : Nat), findIdx p l = some i →
    i < l.length ∧ (∃ x, l[i]? = some x ∧ p x = true) ∧ ∀ x ∈ l.take i, p x = false := by
  intro l
  induction l with
  | nil => intro i h; simp [findIdx] at h
  | cons c cs ih =>
    intro i h
    simp only [findIdx] at h
    split at h
    · rename_i hc
      injection h with h; subst h
      exact ⟨by simp, ⟨c, by simp, hc⟩, by simp⟩
    · rename_i hc
      cases hf : findIdx p cs with
      | none => rw [hf] at h; simp at h
      | some j =>
        rw [hf] at h
        simp only [Option.map_some, Option.some.injEq] at h
        subst h
        obtain ⟨h1, ⟨x, h2, h3⟩, h4⟩ := ih j hf
        refine ⟨by simp; omega, ⟨x, by simpa using h2, h3⟩, ?_⟩
        intro y hy
        simp only [List.take_succ_cons, List.mem_cons] at hy
        rcases hy with rfl | hy
        · simpa using hc
        · exact h4 y hy

/-- the subsequence decision, driven by the first occurrence of the needle's first character -/
theorem subseqB_first (f : Nat → Nat) (p : Nat → Bool) (a : Nat) (as : List Nat) :
    ∀ (l : List Nat), (∀ x ∈ l, p x = true ↔ f x = a) →
      subseqB (a :: as) (l.map f) =
        (match findIdx p l with
         | none => false
         | some i => subseqB as ((l.drop (i + 1)).map f)) := by
  intro l
  induction l with
  | nil => intro _; simp [subseqB, findIdx]
  | cons c cs ih =>
    intro hp
    simp only [List.map_cons, subseqB, findIdx]
    by_cases hc : p c = true
    · have := (hp c (by simp)).mp hc
      simp [hc, this]
    · have hc' : p c = false := by simpa using hc
      have hne : ¬ (a = f c) := fun e => hc ((hp c (by simp)).mpr e.symm)
      simp only [hne, if_false, hc', Bool.false_eq_true]
      rw [ih (fun x hx => hp x (by simp [hx]))]
      cases findIdx p cs with
      | none => rfl
      | some i => simp

theorem subseqB_length (n : List Nat) : ∀ (l : List Nat), subseqB n l = true → n.length ≤ l.length := by
  induction n with
  | nil => intro l _; simp
  | cons a as ih =>
    intro l
    induction l with
    | nil => intro h; simp [subseqB] at h
    | cons b bs ihl =>
      intro h
      simp only [subseqB] at h
      split at h
      · have := ih bs h; simp; omega
      · have := ihl h; simp at this ⊢; omega

theorem subseqB_iff_sublist (n h : List Nat) : subseqB n h = true ↔ List.Sublist n h := by
  induction h generalizing n with
  | nil =>
    cases n with
    | nil => simp [subseqB]
    | cons a as => simp [subseqB]
  | cons b bs ih =>
    cases n with
    | nil => simp [subseqB]
    | cons a as =>
      simp only [subseqB]
      by_cases e : a = b
      · subst e
        simp only [if_true, ih, List.cons_sublist_cons]
      · simp only [e, if_false, ih]
        constructor
        · exact fun h => List.Sublist.cons _ h
        · intro h
          cases h with
          | cons _ h => exact h
          | cons_cons _ h => exact absurd rfl e

theorem subseqB_of_sublist_hay (n l l' : List Nat) (h : subseqB n l = true) (hl : List.Sublist l l') : subseqB n l' = true :=
  (subseqB_iff_sublist n l').mpr (((subseqB_iff_sublist n l).mp h).trans hl)

theorem subseqB_drop_mono (n l : List Nat) (k : Nat) (h : subseqB n (l.drop k) = true) : subseqB n l = true :=
  subseqB_of_sublist_hay n _ l h (List.drop_sublist k l)

theorem findIdx_take (p : Nat → Bool) : ∀ (l : List Nat) (i m : Nat), findIdx p l = some i → i < m → findIdx p (l.take m) = some i := by
  intro l
  induction l with
  | nil => intro i m h; simp [findIdx] at h
  | cons c cs ih =>
    intro i m h hm
    cases m with
    | zero => omega
    | succ m =>
      simp only [List.take_succ_cons, findIdx] at h ⊢
      split at h
      · rename_i hc; simp [hc, h]
      · rename_i hc
        simp only [hc, Bool.false_eq_true, if_false]
        cases hf : findIdx p cs with
        | none => rw [hf] at h; simp at h
        | some j =>
          rw [hf] at h
          simp only [Option.map_some, Option.some.injEq] at h
          subst h
          rw [ih j m hf (by omega)]
          rfl

theorem findIdx_of_take (p : Nat → Bool) : ∀ (l : List Nat) (i m : Nat), findIdx p (l.take m) = some i → findIdx p l = some i := by
  intro l
  induction l with
  | nil => intro i m h; simp [findIdx] at h
  | cons c cs ih =>
    intro i m h
    cases m with
    | zero => simp [findIdx] at h
    | succ m =>
      simp only [List.take_succ_cons, findIdx] at h ⊢
      split at h
      · rename_i hc; simp [hc, h]
      · rename_i hc
        simp only [hc, Bool.false_eq_true, if_false]
        cases hf : findIdx p (cs.take m) with
        | none => rw [hf] at h; simp at h
        | some j =>
          rw [hf] at h
          simp only [Option.map_some, Option.some.injEq] at h
          subst h
          rw [ih j m hf]
          rfl

theorem rfindIdx_lt (p : Nat → Bool) (l : List Nat) (i : Nat) (h : rfindIdx p l = some i) : i < l.length := by
  unfold rfindIdx at h
  cases hf : findIdx p l.reverse with
  | none => rw [hf] at h; simp at h
  | some j =>
    rw [hf] at h
    simp only [Option.map_some, Option.some.injEq] at h
    have := (findIdx_some p _ j hf).1
    simp only [List.length_reverse] at this
    omega

/-- for an already-normalized needle character the prefilter's byte comparison is "normalizes to" -/
theorem asciiEq_iff (cfg : Cfg) (c x : Nat) (hc : normAscii cfg c = c) :
    asciiEq cfg.ignoreCase c x = true ↔ normAscii cfg x = c := by
  unfold asciiEq normAscii at *
  by_cases hi : cfg.ignoreCase = true
  · simp only [hi, true_and, Bool.true_and, Bool.or_eq_true, Bool.and_eq_true, decide_eq_true_eq] at hc ⊢
    by_cases hx : 65 ≤ x ∧ x ≤ 90
    · simp only [hx, and_self, if_true]
      split at hc <;> omega
    · simp only [hx, if_false]
      split at hc <;> omega
  · simp only [hi, false_and, Bool.false_and, Bool.or_false, decide_eq_true_eq, if_false, Bool.false_eq_true]

/-- the forward scan of the ASCII prefilter: succeeds iff the rest of the needle is a subsequence; on success it
    has consumed a prefix of the haystack that already contains that subsequence -/
theorem asciiGreedyScan_spec (cfg : Cfg) :
    ∀ (ns : List Nat) (hay : List Nat) (ge : Nat), (∀ c ∈ ns, normAscii cfg c = c) →
      (asciiGreedyScan cfg.ignoreCase ns hay ge).isSome = subseqB ns (hay.map (normAscii cfg)) ∧
      ∀ ge' rest, asciiGreedyScan cfg.ignoreCase ns hay ge = some (ge', rest) →
        ∃ k, k ≤ hay.length ∧ rest = hay.drop k ∧ ge' = ge + k ∧ ns.length ≤ k ∧
          subseqB ns ((hay.take k).map (normAscii cfg)) = true := by
  intro ns
  induction ns with
  | nil =>
    intro hay ge _
    refine ⟨by simp [asciiGreedyScan, subseqB], ?_⟩
    intro ge' rest h
    simp only [asciiGreedyScan, Option.some.injEq, Prod.mk.injEq] at h
    exact ⟨0, by simp, by simp [h.2], by omega, by simp, by simp [subseqB]⟩
  | cons c cs ih =>
    intro hay ge hn
    have hc := hn c (by simp)
    have hp : ∀ x ∈ hay, asciiEq cfg.ignoreCase c x = true ↔ normAscii cfg x = c := fun x _ => asciiEq_iff cfg c x hc
    have hfirst := subseqB_first (normAscii cfg) (asciiEq cfg.ignoreCase c) c cs hay hp
    simp only [asciiGreedyScan]
    cases hf : findIdx (asciiEq cfg.ignoreCase c) hay with
    | none =>
      rw [hf] at hfirst
      refine ⟨by simp [hfirst], ?_⟩
      intro ge' rest h; simp at h
    | some i =>
      rw [hf] at hfirst
      simp only at hfirst ⊢
      have ihc := ih (hay.drop (i + 1)) (ge + i + 1) (fun c hc => hn c (by simp [hc]))
      refine ⟨by rw [ihc.1, hfirst], ?_⟩
      intro ge' rest h
      obtain ⟨k, hk1, hk2, hk3, hk4, hk5⟩ := ihc.2 ge' rest h
      have hi := (findIdx_some _ hay i hf).1
      simp only [List.length_drop] at hk1
      refine ⟨i + 1 + k, by omega, by rw [hk2, List.drop_drop], by omega, by simp; omega, ?_⟩
      have hp' : ∀ x ∈ hay.take (i + 1 + k), asciiEq cfg.ignoreCase c x = true ↔ normAscii cfg x = c := fun x _ => asciiEq_iff cfg c x hc
      rw [subseqB_first (normAscii cfg) (asciiEq cfg.ignoreCase c) c cs (hay.take (i + 1 + k)) hp']
      rw [findIdx_take _ hay i (i + 1 + k) hf (by omega)]
      simp only
      have : (hay.take (i + 1 + k)).drop (i + 1) = (hay.drop (i + 1)).take k := by
        rw [List.drop_take]; congr 1; omega
      rw [this]; exact hk5

/-- **the ASCII prefilter decides the subsequence relation**, and on success its window `[start, greedy_end)`
    already contains an embedding of the needle, `greedy_end ≤ end ≤ |haystack|` -/
theorem prefilterAscii_spec (cfg : Cfg) (h : List Nat) (n0 : Nat) (ns : List Nat) (og : Bool)
    (hn : ∀ c ∈ n0 :: ns, normAscii cfg c = c) :
    (prefilterAscii cfg h (n0 :: ns) og).isSome = subseqB (n0 :: ns) (h.map (normAscii cfg)) ∧
    ∀ start ge e, prefilterAscii cfg h (n0 :: ns) og = some (start, ge, e) →
      start < ge ∧ ge ≤ e ∧ e ≤ h.length ∧ start + (n0 :: ns).length ≤ ge ∧
      subseqB (n0 :: ns) (((h.drop start).take (ge - start)).map (normAscii cfg)) = true := by
  have hc0 := hn n0 (by simp)
  have hp : ∀ (l : List Nat), ∀ x ∈ l, asciiEq cfg.ignoreCase n0 x = true ↔ normAscii cfg x = n0 := fun _ x _ => asciiEq_iff cfg n0 x hc0
  have hfirst := subseqB_first (normAscii cfg) (asciiEq cfg.ignoreCase n0) n0 ns h (hp h)
  unfold prefilterAscii
  simp only
  cases hf : findIdx (asciiEq cfg.ignoreCase n0) (h.take (h.length - (n0 :: ns).length + 1)) with
  | none =>
    simp only
    refine ⟨?_, by intro _ _ _ hh; cases hh⟩
    -- no occurrence early enough: not a subsequence
    cases hfull : findIdx (asciiEq cfg.ignoreCase n0) h with
    | none => rw [hfull] at hfirst; simp [hfirst]
    | some i =>
      rw [hfull] at hfirst
      simp only at hfirst
      cases hs : subseqB ns ((h.drop (i + 1)).map (normAscii cfg)) with
      | false => rw [hs] at hfirst; simp [hfirst]
      | true =>
        exfalso
        have hl := subseqB_length ns _ hs
        simp only [List.length_map, List.length_drop] at hl
        have hi := (findIdx_some _ h i hfull).1
        have := findIdx_take _ h i (h.length - (n0 :: ns).length + 1) hfull (by simp only [List.length_cons]; omega)
        rw [this] at hf; cases hf
  | some start =>
    simp only
    have hfull := findIdx_of_take _ h start _ hf
    rw [hfull] at hfirst
    simp only at hfirst
    have hst := (findIdx_some _ h start hfull).1
    have sc := asciiGreedyScan_spec cfg ns (h.drop (start + 1)) (start + 1) (fun c hc => hn c (by simp [hc]))
    cases hg : asciiGreedyScan cfg.ignoreCase ns (h.drop (start + 1)) (start + 1) with
    | none =>
      rw [hg] at sc
      simp only
      refine ⟨by rw [hfirst, ← sc.1]; rfl, by intro _ _ _ hh; cases hh⟩
    | some r =>
      obtain ⟨ge, rest⟩ := r
      rw [hg] at sc
      obtain ⟨k, hk1, hk2, hk3, hk4, hk5⟩ := sc.2 ge rest rfl
      simp only [List.length_drop] at hk1
      have hwin : subseqB (n0 :: ns) (((h.drop start).take (ge - start)).map (normAscii cfg)) = true := by
        have hd : h.drop start = h[start] :: h.drop (start + 1) := by rw [List.drop_eq_getElem_cons hst]
        have hge : ge - start = k + 1 := by omega
        rw [hd, hge, List.take_succ_cons, List.map_cons]
        have h0 : normAscii cfg h[start] = n0 := by
          obtain ⟨x, hx1, hx2⟩ := (findIdx_some _ h start hfull).2.1
          rw [List.getElem?_eq_getElem hst] at hx1
          injection hx1 with hx1
          rw [hx1]; exact (asciiEq_iff cfg n0 x hc0).mp hx2
        simp only [subseqB, h0, if_true]
        exact hk5
      refine ⟨?_, ?_⟩
      · rw [hfirst, ← sc.1]
        simp only [Option.isSome_some]
        split <;> rfl
      intro s' g' e' hh
      simp only at hh
      split at hh
      · simp only [Option.some.injEq, Prod.mk.injEq] at hh
        obtain ⟨rfl, rfl, rfl⟩ := hh
        exact ⟨by omega, Nat.le_refl _, by omega, by simp only [List.length_cons]; omega, hwin⟩
      · simp only [Option.some.injEq, Prod.mk.injEq] at hh
        obtain ⟨rfl, rfl, rfl⟩ := hh
        refine ⟨by omega, by omega, ?_, by simp only [List.length_cons]; omega, hwin⟩
        have hrl : rest.length = h.length - ge := by rw [hk2]; simp; omega
        split
        · rename_i i hi
          have := rfindIdx_lt _ _ _ hi
          show ge + (i + 1) ≤ h.length
          omega
        · omega

end NucleoVerif.Sub
