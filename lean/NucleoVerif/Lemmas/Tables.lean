import NucleoVerif.Model.Chars
import NucleoVerif.Gen.RefData
/-! Helper lemmas for C16: bounded Bool-valued quantification (so the kernel can decide facts
about complete tables), correctness of the binary search, table facts. -/
namespace NucleoVerif
open Gen

/-- `p 0 ∧ … ∧ p (n-1)` as a Bool, by structural recursion (kernel-friendly) -/
def allUpTo (p : Nat → Bool) : Nat → Bool
  | 0 => true
  | n+1 => allUpTo p n && p n

theorem allUpTo_spec {p : Nat → Bool} : ∀ {n}, allUpTo p n = true → ∀ i, i < n → p i = true
  | 0, _, i, hi => absurd hi (Nat.not_lt_zero i)
  | n+1, h, i, hi => by
    simp only [allUpTo, Bool.and_eq_true] at h
    by_cases e : i = n
    · subst e; exact h.2
    · exact allUpTo_spec h.1 i (by omega)

/-! ### binary search -/

theorem bsearch_some (key : Nat → Nat) (c : Nat) :
    ∀ fuel lo hi i, bsearch key c fuel lo hi = some i → lo ≤ i ∧ i < hi ∧ key i = c := by
  intro fuel
  induction fuel with
  | zero => intro lo hi i h; simp [bsearch] at h
  | succ fuel ih =>
    intro lo hi i h
    unfold bsearch at h
    by_cases hlt : lo < hi
    · simp only [hlt, if_true] at h
      by_cases e : key ((lo + hi) / 2) = c
      · simp only [e, if_true, Option.some.injEq] at h
        subst h
        refine ⟨by omega, by omega, e⟩
      · simp only [e, if_false] at h
        by_cases l : key ((lo + hi) / 2) < c
        · simp only [l, if_true] at h
          have := ih _ _ _ h
          omega
        · simp only [l, if_false] at h
          have := ih _ _ _ h
          omega
    · simp [hlt] at h

theorem bsearch_none (key : Nat → Nat) (c n : Nat)
    (mono : ∀ i j, i < j → j < n → key i < key j) :
    ∀ fuel lo hi, hi ≤ n → hi - lo < fuel →
      (∀ i, i < lo → key i < c) → (∀ i, hi ≤ i → i < n → c < key i) →
      bsearch key c fuel lo hi = none → ∀ i, i < n → key i ≠ c := by
  intro fuel
  induction fuel with
  | zero => intro lo hi _ hf; omega
  | succ fuel ih =>
    intro lo hi hn hf hlo hhi h i hi' heq
    unfold bsearch at h
    by_cases hlt : lo < hi
    · simp only [hlt, if_true] at h
      by_cases e : key ((lo + hi) / 2) = c
      · simp [e] at h
      · simp only [e, if_false] at h
        by_cases l : key ((lo + hi) / 2) < c
        · simp only [l, if_true] at h
          refine ih ((lo + hi) / 2 + 1) hi hn (by omega) ?_ hhi h i hi' heq
          intro j hj
          by_cases ej : j = (lo + hi) / 2
          · subst ej; exact l
          · have := mono j ((lo + hi) / 2) (by omega) (by omega); omega
        · simp only [l, if_false] at h
          refine ih lo ((lo + hi) / 2) (by omega) (by omega) hlo ?_ h i hi' heq
          intro j hj hjn
          by_cases ej : j = (lo + hi) / 2
          · subst ej; omega
          · have := mono ((lo + hi) / 2) j (by omega) hjn; omega
    · -- empty interval: every index is below lo or at/above hi
      by_cases hi2 : i < lo
      · have := hlo i hi2; omega
      · have := hhi i (by omega) hi'; omega

/-! ### facts about the generated case-folding table, decided by the kernel on the whole table -/

set_option maxRecDepth 100000 in
theorem fold_sorted_b : allUpTo (fun i => decide (foldKey i < foldKey (i + 1))) (FOLD_len - 1) = true := by
  decide +kernel

theorem foldKey_step (i : Nat) (h : i + 1 < FOLD_len) : foldKey i < foldKey (i + 1) := by
  have := allUpTo_spec fold_sorted_b i (by omega)
  simpa using this

theorem foldKey_mono : ∀ i j, i < j → j < FOLD_len → foldKey i < foldKey j := by
  intro i j hij hj
  induction j with
  | zero => omega
  | succ j ih =>
    by_cases e : i = j
    · subst e; exact foldKey_step i hj
    · have := ih (by omega) (by omega)
      have := foldKey_step j hj
      omega

theorem foldSearch_some {c i : Nat} (h : foldSearch c = some i) : i < FOLD_len ∧ foldKey i = c := by
  have := bsearch_some foldKey c _ _ _ _ h
  exact ⟨this.2.1, this.2.2⟩

theorem foldSearch_none {c : Nat} (h : foldSearch c = none) : ∀ i, i < FOLD_len → foldKey i ≠ c := by
  refine bsearch_none foldKey c FOLD_len foldKey_mono (FOLD_len + 1) 0 FOLD_len (Nat.le_refl _) (by omega) ?_ ?_ h
  · intro i hi; omega
  · intro i h1 h2; omega

/-- no folded value is itself a key: one kernel pass of 1454 binary searches -/
theorem fold_vals_not_keys_b :
    allUpTo (fun i => (foldSearch (foldVal i)).isNone) FOLD_len = true := by
  decide +kernel

theorem fold_ascii_b :
    allUpTo (fun c => decide (toLower c = if 65 ≤ c ∧ c ≤ 90 then c + 32 else c)) 128 = true := by
  decide +kernel

/-! ### facts about the three Latin tables -/

/-- every entry is a scalar value and a fixed point of the normalization (`Ǣ ↦ Æ ↦ Æ`) -/
def latinEntryOk (t len _base : Nat) (i : Nat) : Bool :=
  let v := tblGet t len i
  decide (v < 0x110000) && decide (normalizeLatin v = v)

theorem latin1ab_ok_b : allUpTo (latinEntryOk LATIN_1AB LATIN_1AB_len 0xa0) LATIN_1AB_len = true := by
  decide +kernel
theorem latinExt_ok_b : allUpTo (latinEntryOk LATIN_EXTENDED_ADDITIONAL LATIN_EXTENDED_ADDITIONAL_len 0x1e00)
    LATIN_EXTENDED_ADDITIONAL_len = true := by
  decide +kernel
theorem supsub_ok_b : allUpTo (latinEntryOk SUPERSCRIPTS_AND_SUBSCRIPTS SUPERSCRIPTS_AND_SUBSCRIPTS_len 0x2070)
    SUPERSCRIPTS_AND_SUBSCRIPTS_len = true := by
  decide +kernel

/-- reference agreement per entry: where the NFKD rule demands a value the table has it -/
def latinRefOk (t len r rlen : Nat) (i : Nat) : Bool :=
  let want := tblGet r rlen i
  decide (want = 0x1FFFFF) || decide (tblGet t len i = want)

theorem latin1ab_ref_b :
    allUpTo (latinRefOk LATIN_1AB LATIN_1AB_len REF_LATIN_1AB REF_LATIN_1AB_len) LATIN_1AB_len = true := by
  decide +kernel
theorem latinExt_ref_b :
    allUpTo (latinRefOk LATIN_EXTENDED_ADDITIONAL LATIN_EXTENDED_ADDITIONAL_len
      REF_LATIN_EXTENDED_ADDITIONAL REF_LATIN_EXTENDED_ADDITIONAL_len) LATIN_EXTENDED_ADDITIONAL_len = true := by
  decide +kernel
theorem supsub_ref_b :
    allUpTo (latinRefOk SUPERSCRIPTS_AND_SUBSCRIPTS SUPERSCRIPTS_AND_SUBSCRIPTS_len
      REF_SUPERSCRIPTS_AND_SUBSCRIPTS REF_SUPERSCRIPTS_AND_SUBSCRIPTS_len) SUPERSCRIPTS_AND_SUBSCRIPTS_len = true := by
  decide +kernel

end NucleoVerif
