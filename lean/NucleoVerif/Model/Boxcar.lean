import NucleoVerif.Gen.Boxcar
/-! Small-step model of `src/boxcar.rs`: the lock-free append-only item vector, at the
granularity of its atomic operations.  Every `step` is one atomic operation (together with
the thread-local, non-atomic code up to the next atomic operation); a schedule is a sequence
of thread ids.  The sites are the yield points compiled into the code under
`--cfg nucleo_verif`; the correspondence run replays real schedules on this model and also
checks that each thread executes exactly the site sequence the model predicts. -/
namespace NucleoVerif.Bx
open Gen

/-! ### `Location::of` -/

def bucketOf (i : Nat) : Nat := Nat.log2 (i + SKIP) - SKIP_BUCKET
def bucketLen (b : Nat) : Nat := 2 ^ (b + SKIP_BUCKET)
/-- `skipped ^ bucket_len` (xor with the leading power of two = subtracting it) -/
def entryOf (i : Nat) : Nat := (i + SKIP) - 2 ^ Nat.log2 (i + SKIP)
/-- `alloc_next_bucket_entry` -/
def allocEntry (b : Nat) : Nat := bucketLen b - bucketLen b / 8

/-! ### operations and their results -/

inductive Op
  | push (v : Nat)
  | extend (reported : Nat) (vals : List Nat)
  | get (i : Nat)
  | count
  | snapshot (start : Nat)
deriving Repr, DecidableEq

inductive Res
  | idx (i : Nat)            -- push returned index i
  | ok | panic               -- extend
  | none | val (v : Nat)     -- get
  | cnt (n : Nat)            -- count
  | snap (end_ : Nat) (items : List (Nat × Option Nat))
  | skip
deriving Repr, DecidableEq

/-- shared memory of one vector -/
structure Shared where
  inflight : Nat
  bucket : Nat → Bool              -- bucket pointer published (non-null)
  slot : Nat → Option Nat          -- entry `active` with this value

/-- per-thread program counter: what the thread does at its next atomic operation -/
inductive PC
  | idle
  | pushFA (v : Nat)
  | pushEager (i v : Nat)
  | pushLoad (i v : Nat)
  | pushCas (i v : Nat)
  | pushStore (i v : Nat)
  | extFA (rep : Nat) (vals : List Nat)
  | extEager (start rep : Nat) (vals : List Nat)
  | extLoad (start rep k : Nat) (vals : List Nat)
  | extCas (start rep k : Nat) (vals : List Nat)
  | extStore (start rep k : Nat) (vals : List Nat)
  | getLoad (i : Nat)
  | getActive (i : Nat)
  | countLoad
  | snapCount (start : Nat)
  | snapLoad (start : Nat)
  | iterLoad (idx end_ b e : Nat) (acc : List (Nat × Option Nat))
  | iterActive (idx end_ b e : Nat) (acc : List (Nat × Option Nat))
deriving Repr, DecidableEq

structure Thread where
  pc : PC
  ops : List Op
  results : List Res

def upd {α} (f : Nat → α) (k : Nat) (a : α) : Nat → α := fun x => if x = k then a else f x

/-- the yield-point name in front of the atomic operation a thread at `pc` is about to execute -/
def PC.site : PC → String
  | .idle => "-"
  | .pushFA _ => "push.fetch_add"
  | .pushEager .. => "alloc.cas"
  | .pushLoad .. => "push.load_entries"
  | .pushCas .. => "alloc.cas"
  | .pushStore .. => "push.store_active"
  | .extFA .. => "extend.fetch_add"
  | .extEager .. => "alloc.cas"
  | .extLoad .. => "extend.load_entries"
  | .extCas .. => "alloc.cas"
  | .extStore .. => "extend.store_active"
  | .getLoad _ => "get.load_entries"
  | .getActive _ => "get.load_active"
  | .countLoad => "count.load"
  | .snapCount _ => "count.load"
  | .snapLoad _ => "snapshot.load"
  | .iterLoad .. => "iter.load_entries"
  | .iterActive .. => "iter.load_active"

/-- begin an operation: either it completes without any atomic operation, or the thread parks
    in front of its first one -/
def startOp : Op → PC × Option Res
  | .push v => (.pushFA v, none)
  | .extend rep vals =>
    if rep = 0 then (.idle, some (if vals.isEmpty then .ok else .panic))
    else (.extFA rep vals, none)
  | .get i => (.getLoad i, none)
  | .count => (.countLoad, none)
  | .snapshot start => (.snapCount start, none)

/-- continue the `extend` loop after item `k-1` has been published: next item, end, or the
    `assert!(i < count)` panic -/
def extNext (start rep k : Nat) (vals : List Nat) : PC × Option Res :=
  match vals with
  | [] => (.idle, some .ok)
  | _ :: _ =>
    if k ≥ rep then (.idle, some .panic)
    else if entryOf (start + k) = 0 ∧ k ≠ 0 then (.extLoad start rep k vals, none)
    else (.extStore start rep k vals, none)

/-- after the bucket of item `k` is known to be allocated: item 0 enters the loop here (end / panic /
    store), later items go straight to their store -/
def extAfterLoad (start rep k : Nat) (vals : List Nat) : PC × Option Res :=
  if k = 0 then
    match vals with
    | [] => (.idle, some .ok)
    | _ :: _ => if k ≥ rep then (.idle, some .panic) else (.extStore start rep k vals, none)
  else (.extStore start rep k vals, none)

/-- `Iter::next` bookkeeping after yielding index `idx` -/
def iterNext (idx end_ b e : Nat) (acc : List (Nat × Option Nat)) : PC × Option Res :=
  if idx = end_ then (.idle, some (.snap end_ acc.reverse)) else (.iterLoad idx end_ b e acc, none)

/-- the effect of one atomic operation on the shared memory -/
inductive Eff
  | nop
  | fa (k : Nat)              -- `inflight.fetch_add(k)`
  | pub (b : Nat)             -- bucket `b` published (CAS from null succeeded, or already non-null)
  | wr (i v : Nat)            -- entry `i` written and marked active
deriving Repr, DecidableEq

def Eff.apply (s : Shared) : Eff → Shared
  | .nop => s
  | .fa k => { s with inflight := s.inflight + k }
  | .pub b => { s with bucket := upd s.bucket b true }
  | .wr i v => { s with slot := upd s.slot i (some v) }

/-- which effect the atomic operation of a thread at `pc` has -/
def effOf : PC → Eff
  | .pushFA _ => .fa 1
  | .pushEager i _ => .pub (bucketOf i + 1)
  | .pushCas i _ => .pub (bucketOf i)
  | .pushStore i v => .wr i v
  | .extFA rep _ => .fa rep
  | .extEager start rep _ => .pub (bucketOf (start + rep) + 1)
  | .extCas start _ k _ => .pub (bucketOf (start + k))
  | .extStore start _ k (v :: _) => .wr (start + k) v
  | _ => .nop

/-- where the thread continues (and what the operation returns if it completes); loads read the
    shared memory **before** the step -/
def nextOf (s : Shared) : PC → PC × Option Res
  | .idle => (.idle, none)
  | .pushFA v =>
    let i := s.inflight
    if i = allocEntry (bucketOf i) ∧ bucketOf i + 1 < BUCKETS then (.pushEager i v, none) else (.pushLoad i v, none)
  | .pushEager i v => (.pushLoad i v, none)
  | .pushLoad i v => if s.bucket (bucketOf i) then (.pushStore i v, none) else (.pushCas i v, none)
  | .pushCas i v => (.pushStore i v, none)
  | .pushStore i _ => (.idle, some (.idx i))
  | .extFA rep vals =>
    let start := s.inflight
    let eb := bucketOf (start + rep)
    if entryOf (start + rep) ≥ allocEntry eb ∧ (bucketOf start ≠ eb ∨ entryOf start ≤ allocEntry eb) ∧ eb + 1 < BUCKETS
    then (.extEager start rep vals, none) else (.extLoad start rep 0 vals, none)
  | .extEager start rep vals => (.extLoad start rep 0 vals, none)
  | .extLoad start rep k vals =>
    if s.bucket (bucketOf (start + k)) then extAfterLoad start rep k vals else (.extCas start rep k vals, none)
  | .extCas start rep k vals => extAfterLoad start rep k vals
  | .extStore start rep k vals =>
    match vals with
    | [] => (.idle, some .ok)
    | _ :: rest => extNext start rep (k + 1) rest
  | .getLoad i => if s.bucket (bucketOf i) then (.getActive i, none) else (.idle, some .none)
  | .getActive i =>
    match s.slot i with
    | some v => (.idle, some (.val v))
    | none => (.idle, some .none)
  | .countLoad => (.idle, some (.cnt (min s.inflight MAX_ENTRIES)))
  | .snapCount start => if start > min s.inflight MAX_ENTRIES then (.idle, some .skip) else (.snapLoad start, none)
  | .snapLoad start => iterNext start (min s.inflight MAX_ENTRIES) (bucketOf start) (entryOf start) []
  | .iterLoad idx end_ b e acc =>
    if e < bucketLen b then
      if s.bucket b then (.iterActive idx end_ b e acc, none)
      else iterNext (idx + 1) end_ b (e + 1) ((idx, none) :: acc)
    else (.iterLoad idx end_ (b + 1) 0 acc, none)
  | .iterActive idx end_ b e acc => iterNext (idx + 1) end_ b (e + 1) ((idx, s.slot idx) :: acc)

/-- one atomic step of a thread at `pc`: new shared state, new pc, result if the operation completed -/
def stepPC (s : Shared) (pc : PC) : Shared × PC × Option Res :=
  ((effOf pc).apply s, nextOf s pc)

/-- bring a thread to its next atomic operation: start queued operations until one parks -/
def settle : (fuel : Nat) → Thread → Thread
  | 0, t => t
  | fuel + 1, t =>
    match t.pc, t.ops with
    | .idle, op :: rest =>
      let (pc, r) := startOp op
      match r with
      | some res => settle fuel { pc := .idle, ops := rest, results := t.results ++ [res] }
      | none => { pc := pc, ops := rest, results := t.results }
    | _, _ => t

/-- thread `t` performs its next atomic operation -/
def stepThread (s : Shared) (t : Thread) : Shared × Thread :=
  let (s', pc, r) := stepPC s t.pc
  let t' : Thread := match r with
    | some res => { pc := pc, ops := t.ops, results := t.results ++ [res] }
    | none => { t with pc := pc }
  (s', settle (t'.ops.length + 1) t')

/-- `Vec::with_capacity(cap, _)`: buckets `0 ..= bucket(cap)` are allocated (bucket 0 for `cap = 0`) -/
def initShared (cap : Nat) : Shared :=
  { inflight := 0, bucket := fun b => decide (b ≤ (if cap = 0 then 0 else bucketOf cap)), slot := fun _ => none }

end NucleoVerif.Bx
