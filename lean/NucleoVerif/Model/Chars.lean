import NucleoVerif.Gen.Tables
import NucleoVerif.Gen.Consts
/-! Model of `matcher/src/chars.rs` (+ the generated tables): character classes, case
folding, Latin normalization, and the two per-character normalization routines the
matcher uses (`Char::normalize` and `Char::char_class_and_normalize`).

Characters are code points (`Nat`).  A string held in the ASCII representation is a list
of code points `< 128`; which representation a string is in is a separate `Rep` flag,
because the code dispatches on it.

External behaviour taken as a parameter: Rust std's `char::is_lowercase`, `is_numeric`,
`is_alphabetic` for non-ASCII characters (`Ext`).  `char::is_whitespace` is a fixed set
(`White_Space` property) and is modelled directly. -/
namespace NucleoVerif
open Gen

inductive CharClass | whitespace | nonWord | delimiter | lower | upper | letter | number
deriving DecidableEq, Repr, Inhabited

/-- position in the `enum CharClass` declaration (`derive(PartialOrd)`) -/
def CharClass.rank : CharClass → Nat
  | .whitespace => 0 | .nonWord => 1 | .delimiter => 2 | .lower => 3
  | .upper => 4 | .letter => 5 | .number => 6

def CharClass.name : CharClass → String
  | .whitespace => "whitespace" | .nonWord => "nonWord" | .delimiter => "delimiter" | .lower => "lower"
  | .upper => "upper" | .letter => "letter" | .number => "number"

def CharClass.all : List CharClass := [.whitespace, .nonWord, .delimiter, .lower, .upper, .letter, .number]

structure Cfg where
  delims : List Nat
  white : Nat
  delim : Nat
  initial : CharClass
  normalize : Bool
  ignoreCase : Bool
  preferPrefix : Bool
deriving Repr, DecidableEq

/-- the three std predicates the code consults for non-ASCII characters -/
structure ExtBits where
  isLower : Bool
  isNumeric : Bool
  isAlpha : Bool
deriving Repr, DecidableEq, Inhabited

abbrev Ext := Nat → ExtBits

inductive Rep | ascii | unicode
deriving DecidableEq, Repr, Inhabited

/-! ### case folding: binary search over the generated table -/

def foldKey (i : Nat) : Nat := tblGet FOLD_KEYS FOLD_len i
def foldVal (i : Nat) : Nat := tblGet FOLD_VALS FOLD_len i

/-- binary search on `[lo, hi)` for `c` in a key function; mirrors `binary_search_by_key`
    (only the found/not-found outcome and the index of the unique match matter, the table is
    strictly sorted — theorem `fold_sorted`). -/
def bsearch (key : Nat → Nat) (c : Nat) : (fuel lo hi : Nat) → Option Nat
  | 0, _, _ => none
  | fuel+1, lo, hi =>
    if lo < hi then
      let mid := (lo + hi) / 2
      let k := key mid
      if k = c then some mid
      else if k < c then bsearch key c fuel (mid + 1) hi
      else bsearch key c fuel lo mid
    else none

def foldSearch (c : Nat) : Option Nat := bsearch foldKey c (FOLD_len + 1) 0 FOLD_len

/-- `chars::to_lower_case` -/
def toLower (c : Nat) : Nat :=
  match foldSearch c with
  | some i => foldVal i
  | none => c

/-- `chars::is_upper_case` -/
def isUpper (c : Nat) : Bool := (foldSearch c).isSome

/-! ### character classes -/

def isAsciiWs (c : Nat) : Bool := c = 0x20 || c = 0x09 || c = 0x0A || c = 0x0C || c = 0x0D

/-- `char::is_whitespace` (Unicode `White_Space`) -/
def isWs (c : Nat) : Bool :=
  c = 0x20 || (0x09 ≤ c && c ≤ 0x0D) || c = 0x85 || c = 0xA0 || c = 0x1680 ||
  (0x2000 ≤ c && c ≤ 0x200A) || c = 0x2028 || c = 0x2029 || c = 0x202F || c = 0x205F || c = 0x3000

/-- `AsciiChar::char_class` -/
def charClassAscii (cfg : Cfg) (c : Nat) : CharClass :=
  if 97 ≤ c ∧ c ≤ 122 then .lower
  else if 65 ≤ c ∧ c ≤ 90 then .upper
  else if 48 ≤ c ∧ c ≤ 57 then .number
  else if isAsciiWs c then .whitespace
  else if cfg.delims.contains c then .delimiter
  else .nonWord

/-- `char_class_non_ascii` -/
def charClassNonAscii (ext : Ext) (c : Nat) : CharClass :=
  if (ext c).isLower then .lower
  else if isUpper c then .upper
  else if (ext c).isNumeric then .number
  else if (ext c).isAlpha then .letter
  else if isWs c then .whitespace
  else .nonWord

/-- `Char::char_class` (both impls: the `char` impl defers to the ASCII one for ASCII) -/
def charClass (cfg : Cfg) (ext : Ext) (c : Nat) : CharClass :=
  if c < 128 then charClassAscii cfg c else charClassNonAscii ext c

/-! ### the two normalization routines -/

/-- `<AsciiChar as Char>::normalize` -/
def normAscii (cfg : Cfg) (c : Nat) : Nat :=
  if cfg.ignoreCase ∧ 65 ≤ c ∧ c ≤ 90 then c + 32 else c

/-- `<char as Char>::normalize` -/
def normChar (cfg : Cfg) (c : Nat) : Nat :=
  let c := if cfg.normalize then normalizeLatin c else c
  if cfg.ignoreCase then toLower c else c

/-- `Char::normalize` by representation -/
def norm (cfg : Cfg) (r : Rep) (c : Nat) : Nat :=
  match r with
  | .ascii => normAscii cfg c
  | .unicode => normChar cfg c

/-- `<AsciiChar as Char>::char_class_and_normalize` (character part) -/
def cnormAscii (cfg : Cfg) (c : Nat) : Nat :=
  if cfg.ignoreCase ∧ charClassAscii cfg c = .upper then c + 32 else c

/-- `<char as Char>::char_class_and_normalize` (character part) -/
def cnormChar (cfg : Cfg) (c : Nat) : Nat :=
  if c < 128 then cnormAscii cfg c
  else
    let c := if cfg.normalize then normalizeLatin c else c
    if cfg.ignoreCase then toLower c else c

def cnorm (cfg : Cfg) (r : Rep) (c : Nat) : Nat :=
  match r with
  | .ascii => cnormAscii cfg c
  | .unicode => cnormChar cfg c

end NucleoVerif
