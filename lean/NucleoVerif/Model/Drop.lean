import NucleoVerif.Model.Boxcar
/-! Model of item destruction (`Drop for Vec`, `Bucket::dealloc`, unwinding out of a panicking
fill callback) on top of the boxcar model.  A sequential history of `push` / `extend` (honest or
lying about its length, with a fill callback that may panic at a given item) followed by
dropping the vector; the model tracks how often each value has been dropped. -/
namespace NucleoVerif.Bx
open Gen

/-- `Drop for Vec`: the buckets the loop reaches (translated from the source: `break` or `continue`
    at a null bucket pointer) -/
def dropVisited (bucket : Nat → Bool) : List Nat :=
  if dropStopsAtNull then (List.range BUCKETS).takeWhile bucket
  else (List.range BUCKETS).filter bucket

/-- `Bucket::dealloc` over the visited buckets: the values dropped, among the indices `< n`
    (every active entry of a visited bucket) -/
def dropVec (s : Shared) (n : Nat) : List Nat :=
  (List.range n).filterMap fun i =>
    if (dropVisited s.bucket).contains (bucketOf i) then s.slot i else none

/-- sequential operations with fill callbacks that may panic: `panicAt = some k` = the callback panics
    for the `k`-th item of the batch (0 for a single push) -/
inductive DOp
  | push (v : Nat) (panics : Bool)
  | extend (reported : Nat) (vals : List Nat) (panicAt : Option Nat)
deriving Repr

/-- publish the bucket of index `i` and write the entry (what a push / a batch does for one item) -/
def writeItem (s : Shared) (i v : Nat) : Shared := (Eff.wr i v).apply ((Eff.pub (bucketOf i)).apply s)

/-- the eager allocation of the next bucket -/
def eagerPush (s : Shared) (i : Nat) : Shared :=
  if i = allocEntry (bucketOf i) ∧ bucketOf i + 1 < BUCKETS then (Eff.pub (bucketOf i + 1)).apply s else s

def eagerExtend (s : Shared) (start rep : Nat) : Shared :=
  if entryOf (start + rep) ≥ allocEntry (bucketOf (start + rep)) ∧
      (bucketOf start ≠ bucketOf (start + rep) ∨ entryOf start ≤ allocEntry (bucketOf (start + rep))) ∧
      bucketOf (start + rep) + 1 < BUCKETS
  then (Eff.pub (bucketOf (start + rep) + 1)).apply s else s

/-- how many items of a batch are written before it stops (panic of the callback, `assert!(i < count)`,
    or end of the iterator) -/
def stopAt (rep : Nat) (vals : List Nat) (panicAt : Option Nat) : Nat :=
  match panicAt with
  | some k => min k (min vals.length rep)
  | none => min vals.length rep

/-- run one operation to completion on an otherwise idle vector (sequential history): returns the new
    shared state and the values dropped *during* the operation (by unwinding) -/
def runDOp (s : Shared) : DOp → Shared × List Nat
  | .push v panics =>
    let i := s.inflight
    let s3 := (Eff.pub (bucketOf i)).apply (eagerPush ((Eff.fa 1).apply s) i)
    -- a panicking callback: `value` is dropped while unwinding, the entry is never marked active
    if panics then (s3, [v]) else ((Eff.wr i v).apply s3, [])
  | .extend rep vals panicAt =>
    if rep = 0 then (s, vals)           -- nothing reserved; the iterator (and its items) is dropped
    else
      let start := s.inflight
      let s2 := eagerExtend ((Eff.fa rep).apply s) start rep
      let k := stopAt rep vals panicAt
      let s3 := ((vals.take k).zipIdx).foldl (fun (acc : Shared) (p : Nat × Nat) => writeItem acc (start + p.2) p.1) s2
      -- the bucket of the item being processed when the batch stops is allocated before its callback runs
      let s4 := if k < vals.length ∧ k < rep ∨ k = 0 then (Eff.pub (bucketOf (start + k))).apply s3 else s3
      -- the item whose callback panicked and everything the iterator still held is dropped
      (s4, vals.drop k)

def runDOps (cap : Nat) (ops : List DOp) : Shared × List Nat :=
  ops.foldl (fun (acc : Shared × List Nat) op =>
    let r := runDOp acc.1 op
    (r.1, acc.2 ++ r.2)) (initShared cap, [])

end NucleoVerif.Bx
