import NucleoVerif.Model.Score
import NucleoVerif.Gen.Layout
/-! Model of the matcher entry points (`matcher/src/{lib,prefilter,fuzzy_greedy,fuzzy_optimal,exact,matrix}.rs`).

A result is `Option (score × indices)`; the score-only variants return the same score (in
the code they are the same generic function with `INDICES = false`).  Haystack and needle
are lists of code points plus their representation.

Modelling level of the optimal matcher (see DESIGN.md, C04): the documented two-matrix
affine-gap recurrence evaluated naively on the whole prefiltered window, cells carrying the
alignment they stand for; the single-row/offset compression of `score_row` and the two-bit
back-pointer matrix are *not* modelled — the correspondence check ties them to this model. -/
namespace NucleoVerif
open Gen

abbrev MRes := Option (Nat × List Nat)

/-! ### slab allocation guard (`MatrixSlab::alloc`) -/

def roundUp (x a : Nat) : Nat := (x + a - 1) / a * a

/-- `MatrixLayout::new(h, n).layout.size()` for character size `cs` (1 = ASCII, 4 = `char`) -/
def layoutOffsets (cs h n : Nat) : List Nat × Nat :=
  let parts : List (Nat × Nat) :=
    [ (elemSize_haystack cs, layoutCount_haystack h n), (elemSize_bonus cs, layoutCount_bonus h n),
      (elemSize_rows cs, layoutCount_rows h n), (elemSize_score cs, layoutCount_score h n),
      (elemSize_matrix cs, layoutCount_matrix h n) ]
  parts.foldl (fun (acc : List Nat × Nat) (p : Nat × Nat) =>
      let off := roundUp acc.2 p.1          -- alignment = element size for all five element types
      (acc.1 ++ [off], off + p.1 * p.2)) ([], 0)

def layoutSize (cs h n : Nat) : Nat := (layoutOffsets cs h n).2

/-- does `MatrixSlab::alloc` hand out a matrix for a window of `w` characters and `n` needle chars? -/
def slabFits (cs w n : Nat) : Bool :=
  !(w * n > MAX_MATRIX_SIZE || w > 65535 || n > MAX_NEEDLE_LEN) && !(layoutSize cs w n > slabSize)

def charSize : Rep → Nat
  | .ascii => 1
  | .unicode => 4

/-! ### prefilters (`prefilter.rs`) -/

def findIdx (p : Nat → Bool) : List Nat → Option Nat
  | [] => none
  | c :: cs => if p c then some 0 else (findIdx p cs).map (· + 1)

/-- index of the last element satisfying `p` -/
def rfindIdx (p : Nat → Bool) (l : List Nat) : Option Nat :=
  (findIdx p l.reverse).map (fun i => l.length - 1 - i)

/-- `find_ascii_ignore_case` / `memchr`, by `ignore_case` -/
def asciiEq (ic : Bool) (c x : Nat) : Bool :=
  x = c || (ic && 97 ≤ c && c ≤ 122 && x = c - 32)

/-- the forward scan over `needle[1..]` -/
def asciiGreedyScan (ic : Bool) : List Nat → List Nat → Nat → Option (Nat × List Nat)
  | [], hay, ge => some (ge, hay)
  | c :: cs, hay, ge =>
    match findIdx (asciiEq ic c) hay with
    | none => none
    | some i => asciiGreedyScan ic cs (hay.drop (i + 1)) (ge + i + 1)

/-- `Matcher::prefilter_ascii` → (start, greedy_end, end) -/
def prefilterAscii (cfg : Cfg) (h n : List Nat) (onlyGreedy : Bool) : Option (Nat × Nat × Nat) :=
  match n with
  | [] => none
  | n0 :: ns =>
    match findIdx (asciiEq cfg.ignoreCase n0) (h.take (h.length - n.length + 1)) with
    | none => none
    | some start =>
      match asciiGreedyScan cfg.ignoreCase ns (h.drop (start + 1)) (start + 1) with
      | none => none
      | some (ge, rest) =>
        if onlyGreedy then some (start, ge, ge)
        else
          let last := n.getLast?.getD n0
          let e := ge + (match rfindIdx (asciiEq cfg.ignoreCase last) rest with | some i => i + 1 | none => 0)
          some (start, ge, e)

/-- `Matcher::prefilter_non_ascii` → (start, end) -/
def prefilterNonAscii (cfg : Cfg) (h n : List Nat) (onlyGreedy : Bool) : Option (Nat × Nat) :=
  match n with
  | [] => none
  | n0 :: _ =>
    match findIdx (fun c => normChar cfg c = n0) (h.take (h.length - n.length + 1)) with
    | none => none
    | some start =>
      let last := n.getLast?.getD n0
      if onlyGreedy then
        if h.length - start < n.length then none else some (start, start + 1)
      else
        match findIdx (fun c => normChar cfg c = last) (h.drop (start + 1)).reverse with
        | none => none
        | some p =>
          let e := h.length - p
          if e - start < n.length then none else some (start, e)

/-! ### greedy (`fuzzy_greedy.rs`) -/

/-- forward scan of `needle[1..]` over `haystack[first_char_end..]`; returns how many haystack
    characters were consumed up to and including the match of the last needle character -/
def greedyFwd (cfg : Cfg) (hrep : Rep) : List Nat → List Nat → Nat → Option Nat
  | [], _, k => some k
  | _ :: _, [], _ => none
  | nc :: ns, c :: cs, k =>
    if norm cfg hrep c = nc then
      match ns with
      | [] => some (k + 1)
      | _ => greedyFwd cfg hrep ns cs (k + 1)
    else greedyFwd cfg hrep (nc :: ns) cs (k + 1)

/-- backward scan: needle reversed over `haystack[start..end]` reversed; returns the offset `i` of
    the haystack position where the reversed needle was exhausted (`start += i`) -/
def greedyBwd (cfg : Cfg) (hrep : Rep) : List Nat → List (Nat × Nat) → Option Nat
  | [], _ => none
  | _ :: _, [] => none
  | nc :: ns, (i, c) :: cs =>
    if norm cfg hrep c = nc then
      match ns with
      | [] => some i
      | _ => greedyBwd cfg hrep ns cs
    else greedyBwd cfg hrep (nc :: ns) cs

def enumFrom (k : Nat) : List Nat → List (Nat × Nat)
  | [] => []
  | c :: cs => (k, c) :: enumFrom (k + 1) cs

/-- `Matcher::fuzzy_match_greedy_` -/
def fuzzyGreedyInner (cfg : Cfg) (ext : Ext) (hrep nrep : Rep) (h n : List Nat) (start end_ : Nat) : MRes :=
  let bothAscii := hrep = .ascii ∧ nrep = .ascii
  let firstCharEnd := if bothAscii then start + 1 else end_
  let endOpt : Option Nat :=
    if bothAscii then some end_
    else
      match n.drop 1 with
      | [] => some end_
      | ns => (greedyFwd cfg hrep ns (h.drop firstCharEnd) 0).map (fun k => firstCharEnd + k)
  match endOpt with
  | none => none
  | some e =>
    let window := (h.drop start).take (e - start)
    let start' := match greedyBwd cfg hrep n.reverse (enumFrom 0 window).reverse with
      | some i => start + i
      | none => start
    some (calculateScore cfg ext hrep h n start' e)

/-! ### optimal (`fuzzy_optimal.rs`), naive path-carrying recurrence -/

structure Cell where
  score : Nat
  consec : Nat
  path : List Nat      -- alignment so far (absolute haystack indices, ascending)
deriving Repr, DecidableEq

structure PCell where
  score : Nat
  path : List Nat
deriving Repr, DecidableEq

/-- mirror of `p_score` (`none` = no alignment ends before this column; the code's 0 scores from
    `UNMATCHED`/initial values never win against a real cell because real scores stay ≥ 16 − gaps…
    the correspondence check validates this reading) -/
def pScore (prevM : Option Cell) (p : Option PCell) : Option PCell :=
  match prevM, p with
  | none, none => none
  | some m, none => some ⟨m.score - PENALTY_GAP_START, m.path⟩
  | none, some q => some ⟨q.score - PENALTY_GAP_EXTENSION, q.path⟩
  | some m, some q =>
    if m.score - PENALTY_GAP_START > q.score - PENALTY_GAP_EXTENSION then some ⟨m.score - PENALTY_GAP_START, m.path⟩
    else some ⟨q.score - PENALTY_GAP_EXTENSION, q.path⟩

/-- mirror of `next_m_cell`; `col` is the absolute index being matched, `b` its bonus -/
def nextM (p : Option PCell) (b : Nat) (m : Option Cell) (col : Nat) : Option Cell :=
  match m, p with
  | none, none => none
  | none, some q => some ⟨q.score + b + SCORE_MATCH, b, q.path ++ [col]⟩
  | some c, p =>
    let cb0 := max c.consec BONUS_CONSECUTIVE
    let cb := if b ≥ BONUS_BOUNDARY ∧ b > cb0 then b else cb0
    let scoreMatch := c.score + max cb b
    match p with
    | some q =>
      if scoreMatch > q.score + b then some ⟨scoreMatch + SCORE_MATCH, cb, c.path ++ [col]⟩
      else some ⟨q.score + b + SCORE_MATCH, b, q.path ++ [col]⟩
    | none => some ⟨scoreMatch + SCORE_MATCH, cb, c.path ++ [col]⟩

/-- one window column: (absolute index, normalized char, bonus) -/
structure Col where
  idx : Nat
  ch : Nat
  bonus : Nat
deriving Repr

/-- the columns of the window `h[start..end]` as `setup` computes them -/
def windowCols (cfg : Cfg) (ext : Ext) (hrep : Rep) (h : List Nat) (start end_ : Nat) : List Col :=
  let rec go (prev : CharClass) (idx : Nat) : List Nat → List Col
    | [] => []
    | c :: cs =>
      let cls := charClass cfg ext c
      ⟨idx, cnorm cfg hrep c, bonusFor cfg prev cls⟩ :: go cls (idx + 1) cs
  go (prevClassAt cfg ext h start) start ((h.drop start).take (end_ - start))

/-- the greedy forward scan of `setup` that decides `matched` -/
def setupMatched : List Nat → List Col → Bool
  | [], _ => true
  | _ :: _, [] => false
  | nc :: ns, c :: cs => if c.ch = nc then setupMatched ns cs else setupMatched (nc :: ns) cs

/-- prefix bonus values per window column (`prefix_bonus / PREFIX_BONUS_SCALE`, decremented per column) -/
def prefixStart (cfg : Cfg) (start : Nat) : Nat :=
  if cfg.preferPrefix then
    if start = 0 then MAX_PREFIX_BONUS * PREFIX_BONUS_SCALE
    else (MAX_PREFIX_BONUS * PREFIX_BONUS_SCALE - PENALTY_GAP_START) - (min (start - 1) 65535) * PENALTY_GAP_EXTENSION
  else 0

/-- first row: `M(0, j)` -/
def firstRow (n0 : Nat) : List Col → Nat → List (Option Cell)
  | [], _ => []
  | c :: cs, pb =>
    (if c.ch = n0 then some ⟨c.bonus * BONUS_FIRST_CHAR_MULTIPLIER + SCORE_MATCH + pb / PREFIX_BONUS_SCALE, c.bonus, [c.idx]⟩ else none)
      :: firstRow n0 cs (pb - PENALTY_GAP_EXTENSION)

/-- row `i` (cells aligned with `cols`) ↦ row `i+1`: cell for column `j+1` from `M(i,j)` and `P(i,j)`.
    `prevM` = `M(i, j-1)`, `p` = `P(i, j-1)`; the first column of the next row is always `none`. -/
def nextRowGo (nc : Nat) : List (Option Cell) → List Col → Option Cell → Option PCell → List (Option Cell)
  | mj :: ms, _cj :: (cj1 :: cs), prevM, p =>
    let p' := pScore prevM p
    (if cj1.ch = nc then nextM p' cj1.bonus mj cj1.idx else none) :: nextRowGo nc ms (cj1 :: cs) mj p'
  | _, _, _, _ => []

def nextRow (nc : Nat) (row : List (Option Cell)) (cols : List Col) : List (Option Cell) :=
  match cols with
  | [] => []
  | _ => none :: nextRowGo nc row cols none none

def allRows (cols : List Col) : List Nat → List (Option Cell) → List (Option Cell)
  | [], row => row
  | nc :: ns, row => allRows cols ns (nextRow nc row cols)

/-- `max_by_key(score)` over the last row: the **last** maximal cell -/
def bestCell : List (Option Cell) → Option Cell → Option Cell
  | [], best => best
  | none :: cs, best => bestCell cs best
  | some c :: cs, none => bestCell cs (some c)
  | some c :: cs, some b => bestCell cs (if c.score ≥ b.score then some c else some b)

/-- the naive DP over the window -/
def optimalDP (cfg : Cfg) (ext : Ext) (hrep : Rep) (h n : List Nat) (start end_ : Nat) : MRes :=
  match n with
  | [] => none
  | n0 :: ns =>
    let cols := windowCols cfg ext hrep h start end_
    if !setupMatched n cols then none
    else
      let row0 := firstRow n0 cols (prefixStart cfg start)
      let last := allRows cols ns row0
      (bestCell last none).map (fun c => (c.score, c.path))

/-- `Matcher::fuzzy_match_optimal` -/
def fuzzyOptimal (cfg : Cfg) (ext : Ext) (hrep nrep : Rep) (h n : List Nat) (start greedyEnd end_ : Nat) : MRes :=
  if slabFits (charSize hrep) (end_ - start) n.length then optimalDP cfg ext hrep h n start end_
  else fuzzyGreedyInner cfg ext hrep nrep h n start greedyEnd

/-! ### exact / substring (`exact.rs`, `lib.rs`) -/

/-- `Matcher::exact_match_impl` -/
def exactImpl (cfg : Cfg) (ext : Ext) (hrep nrep : Rep) (h n : List Nat) (start end_ : Nat) : MRes :=
  if n.length ≠ end_ - start then none
  else
    let win := (h.drop start).take (end_ - start)
    let matched : Bool :=
      match hrep, nrep with
      | .ascii, .ascii =>
        if cfg.ignoreCase then win.map (normAscii cfg) == n.map (normAscii cfg) else win == n
      | .ascii, .unicode => false
      | .unicode, .ascii => win.map (normChar cfg) == n.map (normAscii cfg)
      | .unicode, .unicode => win.map (normChar cfg) == n.map (normChar cfg)
    if matched then some (calculateScore cfg ext hrep h n start end_) else none

/-- the largest bonus `bonus_for` can return under this configuration ("can't get better") -/
def maxBonus (cfg : Cfg) : Nat := max cfg.white cfg.delim

/-- scan state shared by the `substring_match_*` candidate loops: (max_score, max_pos, stop) -/
structure Best where
  score : Nat
  pos : Nat
  stop : Bool

/-- candidate at `pos` with first-character `bonus`, accepted only if `ok` -/
def Best.offer (cfg : Cfg) (b : Best) (pos bonus : Nat) (ok : Bool) : Best :=
  if b.stop then b
  else if bonus * BONUS_FIRST_CHAR_MULTIPLIER + SCORE_MATCH > b.score ∧ ok then
    ⟨bonus * BONUS_FIRST_CHAR_MULTIPLIER + SCORE_MATCH, pos, decide (bonus ≥ maxBonus cfg)⟩
  else b

/-- `substring_match_1_ascii` -/
def substring1Ascii (cfg : Cfg) (ext : Ext) (h : List Nat) (c : Nat) : MRes :=
  let rec go (b : Best) (prev : CharClass) (pos : Nat) : List Nat → Best
    | [] => b
    | x :: xs =>
      let cls := charClassAscii cfg x
      let b' := if asciiEq cfg.ignoreCase c x then b.offer cfg pos (bonusFor cfg prev cls) true else b
      go b' cls (pos + 1) xs
  let _ := ext
  let b := go ⟨0, 0, false⟩ cfg.initial 0 h
  if b.score = 0 then none else some (b.score, [b.pos])

/-- `substring_match_1_non_ascii(haystack, needle, start)`; returns the raw `u16` and the index pushed -/
def substring1NonAscii (cfg : Cfg) (ext : Ext) (h : List Nat) (c : Nat) (start : Nat) : Nat × List Nat :=
  let rec go (b : Best) (prev : CharClass) (pos : Nat) : List Nat → Best
    | [] => b
    | x :: xs =>
      let cls := charClass cfg ext x
      let b' := if cnormChar cfg x = c then b.offer cfg pos (bonusFor cfg prev cls) true else b
      go b' cls (pos + 1) xs
  let b := go ⟨0, 0, false⟩ (prevClassAt cfg ext h start) 0 (h.drop start)
  (b.score, [b.pos + start])

/-- does `needle[k..]` equal the normalized haystack at `pos + k ..`, where `suffix = h[pos..]` (ASCII haystack)? -/
def restEqAscii (cfg : Cfg) (suffix n : List Nat) (k : Nat) : Bool :=
  ((suffix.drop k).take (n.length - k)).map (normAscii cfg) == n.drop k

/-- how many leading needle characters the prefilter of `substring_match_ascii` has already compared, and whether it
    is the case-insensitive single-character prefilter -/
def substringKIC (cfg : Cfg) (n : List Nat) : Nat × Bool :=
  match (if cfg.ignoreCase then findIdx (fun c => 97 ≤ c && c ≤ 122) n else none) with
  | some 0 => (1, true)
  | some 1 => (1, false)
  | some len => (len, false)
  | none => (n.length, false)

/-- `substring_match_ascii` -/
def substringAscii (cfg : Cfg) (ext : Ext) (h n : List Nat) : MRes :=
  let k := (substringKIC cfg n).1
  let ic := (substringKIC cfg n).2
  let limit := h.length - n.length + 1
  let rec go (b : Best) (prev : CharClass) (pos : Nat) : List Nat → Best
    | [] => b
    | x :: xs =>
      let cls := charClassAscii cfg x
      let cand : Bool := pos < limit &&
        (if ic then asciiEq true (n.headD 0) x else ((x :: xs).take k == n.take k))
      let b' := if cand then b.offer cfg pos (bonusFor cfg prev cls) (restEqAscii cfg (x :: xs) n k) else b
      go b' cls (pos + 1) xs
  let b := go ⟨0, 0, false⟩ cfg.initial 0 h
  if b.score = 0 then none else some (calculateScore cfg ext .ascii h n b.pos (b.pos + n.length))

/-- `substring_match_non_ascii(haystack, needle, start)` -/
def substringNonAscii (cfg : Cfg) (ext : Ext) (nrep : Rep) (h n : List Nat) (start : Nat) : MRes :=
  let _ := nrep
  let limit := h.length - n.length + 1
  let rec go (b : Best) (prev : CharClass) (pos : Nat) : List Nat → Best
    | [] => b
    | x :: xs =>
      let cls := charClass cfg ext x
      let cand : Bool := pos < limit && cnormChar cfg x = n.headD 0
      let b' := if cand then b.offer cfg pos (bonusFor cfg prev cls)
                    ((xs.take (n.length - 1)).map (normChar cfg) == n.drop 1) else b
      go b' cls (pos + 1) xs
  let b := go ⟨0, 0, false⟩ (prevClassAt cfg ext h start) start (h.drop start)
  if b.score = 0 then none else some (calculateScore cfg ext .unicode h n b.pos (b.pos + n.length))

/-! ### public entry points -/

/-- `Matcher::fuzzy_matcher_impl` (`fuzzy_match` / `fuzzy_indices`) -/
def fuzzyMatch (cfg : Cfg) (ext : Ext) (hrep nrep : Rep) (h n : List Nat) : MRes :=
  if n.length > h.length then none
  else if n.isEmpty then some (0, [])
  else if n.length = h.length then exactImpl cfg ext hrep nrep h n 0 h.length
  else
    match hrep, nrep with
    | .ascii, .ascii =>
      match n with
      | [c] => substring1Ascii cfg ext h c
      | _ =>
        match prefilterAscii cfg h n false with
        | none => none
        | some (start, ge, e) =>
          if n.length = e - start then some (calculateScore cfg ext .ascii h n start ge)
          else fuzzyOptimal cfg ext .ascii .ascii h n start ge e
    | .ascii, .unicode => none
    | .unicode, nrep =>
      match n with
      | [c] =>
        match prefilterNonAscii cfg h n true with
        | none => none
        | some (start, _) => some (substring1NonAscii cfg ext h c start)
      | _ =>
        match prefilterNonAscii cfg h n false with
        | none => none
        | some (start, e) =>
          if n.length = e - start then exactImpl cfg ext .unicode nrep h n start e
          else fuzzyOptimal cfg ext .unicode nrep h n start (start + 1) e

/-- `Matcher::fuzzy_match_greedy_impl` -/
def fuzzyGreedy (cfg : Cfg) (ext : Ext) (hrep nrep : Rep) (h n : List Nat) : MRes :=
  if n.length > h.length then none
  else if n.isEmpty then some (0, [])
  else if n.length = h.length then exactImpl cfg ext hrep nrep h n 0 h.length
  else
    match hrep, nrep with
    | .ascii, .ascii =>
      match prefilterAscii cfg h n true with
      | none => none
      | some (start, ge, _) =>
        if n.length = ge - start then some (calculateScore cfg ext .ascii h n start ge)
        else fuzzyGreedyInner cfg ext .ascii .ascii h n start ge
    | .ascii, .unicode => none
    | .unicode, nrep =>
      match prefilterNonAscii cfg h n true with
      | none => none
      | some (start, _) => fuzzyGreedyInner cfg ext .unicode nrep h n start (start + 1)

/-- `Matcher::substring_match_impl` -/
def substringMatch (cfg : Cfg) (ext : Ext) (hrep nrep : Rep) (h n : List Nat) : MRes :=
  if n.length > h.length then none
  else if n.isEmpty then some (0, [])
  else if n.length = h.length then exactImpl cfg ext hrep nrep h n 0 h.length
  else
    match hrep, nrep with
    | .ascii, .ascii =>
      match n with
      | [c] => substring1Ascii cfg ext h c
      | _ => substringAscii cfg ext h n
    | .ascii, .unicode => none
    | .unicode, nrep =>
      match n with
      | [c] =>
        match prefilterNonAscii cfg h n true with
        | none => none
        | some (start, _) => some (substring1NonAscii cfg ext h c start)
      | _ =>
        match prefilterNonAscii cfg h n false with
        | none => none
        | some (start, _) => substringNonAscii cfg ext nrep h n start

/-- whitespace predicate used for trimming, by representation -/
def wsRep : Rep → Nat → Bool
  | .ascii => isAsciiWs
  | .unicode => isWs

/-- `Utf32Str::leading_white_space` (`position(!ws).unwrap_or(0)`) -/
def leadingWs (r : Rep) (h : List Nat) : Nat := (findIdx (fun c => !wsRep r c) h).getD 0
/-- `Utf32Str::trailing_white_space` -/
def trailingWs (r : Rep) (h : List Nat) : Nat := (findIdx (fun c => !wsRep r c) h.reverse).getD 0

/-- `Matcher::exact_match` / `exact_indices` -/
def exactMatch (cfg : Cfg) (ext : Ext) (hrep nrep : Rep) (h n : List Nat) : MRes :=
  match n with
  | [] => some (0, [])
  | n0 :: _ =>
    let lead := if !isWs n0 then leadingWs hrep h else 0
    let trail := if !isWs (n.getLast?.getD n0) then trailingWs hrep h else 0
    if trail = h.length then none
    else exactImpl cfg ext hrep nrep h n lead (h.length - trail)

/-- `Matcher::prefix_match` / `prefix_indices` -/
def prefixMatch (cfg : Cfg) (ext : Ext) (hrep nrep : Rep) (h n : List Nat) : MRes :=
  match n with
  | [] => some (0, [])
  | n0 :: _ =>
    let lead := if !isWs n0 then leadingWs hrep h else 0
    if h.length - lead < n.length then none
    else exactImpl cfg ext hrep nrep h n lead (n.length + lead)

/-- `Matcher::postfix_match` / `postfix_indices` -/
def postfixMatch (cfg : Cfg) (ext : Ext) (hrep nrep : Rep) (h n : List Nat) : MRes :=
  match n with
  | [] => some (0, [])
  | n0 :: _ =>
    let trail := if !isWs (n.getLast?.getD n0) then trailingWs hrep h else 0
    if h.length - trail < n.length then none
    else exactImpl cfg ext hrep nrep h n (h.length - n.length - trail) (h.length - trail)

inductive Algo | fuzzy | greedy | substring | prefix | postfix | exact
deriving DecidableEq, Repr, Inhabited

def Algo.run : Algo → Cfg → Ext → Rep → Rep → List Nat → List Nat → MRes
  | .fuzzy => fuzzyMatch
  | .greedy => fuzzyGreedy
  | .substring => substringMatch
  | .prefix => prefixMatch
  | .postfix => postfixMatch
  | .exact => exactMatch

end NucleoVerif
