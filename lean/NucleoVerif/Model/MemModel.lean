import NucleoVerif.Gen.Boxcar
/-! A release/acquire fragment of the C11 / Rust memory model, sufficient for the publication
protocol of the item vector, and the table of *roles* the atomic operations of the source play
in it.  The orderings come from `Gen.atomicSites`, i.e. from the source on this run. -/
namespace NucleoVerif.MM
open Gen

def isAcquire : MemOrd → Bool
  | .acquire | .acqRel | .seqCst => true
  | _ => false
def isRelease : MemOrd → Bool
  | .release | .acqRel | .seqCst => true
  | _ => false

/-- the atomic operations that take part in making item memory visible -/
inductive Role
  | activeStorePush | activeStoreExtend              -- `active.store(true)` after the entry was written
  | activeLoadGet | activeLoadGetUnchecked | activeLoadIter
  | entriesCasOk | entriesCasFail                    -- `get_or_alloc`: publish the bucket / adopt the winner's
  | entriesLoadPush | entriesLoadExtend0 | entriesLoadExtend1
  | entriesLoadGet | entriesLoadIter | entriesLoadGetUnchecked
deriving DecidableEq, Repr

/-- (function, receiver, operation, occurrence, index of the ordering argument) of each role in src/boxcar.rs -/
def Role.key : Role → String × String × String × Nat × Nat
  | .activeStorePush => ("push", "active", "store", 0, 0)
  | .activeStoreExtend => ("extend", "active", "store", 0, 0)
  | .activeLoadGet => ("get", "active", "load", 0, 0)
  | .activeLoadGetUnchecked => ("get_unchecked", "active", "load", 0, 0)
  | .activeLoadIter => ("next", "active", "load", 0, 0)
  | .entriesCasOk => ("get_or_alloc", "entries", "compare_exchange", 0, 0)
  | .entriesCasFail => ("get_or_alloc", "entries", "compare_exchange", 0, 1)
  | .entriesLoadPush => ("push", "entries", "load", 0, 0)
  | .entriesLoadExtend0 => ("extend", "entries", "load", 0, 0)
  | .entriesLoadExtend1 => ("extend", "entries", "load", 1, 0)
  | .entriesLoadGet => ("get", "entries", "load", 0, 0)
  | .entriesLoadIter => ("next", "entries", "load", 0, 0)
  | .entriesLoadGetUnchecked => ("get_unchecked", "entries", "load", 0, 0)

def Role.all : List Role :=
  [.activeStorePush, .activeStoreExtend, .activeLoadGet, .activeLoadGetUnchecked, .activeLoadIter, .entriesCasOk, .entriesCasFail,
   .entriesLoadPush, .entriesLoadExtend0, .entriesLoadExtend1, .entriesLoadGet, .entriesLoadIter, .entriesLoadGetUnchecked]

/-- the ordering declared in the source for a role (`none`: the operation no longer exists) -/
def Role.ord (r : Role) : Option MemOrd :=
  let (fn, recv, op, occ, k) := r.key
  match atomicSites.find? (fun s => s.file == "src/boxcar.rs" && s.fn == fn && s.recv == recv && s.op == op && s.occ == occ) with
  | some s => s.ords[k]?
  | none => none

def Role.acq (r : Role) : Bool := (r.ord.map isAcquire).getD false
def Role.rel (r : Role) : Bool := (r.ord.map isRelease).getD false

/-- atomic operations of boxcar.rs that carry no visibility obligation: the reservation counter (its
    value is only used as an index; item memory is published through `active` / `entries`) -/
def noRole (s : AtomicSite) : Bool := s.recv == "inflight"

/-- every atomic operation of the vector is either one of the roles or on the reservation counter -/
def sitesCovered : Bool :=
  (atomicSites.filter (fun s => s.file == "src/boxcar.rs")).all fun s =>
    noRole s || Role.all.any (fun r => let (fn, recv, op, occ, _) := r.key; s.fn == fn && s.recv == recv && s.op == op && s.occ == occ)

/-! ### executions -/

/-- an execution: events with program order, reads-from, library happens-before edges (mutex, spawn/join,
    `Arc` drop); atomic events are labelled with the role they come from -/
structure Exec where
  E : Type
  po : E → E → Prop
  rf : E → E → Prop
  lib : E → E → Prop
  role : E → Option Role

/-- release store (or RMW) → acquire load that reads from it -/
def Exec.sw (x : Exec) (a b : x.E) : Prop :=
  x.rf a b ∧ (∃ r, x.role a = some r ∧ r.rel = true) ∧ (∃ r, x.role b = some r ∧ r.acq = true)

inductive Exec.hb (x : Exec) : x.E → x.E → Prop
  | po {a b} : x.po a b → Exec.hb x a b
  | sw {a b} : x.sw a b → Exec.hb x a b
  | lib {a b} : x.lib a b → Exec.hb x a b
  | trans {a b c} : Exec.hb x a b → Exec.hb x b c → Exec.hb x a c

end NucleoVerif.MM
