import NucleoVerif.Model.Pattern
/-! Model of the high-level crate: `Nucleo::{tick, tick_inner, restart, injector, active_injectors}`
(`src/lib.rs`) and `Worker::{run, process_new_items, process_new_items_trivial,
remove_in_flight_matches, reset_matches}` (`src/worker.rs`).

Abstractions (see DESIGN.md, C06):
* an item stream is the append-only sequence of C08: slot `i` is `none` (reserved, not yet
  published) or `some item`; streams are identified by a number, `restart` makes a new one;
* pattern scoring is a parameter `score : pattern id → item → Option Nat` (its correctness is
  C01–C05/C15) and `len : item → Nat` is the total haystack length used as tie breaker;
* a background run is one transition (`Worker.run`) whose inputs record what it observed from
  concurrent threads: which slots it found published each time it looked (`Obs.seen`), in which
  order the pool threads reported unpublished slots (`Obs.inFlightOrder`), and whether / where it
  saw the cancel flag raised (`Obs.cancel`);
* the sort is the unique sorted permutation (C18). -/
namespace NucleoVerif.Nu

abbrev Item := Nat
/-- `u32::MAX`: index of a placeholder match -/
def PLACE : Nat := 4294967295

structure Match where
  score : Nat
  idx : Nat
deriving DecidableEq, Repr

/-- what one background run observed from the other threads -/
structure Obs where
  /-- the slot contents found when the in-flight indices were re-examined
      (`in_flight.retain` / `remove_in_flight_matches`) -/
  seen0 : Nat → Option Item
  /-- the slot contents found by the snapshot of new slots (and the items of existing hits) -/
  seen1 : Nat → Option Item
  /-- the value of the reservation counter when the snapshot of new slots was taken -/
  count : Nat
  /-- order in which unpublished new slots were reported by the pool threads (a permutation) -/
  inFlightOrder : List Nat → List Nat
  /-- did the `k`-th *published* new item of `process_new_items` see the cancel flag raised? -/
  sawCancel : Nat → Bool
  /-- was the cancel flag seen raised when the rescoring pass reached its `k`-th match
      (`take_any_while`: that match and all later ones are left untouched)? -/
  sawCancelRescore : Nat → Bool := sawCancel
  /-- did the sort observe the cancel flag? (once raised the flag stays raised for the rest of the run) -/
  sortCanceled : Bool
  /-- value of `should_notify` when the run read it -/
  shouldNotify : Bool

structure Worker where
  running : Bool
  hits : List Match
  pattern : Nat
  wasCanceled : Bool
  lastSnapshot : Nat
  inFlight : List Nat
  stream : Nat
deriving Repr

/-- `Worker::item_count` -/
def Worker.itemCount (w : Worker) : Nat := w.lastSnapshot - w.inFlight.length

variable (score : Nat → Item → Option Nat) (len : Item → Nat)

/-- `remove_in_flight_matches`: the loop removes position `i - off` for every index that is still
    unpublished, in the order the indices are stored -/
def removeInFlightGo (seen : Nat → Option Item) : List Nat → Nat → List Match → List Nat → List Match × List Nat
  | [], _, ms, keep => (ms, keep.reverse)
  | i :: rest, off, ms, keep =>
    if (seen i).isNone then removeInFlightGo seen rest (off + 1) (ms.eraseIdx (i - off)) (i :: keep)
    else removeInFlightGo seen rest off ms keep

/-- insertion sort on indices (`in_flight.sort_unstable()`) -/
def insertNat (x : Nat) : List Nat → List Nat
  | [] => [x]
  | y :: ys => if x ≤ y then x :: y :: ys else y :: insertNat x ys
def sortNat (l : List Nat) : List Nat := l.foldr insertNat []

/-- `reset_matches` -/
def resetMatches (w : Worker) (seen : Nat → Option Item) : Worker :=
  let all := (List.range w.lastSnapshot).map (fun i => Match.mk 0 i)
  let (ms, fl) := removeInFlightGo seen (sortNat w.inFlight) 0 all []
  { w with hits := ms, inFlight := fl }

/-- `process_new_items_trivial` -/
def processTrivial (w : Worker) (seen : Nat → Option Item) (count : Nat) : Worker :=
  if count ≠ w.lastSnapshot then
    let new := (List.range (count - w.lastSnapshot)).map (· + w.lastSnapshot)
    { w with hits := w.hits ++ (new.filter (fun i => (seen i).isSome)).map (fun i => Match.mk 0 i),
             inFlight := w.inFlight ++ new.filter (fun i => (seen i).isNone),
             lastSnapshot := count }
  else w

/-- number of placeholder entries -/
def countPlace (ms : List Match) : Nat := (ms.filter (fun m => m.idx = PLACE)).length

/-- scoring one newly published item: its match entry, or a placeholder if it does not match -/
def scoreNewItem (p : Nat) (it : Item) (i : Nat) : Match :=
  match score p it with
  | some s => Match.mk s i
  | none => Match.mk 0 PLACE

/-- one new slot in `process_new_items`: unpublished → placeholder (and recorded as in flight); published and the cancel
    flag seen → kept unscored; otherwise scored -/
def scoreNewSlot (p : Nat) (o : Obs) (pubPos : Nat → Nat) (i : Nat) : Match :=
  match o.seen1 i with
  | none => Match.mk 0 PLACE
  | some it => if o.sawCancel (pubPos i) then Match.mk 0 i else scoreNewItem score p it i

/-- `process_new_items`; returns the worker and the `unmatched` counter -/
def processNew (w : Worker) (o : Obs) : Worker × Nat :=
  -- in_flight.retain: published ones are scored and leave the list
  let still := w.inFlight.filter (fun i => (o.seen0 i).isNone)
  let nowPub := w.inFlight.filter (fun i => (o.seen0 i).isSome)
  let ms1 := w.hits ++ nowPub.filterMap (fun i => (o.seen0 i).bind (fun it => (score w.pattern it).map (fun s => Match.mk s i)))
  if o.count ≠ w.lastSnapshot then
    let new := (List.range (o.count - w.lastSnapshot)).map (· + w.lastSnapshot)
    -- position of each new slot among the published ones (only those reach the cancel check)
    let pubPos : Nat → Nat := fun i => ((new.filter (fun j => j < i)).filter (fun j => (o.seen1 j).isSome)).length
    let scored : List Match := new.map (scoreNewSlot score w.pattern o pubPos)
    ({ w with hits := ms1 ++ scored,
              inFlight := still ++ o.inFlightOrder (new.filter (fun i => (o.seen1 i).isNone)),
              lastSnapshot := o.count }, countPlace scored)
  else ({ w with hits := ms1, inFlight := still }, 0)

/-- what the rescoring pass does to one entry when it is not interrupted: placeholders stay, a published item gets
    its score under the worker's pattern, an item that no longer matches becomes a placeholder -/
def rescoreOne (p : Nat) (seen : Nat → Option Item) (m : Match) : Match :=
  if m.idx = PLACE then m
  else match (seen m.idx).bind (score p) with
    | some s => Match.mk s m.idx
    | none => Match.mk 0 PLACE

/-- the rescoring pass over the existing hits (`par_iter_mut().take_any_while(!canceled)`) -/
def rescore (w : Worker) (o : Obs) : Worker × Nat :=
  let rescored := w.hits.zipIdx.map (fun x => if o.sawCancelRescore x.2 then x.1 else rescoreOne score w.pattern o.seen1 x.1)
  ({ w with hits := rescored }, countPlace rescored)

/-- the comparison closure handed to `par_quicksort` -/
def matchLess (items : Nat → Option Item) (a b : Match) : Bool :=
  if a.score ≠ b.score then a.score > b.score
  else if a.idx = PLACE then false
  else if b.idx = PLACE then true
  else
    let la := (items a.idx).map len |>.getD 0
    let lb := (items b.idx).map len |>.getD 0
    if la = lb then a.idx < b.idx else la < lb

/-- insertion sort by `matchLess` (the sorted permutation is unique: `matchLess` is a strict total
    order on distinct hits, C18) -/
def insertMatch (items : Nat → Option Item) (x : Match) : List Match → List Match
  | [] => [x]
  | y :: ys => if matchLess len items x y then x :: y :: ys else y :: insertMatch items x ys

def sortMatches (items : Nat → Option Item) (l : List Match) : List Match := l.foldr (insertMatch len items) []

/-- was the run cancelled? -/
def Obs.canceled (o : Obs) (n : Nat) : Bool := o.sortCanceled || (List.range n).any o.sawCancel || (List.range n).any o.sawCancelRescore

/-- the start of `run`: flags, and the reset after a restart -/
def Worker.begin (w : Worker) (cleared : Bool) : Worker :=
  if cleared then { w with running := true, wasCanceled := false, lastSnapshot := 0, inFlight := [], hits := [] }
  else { w with running := true, wasCanceled := false }

/-- the scoring pass of a run with a non-empty pattern: (worker, `unmatched`, number of elements the
    parallel pass visited) -/
def Worker.scorePass (w : Worker) (status : PStatus) (o : Obs) : Worker × Nat × Nat :=
  let w := if status = .rescore then resetMatches w o.seen0 else w
  if status ≠ .unchanged ∧ !w.hits.isEmpty then
    let w1 := processTrivial w o.seen1 o.count
    ((rescore score w1 o).1, (rescore score w1 o).2, w1.hits.length)
  else ((processNew score w o).1, (processNew score w o).2, o.count - w.lastSnapshot)

/-- sort, truncate the placeholders, notify — or give up if the cancel flag was seen -/
def Worker.finish (w : Worker) (unmatched passLen : Nat) (o : Obs) : Worker × Bool :=
  if o.canceled passLen then
    -- the sort is abandoned part-way: the list is left in some order (kept as is here)
    ({ w with wasCanceled := true }, false)
  else
    ({ w with hits := (sortMatches len o.seen1 w.hits).take ((sortMatches len o.seen1 w.hits).length - unmatched) }, o.shouldNotify)

/-- `Worker::run(pattern_status, cleared)`; returns the worker and whether `notify` was called -/
def Worker.run (w : Worker) (status : PStatus) (cleared : Bool) (patternEmpty : Bool) (o : Obs) : Worker × Bool :=
  if patternEmpty then
    (processTrivial (resetMatches (w.begin cleared) o.seen0) o.seen1 o.count, o.shouldNotify)
  else
    Worker.finish len (Worker.scorePass score (w.begin cleared) status o).1 (Worker.scorePass score (w.begin cleared) status o).2.1
      (Worker.scorePass score (w.begin cleared) status o).2.2 o

/-! ### `Nucleo` -/

inductive NState | init | cleared | fresh
deriving DecidableEq, Repr

def NState.refs : NState → Nat
  | .cleared => 1
  | _ => 2
def NState.canceled (s : NState) : Bool := s ≠ .fresh

structure Snapshot where
  itemCount : Nat
  hits : List Match
  pattern : Nat
  stream : Nat
deriving Repr

/-- a spawned run that has not executed yet (the worker lock is held by the pool) -/
structure Pending where
  status : PStatus
  cleared : Bool
deriving Repr, DecidableEq

structure Nucleo where
  state : NState
  cur : Nat                 -- current stream
  nextStream : Nat          -- fresh stream ids
  pattern : Nat             -- id of the current pattern text (bumped by every reparse)
  status : PStatus
  snapshot : Snapshot
  worker : Worker
  pending : Option Pending
  cancelFlag : Bool
  shouldNotify : Bool
  injectors : List (Nat × Nat)   -- (handle id, stream) of live injector handles
deriving Repr

def Snapshot.update (s : Snapshot) (w : Worker) : Snapshot :=
  { itemCount := w.itemCount, hits := w.hits, pattern := w.pattern, stream := w.stream }

structure TickStatus where
  changed : Bool
  running : Bool
deriving DecidableEq, Repr

/-- the snapshot after `tick_inner` has looked at the worker: a finished, un-cancelled run is copied
    unless the matcher is waiting for the first run on a new stream -/
def Nucleo.snapAfter (n : Nucleo) : Snapshot :=
  if n.worker.running ∧ !n.worker.wasCanceled ∧ !n.state.canceled then n.snapshot.update n.worker else n.snapshot

/-- `inner.running = false` once a finished run has been seen -/
def Nucleo.workerAfter (n : Nucleo) : Worker :=
  if n.worker.running then { n.worker with running := false } else n.worker

/-- `tick_inner` once the worker lock has been obtained (`count` = `self.items.count()` read there) -/
def tickInnerLocked (n : Nucleo) (canceled : Bool) (status : PStatus) (count : Nat) : Nucleo × TickStatus :=
  if canceled || count > n.worker.itemCount then
    -- spawn a new run
    ({ n with snapshot := n.snapAfter,
              worker := { n.workerAfter with pattern := n.pattern,
                                             stream := if n.state.canceled then n.cur else n.workerAfter.stream },
              cancelFlag := false,
              shouldNotify := if canceled then n.shouldNotify else true,
              pending := some ⟨status, n.state.canceled⟩ }, ⟨n.worker.running, true⟩)
  else ({ n with snapshot := n.snapAfter, worker := n.workerAfter }, ⟨n.worker.running, false⟩)

/-- `tick_inner` when `try_lock_arc_for` timed out -/
def tickInnerTimeout (n : Nucleo) : Nucleo × TickStatus :=
  ({ n with shouldNotify := true }, ⟨false, true⟩)

/-- what one call of `tick` observes from the other threads: lock outcomes, counter values and the
    effect of background runs that finish while it waits.  A run is an arbitrary function here; the
    theorems that need more constrain it to `Worker.run … obs` for some `obs`. -/
structure TickOracle where
  /-- `items.count()` read by the first / second `tick_inner` -/
  count1 : Nat
  count2 : Nat
  /-- non-cancelling tick with a run in flight: did `try_lock_arc_for` succeed (the run finished in time)? -/
  lock1 : Bool
  /-- cancelling tick: did the second `tick_inner` obtain the lock (the run it just spawned finished in time)? -/
  lock2 : Bool
  /-- effect of the run that was in flight when the tick began (applied when the lock is obtained) -/
  run0 : Worker → Worker
  /-- effect of the run spawned by the first `tick_inner` of a cancelling tick -/
  run1 : Worker → Worker

/-- the worker lock is obtained: a run in flight has finished, its effect is visible now -/
def Nucleo.joinRun (n : Nucleo) (run : Worker → Worker) : Nucleo :=
  if n.pending.isSome then { n with worker := run n.worker, pending := none } else n

/-- does this tick cancel the run in flight (pattern changed, or first tick / tick after a restart)? -/
def Nucleo.tickCancels (n : Nucleo) : Bool := n.status ≠ .unchanged || n.state.canceled

/-- the first `tick_inner(canceled = true)` of a cancelling tick (reset_status, raise the cancel flag,
    blocking lock, spawn), followed by `self.state = State::Fresh` -/
def Nucleo.tickCancelFirst (n : Nucleo) (o : TickOracle) : Nucleo × TickStatus :=
  let status := n.status
  let n1 : Nucleo := { n with status := .unchanged, cancelFlag := true }
  let r := tickInnerLocked (n1.joinRun o.run0) true status o.count1
  ({ r.1 with state := .fresh }, r.2)

/-- the second `tick_inner(canceled = false)` of a cancelling tick -/
def Nucleo.tickSecond (n : Nucleo) (o : TickOracle) : Nucleo × TickStatus :=
  if o.lock2 then tickInnerLocked (n.joinRun o.run1) false .unchanged o.count2
  else tickInnerTimeout n

/-- the only `tick_inner(canceled = false)` of a non-cancelling tick -/
def Nucleo.tickPlain (n : Nucleo) (o : TickOracle) : Nucleo × TickStatus :=
  if n.pending.isSome ∧ !o.lock1 then tickInnerTimeout n
  else tickInnerLocked (n.joinRun o.run0) false .unchanged o.count1

/-- `Nucleo::tick` -/
def Nucleo.tick (n : Nucleo) (o : TickOracle) : Nucleo × TickStatus :=
  let n0 : Nucleo := { n with shouldNotify := false }
  if n0.tickCancels then
    let r1 := n0.tickCancelFirst o
    let r2 := r1.1.tickSecond o
    (r2.1, ⟨r1.2.changed || r2.2.changed, r2.2.running⟩)
  else n0.tickPlain o

/-- `Nucleo::restart` -/
def Nucleo.restart (n : Nucleo) (clear : Bool) : Nucleo :=
  let new := n.nextStream
  { n with cancelFlag := true, cur := new, nextStream := new + 1, state := .cleared,
           snapshot := if clear then { n.snapshot with itemCount := 0, hits := [], stream := new } else n.snapshot }

/-- `Nucleo::active_injectors`: `Arc::strong_count(&items) - refs - ptr_eq(snapshot.items, items)` -/
def Nucleo.strongCount (n : Nucleo) (s : Nat) : Nat :=
  (if n.cur = s then 1 else 0) + (if n.worker.stream = s then 1 else 0) + (if n.snapshot.stream = s then 1 else 0) +
  (n.injectors.filter (fun p => p.2 = s)).length

def Nucleo.activeInjectors (n : Nucleo) : Nat :=
  n.strongCount n.cur - n.state.refs - (if n.snapshot.stream = n.cur then 1 else 0)

/-- `Nucleo::injector()` / `Injector::clone` / dropping an injector; handles are named by numbers -/
def Nucleo.addInjector (n : Nucleo) (h : Nat) : Nucleo := { n with injectors := n.injectors ++ [(h, n.cur)] }
def Nucleo.cloneInjector (n : Nucleo) (src h : Nat) : Nucleo :=
  match n.injectors.find? (·.1 == src) with
  | some p => { n with injectors := n.injectors ++ [(h, p.2)] }
  | none => n
def Nucleo.dropInjector (n : Nucleo) (h : Nat) : Nucleo := { n with injectors := n.injectors.filter (·.1 != h) }

/-- `MultiPattern::reparse` seen from `Nucleo`: a new pattern text (id) and the resulting status -/
def Nucleo.reparse (n : Nucleo) (pid : Nat) (status : PStatus) : Nucleo := { n with pattern := pid, status := status }

def Nucleo.new : Nucleo :=
  { state := .init, cur := 0, nextStream := 1, pattern := 0, status := .unchanged,
    snapshot := { itemCount := 0, hits := [], pattern := 0, stream := 0 },
    worker := { running := false, hits := [], pattern := 0, wasCanceled := false, lastSnapshot := 0, inFlight := [], stream := 0 },
    pending := none, cancelFlag := false, shouldNotify := false, injectors := [] }

end NucleoVerif.Nu
