import NucleoVerif.Model.Matcher
import NucleoVerif.Gen.Optimal
/-! Code-level model of `fuzzy_optimal.rs` (the compressed matrix).

`Model/Matcher.lean: optimalDP` is the documented two-matrix recurrence on full-width rows whose cells carry the alignment
they stand for.  This file models what the code does instead: one score row (`current_row`) reused for all needle rows,
shifted by one cell per row and started at the per-row offsets `row_offs`; a flat array of two-bit back-pointer cells
(`matrix_cells`) with one segment per row; and the traceback of `reconstruct_optimal_path` over those bits.  The loops
are transcribed zip by zip (the Rust code is written with zipped slice iterators, so are `phase1`/`phase2`); the cell
functions `next_m_cell`, `p_score`, `MatrixCell::set/get`, `UNMATCHED`, the first-row cell and the prefix bonus are
*generated from the source* (`Gen/Optimal.lean`).

The scratch slab is never cleared: `current_row`, `matrix_cells` and `row_offs` start with whatever earlier calls left
there.  The model takes that prior content as arguments (`cur0`, `cells0`); `Props/C04_Compressed.lean` proves that the
result does not depend on it and equals `optimalDP`. -/
namespace NucleoVerif.OptImpl
open NucleoVerif NucleoVerif.Gen NucleoVerif.Gen.Opt

/-- `setup`: the column where each needle character is first matched by the greedy scan (`*row_start = i`);
    the scan matched iff the result has one entry per needle character -/
def rowOffsGo : List Nat → List Col → Nat → List Nat
  | [], _, _ => []
  | _ :: _, [], _ => []
  | nc :: ns, c :: cs, i => if c.ch = nc then i :: rowOffsGo ns cs (i + 1) else rowOffsGo (nc :: ns) cs (i + 1)

def rowOffs (n : List Nat) (cols : List Col) : List Nat := rowOffsGo n cols 0

/-- the cell of row `needle_idx` at the current column as `score_row` obtains it: computed on the fly in the first row,
    read from `current_row` otherwise -/
def mCell (first : Bool) (nc : Nat) (c : Col) (pb : Nat) (stored : ScoreCell) : ScoreCell :=
  if first then (if c.ch = nc then first_row_cell c.bonus pb else UNMATCHED) else stored

/-- carry of the column loops: `prev_p_score`, `prev_m_score`, `prefix_bonus` -/
structure Carry where
  p : Nat
  m : Nat
  pb : Nat
deriving Repr, DecidableEq

/-- first loop of `score_row` (`skipped_col_iter`): the columns `row_off .. next_row_off-1`, where the next row has no
    cell; only the P-scores are carried along and the back-pointer bits recorded.
    `zip(haystack[..], bonus[..], current_row[..], matrix_cells)` stops at the shortest. -/
def phase1 (first : Bool) (nc : Nat) : List Col → List ScoreCell → List MatrixCell → Carry → List MatrixCell × Carry
  | c :: cs, sc :: cur, _mc :: cells, k =>
    let ps := p_score k.p k.m
    let m := mCell first nc c k.pb sc
    let r := phase1 first nc cs cur cells ⟨ps.1, m.score, prefix_bonus_next k.pb⟩
    (MatrixCell.set ps.2 m.matched :: r.1, r.2)
  | _, _, cells, k => (cells, k)

/-- second loop of `score_row` (`col_iter`): `windows(2)` over the remaining columns — `c0` is the column of the
    current row, `c1` the column of the next row's cell, which overwrites the current row's cell in place -/
def phase2 (first : Bool) (nc nnc : Nat) : List Col → List ScoreCell → List MatrixCell → Carry → List ScoreCell × List MatrixCell
  | c0 :: c1 :: cs, sc :: cur, _mc :: cells, k =>
    let ps := p_score k.p k.m
    let m := mCell first nc c0 k.pb sc
    let r := phase2 first nc nnc (c1 :: cs) cur cells ⟨ps.1, m.score, prefix_bonus_next k.pb⟩
    ((if c1.ch = nnc then next_m_cell ps.1 c1.bonus m else UNMATCHED) :: r.1, MatrixCell.set ps.2 m.matched :: r.2)
  | _, cur, cells, _ => (cur, cells)

/-- `score_row`: `cells` is the slice of `matrix_cells` handed to the call -/
def scoreRow (first : Bool) (cur : List ScoreCell) (cells : List MatrixCell) (cols : List Col)
    (rowOff nextRowOff needleIdx nc nnc pb : Nat) : List ScoreCell × List MatrixCell :=
  let nro := nextRowOff - 1
  let rel := rowOff - needleIdx
  let nrel := nro - needleIdx
  let a := phase1 first nc ((cols.drop rowOff).take (nro - rowOff)) ((cur.drop rel).take (nrel - rel)) cells ⟨0, 0, pb⟩
  let b := phase2 first nc nnc (cols.drop nro) (cur.drop nrel) (a.1.drop (nrel - rel)) a.2
  (cur.take nrel ++ b.1, a.1.take (nrel - rel) ++ b.2)

/-- state of `populate_matrix`'s loop: the score row, the whole `matrix_cells` array and the offset of the slice
    `matrix_cells` currently points at -/
structure PState where
  cur : List ScoreCell
  cells : List MatrixCell
  off : Nat
deriving Repr

/-- one `score_row` call on the slice `matrix_cells[off..]`, then `matrix_cells = &mut matrix_cells[len..]` -/
def rowStep (first : Bool) (cols : List Col) (width : Nat) (s : PState) (rowOff nextRowOff needleIdx nc nnc pb : Nat) : PState :=
  let r := scoreRow first s.cur (s.cells.drop s.off) cols rowOff nextRowOff needleIdx nc nnc pb
  ⟨r.1, s.cells.take s.off ++ r.2, s.off + (width + needleIdx - rowOff)⟩

/-- the loop of `populate_matrix`: rows `i = 1 .. N-2` (`ns`: needle characters from row `i` on, `offs`: their row
    offsets) -/
def populateGo (cols : List Col) (width : Nat) : Nat → List Nat → List Nat → PState → PState
  | i, nc :: nnc :: ns, ro :: nro :: offs, s =>
    populateGo cols width (i + 1) (nnc :: ns) (nro :: offs) (rowStep false cols width s ro nro i nc nnc 0)
  | _, _, _, s => s

/-- traceback state of `reconstruct_optimal_path` -/
structure TState where
  rowIdx : Nat
  col : Nat          -- relative to the row's offset, as in the code
  matched : Bool
  out : List Nat     -- indices found so far (for rows `rowIdx+1 ..`), ascending

/-- `row_iter` of `reconstruct_optimal_path`: the rows are split off the end of `matrix_cells[..matrix_len]`, last row
    first (`split_at(len - (width - relative_off))`); `segBack k` is where the segment of row `N-1-k` starts
    (`segBack 0 = matrix_len`, the end of the last segment) -/
def segBack (width : Nat) (offs : List Nat) (matrixLen : Nat) : Nat → Nat
  | 0 => matrixLen
  | k + 1 => segBack width offs matrixLen k - (width - (offs.getD (offs.length - 2 - k) 0 - (offs.length - 2 - k)))

/-- start of row `r`'s back-pointer segment (`r ≤ N-2`) -/
def segOf (width : Nat) (offs : List Nat) (matrixLen : Nat) (r : Nat) : Nat := segBack width offs matrixLen (offs.length - 1 - r)

/-- the loop of `reconstruct_optimal_path` (fuel: it ends when row 0 is matched; every iteration moves one column left) -/
def traceGo (cells : List MatrixCell) (width : Nat) (offs : List Nat) (start : Nat) : Nat → TState → List Nat
  | 0, t => t.out
  | fuel + 1, t =>
    let rowOff := offs.getD t.rowIdx 0
    let out := if t.matched then (start + t.col + rowOff) :: t.out else t.out
    let next := (cells.getD (segOf width offs cells.length t.rowIdx + t.col) default).get t.matched
    if t.matched then
      match t.rowIdx with
      | 0 => out
      | r + 1 => traceGo cells width offs start fuel ⟨r, t.col + (rowOff - offs.getD r 0) - 1, next, out⟩
    else traceGo cells width offs start fuel ⟨t.rowIdx, t.col - 1, next, out⟩

/-- the same loop over an array (constant-time indexing; `Lemmas/OptFinish.lean: traceGoA_eq` shows it is `traceGo`) -/
def traceGoA (cells : Array MatrixCell) (width : Nat) (offs : List Nat) (start : Nat) : Nat → TState → List Nat
  | 0, t => t.out
  | fuel + 1, t =>
    let rowOff := offs.getD t.rowIdx 0
    let out := if t.matched then (start + t.col + rowOff) :: t.out else t.out
    let next := (cells.getD (segOf width offs cells.size t.rowIdx + t.col) default).get t.matched
    if t.matched then
      match t.rowIdx with
      | 0 => out
      | r + 1 => traceGoA cells width offs start fuel ⟨r, t.col + (rowOff - offs.getD r 0) - 1, next, out⟩
    else traceGoA cells width offs start fuel ⟨t.rowIdx, t.col - 1, next, out⟩

/-- position and cell of `max_by_key(score)` over a slice: the last maximal element -/
def maxByScore : List ScoreCell → Nat → Option (Nat × ScoreCell) → Option (Nat × ScoreCell)
  | [], _, best => best
  | c :: cs, i, none => maxByScore cs (i + 1) (some (i, c))
  | c :: cs, i, some b => maxByScore cs (i + 1) (if c.score ≥ b.2.score then some (i, c) else some b)

/-- `setup`'s call of `score_row::<FIRST_ROW = true>`, after which `populate_matrix` continues behind the first
    `current_row.len()` back-pointer cells -/
def setupRow (cols : List Col) (width : Nat) (nextOff n0 n1 pb : Nat) (cur0 : List ScoreCell) (cells0 : List MatrixCell) : PState :=
  { rowStep true cols width ⟨cur0, cells0, 0⟩ 0 nextOff 0 n0 n1 pb with off := width }

/-- the end of `fuzzy_match_optimal`: the best cell of the last row, then `reconstruct_optimal_path` -/
def finish (W N start : Nat) (offs : List Nat) (s : PState) : MRes :=
  let lastOff := offs.getD (N - 1) 0
  let relLast := lastOff + 1 - N
  match maxByScore (s.cur.drop relLast) 0 none with
  | none => none
  | some (e, cell) =>
    let rowOff := offs.getD (N - 2) 0
    some (cell.score, traceGoA (s.cells.take s.off).toArray (W + 1 - N) offs start (W + N + 1)
      ⟨N - 2, e + (lastOff - rowOff) - 1, (s.cur.getD (e + relLast) default).matched, [start + e + lastOff]⟩)

/-- `fuzzy_match_optimal` after a successful `alloc`, on the window columns; `cur0` / `cells0`: prior content of
    `current_row` / `matrix_cells` -/
def optimalImpl (cfg : Cfg) (cols : List Col) (n : List Nat) (start : Nat) (cur0 : List ScoreCell) (cells0 : List MatrixCell) : MRes :=
  match n with
  | n0 :: n1 :: ns =>
    let offs := rowOffs n cols
    if offs.length ≠ n.length then none
    else
      let width := cols.length + 1 - n.length
      finish cols.length n.length start offs
        (populateGo cols width 1 (n1 :: ns) offs.tail
          (setupRow cols width (offs.getD 1 0) n0 n1 (prefix_bonus_init cfg.preferPrefix start) cur0 cells0))
  | _ => none

/-! ### what would panic: the side conditions of the index arithmetic

`u16` / `usize` subtraction panics on underflow (overflow checks) or wraps, a slice range outside its slice panics.  The
model computes with truncated subtraction and total list operations, so these conditions are stated separately, one
conjunct per Rust expression, and `Props/C10_Matrix.lean` proves them for every call the model makes. -/

/-- one `score_row` call -/
def scoreRowSafe (curLen cellsLen colsLen rowOff nextRowOff needleIdx : Nat) : Bool :=
  decide (1 ≤ nextRowOff) &&                              -- next_row_off -= 1
  decide (needleIdx ≤ rowOff) &&                          -- row_off - needle_idx
  decide (needleIdx ≤ nextRowOff - 1) &&                  -- next_row_off - needle_idx
  decide (rowOff ≤ nextRowOff - 1) &&                     -- haystack[row_off..next_row_off], bonus[..], current_row[rel..next_rel]
  decide (nextRowOff - 1 ≤ colsLen) &&                    -- haystack[next_row_off..], bonus[next_row_off..]
  decide (nextRowOff - 1 - needleIdx ≤ curLen) &&         -- current_row[next_rel..]
  decide (nextRowOff - 1 - rowOff ≤ cellsLen)             -- matrix_cells[(next_rel - rel)..]

/-- the loop of `populate_matrix` (same recursion as `populateGo`): each `score_row` call, `len = width + needle_idx + 1
    - row_off`, `matrix_cells[len..]` -/
def populateSafe (cols : List Col) (width : Nat) : Nat → List Nat → List Nat → PState → Bool
  | i, nc :: nnc :: ns, ro :: nro :: offs, s =>
    scoreRowSafe s.cur.length (s.cells.length - s.off) cols.length ro nro i &&
    decide (ro ≤ width + i) && decide (s.off + (width + i - ro) ≤ s.cells.length) &&
    populateSafe cols width (i + 1) (nnc :: ns) (nro :: offs) (rowStep false cols width s ro nro i nc nnc 0)
  | _, _, _, _ => true

/-- the loop of `reconstruct_optimal_path` (same recursion as `traceGo`): `row[col]` inside the row's segment, the
    segment inside `matrix_cells[..matrix_len]`, `col += row_off - next_row_off`, `col -= 1`; running out of fuel counts
    as unsafe (the loop must end) -/
def traceSafe (cells : List MatrixCell) (width : Nat) (offs : List Nat) : Nat → TState → Bool
  | 0, _ => false
  | fuel + 1, t =>
    let rowOff := offs.getD t.rowIdx 0
    let here := decide (t.rowIdx ≤ rowOff) && decide (rowOff - t.rowIdx ≤ width) &&            -- off - i, width - relative_off
      decide (t.col < width - (rowOff - t.rowIdx)) &&                                               -- row[col]
      decide (segOf width offs cells.length t.rowIdx + (width - (rowOff - t.rowIdx)) ≤ cells.length) -- the segment split off the end
    let next := (cells.getD (segOf width offs cells.length t.rowIdx + t.col) default).get t.matched
    if t.matched then
      match t.rowIdx with
      | 0 => here
      | r + 1 => here && decide (offs.getD r 0 ≤ rowOff) && decide (1 ≤ t.col + (rowOff - offs.getD r 0)) &&
          traceSafe cells width offs fuel ⟨r, t.col + (rowOff - offs.getD r 0) - 1, next, []⟩
    else here && decide (1 ≤ t.col) && traceSafe cells width offs fuel ⟨t.rowIdx, t.col - 1, next, []⟩

/-- the whole of `fuzzy_match_optimal` after `alloc` (indices variant) -/
def optimalSafe (cfg : Cfg) (cols : List Col) (n : List Nat) (start : Nat) (cur0 : List ScoreCell) (cells0 : List MatrixCell) : Bool :=
  match n with
  | n0 :: n1 :: ns =>
    let offs := rowOffs n cols
    if offs.length ≠ n.length then true         -- `setup` returns false, nothing else happens
    else
      let N := n.length
      let width := cols.length + 1 - N
      let s0 := setupRow cols width (offs.getD 1 0) n0 n1 (prefix_bonus_init cfg.preferPrefix start) cur0 cells0
      let s := populateGo cols width 1 (n1 :: ns) offs.tail s0
      let lastOff := offs.getD (N - 1) 0
      let relLast := lastOff + 1 - N
      decide (N ≤ cols.length + 1) &&                                                             -- haystack_len + 1 - needle_len
      scoreRowSafe cur0.length cells0.length cols.length 0 (offs.getD 1 0) 0 &&                    -- setup's score_row
      decide (width ≤ cells0.length) &&                                                           -- matrix_cells[current_row.len()..]
      populateSafe cols width 1 (n1 :: ns) offs.tail s0 &&
      decide (N ≤ lastOff + 1) && decide (relLast < s.cur.length) &&                               -- last_row_off + 1 - needle.len(); a non-empty last row
      (match maxByScore (s.cur.drop relLast) 0 none with
       | none => false
       | some (e, _) =>
         let rowOff := offs.getD (N - 2) 0
         decide (e + relLast < s.cur.length) && decide (rowOff + 1 ≤ lastOff) && decide (s.off ≤ s.cells.length) &&
         traceSafe (s.cells.take s.off) width offs (cols.length + N + 1)
           ⟨N - 2, e + (lastOff - rowOff) - 1, (s.cur.getD (e + relLast) default).matched, []⟩)
  | _ => true

/-- what `fuzzy_match_optimal` leaves in the scratch memory once `populate_matrix` has returned: the row offsets, the
    last row of the score matrix from its offset on, and the back-pointer cells written (`matrix_cells[..matrix_len]`);
    `none` when `setup` finds no match -/
def matrixState (cfg : Cfg) (cols : List Col) (n : List Nat) (start : Nat) (cur0 : List ScoreCell) (cells0 : List MatrixCell) :
    Option (List Nat × List ScoreCell × List MatrixCell) :=
  match n with
  | n0 :: n1 :: ns =>
    let offs := rowOffs n cols
    if offs.length ≠ n.length then none
    else
      let width := cols.length + 1 - n.length
      let s := populateGo cols width 1 (n1 :: ns) offs.tail
        (setupRow cols width (offs.getD 1 0) n0 n1 (prefix_bonus_init cfg.preferPrefix start) cur0 cells0)
      some (offs, s.cur.drop (offs.getD (n.length - 1) 0 + 1 - n.length), s.cells.take s.off)
  | _ => none

end NucleoVerif.OptImpl
