import NucleoVerif.Gen.Boxcar
/-! Model of `src/par_sort.rs` (pattern-defeating quicksort, parallelised with `rayon::join`,
with a cancel flag), structure preserving: `shift_head/tail`, `partial_insertion_sort`,
`insertion_sort`, `heapsort`, `partition_in_blocks`, `partition`, `partition_equal`,
`break_patterns` (with its xorshift generator), `choose_pivot`, `recurse`, `par_quicksort`.

**Every mutation is a swap.**  The code moves elements through a "hole" (`shift_*`) and in a
cyclic permutation (`partition_in_blocks`); the model performs the equivalent chains of swaps
(same comparisons, same final array).  The whole model runs in `M a0 = StateM {a // a.Perm a0}`:
the only primitive that changes the array is `swp`, so *by typing* the array is always a
permutation of the input `a0` — for every comparison function (even an inconsistent one),
every cancel oracle and every input.  That the real code computes the same arrays is the
correspondence check.

`rayon::join` on the two disjoint sub-slices is sequential composition (left, then right); each
read of the cancel flag consumes one answer of the oracle `cancelAt : Nat → Bool`. -/
namespace NucleoVerif.PS
open Gen

theorem swapIfInBounds_perm {α : Type} (a : Array α) (i j : Nat) : (a.swapIfInBounds i j).Perm a := by
  unfold Array.swapIfInBounds
  split
  · split
    · exact Array.swap_perm _ _
    · exact Array.Perm.refl _
  · exact Array.Perm.refl _

section
variable {α : Type} [Inhabited α] {a0 : Array α}

/-- arrays that are permutations of the input -/
abbrev PArr (a0 : Array α) := { a : Array α // a.Perm a0 }
abbrev M (a0 : Array α) := StateM (PArr a0)

/-- the only mutation -/
def swp (i j : Nat) : M a0 Unit :=
  modify fun a => ⟨a.val.swapIfInBounds i j, (swapIfInBounds_perm a.val i j).trans a.property⟩

def rd (i : Nat) : M a0 α := do return (← get).val.getD i default

variable (lt : α → α → Bool)

/-- `shift_tail(v[lo..hi))`: the last element moves left while it is smaller than its neighbour -/
def shiftTail (lo hi : Nat) : M a0 Unit := do
  if hi - lo ≥ 2 then
    let mut i := hi - 1
    for _ in [0:hi - lo] do
      if i > lo ∧ lt (← rd i) (← rd (i - 1)) then
        swp i (i - 1)
        i := i - 1
      else break

/-- `shift_head(v[lo..hi))`: the first element moves right while its neighbour is smaller -/
def shiftHead (lo hi : Nat) : M a0 Unit := do
  if hi - lo ≥ 2 then
    let mut i := lo
    for _ in [0:hi - lo] do
      if i + 1 < hi ∧ lt (← rd (i + 1)) (← rd i) then
        swp i (i + 1)
        i := i + 1
      else break

def insertionSort (lo hi : Nat) : M a0 Unit := do
  for i in [1:hi - lo] do
    shiftTail lt lo (lo + i + 1)

/-- returns `true` if the slice ended up sorted -/
def partialInsertionSort (lo hi : Nat) : M a0 Bool := do
  let len := hi - lo
  let mut i := 1
  for _ in [0:PS_MAX_STEPS] do
    for _ in [0:len] do
      if i < len ∧ !(lt (← rd (lo + i)) (← rd (lo + i - 1))) then i := i + 1 else break
    if i == len then return true
    if len < PS_SHORTEST_SHIFTING then return false
    swp (lo + i - 1) (lo + i)
    shiftTail lt lo (lo + i)
    shiftHead lt (lo + i) hi
  return false

def siftDown (lo len node : Nat) : M a0 Unit := do
  let mut node := node
  for _ in [0:len] do
    let mut child := PS_heapChild node
    if child ≥ len then break
    if child + 1 < len ∧ lt (← rd (lo + child)) (← rd (lo + child + 1)) then child := child + 1
    if !(lt (← rd (lo + node)) (← rd (lo + child))) then break
    swp (lo + node) (lo + child)
    node := child

def heapsort (lo hi : Nat) : M a0 Unit := do
  let len := hi - lo
  -- the loop ranges are the translated ones (Gen.Boxcar)
  for k in [0:PS_heapBuildHi len - PS_heapBuildLo len] do
    siftDown lt lo len (PS_heapBuildHi len - 1 - k)
  for k in [0:PS_heapPopHi len - PS_heapPopLo len] do
    let i := PS_heapPopHi len - 1 - k
    swp lo (lo + i)
    siftDown lt lo i 0

/-- the offsets `i < block` of the elements of `v[l .. l+block)` that are **not** smaller than the pivot (left scan) -/
def pibScanL (l block : Nat) (pivot : α) : M a0 (Array Nat) := do
  let mut offs : Array Nat := #[]
  for i in [0:block] do
    if !(lt (← rd (l + i)) pivot) then offs := offs.push i
  return offs

/-- the offsets `i < block` (counted from the right end `r`) of the elements of `v[r-block .. r)` that **are** smaller
    than the pivot (right scan) -/
def pibScanR (r block : Nat) (pivot : α) : M a0 (Array Nat) := do
  let mut offs : Array Nat := #[]
  for i in [0:block] do
    if lt (← rd (r - 1 - i)) pivot then offs := offs.push i
  return offs

/-- the cyclic permutation of `count` out-of-place pairs, as the code's chain of moves written with swaps -/
def pibChain (l r : Nat) (offsL : Array Nat) (startL : Nat) (offsR : Array Nat) (startR count : Nat) : M a0 Unit := do
  swp (l + offsL[startL]!) (r - offsR[startR]! - 1)
  for k in [1:count] do
    swp (r - offsR[startR + k - 1]! - 1) (l + offsL[startL + k]!)
    swp (l + offsL[startL + k]!) (r - offsR[startR + k]! - 1)

/-- left block not exhausted at the end: move its remaining out-of-place elements to the far right; returns `r` -/
def pibCleanL (l r : Nat) (offsL : Array Nat) (startL : Nat) : M a0 Nat := do
  let mut r := r
  let mut endL := offsL.size
  for _ in [0:offsL.size] do
    if startL < endL then
      endL := endL - 1
      swp (l + offsL[endL]!) (r - 1)
      r := r - 1
    else break
  return r

/-- right block not exhausted at the end: move its remaining out-of-place elements to the far left; returns `l` -/
def pibCleanR (l r : Nat) (offsR : Array Nat) (startR : Nat) : M a0 Nat := do
  let mut l := l
  let mut endR := offsR.size
  for _ in [0:offsR.size] do
    if startR < endR then
      endR := endR - 1
      swp l (r - offsR[endR]! - 1)
      l := l + 1
    else break
  return l

/-- the state of the main loop of `partition_in_blocks` -/
structure PibState where
  l : Nat
  r : Nat
  blockL : Nat
  blockR : Nat
  offsL : Array Nat
  startL : Nat
  offsR : Array Nat
  startR : Nat

/-- the block sizes for this iteration (they change only when the remaining gap is at most two blocks) -/
def pibBlocks (st : PibState) : PibState :=
  if st.r - st.l ≤ 2 * PS_BLOCK then
    let rem := if st.startL < st.offsL.size ∨ st.startR < st.offsR.size then st.r - st.l - PS_BLOCK else st.r - st.l
    if st.startL < st.offsL.size then { st with blockR := rem }
    else if st.startR < st.offsR.size then { st with blockL := rem }
    else { st with blockL := rem / 2, blockR := rem - rem / 2 }
  else st

/-- the end of an iteration: an exhausted block is passed over -/
def pibAdvance (st : PibState) : PibState :=
  let st := if st.startL == st.offsL.size then { st with l := st.l + st.blockL } else st
  if st.startR == st.offsR.size then { st with r := st.r - st.blockR } else st

/-- one iteration of the main loop: choose the block sizes, rescan exhausted blocks, swap `count` pairs, advance -/
def pibStep (pivot : α) (st0 : PibState) : M a0 PibState := do
  let st1 := pibBlocks st0
  let st2 ← if st1.startL == st1.offsL.size then do
      let offs ← pibScanL lt st1.l st1.blockL pivot
      pure { st1 with startL := 0, offsL := offs }
    else pure st1
  let st3 ← if st2.startR == st2.offsR.size then do
      let offs ← pibScanR lt st2.r st2.blockR pivot
      pure { st2 with startR := 0, offsR := offs }
    else pure st2
  let count := min (st3.offsL.size - st3.startL) (st3.offsR.size - st3.startR)
  let st4 ← if count > 0 then do
      pibChain st3.l st3.r st3.offsL st3.startL st3.offsR st3.startR count
      pure { st3 with startL := st3.startL + count, startR := st3.startR + count }
    else pure st3
  return pibAdvance st4

/-- `partition_in_blocks(v[lo..hi), pivot)`: number of elements `< pivot` -/
def partitionInBlocks (lo hi : Nat) (pivot : α) : M a0 Nat := do
  let mut st : PibState := { l := lo, r := hi, blockL := PS_BLOCK, blockR := PS_BLOCK, offsL := #[], startL := 0, offsR := #[], startR := 0 }
  for _ in [0:hi - lo + 2] do
    let isDone := st.r - st.l ≤ 2 * PS_BLOCK
    st ← pibStep lt pivot st
    if isDone then break
  if st.startL < st.offsL.size then
    let r ← pibCleanL st.l st.r st.offsL st.startL
    return r - lo
  else if st.startR < st.offsR.size then
    let l ← pibCleanR st.l st.r st.offsR st.startR
    return l - lo
  else
    return st.l - lo

/-- `partition(v[lo..hi), pivot)`: (mid, was_partitioned) -/
def partition (lo hi pivotIdx : Nat) : M a0 (Nat × Bool) := do
  swp lo (lo + pivotIdx)
  let p ← rd lo
  let vlo := lo + 1
  let n := hi - vlo
  let mut l := 0
  let mut r := n
  for _ in [0:n] do
    if l < r ∧ lt (← rd (vlo + l)) p then l := l + 1 else break
  for _ in [0:n] do
    if l < r ∧ !(lt (← rd (vlo + r - 1)) p) then r := r - 1 else break
  let k ← partitionInBlocks lt (vlo + l) (vlo + r) p
  let mid := l + k
  swp lo (lo + mid)
  return (mid, l ≥ r)

def partitionEqual (lo hi pivotIdx : Nat) : M a0 Nat := do
  swp lo (lo + pivotIdx)
  let p ← rd lo
  let vlo := lo + 1
  let mut l := 0
  let mut r := hi - vlo
  for _ in [0:hi - lo + 1] do
    for _ in [0:hi - lo] do
      if l < r ∧ !(lt p (← rd (vlo + l))) then l := l + 1 else break
    for _ in [0:hi - lo] do
      if l < r ∧ lt p (← rd (vlo + r - 1)) then r := r - 1 else break
    if l ≥ r then break
    r := r - 1
    swp (vlo + l) (vlo + r)
    l := l + 1
  return l + 1

/-- `usize::next_power_of_two` by doubling (70 doublings cover every `usize`) -/
def nextPow2Go (n : Nat) : (fuel : Nat) → (p : Nat) → Nat
  | 0, p => p
  | fuel + 1, p => if p < n then nextPow2Go n fuel (p * 2) else p

def nextPow2 (n : Nat) : Nat := nextPow2Go n 70 1

def breakPatterns (lo hi : Nat) : M a0 Unit := do
  let len := hi - lo
  if len ≥ 8 then
    let mut random : Nat := len % 2 ^ 32
    let modulus := nextPow2 len
    let pos := len / 4 * 2
    for i in [0:3] do
      -- gen_usize on a 64-bit target: two gen_u32 calls
      let mut hi32 := 0
      let mut lo32 := 0
      for h in [0:2] do
        random := (random ^^^ (random <<< 13)) % 2 ^ 32
        random := random ^^^ (random >>> 17)
        random := (random ^^^ (random <<< 5)) % 2 ^ 32
        if h == 0 then hi32 := random else lo32 := random
      let mut other := ((hi32 <<< 32) ||| lo32) &&& (modulus - 1)
      if other ≥ len then other := other - len
      swp (lo + pos - 1 + i) (lo + other)

/-- `sort2` of `choose_pivot`: orders two indices by their elements, counting the swap -/
def cpSort2 (v : Nat → α) (x y sw : Nat) : Nat × Nat × Nat :=
  if lt (v y) (v x) then (y, x, sw + 1) else (x, y, sw)

/-- `sort3` of `choose_pivot` -/
def cpSort3 (v : Nat → α) (x y z sw : Nat) : Nat × Nat × Nat × Nat :=
  let r1 := cpSort2 lt v x y sw
  let r2 := cpSort2 lt v r1.2.1 z r1.2.2
  let r3 := cpSort2 lt v r1.1 r2.1 r2.2.2
  (r3.1, r3.2.1, r2.2.1, r3.2.2)

/-- the index computation of `choose_pivot` on the elements `v 0 .. v (len-1)`: (candidate index, swaps) -/
def choosePivotIdx (v : Nat → α) (len : Nat) : Nat × Nat :=
  let ia := len / 4 * 1
  let ib := len / 4 * 2
  let ic := len / 4 * 3
  if len ≥ 8 then
    if len ≥ PS_SHORTEST_MEDIAN_OF_MEDIANS then
      let r1 := cpSort3 lt v (ia - 1) ia (ia + 1) 0
      let r2 := cpSort3 lt v (ib - 1) ib (ib + 1) r1.2.2.2
      let r3 := cpSort3 lt v (ic - 1) ic (ic + 1) r2.2.2.2
      let r := cpSort3 lt v r1.2.1 r2.2.1 r3.2.1 r3.2.2.2
      (r.2.1, r.2.2.2)
    else
      let r := cpSort3 lt v ia ib ic 0
      (r.2.1, r.2.2.2)
  else (ib, 0)

/-- (pivot index, likely_sorted) -/
def choosePivot (lo hi : Nat) : M a0 (Nat × Bool) := do
  let len := hi - lo
  let a := (← get).val
  let r := choosePivotIdx lt (fun (i : Nat) => a[lo + i]!) len
  if r.2 < PS_MAX_SWAPS then
    return (r.1, r.2 == 0)
  else
    -- v.reverse()
    for k in [0:len / 2] do
      swp (lo + k) (lo + len - 1 - k)
    return (len - 1 - r.1, true)

/-- the part of one `recurse` iteration after the pivot has been chosen: partition (or `partition_equal` against the
    predecessor pivot) and the recursive calls; `rec` is the loop itself with one unit of fuel less -/
def recurseSplit (cancelAt : Nat → Bool)
    (rec : (lo hi : Nat) → Option α → (limit : Nat) → (wasBalanced wasPartitioned : Bool) → (nread : Nat) → M a0 (Bool × Nat))
    (lo hi : Nat) (pred : Option α) (limit : Nat) (wasBalanced wasPartitioned : Bool) (nread : Nat) (pivot : Nat) : M a0 (Bool × Nat) := do
  let len := hi - lo
  let doEqual ← match pred with
    | some p => do pure !(lt p (← rd (lo + pivot)))
    | none => pure false
  if doEqual then
    let mid ← partitionEqual lt lo hi pivot
    rec (lo + mid) hi pred limit wasBalanced wasPartitioned nread
  else
    let (mid, wasP) ← partition lt lo hi pivot
    let wasBalanced := min mid (len - mid) ≥ len / 8
    let leftLen := mid
    let rightLen := len - mid - 1
    let pv ← rd (lo + mid)
    if max leftLen rightLen ≤ PS_MAX_SEQUENTIAL then
      if leftLen < rightLen then
        let (_, nread) ← rec lo (lo + mid) pred limit true true nread
        rec (lo + mid + 1) hi (some pv) limit wasBalanced wasP nread
      else
        let (_, nread) ← rec (lo + mid + 1) hi (some pv) limit true true nread
        rec lo (lo + mid) pred limit wasBalanced wasP nread
    else if cancelAt nread then
      return (true, nread + 1)
    else
      -- rayon::join: two tasks on disjoint sub-slices
      let (c1, nread) ← rec lo (lo + mid) pred limit true true (nread + 1)
      let (c2, nread) ← rec (lo + mid + 1) hi (some pv) limit true true nread
      return (c1 || c2, nread)

/-- the part of one iteration from the pattern breaking to the pivot choice and the partial insertion sort -/
def recursePivot (cancelAt : Nat → Bool)
    (rec : (lo hi : Nat) → Option α → (limit : Nat) → (wasBalanced wasPartitioned : Bool) → (nread : Nat) → M a0 (Bool × Nat))
    (lo hi : Nat) (pred : Option α) (limit : Nat) (wasBalanced wasPartitioned : Bool) (nread : Nat) : M a0 (Bool × Nat) := do
  let (pivot, likelySorted) ← choosePivot lt lo hi
  if wasBalanced && wasPartitioned && likelySorted then
    if ← partialInsertionSort lt lo hi then return (false, nread)
  recurseSplit lt cancelAt rec lo hi pred limit wasBalanced wasPartitioned nread pivot

/-- the loop of `recurse` on `v[lo..hi)`; `pred` = the predecessor pivot (a value), `nread` = number of
    cancel-flag reads so far; returns (cancelled, nread') -/
def recurseLoop (cancelAt : Nat → Bool) : (fuel : Nat) → (lo hi : Nat) → Option α → (limit : Nat) →
    (wasBalanced wasPartitioned : Bool) → (nread : Nat) → M a0 (Bool × Nat)
  | 0, _, _, _, _, _, _, nread => pure (false, nread)
  | fuel + 1, lo, hi, pred, limit, wasBalanced, wasPartitioned, nread => do
    let len := hi - lo
    if len ≤ PS_MAX_INSERTION then
      insertionSort lt lo hi
      return (false, nread)
    if limit == 0 then
      heapsort lt lo hi
      return (false, nread)
    if !wasBalanced then
      breakPatterns lo hi
      recursePivot lt cancelAt (recurseLoop cancelAt fuel) lo hi pred (limit - 1) wasBalanced wasPartitioned nread
    else
      recursePivot lt cancelAt (recurseLoop cancelAt fuel) lo hi pred limit wasBalanced wasPartitioned nread

def bitLen (n : Nat) : Nat := if n = 0 then 0 else Nat.log2 n + 1

/-- `par_quicksort` inside the permutation monad -/
def parQuicksortM (cancelAt : Nat → Bool) (size : Nat) : M a0 Bool := do
  if cancelAt 0 then return true
  let (c, _) ← recurseLoop lt cancelAt (size + 2) 0 size none (bitLen size) true true 1
  return c

end

/-- `par_quicksort(v, is_less, canceled)`: (resulting slice, returned flag) -/
def parQuicksort {α : Type} [Inhabited α] (lt : α → α → Bool) (cancelAt : Nat → Bool) (a : Array α) : Array α × Bool :=
  let r := (parQuicksortM (a0 := a) lt cancelAt a.size).run ⟨a, Array.Perm.refl a⟩
  (r.2.val, r.1)

end NucleoVerif.PS
