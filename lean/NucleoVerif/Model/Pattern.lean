import NucleoVerif.Model.Matcher
import NucleoVerif.Model.Utf32
/-! Model of `matcher/src/pattern.rs` (`pattern_atoms`, `Atom::parse`, `Atom::new_inner` with both
paths, `Atom::score/indices`, `Pattern::{parse,new,score,indices,match_list}`) and of
`src/pattern.rs` (`MultiPattern::{reparse,status,score}`).

Pattern text is a list of code points.  The grapheme segmentation used by the non-ASCII path of
`new_inner` is an input: `Seg` maps the content of a string to its cluster lengths. -/
namespace NucleoVerif

inductive CaseMatching | respect | ignore | smart
deriving DecidableEq, Repr, Inhabited
inductive Normalization | never | smart
deriving DecidableEq, Repr, Inhabited
inductive AtomKind | fuzzy | substring | prefix | postfix | exact
deriving DecidableEq, Repr, Inhabited

structure Atom where
  negative : Bool
  kind : AtomKind
  needleRep : Rep
  needle : List Nat
  ignoreCase : Bool
  normalize : Bool
deriving DecidableEq, Repr

abbrev Seg := List Nat → List Nat

/-! ### `pattern_atoms`: split at unescaped whitespace -/

/-- `str::split` with the stateful closure of `pattern_atoms`; `cur` is the piece being collected (reversed) -/
def patternAtomsGo : List Nat → Bool → List Nat → List (List Nat)
  | [], _, cur => [cur.reverse]
  | c :: cs, sawBackslash, cur =>
    if isWs c ∧ !sawBackslash then cur.reverse :: patternAtomsGo cs sawBackslash []
    else patternAtomsGo cs (c = 92) (c :: cur)

def patternAtoms (s : List Nat) : List (List Nat) := patternAtomsGo s false []

/-! ### `Atom::new_inner` -/

/-- ASCII path: `split_once("\\ ")` + `split("\\ ")` joined by `' '` = replace every `\ ` left to right -/
def replaceEscSpace : List Nat → List Nat
  | [] => []
  | [c] => [c]
  | c :: d :: r => if c = 92 ∧ d = 32 then 32 :: replaceEscSpace r else c :: replaceEscSpace (d :: r)

def asciiLower (c : Nat) : Nat := if 65 ≤ c ∧ c ≤ 90 then c + 32 else c

/-- state of the non-ASCII escape loop: output (reversed), saw_backslash, ignore_case, normalize -/
structure EscSt where
  out : List Nat
  saw : Bool
  ic : Bool
  nz : Bool

/-- case / normalization bookkeeping for one character; returns (character to push, ic, nz) -/
def foldChar (case : CaseMatching) (norm : Normalization) (c : Nat) (ic nz : Bool) : Nat × Bool × Bool :=
  let (c, ic) := match case with
    | .ignore => (toLower c, ic)
    | .smart => (c, ic && !isUpper c)
    | .respect => (c, ic)
  let nz := match norm with
    | .smart => nz && decide (Gen.normalizeLatin c = c)
    | .never => nz
  (c, ic, nz)

/-- one iteration of the grapheme loop with `escape_whitespace` (a backslash is pushed only once the
    following character is known) -/
def escStep (case : CaseMatching) (norm : Normalization) (s : EscSt) (c : Nat) : EscSt :=
  if s.saw ∧ c = 32 then { s with out := 32 :: s.out, saw := false }
  else
    let out := if s.saw then 92 :: s.out else s.out
    if c = 92 then { s with out := out, saw := true }
    else
      let (c', ic, nz) := foldChar case norm c s.ic s.nz
      { out := c' :: out, saw := false, ic := ic, nz := nz }

def noEscStep (case : CaseMatching) (norm : Normalization) (s : EscSt) (c : Nat) : EscSt :=
  let (c', ic, nz) := foldChar case norm c s.ic s.nz
  { s with out := c' :: s.out, ic := ic, nz := nz }

def newInner (seg : Seg) (needle : List Nat) (case : CaseMatching) (norm : Normalization) (kind : AtomKind)
    (escapeWs appendDollar : Bool) : Atom :=
  if needle.all (· < 128) then
    let n1 := if escapeWs then replaceEscSpace needle else needle
    let (n2, ic) : List Nat × Bool := match case with
      | .ignore => (n1.map asciiLower, true)
      | .smart => (n1, !n1.any (fun b => 65 ≤ b && b ≤ 90))
      | .respect => (n1, false)
    { negative := false, kind := kind, needleRep := .ascii, needle := if appendDollar then n2 ++ [36] else n2,
      ignoreCase := ic, normalize := decide (norm = .smart) }
  else
    let cs := (cutClusters needle (seg needle)).map projCluster
    let init : EscSt := ⟨[], false, decide (case ≠ .respect), decide (norm = .smart)⟩
    let fin := if escapeWs then
        let s := cs.foldl (escStep case norm) init
        if s.saw then { s with out := 92 :: s.out } else s
      else cs.foldl (noEscStep case norm) init
    let out := fin.out.reverse
    { negative := false, kind := kind, needleRep := .unicode, needle := if appendDollar then out ++ [36] else out,
      ignoreCase := fin.ic, normalize := fin.nz }

/-! ### `Atom::parse` -/

def dropLast2 (l : List Nat) : List Nat := l.take (l.length - 2)
def dropLast1 (l : List Nat) : List Nat := l.take (l.length - 1)
def endsWith (l suffix : List Nat) : Bool := l.length ≥ suffix.length && l.drop (l.length - suffix.length) == suffix

/-- `!` / `\!` -/
def stripNeg (raw : List Nat) : Bool × List Nat :=
  match raw with
  | 33 :: r => (true, r)
  | 92 :: 33 :: r => (false, 33 :: r)
  | _ => (false, raw)

/-- `^`, `'`, `\^`, `\'` -/
def stripKind (a1 : List Nat) : AtomKind × List Nat :=
  match a1 with
  | 94 :: r => (.prefix, r)
  | 39 :: r => (.substring, r)
  | 92 :: 94 :: r => (.fuzzy, 94 :: r)
  | 92 :: 39 :: r => (.fuzzy, 39 :: r)
  | _ => (.fuzzy, a1)

/-- `\$`, `$`: (kind, append a literal `$`, rest) -/
def stripDollar (kind : AtomKind) (a2 : List Nat) : AtomKind × Bool × List Nat :=
  if endsWith a2 [92, 36] then (kind, true, dropLast2 a2)
  else if endsWith a2 [36] then ((if kind = .fuzzy then .postfix else .exact), false, dropLast1 a2)
  else (kind, false, a2)

def parseAtom (seg : Seg) (raw : List Nat) (case : CaseMatching) (norm : Normalization) : Atom :=
  let p1 := stripNeg raw
  let p2 := stripKind p1.2
  let p3 := stripDollar p2.1 p2.2
  let kind := if p1.1 ∧ p3.1 = .fuzzy then AtomKind.substring else p3.1
  { newInner seg p3.2.2 case norm kind true p3.2.1 with negative := p1.1 }

/-- `Pattern::parse` / `Pattern::reparse` -/
def parsePattern (seg : Seg) (text : List Nat) (case : CaseMatching) (norm : Normalization) : List Atom :=
  ((patternAtoms text).map (fun raw => parseAtom seg raw case norm)).filter (fun a => !a.needle.isEmpty)

/-- `Pattern::new` -/
def newPattern (seg : Seg) (text : List Nat) (case : CaseMatching) (norm : Normalization) (kind : AtomKind) : List Atom :=
  ((patternAtoms text).map (fun raw => newInner seg raw case norm kind true false)).filter (fun a => !a.needle.isEmpty)

/-! ### scoring (`Atom::score`, `Atom::indices`, `Pattern::score`, `Pattern::indices`) -/

def AtomKind.algo : AtomKind → Algo
  | .fuzzy => .fuzzy | .substring => .substring | .prefix => .prefix | .postfix => .postfix | .exact => .exact

/-- the matcher call an atom makes: the atom's flags overwrite the matcher's configuration -/
def Atom.innerMatch (a : Atom) (cfg : Cfg) (ext : Ext) (hrep : Rep) (h : List Nat) : MRes :=
  a.kind.algo.run { cfg with ignoreCase := a.ignoreCase, normalize := a.normalize } ext hrep a.needleRep h a.needle

/-- `Atom::score` / `Atom::indices` (the indices variant returns the same score and these indices) -/
def Atom.eval (a : Atom) (cfg : Cfg) (ext : Ext) (hrep : Rep) (h : List Nat) : MRes :=
  match a.innerMatch cfg ext hrep h, a.negative with
  | some _, true => none
  | none, true => some (0, [])
  | r, false => r

/-- one iteration of the loop in `Pattern::score` / `Pattern::indices` (`?` on a failing atom) -/
def patternStep (cfg : Cfg) (ext : Ext) (hrep : Rep) (h : List Nat) (acc : MRes) (a : Atom) : MRes :=
  match acc with
  | none => none
  | some (s, is) =>
    match a.eval cfg ext hrep h with
    | none => none
    | some (s', is') => some (s + s', is ++ is')

/-- `Pattern::score` / `Pattern::indices`: conjunction, scores summed (`u32`), indices appended in atom order -/
def patternEval (atoms : List Atom) (cfg : Cfg) (ext : Ext) (hrep : Rep) (h : List Nat) : MRes :=
  atoms.foldl (patternStep cfg ext hrep h) (some (0, []))

/-- stable insertion sort by descending score (`sort_by_key(Reverse(score))` is a stable sort) -/
def insertDesc (x : Nat × Nat) : List (Nat × Nat) → List (Nat × Nat)
  | [] => [x]
  | y :: ys => if x.2 ≥ y.2 then x :: y :: ys else y :: insertDesc x ys

def sortDesc (l : List (Nat × Nat)) : List (Nat × Nat) := l.foldr insertDesc []

/-- `Pattern::match_list` on items given by (id, score-or-none) -/
def matchList (scored : List (Nat × Option Nat)) : List (Nat × Nat) :=
  sortDesc (scored.filterMap (fun p => p.2.map (fun s => (p.1, s))))

/-! ### `MultiPattern` (`src/pattern.rs`) -/

/-- `MultiPattern::score`: the column patterns zipped with the item's column texts (the shorter list ends the loop), `?`
    on a column that does not match, scores summed -/
def multiEval (cfg : Cfg) (ext : Ext) : List (List Atom) → List (Rep × List Nat) → Option Nat
  | p :: ps, h :: hs =>
    match patternEval p cfg ext h.1 h.2 with
    | none => none
    | some r => (multiEval cfg ext ps hs).map (r.1 + ·)
  | _, _ => some 0

inductive PStatus | unchanged | update | rescore
deriving DecidableEq, Repr, Inhabited

def PStatus.rank : PStatus → Nat
  | .unchanged => 0 | .update => 1 | .rescore => 2

/-- may the results for a pattern whose last atom is `a` be reused when text is appended? -/
def lastAtomAllowsUpdate (a : Atom) : Bool :=
  !a.negative && a.kind != .postfix && a.kind != .exact &&
  (match a.needle.getLast? with
   | some 92 => false                 -- text ended in a backslash
   | some 36 => a.kind == .fuzzy      -- escaped `\$` at the end
   | _ => true)

/-- does the edit leave the last atom's normalization alone?  `a`: the last atom before the edit, `b`: the atom in its
    place afterwards.  Appended text can switch smart normalization off (a character normalization would change), and
    comparing haystack characters unnormalized is not a narrowing -/
def normKept (oldAtoms newAtoms : List Atom) : Bool :=
  match oldAtoms.getLast?, newAtoms[oldAtoms.length - 1]? with
  | some a, some b => !(a.normalize && !b.normalize)
  | _, _ => true

/-- `MultiPattern::reparse`'s status decision for one column (`newAtoms`: the column's atoms after the edit) -/
def reparseStatus (old : PStatus) (oldAtoms newAtoms : List Atom) (append : Bool) : PStatus :=
  let lastOk : Bool := match oldAtoms.getLast? with
    | none => true
    | some a => lastAtomAllowsUpdate a
  if append && decide (old ≠ .rescore) && lastOk && normKept oldAtoms newAtoms then .update else .rescore

end NucleoVerif
