import NucleoVerif.Model.Chars
/-! Model of `matcher/src/score.rs`: `Config::bonus_for` and `Matcher::calculate_score`.

Scores are `Nat`; the code's `u16` arithmetic is saturating at every accumulation
(`sat16`), `saturating_sub` is `Nat` subtraction.  `C03_no_wrap` shows the saturation is never
reached for needles of up to 2520 characters. -/
namespace NucleoVerif
open Gen

/-- mirror of `Config::bonus_for` (same if-chain, constants from `Gen.Consts`) -/
def bonusFor (cfg : Cfg) (prev cls : CharClass) : Nat :=
  if cls.rank > CharClass.delimiter.rank ∧ prev = .whitespace then cfg.white
  else if cls.rank > CharClass.delimiter.rank ∧ prev = .delimiter then cfg.delim
  else if cls.rank > CharClass.delimiter.rank ∧ prev = .nonWord then BONUS_BOUNDARY
  else if (prev = .lower ∧ cls = .upper) ∨ (prev ≠ .number ∧ cls = .number) then BONUS_CAMEL123
  else if cls = .whitespace then cfg.white
  else if cls = .nonWord then BONUS_NON_WORD
  else 0

/-- running state of the scoring scheme while walking the haystack left to right
    (`score`, `prev_class`, `in_gap`, `consecutive != 0`, `first_bonus`) -/
structure St where
  score : Nat
  prev : CharClass
  inGap : Bool
  consec : Bool
  firstBonus : Nat
deriving DecidableEq, Repr

/-- the unrolled first iteration of `calculate_score` -/
def stInit (cfg : Cfg) (prev cls : CharClass) : St :=
  let b := bonusFor cfg prev cls
  { score := SCORE_MATCH + b * BONUS_FIRST_CHAR_MULTIPLIER, prev := cls, inGap := false, consec := true, firstBonus := b }

/-- `u16::saturating_add` -/
def sat16 (x : Nat) : Nat := min x 65535

/-- loop body, matching branch -/
def stepMatch (cfg : Cfg) (s : St) (cls : CharClass) : St :=
  let b := bonusFor cfg s.prev cls
  if s.consec then
    let fb := if b ≥ BONUS_BOUNDARY ∧ b > s.firstBonus then b else s.firstBonus
    { score := sat16 (s.score + (SCORE_MATCH + max (max b fb) BONUS_CONSECUTIVE)), prev := cls, inGap := false, consec := true, firstBonus := fb }
  else
    { score := sat16 (s.score + (SCORE_MATCH + b)), prev := cls, inGap := false, consec := true, firstBonus := b }

/-- loop body, non-matching branch -/
def stepSkip (s : St) (cls : CharClass) : St :=
  { s with score := s.score - (if s.inGap then PENALTY_GAP_EXTENSION else PENALTY_GAP_START),
           prev := cls, inGap := true, consec := false }

/-- loop state of `calculate_score`: scheme state, current needle character, rest of the needle
    iterator, indices pushed so far (reversed) -/
structure CsLoop where
  st : St
  needleChar : Nat
  rest : List Nat
  idxRev : List Nat

/-- one iteration of the `for (i, c) in haystack[start + 1..end]` loop; `pos` is the absolute index -/
def csStep (cfg : Cfg) (ext : Ext) (hrep : Rep) (l : CsLoop) (pos c : Nat) : CsLoop :=
  let cls := charClass cfg ext c
  if cnorm cfg hrep c = l.needleChar then
    let st := stepMatch cfg l.st cls
    match l.rest with
    | nx :: rest' => { st := st, needleChar := nx, rest := rest', idxRev := pos :: l.idxRev }
    | [] => { st := st, needleChar := l.needleChar, rest := [], idxRev := pos :: l.idxRev }
  else
    { l with st := stepSkip l.st cls }

def csLoop (cfg : Cfg) (ext : Ext) (hrep : Rep) : CsLoop → Nat → List Nat → CsLoop
  | l, _, [] => l
  | l, pos, c :: cs => csLoop cfg ext hrep (csStep cfg ext hrep l pos c) (pos + 1) cs

/-- the `prefer_prefix` adjustment at the end of `calculate_score` -/
def prefixBonusCs (cfg : Cfg) (start : Nat) : Nat :=
  if cfg.preferPrefix then
    if start ≠ 0 then
      let penalty := PENALTY_GAP_START + PENALTY_GAP_START * (min (start - 1) 65535)
      MAX_PREFIX_BONUS - penalty / PREFIX_BONUS_SCALE
    else MAX_PREFIX_BONUS
  else 0

/-- class of the character before `start` (or the configured initial class) -/
def prevClassAt (cfg : Cfg) (ext : Ext) (h : List Nat) (start : Nat) : CharClass :=
  if start = 0 then cfg.initial else
    match h[start - 1]? with
    | some c => charClass cfg ext c
    | none => cfg.initial

/-- `needle_char = *needle_iter.next().unwrap_or(&needle_char)` after the unrolled first iteration:
    (current needle character, rest of the iterator) -/
def needleAfterFirst (n0 : Nat) (nrest : List Nat) : Nat × List Nat :=
  match nrest with
  | n1 :: r => (n1, r)
  | [] => (n0, [])

/-- the loop of `calculate_score` run over `haystack[start+1..end]`, after the unrolled first iteration
    on `c0 = haystack[start]`; `hrest = haystack[start+1..]` -/
def csRun (cfg : Cfg) (ext : Ext) (hrep : Rep) (h : List Nat) (n0 : Nat) (nrest : List Nat) (c0 : Nat) (hrest : List Nat)
    (start end_ : Nat) : CsLoop :=
  csLoop cfg ext hrep
    { st := stInit cfg (prevClassAt cfg ext h start) (charClass cfg ext c0),
      needleChar := (needleAfterFirst n0 nrest).1, rest := (needleAfterFirst n0 nrest).2, idxRev := [start] }
    (start + 1) (hrest.take (end_ - (start + 1)))

/-- `Matcher::calculate_score(haystack, needle, start, end)`; requires `start < end ≤ |h|`, `needle ≠ []`
    (all call sites guarantee it).  Returns (score, indices). -/
def calculateScore (cfg : Cfg) (ext : Ext) (hrep : Rep) (h n : List Nat) (start end_ : Nat) : Nat × List Nat :=
  match n, h.drop start with
  | n0 :: nrest, c0 :: hrest =>
    let l := csRun cfg ext hrep h n0 nrest c0 hrest start end_
    (sat16 (l.st.score + prefixBonusCs cfg start), l.idxRev.reverse)
  | _, _ => (0, [])

end NucleoVerif
