import NucleoVerif.Gen.Utf32
/-! Model of `matcher/src/utf32_str.rs` and `chars::graphemes`: conversion of a string into the
matcher's string type, and the accessors.

A string is its list of code points.  The extended-grapheme-cluster segmentation is an
**input** (the cluster lengths, from the `unicode-segmentation` crate): `clusters` is the
string cut into its clusters. -/
namespace NucleoVerif

inductive URep | ascii | unicode
deriving DecidableEq, Repr

structure U32 where
  rep : URep
  content : List Nat
deriving DecidableEq, Repr

/-- `memmem::find(bytes, b"\r\n").is_some()` -/
def hasCRLF : List Nat → Bool
  | 13 :: 10 :: _ => true
  | _ :: cs => hasCRLF cs
  | [] => false

/-- `has_ascii_graphemes` -/
def hasAsciiGraphemes (s : List Nat) : Bool := s.all (· < 128) && !hasCRLF s

/-- `chars::graphemes`: first code point of the cluster, `\n` for the CR LF cluster -/
def projCluster (cl : List Nat) : Nat :=
  if cl = [13, 10] then 10 else cl.headD 0

/-- `Utf32Str::new`, `Utf32String::from(&str | String | Box<str> | Cow<str>)` -/
def mkUtf32 (s : List Nat) (clusters : List (List Nat)) : U32 :=
  if hasAsciiGraphemes s then ⟨.ascii, s⟩ else ⟨.unicode, clusters.map projCluster⟩

def U32.len (u : U32) : Nat := u.content.length
def U32.get (u : U32) (i : Nat) : Option Nat := u.content[i]?
def U32.slice (u : U32) (a b : Nat) : U32 := ⟨u.rep, (u.content.drop a).take (b - a)⟩
def U32.chars (u : U32) : List Nat := u.content

/-- one bound of a `RangeBounds` value -/
inductive Bnd | incl (x : Nat) | excl (x : Nat) | unb
deriving DecidableEq, Repr

/-- the first position a start bound admits / the first position an end bound excludes (`std::ops::RangeBounds`) -/
def Bnd.startOf : Bnd → Nat
  | .incl x => x | .excl x => x + 1 | .unb => 0
def Bnd.endOf (n : Nat) : Bnd → Nat
  | .incl x => x + 1 | .excl x => x | .unb => n

/-- `slice` / `slice_u32` of either string type as the source writes it (`Gen.SliceBounds`, regenerated from the four function
    bodies): the bounds become `start..end` by the function's own arms, the result is that range of the content -/
def Gen.SliceBounds.start (sb : Gen.SliceBounds) (n : Nat) : Bnd → Nat
  | .incl x => sb.startIncl x | .excl x => sb.startExcl x | .unb => sb.startUnb n
def Gen.SliceBounds.stop (sb : Gen.SliceBounds) (n : Nat) : Bnd → Nat
  | .incl x => sb.endIncl x n | .excl x => sb.endExcl x n | .unb => sb.endUnb n
def U32.sliceVia (sb : Gen.SliceBounds) (u : U32) (lo hi : Bnd) : U32 := u.slice (sb.start u.len lo) (sb.stop u.len hi)

/-- cut `s` into pieces of the given lengths -/
def cutClusters : List Nat → List Nat → List (List Nat)
  | _, [] => []
  | s, k :: ks => s.take k :: cutClusters (s.drop k) ks

end NucleoVerif
