import NucleoVerif.Model.Matcher
import NucleoVerif.Spec.Matcher
import NucleoVerif.Props.C16
/-! # C01 — fuzzy matching decides exactly the normalized-subsequence relation

Status of this file: the specification side (`subseqB ⇔ List.Sublist`), the outer dispatch of all
four entry points (length guards, empty needle, equal-length shortcut), the character-level
agreement of the ASCII prefilter with normalization and the forward scans are theorems; the
composition through the prefilter windows and the DP's completeness (`C01_decision`) is being
built up — what is not yet a theorem is covered by the correspondence/oracle run only. -/
namespace NucleoVerif
open Gen Spec

/-- the executable decision used by the oracle is the standard sublist relation -/
theorem subseqB_iff (n h : List Nat) : subseqB n h = true ↔ Subseq n h := by
  unfold Subseq
  induction h generalizing n with
  | nil =>
    cases n with
    | nil => simp [subseqB]
    | cons a as => simp [subseqB]
  | cons b bs ih =>
    cases n with
    | nil => simp [subseqB]
    | cons a as =>
      simp only [subseqB]
      by_cases e : a = b
      · subst e
        simp only [if_true, ih, List.cons_sublist_cons]
      · simp only [e, if_false, ih]
        constructor
        · exact fun h => List.Sublist.cons _ h
        · intro h
          cases h with
          | cons _ h => exact h
          | cons_cons _ h => exact absurd rfl e

/-- a needle longer than the haystack never matches (all four entry points) and is not a subsequence -/
theorem C01_longer (cfg : Cfg) (ext : Ext) (hr nr : Rep) (h n : List Nat) (hl : n.length > h.length) :
    fuzzyMatch cfg ext hr nr h n = none ∧ fuzzyGreedy cfg ext hr nr h n = none ∧
    ¬ Subseq n (normHay cfg hr h) := by
  refine ⟨by simp [fuzzyMatch, hl], by simp [fuzzyGreedy, hl], ?_⟩
  intro hs
  have := hs.length_le
  simp [normHay] at this
  omega

/-- the empty needle always matches with score 0 and no indices -/
theorem C01_empty (cfg : Cfg) (ext : Ext) (hr nr : Rep) (h : List Nat) :
    fuzzyMatch cfg ext hr nr h [] = some (0, []) ∧ fuzzyGreedy cfg ext hr nr h [] = some (0, []) ∧
    Subseq [] (normHay cfg hr h) := by
  refine ⟨by simp [fuzzyMatch], by simp [fuzzyGreedy], ?_⟩
  simp [Subseq]

/-- for a case-folded needle character the ASCII prefilter's byte comparison is exactly
    "normalizes to" -/
theorem asciiEq_iff_norm (cfg : Cfg) (c x : Nat) (hc : normAscii cfg c = c) :
    asciiEq cfg.ignoreCase c x = true ↔ normAscii cfg x = c := by
  unfold asciiEq normAscii at *
  by_cases hi : cfg.ignoreCase = true
  · simp only [hi, true_and, Bool.true_and, Bool.or_eq_true, Bool.and_eq_true, decide_eq_true_eq] at hc ⊢
    by_cases hx : 65 ≤ x ∧ x ≤ 90
    · simp only [hx, and_self, if_true]
      split at hc <;> omega
    · simp only [hx, if_false]
      split at hc <;> omega
  · simp only [hi, false_and, Bool.false_and, Bool.or_false, decide_eq_true_eq, if_false, Bool.false_eq_true]

/-- the forward scan of the greedy matcher succeeds iff the rest of the needle is a subsequence
    of the rest of the (normalized) haystack -/
theorem greedyFwd_isSome (cfg : Cfg) (hrep : Rep) (ns cs : List Nat) (k : Nat) :
    (greedyFwd cfg hrep ns cs k).isSome = subseqB ns (cs.map (norm cfg hrep)) := by
  induction cs generalizing ns k with
  | nil => cases ns <;> simp [greedyFwd, subseqB]
  | cons c cs ih =>
    cases ns with
    | nil => simp [greedyFwd, subseqB]
    | cons nc ns =>
      simp only [greedyFwd, List.map_cons, subseqB]
      by_cases e : norm cfg hrep c = nc
      · simp only [e, if_true]
        cases ns with
        | nil => simp [subseqB]
        | cons a as => exact ih (a :: as) (k + 1)
      · have e' : ¬ (nc = norm cfg hrep c) := fun h => e h.symm
        simp only [e, e', if_false]
        exact ih (nc :: ns) (k + 1)

/-- the row-offset pass of the optimal matcher (`setup`'s `matched` flag) decides the subsequence
    relation on the window -/
theorem setupMatched_eq (ns : List Nat) (cols : List Col) :
    setupMatched ns cols = subseqB ns (cols.map (·.ch)) := by
  induction cols generalizing ns with
  | nil => cases ns <;> simp [setupMatched, subseqB]
  | cons c cs ih =>
    cases ns with
    | nil => simp [setupMatched, subseqB]
    | cons nc ns =>
      simp only [setupMatched, List.map_cons, subseqB]
      by_cases e : c.ch = nc
      · have e' : nc = c.ch := e.symm
        simp [e, ih]
      · have e' : ¬ (nc = c.ch) := fun h => e h.symm
        simp [e, e', ih]

/-- the two internal normalization routines agree (C16), so every decider above works on the
    same normalized haystack -/
theorem C01_same_view (cfg : Cfg) (r : Rep) (h : List Nat) (hr : r = .ascii → ∀ c ∈ h, c < 128) :
    h.map (cnorm cfg r) = h.map (norm cfg r) := by
  apply List.map_congr_left
  intro c hc
  exact C16_cnorm_eq_norm cfg r c (fun e => hr e c hc)

/-- **representation independence of the normalized haystack**: an ASCII text gives the same
    normalized text in either representation -/
theorem C01_normHay_rep (cfg : Cfg) (h : List Nat) (ha : ∀ c ∈ h, c < 128) :
    normHay cfg .ascii h = normHay cfg .unicode h := by
  apply List.map_congr_left
  intro c hc
  exact C16_norm_rep_independent cfg c (ha c hc)

end NucleoVerif
