import NucleoVerif.Model.Matcher
import NucleoVerif.Spec.Matcher
import NucleoVerif.Props.C16
import NucleoVerif.Props.C05
import NucleoVerif.Lemmas.Subseq
import NucleoVerif.Lemmas.DPComplete
import NucleoVerif.Lemmas.Scan
/-! # C01 — fuzzy matching decides exactly the normalized-subsequence relation

Status of this file: the specification side (`subseqB ⇔ List.Sublist`), the outer dispatch of all
four entry points (length guards, empty needle, equal-length shortcut), the character-level
agreement of the ASCII prefilter with normalization and the forward scans are theorems, and for an
ASCII haystack with an ASCII needle the whole composition is: `C01_decision_ascii`
(`fuzzy_match`/`fuzzy_indices`: equal-length shortcut, one-character scan, prefilter window,
contiguous shortcut, matrix path with the recurrence's completeness, greedy fallback),
`C01_decision_ascii_greedy`, `C01_entry_points_agree_ascii`; and for a code-point haystack with a
needle in either representation: `C01_decision_unicode` (`prefilterNonAscii_spec`: first occurrence
of the first needle character, last occurrence of the last one, window long enough and containing
an embedding whenever there is one), `C01_decision_unicode_greedy`, `C01_entry_points_agree_unicode`,
and `C01_representation_independent`.  The one remaining combination, ASCII-representation haystack
with a code-point needle, always answers `None` (known finding K1). -/
namespace NucleoVerif
open Gen Spec

/-- the executable decision used by the oracle is the standard sublist relation -/
theorem subseqB_iff (n h : List Nat) : subseqB n h = true ↔ Subseq n h := by
  unfold Subseq
  induction h generalizing n with
  | nil =>
    cases n with
    | nil => simp [subseqB]
    | cons a as => simp [subseqB]
  | cons b bs ih =>
    cases n with
    | nil => simp [subseqB]
    | cons a as =>
      simp only [subseqB]
      by_cases e : a = b
      · subst e
        simp only [if_true, ih, List.cons_sublist_cons]
      · simp only [e, if_false, ih]
        constructor
        · exact fun h => List.Sublist.cons _ h
        · intro h
          cases h with
          | cons _ h => exact h
          | cons_cons _ h => exact absurd rfl e

/-- a needle longer than the haystack never matches (all four entry points) and is not a subsequence -/
theorem C01_longer (cfg : Cfg) (ext : Ext) (hr nr : Rep) (h n : List Nat) (hl : n.length > h.length) :
    fuzzyMatch cfg ext hr nr h n = none ∧ fuzzyGreedy cfg ext hr nr h n = none ∧
    ¬ Subseq n (normHay cfg hr h) := by
  refine ⟨by simp [fuzzyMatch, hl], by simp [fuzzyGreedy, hl], ?_⟩
  intro hs
  have := hs.length_le
  simp [normHay] at this
  omega

/-- the empty needle always matches with score 0 and no indices -/
theorem C01_empty (cfg : Cfg) (ext : Ext) (hr nr : Rep) (h : List Nat) :
    fuzzyMatch cfg ext hr nr h [] = some (0, []) ∧ fuzzyGreedy cfg ext hr nr h [] = some (0, []) ∧
    Subseq [] (normHay cfg hr h) := by
  refine ⟨by simp [fuzzyMatch], by simp [fuzzyGreedy], ?_⟩
  simp [Subseq]

/-- for a case-folded needle character the ASCII prefilter's byte comparison is exactly
    "normalizes to" -/
theorem asciiEq_iff_norm (cfg : Cfg) (c x : Nat) (hc : normAscii cfg c = c) :
    asciiEq cfg.ignoreCase c x = true ↔ normAscii cfg x = c := by
  unfold asciiEq normAscii at *
  by_cases hi : cfg.ignoreCase = true
  · simp only [hi, true_and, Bool.true_and, Bool.or_eq_true, Bool.and_eq_true, decide_eq_true_eq] at hc ⊢
    by_cases hx : 65 ≤ x ∧ x ≤ 90
    · simp only [hx, and_self, if_true]
      split at hc <;> omega
    · simp only [hx, if_false]
      split at hc <;> omega
  · simp only [hi, false_and, Bool.false_and, Bool.or_false, decide_eq_true_eq, if_false, Bool.false_eq_true]

/-- the forward scan of the greedy matcher succeeds iff the rest of the needle is a subsequence
    of the rest of the (normalized) haystack -/
theorem greedyFwd_isSome (cfg : Cfg) (hrep : Rep) (ns cs : List Nat) (k : Nat) :
    (greedyFwd cfg hrep ns cs k).isSome = subseqB ns (cs.map (norm cfg hrep)) := by
  induction cs generalizing ns k with
  | nil => cases ns <;> simp [greedyFwd, subseqB]
  | cons c cs ih =>
    cases ns with
    | nil => simp [greedyFwd, subseqB]
    | cons nc ns =>
      simp only [greedyFwd, List.map_cons, subseqB]
      by_cases e : norm cfg hrep c = nc
      · simp only [e, if_true]
        cases ns with
        | nil => simp [subseqB]
        | cons a as => exact ih (a :: as) (k + 1)
      · have e' : ¬ (nc = norm cfg hrep c) := fun h => e h.symm
        simp only [e, e', if_false]
        exact ih (nc :: ns) (k + 1)

/-- the row-offset pass of the optimal matcher (`setup`'s `matched` flag) decides the subsequence
    relation on the window -/
theorem setupMatched_eq (ns : List Nat) (cols : List Col) :
    setupMatched ns cols = subseqB ns (cols.map (·.ch)) := by
  induction cols generalizing ns with
  | nil => cases ns <;> simp [setupMatched, subseqB]
  | cons c cs ih =>
    cases ns with
    | nil => simp [setupMatched, subseqB]
    | cons nc ns =>
      simp only [setupMatched, List.map_cons, subseqB]
      by_cases e : c.ch = nc
      · have e' : nc = c.ch := e.symm
        simp [e, ih]
      · have e' : ¬ (nc = c.ch) := fun h => e h.symm
        simp [e, e', ih]

/-- the two internal normalization routines agree (C16), so every decider above works on the
    same normalized haystack -/
theorem C01_same_view (cfg : Cfg) (r : Rep) (h : List Nat) (hr : r = .ascii → ∀ c ∈ h, c < 128) :
    h.map (cnorm cfg r) = h.map (norm cfg r) := by
  apply List.map_congr_left
  intro c hc
  exact C16_cnorm_eq_norm cfg r c (fun e => hr e c hc)

/-- **representation independence of the normalized haystack**: an ASCII text gives the same
    normalized text in either representation -/
theorem C01_normHay_rep (cfg : Cfg) (h : List Nat) (ha : ∀ c ∈ h, c < 128) :
    normHay cfg .ascii h = normHay cfg .unicode h := by
  apply List.map_congr_left
  intro c hc
  exact C16_norm_rep_independent cfg c (ha c hc)

open DP NucleoVerif.Sub

/-! ## the decision of `fuzzy_match`, ASCII haystack and needle: all paths composed -/

theorem map_eq_self (f : Nat → Nat) : ∀ (l : List Nat), (∀ c ∈ l, f c = c) → l.map f = l := by
  intro l
  induction l with
  | nil => intro _; rfl
  | cons a t ih => intro hl; simp [hl a (by simp), ih (fun c hc => hl c (by simp [hc]))]

theorem subseqB_single (c : Nat) : ∀ (l : List Nat), subseqB [c] l = true ↔ c ∈ l := by
  intro l
  induction l with
  | nil => simp [subseqB]
  | cons b bs ih =>
    simp only [subseqB, List.mem_cons]
    by_cases e : c = b
    · simp [e]
    · simp [e, ih]

theorem windowCols_go_map_ch (cfg : Cfg) (ext : Ext) (hrep : Rep) :
    ∀ (l : List Nat) (idx : Nat) (prev : CharClass), (windowCols.go cfg ext hrep prev idx l).map (·.ch) = l.map (cnorm cfg hrep) := by
  intro l
  induction l with
  | nil => intro _ _; rfl
  | cons c cs ih => intro idx prev; simp [windowCols.go, ih]

theorem windowCols_map_ch (cfg : Cfg) (ext : Ext) (hrep : Rep) (h : List Nat) (start end_ : Nat) :
    (windowCols cfg ext hrep h start end_).map (·.ch) = ((h.drop start).take (end_ - start)).map (cnorm cfg hrep) := by
  unfold windowCols; exact windowCols_go_map_ch cfg ext hrep _ _ _

/-- equal lengths: the exact comparison decides the subsequence relation (a subsequence of the same length is the
    whole list) -/
theorem eqLen_ascii (cfg : Cfg) (ext : Ext) (h : List Nat) (n0 : Nat) (ns : List Nat)
    (hn : ∀ c ∈ n0 :: ns, normAscii cfg c = c) (heq : (n0 :: ns).length = h.length) :
    (exactImpl cfg ext .ascii .ascii h (n0 :: ns) 0 h.length).isSome = subseqB (n0 :: ns) (h.map (normAscii cfg)) := by
  rw [exactImpl_isSome]
  simp only [Nat.sub_zero, List.drop_zero, List.take_length, heq, decide_true, Bool.true_and]
  have hnmap : (n0 :: ns).map (normAscii cfg) = n0 :: ns := map_eq_self _ _ hn
  have heq' : h.length = ns.length + 1 := by simpa using heq.symm
  have key : ∀ (l : List Nat), l.length = (n0 :: ns).length → (subseqB (n0 :: ns) l = true ↔ l = n0 :: ns) := by
    intro l hl
    rw [subseqB_iff_sublist]
    constructor
    · intro hs; exact (hs.eq_of_length (by omega)).symm
    · intro e; rw [e]; exact List.Sublist.refl _
  by_cases hic : cfg.ignoreCase = true
  · simp only [hic, if_true, hnmap]
    have := key (h.map (normAscii cfg)) (by simp; omega)
    cases hb : (h.map (normAscii cfg) == n0 :: ns) with
    | true => rw [beq_iff_eq] at hb; exact (this.mpr hb).symm
    | false =>
      cases hs : subseqB (n0 :: ns) (h.map (normAscii cfg)) with
      | false => rfl
      | true => have := this.mp hs; rw [this] at hb; simp at hb
  · have hid : h.map (normAscii cfg) = h := by
      apply map_eq_self
      intro x _; simp [normAscii, hic]
    simp only [hic, Bool.false_eq_true, if_false, hid]
    have := key h (by simp; omega)
    cases hb : (h == n0 :: ns) with
    | true => rw [beq_iff_eq] at hb; exact (this.mpr hb).symm
    | false =>
      cases hs : subseqB (n0 :: ns) h with
      | false => rfl
      | true => have := this.mp hs; rw [this] at hb; simp at hb


/-- **`fuzzy_match` / `fuzzy_indices` on an ASCII haystack and ASCII needle succeed exactly when the needle is a
    subsequence of the normalized haystack** — every configuration, every ASCII haystack, every already
    normalized needle (any length: the equal-length shortcut, the one-character scan, the prefilter, the
    contiguous shortcut, the matrix path and the greedy fallback all agree). -/
theorem C01_decision_ascii (cfg : Cfg) (ext : Ext) (h n : List Nat)
    (hasc : ∀ x ∈ h, x < 128) (hn : ∀ c ∈ n, normAscii cfg c = c) :
    (fuzzyMatch cfg ext .ascii .ascii h n).isSome = subseqB n (normHay cfg .ascii h) := by
  unfold fuzzyMatch normHay
  show _ = subseqB n (h.map (normAscii cfg))
  by_cases hlong : n.length > h.length
  · simp only [hlong, if_true, Option.isSome_none]
    cases hs : subseqB n (h.map (normAscii cfg)) with
    | false => rfl
    | true => have := subseqB_length n _ hs; simp at this; omega
  · simp only [hlong, if_false]
    cases n with
    | nil => simp [subseqB]
    | cons n0 ns =>
      simp only [List.isEmpty_cons, Bool.false_eq_true, if_false]
      by_cases heq : (n0 :: ns).length = h.length
      · simp only [heq, if_true]
        exact eqLen_ascii cfg ext h n0 ns hn heq
      · simp only [heq, if_false]
        cases ns with
        | nil =>
          -- one character
          simp only
          unfold substring1Ascii
          simp only
          rw [substring1Ascii_go_eq]
          have hp := scan1_pos cfg (asciiEq cfg.ignoreCase n0) (charClassAscii cfg) h ⟨0, 0, false⟩ cfg.initial 0 (by simp)
          simp only [ne_eq, not_true_eq_false, false_or] at hp
          have hc0 := hn n0 (by simp)
          have hmem : (∃ x ∈ h, asciiEq cfg.ignoreCase n0 x = true) ↔ subseqB [n0] (h.map (normAscii cfg)) = true := by
            rw [subseqB_single, List.mem_map]
            constructor
            · rintro ⟨x, hx, hm⟩; exact ⟨x, hx, (asciiEq_iff cfg n0 x hc0).mp hm⟩
            · rintro ⟨x, hx, hm⟩; exact ⟨x, hx, (asciiEq_iff cfg n0 x hc0).mpr hm⟩
          by_cases hz : (scan1 cfg (asciiEq cfg.ignoreCase n0) (charClassAscii cfg) ⟨0, 0, false⟩ cfg.initial 0 h).score = 0
          · rw [if_pos hz]
            have : ¬ (∃ x ∈ h, asciiEq cfg.ignoreCase n0 x = true) := fun e => (hp.mpr e) hz
            cases hs : subseqB [n0] (h.map (normAscii cfg)) with
            | false => rfl
            | true => exact absurd (hmem.mpr hs) this
          · rw [if_neg hz]
            exact (hmem.mp (hp.mp hz)).symm
        | cons n1 ns' =>
          simp only
          have spec := prefilterAscii_spec cfg h n0 (n1 :: ns') false hn
          cases hpf : prefilterAscii cfg h (n0 :: n1 :: ns') false with
          | none => rw [hpf] at spec; simpa using spec.1
          | some r =>
            obtain ⟨start, ge, e⟩ := r
            rw [hpf] at spec
            obtain ⟨h1, h2, h3, h4, h5⟩ := spec.2 start ge e rfl
            have htrue : subseqB (n0 :: n1 :: ns') (h.map (normAscii cfg)) = true := by simpa using spec.1.symm
            rw [htrue]
            simp only
            split
            · rfl
            · unfold fuzzyOptimal
              split
              · -- matrix path
                rw [optimalDP_isSome, windowCols_map_ch]
                have hview : ((h.drop start).take (e - start)).map (cnorm cfg .ascii) = ((h.drop start).take (e - start)).map (normAscii cfg) := by
                  apply List.map_congr_left
                  intro x hx
                  exact C16_cnorm_eq_norm cfg .ascii x (fun _ => hasc x ((List.drop_sublist _ _).subset ((List.take_sublist _ _).subset hx)))
                rw [hview]
                apply subseqB_of_sublist_hay _ _ _ h5
                apply List.Sublist.map
                have : (h.drop start).take (ge - start) = ((h.drop start).take (e - start)).take (ge - start) := by
                  rw [List.take_take]; congr 1; omega
                rw [this]
                exact List.take_sublist _ _
              · -- greedy fallback: both representations ASCII, always succeeds on the prefiltered window
                simp [fuzzyGreedyInner]


/-- **the greedy entry points decide the same relation** (ASCII haystack and needle) -/
theorem C01_decision_ascii_greedy (cfg : Cfg) (ext : Ext) (h n : List Nat) (hn : ∀ c ∈ n, normAscii cfg c = c) :
    (fuzzyGreedy cfg ext .ascii .ascii h n).isSome = subseqB n (normHay cfg .ascii h) := by
  unfold fuzzyGreedy normHay
  show _ = subseqB n (h.map (normAscii cfg))
  by_cases hlong : n.length > h.length
  · simp only [hlong, if_true, Option.isSome_none]
    cases hs : subseqB n (h.map (normAscii cfg)) with
    | false => rfl
    | true => have := subseqB_length n _ hs; simp at this; omega
  · simp only [hlong, if_false]
    cases n with
    | nil => simp [subseqB]
    | cons n0 ns =>
      simp only [List.isEmpty_cons, Bool.false_eq_true, if_false]
      by_cases heq : (n0 :: ns).length = h.length
      · simp only [heq, if_true]
        exact eqLen_ascii cfg ext h n0 ns hn heq
      · simp only [heq, if_false]
        have spec := prefilterAscii_spec cfg h n0 ns true hn
        cases hpf : prefilterAscii cfg h (n0 :: ns) true with
        | none => rw [hpf] at spec; simpa using spec.1
        | some r =>
          obtain ⟨start, ge, e⟩ := r
          rw [hpf] at spec
          have htrue : subseqB (n0 :: ns) (h.map (normAscii cfg)) = true := by simpa using spec.1.symm
          rw [htrue]
          simp only
          split
          · rfl
          · simp [fuzzyGreedyInner]

/-- **all four entry points agree** on an ASCII haystack and needle (the score-only variants are the same
    functions with `INDICES = false`) -/
theorem C01_entry_points_agree_ascii (cfg : Cfg) (ext : Ext) (h n : List Nat)
    (hasc : ∀ x ∈ h, x < 128) (hn : ∀ c ∈ n, normAscii cfg c = c) :
    (fuzzyMatch cfg ext .ascii .ascii h n).isSome = (fuzzyGreedy cfg ext .ascii .ascii h n).isSome := by
  rw [C01_decision_ascii cfg ext h n hasc hn, C01_decision_ascii_greedy cfg ext h n hn]

/-- the statement is not vacuous: "ab" is found in "aXb" and "ba" is not (default configuration, case folding on) -/
example :
    let cfg : Cfg := { delims := [47], white := 10, delim := 9, initial := .whitespace, normalize := true, ignoreCase := true, preferPrefix := false }
    (fuzzyMatch cfg (fun _ => default) .ascii .ascii [97, 88, 66] [97, 98]).isSome = true ∧
    (fuzzyMatch cfg (fun _ => default) .ascii .ascii [97, 88, 66] [98, 97]).isSome = false := by
  decide


/-! ## code-point haystacks: the decision, the greedy entry points, representation independence -/

theorem findIdx_map (f : Nat → Nat) (p : Nat → Bool) : ∀ (l : List Nat), findIdx p (l.map f) = findIdx (fun x => p (f x)) l := by
  intro l
  induction l with
  | nil => rfl
  | cons c cs ih => simp only [List.map_cons, findIdx, ih]

/-- list-level form of `subseqB_first` (equality test) -/
theorem subseqB_first_eq (a : Nat) (as : List Nat) (L : List Nat) :
    subseqB (a :: as) L = (match findIdx (fun x => x == a) L with | none => false | some i => subseqB as (L.drop (i + 1))) := by
  have := subseqB_first id (fun x => x == a) a as L (by intro x _; simp)
  rw [List.map_id] at this
  rw [this]
  cases findIdx (fun x => x == a) L with
  | none => rfl
  | some i => simp

theorem sublist_reverse_iff (a b : List Nat) : List.Sublist a.reverse b.reverse ↔ List.Sublist a b := List.reverse_sublist

/-- the last needle character's last occurrence bounds the embedding from the right -/
theorem sublist_take_last (ns L : List Nat) (last : Nat) (hl : ns.getLast? = some last) (hs : List.Sublist ns L) :
    ∃ q, findIdx (fun x => x == last) L.reverse = some q ∧ q < L.length ∧ List.Sublist ns (L.take (L.length - q)) := by
  -- ns = ms ++ [last]
  obtain ⟨ms, rfl⟩ : ∃ ms, ns = ms ++ [last] := by
    cases h : ns.reverse with
    | nil => simp at h; subst h; simp at hl
    | cons x xs =>
      refine ⟨xs.reverse, ?_⟩
      have : ns = (x :: xs).reverse := by rw [← h]; simp
      rw [this] at hl ⊢
      simp at hl ⊢
      exact hl
  have hr : List.Sublist (last :: ms.reverse) L.reverse := by
    have := (sublist_reverse_iff _ _).mpr hs
    simpa using this
  have hb := (subseqB_iff_sublist _ _).mpr hr
  rw [subseqB_first_eq] at hb
  cases hq : findIdx (fun x => x == last) L.reverse with
  | none => rw [hq] at hb; cases hb
  | some q =>
    rw [hq] at hb
    simp only at hb
    have hql := (findIdx_some _ _ q hq).1
    simp only [List.length_reverse] at hql
    obtain ⟨_, ⟨x, hx1, hx2⟩, _⟩ := findIdx_some _ _ q hq
    refine ⟨q, rfl, hql, ?_⟩
    -- ms.reverse <+ L.reverse.drop (q+1) = (L.take (len - q - 1)).reverse
    have hms : List.Sublist ms.reverse (L.reverse.drop (q + 1)) := (subseqB_iff_sublist _ _).mp hb
    have hd : L.reverse.drop (q + 1) = (L.take (L.length - (q + 1))).reverse := by
      rw [List.drop_reverse]
    rw [hd] at hms
    have hms' : List.Sublist ms (L.take (L.length - (q + 1))) := (sublist_reverse_iff _ _).mp hms
    -- the element at position len - q - 1 is `last`
    have hx : L[L.length - q - 1]? = some last := by
      rw [List.getElem?_reverse (by simpa using hql)] at hx1
      have : x = last := by simpa using hx2
      rw [this] at hx1
      have e : L.length - q - 1 = L.length - 1 - q := by omega
      rw [e]; exact hx1
    have hsplit : L.take (L.length - q) = L.take (L.length - (q + 1)) ++ [last] := by
      have e : L.length - q = (L.length - (q + 1)) + 1 := by omega
      rw [e, List.take_add_one]
      have : L.length - (q + 1) = L.length - q - 1 := by omega
      rw [this, hx]; rfl
    rw [hsplit]
    exact List.Sublist.append hms' (List.Sublist.refl _)

theorem getLast?_mem_of_sublist (ns L : List Nat) (last : Nat) (hl : ns.getLast? = some last) (hs : List.Sublist ns L) : last ∈ L := by
  have : last ∈ ns := List.mem_of_getLast? hl
  exact hs.subset this

theorem findIdx_none_of_not_mem (a : Nat) : ∀ (L : List Nat), findIdx (fun x => x == a) L = none → a ∉ L := by
  intro L h hm
  have := findIdx_none _ L h a hm
  simp at this

/-- **the code-point prefilter** (`prefilter_non_ascii`, needle of at least two characters): it rejects only
    non-subsequences, and when it accepts, the window `[start, end)` starts at the first occurrence of the first
    needle character, is long enough, lies inside the haystack, and contains an embedding whenever there is one -/
theorem prefilterNonAscii_spec (cfg : Cfg) (h : List Nat) (n0 n1 : Nat) (ns' : List Nat) :
    match prefilterNonAscii cfg h (n0 :: n1 :: ns') false with
    | none => subseqB (n0 :: n1 :: ns') (h.map (normChar cfg)) = false
    | some (start, e) =>
      start + (n0 :: n1 :: ns').length ≤ e ∧ e ≤ h.length ∧
      subseqB (n0 :: n1 :: ns') (h.map (normChar cfg)) =
        subseqB (n0 :: n1 :: ns') (((h.map (normChar cfg)).drop start).take (e - start)) ∧
      subseqB (n0 :: n1 :: ns') (h.map (normChar cfg)) = subseqB (n1 :: ns') ((h.map (normChar cfg)).drop (start + 1)) := by
  generalize hL : h.map (normChar cfg) = L
  have hLlen : L.length = h.length := by rw [← hL]; simp
  have hfirst := subseqB_first_eq n0 (n1 :: ns') L
  unfold prefilterNonAscii
  simp only
  -- the code's search on `h` is the search for the character itself on the normalized list
  have hfi : ∀ (a : Nat) (l : List Nat), findIdx (fun c => decide (normChar cfg c = a)) l = findIdx (fun x => x == a) (l.map (normChar cfg)) := by
    intro a l; rw [findIdx_map]; congr 1
  rw [hfi, List.map_take, hL]
  cases hf : findIdx (fun x => x == n0) (L.take (h.length - (n0 :: n1 :: ns').length + 1)) with
  | none =>
    simp only
    cases hfull : findIdx (fun x => x == n0) L with
    | none => rw [hfull] at hfirst; exact hfirst
    | some i =>
      rw [hfull] at hfirst
      simp only at hfirst
      cases hs : subseqB (n1 :: ns') (L.drop (i + 1)) with
      | false => rw [hs] at hfirst; exact hfirst
      | true =>
        exfalso
        have hl := subseqB_length _ _ hs
        simp only [List.length_drop, List.length_cons] at hl
        have := findIdx_take _ L i (h.length - (n0 :: n1 :: ns').length + 1) hfull (by simp only [List.length_cons]; omega)
        rw [this] at hf; cases hf
  | some start =>
    simp only
    have hfull := findIdx_of_take _ L start _ hf
    rw [hfull] at hfirst
    simp only at hfirst
    have hst := (findIdx_some _ L start hfull).1
    have hlast : (n0 :: n1 :: ns').getLast?.getD n0 = (n1 :: ns').getLast (by simp) := by
      rw [List.getLast?_cons_cons, List.getLast?_eq_some_getLast (by simp)]; rfl
    have hlast' : (n1 :: ns').getLast? = some ((n1 :: ns').getLast (by simp)) := List.getLast?_eq_some_getLast (by simp)
    rw [hlast]
    generalize (n1 :: ns').getLast (by simp) = last at hlast'
    rw [hfi, List.map_reverse, List.map_drop, hL]
    cases hp : findIdx (fun x => x == last) (L.drop (start + 1)).reverse with
    | none =>
      simp only
      rw [hfirst]
      cases hs : subseqB (n1 :: ns') (L.drop (start + 1)) with
      | false => rfl
      | true =>
        exfalso
        have hm := getLast?_mem_of_sublist _ _ last hlast' ((subseqB_iff_sublist _ _).mp hs)
        exact findIdx_none_of_not_mem last _ hp (by simpa using hm)
    | some p =>
      simp only
      have hpl := (findIdx_some _ _ p hp).1
      simp only [List.length_reverse, List.length_drop] at hpl
      by_cases hshort : h.length - p - start < (n0 :: n1 :: ns').length
      · simp only [hshort, if_true]
        rw [hfirst]
        cases hs : subseqB (n1 :: ns') (L.drop (start + 1)) with
        | false => rfl
        | true =>
          exfalso
          obtain ⟨q, hq1, hq2, hq3⟩ := sublist_take_last _ _ last hlast' ((subseqB_iff_sublist _ _).mp hs)
          rw [hp] at hq1; injection hq1 with hq1; subst hq1
          have := hq3.length_le
          simp only [List.length_take, List.length_drop, List.length_cons] at this hshort
          omega
      · simp only [hshort, if_false]
        refine ⟨by omega, by omega, ?_, hfirst⟩
        rw [hfirst]
        cases hs : subseqB (n1 :: ns') (L.drop (start + 1)) with
        | false =>
          -- not a subsequence of the haystack, hence not of the window
          cases hw : subseqB (n0 :: n1 :: ns') ((L.drop start).take (h.length - p - start)) with
          | false => rfl
          | true =>
            exfalso
            have := subseqB_of_sublist_hay _ _ L hw ((List.take_sublist _ _).trans (List.drop_sublist _ _))
            rw [hfirst, hs] at this; cases this
        | true =>
          symm
          obtain ⟨q, hq1, hq2, hq3⟩ := sublist_take_last _ _ last hlast' ((subseqB_iff_sublist _ _).mp hs)
          rw [hp] at hq1; injection hq1 with hq1; subst hq1
          have hd : L.drop start = L[start]'(by omega) :: L.drop (start + 1) := by rw [List.drop_eq_getElem_cons]
          have h0 : L[start]'(by omega) = n0 := by
            obtain ⟨x, hx1, hx2⟩ := (findIdx_some _ L start hfull).2.1
            rw [List.getElem?_eq_getElem (by omega)] at hx1
            injection hx1 with hx1
            rw [hx1]; simpa using hx2
          have hcnt : h.length - p - start = ((L.drop (start + 1)).length - p) + 1 := by
            simp only [List.length_drop]; omega
          rw [hd, hcnt, List.take_succ_cons, h0]
          simp only [subseqB, if_true]
          exact (subseqB_iff_sublist _ _).mpr hq3

theorem eq_of_subseqB_same_length (n l : List Nat) (hl : l.length = n.length) : subseqB n l = (l == n) := by
  cases hb : (l == n) with
  | true => rw [beq_iff_eq] at hb; subst hb; exact (subseqB_iff_sublist _ _).mpr (List.Sublist.refl _)
  | false =>
    cases hs : subseqB n l with
    | false => rfl
    | true =>
      have := ((subseqB_iff_sublist _ _).mp hs).eq_of_length (by omega)
      rw [this] at hb; simp at hb

/-- **`fuzzy_match` / `fuzzy_indices` on a code-point haystack succeed exactly when the needle is a subsequence of the
    normalized haystack** — every configuration, haystack, and already-normalized needle in either representation. -/
theorem C01_decision_unicode (cfg : Cfg) (ext : Ext) (nrep : Rep) (h n : List Nat) (hn : n.map (norm cfg nrep) = n) :
    (fuzzyMatch cfg ext .unicode nrep h n).isSome = subseqB n (normHay cfg .unicode h) := by
  unfold fuzzyMatch normHay
  show _ = subseqB n (h.map (normChar cfg))
  by_cases hlong : n.length > h.length
  · simp only [hlong, if_true, Option.isSome_none]
    cases hs : subseqB n (h.map (normChar cfg)) with
    | false => rfl
    | true => have := subseqB_length n _ hs; simp at this; omega
  · simp only [hlong, if_false]
    cases n with
    | nil => simp [subseqB]
    | cons n0 ns =>
      simp only [List.isEmpty_cons, Bool.false_eq_true, if_false]
      by_cases heq : (n0 :: ns).length = h.length
      · simp only [heq, if_true]
        rw [exactImpl_window cfg ext .unicode nrep h _ _ _ (by simp) hn]
        simp only [Nat.sub_zero, heq, decide_true, Bool.true_and, List.drop_zero, normHay]
        have : (h.map (norm cfg .unicode)).take h.length = h.map (norm cfg .unicode) := List.take_of_length_le (by simp)
        rw [this]
        exact (eq_of_subseqB_same_length _ _ (by simp only [List.length_map]; omega)).symm
      · simp only [heq, if_false]
        have hlt : (n0 :: ns).length < h.length := by omega
        cases ns with
        | nil =>
          -- one character: the prefilter's first occurrence decides
          simp only
          unfold prefilterNonAscii
          simp only [List.length_cons, List.length_nil]
          have hfi : findIdx (fun c => decide (normChar cfg c = n0)) (h.take (h.length - (0 + 1) + 1)) = findIdx (fun x => x == n0) (h.map (normChar cfg)) := by
            have e : h.length - (0 + 1) + 1 = h.length := by simp at hlt; omega
            rw [e, List.take_length, findIdx_map]; congr 1
          rw [hfi, subseqB_first_eq]
          cases hf : findIdx (fun x => x == n0) (h.map (normChar cfg)) with
          | none => rfl
          | some start =>
            have := (findIdx_some _ _ start hf).1
            simp only [List.length_map] at this
            have hnot : ¬ (h.length - start < 0 + 1) := by omega
            simp [hnot, subseqB]
        | cons n1 ns' =>
          simp only
          have spec := prefilterNonAscii_spec cfg h n0 n1 ns'
          cases hpf : prefilterNonAscii cfg h (n0 :: n1 :: ns') false with
          | none => rw [hpf] at spec; simp only at spec; rw [spec]; rfl
          | some r =>
            obtain ⟨start, e⟩ := r
            rw [hpf] at spec
            obtain ⟨s1, s2, s3, s4⟩ := spec
            simp only
            split
            · -- contiguous: the window has the needle's length
              rename_i hcl
              rw [exactImpl_window cfg ext .unicode nrep h _ _ _ (by simp) hn]
              simp only [hcl, decide_true, Bool.true_and, normHay]
              rw [s3]
              exact (eq_of_subseqB_same_length _ _ (by
                simp only [List.length_take, List.length_drop, List.length_map]; omega)).symm
            · unfold fuzzyOptimal
              split
              · -- matrix path
                rw [optimalDP_isSome, windowCols_map_ch]
                have hview : ((h.drop start).take (e - start)).map (cnorm cfg .unicode) = ((h.map (normChar cfg)).drop start).take (e - start) := by
                  rw [← List.map_drop, ← List.map_take]
                  apply List.map_congr_left
                  intro x _
                  exact C16_cnorm_eq_norm cfg .unicode x (by simp)
                rw [hview, s3]
              · -- greedy fallback
                unfold fuzzyGreedyInner
                simp only [reduceCtorEq, false_and, if_false, List.drop_succ_cons, List.drop_zero]
                have hg := greedyFwd_isSome cfg .unicode (n1 :: ns') (h.drop (start + 1)) 0
                rw [s4, ← List.map_drop]
                cases hgf : greedyFwd cfg .unicode (n1 :: ns') (h.drop (start + 1)) 0 with
                | none => rw [hgf] at hg; simp at hg ⊢; exact hg
                | some k => rw [hgf] at hg; simp at hg ⊢; exact hg

theorem greedyInner_unicode_isSome (cfg : Cfg) (ext : Ext) (nrep : Rep) (h : List Nat) (n0 n1 : Nat) (ns' : List Nat) (start : Nat) :
    (fuzzyGreedyInner cfg ext .unicode nrep h (n0 :: n1 :: ns') start (start + 1)).isSome =
      (greedyFwd cfg .unicode (n1 :: ns') (h.drop (start + 1)) 0).isSome := by
  unfold fuzzyGreedyInner
  simp only [reduceCtorEq, false_and, if_false, List.drop_succ_cons, List.drop_zero]
  cases greedyFwd cfg .unicode (n1 :: ns') (h.drop (start + 1)) 0 <;> rfl

/-- the greedy entry points on a code-point haystack decide the same relation -/
theorem C01_decision_unicode_greedy (cfg : Cfg) (ext : Ext) (nrep : Rep) (h n : List Nat) (hn : n.map (norm cfg nrep) = n) :
    (fuzzyGreedy cfg ext .unicode nrep h n).isSome = subseqB n (normHay cfg .unicode h) := by
  unfold fuzzyGreedy normHay
  show _ = subseqB n (h.map (normChar cfg))
  by_cases hlong : n.length > h.length
  · simp only [hlong, if_true, Option.isSome_none]
    cases hs : subseqB n (h.map (normChar cfg)) with
    | false => rfl
    | true => have := subseqB_length n _ hs; simp at this; omega
  · simp only [hlong, if_false]
    cases n with
    | nil => simp [subseqB]
    | cons n0 ns =>
      simp only [List.isEmpty_cons, Bool.false_eq_true, if_false]
      by_cases heq : (n0 :: ns).length = h.length
      · simp only [heq, if_true]
        rw [exactImpl_window cfg ext .unicode nrep h _ _ _ (by simp) hn]
        simp only [Nat.sub_zero, heq, decide_true, Bool.true_and, List.drop_zero, normHay]
        have : (h.map (norm cfg .unicode)).take h.length = h.map (norm cfg .unicode) := List.take_of_length_le (by simp)
        rw [this]
        exact (eq_of_subseqB_same_length _ _ (by simp only [List.length_map]; omega)).symm
      · simp only [heq, if_false]
        generalize hL : h.map (normChar cfg) = L
        have hLlen : L.length = h.length := by rw [← hL]; simp
        have hfirst := subseqB_first_eq n0 ns L
        unfold prefilterNonAscii
        simp only
        have hfi : findIdx (fun c => decide (normChar cfg c = n0)) (h.take (h.length - (n0 :: ns).length + 1)) =
            findIdx (fun x => x == n0) (L.take (h.length - (n0 :: ns).length + 1)) := by
          rw [← hL, ← List.map_take, findIdx_map]; congr 1
        rw [hfi]
        cases hf : findIdx (fun x => x == n0) (L.take (h.length - (n0 :: ns).length + 1)) with
        | none =>
          simp only
          cases hfull : findIdx (fun x => x == n0) L with
          | none => rw [hfull] at hfirst; rw [hfirst]; rfl
          | some i =>
            rw [hfull] at hfirst
            simp only at hfirst
            cases hs : subseqB ns (L.drop (i + 1)) with
            | false => rw [hs] at hfirst; rw [hfirst]; rfl
            | true =>
              exfalso
              have hl := subseqB_length _ _ hs
              simp only [List.length_drop] at hl
              have hi := (findIdx_some _ L i hfull).1
              have := findIdx_take _ L i (h.length - (n0 :: ns).length + 1) hfull (by simp only [List.length_cons]; omega)
              rw [this] at hf; cases hf
        | some start =>
          simp only
          have hfull := findIdx_of_take _ L start _ hf
          rw [hfull] at hfirst
          simp only at hfirst
          have hst := (findIdx_some _ L start hfull).1
          by_cases hshort : h.length - start < (n0 :: ns).length
          · simp only [hshort, if_true]
            rw [hfirst]
            cases hs : subseqB ns (L.drop (start + 1)) with
            | false => simp
            | true =>
              exfalso
              have hl := subseqB_length _ _ hs
              simp only [List.length_drop, List.length_cons] at hl hshort
              omega
          · simp only [hshort, if_false, if_true]
            rw [hfirst]
            cases ns with
            | nil => simp [fuzzyGreedyInner, subseqB]
            | cons n1 ns' =>
              rw [greedyInner_unicode_isSome, greedyFwd_isSome]
              have hd : (h.drop (start + 1)).map (norm cfg .unicode) = L.drop (start + 1) := by rw [← hL, List.map_drop]; rfl
              rw [hd]

/-- **all four entry points agree on a code-point haystack** -/
theorem C01_entry_points_agree_unicode (cfg : Cfg) (ext : Ext) (nrep : Rep) (h n : List Nat) (hn : n.map (norm cfg nrep) = n) :
    (fuzzyMatch cfg ext .unicode nrep h n).isSome = (fuzzyGreedy cfg ext .unicode nrep h n).isSome := by
  rw [C01_decision_unicode cfg ext nrep h n hn, C01_decision_unicode_greedy cfg ext nrep h n hn]

/-- **the decision does not depend on the representation**: an ASCII text gives the same answer whether haystack and
    needle are held as bytes or as code points (except an ASCII-representation haystack with a code-point needle: K1) -/
theorem C01_representation_independent (cfg : Cfg) (ext : Ext) (nrep : Rep) (h n : List Nat)
    (hasc : ∀ x ∈ h, x < 128) (hn : ∀ c ∈ n, normAscii cfg c = c) (hn' : n.map (norm cfg nrep) = n) :
    (fuzzyMatch cfg ext .ascii .ascii h n).isSome = (fuzzyMatch cfg ext .unicode nrep h n).isSome := by
  rw [C01_decision_ascii cfg ext h n hasc hn, C01_decision_unicode cfg ext nrep h n hn', C01_normHay_rep cfg h hasc]


end NucleoVerif
