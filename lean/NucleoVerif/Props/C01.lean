import NucleoVerif.Model.Matcher
import NucleoVerif.Spec.Matcher
import NucleoVerif.Props.C16
import NucleoVerif.Props.C05
import NucleoVerif.Lemmas.Subseq
import NucleoVerif.Lemmas.DPComplete
import NucleoVerif.Lemmas.Scan
/-! # C01 — fuzzy matching decides exactly the normalized-subsequence relation

Status of this file: the specification side (`subseqB ⇔ List.Sublist`), the outer dispatch of all
four entry points (length guards, empty needle, equal-length shortcut), the character-level
agreement of the ASCII prefilter with normalization and the forward scans are theorems, and for an
ASCII haystack with an ASCII needle the whole composition is: `C01_decision_ascii`
(`fuzzy_match`/`fuzzy_indices`: equal-length shortcut, one-character scan, prefilter window,
contiguous shortcut, matrix path with the recurrence's completeness, greedy fallback),
`C01_decision_ascii_greedy`, `C01_entry_points_agree_ascii`.  For a code-point haystack the
composition is not yet a theorem (pieces: `greedyFwd_isSome`, `setupMatched_eq`, `C01_same_view`);
it is covered by the correspondence/oracle run. -/
namespace NucleoVerif
open Gen Spec

/-- the executable decision used by the oracle is the standard sublist relation -/
theorem subseqB_iff (n h : List Nat) : subseqB n h = true ↔ Subseq n h := by
  unfold Subseq
  induction h generalizing n with
  | nil =>
    cases n with
    | nil => simp [subseqB]
    | cons a as => simp [subseqB]
  | cons b bs ih =>
    cases n with
    | nil => simp [subseqB]
    | cons a as =>
      simp only [subseqB]
      by_cases e : a = b
      · subst e
        simp only [if_true, ih, List.cons_sublist_cons]
      · simp only [e, if_false, ih]
        constructor
        · exact fun h => List.Sublist.cons _ h
        · intro h
          cases h with
          | cons _ h => exact h
          | cons_cons _ h => exact absurd rfl e

/-- a needle longer than the haystack never matches (all four entry points) and is not a subsequence -/
theorem C01_longer (cfg : Cfg) (ext : Ext) (hr nr : Rep) (h n : List Nat) (hl : n.length > h.length) :
    fuzzyMatch cfg ext hr nr h n = none ∧ fuzzyGreedy cfg ext hr nr h n = none ∧
    ¬ Subseq n (normHay cfg hr h) := by
  refine ⟨by simp [fuzzyMatch, hl], by simp [fuzzyGreedy, hl], ?_⟩
  intro hs
  have := hs.length_le
  simp [normHay] at this
  omega

/-- the empty needle always matches with score 0 and no indices -/
theorem C01_empty (cfg : Cfg) (ext : Ext) (hr nr : Rep) (h : List Nat) :
    fuzzyMatch cfg ext hr nr h [] = some (0, []) ∧ fuzzyGreedy cfg ext hr nr h [] = some (0, []) ∧
    Subseq [] (normHay cfg hr h) := by
  refine ⟨by simp [fuzzyMatch], by simp [fuzzyGreedy], ?_⟩
  simp [Subseq]

/-- for a case-folded needle character the ASCII prefilter's byte comparison is exactly
    "normalizes to" -/
theorem asciiEq_iff_norm (cfg : Cfg) (c x : Nat) (hc : normAscii cfg c = c) :
    asciiEq cfg.ignoreCase c x = true ↔ normAscii cfg x = c := by
  unfold asciiEq normAscii at *
  by_cases hi : cfg.ignoreCase = true
  · simp only [hi, true_and, Bool.true_and, Bool.or_eq_true, Bool.and_eq_true, decide_eq_true_eq] at hc ⊢
    by_cases hx : 65 ≤ x ∧ x ≤ 90
    · simp only [hx, and_self, if_true]
      split at hc <;> omega
    · simp only [hx, if_false]
      split at hc <;> omega
  · simp only [hi, false_and, Bool.false_and, Bool.or_false, decide_eq_true_eq, if_false, Bool.false_eq_true]

/-- the forward scan of the greedy matcher succeeds iff the rest of the needle is a subsequence
    of the rest of the (normalized) haystack -/
theorem greedyFwd_isSome (cfg : Cfg) (hrep : Rep) (ns cs : List Nat) (k : Nat) :
    (greedyFwd cfg hrep ns cs k).isSome = subseqB ns (cs.map (norm cfg hrep)) := by
  induction cs generalizing ns k with
  | nil => cases ns <;> simp [greedyFwd, subseqB]
  | cons c cs ih =>
    cases ns with
    | nil => simp [greedyFwd, subseqB]
    | cons nc ns =>
      simp only [greedyFwd, List.map_cons, subseqB]
      by_cases e : norm cfg hrep c = nc
      · simp only [e, if_true]
        cases ns with
        | nil => simp [subseqB]
        | cons a as => exact ih (a :: as) (k + 1)
      · have e' : ¬ (nc = norm cfg hrep c) := fun h => e h.symm
        simp only [e, e', if_false]
        exact ih (nc :: ns) (k + 1)

/-- the row-offset pass of the optimal matcher (`setup`'s `matched` flag) decides the subsequence
    relation on the window -/
theorem setupMatched_eq (ns : List Nat) (cols : List Col) :
    setupMatched ns cols = subseqB ns (cols.map (·.ch)) := by
  induction cols generalizing ns with
  | nil => cases ns <;> simp [setupMatched, subseqB]
  | cons c cs ih =>
    cases ns with
    | nil => simp [setupMatched, subseqB]
    | cons nc ns =>
      simp only [setupMatched, List.map_cons, subseqB]
      by_cases e : c.ch = nc
      · have e' : nc = c.ch := e.symm
        simp [e, ih]
      · have e' : ¬ (nc = c.ch) := fun h => e h.symm
        simp [e, e', ih]

/-- the two internal normalization routines agree (C16), so every decider above works on the
    same normalized haystack -/
theorem C01_same_view (cfg : Cfg) (r : Rep) (h : List Nat) (hr : r = .ascii → ∀ c ∈ h, c < 128) :
    h.map (cnorm cfg r) = h.map (norm cfg r) := by
  apply List.map_congr_left
  intro c hc
  exact C16_cnorm_eq_norm cfg r c (fun e => hr e c hc)

/-- **representation independence of the normalized haystack**: an ASCII text gives the same
    normalized text in either representation -/
theorem C01_normHay_rep (cfg : Cfg) (h : List Nat) (ha : ∀ c ∈ h, c < 128) :
    normHay cfg .ascii h = normHay cfg .unicode h := by
  apply List.map_congr_left
  intro c hc
  exact C16_norm_rep_independent cfg c (ha c hc)

open DP NucleoVerif.Sub

/-! ## the decision of `fuzzy_match`, ASCII haystack and needle: all paths composed -/

theorem map_eq_self (f : Nat → Nat) : ∀ (l : List Nat), (∀ c ∈ l, f c = c) → l.map f = l := by
  intro l
  induction l with
  | nil => intro _; rfl
  | cons a t ih => intro hl; simp [hl a (by simp), ih (fun c hc => hl c (by simp [hc]))]

theorem subseqB_single (c : Nat) : ∀ (l : List Nat), subseqB [c] l = true ↔ c ∈ l := by
  intro l
  induction l with
  | nil => simp [subseqB]
  | cons b bs ih =>
    simp only [subseqB, List.mem_cons]
    by_cases e : c = b
    · simp [e]
    · simp [e, ih]

theorem windowCols_go_map_ch (cfg : Cfg) (ext : Ext) (hrep : Rep) :
    ∀ (l : List Nat) (idx : Nat) (prev : CharClass), (windowCols.go cfg ext hrep prev idx l).map (·.ch) = l.map (cnorm cfg hrep) := by
  intro l
  induction l with
  | nil => intro _ _; rfl
  | cons c cs ih => intro idx prev; simp [windowCols.go, ih]

theorem windowCols_map_ch (cfg : Cfg) (ext : Ext) (hrep : Rep) (h : List Nat) (start end_ : Nat) :
    (windowCols cfg ext hrep h start end_).map (·.ch) = ((h.drop start).take (end_ - start)).map (cnorm cfg hrep) := by
  unfold windowCols; exact windowCols_go_map_ch cfg ext hrep _ _ _

/-- equal lengths: the exact comparison decides the subsequence relation (a subsequence of the same length is the
    whole list) -/
theorem eqLen_ascii (cfg : Cfg) (ext : Ext) (h : List Nat) (n0 : Nat) (ns : List Nat)
    (hn : ∀ c ∈ n0 :: ns, normAscii cfg c = c) (heq : (n0 :: ns).length = h.length) :
    (exactImpl cfg ext .ascii .ascii h (n0 :: ns) 0 h.length).isSome = subseqB (n0 :: ns) (h.map (normAscii cfg)) := by
  rw [exactImpl_isSome]
  simp only [Nat.sub_zero, List.drop_zero, List.take_length, heq, decide_true, Bool.true_and]
  have hnmap : (n0 :: ns).map (normAscii cfg) = n0 :: ns := map_eq_self _ _ hn
  have heq' : h.length = ns.length + 1 := by simpa using heq.symm
  have key : ∀ (l : List Nat), l.length = (n0 :: ns).length → (subseqB (n0 :: ns) l = true ↔ l = n0 :: ns) := by
    intro l hl
    rw [subseqB_iff_sublist]
    constructor
    · intro hs; exact (hs.eq_of_length (by omega)).symm
    · intro e; rw [e]; exact List.Sublist.refl _
  by_cases hic : cfg.ignoreCase = true
  · simp only [hic, if_true, hnmap]
    have := key (h.map (normAscii cfg)) (by simp; omega)
    cases hb : (h.map (normAscii cfg) == n0 :: ns) with
    | true => rw [beq_iff_eq] at hb; exact (this.mpr hb).symm
    | false =>
      cases hs : subseqB (n0 :: ns) (h.map (normAscii cfg)) with
      | false => rfl
      | true => have := this.mp hs; rw [this] at hb; simp at hb
  · have hid : h.map (normAscii cfg) = h := by
      apply map_eq_self
      intro x _; simp [normAscii, hic]
    simp only [hic, Bool.false_eq_true, if_false, hid]
    have := key h (by simp; omega)
    cases hb : (h == n0 :: ns) with
    | true => rw [beq_iff_eq] at hb; exact (this.mpr hb).symm
    | false =>
      cases hs : subseqB (n0 :: ns) h with
      | false => rfl
      | true => have := this.mp hs; rw [this] at hb; simp at hb


/-- **`fuzzy_match` / `fuzzy_indices` on an ASCII haystack and ASCII needle succeed exactly when the needle is a
    subsequence of the normalized haystack** — every configuration, every ASCII haystack, every already
    normalized needle (any length: the equal-length shortcut, the one-character scan, the prefilter, the
    contiguous shortcut, the matrix path and the greedy fallback all agree). -/
theorem C01_decision_ascii (cfg : Cfg) (ext : Ext) (h n : List Nat)
    (hasc : ∀ x ∈ h, x < 128) (hn : ∀ c ∈ n, normAscii cfg c = c) :
    (fuzzyMatch cfg ext .ascii .ascii h n).isSome = subseqB n (normHay cfg .ascii h) := by
  unfold fuzzyMatch normHay
  show _ = subseqB n (h.map (normAscii cfg))
  by_cases hlong : n.length > h.length
  · simp only [hlong, if_true, Option.isSome_none]
    cases hs : subseqB n (h.map (normAscii cfg)) with
    | false => rfl
    | true => have := subseqB_length n _ hs; simp at this; omega
  · simp only [hlong, if_false]
    cases n with
    | nil => simp [subseqB]
    | cons n0 ns =>
      simp only [List.isEmpty_cons, Bool.false_eq_true, if_false]
      by_cases heq : (n0 :: ns).length = h.length
      · simp only [heq, if_true]
        exact eqLen_ascii cfg ext h n0 ns hn heq
      · simp only [heq, if_false]
        cases ns with
        | nil =>
          -- one character
          simp only
          unfold substring1Ascii
          simp only
          rw [substring1Ascii_go_eq]
          have hp := scan1_pos cfg (asciiEq cfg.ignoreCase n0) (charClassAscii cfg) h ⟨0, 0, false⟩ cfg.initial 0 (by simp)
          simp only [ne_eq, not_true_eq_false, false_or] at hp
          have hc0 := hn n0 (by simp)
          have hmem : (∃ x ∈ h, asciiEq cfg.ignoreCase n0 x = true) ↔ subseqB [n0] (h.map (normAscii cfg)) = true := by
            rw [subseqB_single, List.mem_map]
            constructor
            · rintro ⟨x, hx, hm⟩; exact ⟨x, hx, (asciiEq_iff cfg n0 x hc0).mp hm⟩
            · rintro ⟨x, hx, hm⟩; exact ⟨x, hx, (asciiEq_iff cfg n0 x hc0).mpr hm⟩
          by_cases hz : (scan1 cfg (asciiEq cfg.ignoreCase n0) (charClassAscii cfg) ⟨0, 0, false⟩ cfg.initial 0 h).score = 0
          · rw [if_pos hz]
            have : ¬ (∃ x ∈ h, asciiEq cfg.ignoreCase n0 x = true) := fun e => (hp.mpr e) hz
            cases hs : subseqB [n0] (h.map (normAscii cfg)) with
            | false => rfl
            | true => exact absurd (hmem.mpr hs) this
          · rw [if_neg hz]
            exact (hmem.mp (hp.mp hz)).symm
        | cons n1 ns' =>
          simp only
          have spec := prefilterAscii_spec cfg h n0 (n1 :: ns') false hn
          cases hpf : prefilterAscii cfg h (n0 :: n1 :: ns') false with
          | none => rw [hpf] at spec; simpa using spec.1
          | some r =>
            obtain ⟨start, ge, e⟩ := r
            rw [hpf] at spec
            obtain ⟨h1, h2, h3, h4, h5⟩ := spec.2 start ge e rfl
            have htrue : subseqB (n0 :: n1 :: ns') (h.map (normAscii cfg)) = true := by simpa using spec.1.symm
            rw [htrue]
            simp only
            split
            · rfl
            · unfold fuzzyOptimal
              split
              · -- matrix path
                rw [optimalDP_isSome, windowCols_map_ch]
                have hview : ((h.drop start).take (e - start)).map (cnorm cfg .ascii) = ((h.drop start).take (e - start)).map (normAscii cfg) := by
                  apply List.map_congr_left
                  intro x hx
                  exact C16_cnorm_eq_norm cfg .ascii x (fun _ => hasc x ((List.drop_sublist _ _).subset ((List.take_sublist _ _).subset hx)))
                rw [hview]
                apply subseqB_of_sublist_hay _ _ _ h5
                apply List.Sublist.map
                have : (h.drop start).take (ge - start) = ((h.drop start).take (e - start)).take (ge - start) := by
                  rw [List.take_take]; congr 1; omega
                rw [this]
                exact List.take_sublist _ _
              · -- greedy fallback: both representations ASCII, always succeeds on the prefiltered window
                simp [fuzzyGreedyInner]


/-- **the greedy entry points decide the same relation** (ASCII haystack and needle) -/
theorem C01_decision_ascii_greedy (cfg : Cfg) (ext : Ext) (h n : List Nat) (hn : ∀ c ∈ n, normAscii cfg c = c) :
    (fuzzyGreedy cfg ext .ascii .ascii h n).isSome = subseqB n (normHay cfg .ascii h) := by
  unfold fuzzyGreedy normHay
  show _ = subseqB n (h.map (normAscii cfg))
  by_cases hlong : n.length > h.length
  · simp only [hlong, if_true, Option.isSome_none]
    cases hs : subseqB n (h.map (normAscii cfg)) with
    | false => rfl
    | true => have := subseqB_length n _ hs; simp at this; omega
  · simp only [hlong, if_false]
    cases n with
    | nil => simp [subseqB]
    | cons n0 ns =>
      simp only [List.isEmpty_cons, Bool.false_eq_true, if_false]
      by_cases heq : (n0 :: ns).length = h.length
      · simp only [heq, if_true]
        exact eqLen_ascii cfg ext h n0 ns hn heq
      · simp only [heq, if_false]
        have spec := prefilterAscii_spec cfg h n0 ns true hn
        cases hpf : prefilterAscii cfg h (n0 :: ns) true with
        | none => rw [hpf] at spec; simpa using spec.1
        | some r =>
          obtain ⟨start, ge, e⟩ := r
          rw [hpf] at spec
          have htrue : subseqB (n0 :: ns) (h.map (normAscii cfg)) = true := by simpa using spec.1.symm
          rw [htrue]
          simp only
          split
          · rfl
          · simp [fuzzyGreedyInner]

/-- **all four entry points agree** on an ASCII haystack and needle (the score-only variants are the same
    functions with `INDICES = false`) -/
theorem C01_entry_points_agree_ascii (cfg : Cfg) (ext : Ext) (h n : List Nat)
    (hasc : ∀ x ∈ h, x < 128) (hn : ∀ c ∈ n, normAscii cfg c = c) :
    (fuzzyMatch cfg ext .ascii .ascii h n).isSome = (fuzzyGreedy cfg ext .ascii .ascii h n).isSome := by
  rw [C01_decision_ascii cfg ext h n hasc hn, C01_decision_ascii_greedy cfg ext h n hn]

/-- the statement is not vacuous: "ab" is found in "aXb" and "ba" is not (default configuration, case folding on) -/
example :
    let cfg : Cfg := { delims := [47], white := 10, delim := 9, initial := .whitespace, normalize := true, ignoreCase := true, preferPrefix := false }
    (fuzzyMatch cfg (fun _ => default) .ascii .ascii [97, 88, 66] [97, 98]).isSome = true ∧
    (fuzzyMatch cfg (fun _ => default) .ascii .ascii [97, 88, 66] [98, 97]).isSome = false := by
  decide

end NucleoVerif
