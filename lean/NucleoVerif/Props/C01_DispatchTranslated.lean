import NucleoVerif.Gen.Dispatch
import NucleoVerif.Model.Matcher
/-! # C01 (companion file) — the dispatch of `fuzzy_matcher_impl` and `fuzzy_match_greedy_impl`, translated from the source

`Gen/Dispatch.lean` is regenerated on every run from `matcher/src/lib.rs` by a small statement translator (length guards,
`assert!`, the `match` on the two representations, `if let &[needle] = needle`, `let (..) = self.prefilter_..(..)?`, the
contiguous-window shortcut, and the window arguments handed to every callee, in source order).  The callees are parameters
(`Gen.Dispatch.Calls`); instantiated with the model's routines, the translated functions *are* the model's entry points —
so every theorem about `fuzzyMatch` / `fuzzyGreedy` speaks about the branch structure the code has now, and a change of a
guard, of a branch or of a window argument (`start + 1` for `greedy_end`, `end` for `greedy_end`, a swapped prefilter flag)
is a broken obligation. -/
namespace NucleoVerif

/-- the callbacks of the translated dispatch, instantiated with the model's routines on fixed arguments -/
def modelCalls (cfg : Cfg) (ext : Ext) (hrep nrep : Rep) (h n : List Nat) : Gen.Dispatch.Calls (Nat × List Nat) MRes where
  none := none
  some := some
  zero := (0, [])
  calculate_score := fun s e => calculateScore cfg ext hrep h n s e
  exact_match_impl := fun s e => exactImpl cfg ext hrep nrep h n s e
  fuzzy_match_greedy_ := fun s e => fuzzyGreedyInner cfg ext hrep nrep h n s e
  fuzzy_match_optimal := fun s g e => fuzzyOptimal cfg ext hrep nrep h n s g e
  prefilter_ascii := fun og => prefilterAscii cfg h n og
  prefilter_non_ascii := fun og => prefilterNonAscii cfg h n og
  substring_match_1_ascii := substring1Ascii cfg ext h (n.headD 0)
  substring_match_1_non_ascii := fun s => substring1NonAscii cfg ext h (n.headD 0) s
  substring_match_ascii := substringAscii cfg ext h n
  substring_match_non_ascii := fun s => substringNonAscii cfg ext nrep h n s

/-- **`fuzzy_match` / `fuzzy_indices`**: the model's entry point is the translated dispatch -/
theorem C01_translated_fuzzy_dispatch (cfg : Cfg) (ext : Ext) (hrep nrep : Rep) (h n : List Nat) :
    fuzzyMatch cfg ext hrep nrep h n =
      Gen.Dispatch.fuzzy_matcher_impl (modelCalls cfg ext hrep nrep h n) h.length n.length (hrep == .ascii) (nrep == .ascii) := by
  unfold fuzzyMatch Gen.Dispatch.fuzzy_matcher_impl modelCalls
  rcases n with _ | ⟨c, _ | ⟨d, t⟩⟩ <;> cases hrep <;> cases nrep <;> simp <;> (repeat' split) <;> simp_all

/-- **`fuzzy_match_greedy` / `fuzzy_indices_greedy`** -/
theorem C01_translated_greedy_dispatch (cfg : Cfg) (ext : Ext) (hrep nrep : Rep) (h n : List Nat) :
    fuzzyGreedy cfg ext hrep nrep h n =
      Gen.Dispatch.fuzzy_match_greedy_impl (modelCalls cfg ext hrep nrep h n) h.length n.length (hrep == .ascii) (nrep == .ascii) := by
  unfold fuzzyGreedy Gen.Dispatch.fuzzy_match_greedy_impl modelCalls
  rcases n with _ | ⟨c, _ | ⟨d, t⟩⟩ <;> cases hrep <;> cases nrep <;> simp <;> (repeat' split) <;> simp_all

end NucleoVerif
