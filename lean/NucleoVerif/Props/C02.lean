import NucleoVerif.Model.Matcher
import NucleoVerif.Spec.Matcher
import NucleoVerif.Lemmas.DP
import NucleoVerif.Props.C16
/-! # C02 — reported indices are a valid witness of the match

Status: the specification predicates are unfolded to their mathematical content
(`validWitnessB_iff`), "a failed match carries no indices" and "the prior content of the
vector is untouched" hold by construction of the model's result type (the model returns the
appended part only; that the implementation appends exactly that and keeps the prefix is
checked on every case of the correspondence run).  The per-algorithm witness theorems are
built on `csLoop` (indices pushed by `calculate_score`) and the DP cell invariant. -/
namespace NucleoVerif
open Gen Spec

/-- what the executable witness check means -/
theorem validWitnessB_iff (cfg : Cfg) (hrep : Rep) (h n is : List Nat) :
    validWitnessB cfg hrep h n is = true ↔
      is.length = n.length ∧
      (∀ p ∈ is.zip (is.drop 1), p.1 < p.2) ∧
      (∀ p ∈ is.zip n, ∃ c, h[p.1]? = some c ∧ norm cfg hrep c = p.2) := by
  simp only [validWitnessB, Bool.and_eq_true, beq_iff_eq, List.all_eq_true, decide_eq_true_eq]
  constructor
  · rintro ⟨⟨h1, h2⟩, h3⟩
    refine ⟨h1, h2, ?_⟩
    intro p hp
    have := h3 p hp
    cases hh : h[p.1]? with
    | none => simp [hh] at this
    | some c => exact ⟨c, rfl, by simpa [hh] using this⟩
  · rintro ⟨h1, h2, h3⟩
    refine ⟨⟨h1, h2⟩, ?_⟩
    intro p hp
    obtain ⟨c, hc, hn⟩ := h3 p hp
    simp [hc, hn]

theorem csStep_idx (cfg : Cfg) (ext : Ext) (hrep : Rep) (l : CsLoop) (pos c : Nat) :
    (csStep cfg ext hrep l pos c).idxRev = l.idxRev ∨ (csStep cfg ext hrep l pos c).idxRev = pos :: l.idxRev := by
  unfold csStep
  split
  · split <;> exact Or.inr rfl
  · exact Or.inl rfl

/-- every index pushed by the `calculate_score` loop is the position of the step that pushed it,
    so the indices are strictly increasing and lie in the scanned window -/
theorem csLoop_idx_bounds (cfg : Cfg) (ext : Ext) (hrep : Rep) (lo : Nat) :
    ∀ (cs : List Nat) (l : CsLoop) (pos : Nat), lo ≤ pos →
      (∀ x ∈ l.idxRev, lo ≤ x ∧ x < pos) → l.idxRev.Pairwise (· > ·) →
      (∀ x ∈ (csLoop cfg ext hrep l pos cs).idxRev, lo ≤ x ∧ x < pos + cs.length) ∧
      (csLoop cfg ext hrep l pos cs).idxRev.Pairwise (· > ·) := by
  intro cs
  induction cs with
  | nil => intro l pos _ h1 h2; simpa [csLoop] using ⟨h1, h2⟩
  | cons c cs ih =>
    intro l pos hlo h1 h2
    simp only [csLoop, List.length_cons]
    have key : (∀ x ∈ (csStep cfg ext hrep l pos c).idxRev, lo ≤ x ∧ x < pos + 1) ∧
        (csStep cfg ext hrep l pos c).idxRev.Pairwise (· > ·) := by
      rcases csStep_idx cfg ext hrep l pos c with e | e <;> rw [e]
      · exact ⟨fun x hx => by have := h1 x hx; omega, h2⟩
      · refine ⟨?_, ?_⟩
        · intro x hx
          simp only [List.mem_cons] at hx
          rcases hx with rfl | hx
          · omega
          · have := h1 x hx; omega
        · simp only [List.pairwise_cons]
          exact ⟨fun a ha => (h1 a ha).2, h2⟩
    have := ih (csStep cfg ext hrep l pos c) (pos + 1) (by omega) key.1 key.2
    refine ⟨?_, this.2⟩
    intro x hx
    have := this.1 x hx
    omega

/-- **the indices reported by every `calculate_score`-based path (greedy, exact, prefix, postfix,
    substring, and the contiguous shortcuts of the fuzzy matcher) are strictly increasing and lie
    in `[start, end)` ⊆ the haystack** -/
theorem C02_calculateScore_indices (cfg : Cfg) (ext : Ext) (hrep : Rep) (h n : List Nat) (start end_ : Nat)
    (hse : start < end_) (he : end_ ≤ h.length) :
    (calculateScore cfg ext hrep h n start end_).2.Pairwise (· < ·) ∧
    ∀ x ∈ (calculateScore cfg ext hrep h n start end_).2, start ≤ x ∧ x < end_ ∧ x < h.length := by
  unfold calculateScore
  cases n with
  | nil => simp
  | cons n0 nrest =>
    cases hd : h.drop start with
    | nil =>
      have : (h.drop start).length = 0 := by rw [hd]; rfl
      simp at this; omega
    | cons c0 hrest =>
      simp only
      have hlen : hrest.length = h.length - start - 1 := by
        have : (h.drop start).length = hrest.length + 1 := by rw [hd]; rfl
        simp at this; omega
      have b := csLoop_idx_bounds cfg ext hrep start (hrest.take (end_ - (start + 1)))
        { st := stInit cfg (prevClassAt cfg ext h start) (charClass cfg ext c0),
          needleChar := (needleAfterFirst n0 nrest).1, rest := (needleAfterFirst n0 nrest).2, idxRev := [start] }
        (start + 1) (by omega) (by simp) (by simp)
      have hl : (hrest.take (end_ - (start + 1))).length = end_ - (start + 1) := by
        simp [List.length_take]; omega
      rw [hl] at b
      refine ⟨?_, ?_⟩
      · rw [List.pairwise_reverse]
        exact b.2
      · intro x hx
        rw [List.mem_reverse] at hx
        have := b.1 x hx
        omega

/-- a failed match reports nothing: the model's result type carries indices only inside `some` -/
theorem C02_none_no_indices (r : MRes) (h : r = none) : (r.map (·.2)).getD [] = [] := by
  subst h; rfl

open DP

/-! ## the optimal matcher's recurrence -/

theorem pairwise_zip_drop : ∀ (l : List Nat), l.Pairwise (· < ·) → ∀ p ∈ l.zip (l.drop 1), p.1 < p.2 := by
  intro l
  induction l with
  | nil => intro _ p hp; simp at hp
  | cons a t ih =>
    intro hpw p hp
    have hpw' := List.pairwise_cons.mp hpw
    cases t with
    | nil => simp at hp
    | cons b t' =>
      simp only [List.drop_succ_cons, List.drop_zero, List.zip_cons_cons, List.mem_cons] at hp
      rcases hp with hp | hp
      · subst hp; exact hpw'.1 b (by simp)
      · exact ih hpw'.2 p (by simpa using hp)

/-- a strictly increasing in-range index list whose normalized characters spell the needle is a valid witness -/
theorem validWitness_of_spells (cfg : Cfg) (hrep : Rep) (h n path : List Nat)
    (hr : hrep = .ascii → ∀ c ∈ h, c < 128)
    (hpw : path.Pairwise (· < ·)) (hin : ∀ x ∈ path, x < h.length) (hsp : path.map (chAt cfg hrep h) = n) :
    validWitnessB cfg hrep h n path = true := by
  rw [validWitnessB_iff]
  refine ⟨by rw [← hsp]; simp, pairwise_zip_drop path hpw, ?_⟩
  intro p hp
  rw [← hsp] at hp
  -- p = (x, chAt x) for some x ∈ path
  have : ∃ x ∈ path, p = (x, chAt cfg hrep h x) := by
    rw [List.zip_map_right] at hp
    simp only [List.mem_map] at hp
    obtain ⟨q, hq, rfl⟩ := hp
    have := List.of_mem_zip hq
    have hq2 : q.1 = q.2 := by
      clear this
      -- elements of l.zip l are diagonal
      have diag : ∀ (l : List Nat) (q : Nat × Nat), q ∈ l.zip l → q.1 = q.2 := by
        intro l
        induction l with
        | nil => intro q hq; simp at hq
        | cons a t ih =>
          intro q hq
          simp only [List.zip_cons_cons, List.mem_cons] at hq
          rcases hq with rfl | hq
          · rfl
          · exact ih q hq
      exact diag path q hq
    exact ⟨q.1, this.1, by simp [Prod.map, hq2]⟩
  obtain ⟨x, hx, rfl⟩ := this
  have hlt := hin x hx
  refine ⟨h[x], List.getElem?_eq_getElem hlt, ?_⟩
  simp only [chAt, List.getElem?_eq_getElem hlt, Option.map_some, Option.getD_some]
  exact (C16_cnorm_eq_norm cfg hrep h[x] (fun e => hr e _ (List.getElem_mem hlt))).symm


/-- **the alignment reported by the optimal matcher's recurrence spells the needle**: one index per needle
    character, and the (normalized) haystack character at the k-th index is the k-th needle character —
    for every configuration, haystack, needle, window and prefix-preference setting -/
theorem C02_optimalDP_spells_needle (cfg : Cfg) (ext : Ext) (hrep : Rep) (h n : List Nat) (start end_ : Nat)
    (sc : Nat) (path : List Nat) (hres : optimalDP cfg ext hrep h n start end_ = some (sc, path)) :
    path.map (chAt cfg hrep h) = n := by
  unfold optimalDP at hres
  cases n with
  | nil => simp at hres
  | cons n0 ns =>
    simp only at hres
    split at hres
    · cases hres
    · generalize hcols : windowCols cfg ext hrep h start end_ = cols at hres
      cases hb : bestCell (allRows cols ns (firstRow n0 cols (prefixStart cfg start))) none with
      | none => rw [hb] at hres; cases hres
      | some c =>
        rw [hb] at hres
        simp only [Option.map_some, Option.some.injEq, Prod.mk.injEq] at hres
        obtain ⟨_, hpath⟩ := hres
        have colsch : ∀ c ∈ cols, chAt cfg hrep h c.idx = c.ch := by
          rw [← hcols]; exact windowCols_ch cfg ext hrep h start end_
        have rowch := allRows_ch (chAt cfg hrep h) cols colsch ns [n0] (firstRow n0 cols (prefixStart cfg start)) (firstRow_ch (chAt cfg hrep h) n0 cols (prefixStart cfg start) colsch)
        rcases bestCell_mem _ _ _ hb with e | ⟨k, hk⟩
        · cases e
        · rw [← hpath]; exact rowch k c hk


/-- **the alignment reported by the optimal matcher's recurrence is a valid witness** (one index per needle
    character, strictly increasing, inside the haystack, each haystack character normalizing to its needle
    character) — every configuration with prefix preference off, haystack, needle and window -/
theorem C02_optimalDP_valid_witness (cfg : Cfg) (ext : Ext) (hrep : Rep) (h n : List Nat) (start end_ : Nat)
    (hr : hrep = .ascii → ∀ c ∈ h, c < 128) (hpp : cfg.preferPrefix = false) (sc : Nat) (path : List Nat)
    (hres : optimalDP cfg ext hrep h n start end_ = some (sc, path)) :
    validWitnessB cfg hrep h n path = true ∧ ∀ x ∈ path, start ≤ x := by
  have inv := DP.optimalDP_eq_alignScore cfg ext hrep h n start end_ hpp sc path hres
  exact ⟨validWitness_of_spells cfg hrep h n path hr inv.2.1 (fun x hx => (inv.2.2 x hx).2)
    (C02_optimalDP_spells_needle cfg ext hrep h n start end_ sc path hres), fun x hx => (inv.2.2 x hx).1⟩

end NucleoVerif
