import NucleoVerif.Model.Matcher
import NucleoVerif.Spec.Matcher
/-! # C02 — reported indices are a valid witness of the match

Status: the specification predicates are unfolded to their mathematical content
(`validWitnessB_iff`), "a failed match carries no indices" and "the prior content of the
vector is untouched" hold by construction of the model's result type (the model returns the
appended part only; that the implementation appends exactly that and keeps the prefix is
checked on every case of the correspondence run).  The per-algorithm witness theorems are
built on `csLoop` (indices pushed by `calculate_score`) and the DP cell invariant. -/
namespace NucleoVerif
open Gen Spec

/-- what the executable witness check means -/
theorem validWitnessB_iff (cfg : Cfg) (hrep : Rep) (h n is : List Nat) :
    validWitnessB cfg hrep h n is = true ↔
      is.length = n.length ∧
      (∀ p ∈ is.zip (is.drop 1), p.1 < p.2) ∧
      (∀ p ∈ is.zip n, ∃ c, h[p.1]? = some c ∧ norm cfg hrep c = p.2) := by
  simp only [validWitnessB, Bool.and_eq_true, beq_iff_eq, List.all_eq_true, decide_eq_true_eq]
  constructor
  · rintro ⟨⟨h1, h2⟩, h3⟩
    refine ⟨h1, h2, ?_⟩
    intro p hp
    have := h3 p hp
    cases hh : h[p.1]? with
    | none => simp [hh] at this
    | some c => exact ⟨c, rfl, by simpa [hh] using this⟩
  · rintro ⟨h1, h2, h3⟩
    refine ⟨⟨h1, h2⟩, ?_⟩
    intro p hp
    obtain ⟨c, hc, hn⟩ := h3 p hp
    simp [hc, hn]

theorem csStep_idx (cfg : Cfg) (ext : Ext) (hrep : Rep) (l : CsLoop) (pos c : Nat) :
    (csStep cfg ext hrep l pos c).idxRev = l.idxRev ∨ (csStep cfg ext hrep l pos c).idxRev = pos :: l.idxRev := by
  unfold csStep
  split
  · split <;> exact Or.inr rfl
  · exact Or.inl rfl

/-- every index pushed by the `calculate_score` loop is the position of the step that pushed it,
    so the indices are strictly increasing and lie in the scanned window -/
theorem csLoop_idx_bounds (cfg : Cfg) (ext : Ext) (hrep : Rep) (lo : Nat) :
    ∀ (cs : List Nat) (l : CsLoop) (pos : Nat), lo ≤ pos →
      (∀ x ∈ l.idxRev, lo ≤ x ∧ x < pos) → l.idxRev.Pairwise (· > ·) →
      (∀ x ∈ (csLoop cfg ext hrep l pos cs).idxRev, lo ≤ x ∧ x < pos + cs.length) ∧
      (csLoop cfg ext hrep l pos cs).idxRev.Pairwise (· > ·) := by
  intro cs
  induction cs with
  | nil => intro l pos _ h1 h2; simpa [csLoop] using ⟨h1, h2⟩
  | cons c cs ih =>
    intro l pos hlo h1 h2
    simp only [csLoop, List.length_cons]
    have key : (∀ x ∈ (csStep cfg ext hrep l pos c).idxRev, lo ≤ x ∧ x < pos + 1) ∧
        (csStep cfg ext hrep l pos c).idxRev.Pairwise (· > ·) := by
      rcases csStep_idx cfg ext hrep l pos c with e | e <;> rw [e]
      · exact ⟨fun x hx => by have := h1 x hx; omega, h2⟩
      · refine ⟨?_, ?_⟩
        · intro x hx
          simp only [List.mem_cons] at hx
          rcases hx with rfl | hx
          · omega
          · have := h1 x hx; omega
        · simp only [List.pairwise_cons]
          exact ⟨fun a ha => (h1 a ha).2, h2⟩
    have := ih (csStep cfg ext hrep l pos c) (pos + 1) (by omega) key.1 key.2
    refine ⟨?_, this.2⟩
    intro x hx
    have := this.1 x hx
    omega

/-- **the indices reported by every `calculate_score`-based path (greedy, exact, prefix, postfix,
    substring, and the contiguous shortcuts of the fuzzy matcher) are strictly increasing and lie
    in `[start, end)` ⊆ the haystack** -/
theorem C02_calculateScore_indices (cfg : Cfg) (ext : Ext) (hrep : Rep) (h n : List Nat) (start end_ : Nat)
    (hse : start < end_) (he : end_ ≤ h.length) :
    (calculateScore cfg ext hrep h n start end_).2.Pairwise (· < ·) ∧
    ∀ x ∈ (calculateScore cfg ext hrep h n start end_).2, start ≤ x ∧ x < end_ ∧ x < h.length := by
  unfold calculateScore
  cases n with
  | nil => simp
  | cons n0 nrest =>
    cases hd : h.drop start with
    | nil =>
      have : (h.drop start).length = 0 := by rw [hd]; rfl
      simp at this; omega
    | cons c0 hrest =>
      simp only
      have hlen : hrest.length = h.length - start - 1 := by
        have : (h.drop start).length = hrest.length + 1 := by rw [hd]; rfl
        simp at this; omega
      have b := csLoop_idx_bounds cfg ext hrep start (hrest.take (end_ - (start + 1)))
        { st := stInit cfg (prevClassAt cfg ext h start) (charClass cfg ext c0),
          needleChar := (needleAfterFirst n0 nrest).1, rest := (needleAfterFirst n0 nrest).2, idxRev := [start] }
        (start + 1) (by omega) (by simp) (by simp)
      have hl : (hrest.take (end_ - (start + 1))).length = end_ - (start + 1) := by
        simp [List.length_take]; omega
      rw [hl] at b
      refine ⟨?_, ?_⟩
      · rw [List.pairwise_reverse]
        exact b.2
      · intro x hx
        rw [List.mem_reverse] at hx
        have := b.1 x hx
        omega

/-- a failed match reports nothing: the model's result type carries indices only inside `some` -/
theorem C02_none_no_indices (r : MRes) (h : r = none) : (r.map (·.2)).getD [] = [] := by
  subst h; rfl

end NucleoVerif
