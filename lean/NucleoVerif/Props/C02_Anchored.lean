import NucleoVerif.Props.C05
/-! # C02 (companion file) — contiguity and anchoring of the indices reported by exact, prefix, postfix matching and the
contiguous shortcuts, built on the decision theorems of C05 -/
namespace NucleoVerif
open Gen Spec

/-- when every character of the scanned window matches the needle in order, `calculate_score`'s loop pushes every
    position -/
theorem csLoop_all_match (cfg : Cfg) (ext : Ext) (hrep : Rep) :
    ∀ (cs : List Nat) (l : CsLoop) (pos : Nat),
      cs.map (cnorm cfg hrep) = (l.needleChar :: l.rest).take cs.length → cs.length ≤ (l.needleChar :: l.rest).length →
      (csLoop cfg ext hrep l pos cs).idxRev = (List.range' pos cs.length).reverse ++ l.idxRev := by
  intro cs
  induction cs with
  | nil => intro l pos _ _; simp [csLoop]
  | cons c cs ih =>
    intro l pos hm hl
    simp only [List.map_cons, List.length_cons, List.take_succ_cons, List.cons.injEq] at hm
    cases hr : l.rest with
    | nil =>
      rw [hr] at hm
      have hcs : cs = [] := by
        have := congrArg List.length hm.2
        simp at this
        exact this
      subst hcs
      simp only [csLoop, csStep, hm.1, if_true, hr]
      simp
    | cons nx rest' =>
      rw [hr] at hm hl
      have hstep : csStep cfg ext hrep l pos c =
          { st := stepMatch cfg l.st (charClass cfg ext c), needleChar := nx, rest := rest', idxRev := pos :: l.idxRev } := by
        unfold csStep
        simp only [hm.1, if_true, hr]
      simp only [csLoop, hstep]
      rw [ih _ (pos + 1) (by simpa using hm.2) (by simp only [List.length_cons] at hl ⊢; omega)]
      simp only [List.length_cons, List.range'_succ, List.reverse_cons, List.append_assoc, List.singleton_append]

/-- **on a window whose (normalized) characters are exactly the needle, `calculate_score` reports the contiguous
    indices `start, start+1, …`** (prefix, postfix, exact and substring matches, and the contiguous shortcut of the
    fuzzy matcher) -/
theorem calculateScore_contiguous (cfg : Cfg) (ext : Ext) (hrep : Rep) (h : List Nat) (n0 : Nat) (nrest : List Nat) (start end_ : Nat)
    (hwin : ((h.drop start).take (end_ - start)).map (cnorm cfg hrep) = n0 :: nrest) :
    (calculateScore cfg ext hrep h (n0 :: nrest) start end_).2 = List.range' start (n0 :: nrest).length := by
  have hlen := congrArg List.length hwin
  simp only [List.length_map, List.length_take, List.length_drop, List.length_cons] at hlen
  have hst : start < h.length := by omega
  unfold calculateScore
  have hd : h.drop start = h[start] :: h.drop (start + 1) := by rw [List.drop_eq_getElem_cons hst]
  rw [hd] at hwin ⊢
  simp only
  unfold csRun
  have he : end_ - start = (end_ - (start + 1)) + 1 := by omega
  rw [he, List.take_succ_cons, List.map_cons, List.cons.injEq] at hwin
  have hcnt : ((h.drop (start + 1)).take (end_ - (start + 1))).length = nrest.length := by
    have := congrArg List.length hwin.2; simpa using this
  have hall := csLoop_all_match cfg ext hrep ((h.drop (start + 1)).take (end_ - (start + 1)))
    { st := stInit cfg (prevClassAt cfg ext h start) (charClass cfg ext h[start]),
      needleChar := (needleAfterFirst n0 nrest).1, rest := (needleAfterFirst n0 nrest).2, idxRev := [start] } (start + 1)
    (by
      rw [hwin.2, hcnt]
      cases nrest with
      | nil => simp
      | cons n1 r => simp [needleAfterFirst])
    (by
      rw [hcnt]
      cases nrest with
      | nil => simp
      | cons n1 r => simp [needleAfterFirst])
  rw [hall, hcnt]
  simp [List.range'_succ]


theorem map_cnorm_eq_map_norm (cfg : Cfg) (hrep : Rep) (h w : List Nat) (hr : hrep = .ascii → ∀ c ∈ h, c < 128)
    (hw : ∀ c ∈ w, c ∈ h) : w.map (cnorm cfg hrep) = w.map (norm cfg hrep) := by
  apply List.map_congr_left
  intro c hc
  exact C16_cnorm_eq_norm cfg hrep c (fun e => hr e c (hw c hc))

theorem ite_some_eq {α : Type} (b : Bool) (x r : α) (h : (if b = true then some x else none) = some r) : r = x := by
  cases b
  · simp at h
  · simp only [if_true] at h; exact (Option.some.inj h).symm

/-- **`exact_match_impl` reports the contiguous indices of its window** -/
theorem C02_exactImpl_contiguous (cfg : Cfg) (ext : Ext) (hrep nrep : Rep) (h : List Nat) (n0 : Nat) (ns : List Nat) (start end_ : Nat)
    (hk1 : ¬ (hrep = .ascii ∧ nrep = .unicode)) (hn : (n0 :: ns).map (norm cfg nrep) = n0 :: ns)
    (hr : hrep = .ascii → ∀ c ∈ h, c < 128) (sc : Nat) (idx : List Nat)
    (hres : exactImpl cfg ext hrep nrep h (n0 :: ns) start end_ = some (sc, idx)) :
    idx = List.range' start (n0 :: ns).length ∧ (n0 :: ns).length = end_ - start ∧
    (sc, idx) = calculateScore cfg ext hrep h (n0 :: ns) start end_ := by
  have hsome : (exactImpl cfg ext hrep nrep h (n0 :: ns) start end_).isSome = true := by rw [hres]; rfl
  rw [exactImpl_window cfg ext hrep nrep h _ _ _ hk1 hn] at hsome
  simp only [Bool.and_eq_true, decide_eq_true_eq, beq_iff_eq] at hsome
  have hcs : (sc, idx) = calculateScore cfg ext hrep h (n0 :: ns) start end_ := by
    unfold exactImpl at hres
    rw [if_neg (by simp only [ne_eq, Decidable.not_not]; exact hsome.1)] at hres
    exact ite_some_eq _ _ _ hres
  have hwin : ((h.drop start).take (end_ - start)).map (cnorm cfg hrep) = n0 :: ns := by
    rw [map_cnorm_eq_map_norm cfg hrep h _ hr (fun c hc => (List.drop_sublist _ _).subset ((List.take_sublist _ _).subset hc))]
    rw [← hsome.2]; unfold normHay; rw [List.map_take, List.map_drop]
  have := calculateScore_contiguous cfg ext hrep h n0 ns start end_ hwin
  rw [← hcs] at this
  exact ⟨this, hsome.1, hcs⟩

/-- **a prefix match is anchored right after the skipped leading whitespace and contiguous** -/
theorem C02_prefix_anchored (cfg : Cfg) (ext : Ext) (hrep nrep : Rep) (h : List Nat) (n0 : Nat) (ns : List Nat)
    (hk1 : ¬ (hrep = .ascii ∧ nrep = .unicode)) (hn : (n0 :: ns).map (norm cfg nrep) = n0 :: ns)
    (hr : hrep = .ascii → ∀ c ∈ h, c < 128) (sc : Nat) (idx : List Nat)
    (hres : prefixMatch cfg ext hrep nrep h (n0 :: ns) = some (sc, idx)) :
    idx = List.range' (if isWs n0 then 0 else lead hrep h) (n0 :: ns).length := by
  have hdec := C05_prefix cfg ext hrep nrep h n0 ns hk1 hn
  rw [hres] at hdec
  simp only [Option.isSome_some] at hdec
  have hw : wsOf hrep = wsRep hrep := by cases hrep <;> rfl
  unfold prefixMatch at hres
  simp only at hres
  generalize hlead' : (if (!isWs n0) = true then leadingWs hrep h else 0) = lead' at hres
  by_cases hshort : h.length - lead' < (n0 :: ns).length
  · rw [if_pos hshort] at hres; cases hres
  · rw [if_neg hshort] at hres
    have := (C02_exactImpl_contiguous cfg ext hrep nrep h n0 ns _ _ hk1 hn hr sc idx hres).1
    rw [this]
    congr 1
    rw [← hlead']
    by_cases hws : isWs n0 = true
    · simp [hws]
    · have hws' : isWs n0 = false := by simpa using hws
      simp only [hws', Bool.not_false, if_true, Bool.false_eq_true, if_false]
      rw [leadingWs_eq]
      by_cases hall : h.all (wsRep hrep) = true
      · -- all whitespace: the specification side of the decision is false, so there is no match
        exfalso
        have hlead : lead hrep h = h.length := by
          unfold lead; rw [hw]; exact takeWhile_length_eq_iff_all _ h hall
        simp only [hws', Bool.false_eq_true, if_false, hlead] at hdec
        simp at hdec
        omega
      · simp [hall]

/-- **a postfix match ends right in front of the skipped trailing whitespace and is contiguous** -/
theorem C02_postfix_anchored (cfg : Cfg) (ext : Ext) (hrep nrep : Rep) (h : List Nat) (n0 : Nat) (ns : List Nat)
    (hk1 : ¬ (hrep = .ascii ∧ nrep = .unicode)) (hn : (n0 :: ns).map (norm cfg nrep) = n0 :: ns)
    (hr : hrep = .ascii → ∀ c ∈ h, c < 128) (sc : Nat) (idx : List Nat)
    (hres : postfixMatch cfg ext hrep nrep h (n0 :: ns) = some (sc, idx)) :
    idx = List.range' (h.length - (if isWs ((n0 :: ns).getLast?.getD n0) then 0 else trail hrep h) - (n0 :: ns).length) (n0 :: ns).length := by
  have hdec := C05_postfix cfg ext hrep nrep h n0 ns hk1 hn
  rw [hres] at hdec
  simp only [Option.isSome_some] at hdec
  unfold postfixMatch at hres
  simp only at hres
  generalize htrail' : (if (!isWs ((n0 :: ns).getLast?.getD n0)) = true then trailingWs hrep h else 0) = trail' at hres
  by_cases hshort : h.length - trail' < (n0 :: ns).length
  · rw [if_pos hshort] at hres; cases hres
  · rw [if_neg hshort] at hres
    have := (C02_exactImpl_contiguous cfg ext hrep nrep h n0 ns _ _ hk1 hn hr sc idx hres).1
    rw [this]
    congr 1
    rw [← htrail']
    by_cases hws : isWs ((n0 :: ns).getLast?.getD n0) = true
    · simp only [hws, Bool.not_true, Bool.false_eq_true, if_false, if_true, Nat.sub_zero]
    · have hws' : isWs ((n0 :: ns).getLast?.getD n0) = false := by simpa using hws
      simp only [hws', Bool.not_false, if_true, Bool.false_eq_true, if_false]
      rw [trailingWs_eq]
      by_cases hall : h.all (wsRep hrep) = true
      · exfalso
        have htr := trail_eq_length_of_all hrep h hall
        simp only [hws', Bool.false_eq_true, if_false, htr] at hdec
        simp at hdec
        omega
      · simp only [hall, Bool.false_eq_true, if_false]
        omega

end NucleoVerif
