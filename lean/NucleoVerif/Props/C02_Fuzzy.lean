import NucleoVerif.Props.C02_Greedy
import NucleoVerif.Props.C05_Unicode
import NucleoVerif.Props.C04_Unicode
/-! # C02 (companion file) — `fuzzy_indices` reports a valid witness (entry point, needles of two or more characters) -/
namespace NucleoVerif
open Gen Spec Sub DP

theorem map_chAt_range' (cfg : Cfg) (hrep : Rep) (h : List Nat) : ∀ (L s : Nat), s + L ≤ h.length →
    (List.range' s L).map (chAt cfg hrep h) = ((h.drop s).take L).map (cnorm cfg hrep) := by
  intro L
  induction L with
  | zero => intro s _; simp
  | succ L ih =>
    intro s hs
    have hlt : s < h.length := by omega
    rw [List.range'_succ, List.map_cons, ih (s + 1) (by omega), List.drop_eq_getElem_cons hlt, List.take_succ_cons, List.map_cons]
    congr 1
    simp [chAt, List.getElem?_eq_getElem hlt]

/-- the greedy part of the ASCII prefilter's answer does not depend on `only_greedy` -/
theorem prefilterAscii_greedy_part (cfg : Cfg) (h n : List Nat) (start ge e : Nat)
    (hp : prefilterAscii cfg h n false = some (start, ge, e)) : prefilterAscii cfg h n true = some (start, ge, ge) := by
  unfold prefilterAscii at hp ⊢
  cases n with
  | nil => simp at hp
  | cons n0 ns =>
    simp only at hp ⊢
    cases hf : findIdx (asciiEq cfg.ignoreCase n0) (h.take (h.length - (n0 :: ns).length + 1)) with
    | none => rw [hf] at hp; cases hp
    | some st =>
      rw [hf] at hp
      simp only at hp ⊢
      cases hg : asciiGreedyScan cfg.ignoreCase ns (h.drop (st + 1)) (st + 1) with
      | none => rw [hg] at hp; cases hp
      | some gr =>
        obtain ⟨g, rest⟩ := gr
        rw [hg] at hp
        simp only [Bool.false_eq_true, if_false, Option.some.injEq, Prod.mk.injEq] at hp
        obtain ⟨rfl, rfl, _⟩ := hp
        simp

/-- **`fuzzy_indices` on an ASCII haystack with an ASCII needle of at least two characters** (already normalized, prefix
    preference off): whatever path is taken — the contiguous shortcut, the matrix, or the greedy fallback when the scratch
    layout does not fit — the reported indices are a valid witness -/
theorem C02_fuzzy_entry_ascii (cfg : Cfg) (ext : Ext) (h : List Nat) (n0 n1 : Nat) (ns : List Nat)
    (hpp : cfg.preferPrefix = false) (hasc : ∀ c ∈ h, c < 128) (hn : ∀ c ∈ n0 :: n1 :: ns, normAscii cfg c = c)
    (hlen : (n0 :: n1 :: ns).length < h.length)
    (sc : Nat) (is : List Nat) (hres : fuzzyMatch cfg ext .ascii .ascii h (n0 :: n1 :: ns) = some (sc, is)) :
    validWitnessB cfg .ascii h (n0 :: n1 :: ns) is = true := by
  have hr : Rep.ascii = .ascii → ∀ c ∈ h, c < 128 := fun _ => hasc
  unfold fuzzyMatch at hres
  have h1 : ¬ ((n0 :: n1 :: ns).length > h.length) := by omega
  have h2 : ¬ ((n0 :: n1 :: ns).length = h.length) := by omega
  simp only [h1, if_false, List.isEmpty_cons, Bool.false_eq_true, h2] at hres
  cases hp : prefilterAscii cfg h (n0 :: n1 :: ns) false with
  | none => rw [hp] at hres; cases hres
  | some sge =>
    obtain ⟨start, ge, e⟩ := sge
    rw [hp] at hres
    simp only at hres
    obtain ⟨_, hspec⟩ := prefilterAscii_spec cfg h n0 (n1 :: ns) false hn
    obtain ⟨s1, s2, s3, s4, s5⟩ := hspec start ge e hp
    split at hres
    · -- the window is exactly as long as the needle: `calculate_score` on a contiguous occurrence
      rename_i hcont
      have hge : ge = start + (n0 :: n1 :: ns).length := by omega
      have hwinN : ((h.drop start).take (ge - start)).map (normAscii cfg) = n0 :: n1 :: ns := by
        have hl : (((h.drop start).take (ge - start)).map (normAscii cfg)).length = (n0 :: n1 :: ns).length := by
          simp only [List.length_map, List.length_take, List.length_drop]; omega
        have hsub := (subseqB_iff_sublist _ _).mp s5
        exact (hsub.eq_of_length hl.symm).symm
      have hwin : ((h.drop start).take (ge - start)).map (cnorm cfg .ascii) = n0 :: n1 :: ns := by
        rw [map_cnorm_eq_map_norm cfg .ascii h _ hr (fun c hc => List.mem_of_mem_drop (List.mem_of_mem_take hc))]
        exact hwinN
      have hidx := calculateScore_contiguous cfg ext .ascii h n0 (n1 :: ns) start ge hwin
      have e2 := congrArg Prod.snd (Option.some.inj hres)
      simp only at e2
      rw [← e2, hidx]
      -- the contiguous indices of a window that spells the needle
      refine validWitness_of_spells cfg .ascii h _ _ hr ?_ ?_ ?_
      · exact List.pairwise_lt_range'
      · intro x hx
        rw [List.mem_range'_1] at hx
        omega
      · rw [map_chAt_range' cfg .ascii h _ start (by omega)]
        have : ge - start = (n0 :: n1 :: ns).length := by omega
        rw [← this]; exact hwin
    · unfold fuzzyOptimal at hres
      split at hres
      · exact (C02_optimalDP_valid_witness cfg ext .ascii h _ start e hr hpp sc is hres).1
      · exact C02_greedy_ascii_witness cfg ext h n0 (n1 :: ns) start ge ge hasc hn (prefilterAscii_greedy_part cfg h _ start ge e hp) sc is hres

/-- the contiguous indices of a window that spells the needle are a valid witness -/
theorem validWitness_contiguous (cfg : Cfg) (hrep : Rep) (h n : List Nat) (start : Nat)
    (hr : hrep = .ascii → ∀ c ∈ h, c < 128) (hfit : start + n.length ≤ h.length)
    (hwin : ((h.drop start).take n.length).map (cnorm cfg hrep) = n) :
    validWitnessB cfg hrep h n (List.range' start n.length) = true := by
  refine validWitness_of_spells cfg hrep h _ _ hr List.pairwise_lt_range' ?_ ?_
  · intro x hx
    rw [List.mem_range'_1] at hx
    omega
  · rw [map_chAt_range' cfg hrep h _ start hfit]; exact hwin

/-- **`fuzzy_indices` on a code-point haystack, needle of at least two characters** (already normalized, prefix preference
    off): the exact-window shortcut, the matrix, and the greedy fallback all report a valid witness -/
theorem C02_fuzzy_entry_unicode (cfg : Cfg) (ext : Ext) (nrep : Rep) (h : List Nat) (n0 n1 : Nat) (ns : List Nat)
    (hpp : cfg.preferPrefix = false) (hn : (n0 :: n1 :: ns).map (norm cfg nrep) = n0 :: n1 :: ns)
    (hlen : (n0 :: n1 :: ns).length < h.length)
    (sc : Nat) (is : List Nat) (hres : fuzzyMatch cfg ext .unicode nrep h (n0 :: n1 :: ns) = some (sc, is)) :
    validWitnessB cfg .unicode h (n0 :: n1 :: ns) is = true := by
  have hr : Rep.unicode = .ascii → ∀ c ∈ h, c < 128 := fun e => by cases e
  have hk1 : ¬ (Rep.unicode = .ascii ∧ nrep = .unicode) := fun e => by cases e.1
  unfold fuzzyMatch at hres
  have h1 : ¬ ((n0 :: n1 :: ns).length > h.length) := by omega
  have h2 : ¬ ((n0 :: n1 :: ns).length = h.length) := by omega
  simp only [h1, if_false, List.isEmpty_cons, Bool.false_eq_true, h2] at hres
  cases hp : prefilterNonAscii cfg h (n0 :: n1 :: ns) false with
  | none => rw [hp] at hres; cases hres
  | some se =>
    obtain ⟨start, e⟩ := se
    rw [hp] at hres
    simp only at hres
    have hspec := prefilterNonAscii_spec cfg h n0 n1 ns
    rw [hp] at hspec
    simp only at hspec
    obtain ⟨p1, p2, _, _⟩ := hspec
    split at hres
    · rename_i hcont
      obtain ⟨hidx, hl, _⟩ := C02_exactImpl_contiguous cfg ext .unicode nrep h n0 (n1 :: ns) start e hk1 hn hr sc is hres
      have hsome : (exactImpl cfg ext .unicode nrep h (n0 :: n1 :: ns) start e).isSome = true := by rw [hres]; rfl
      rw [exactImpl_window cfg ext .unicode nrep h _ _ _ hk1 hn] at hsome
      simp only [Bool.and_eq_true, decide_eq_true_eq, beq_iff_eq] at hsome
      rw [hidx]
      refine validWitness_contiguous cfg .unicode h _ start hr (by omega) ?_
      rw [map_cnorm_eq_map_norm cfg .unicode h _ hr (fun c hc => List.mem_of_mem_drop (List.mem_of_mem_take hc))]
      have := hsome.2
      unfold normHay at this
      rw [← List.map_drop, ← List.map_take] at this
      rw [hsome.1]; exact this
    · unfold fuzzyOptimal at hres
      split at hres
      · exact (C02_optimalDP_valid_witness cfg ext .unicode h _ start e hr hpp sc is hres).1
      · -- greedy fallback from the first occurrence of the first needle character
        have hstart := prefilterNonAscii_start cfg h n0 (n1 :: ns) start e hp
        have hfull := findIdx_of_take _ h start _ hstart
        obtain ⟨f1, ⟨x, f2, f3⟩, _⟩ := findIdx_some _ h start hfull
        have hx : x = h[start] := by rw [List.getElem?_eq_getElem f1] at f2; exact (Option.some.inj f2).symm
        have h0 : norm cfg .unicode h[start] = n0 := by rw [← hx]; show normChar cfg x = n0; simpa using f3
        exact C02_greedy_unicode_witness cfg ext nrep h n0 (n1 :: ns) start f1 h0 sc is hres

/-! ## one-character needles -/

theorem allAlignments_single_sound (cfg : Cfg) (hrep : Rep) (c : Nat) : ∀ (cs : List Nat) (base p : Nat),
    [p] ∈ allAlignments cfg hrep [c] base cs → base ≤ p ∧ p < base + cs.length ∧ (cs[p - base]?).map (norm cfg hrep) = some c := by
  intro cs
  induction cs with
  | nil => intro base p h; simp [allAlignments] at h
  | cons x xs ih =>
    intro base p h
    simp only [allAlignments, List.mem_append] at h
    rcases h with h | h
    · by_cases hx : norm cfg hrep x = c
      · simp only [hx, if_true, allAlignments, List.map_cons, List.map_nil, List.mem_singleton, List.cons.injEq, and_true] at h
        subst h
        simp [hx]
      · simp [hx] at h
    · obtain ⟨a, b, d⟩ := ih (base + 1) p h
      refine ⟨by omega, by simp only [List.length_cons]; omega, ?_⟩
      have : p - base = (p - (base + 1)) + 1 := by omega
      rw [this, List.getElem?_cons_succ]; exact d

theorem validWitness_single (cfg : Cfg) (hrep : Rep) (h : List Nat) (c p : Nat) (hm : [p] ∈ allAlignments cfg hrep [c] 0 h) :
    validWitnessB cfg hrep h [c] [p] = true := by
  obtain ⟨_, hlt, hch⟩ := allAlignments_single_sound cfg hrep c h 0 p hm
  simp only [Nat.sub_zero] at hch
  simp only [Nat.zero_add] at hlt
  rw [List.getElem?_eq_getElem hlt] at hch
  simp only [Option.map_some, Option.some.injEq] at hch
  simp [validWitnessB, List.getElem?_eq_getElem hlt, hch]

/-- **one-character needle, ASCII**: the reported index is an occurrence of the character -/
theorem C02_fuzzy_entry_ascii_one (cfg : Cfg) (ext : Ext) (h : List Nat) (c : Nat) (hb : 8 ≤ maxBonus cfg)
    (hasc : ∀ x ∈ h, x < 128) (hc : normAscii cfg c = c) (hlen : 1 < h.length)
    (sc : Nat) (is : List Nat) (hres : fuzzyMatch cfg ext .ascii .ascii h [c] = some (sc, is)) :
    validWitnessB cfg .ascii h [c] is = true := by
  unfold fuzzyMatch at hres
  have h1 : ¬ (([c] : List Nat).length > h.length) := by simp only [List.length_singleton]; omega
  have h2 : ¬ (([c] : List Nat).length = h.length) := by simp only [List.length_singleton]; omega
  simp only [h1, if_false, List.isEmpty_cons, Bool.false_eq_true, h2] at hres
  have hone := C04_one_char_optimum_ascii cfg ext h c hb hasc hc
  rw [hres] at hone
  simp only at hone
  obtain ⟨_, p, rfl, hm, _, _⟩ := hone
  exact validWitness_single cfg .ascii h c p hm

/-- **one-character needle, code-point haystack** -/
theorem C02_fuzzy_entry_unicode_one (cfg : Cfg) (ext : Ext) (nrep : Rep) (h : List Nat) (c : Nat) (hb : 8 ≤ maxBonus cfg)
    (hlen : 1 < h.length)
    (sc : Nat) (is : List Nat) (hres : fuzzyMatch cfg ext .unicode nrep h [c] = some (sc, is)) :
    validWitnessB cfg .unicode h [c] is = true := by
  unfold fuzzyMatch at hres
  have h1 : ¬ (([c] : List Nat).length > h.length) := by simp only [List.length_singleton]; omega
  have h2 : ¬ (([c] : List Nat).length = h.length) := by simp only [List.length_singleton]; omega
  simp only [h1, if_false, List.isEmpty_cons, Bool.false_eq_true, h2] at hres
  have hone := C04_one_char_optimum_unicode cfg ext h c hb
  cases hp : prefilterNonAscii cfg h [c] true with
  | none => rw [hp] at hres; cases hres
  | some se =>
    obtain ⟨start, e⟩ := se
    rw [hp] at hres hone
    simp only at hres hone
    obtain ⟨_, p, hp2, hm, _, _⟩ := hone
    have e2 := congrArg Prod.snd (Option.some.inj hres)
    simp only at e2
    rw [← e2, hp2]
    exact validWitness_single cfg .unicode h c p hm

end NucleoVerif
