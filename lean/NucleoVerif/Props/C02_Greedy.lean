import NucleoVerif.Props.C02_Anchored
/-! # C02 (companion file) — the greedy matcher's indices are a valid witness

`calculate_score` walks the window `[start, end)` and pushes an index for every haystack character that equals the
needle character it is waiting for.  That is a witness of the match exactly when the window is *tight*: the first needle
character sits at `start`, and the rest of the needle is a subsequence of the remaining window but not of the window
without its last character (so the walk consumes the last needle character at `end - 1` and pushes nothing after it).
The greedy matcher's forward scan produces such a window and its backward scan keeps it tight. -/
namespace NucleoVerif
open Gen Spec Sub DP

/-- `t` is a subsequence of `L` and needs the last element of `L` -/
def Tight (t L : List Nat) : Prop := subseqB t L = true ∧ subseqB t L.dropLast = false

theorem subseqB_nil_right (t : List Nat) (h : subseqB t [] = true) : t = [] := by
  cases t with
  | nil => rfl
  | cons a as => simp [subseqB] at h

theorem Tight.ne_nil {t L : List Nat} (h : Tight t L) : t ≠ [] ∧ L ≠ [] := by
  constructor
  · intro e; subst e; have := h.2; simp [subseqB] at this
  · intro e; subst e
    have := subseqB_nil_right t h.1
    subst this
    have := h.2; simp [subseqB] at this

theorem dropLast_cons_of_ne_nil (c : Nat) (cs : List Nat) (h : cs ≠ []) : (c :: cs).dropLast = c :: cs.dropLast := by
  cases cs with
  | nil => exact absurd rfl h
  | cons d ds => rfl

/-- the walk of `calculate_score` over a tight window: it pushes exactly one index per awaited needle character, in
    increasing order, each at a position whose (normalized) character is that needle character -/
theorem csLoop_tight (cfg : Cfg) (ext : Ext) (hrep : Rep) (g : Nat → Nat) :
    ∀ (cs : List Nat) (l : CsLoop) (pos : Nat), Tight (l.needleChar :: l.rest) (cs.map (cnorm cfg hrep)) →
      (∀ k c, cs[k]? = some c → g (pos + k) = cnorm cfg hrep c) →
      ∃ is : List Nat, (csLoop cfg ext hrep l pos cs).idxRev = is.reverse ++ l.idxRev ∧ is.Pairwise (· < ·) ∧
        (∀ x ∈ is, pos ≤ x ∧ x < pos + cs.length) ∧ is.map g = l.needleChar :: l.rest := by
  intro cs
  induction cs with
  | nil => intro l pos ht _; exact absurd rfl ht.ne_nil.2
  | cons c cs ih =>
    intro l pos ht hg
    have hg0 : g pos = cnorm cfg hrep c := by simpa using hg 0 c (by simp)
    have hgs : ∀ k c', cs[k]? = some c' → g (pos + 1 + k) = cnorm cfg hrep c' := by
      intro k c' hk
      have := hg (k + 1) c' (by simpa using hk)
      rwa [show pos + (k + 1) = pos + 1 + k by omega] at this
    simp only [csLoop, List.map_cons] at ht ⊢
    by_cases hm : cnorm cfg hrep c = l.needleChar
    · cases hr : l.rest with
      | nil =>
        -- the last awaited character: the window must end here
        rw [hr] at ht
        have hcs : cs = [] := by
          cases cs with
          | nil => rfl
          | cons d ds =>
            exfalso
            have h2 := ht.2
            rw [List.map_cons, dropLast_cons_of_ne_nil _ _ (by simp)] at h2
            simp [subseqB, hm] at h2
        subst hcs
        have hstep : (csStep cfg ext hrep l pos c).idxRev = pos :: l.idxRev := by
          unfold csStep; simp [hm, hr]
        refine ⟨[pos], by simp [csLoop, hstep], by simp, by intro x hx; simp at hx; subst hx; simp, ?_⟩
        simp [hg0, hm]
      | cons nx r' =>
        rw [hr] at ht
        have hcsne : cs.map (cnorm cfg hrep) ≠ [] := by
          intro e
          have h1 := ht.1
          simp only [subseqB, hm, if_true, e] at h1
          cases h1
        have ht' : Tight (nx :: r') (cs.map (cnorm cfg hrep)) := by
          refine ⟨?_, ?_⟩
          · have h1 := ht.1; simpa [subseqB, hm] using h1
          · have h2 := ht.2
            rw [dropLast_cons_of_ne_nil _ _ hcsne] at h2
            simpa [subseqB, hm] using h2
        have hstep : csStep cfg ext hrep l pos c = { st := stepMatch cfg l.st (charClass cfg ext c), needleChar := nx, rest := r', idxRev := pos :: l.idxRev } := by
          unfold csStep; simp [hm, hr]
        rw [hstep]
        obtain ⟨is, i1, i2, i3, i4⟩ := ih { st := stepMatch cfg l.st (charClass cfg ext c), needleChar := nx, rest := r', idxRev := pos :: l.idxRev } (pos + 1) ht' hgs
        refine ⟨pos :: is, by rw [i1]; simp, ?_, ?_, ?_⟩
        · exact List.pairwise_cons.mpr ⟨fun x hx => by have := (i3 x hx).1; omega, i2⟩
        · intro x hx
          rcases List.mem_cons.mp hx with rfl | hx
          · simp
          · have := i3 x hx; simp only [List.length_cons]; omega
        · simp only [List.map_cons, hg0, hm]; rw [i4]
    · -- not the awaited character: skipped
      have hm' : ¬ (l.needleChar = cnorm cfg hrep c) := fun e => hm e.symm
      have hcsne : cs.map (cnorm cfg hrep) ≠ [] := by
        intro e
        have h1 := ht.1
        simp [subseqB, hm', e] at h1
      have ht' : Tight (l.needleChar :: l.rest) (cs.map (cnorm cfg hrep)) := by
        refine ⟨?_, ?_⟩
        · have h1 := ht.1; simpa [subseqB, hm'] using h1
        · have h2 := ht.2
          rw [dropLast_cons_of_ne_nil _ _ hcsne] at h2
          simpa [subseqB, hm'] using h2
      have hstep : csStep cfg ext hrep l pos c = { l with st := stepSkip l.st (charClass cfg ext c) } := by
        unfold csStep; simp [hm]
      rw [hstep]
      obtain ⟨is, i1, i2, i3, i4⟩ := ih { l with st := stepSkip l.st (charClass cfg ext c) } (pos + 1) ht' hgs
      refine ⟨is, i1, i2, ?_, i4⟩
      intro x hx
      have := i3 x hx; simp only [List.length_cons]; omega


/-- a window on which `calculate_score` yields a witness (see the file header) -/
def TightWindow (cfg : Cfg) (hrep : Rep) (h : List Nat) (n0 : Nat) (nrest : List Nat) (start e : Nat) : Prop :=
  start < e ∧ e ≤ h.length ∧ chAt cfg hrep h start = n0 ∧
  (match nrest with
   | [] => e = start + 1
   | t => Tight t (((h.drop (start + 1)).take (e - (start + 1))).map (cnorm cfg hrep)))

theorem chAt_drop (cfg : Cfg) (hrep : Rep) (h : List Nat) (s m : Nat) (k c : Nat)
    (hk : ((h.drop s).take m)[k]? = some c) : chAt cfg hrep h (s + k) = cnorm cfg hrep c := by
  have hk' : k < m := by
    by_cases hlt : k < m
    · exact hlt
    · exfalso
      have hlen : ((h.drop s).take m).length ≤ k := by simp [List.length_take]; omega
      rw [List.getElem?_eq_none hlen] at hk; cases hk
  rw [List.getElem?_take_of_lt hk', List.getElem?_drop] at hk
  simp [chAt, hk]

/-- **on a tight window `calculate_score` reports a witness**: one index per needle character, strictly increasing,
    inside the window, each haystack character normalizing to its needle character -/
theorem calculateScore_tight (cfg : Cfg) (ext : Ext) (hrep : Rep) (h : List Nat) (n0 : Nat) (nrest : List Nat) (start e : Nat)
    (tw : TightWindow cfg hrep h n0 nrest start e) :
    (calculateScore cfg ext hrep h (n0 :: nrest) start e).2.Pairwise (· < ·) ∧
    (∀ x ∈ (calculateScore cfg ext hrep h (n0 :: nrest) start e).2, start ≤ x ∧ x < e) ∧
    (calculateScore cfg ext hrep h (n0 :: nrest) start e).2.map (chAt cfg hrep h) = n0 :: nrest := by
  obtain ⟨h1, h2, h3, h4⟩ := tw
  have hst : start < h.length := by omega
  have hd : h.drop start = h[start] :: h.drop (start + 1) := by rw [List.drop_eq_getElem_cons hst]
  unfold calculateScore
  rw [hd]
  simp only
  unfold csRun
  cases nrest with
  | nil =>
    simp only at h4
    subst h4
    simp only [needleAfterFirst, Nat.sub_self, List.take_zero, csLoop, List.reverse_cons, List.reverse_nil, List.nil_append]
    exact ⟨by simp, by intro x hx; simp at hx; subst hx; omega, by simp [h3]⟩
  | cons n1 r =>
    simp only [needleAfterFirst]
    simp only at h4
    obtain ⟨is, i1, i2, i3, i4⟩ := csLoop_tight cfg ext hrep (chAt cfg hrep h) ((h.drop (start + 1)).take (e - (start + 1)))
      { st := stInit cfg (prevClassAt cfg ext h start) (charClass cfg ext h[start]), needleChar := n1, rest := r, idxRev := [start] }
      (start + 1) h4 (fun k c hk => chAt_drop cfg hrep h (start + 1) _ k c hk)
    rw [i1]
    have hlen : ((h.drop (start + 1)).take (e - (start + 1))).length = e - (start + 1) := by
      simp [List.length_take]; omega
    rw [hlen] at i3
    simp only [List.reverse_append, List.reverse_cons, List.reverse_nil, List.nil_append, List.reverse_reverse, List.singleton_append]
    refine ⟨List.pairwise_cons.mpr ⟨fun x hx => by have := (i3 x hx).1; omega, i2⟩, ?_, by simp [h3, i4]⟩
    intro x hx
    rcases List.mem_cons.mp hx with rfl | hx
    · omega
    · have := i3 x hx; omega


/-! ## the scans produce tight windows -/

theorem subseqB_cons_hay (t : List Nat) (x : Nat) (L : List Nat) (h : subseqB t L = true) : subseqB t (x :: L) = true :=
  subseqB_of_sublist_hay t L (x :: L) h (List.sublist_cons_self x L)

theorem Tight.cons_match {a : Nat} {as L : List Nat} (h : Tight as L) : Tight (a :: as) (a :: L) := by
  have hne := h.ne_nil.2
  refine ⟨by simp [subseqB, h.1], ?_⟩
  rw [dropLast_cons_of_ne_nil _ _ hne]
  simp [subseqB, h.2]

theorem Tight.cons_skip {a x : Nat} {as L : List Nat} (hx : a ≠ x) (h : Tight (a :: as) L) : Tight (a :: as) (x :: L) := by
  have hne := h.ne_nil.2
  refine ⟨by simp [subseqB, hx, h.1], ?_⟩
  rw [dropLast_cons_of_ne_nil _ _ hne]
  simp [subseqB, hx, h.2]

theorem Tight.single (a : Nat) : Tight [a] [a] := ⟨by simp [subseqB], by simp [subseqB]⟩

/-- a tight window stays tight when it is shortened from the left, as long as the subsequence survives -/
theorem Tight.drop {t L : List Nat} (h : Tight t L) (d : Nat) (hs : subseqB t (L.drop d) = true) : Tight t (L.drop d) := by
  refine ⟨hs, ?_⟩
  cases hf : subseqB t (L.drop d).dropLast with
  | false => rfl
  | true =>
    exfalso
    have hsub : List.Sublist (L.drop d).dropLast L.dropLast := by
      rw [List.dropLast_eq_take, List.dropLast_eq_take, List.length_drop]
      by_cases hd : d < L.length
      · have e : (L.drop d).take (L.length - d - 1) = (L.take (L.length - 1)).drop d := by
          rw [List.drop_take]; congr 1; omega
        rw [e]; exact List.drop_sublist _ _
      · rw [List.drop_eq_nil_of_le (by omega)]; simp
    have := subseqB_of_sublist_hay t _ _ hf hsub
    rw [h.2] at this; cases this

/-- the forward scan of the greedy matcher (`needle[1..]` over the haystack behind the first character) stops exactly
    where the rest of the needle is complete for the first time -/
theorem greedyFwd_tight (cfg : Cfg) (hrep : Rep) : ∀ (cs : List Nat) (nc : Nat) (ns : List Nat) (k k' : Nat),
    greedyFwd cfg hrep (nc :: ns) cs k = some k' →
      k < k' ∧ k' - k ≤ cs.length ∧ Tight (nc :: ns) ((cs.take (k' - k)).map (norm cfg hrep)) := by
  intro cs
  induction cs with
  | nil => intro nc ns k k' h; simp [greedyFwd] at h
  | cons c cs ih =>
    intro nc ns k k' h
    simp only [greedyFwd] at h
    by_cases hm : norm cfg hrep c = nc
    · simp only [hm, if_true] at h
      cases ns with
      | nil =>
        simp only [Option.some.injEq] at h
        subst h
        refine ⟨by omega, by simp, ?_⟩
        have : k + 1 - k = 1 := by omega
        rw [this]
        simp only [List.take_succ_cons, List.take_zero, List.map_cons, List.map_nil, hm]
        exact Tight.single nc
      | cons n2 r =>
        simp only at h
        obtain ⟨i1, i2, i3⟩ := ih n2 r (k + 1) k' h
        refine ⟨by omega, by simp only [List.length_cons]; omega, ?_⟩
        have e : k' - k = (k' - (k + 1)) + 1 := by omega
        rw [e, List.take_succ_cons, List.map_cons, hm]
        exact i3.cons_match
    · simp only [hm, if_false] at h
      obtain ⟨i1, i2, i3⟩ := ih nc ns (k + 1) k' h
      refine ⟨by omega, by simp only [List.length_cons]; omega, ?_⟩
      have e : k' - k = (k' - (k + 1)) + 1 := by omega
      rw [e, List.take_succ_cons, List.map_cons]
      exact i3.cons_skip (fun e => hm e.symm)

/-- the backward scan: where it stops, the first needle character stands, and the rest of the needle is a subsequence
    of what the scan has passed -/
theorem greedyBwd_spec (cfg : Cfg) (hrep : Rep) : ∀ (P : List (Nat × Nat)) (nc : Nat) (ns : List Nat) (i : Nat),
    greedyBwd cfg hrep (nc :: ns) P = some i →
      ∃ P1 c P2, P = P1 ++ (i, c) :: P2 ∧ norm cfg hrep c = (nc :: ns).getLast (by simp) ∧
        subseqB (nc :: ns).dropLast (P1.map (fun p => norm cfg hrep p.2)) = true := by
  intro P
  induction P with
  | nil => intro nc ns i h; simp [greedyBwd] at h
  | cons pc P ih =>
    intro nc ns i h
    obtain ⟨j, c⟩ := pc
    simp only [greedyBwd] at h
    by_cases hm : norm cfg hrep c = nc
    · simp only [hm, if_true] at h
      cases ns with
      | nil =>
        simp only [Option.some.injEq] at h
        subst h
        exact ⟨[], c, P, rfl, by simpa using hm, by simp [subseqB]⟩
      | cons n2 r =>
        simp only at h
        obtain ⟨P1, c', P2, e1, e2, e3⟩ := ih n2 r i h
        refine ⟨(j, c) :: P1, c', P2, by rw [e1]; rfl, by simpa using e2, ?_⟩
        simp only [List.dropLast_cons₂, List.map_cons, subseqB, hm, if_true]
        exact e3
    · simp only [hm, if_false] at h
      obtain ⟨P1, c', P2, e1, e2, e3⟩ := ih nc ns i h
      refine ⟨(j, c) :: P1, c', P2, by rw [e1]; rfl, e2, ?_⟩
      simp only [List.map_cons]
      exact subseqB_cons_hay _ _ _ e3

theorem enumFrom_split : ∀ (L : List Nat) (k : Nat) (A : List (Nat × Nat)) (i c : Nat) (B : List (Nat × Nat)),
    enumFrom k L = A ++ (i, c) :: B → i = k + A.length ∧ L[A.length]? = some c ∧ B.map (·.2) = L.drop (A.length + 1) := by
  intro L
  induction L with
  | nil => intro k A i c B h; cases A <;> simp [enumFrom] at h
  | cons x xs ih =>
    intro k A i c B h
    cases A with
    | nil =>
      simp only [enumFrom, List.nil_append, List.cons.injEq, Prod.mk.injEq] at h
      obtain ⟨⟨rfl, rfl⟩, rfl⟩ := h
      refine ⟨by simp, by simp, ?_⟩
      have gen : ∀ (l : List Nat) (k : Nat), (enumFrom k l).map (·.2) = l := by
        intro l
        induction l with
        | nil => intro _; rfl
        | cons y ys ihy => intro k; simp [enumFrom, ihy]
      simpa using gen xs (k + 1)
    | cons a A' =>
      simp only [enumFrom, List.cons_append, List.cons.injEq] at h
      obtain ⟨_, h2⟩ := h
      obtain ⟨i1, i2, i3⟩ := ih (k + 1) A' i c B h2
      refine ⟨by simp; omega, by simpa using i2, by simpa using i3⟩


theorem witness_of_tight (cfg : Cfg) (ext : Ext) (hrep : Rep) (h : List Nat) (n0 : Nat) (nrest : List Nat) (start e : Nat)
    (hr : hrep = .ascii → ∀ c ∈ h, c < 128) (tw : TightWindow cfg hrep h n0 nrest start e) :
    validWitnessB cfg hrep h (n0 :: nrest) (calculateScore cfg ext hrep h (n0 :: nrest) start e).2 = true := by
  obtain ⟨w1, w2, w3⟩ := calculateScore_tight cfg ext hrep h n0 nrest start e tw
  exact validWitness_of_spells cfg hrep h _ _ hr w1 (fun x hx => by have := w2 x hx; have := tw.2.1; omega) w3

/-- **the backward scan keeps the window tight**: wherever it moves the start to, the first needle character stands
    there and the rest of the needle still needs the window's last character -/
theorem tight_after_bwd (cfg : Cfg) (hrep : Rep) (h : List Nat) (n0 n1 : Nat) (r : List Nat) (start e : Nat)
    (hr : hrep = .ascii → ∀ c ∈ h, c < 128) (tw : TightWindow cfg hrep h n0 (n1 :: r) start e) :
    TightWindow cfg hrep h n0 (n1 :: r)
      (match greedyBwd cfg hrep (n0 :: n1 :: r).reverse (enumFrom 0 ((h.drop start).take (e - start))).reverse with
       | some i => start + i
       | none => start) e := by
  obtain ⟨t1, t2, t3, t4⟩ := tw
  have hs : start < h.length := by omega
  have hd : h.drop start = h[start] :: h.drop (start + 1) := by rw [List.drop_eq_getElem_cons hs]
  simp only at t4
  generalize hk : e - (start + 1) = k at t4
  generalize hW0 : (h.drop (start + 1)).take k = W0 at t4
  have hW0len : W0.length = k := by rw [← hW0]; simp [List.length_take]; omega
  have hW0mem : ∀ c ∈ W0, c ∈ h := by
    intro c hc; rw [← hW0] at hc
    exact List.mem_of_mem_drop (List.mem_of_mem_take hc)
  have hmapcn : ∀ d, (W0.drop d).map (cnorm cfg hrep) = (W0.drop d).map (norm cfg hrep) :=
    fun d => map_cnorm_eq_map_norm cfg hrep h _ hr (fun c hc => hW0mem c (List.mem_of_mem_drop hc))
  have hwin : (h.drop start).take (e - start) = h[start] :: W0 := by
    rw [hd, show e - start = k + 1 by omega, List.take_succ_cons, hW0]
  rw [hwin]
  cases hb : greedyBwd cfg hrep (n0 :: n1 :: r).reverse (enumFrom 0 (h[start] :: W0)).reverse with
  | none =>
    simp only
    refine ⟨t1, t2, t3, ?_⟩
    show Tight (n1 :: r) (((h.drop (start + 1)).take (e - (start + 1))).map (cnorm cfg hrep))
    rw [hk, hW0]; exact t4
  | some i =>
    simp only
    have hrev : (n0 :: n1 :: r).reverse = (n1 :: r).reverse ++ [n0] := by simp
    cases hR : (n0 :: n1 :: r).reverse with
    | nil => simp at hR
    | cons r0 rs =>
      rw [hR] at hb
      obtain ⟨P1, c, P2, e1, e2, e3⟩ := greedyBwd_spec cfg hrep _ r0 rs i hb
      have hlast : (r0 :: rs).getLast (by simp) = n0 := by
        have : (r0 :: rs).getLast? = some n0 := by rw [← hR, hrev]; simp
        rw [List.getLast?_eq_getLast (by simp)] at this
        exact Option.some.inj this
      have hdl : (r0 :: rs).dropLast = (n1 :: r).reverse := by rw [← hR, hrev]; simp
      rw [hlast] at e2
      rw [hdl] at e3
      have e1' : enumFrom 0 (h[start] :: W0) = P2.reverse ++ (i, c) :: P1.reverse := by
        have := congrArg List.reverse e1
        simpa using this
      obtain ⟨s1, s2, s3⟩ := enumFrom_split _ 0 _ i c _ e1'
      simp only [Nat.zero_add, List.length_reverse] at s1 s2 s3
      rw [← s1] at s2 s3
      have hsub : subseqB (n1 :: r) (((h[start] :: W0).drop (i + 1)).map (norm cfg hrep)) = true := by
        rw [subseqB_iff_sublist] at e3 ⊢
        have := List.reverse_sublist.mpr e3
        rw [List.reverse_reverse, ← List.map_reverse] at this
        have e4 : (P1.reverse).map (fun p => norm cfg hrep p.2) = ((h[start] :: W0).drop (i + 1)).map (norm cfg hrep) := by
          rw [← s3, List.map_map]; rfl
        rw [← e4]; exact this
      have hilt : i < (h[start] :: W0).length := by
        by_cases hlt : i < (h[start] :: W0).length
        · exact hlt
        · exfalso
          have hge : (h[start] :: W0).length ≤ i := Nat.le_of_not_lt hlt
          rw [List.getElem?_eq_none hge] at s2; cases s2
      simp only [List.length_cons, hW0len] at hilt
      have hcin : c ∈ h := by
        have := List.mem_of_getElem? s2
        rcases List.mem_cons.mp this with rfl | hc
        · exact List.getElem_mem hs
        · exact hW0mem c hc
      refine ⟨by omega, t2, ?_, ?_⟩
      · have := chAt_drop cfg hrep h start (k + 1) i c (by rw [hd, List.take_succ_cons, hW0]; exact s2)
        rw [this, C16_cnorm_eq_norm cfg hrep c (fun e => hr e c hcin)]; exact e2
      · show Tight (n1 :: r) (((h.drop (start + i + 1)).take (e - (start + i + 1))).map (cnorm cfg hrep))
        have e5 : (h.drop (start + i + 1)).take (e - (start + i + 1)) = W0.drop i := by
          rw [← hW0, List.drop_take, List.drop_drop]
          have hik : i ≤ k := by omega
          congr 1
          · omega
          · congr 1; omega
        rw [e5, List.map_drop]
        apply t4.drop i
        rw [← List.map_drop, hmapcn]
        simpa using hsub

/-- **the greedy matcher on a code-point haystack reports a valid witness** — given what its prefilter established
    (the first needle character stands at `start`), whatever the forward and backward scans do -/
theorem C02_greedy_unicode_witness (cfg : Cfg) (ext : Ext) (nrep : Rep) (h : List Nat) (n0 : Nat) (ns : List Nat) (start : Nat)
    (hs : start < h.length) (h0 : norm cfg .unicode h[start] = n0) (sc : Nat) (is : List Nat)
    (hres : fuzzyGreedyInner cfg ext .unicode nrep h (n0 :: ns) start (start + 1) = some (sc, is)) :
    validWitnessB cfg .unicode h (n0 :: ns) is = true := by
  have hcn : ∀ x, cnorm cfg .unicode x = norm cfg .unicode x := fun x => C16_cnorm_eq_norm cfg .unicode x (fun e => by cases e)
  have hmapcn : ∀ l : List Nat, l.map (cnorm cfg .unicode) = l.map (norm cfg .unicode) := fun l => List.map_congr_left (fun x _ => hcn x)
  have hr : Rep.unicode = .ascii → ∀ c ∈ h, c < 128 := fun e => by cases e
  have hd : h.drop start = h[start] :: h.drop (start + 1) := by rw [List.drop_eq_getElem_cons hs]
  have hch0 : chAt cfg .unicode h start = n0 := by simp [chAt, List.getElem?_eq_getElem hs, hcn, h0]
  unfold fuzzyGreedyInner at hres
  simp only [reduceCtorEq, false_and, if_false, List.drop_succ_cons, List.drop_zero] at hres
  cases ns with
  | nil =>
    simp only at hres
    -- a one-character needle: the window is the single character
    have hwin : (h.drop start).take (start + 1 - start) = [h[start]] := by
      rw [hd, show start + 1 - start = 1 by omega]; rfl
    rw [hwin] at hres
    simp only [enumFrom, List.reverse_cons, List.reverse_nil, List.nil_append, greedyBwd, h0, if_true, Nat.add_zero,
      Option.some.injEq, Prod.mk.injEq] at hres
    have tw : TightWindow cfg .unicode h n0 [] start (start + 1) := ⟨by omega, by omega, hch0, rfl⟩
    have := witness_of_tight cfg ext .unicode h n0 [] start (start + 1) hr tw
    have e := congrArg Prod.snd hres
    simp only at e
    rw [← e]; exact this
  | cons n1 r =>
    simp only at hres
    cases hf : greedyFwd cfg .unicode (n1 :: r) (h.drop (start + 1)) 0 with
    | none => rw [hf] at hres; cases hres
    | some k =>
      rw [hf] at hres
      simp only [Option.map_some] at hres
      obtain ⟨k1, k2, k3⟩ := greedyFwd_tight cfg .unicode _ n1 r 0 k hf
      simp only [Nat.sub_zero, List.length_drop] at k2 k3
      generalize hW0 : (h.drop (start + 1)).take k = W0 at k3
      have hW0len : W0.length = k := by rw [← hW0]; simp [List.length_take]; omega
      have hwin : (h.drop start).take (start + 1 + k - start) = h[start] :: W0 := by
        rw [hd, show start + 1 + k - start = k + 1 by omega, List.take_succ_cons, hW0]
      rw [hwin] at hres
      -- the window in front of the backward scan
      have tw0 : TightWindow cfg .unicode h n0 (n1 :: r) start (start + 1 + k) := by
        refine ⟨by omega, by omega, hch0, ?_⟩
        show Tight (n1 :: r) (((h.drop (start + 1)).take (start + 1 + k - (start + 1))).map (cnorm cfg .unicode))
        rw [show start + 1 + k - (start + 1) = k by omega, hW0, hmapcn]; exact k3
      cases hb : greedyBwd cfg .unicode (n0 :: n1 :: r).reverse (enumFrom 0 (h[start] :: W0)).reverse with
      | none =>
        rw [hb] at hres
        simp only [Option.some.injEq, Prod.mk.injEq] at hres
        have e := congrArg Prod.snd hres
        simp only at e
        rw [← e]; exact witness_of_tight cfg ext .unicode h n0 (n1 :: r) start (start + 1 + k) hr tw0
      | some i =>
        rw [hb] at hres
        simp only [Option.some.injEq, Prod.mk.injEq] at hres
        have eis := congrArg Prod.snd hres
        simp only at eis
        rw [← eis]
        -- what the backward scan found
        have hrev : (n0 :: n1 :: r).reverse = (n1 :: r).reverse ++ [n0] := by simp
        cases hR : (n0 :: n1 :: r).reverse with
        | nil => simp at hR
        | cons r0 rs =>
          rw [hR] at hb
          obtain ⟨P1, c, P2, e1, e2, e3⟩ := greedyBwd_spec cfg .unicode _ r0 rs i hb
          have hlast : (r0 :: rs).getLast (by simp) = n0 := by
            have : (r0 :: rs).getLast? = some n0 := by rw [← hR, hrev]; simp
            rw [List.getLast?_eq_getLast (by simp)] at this
            exact Option.some.inj this
          have hdl : (r0 :: rs).dropLast = (n1 :: r).reverse := by rw [← hR, hrev]; simp
          rw [hlast] at e2
          rw [hdl] at e3
          have e1' : enumFrom 0 (h[start] :: W0) = P2.reverse ++ (i, c) :: P1.reverse := by
            have := congrArg List.reverse e1
            simpa using this
          obtain ⟨s1, s2, s3⟩ := enumFrom_split _ 0 _ i c _ e1'
          simp only [Nat.zero_add, List.length_reverse] at s1 s2 s3
          rw [← s1] at s2 s3
          -- the rest of the needle lies behind position `i` of the window
          have hsub : subseqB (n1 :: r) (((h[start] :: W0).drop (i + 1)).map (norm cfg .unicode)) = true := by
            rw [subseqB_iff_sublist] at e3 ⊢
            have := List.reverse_sublist.mpr e3
            rw [List.reverse_reverse, ← List.map_reverse] at this
            have e4 : (P1.reverse).map (fun p => norm cfg .unicode p.2) = ((h[start] :: W0).drop (i + 1)).map (norm cfg .unicode) := by
              rw [← s3, List.map_map]; rfl
            rw [← e4]; exact this
          have hilt : i < (h[start] :: W0).length := by
            by_cases hlt : i < (h[start] :: W0).length
            · exact hlt
            · exfalso
              have hge : (h[start] :: W0).length ≤ i := Nat.le_of_not_lt hlt
              rw [List.getElem?_eq_none hge] at s2; cases s2
          simp only [List.length_cons, hW0len] at hilt
          have tw : TightWindow cfg .unicode h n0 (n1 :: r) (start + i) (start + 1 + k) := by
            refine ⟨by omega, by omega, ?_, ?_⟩
            · have := chAt_drop cfg .unicode h start (k + 1) i c (by
                rw [hd, List.take_succ_cons, hW0]; exact s2)
              rw [this, hcn]; exact e2
            · show Tight (n1 :: r) (((h.drop (start + i + 1)).take (start + 1 + k - (start + i + 1))).map (cnorm cfg .unicode))
              have e5 : (h.drop (start + i + 1)).take (start + 1 + k - (start + i + 1)) = W0.drop i := by
                rw [← hW0, List.drop_take, List.drop_drop]
                have hik : i ≤ k := by omega
                congr 1
                · omega
                · congr 1; omega
              rw [e5, hmapcn, List.map_drop]
              apply k3.drop i
              rw [← List.map_drop]
              simpa using hsub
          exact witness_of_tight cfg ext .unicode h n0 (n1 :: r) (start + i) (start + 1 + k) hr tw


/-! ## the ASCII path: the prefilter's greedy end -/

theorem findIdx_none_of_all (p : Nat → Bool) : ∀ (l : List Nat), (∀ x ∈ l, p x = false) → findIdx p l = none := by
  intro l
  induction l with
  | nil => intro _; rfl
  | cons c cs ih => intro h; simp [findIdx, h c (by simp), ih (fun x hx => h x (by simp [hx]))]

/-- one step of a scan that looks for the needle characters one after the other -/
theorem tight_first (f : Nat → Nat) (p : Nat → Bool) (a : Nat) (as L : List Nat) (i : Nat)
    (hp : ∀ x ∈ L, p x = true ↔ f x = a) (hf : findIdx p L = some i) :
    (as = [] → L.length = i + 1 → Tight [a] (L.map f)) ∧ (Tight as ((L.drop (i + 1)).map f) → Tight (a :: as) (L.map f)) := by
  obtain ⟨f1, _, f3⟩ := findIdx_some p L i hf
  have hpd : ∀ x ∈ L.dropLast, p x = true ↔ f x = a := fun x hx => hp x (List.dropLast_subset L hx)
  constructor
  · intro _ hlen
    refine ⟨by rw [subseqB_first f p a [] L hp, hf]; simp [subseqB], ?_⟩
    rw [← List.map_dropLast, subseqB_first f p a [] L.dropLast hpd]
    have : L.dropLast = L.take i := by rw [List.dropLast_eq_take]; congr 1; omega
    rw [this, findIdx_none_of_all p _ f3]
  · intro ht
    have hne : (L.drop (i + 1)) ≠ [] := by
      intro e; have := ht.ne_nil.2; rw [e] at this; exact this rfl
    have hi2 : i + 1 < L.length := by
      by_cases hlt : i + 1 < L.length
      · exact hlt
      · exact absurd (List.drop_eq_nil_of_le (by omega)) hne
    refine ⟨by rw [subseqB_first f p a as L hp, hf]; exact ht.1, ?_⟩
    rw [← List.map_dropLast, subseqB_first f p a as L.dropLast hpd]
    have hfd : findIdx p L.dropLast = some i := by
      rw [List.dropLast_eq_take]; exact findIdx_take p L i _ hf (by omega)
    rw [hfd]
    simp only
    have : L.dropLast.drop (i + 1) = (L.drop (i + 1)).dropLast := by
      rw [List.dropLast_eq_take, List.dropLast_eq_take, List.drop_take, List.length_drop]
      congr 1; omega
    rw [this, List.map_dropLast]; exact ht.2

/-- the ASCII prefilter's forward scan stops exactly where the rest of the needle is complete for the first time -/
theorem asciiGreedyScan_tight (cfg : Cfg) : ∀ (ns : List Nat) (hay : List Nat) (ge ge' : Nat) (rest : List Nat),
    (∀ c ∈ ns, normAscii cfg c = c) → ns ≠ [] → asciiGreedyScan cfg.ignoreCase ns hay ge = some (ge', rest) →
      ge < ge' ∧ ge' - ge ≤ hay.length ∧ Tight ns ((hay.take (ge' - ge)).map (normAscii cfg)) := by
  intro ns
  induction ns with
  | nil => intro _ _ _ _ _ h; exact absurd rfl h
  | cons c cs ih =>
    intro hay ge ge' rest hn _ hsc
    have hc := hn c (by simp)
    have hp : ∀ (l : List Nat), ∀ x ∈ l, asciiEq cfg.ignoreCase c x = true ↔ normAscii cfg x = c := fun _ x _ => asciiEq_iff cfg c x hc
    simp only [asciiGreedyScan] at hsc
    cases hf : findIdx (asciiEq cfg.ignoreCase c) hay with
    | none => rw [hf] at hsc; cases hsc
    | some i =>
      rw [hf] at hsc
      simp only at hsc
      have hi := (findIdx_some _ hay i hf).1
      obtain ⟨k, hk1, hk2, hk3, _, _⟩ := (asciiGreedyScan_spec cfg cs (hay.drop (i + 1)) (ge + i + 1) (fun c hc => hn c (by simp [hc]))).2 ge' rest hsc
      simp only [List.length_drop] at hk1
      have hfL : findIdx (asciiEq cfg.ignoreCase c) (hay.take (ge' - ge)) = some i := findIdx_take _ hay i _ hf (by omega)
      have tf := tight_first (normAscii cfg) (asciiEq cfg.ignoreCase c) c cs (hay.take (ge' - ge)) i (hp _) hfL
      refine ⟨by omega, by omega, ?_⟩
      cases cs with
      | nil =>
        simp only [asciiGreedyScan, Option.some.injEq, Prod.mk.injEq] at hsc
        apply tf.1 rfl
        rw [List.length_take]; omega
      | cons c2 cs' =>
        obtain ⟨j1, j2, j3⟩ := ih (hay.drop (i + 1)) (ge + i + 1) ge' rest (fun c hc => hn c (by simp [hc])) (by simp) hsc
        apply tf.2
        have : (hay.take (ge' - ge)).drop (i + 1) = (hay.drop (i + 1)).take (ge' - (ge + i + 1)) := by
          rw [List.drop_take]; congr 1; omega
        rw [this]; exact j3

/-- **the greedy matcher on an ASCII haystack reports a valid witness** — from what its prefilter computed (first
    character position and greedy end), for every already-normalized ASCII needle -/
theorem C02_greedy_ascii_witness (cfg : Cfg) (ext : Ext) (h : List Nat) (n0 : Nat) (ns : List Nat) (start ge e : Nat)
    (hasc : ∀ c ∈ h, c < 128) (hn : ∀ c ∈ n0 :: ns, normAscii cfg c = c)
    (hp : prefilterAscii cfg h (n0 :: ns) true = some (start, ge, e)) (sc : Nat) (is : List Nat)
    (hres : fuzzyGreedyInner cfg ext .ascii .ascii h (n0 :: ns) start ge = some (sc, is)) :
    validWitnessB cfg .ascii h (n0 :: ns) is = true := by
  have hr : Rep.ascii = .ascii → ∀ c ∈ h, c < 128 := fun _ => hasc
  -- what the prefilter did
  unfold prefilterAscii at hp
  simp only at hp
  cases hf : findIdx (asciiEq cfg.ignoreCase n0) (h.take (h.length - (n0 :: ns).length + 1)) with
  | none => rw [hf] at hp; cases hp
  | some st =>
    rw [hf] at hp
    simp only at hp
    cases hg : asciiGreedyScan cfg.ignoreCase ns (h.drop (st + 1)) (st + 1) with
    | none => rw [hg] at hp; cases hp
    | some gr =>
      obtain ⟨g, rest⟩ := gr
      rw [hg] at hp
      simp only [if_true, Option.some.injEq, Prod.mk.injEq] at hp
      obtain ⟨rfl, rfl, _⟩ := hp
      have hfull := findIdx_of_take _ h st _ hf
      obtain ⟨f1, ⟨x, f2, f3⟩, _⟩ := findIdx_some _ h st hfull
      have hx : x = h[st] := by rw [List.getElem?_eq_getElem f1] at f2; exact (Option.some.inj f2).symm
      have h0 : normAscii cfg h[st] = n0 := by rw [← hx]; exact (asciiEq_iff cfg n0 x (hn n0 (by simp))).mp f3
      have hch0 : chAt cfg .ascii h st = n0 := by
        simp only [chAt, List.getElem?_eq_getElem f1, Option.map_some, Option.getD_some]
        rw [C16_cnorm_eq_norm cfg .ascii _ (fun _ => hasc _ (List.getElem_mem f1))]; exact h0
      unfold fuzzyGreedyInner at hres
      simp only [and_self, if_true] at hres
      cases ns with
      | nil =>
        -- one character: the greedy end is right behind it
        simp only [asciiGreedyScan, Option.some.injEq, Prod.mk.injEq] at hg
        obtain ⟨rfl, _⟩ := hg
        have hd : h.drop st = h[st] :: h.drop (st + 1) := by rw [List.drop_eq_getElem_cons f1]
        have hwin : (h.drop st).take (st + 1 - st) = [h[st]] := by rw [hd, show st + 1 - st = 1 by omega]; rfl
        rw [hwin] at hres
        have hn0' : norm cfg .ascii h[st] = n0 := h0
        simp only [enumFrom, List.reverse_cons, List.reverse_nil, List.nil_append, greedyBwd, hn0', if_true, Nat.add_zero,
          Option.some.injEq] at hres
        have tw : TightWindow cfg .ascii h n0 [] st (st + 1) := ⟨by omega, by omega, hch0, rfl⟩
        have e := congrArg Prod.snd hres
        simp only at e
        rw [← e]; exact witness_of_tight cfg ext .ascii h n0 [] st (st + 1) hr tw
      | cons n1 r =>
        obtain ⟨j1, j2, j3⟩ := asciiGreedyScan_tight cfg (n1 :: r) (h.drop (st + 1)) (st + 1) g rest (fun c hc => hn c (by simp [hc])) (by simp) hg
        simp only [List.length_drop] at j2
        have tw0 : TightWindow cfg .ascii h n0 (n1 :: r) st g := by
          refine ⟨by omega, by omega, hch0, ?_⟩
          show Tight (n1 :: r) (((h.drop (st + 1)).take (g - (st + 1))).map (cnorm cfg .ascii))
          rw [map_cnorm_eq_map_norm cfg .ascii h _ hr (fun c hc => List.mem_of_mem_drop (List.mem_of_mem_take hc))]
          exact j3
        have tw := tight_after_bwd cfg .ascii h n0 n1 r st g hr tw0
        simp only [Option.some.injEq] at hres
        have e := congrArg Prod.snd hres
        simp only at e
        rw [← e]
        exact witness_of_tight cfg ext .ascii h n0 (n1 :: r) _ g hr tw


/-! ## the entry point -/

/-- **`fuzzy_indices_greedy` reports a valid witness** on code-point haystacks (any needle representation) and on ASCII
    haystacks with an already-normalized ASCII needle, for every needle shorter than the haystack (equal lengths take
    the exact-match path of `C02_exactImpl_contiguous`) -/
theorem C02_greedy_entry (cfg : Cfg) (ext : Ext) (hrep nrep : Rep) (h : List Nat) (n0 : Nat) (ns : List Nat)
    (hlen : (n0 :: ns).length < h.length)
    (hside : (hrep = .unicode) ∨ (hrep = .ascii ∧ nrep = .ascii ∧ (∀ c ∈ h, c < 128) ∧ ∀ c ∈ n0 :: ns, normAscii cfg c = c))
    (sc : Nat) (is : List Nat) (hres : fuzzyGreedy cfg ext hrep nrep h (n0 :: ns) = some (sc, is)) :
    validWitnessB cfg hrep h (n0 :: ns) is = true := by
  unfold fuzzyGreedy at hres
  have h1 : ¬ ((n0 :: ns).length > h.length) := by omega
  have h2 : ¬ ((n0 :: ns).length = h.length) := by omega
  simp only [h1, if_false, List.isEmpty_cons, Bool.false_eq_true, h2] at hres
  rcases hside with rfl | ⟨rfl, rfl, hasc, hn⟩
  · simp only at hres
    cases hp : prefilterNonAscii cfg h (n0 :: ns) true with
    | none => rw [hp] at hres; cases hres
    | some se =>
      obtain ⟨start, e⟩ := se
      rw [hp] at hres
      simp only at hres
      -- the prefilter's start is the first position of the first needle character
      unfold prefilterNonAscii at hp
      simp only [if_true] at hp
      cases hf : findIdx (fun c => decide (normChar cfg c = n0)) (h.take (h.length - (n0 :: ns).length + 1)) with
      | none => rw [hf] at hp; cases hp
      | some st =>
        rw [hf] at hp
        simp only at hp
        split at hp
        · cases hp
        · simp only [Option.some.injEq, Prod.mk.injEq] at hp
          obtain ⟨rfl, rfl⟩ := hp
          have hfull := findIdx_of_take _ h st _ hf
          obtain ⟨f1, ⟨x, f2, f3⟩, _⟩ := findIdx_some _ h st hfull
          have hx : x = h[st] := by rw [List.getElem?_eq_getElem f1] at f2; exact (Option.some.inj f2).symm
          have h0 : norm cfg .unicode h[st] = n0 := by rw [← hx]; show normChar cfg x = n0; simpa using f3
          exact C02_greedy_unicode_witness cfg ext nrep h n0 ns st f1 h0 sc is hres
  · simp only at hres
    cases hp : prefilterAscii cfg h (n0 :: ns) true with
    | none => rw [hp] at hres; cases hres
    | some sge =>
      obtain ⟨start, ge, e⟩ := sge
      rw [hp] at hres
      simp only at hres
      split at hres
      · -- the contiguous shortcut is `calculate_score` on the same window
        rename_i hcont
        have hin : fuzzyGreedyInner cfg ext .ascii .ascii h (n0 :: ns) start ge = some (sc, is) ∨ True := Or.inr trivial
        -- derive the witness directly from the tight window at `start`
        unfold prefilterAscii at hp
        simp only at hp
        cases hf : findIdx (asciiEq cfg.ignoreCase n0) (h.take (h.length - (n0 :: ns).length + 1)) with
        | none => rw [hf] at hp; cases hp
        | some st =>
          rw [hf] at hp
          simp only at hp
          cases hg : asciiGreedyScan cfg.ignoreCase ns (h.drop (st + 1)) (st + 1) with
          | none => rw [hg] at hp; cases hp
          | some gr =>
            obtain ⟨g, rest⟩ := gr
            rw [hg] at hp
            simp only [if_true, Option.some.injEq, Prod.mk.injEq] at hp
            obtain ⟨rfl, rfl, _⟩ := hp
            have hr : Rep.ascii = .ascii → ∀ c ∈ h, c < 128 := fun _ => hasc
            have hfull := findIdx_of_take _ h st _ hf
            obtain ⟨f1, ⟨x, f2, f3⟩, _⟩ := findIdx_some _ h st hfull
            have hx : x = h[st] := by rw [List.getElem?_eq_getElem f1] at f2; exact (Option.some.inj f2).symm
            have h0 : normAscii cfg h[st] = n0 := by rw [← hx]; exact (asciiEq_iff cfg n0 x (hn n0 (by simp))).mp f3
            have hch0 : chAt cfg .ascii h st = n0 := by
              simp only [chAt, List.getElem?_eq_getElem f1, Option.map_some, Option.getD_some]
              rw [C16_cnorm_eq_norm cfg .ascii _ (fun _ => hasc _ (List.getElem_mem f1))]; exact h0
            have e := congrArg Prod.snd (Option.some.inj hres)
            simp only at e
            rw [← e]
            cases ns with
            | nil =>
              simp only [asciiGreedyScan, Option.some.injEq, Prod.mk.injEq] at hg
              obtain ⟨rfl, _⟩ := hg
              exact witness_of_tight cfg ext .ascii h n0 [] st (st + 1) hr ⟨by omega, by omega, hch0, rfl⟩
            | cons n1 r =>
              obtain ⟨j1, j2, j3⟩ := asciiGreedyScan_tight cfg (n1 :: r) (h.drop (st + 1)) (st + 1) g rest (fun c hc => hn c (by simp [hc])) (by simp) hg
              simp only [List.length_drop] at j2
              refine witness_of_tight cfg ext .ascii h n0 (n1 :: r) st g hr ⟨by omega, by omega, hch0, ?_⟩
              show Tight (n1 :: r) (((h.drop (st + 1)).take (g - (st + 1))).map (cnorm cfg .ascii))
              rw [map_cnorm_eq_map_norm cfg .ascii h _ hr (fun c hc => List.mem_of_mem_drop (List.mem_of_mem_take hc))]
              exact j3
      · exact C02_greedy_ascii_witness cfg ext h n0 ns start ge e hasc hn hp sc is hres

end NucleoVerif
