import NucleoVerif.Props.C02_Fuzzy
/-! # C02 (companion file) — substring matching reports the contiguous indices of an occurrence -/
namespace NucleoVerif
open Gen Spec Sub DP

theorem bestStep_fold_mem (f : Nat → Nat) : ∀ (l : List Nat) (b : Option Nat) (q : Nat),
    l.foldl (bestStep f) b = some q → b = some q ∨ q ∈ l ∨ (∃ b0, b = some b0 ∧ q = b0) := by
  intro l
  induction l with
  | nil => intro b q h; exact Or.inl h
  | cons i t ih =>
    intro b q h
    simp only [List.foldl_cons] at h
    rcases ih _ q h with h1 | h1 | ⟨b0, h1, h2⟩
    · cases b with
      | none => simp only [bestStep, Option.some.injEq] at h1; subst h1; exact Or.inr (Or.inl (by simp))
      | some b0 =>
        simp only [bestStep] at h1
        split at h1
        · simp only [Option.some.injEq] at h1; subst h1; exact Or.inr (Or.inl (by simp))
        · exact Or.inl h1
    · exact Or.inr (Or.inl (by simp [h1]))
    · cases b with
      | none => simp only [bestStep, Option.some.injEq] at h1; subst h1; subst h2; exact Or.inr (Or.inl (by simp))
      | some c0 =>
        simp only [bestStep] at h1
        split at h1
        · simp only [Option.some.injEq] at h1; subst h1; subst h2; exact Or.inr (Or.inl (by simp))
        · exact Or.inl (by rw [h1, h2])

theorem bestOccurrence_mem (cfg : Cfg) (ext : Ext) (hrep : Rep) (h n : List Nat) (q : Nat)
    (hq : bestOccurrence cfg ext hrep h n = some q) : q ∈ occurrences cfg hrep h n := by
  rw [bestOccurrence_eq_fold] at hq
  rcases bestStep_fold_mem _ _ none q hq with h1 | h1 | ⟨b0, h1, _⟩
  · cases h1
  · exact h1
  · cases h1

/-- an occurrence is a place where the normalized window equals the needle -/
theorem occurrence_window (cfg : Cfg) (hrep : Rep) (h n : List Nat) (q : Nat) (hq : q ∈ occurrences cfg hrep h n) :
    q + n.length ≤ h.length ∧ ((h.drop q).take n.length).map (norm cfg hrep) = n := by
  unfold occurrences at hq
  have := (occAux_mem n (normHay cfg hrep h) 0 q).mp hq
  simp only [normHay, List.length_map, Nat.sub_zero, Nat.zero_add] at this
  refine ⟨by omega, ?_⟩
  rw [List.map_take, List.map_drop]; exact this.2.2.1

/-- what both substring matchers return: `calculate_score` on a window that starts at the position they picked -/
theorem substring_witness_core (cfg : Cfg) (ext : Ext) (hrep : Rep) (h : List Nat) (n0 : Nat) (ns : List Nat) (P : Nat)
    (hr : hrep = .ascii → ∀ c ∈ h, c < 128) (sc : Nat) (idx : List Nat)
    (hcs : calculateScore cfg ext hrep h (n0 :: ns) P (P + (n0 :: ns).length) = (sc, idx))
    (hhead : idx.head? = bestOccurrence cfg ext hrep h (n0 :: ns))
    (hne : occurrences cfg hrep h (n0 :: ns) ≠ []) :
    idx = List.range' P (n0 :: ns).length ∧ validWitnessB cfg hrep h (n0 :: ns) idx = true := by
  -- the specification's choice exists and is an occurrence
  have hsome : ∃ q, bestOccurrence cfg ext hrep h (n0 :: ns) = some q := by
    rw [bestOccurrence_eq_fold]
    cases hO : occurrences cfg hrep h (n0 :: ns) with
    | nil => exact absurd hO hne
    | cons i t =>
      simp only [List.foldl_cons, bestStep]
      have : ∀ (l : List Nat) (b : Nat), ∃ q, l.foldl (bestStep (firstBonus cfg ext h)) (some b) = some q := by
        intro l
        induction l with
        | nil => intro b; exact ⟨b, rfl⟩
        | cons x xs ih => intro b; simp only [List.foldl_cons, bestStep]; split <;> exact ih _
      exact this t i
  obtain ⟨q, hq⟩ := hsome
  have hmem := bestOccurrence_mem cfg ext hrep h _ q hq
  obtain ⟨hfit, hwinN⟩ := occurrence_window cfg hrep h _ q hmem
  -- the window starts where the specification says
  have hPq : P = q := by
    by_cases hP : P < h.length
    · have hh := calculateScore_head cfg ext hrep h n0 ns P (P + (n0 :: ns).length) hP
      rw [hcs] at hh
      simp only at hh
      rw [hhead, hq] at hh
      exact (Option.some.inj hh).symm
    · exfalso
      have hd : h.drop P = [] := List.drop_of_length_le (by omega)
      unfold calculateScore at hcs
      rw [hd] at hcs
      simp only at hcs
      have : idx = [] := (congrArg Prod.snd hcs).symm
      rw [this, hq] at hhead
      cases hhead
  subst hPq
  have hwin : ((h.drop P).take (P + (n0 :: ns).length - P)).map (cnorm cfg hrep) = n0 :: ns := by
    rw [Nat.add_sub_cancel_left]
    rw [map_cnorm_eq_map_norm cfg hrep h _ hr (fun c hc => List.mem_of_mem_drop (List.mem_of_mem_take hc))]
    exact hwinN
  have hidx := calculateScore_contiguous cfg ext hrep h n0 ns P (P + (n0 :: ns).length) hwin
  rw [hcs] at hidx
  simp only at hidx
  refine ⟨hidx, ?_⟩
  rw [hidx]
  refine validWitness_contiguous cfg hrep h _ P hr hfit ?_
  rw [map_cnorm_eq_map_norm cfg hrep h _ hr (fun c hc => List.mem_of_mem_drop (List.mem_of_mem_take hc))]
  exact hwinN

/-- **`substring_indices` on an ASCII haystack**: the indices are the contiguous positions of an occurrence of the needle
    (a valid witness), starting at the position the matcher picked -/
theorem C02_substring_ascii_witness (cfg : Cfg) (ext : Ext) (h : List Nat) (n0 : Nat) (ns : List Nat)
    (hb : 8 ≤ maxBonus cfg) (hasc : ∀ x ∈ h, x < 128) (hn : ∀ c ∈ n0 :: ns, normAscii cfg c = c)
    (hlen : (n0 :: ns).length ≤ h.length) (sc : Nat) (idx : List Nat)
    (hres : substringAscii cfg ext h (n0 :: ns) = some (sc, idx)) :
    validWitnessB cfg .ascii h (n0 :: ns) idx = true ∧ contiguousB idx = true := by
  obtain ⟨hdec, hhead⟩ := C05_substring_ascii cfg ext h n0 ns hb hasc hn hlen
  have hh := hhead sc idx hres
  have hne : occurrences cfg .ascii h (n0 :: ns) ≠ [] := by
    rw [hres] at hdec
    intro e; rw [e] at hdec; cases hdec
  -- the result is `calculate_score` at the scan's position
  have hcs : ∃ P, calculateScore cfg ext .ascii h (n0 :: ns) P (P + (n0 :: ns).length) = (sc, idx) := by
    unfold substringAscii at hres
    simp only at hres
    split at hres
    · cases hres
    · exact ⟨_, Option.some.inj hres⟩
  obtain ⟨P, hcs⟩ := hcs
  obtain ⟨hidx, hv⟩ := substring_witness_core cfg ext .ascii h n0 ns P (fun _ => hasc) sc idx hcs hh hne
  refine ⟨hv, ?_⟩
  rw [hidx]
  unfold contiguousB
  simp only [List.all_eq_true, beq_iff_eq]
  intro p hp
  -- consecutive elements of range'
  have : ∀ (L s : Nat) (p : Nat × Nat), p ∈ (List.range' s L).zip ((List.range' s L).drop 1) → p.1 + 1 = p.2 := by
    intro L
    induction L with
    | zero => intro s p hp; simp at hp
    | succ L ih =>
      intro s p hp
      rw [List.range'_succ] at hp
      simp only [List.drop_succ_cons, List.drop_zero] at hp
      cases L with
      | zero => simp at hp
      | succ L' =>
        rw [List.range'_succ] at hp
        simp only [List.zip_cons_cons, List.mem_cons] at hp
        rcases hp with rfl | hp
        · rfl
        · apply ih (s + 1) p
          rw [List.range'_succ]
          simp only [List.drop_succ_cons, List.drop_zero]
          exact hp
  exact this _ _ p hp

/-- **`substring_indices` on a code-point haystack** (needle of at least two characters, behind the non-ASCII prefilter) -/
theorem C02_substring_unicode_witness (cfg : Cfg) (ext : Ext) (nrep : Rep) (h : List Nat) (n0 n1 : Nat) (ns : List Nat)
    (hb : 8 ≤ maxBonus cfg) (hlen : (n0 :: n1 :: ns).length ≤ h.length) (start e : Nat)
    (hp : prefilterNonAscii cfg h (n0 :: n1 :: ns) false = some (start, e)) (sc : Nat) (idx : List Nat)
    (hres : substringNonAscii cfg ext nrep h (n0 :: n1 :: ns) start = some (sc, idx)) :
    validWitnessB cfg .unicode h (n0 :: n1 :: ns) idx = true ∧ idx = List.range' (idx.headD 0) (n0 :: n1 :: ns).length := by
  obtain ⟨hdec, hhead⟩ := C05_substring_unicode cfg ext nrep h n0 n1 ns hb hlen
  rw [hp] at hdec hhead
  simp only at hdec hhead
  have hh := hhead sc idx hres
  have hne : occurrences cfg .unicode h (n0 :: n1 :: ns) ≠ [] := by
    rw [hres] at hdec
    intro e'; rw [e'] at hdec; cases hdec
  have hcs : ∃ P, calculateScore cfg ext .unicode h (n0 :: n1 :: ns) P (P + (n0 :: n1 :: ns).length) = (sc, idx) := by
    unfold substringNonAscii at hres
    simp only at hres
    split at hres
    · cases hres
    · exact ⟨_, Option.some.inj hres⟩
  obtain ⟨P, hcs⟩ := hcs
  obtain ⟨hidx, hv⟩ := substring_witness_core cfg ext .unicode h n0 (n1 :: ns) P (fun e' => by cases e') sc idx hcs hh hne
  refine ⟨hv, ?_⟩
  rw [hidx]
  simp [List.range'_succ]

end NucleoVerif
