import NucleoVerif.Props.C04_Compressed
/-! # C02 (companion file) — the traceback through the compressed back-pointer matrix reports a valid witness

`reconstruct_optimal_path` walks two-bit cells laid out in per-row segments whose lengths depend on the row offsets.
In the code-level model it reproduces, index by index, the alignment carried by the best cell of the recurrence
(`trace_spec`, `finish_spec`), which is a valid witness (`C02_optimalDP_valid_witness`). -/
namespace NucleoVerif.OptImpl
open NucleoVerif NucleoVerif.Gen NucleoVerif.Gen.Opt NucleoVerif.DP NucleoVerif.Spec

theorem C02_traceback_valid_witness (cfg : Cfg) (ext : Ext) (hrep : Rep) (h n : List Nat) (start end_ : Nat)
    (cur0 : List ScoreCell) (cells0 : List MatrixCell)
    (hN : 2 ≤ n.length) (hNW : n.length ≤ (windowCols cfg ext hrep h start end_).length)
    (hwhite : cfg.white < 256) (hdelim : cfg.delim < 256)
    (hcur : cur0.length = (windowCols cfg ext hrep h start end_).length + 1 - n.length)
    (hcells : ((windowCols cfg ext hrep h start end_).length + 1 - n.length) * n.length ≤ cells0.length)
    (hr : hrep = .ascii → ∀ c ∈ h, c < 128) (hpp : cfg.preferPrefix = false) (sc : Nat) (path : List Nat)
    (hres : optimalImpl cfg (windowCols cfg ext hrep h start end_) n start cur0 cells0 = some (sc, path)) :
    validWitnessB cfg hrep h n path = true ∧ ∀ x ∈ path, start ≤ x :=
  let w := C04_compressed_matrix_correct cfg ext hrep h n start end_ cur0 cells0 hN hNW hwhite hdelim hcur hcells hr hpp sc path hres
  ⟨w.1, w.2.1⟩

end NucleoVerif.OptImpl
