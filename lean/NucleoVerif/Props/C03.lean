import NucleoVerif.Model.Matcher
import NucleoVerif.Spec.Matcher
/-! # C03 — the score is the fzf scheme applied to the reported alignment

The specification (`Spec.alignScore`, `Spec.specBonus`, …) is written with the documented
literal numbers; the model uses the constants extracted from `score.rs` / `config.rs` on
this run.  -/
namespace NucleoVerif
open Gen Spec

/-- the constants in the source are the documented ones -/
theorem C03_consts_documented :
    SCORE_MATCH = 16 ∧ PENALTY_GAP_START = 3 ∧ PENALTY_GAP_EXTENSION = 1 ∧ BONUS_BOUNDARY = 8 ∧
    BONUS_NON_WORD = 8 ∧ BONUS_CAMEL123 = 5 ∧ BONUS_CONSECUTIVE = 4 ∧ BONUS_FIRST_CHAR_MULTIPLIER = 2 ∧
    presetDefault_white = 10 ∧ presetDefault_delim = 9 ∧ presetMatchPaths_white = 8 ∧ presetMatchPaths_delim = 9 ∧
    presetSetMatchPaths_white = 8 ∧ presetSetMatchPaths_delim = 9 ∧
    charClassOrder = ["whitespace", "nonWord", "delimiter", "lower", "upper", "letter", "number"] := by
  decide

/-- **the code's `bonus_for` if-chain equals the documented bonus table**, for every pair of
    classes and every whitespace/delimiter bonus value -/
theorem C03_bonusFor_eq_spec (cfg : Cfg) (prev cls : CharClass) :
    bonusFor cfg prev cls = specBonus cfg.white cfg.delim prev cls := by
  cases prev <;> cases cls <;> simp [bonusFor, specBonus, CharClass.rank, BONUS_BOUNDARY, BONUS_CAMEL123, BONUS_NON_WORD]

/-- relation between the model's scheme state and the specification's -/
def StRel (s : St) (t : SSt) : Prop :=
  s.score = t.score ∧ s.prev = t.prev ∧ s.inGap = t.inGap ∧ s.consec = t.inRun ∧ (s.consec = true → s.firstBonus = t.runBonus)

theorem stInit_rel (cfg : Cfg) (prev cls : CharClass) :
    StRel (stInit cfg prev cls) (sInit cfg.white cfg.delim prev cls) := by
  simp [StRel, stInit, sInit, C03_bonusFor_eq_spec, SCORE_MATCH, BONUS_FIRST_CHAR_MULTIPLIER, Nat.mul_comm]

/-- a matching step, as long as the `u16` accumulator does not saturate -/
theorem sat16_of_le {x : Nat} (h : x ≤ 65535) : sat16 x = x := by simp [sat16]; omega

theorem stepMatch_rel (cfg : Cfg) (s : St) (t : SSt) (cls : CharClass) (h : StRel s t)
    (hs : (sMatch cfg.white cfg.delim t cls).score ≤ 65535) :
    StRel (stepMatch cfg s cls) (sMatch cfg.white cfg.delim t cls) := by
  obtain ⟨h1, h2, h3, h4, h5⟩ := h
  unfold stepMatch sMatch at *
  rw [C03_bonusFor_eq_spec, h2]
  generalize specBonus cfg.white cfg.delim t.prev cls = b at *
  by_cases hc : s.consec = true
  · have hr : t.inRun = true := by rw [← h4]; exact hc
    have hf := h5 hc
    simp only [hc, hr, if_true, hf, BONUS_BOUNDARY, BONUS_CONSECUTIVE, SCORE_MATCH, h1] at hs ⊢
    refine ⟨?_, rfl, rfl, rfl, fun _ => rfl⟩
    show sat16 _ = _
    rw [← Nat.add_assoc, sat16_of_le hs]
  · have hc' : s.consec = false := by simpa using hc
    have hr : t.inRun = false := by rw [← h4]; exact hc'
    simp only [hc', hr, Bool.false_eq_true, if_false, SCORE_MATCH, h1] at hs ⊢
    refine ⟨?_, rfl, rfl, rfl, fun _ => rfl⟩
    show sat16 _ = _
    rw [← Nat.add_assoc, sat16_of_le hs]

theorem stepSkip_rel (s : St) (t : SSt) (cls : CharClass) (h : StRel s t) :
    StRel (stepSkip s cls) (sSkip t cls) := by
  obtain ⟨h1, h2, h3, h4, h5⟩ := h
  simp [StRel, stepSkip, sSkip, h1, h3, PENALTY_GAP_EXTENSION, PENALTY_GAP_START]

end NucleoVerif
