import NucleoVerif.Model.Matcher
import NucleoVerif.Spec.Matcher
import NucleoVerif.Props.C02
import NucleoVerif.Lemmas.DP
/-! # C03 — the score is the fzf scheme applied to the reported alignment

The specification (`Spec.alignScore`, `Spec.specBonus`, …) is written with the documented
literal numbers; the model uses the constants extracted from `score.rs` / `config.rs` on
this run.  -/
namespace NucleoVerif
open Gen Spec

/-- the constants in the source are the documented ones -/
theorem C03_consts_documented :
    SCORE_MATCH = 16 ∧ PENALTY_GAP_START = 3 ∧ PENALTY_GAP_EXTENSION = 1 ∧ BONUS_BOUNDARY = 8 ∧
    BONUS_NON_WORD = 8 ∧ BONUS_CAMEL123 = 5 ∧ BONUS_CONSECUTIVE = 4 ∧ BONUS_FIRST_CHAR_MULTIPLIER = 2 ∧
    presetDefault_white = 10 ∧ presetDefault_delim = 9 ∧ presetMatchPaths_white = 8 ∧ presetMatchPaths_delim = 9 ∧
    presetSetMatchPaths_white = 8 ∧ presetSetMatchPaths_delim = 9 ∧
    charClassOrder = ["whitespace", "nonWord", "delimiter", "lower", "upper", "letter", "number"] := by
  decide

/-- **the code's `bonus_for` if-chain equals the documented bonus table**, for every pair of
    classes and every whitespace/delimiter bonus value -/
theorem C03_bonusFor_eq_spec (cfg : Cfg) (prev cls : CharClass) :
    bonusFor cfg prev cls = specBonus cfg.white cfg.delim prev cls := by
  cases prev <;> cases cls <;> simp [bonusFor, specBonus, CharClass.rank, BONUS_BOUNDARY, BONUS_CAMEL123, BONUS_NON_WORD]

/-- relation between the model's scheme state and the specification's -/
def StRel (s : St) (t : SSt) : Prop :=
  s.score = t.score ∧ s.prev = t.prev ∧ s.inGap = t.inGap ∧ s.consec = t.inRun ∧ (s.consec = true → s.firstBonus = t.runBonus)

theorem stInit_rel (cfg : Cfg) (prev cls : CharClass) :
    StRel (stInit cfg prev cls) (sInit cfg.white cfg.delim prev cls) := by
  simp [StRel, stInit, sInit, C03_bonusFor_eq_spec, SCORE_MATCH, BONUS_FIRST_CHAR_MULTIPLIER, Nat.mul_comm]

/-- a matching step, as long as the `u16` accumulator does not saturate -/
theorem sat16_of_le {x : Nat} (h : x ≤ 65535) : sat16 x = x := by simp [sat16]; omega

theorem stepMatch_rel (cfg : Cfg) (s : St) (t : SSt) (cls : CharClass) (h : StRel s t)
    (hs : (sMatch cfg.white cfg.delim t cls).score ≤ 65535) :
    StRel (stepMatch cfg s cls) (sMatch cfg.white cfg.delim t cls) := by
  obtain ⟨h1, h2, h3, h4, h5⟩ := h
  unfold stepMatch sMatch at *
  rw [C03_bonusFor_eq_spec, h2]
  generalize specBonus cfg.white cfg.delim t.prev cls = b at *
  by_cases hc : s.consec = true
  · have hr : t.inRun = true := by rw [← h4]; exact hc
    have hf := h5 hc
    simp only [hc, hr, if_true, hf, BONUS_BOUNDARY, BONUS_CONSECUTIVE, SCORE_MATCH, h1] at hs ⊢
    refine ⟨?_, rfl, rfl, rfl, fun _ => rfl⟩
    show sat16 _ = _
    rw [← Nat.add_assoc, sat16_of_le hs]
  · have hc' : s.consec = false := by simpa using hc
    have hr : t.inRun = false := by rw [← h4]; exact hc'
    simp only [hc', hr, Bool.false_eq_true, if_false, SCORE_MATCH, h1] at hs ⊢
    refine ⟨?_, rfl, rfl, rfl, fun _ => rfl⟩
    show sat16 _ = _
    rw [← Nat.add_assoc, sat16_of_le hs]

theorem stepSkip_rel (s : St) (t : SSt) (cls : CharClass) (h : StRel s t) :
    StRel (stepSkip s cls) (sSkip t cls) := by
  obtain ⟨h1, h2, h3, h4, h5⟩ := h
  simp [StRel, stepSkip, sSkip, h1, h3, PENALTY_GAP_EXTENSION, PENALTY_GAP_START]

/-! ## the whole loop of `calculate_score` against the specification -/

/-- the indices pushed by the loop are a prefix-extension: earlier entries are kept -/
theorem csLoop_idx_suffix (cfg : Cfg) (ext : Ext) (hrep : Rep) :
    ∀ (cs : List Nat) (l : CsLoop) (pos : Nat), ∃ new, (csLoop cfg ext hrep l pos cs).idxRev = new ++ l.idxRev := by
  intro cs
  induction cs with
  | nil => intro l pos; exact ⟨[], rfl⟩
  | cons c cs ih =>
    intro l pos
    simp only [csLoop]
    obtain ⟨new, hn⟩ := ih (csStep cfg ext hrep l pos c) (pos + 1)
    rcases csStep_idx cfg ext hrep l pos c with e | e
    · exact ⟨new, by rw [hn, e]⟩
    · exact ⟨new ++ [pos], by rw [hn, e]; simp⟩

/-- which branch `csStep` takes -/
theorem csStep_cases (cfg : Cfg) (ext : Ext) (hrep : Rep) (l : CsLoop) (pos c : Nat) :
    ((csStep cfg ext hrep l pos c).st = stepMatch cfg l.st (charClass cfg ext c) ∧ (csStep cfg ext hrep l pos c).idxRev = pos :: l.idxRev) ∨
    ((csStep cfg ext hrep l pos c).st = stepSkip l.st (charClass cfg ext c) ∧ (csStep cfg ext hrep l pos c).idxRev = l.idxRev) := by
  unfold csStep
  split
  · left; split <;> exact ⟨rfl, rfl⟩
  · right; exact ⟨rfl, rfl⟩

/-- all intermediate values of the specification's running score stay inside the `u16` range -/
def NoSat (white delim : Nat) (cls : Nat → CharClass) (is : List Nat) : SSt → Nat → List Nat → Prop
  | _, _, [] => True
  | s, col, c :: cs =>
    let s' := if is.contains col then sMatch white delim s (cls c) else sSkip s (cls c)
    s'.score ≤ 65535 ∧ NoSat white delim cls is s' (col + 1) cs

/-- **the loop of `calculate_score` computes the scheme on the alignment it records**: the model's state
    tracks the specification's state column by column, where "matched" is decided by membership in the
    *final* index list -/
theorem csLoop_rel (cfg : Cfg) (ext : Ext) (hrep : Rep) :
    ∀ (cs : List Nat) (l : CsLoop) (pos : Nat) (t : SSt) (F : List Nat),
      StRel l.st t → (∀ x ∈ l.idxRev, x < pos) → l.idxRev.Pairwise (· > ·) →
      F = (csLoop cfg ext hrep l pos cs).idxRev →
      NoSat cfg.white cfg.delim (charClass cfg ext) F.reverse t pos cs →
      StRel (csLoop cfg ext hrep l pos cs).st (sWalk cfg.white cfg.delim (charClass cfg ext) F.reverse t pos cs) := by
  intro cs
  induction cs with
  | nil => intro l pos t F h _ _ _ _; simpa [csLoop, sWalk] using h
  | cons c cs ih =>
    intro l pos t F hrel hlt hpw hF hsat
    simp only [csLoop] at hF ⊢
    simp only [sWalk]
    simp only [NoSat] at hsat
    -- does the final list contain `pos`?
    have hb := csLoop_idx_bounds cfg ext hrep (pos + 1) cs
    obtain ⟨new, hnew⟩ := csLoop_idx_suffix cfg ext hrep cs (csStep cfg ext hrep l pos c) (pos + 1)
    rcases csStep_cases cfg ext hrep l pos c with ⟨hst, hidx⟩ | ⟨hst, hidx⟩
    · -- matched: `pos` is in the final list
      have hmem : F.reverse.contains pos = true := by
        rw [hF, hnew, hidx]; simp
      rw [hmem] at hsat ⊢
      simp only [if_true] at hsat ⊢
      apply ih (csStep cfg ext hrep l pos c) (pos + 1) _ F
      · rw [hst]; exact stepMatch_rel cfg l.st t (charClass cfg ext c) hrel hsat.1
      · intro x hx; rw [hidx] at hx; simp only [List.mem_cons] at hx
        rcases hx with rfl | hx
        · omega
        · have := hlt x hx; omega
      · rw [hidx]; exact List.pairwise_cons.mpr ⟨fun a ha => hlt a ha, hpw⟩
      · exact hF
      · exact hsat.2
    · -- skipped: `pos` is not in the final list
      have hnot : F.reverse.contains pos = false := by
        rw [hF]
        simp only [List.contains_reverse]
        rw [List.contains_eq_mem]
        simp only [decide_eq_false_iff_not]
        intro hmem
        rw [hnew, hidx] at hmem
        simp only [List.mem_append] at hmem
        rcases hmem with hm | hm
        · -- new elements are ≥ pos + 1 … they come from positions ≥ pos + 1
          have key : ∀ x ∈ new, pos + 1 ≤ x := by
            -- apply the bounds lemma to a loop state with an empty index list
            have := csLoop_idx_bounds cfg ext hrep (pos + 1) cs { (csStep cfg ext hrep l pos c) with idxRev := [] } (pos + 1)
              (Nat.le_refl _) (by simp) (by simp)
            -- the loop does not look at idxRev, so the new part is the same
            intro x hx
            have hsame : ∀ (cs : List Nat) (l1 l2 : CsLoop) (p : Nat), l1.st = l2.st → l1.needleChar = l2.needleChar → l1.rest = l2.rest →
                ∀ n1, (csLoop cfg ext hrep l1 p cs).idxRev = n1 ++ l1.idxRev → (csLoop cfg ext hrep l2 p cs).idxRev = n1 ++ l2.idxRev := by
              intro cs
              induction cs with
              | nil =>
                intro l1 l2 p _ _ _ n1 h1
                simp only [csLoop] at h1 ⊢
                have hn1 : n1 = [] := by
                  have hlen := congrArg List.length h1
                  rw [List.length_append] at hlen
                  exact List.length_eq_zero_iff.mp (by omega)
                simp [hn1]
              | cons d ds ihd =>
                intro l1 l2 p e1 e2 e3 n1 h1
                simp only [csLoop] at h1 ⊢
                -- one step on both
                have s1 : (csStep cfg ext hrep l1 p d).st = (csStep cfg ext hrep l2 p d).st ∧
                    (csStep cfg ext hrep l1 p d).needleChar = (csStep cfg ext hrep l2 p d).needleChar ∧
                    (csStep cfg ext hrep l1 p d).rest = (csStep cfg ext hrep l2 p d).rest ∧
                    (((csStep cfg ext hrep l1 p d).idxRev = l1.idxRev ∧ (csStep cfg ext hrep l2 p d).idxRev = l2.idxRev) ∨
                     ((csStep cfg ext hrep l1 p d).idxRev = p :: l1.idxRev ∧ (csStep cfg ext hrep l2 p d).idxRev = p :: l2.idxRev)) := by
                  unfold csStep
                  rw [e1, e2, e3]
                  split
                  · split <;> simp
                  · simp
                obtain ⟨a1, a2, a3, a4⟩ := s1
                obtain ⟨m, hm⟩ := csLoop_idx_suffix cfg ext hrep ds (csStep cfg ext hrep l1 p d) (p + 1)
                have := ihd _ _ (p + 1) a1 a2 a3 m hm
                rcases a4 with ⟨b1, b2⟩ | ⟨b1, b2⟩
                · rw [hm, b1] at h1
                  have : m = n1 := List.append_cancel_right h1
                  subst this
                  rw [‹(csLoop cfg ext hrep (csStep cfg ext hrep l2 p d) (p + 1) ds).idxRev = m ++ (csStep cfg ext hrep l2 p d).idxRev›, b2]
                · rw [hm, b1] at h1
                  have : m ++ [p] = n1 := by
                    apply List.append_cancel_right (bs := l1.idxRev)
                    simpa using h1
                  subst this
                  rw [‹(csLoop cfg ext hrep (csStep cfg ext hrep l2 p d) (p + 1) ds).idxRev = m ++ (csStep cfg ext hrep l2 p d).idxRev›, b2]
                  simp
            have h2 := hsame cs (csStep cfg ext hrep l pos c) { (csStep cfg ext hrep l pos c) with idxRev := [] } (pos + 1) rfl rfl rfl new hnew
            simp only [List.append_nil] at h2
            rw [h2] at this
            exact (this.1 x hx).1
          have := key pos hm; omega
        · have := hlt pos hm; omega
      rw [hnot] at hsat ⊢
      simp only [Bool.false_eq_true, if_false] at hsat ⊢
      apply ih (csStep cfg ext hrep l pos c) (pos + 1) _ F
      · rw [hst]; exact stepSkip_rel l.st t (charClass cfg ext c) hrel
      · intro x hx; rw [hidx] at hx; have := hlt x hx; omega
      · rw [hidx]; exact hpw
      · exact hF
      · exact hsat.2


theorem NoSat_final (white delim : Nat) (cls : Nat → CharClass) (is : List Nat) :
    ∀ (cs : List Nat) (s : SSt) (col : Nat), s.score ≤ 65535 → NoSat white delim cls is s col cs →
      (sWalk white delim cls is s col cs).score ≤ 65535 := by
  intro cs
  induction cs with
  | nil => intro s col h _; simpa [sWalk] using h
  | cons c cs ih =>
    intro s col _ hn
    simp only [NoSat] at hn
    simp only [sWalk]
    exact ih _ _ hn.1 hn.2

/-- "the `u16` accumulator never saturates while the scheme is applied to alignment `is`" -/
def alignNoSat (cfg : Cfg) (ext : Ext) (h : List Nat) (is : List Nat) : Prop :=
  match is with
  | [] => True
  | first :: _ =>
    let last := is.getLast?.getD first
    let cls := charClass cfg ext
    let prev := if first = 0 then cfg.initial else (h[first - 1]?.map cls).getD cfg.initial
    match h.drop first with
    | [] => True
    | c0 :: rest =>
      NoSat cfg.white cfg.delim cls is (sInit cfg.white cfg.delim prev (cls c0)) (first + 1) (rest.take (last - first))

theorem sInit_small (cfg : Cfg) (prev cls : CharClass) (hw : cfg.white ≤ 10) (hd : cfg.delim ≤ 10) :
    (sInit cfg.white cfg.delim prev cls).score ≤ 65535 := by
  cases prev <;> cases cls <;> simp [sInit, specBonus] <;> omega

/-- **`calculate_score` returns exactly the fzf scheme's value of the alignment it reports** — for every
    configuration (bonus constants ≤ 10, which all presets satisfy), haystack, needle and window
    `[start, end)` that ends at the last matched character (every call site passes such a window), with
    prefix preference off, as long as the `u16` accumulator does not saturate (the saturated case is
    the known finding `score_exceeds_u16`). -/
theorem C03_calculateScore_eq_alignScore (cfg : Cfg) (ext : Ext) (hrep : Rep) (h : List Nat) (n0 : Nat) (nrest : List Nat)
    (start end_ : Nat) (hse : start < end_) (he : end_ ≤ h.length)
    (hw : cfg.white ≤ 10) (hd : cfg.delim ≤ 10) (hpp : cfg.preferPrefix = false)
    (htight : ((calculateScore cfg ext hrep h (n0 :: nrest) start end_).2.getLast?.getD start) + 1 = end_)
    (hns : alignNoSat cfg ext h (calculateScore cfg ext hrep h (n0 :: nrest) start end_).2) :
    (calculateScore cfg ext hrep h (n0 :: nrest) start end_).1 =
      alignScore cfg ext h (calculateScore cfg ext hrep h (n0 :: nrest) start end_).2 := by
  unfold calculateScore at *
  cases hdrop : h.drop start with
  | nil =>
    have : (h.drop start).length = 0 := by rw [hdrop]; rfl
    simp at this; omega
  | cons c0 hrest =>
    simp only [hdrop] at htight hns ⊢
    -- the loop's final state and its index list
    generalize hl : csRun cfg ext hrep h n0 nrest c0 hrest start end_ = l at *
    unfold csRun at hl
    obtain ⟨new, hnew⟩ := csLoop_idx_suffix cfg ext hrep (hrest.take (end_ - (start + 1)))
      { st := stInit cfg (prevClassAt cfg ext h start) (charClass cfg ext c0),
        needleChar := (needleAfterFirst n0 nrest).1, rest := (needleAfterFirst n0 nrest).2, idxRev := [start] } (start + 1)
    rw [hl] at hnew
    simp only at hnew
    have hrev : l.idxRev.reverse = start :: new.reverse := by rw [hnew]; simp
    have hlast : l.idxRev.reverse.getLast?.getD start + 1 = end_ := htight
    -- previous class: the two formulations agree
    have hprev : (if start = 0 then cfg.initial else (h[start - 1]?.map (charClass cfg ext)).getD cfg.initial)
        = prevClassAt cfg ext h start := by
      unfold prevClassAt
      split
      · rfl
      · cases h[start - 1]? <;> rfl
    have hcount : l.idxRev.reverse.getLast?.getD start - start = end_ - (start + 1) := by omega
    -- unfold the specification on this index list
    unfold alignScore alignNoSat at *
    rw [hrev] at hns ⊢
    simp only [hdrop] at hns ⊢
    rw [← hrev] at hns ⊢
    rw [hcount, hprev] at hns ⊢
    have rel := csLoop_rel cfg ext hrep (hrest.take (end_ - (start + 1)))
      { st := stInit cfg (prevClassAt cfg ext h start) (charClass cfg ext c0),
        needleChar := (needleAfterFirst n0 nrest).1, rest := (needleAfterFirst n0 nrest).2, idxRev := [start] }
      (start + 1) (sInit cfg.white cfg.delim (prevClassAt cfg ext h start) (charClass cfg ext c0)) l.idxRev
      (stInit_rel cfg _ _) (by simp) (by simp) (by rw [hl]) hns
    rw [hl] at rel
    have hfin := NoSat_final cfg.white cfg.delim (charClass cfg ext) l.idxRev.reverse _ _ _ (sInit_small cfg _ _ hw hd) hns
    have hp0 : prefixBonusCs cfg start = 0 := by simp [prefixBonusCs, hpp]
    rw [hp0, Nat.add_zero, rel.1]
    exact sat16_of_le hfin

end NucleoVerif

namespace NucleoVerif
open Gen Spec
/-- the hypotheses of `C03_calculateScore_eq_alignScore` are satisfiable: "ab" in "axb" (one gap) -/
example :
    let cfg : Cfg := { delims := [47], white := 10, delim := 9, initial := .whitespace, normalize := false, ignoreCase := false, preferPrefix := false }
    let ext : Ext := fun _ => default
    ((calculateScore cfg ext .ascii [97, 120, 98] [97, 98] 0 3).2.getLast?.getD 0) + 1 = 3 ∧
    (calculateScore cfg ext .ascii [97, 120, 98] [97, 98] 0 3) = (16 + 2 * 10 - 3 + 16, [0, 2]) := by
  decide
end NucleoVerif

namespace NucleoVerif
open Gen Spec

/-! ## the optimal matcher's recurrence against the specification -/

/-- **the optimal matcher's recurrence returns the scheme's value of the alignment it reports** — for every
    configuration, haystack, needle and window, prefix preference off.  Proof: cell invariants `DP.CellInv`
    / `DP.PInv` relate every M and P cell to the specification's state after that column, by induction over
    columns and rows (`Lemmas/DP.lean`).  (The recurrence works on unbounded naturals here; that the `u16`
    cells of the real matrix never saturate on the matrix path is part of the correspondence.) -/
theorem C03_optimalDP_eq_alignScore (cfg : Cfg) (ext : Ext) (hrep : Rep) (h n : List Nat) (start end_ : Nat)
    (hpp : cfg.preferPrefix = false) (sc : Nat) (path : List Nat)
    (hres : optimalDP cfg ext hrep h n start end_ = some (sc, path)) :
    sc = alignScore cfg ext h path :=
  (DP.optimalDP_eq_alignScore cfg ext hrep h n start end_ hpp sc path hres).1

/-- the hypotheses are satisfiable and the statement is not trivial: "ab" in "a/xb" — the recurrence reports the
    alignment [0, 3] with the scheme's value 16 + 2·10 − 3 − 1 + 16 -/
example :
    let cfg : Cfg := { delims := [47], white := 10, delim := 9, initial := .whitespace, normalize := false, ignoreCase := false, preferPrefix := false }
    optimalDP cfg (fun _ => default) .ascii [97, 47, 120, 98] [97, 98] 0 4 = some (16 + 2 * 10 - 3 - 1 + 16, [0, 3]) := by
  decide

end NucleoVerif
