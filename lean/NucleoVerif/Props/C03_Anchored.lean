import NucleoVerif.Props.C02_Anchored
/-! # C03 (companion file) — the score of exact, prefix and postfix matches is the scheme's value of the reported
(contiguous) alignment -/
namespace NucleoVerif
open Gen Spec

theorem getLast?_range' : ∀ (len s : Nat), 0 < len → (List.range' s len).getLast? = some (s + len - 1) := by
  intro len
  induction len with
  | zero => intro s h; omega
  | succ k ih =>
    intro s _
    cases k with
    | zero => simp [List.range'_succ]
    | succ k' =>
      have e : List.range' s (k' + 1 + 1) = s :: (s + 1) :: List.range' (s + 1 + 1) k' := by simp [List.range'_succ]
      rw [e, List.getLast?_cons_cons]
      have e2 : (s + 1) :: List.range' (s + 1 + 1) k' = List.range' (s + 1) (k' + 1) := by simp [List.range'_succ]
      rw [e2, ih (s + 1) (by omega)]
      congr 1; omega

/-- **`exact_match_impl` returns the scheme's value of the contiguous alignment it reports** (prefix preference off,
    accumulator unsaturated) -/
theorem C03_exactImpl_score (cfg : Cfg) (ext : Ext) (hrep nrep : Rep) (h : List Nat) (n0 : Nat) (ns : List Nat) (start end_ : Nat)
    (hk1 : ¬ (hrep = .ascii ∧ nrep = .unicode)) (hn : (n0 :: ns).map (norm cfg nrep) = n0 :: ns)
    (hr : hrep = .ascii → ∀ c ∈ h, c < 128) (hw : cfg.white ≤ 10) (hd : cfg.delim ≤ 10) (hpp : cfg.preferPrefix = false)
    (sc : Nat) (idx : List Nat) (hres : exactImpl cfg ext hrep nrep h (n0 :: ns) start end_ = some (sc, idx))
    (hns : alignNoSat cfg ext h idx) : sc = alignScore cfg ext h idx := by
  obtain ⟨hidx, hlen, hcs⟩ := C02_exactImpl_contiguous cfg ext hrep nrep h n0 ns start end_ hk1 hn hr sc idx hres
  have hsome : (exactImpl cfg ext hrep nrep h (n0 :: ns) start end_).isSome = true := by rw [hres]; rfl
  rw [exactImpl_window cfg ext hrep nrep h _ _ _ hk1 hn] at hsome
  simp only [Bool.and_eq_true, decide_eq_true_eq, beq_iff_eq] at hsome
  have hL : 0 < (n0 :: ns).length := by simp
  have hend : end_ ≤ h.length := by
    have := congrArg List.length hsome.2
    simp only [List.length_take, List.length_drop, normHay, List.length_map] at this
    omega
  have hse : start < end_ := by omega
  have h1 : sc = (calculateScore cfg ext hrep h (n0 :: ns) start end_).1 := by rw [← hcs]
  have h2 : idx = (calculateScore cfg ext hrep h (n0 :: ns) start end_).2 := by rw [← hcs]
  rw [h1, h2]
  apply C03_calculateScore_eq_alignScore cfg ext hrep h n0 ns start end_ hse hend hw hd hpp
  · rw [← h2, hidx, getLast?_range' _ start hL]
    simp only [Option.getD_some]
    omega
  · rw [← h2]; exact hns

/-- prefix, postfix and exact matching return what `exact_match_impl` returns on some window -/
theorem anchored_via_exactImpl (cfg : Cfg) (ext : Ext) (hrep nrep : Rep) (h : List Nat) (n0 : Nat) (ns : List Nat) (r : Nat × List Nat) :
    (prefixMatch cfg ext hrep nrep h (n0 :: ns) = some r ∨ postfixMatch cfg ext hrep nrep h (n0 :: ns) = some r ∨
      exactMatch cfg ext hrep nrep h (n0 :: ns) = some r) →
    ∃ s e, exactImpl cfg ext hrep nrep h (n0 :: ns) s e = some r := by
  rintro (hres | hres | hres)
  · unfold prefixMatch at hres
    simp only at hres
    generalize (if (!isWs n0) = true then leadingWs hrep h else 0) = l at hres
    by_cases hs : h.length - l < (n0 :: ns).length
    · rw [if_pos hs] at hres; cases hres
    · rw [if_neg hs] at hres; exact ⟨_, _, hres⟩
  · unfold postfixMatch at hres
    simp only at hres
    generalize (if (!isWs ((n0 :: ns).getLast?.getD n0)) = true then trailingWs hrep h else 0) = t at hres
    by_cases hs : h.length - t < (n0 :: ns).length
    · rw [if_pos hs] at hres; cases hres
    · rw [if_neg hs] at hres; exact ⟨_, _, hres⟩
  · unfold exactMatch at hres
    simp only at hres
    generalize (if (!isWs n0) = true then leadingWs hrep h else 0) = l at hres
    generalize (if (!isWs ((n0 :: ns).getLast?.getD n0)) = true then trailingWs hrep h else 0) = t at hres
    by_cases hs : t = h.length
    · rw [if_pos hs] at hres; cases hres
    · rw [if_neg hs] at hres; exact ⟨_, _, hres⟩

/-- **prefix, postfix and exact matching return the scheme's value of the alignment they report** -/
theorem C03_anchored_score (cfg : Cfg) (ext : Ext) (hrep nrep : Rep) (h : List Nat) (n0 : Nat) (ns : List Nat)
    (hk1 : ¬ (hrep = .ascii ∧ nrep = .unicode)) (hn : (n0 :: ns).map (norm cfg nrep) = n0 :: ns)
    (hr : hrep = .ascii → ∀ c ∈ h, c < 128) (hw : cfg.white ≤ 10) (hd : cfg.delim ≤ 10) (hpp : cfg.preferPrefix = false)
    (sc : Nat) (idx : List Nat)
    (hres : prefixMatch cfg ext hrep nrep h (n0 :: ns) = some (sc, idx) ∨ postfixMatch cfg ext hrep nrep h (n0 :: ns) = some (sc, idx) ∨
      exactMatch cfg ext hrep nrep h (n0 :: ns) = some (sc, idx))
    (hns : alignNoSat cfg ext h idx) : sc = alignScore cfg ext h idx := by
  obtain ⟨s, e, he⟩ := anchored_via_exactImpl cfg ext hrep nrep h n0 ns (sc, idx) hres
  exact C03_exactImpl_score cfg ext hrep nrep h n0 ns s e hk1 hn hr hw hd hpp sc idx he hns

end NucleoVerif
