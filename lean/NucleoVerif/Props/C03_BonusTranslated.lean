import NucleoVerif.Model.Score
import NucleoVerif.Gen.Bonus
/-! # C03 (companion file) — `Config::bonus_for`, translated from the source, is the model's `bonusFor`

`Gen/Bonus.lean` is regenerated on every run from `matcher/src/score.rs` (the guard on the class, the arms of the match on
the previous class, the if-chain behind it) and `matcher/src/chars.rs` (the declaration order of `CharClass`, which the
derived `PartialOrd` compares by).  The bonus theorems of C03 (`bonus_for` = the documented 7×7 table for every
configuration) are about `bonusFor`; the two are the same function of the two classes and the configured boundary
bonuses. -/
namespace NucleoVerif
open Gen

theorem C03_translated_bonus_for (cfg : Cfg) (prev cls : CharClass) :
    bonusFor cfg prev cls = Gen.Bonus.bonus_for cfg.white cfg.delim prev.rank cls.rank := by
  cases prev <;> cases cls <;> simp [bonusFor, Gen.Bonus.bonus_for, CharClass.rank]

end NucleoVerif
