import NucleoVerif.Props.C03
import NucleoVerif.Props.C02
/-! # C03 (companion file) — the scheme's value is linear in the needle length: no wrap-around below 2520 characters

"The value never wraps around for long needles."  The model computes scores in `Nat`, the code in `u16` (saturating
since the repair of K3).  `C03_scheme_bound`: the documented scheme evaluated on any alignment of `L` distinct indices is
at most `(16 + B)·L + B`, `B` the largest bonus (10 for the default configuration, 9 with the path preset's values …),
and so is every intermediate value (the running score only grows at matched characters).  Hence for needles of up to
2519 characters every value the code computes is below 2^16 and the `u16` arithmetic is exact; beyond that the known
finding K3 (saturation instead of the exact value) applies. -/
namespace NucleoVerif
open Gen Spec

/-- the largest bonus the scheme hands out -/
def bonusCap (white delim : Nat) : Nat := max (max white delim) 8

theorem specBonus_le (white delim : Nat) (prev cls : CharClass) : specBonus white delim prev cls ≤ bonusCap white delim := by
  unfold specBonus bonusCap
  simp only
  split
  · omega
  · split
    · omega
    · split
      · omega
      · split
        · omega
        · split
          · omega
          · split <;> omega

/-- how many of the columns `col, col+1, …, col+n-1` are matched ones -/
def walkMatches (is : List Nat) : Nat → Nat → Nat
  | _, 0 => 0
  | col, n + 1 => (if is.contains col then 1 else 0) + walkMatches is (col + 1) n

theorem sWalk_bound (white delim : Nat) (cls : Nat → CharClass) (is : List Nat) :
    ∀ (cs : List Nat) (s : SSt) (col m : Nat), s.runBonus ≤ bonusCap white delim →
      s.score ≤ 16 * m + bonusCap white delim * (m + 1) →
      (sWalk white delim cls is s col cs).score ≤
        16 * (m + walkMatches is col cs.length) + bonusCap white delim * (m + walkMatches is col cs.length + 1) := by
  intro cs
  induction cs with
  | nil => intro s col m _ h2; simpa [sWalk, walkMatches] using h2
  | cons c cs ih =>
    intro s col m h1 h2
    simp only [sWalk, List.length_cons, walkMatches]
    have hB : 8 ≤ bonusCap white delim := by unfold bonusCap; omega
    by_cases hc : is.contains col = true
    · simp only [hc, if_true]
      have hb := specBonus_le white delim s.prev (cls c)
      have key : (sMatch white delim s (cls c)).runBonus ≤ bonusCap white delim ∧
          (sMatch white delim s (cls c)).score ≤ 16 * (m + 1) + bonusCap white delim * (m + 1 + 1) := by
        unfold sMatch
        simp only
        split
        · constructor
          · show (if _ then _ else _) ≤ _
            split <;> omega
          · show s.score + 16 + max (max _ (if _ then _ else _)) 4 ≤ _
            have : max (max (specBonus white delim s.prev (cls c))
                (if specBonus white delim s.prev (cls c) ≥ 8 ∧ specBonus white delim s.prev (cls c) > s.runBonus then specBonus white delim s.prev (cls c) else s.runBonus)) 4
                ≤ bonusCap white delim := by
              split <;> omega
            have e : bonusCap white delim * (m + 1 + 1) = bonusCap white delim * (m + 1) + bonusCap white delim := by
              rw [Nat.mul_add, Nat.mul_one]
            omega
        · constructor
          · exact hb
          · show s.score + 16 + specBonus white delim s.prev (cls c) ≤ _
            have e : bonusCap white delim * (m + 1 + 1) = bonusCap white delim * (m + 1) + bonusCap white delim := by
              rw [Nat.mul_add, Nat.mul_one]
            omega
      have := ih _ (col + 1) (m + 1) key.1 key.2
      have e : m + (1 + walkMatches is (col + 1) cs.length) = m + 1 + walkMatches is (col + 1) cs.length := by omega
      rw [e]; exact this
    · have hc' : is.contains col = false := by simpa using hc
      simp only [hc', Bool.false_eq_true, if_false, Nat.zero_add]
      have key : (sSkip s (cls c)).runBonus ≤ bonusCap white delim ∧ (sSkip s (cls c)).score ≤ 16 * m + bonusCap white delim * (m + 1) := by
        unfold sSkip
        exact ⟨h1, by show s.score - _ ≤ _; omega⟩
      exact ih _ (col + 1) m key.1 key.2

/-- distinct indices: the matched columns from `col` on are at most the indices `≥ col` -/
theorem filter_ge_succ (is : List Nat) (hnd : is.Nodup) (col : Nat) (hm : col ∈ is) :
    (is.filter (fun i => decide (col ≤ i))).length = (is.filter (fun i => decide (col + 1 ≤ i))).length + 1 := by
  induction is with
  | nil => cases hm
  | cons a t ih =>
    have hnd' := (List.nodup_cons.mp hnd)
    by_cases ha : a = col
    · subst ha
      have hnot : a ∉ t := hnd'.1
      -- no other occurrence of `a`: on `t` the two filters agree
      have ht : t.filter (fun i => decide (a ≤ i)) = t.filter (fun i => decide (a + 1 ≤ i)) := by
        apply List.filter_congr
        intro x hx
        have : x ≠ a := fun e => hnot (e ▸ hx)
        simp only [decide_eq_decide]
        omega
      simp only [List.filter_cons, Nat.le_refl, decide_true, if_true, List.length_cons, ht]
      have : ¬ (a + 1 ≤ a) := by omega
      simp [this]
    · have hm' : col ∈ t := by
        rcases List.mem_cons.mp hm with e | e
        · exact absurd e.symm ha
        · exact e
      have := ih hnd'.2 hm'
      simp only [List.filter_cons]
      by_cases h1 : col ≤ a
      · have h2 : col + 1 ≤ a := by omega
        simp only [h1, h2, decide_true, if_true, List.length_cons, this]
      · have h2 : ¬ (col + 1 ≤ a) := by omega
        simp only [h1, h2, decide_false, Bool.false_eq_true, if_false, this]

theorem filter_ge_mono (is : List Nat) (col : Nat) :
    (is.filter (fun i => decide (col + 1 ≤ i))).length ≤ (is.filter (fun i => decide (col ≤ i))).length := by
  induction is with
  | nil => simp
  | cons a t ih =>
    simp only [List.filter_cons]
    by_cases h1 : col + 1 ≤ a
    · have h2 : col ≤ a := by omega
      simp only [h1, h2, decide_true, if_true, List.length_cons]; omega
    · by_cases h2 : col ≤ a
      · simp only [h1, h2, decide_true, decide_false, Bool.false_eq_true, if_true, if_false, List.length_cons]; omega
      · simp only [h1, h2, decide_false, Bool.false_eq_true, if_false]; exact ih

theorem walkMatches_le (is : List Nat) (hnd : is.Nodup) : ∀ (n col : Nat),
    walkMatches is col n ≤ (is.filter (fun i => decide (col ≤ i))).length := by
  intro n
  induction n with
  | zero => intro col; simp [walkMatches]
  | succ n ih =>
    intro col
    simp only [walkMatches]
    by_cases hc : is.contains col = true
    · simp only [hc, if_true]
      have hm : col ∈ is := by simpa using hc
      rw [filter_ge_succ is hnd col hm]
      have := ih (col + 1)
      omega
    · have hc' : is.contains col = false := by simpa using hc
      simp only [hc', Bool.false_eq_true, if_false, Nat.zero_add]
      exact Nat.le_trans (ih (col + 1)) (filter_ge_mono is col)

/-- **the scheme's value on an alignment of `L` distinct indices is at most `(16 + B)·L + B`** -/
theorem C03_scheme_bound (cfg : Cfg) (ext : Ext) (h : List Nat) (is : List Nat) (hnd : is.Nodup) :
    alignScore cfg ext h is ≤ (16 + bonusCap cfg.white cfg.delim) * is.length + bonusCap cfg.white cfg.delim := by
  unfold alignScore
  cases is with
  | nil => simp
  | cons first tl =>
    simp only
    cases hd : h.drop first with
    | nil => simp
    | cons c0 rest =>
      simp only
      have hinit : (sInit cfg.white cfg.delim (if first = 0 then cfg.initial else (h[first - 1]?.map (charClass cfg ext)).getD cfg.initial) (charClass cfg ext c0)).runBonus ≤ bonusCap cfg.white cfg.delim ∧
          (sInit cfg.white cfg.delim (if first = 0 then cfg.initial else (h[first - 1]?.map (charClass cfg ext)).getD cfg.initial) (charClass cfg ext c0)).score ≤ 16 * 1 + bonusCap cfg.white cfg.delim * (1 + 1) := by
        unfold sInit
        simp only
        have := specBonus_le cfg.white cfg.delim (if first = 0 then cfg.initial else (h[first - 1]?.map (charClass cfg ext)).getD cfg.initial) (charClass cfg ext c0)
        constructor
        · exact this
        · omega
      have hw := sWalk_bound cfg.white cfg.delim (charClass cfg ext) (first :: tl)
        (rest.take ((first :: tl).getLast?.getD first - first)) _ (first + 1) 1 hinit.1 hinit.2
      refine Nat.le_trans hw ?_
      -- the matched columns behind `first` are among the other indices
      have hcnt : walkMatches (first :: tl) (first + 1) (rest.take ((first :: tl).getLast?.getD first - first)).length ≤ tl.length := by
        refine Nat.le_trans (walkMatches_le (first :: tl) hnd _ (first + 1)) ?_
        simp only [List.filter_cons]
        have : ¬ (first + 1 ≤ first) := by omega
        simp only [this, decide_false, Bool.false_eq_true, if_false]
        exact List.length_filter_le _ _
      generalize walkMatches (first :: tl) (first + 1) (rest.take ((first :: tl).getLast?.getD first - first)).length = w at hcnt
      simp only [List.length_cons]
      generalize bonusCap cfg.white cfg.delim = B
      have e1 : (16 + B) * (tl.length + 1) = 16 * (tl.length + 1) + B * (tl.length + 1) := by rw [Nat.add_mul]
      have e2 : B * (1 + w + 1) ≤ B * (tl.length + 1) + B := by
        have : B * (1 + w + 1) = B * (w + 1) + B := by rw [show 1 + w + 1 = (w + 1) + 1 by omega, Nat.mul_add, Nat.mul_one]
        rw [this]
        have : B * (w + 1) ≤ B * (tl.length + 1) := Nat.mul_le_mul_left B (by omega)
        omega
      omega

/-- **no wrap-around below 2520 characters**: with the bonus values of both presets (largest bonus 10) the scheme's value
    on any alignment of at most 2519 distinct indices — and every intermediate value, which is the value on a shorter
    alignment — is below `2^16` -/
theorem C03_fits_u16 (cfg : Cfg) (ext : Ext) (h : List Nat) (is : List Nat) (hnd : is.Nodup)
    (hw : cfg.white ≤ 10) (hdl : cfg.delim ≤ 10) (hlen : is.length ≤ 2519) :
    alignScore cfg ext h is < 65536 := by
  have hb := C03_scheme_bound cfg ext h is hnd
  have hB : bonusCap cfg.white cfg.delim ≤ 10 := by unfold bonusCap; omega
  generalize bonusCap cfg.white cfg.delim = B at hb hB
  have : (16 + B) * is.length ≤ 26 * 2519 := Nat.mul_le_mul (by omega) hlen
  omega

theorem NoSat_of_bound (white delim : Nat) (cls : Nat → CharClass) (is : List Nat) :
    ∀ (cs : List Nat) (s : SSt) (col m : Nat), s.runBonus ≤ bonusCap white delim →
      s.score ≤ 16 * m + bonusCap white delim * (m + 1) →
      16 * (m + walkMatches is col cs.length) + bonusCap white delim * (m + walkMatches is col cs.length + 1) ≤ 65535 →
      NoSat white delim cls is s col cs := by
  intro cs
  induction cs with
  | nil => intro s col m _ _ _; trivial
  | cons c cs ih =>
    intro s col m h1 h2 htot
    simp only [List.length_cons, walkMatches] at htot
    simp only [NoSat]
    have hB : 8 ≤ bonusCap white delim := by unfold bonusCap; omega
    by_cases hc : is.contains col = true
    · simp only [hc, if_true] at htot ⊢
      have hb := specBonus_le white delim s.prev (cls c)
      have key : (sMatch white delim s (cls c)).runBonus ≤ bonusCap white delim ∧
          (sMatch white delim s (cls c)).score ≤ 16 * (m + 1) + bonusCap white delim * (m + 1 + 1) := by
        unfold sMatch
        simp only
        split
        · constructor
          · show (if _ then _ else _) ≤ _
            split <;> omega
          · show s.score + 16 + max (max _ (if _ then _ else _)) 4 ≤ _
            have : max (max (specBonus white delim s.prev (cls c))
                (if specBonus white delim s.prev (cls c) ≥ 8 ∧ specBonus white delim s.prev (cls c) > s.runBonus then specBonus white delim s.prev (cls c) else s.runBonus)) 4
                ≤ bonusCap white delim := by
              split <;> omega
            have e : bonusCap white delim * (m + 1 + 1) = bonusCap white delim * (m + 1) + bonusCap white delim := by
              rw [Nat.mul_add, Nat.mul_one]
            omega
        · constructor
          · exact hb
          · show s.score + 16 + specBonus white delim s.prev (cls c) ≤ _
            have e : bonusCap white delim * (m + 1 + 1) = bonusCap white delim * (m + 1) + bonusCap white delim := by
              rw [Nat.mul_add, Nat.mul_one]
            omega
      have e : m + (1 + walkMatches is (col + 1) cs.length) = m + 1 + walkMatches is (col + 1) cs.length := by omega
      rw [e] at htot
      refine ⟨?_, ih _ (col + 1) (m + 1) key.1 key.2 htot⟩
      -- the state's own score is below the total bound
      have hmono : 16 * (m + 1) + bonusCap white delim * (m + 1 + 1) ≤
          16 * (m + 1 + walkMatches is (col + 1) cs.length) + bonusCap white delim * (m + 1 + walkMatches is (col + 1) cs.length + 1) := by
        have a1 : 16 * (m + 1) ≤ 16 * (m + 1 + walkMatches is (col + 1) cs.length) := Nat.mul_le_mul_left 16 (by omega)
        have a2 : bonusCap white delim * (m + 1 + 1) ≤ bonusCap white delim * (m + 1 + walkMatches is (col + 1) cs.length + 1) :=
          Nat.mul_le_mul_left _ (by omega)
        omega
      omega
    · have hc' : is.contains col = false := by simpa using hc
      simp only [hc', Bool.false_eq_true, if_false, Nat.zero_add] at htot ⊢
      have key : (sSkip s (cls c)).runBonus ≤ bonusCap white delim ∧ (sSkip s (cls c)).score ≤ 16 * m + bonusCap white delim * (m + 1) := by
        unfold sSkip
        exact ⟨h1, by show s.score - _ ≤ _; omega⟩
      refine ⟨?_, ih _ (col + 1) m key.1 key.2 htot⟩
      have hmono : 16 * m + bonusCap white delim * (m + 1) ≤
          16 * (m + walkMatches is (col + 1) cs.length) + bonusCap white delim * (m + walkMatches is (col + 1) cs.length + 1) := by
        have a1 : 16 * m ≤ 16 * (m + walkMatches is (col + 1) cs.length) := Nat.mul_le_mul_left 16 (by omega)
        have a2 : bonusCap white delim * (m + 1) ≤ bonusCap white delim * (m + walkMatches is (col + 1) cs.length + 1) :=
          Nat.mul_le_mul_left _ (by omega)
        omega
      omega

/-- **below 2520 characters the `u16` accumulator never saturates** while the scheme is applied to an alignment of distinct
    indices (both presets' bonus values) -/
theorem alignNoSat_of_short (cfg : Cfg) (ext : Ext) (h : List Nat) (is : List Nat) (hnd : is.Nodup)
    (hw : cfg.white ≤ 10) (hdl : cfg.delim ≤ 10) (hlen : is.length ≤ 2519) : alignNoSat cfg ext h is := by
  unfold alignNoSat
  cases is with
  | nil => trivial
  | cons first tl =>
    simp only
    cases hd : h.drop first with
    | nil => trivial
    | cons c0 rest =>
      simp only
      have hB : bonusCap cfg.white cfg.delim ≤ 10 := by unfold bonusCap; omega
      have hinit : (sInit cfg.white cfg.delim (if first = 0 then cfg.initial else (h[first - 1]?.map (charClass cfg ext)).getD cfg.initial) (charClass cfg ext c0)).runBonus ≤ bonusCap cfg.white cfg.delim ∧
          (sInit cfg.white cfg.delim (if first = 0 then cfg.initial else (h[first - 1]?.map (charClass cfg ext)).getD cfg.initial) (charClass cfg ext c0)).score ≤ 16 * 1 + bonusCap cfg.white cfg.delim * (1 + 1) := by
        unfold sInit
        simp only
        have := specBonus_le cfg.white cfg.delim (if first = 0 then cfg.initial else (h[first - 1]?.map (charClass cfg ext)).getD cfg.initial) (charClass cfg ext c0)
        exact ⟨this, by omega⟩
      refine NoSat_of_bound cfg.white cfg.delim (charClass cfg ext) (first :: tl) _ _ (first + 1) 1 hinit.1 hinit.2 ?_
      have hcnt : walkMatches (first :: tl) (first + 1) (rest.take ((first :: tl).getLast?.getD first - first)).length ≤ tl.length := by
        refine Nat.le_trans (walkMatches_le (first :: tl) hnd _ (first + 1)) ?_
        simp only [List.filter_cons]
        have : ¬ (first + 1 ≤ first) := by omega
        simp only [this, decide_false, Bool.false_eq_true, if_false]
        exact List.length_filter_le _ _
      generalize walkMatches (first :: tl) (first + 1) (rest.take ((first :: tl).getLast?.getD first - first)).length = w at hcnt
      simp only [List.length_cons] at hlen
      generalize bonusCap cfg.white cfg.delim = B at hB
      have a1 : 16 * (1 + w) ≤ 16 * 2519 := Nat.mul_le_mul_left 16 (by omega)
      have a2 : B * (1 + w + 1) ≤ 10 * 2520 := Nat.mul_le_mul hB (by omega)
      omega


/-- **`calculate_score` = the scheme on its alignment, without a saturation hypothesis**: for at most 2519 reported indices
    (needles of that length) the side condition of `C03_calculateScore_eq_alignScore` holds by itself -/
theorem C03_calculateScore_eq_alignScore_short (cfg : Cfg) (ext : Ext) (hrep : Rep) (h : List Nat) (n0 : Nat) (nrest : List Nat)
    (start end_ : Nat) (hse : start < end_) (he : end_ ≤ h.length)
    (hw : cfg.white ≤ 10) (hd : cfg.delim ≤ 10) (hpp : cfg.preferPrefix = false)
    (htight : ((calculateScore cfg ext hrep h (n0 :: nrest) start end_).2.getLast?.getD start) + 1 = end_)
    (hlen : (calculateScore cfg ext hrep h (n0 :: nrest) start end_).2.length ≤ 2519) :
    (calculateScore cfg ext hrep h (n0 :: nrest) start end_).1 =
      alignScore cfg ext h (calculateScore cfg ext hrep h (n0 :: nrest) start end_).2 := by
  have hpw := (C02_calculateScore_indices cfg ext hrep h (n0 :: nrest) start end_ hse he).1
  have hnd : (calculateScore cfg ext hrep h (n0 :: nrest) start end_).2.Nodup := hpw.imp (fun hab => Nat.ne_of_lt hab)
  exact C03_calculateScore_eq_alignScore cfg ext hrep h n0 nrest start end_ hse he hw hd hpp htight
    (alignNoSat_of_short cfg ext h _ hnd hw hd hlen)

end NucleoVerif
